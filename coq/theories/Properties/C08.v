(* Properties/C08.v -- A failed response write never corrupts the connection.
   Only property-level statements; each is closed by [exact <lemma>].
   Model: Model/WriteFail.v (HttpConn::write_response with its AsyncWriteCounter accounting,
   shutdown_write, the error path of handle_http_conn) over Model/Response.v (write_http_response)
   with ARBITRARY scripted writers (Model/IOSched.v: any per-call acceptance counts, an error at any
   call, a failure after any number of bytes, a failing flush) and ARBITRARY body sources (open
   failure, short data, read error at any read).  [reason] / [ct_text] are arbitrary tables. *)
From SV Require Import Base.Bytes Base.BytesP Model.Headers Model.IOSched Spec.ChunkDecode Model.Chunked
                       Spec.RespParse Model.Response Model.WriteFail
                       Proofs.IOSchedP Proofs.ChunkedP Proofs.RespParseP Proofs.ResponseP Proofs.WriteFailP.
From SV Require Import Base.SrcAst Generated.SourceParams Tie.WriteResponseTie Tie.ResponseTie.

(* C08.1  failed_write_is_prefix.  For every response, close flag, writer and body source: the bytes
   accepted by the writer are a prefix of the one correct serialisation [full_wire] (head, then the
   declared-length prefix of what the source holds, resp. the chunked coding of what it delivers);
   Ok means all of it was accepted AND the body source really held the declared body (a missing or
   short source is never reported Ok); a response that is refused (non-Normal, or colliding fields)
   leaves the writer untouched. *)
Theorem c08_failed_write_is_prefix :
  forall reason ct_text r close w res wire w',
    write_http_response reason ct_text r close w = (res, wire, w') ->
    if r_normal r && negb (collides r)
    then (exists suf, full_wire reason ct_text r close = wire ++ suf) /\
         match res with
         | None => wire = full_wire reason ct_text r close /\ body_deliverable (r_body r) = true
         | Some e => is_dup e = false
         end
    else wire = [] /\ w' = w /\ exists e, res = Some e.
Proof. exact ser_spec. Qed.

(* C08.2  partial_then_shutdown + nothing_after_shutdown.  On a connection that owes a response: if
   write_response fails after at least one byte was accepted (the AsyncWriteCounter is non-zero),
   the write side is shut down, what was sent is a prefix of that response's serialisation, and NO
   later write_response call -- for any list of responses -- adds a single byte (in particular no
   second status line). *)
Theorem c08_partial_then_shutdown :
  forall reason ct_text c r e c' rs,
    c_ws c = WsResponse -> conn_write_response reason ct_text c r = (Some e, c') -> c_wire c' <> c_wire c ->
    c_ws c' = WsShutdown /\
    (exists acc suf, c_wire c' = c_wire c ++ acc /\ full_wire reason ct_text r (closes (r_code r)) = acc ++ suf) /\
    conn_write_many reason ct_text c' rs = c'.
Proof. exact partial_then_shutdown. Qed.

Theorem c08_nothing_after_shutdown :
  forall reason ct_text rs c, c_ws c = WsShutdown -> conn_write_many reason ct_text c rs = c.
Proof. exact write_many_shutdown. Qed.

(* C08.3  zero_bytes_keeps_owed.  The connection [c] is ARBITRARY apart from owing a response: its
   wire [c_wire c] may already hold any number of bytes (earlier complete responses of a kept-alive
   connection, the 100-continue of this exchange); "no byte accepted" means no byte of THIS call
   (c_wire c' = c_wire c), which is what the per-call AsyncWriteCounter measures.
   If write_response fails with no byte accepted, the state is still
   "response owed" (no shutdown call), and the single 500 answer written next is emitted as a prefix of
   its own serialisation -- the whole of it when that write succeeds -- after which the write side is
   shut down. *)
Theorem c08_zero_bytes_keeps_owed :
  forall reason ct_text c r e c',
    c_ws c = WsResponse -> conn_write_response reason ct_text c r = (Some e, c') -> c_wire c' = c_wire c ->
    c_ws c' = WsResponse /\ c_shutdowns c' = c_shutdowns c /\
    forall r500 res2 c'', r_normal r500 = true -> collides r500 = false -> closes (r_code r500) = true ->
      conn_write_response reason ct_text c' r500 = (res2, c'') ->
      exists acc, c_wire c'' = c_wire c ++ acc /\
                  (exists suf, full_wire reason ct_text r500 true = acc ++ suf) /\
                  (res2 = None -> acc = full_wire reason ct_text r500 true /\ c_ws c'' = WsShutdown) /\
                  (acc <> [] -> c_ws c'' = WsShutdown).
Proof. exact zero_bytes_keeps_owed. Qed.

(* ... and with a never-failing socket and a sound body the 500 IS emitted whole *)
Theorem c08_following_500_emitted_whole :
  forall reason ct_text c r500,
    c_ws c = WsResponse -> r_normal r500 = true -> collides r500 = false -> body_sound (r_body r500) = true ->
    writer_errfree (c_writer c) = true ->
    exists c', conn_write_response reason ct_text c r500 = (None, c') /\
               c_wire c' = c_wire c ++ full_wire reason ct_text r500 (closes (r_code r500)).
Proof. exact following_500_whole. Qed.

(* C08.4  conn_loop_error_path.  The match of handle_http_conn on the result: after a failure with
   bytes on the wire, the attempt to send the 500 answer emits nothing; after any failure the
   connection ends shut down, or (disconnect with nothing sent) untouched. *)
Theorem c08_conn_loop_error_path :
  forall reason ct_text c r r500, c_ws c = WsResponse ->
    let '(res, res2, c2) := conn_exchange reason ct_text c r r500 in
    let c1 := snd (conn_write_response reason ct_text c r) in
    (c_wire c1 <> c_wire c -> res <> None -> c_wire c2 = c_wire c1) /\
    (res <> None -> c_ws c2 = WsShutdown \/ (c_wire c2 = c_wire c /\ res2 = None)).
Proof. exact error_path_after_partial. Qed.

(* C08.5  The oracles evaluated by the correspondence check on the implementation's observations are
   true of the model: serializer level for EVERY writer and body source; connection level for every
   connection that owes a response, every socket behaviour and every first response. *)
Theorem c08_oracle_ser_sound :
  forall reason ct_text r close w,
    let '(res, wire, _) := write_http_response reason ct_text r close w in
    oracle_c08_ser reason ct_text r close res wire = true.
Proof. exact oracle_c08_ser_model. Qed.

Theorem c08_oracle_conn_sound :
  forall reason ct_text c r r500,
    c_ws c = WsResponse -> c_wire c = [] -> r_normal r500 = true -> collides r500 = false ->
    let '(res, res2, c2) := conn_exchange reason ct_text c r r500 in
    oracle_c08_conn reason ct_text r r500 res (c_ws (snd (conn_write_response reason ct_text c r))) res2 (c_wire c2) = true.
Proof. exact oracle_c08_conn_model. Qed.

(* C08.6  The same with earlier traffic made explicit.  (a) For a connection whose prior wire is
   ARBITRARY the exchange only appends to it, and what it appends obeys the connection-level oracle.
   (b) A session: any list of earlier successful non-closing responses (complete 2xx answers of
   earlier requests and/or a 100-continue), then the response under test, then the error path: the
   client gets exactly the earlier responses followed by bytes that obey the oracle -- so a response
   refused with zero bytes is still followed by the one whole 500 however much was sent before. *)
Theorem c08_oracle_conn_any_prior :
  forall reason ct_text c r r500,
    c_ws c = WsResponse -> r_normal r500 = true -> collides r500 = false ->
    let '(res, res2, c2) := conn_exchange reason ct_text c r r500 in
    exists x, c_wire c2 = c_wire c ++ x /\
              oracle_c08_conn reason ct_text r r500 res (c_ws (snd (conn_write_response reason ct_text c r))) res2 x = true.
Proof. exact oracle_c08_conn_any_prior. Qed.

Theorem c08_oracle_session_sound :
  forall reason ct_text c pre r r500,
    c_ws c <> WsShutdown -> c_wire c = [] -> writer_errfree (c_writer c) = true ->
    forallb prefix_resp_ok pre = true -> r_normal r500 = true -> collides r500 = false ->
    let '(res, st1, res2, c2) := conn_session reason ct_text c pre r r500 in
    oracle_c08_session reason ct_text pre r r500 res st1 res2 (c_wire c2) = true.
Proof. exact oracle_c08_session_model. Qed.

(* non-vacuity of C08.6: a complete 200 and a 100-continue were sent, then a response with a duplicated
   content-length is refused with zero bytes: still owed, and the 500 goes out whole after the earlier bytes *)
Example c08_session_nonvacuous :
  let reason := fun _ : N => [79;75] in
  let ct := fun _ : nat => [116;47;112] in
  let ok200 := mkResponse true 200 CtNone [] (BKnown 2 true (mkReader [104;105] [])) in
  let r100 := mkResponse true 100 CtNone [] (BKnown 0 true (mkReader [] [])) in
  let bad := mkResponse true 200 CtNone [(s_content_length, [53])] (BKnown 2 true (mkReader [104;105] [])) in
  let r500 := mkResponse true 500 (CtText [116;47;112]) [] (BKnown 2 true (mkReader [110;111] [])) in
  let c := mkConn WsNone writer_all [] 0 in
  let '(res, st1, res2, c2) := conn_session reason ct c [ok200; r100] bad r500 in
  res = Some (CeWrite EDupContentLength) /\ st1 = WsResponse /\ res2 = Some None /\
  c_wire c2 = prior_wire reason ct [ok200; r100] ++ full_wire reason ct r500 true /\
  forallb prefix_resp_ok [ok200; r100] = true.
Proof. vm_compute. repeat split; reflexivity. Qed.

(* non-vacuity: a 200 with a 5-byte body over a socket that fails after 30 bytes: 30 bytes sent,
   shut down, and the 500 of the error path adds nothing; and a missing-file body at offset 0 of a
   dead socket keeps the response owed. *)
Example c08_nonvacuous :
  let reason := fun _ : N => [79;75] in
  let ct := fun _ : nat => [116;47;112] in
  let r := mkResponse true 200 CtNone [] (BKnown 5 true (mkReader [104;101;108;108;111] [])) in
  let r500 := mkResponse true 500 (CtVariant 13) [] (BKnown 2 true (mkReader [110;111] [])) in
  let c := mkConn WsResponse (mkWriter [] (Some 30%nat) true) [] 0 in
  let '(res, res2, c2) := conn_exchange reason ct c r r500 in
  res = Some (CeWrite EDisconnected) /\ length (c_wire c2) = 30%nat /\ c_ws c2 = WsShutdown /\
  (let c0 := mkConn WsResponse (mkWriter [] (Some 0%nat) true) [] 0 in
   let '(res0, c1) := conn_write_response reason ct c0 r in
   res0 = Some (CeWrite EDisconnected) /\ c_ws c1 = WsResponse /\ c_wire c1 = []).
Proof. vm_compute. repeat split; reflexivity. Qed.

(* C08.src  HttpConn::write_response (src/http_conn.rs) after its state guard, as TRANSLATED ON THIS RUN
   (props/srcparams.py -> Generated/SourceParams.v: the 500..=599 close range, the statements of the Ok branch; the
   translator also requires the per-call AsyncWriteCounter, the `else if write_counter.num_bytes_written() > 0
   { self.shutdown_write() }` branch, the returned result and the two statements of shutdown_write), interpreted by
   Tie/WriteResponseTie.v, is the connection model the theorems above are about -- for every connection, writer,
   body source and response; and the `match result { .. }` of handle_http_conn, as translated (src_conn_loop), is the
   model's conn_after_result. *)
Theorem c08_write_response_is_the_source :
  forall reason ct_text c r, eval_write_response reason ct_text c r = conn_write_response reason ct_text c r.
Proof. exact write_response_tie. Qed.
Theorem c08_error_arm_is_the_source :
  forall reason ct_text c res r500,
    wf_eval_after_result reason ct_text c res r500 = conn_after_result reason ct_text c res r500.
Proof. exact after_result_tie. Qed.
Theorem c08_loop_translation_complete : src_problems_conn_loop = 0%nat.
Proof. reflexivity. Qed.
Theorem c08_copy_buffer_is_the_source : copy_cap = N.to_nat src_copy_buf_len /\ src_problems_copy_async = 0%nat.
Proof. exact copy_buf_tie. Qed.
Theorem c08_head_is_the_source :
  forall reason ct_text r close, eval_head reason ct_text r close = build_head reason ct_text false r close.
Proof. exact response_head_tie. Qed.
Theorem c08_serialiser_translation_complete : src_problems_resp_head = 0%nat /\ src_resp_body_shape_ok = true.
Proof. exact resp_head_translated. Qed.
Theorem c08_translation_complete : src_problems_write_response = 0%nat.
Proof. exact write_response_translated. Qed.

Print Assumptions c08_failed_write_is_prefix.
Print Assumptions c08_partial_then_shutdown.
Print Assumptions c08_nothing_after_shutdown.
Print Assumptions c08_zero_bytes_keeps_owed.
Print Assumptions c08_following_500_emitted_whole.
Print Assumptions c08_conn_loop_error_path.
Print Assumptions c08_oracle_ser_sound.
Print Assumptions c08_oracle_conn_sound.
Print Assumptions c08_oracle_conn_any_prior.
Print Assumptions c08_oracle_session_sound.
Print Assumptions c08_write_response_is_the_source.
Print Assumptions c08_translation_complete.
Print Assumptions c08_error_arm_is_the_source.
Print Assumptions c08_loop_translation_complete.
Print Assumptions c08_head_is_the_source.
Print Assumptions c08_serialiser_translation_complete.
Print Assumptions c08_copy_buffer_is_the_source.
