(* Properties/C06.v -- Responses serialise to well-formed HTTP/1.1 that parses back to what was set.
   Only property-level statements; each is closed by [exact <lemma>].
   Model: Model/Response.v (write_http_response, ResponseBody, copy_async over the scripted readers
   and writers of Model/IOSched.v; chunked bodies through Model/Chunked.v).
   Spec: Spec/RespParse.v (independent strict HTTP/1.1 response parser incl. chunked decoding).
   [reason] (reason_phrase) and [ct_text] (ContentType::as_str) are arbitrary: every theorem holds for
   EVERY table; the only thing asked of them is, per response, the boolean [head_ok] (reason phrase
   and content-type text are CR/LF-free printable text) which the check evaluates on the real tables. *)
From SV Require Import Base.Bytes Base.BytesP Model.Headers Model.IOSched Spec.ChunkDecode Model.Chunked
                       Spec.RespParse Model.Response Proofs.IOSchedP Proofs.ChunkedP Proofs.RespParseP Proofs.ResponseP.
From SV Require Import Generated.SourceParams Tie.ContentTypeTie Base.SrcAst Tie.ResponseTie.

(* C06.1  Round trip.  For every table, every response in the property's domain (normal; status
   100..999; any content type whose text is printable without edge blanks; any list of extra fields
   with token names and CR/LF-free printable values without edge blanks; no field colliding with an
   automatic one), every body (known length / chunked; whatever the source's read pattern), every
   close flag and every writer whatsoever: whenever the write returns Ok, the independent parser
   recovers from the accepted bytes exactly the status code, the automatic fields followed by the
   user fields in the order added, and the body bytes, with nothing left over; and the
   Content-Length equals the number of body bytes sent. *)
Theorem c06_serialize_parse_roundtrip :
  forall reason ct_text r close w res wire w',
    head_ok reason ct_text r = true -> collides r = false ->
    write_http_response reason ct_text r close w = (res, wire, w') -> res = None ->
    parse_response wire = Some (r_code r, all_fields ct_text r close, body_payload (r_body r), []) /\
    match body_len (r_body r) with
    | Some n => N.of_nat (length (body_payload (r_body r))) = n
    | None => True
    end.
Proof. exact W_roundtrip. Qed.

(* C06.2  ... and with a sound body source (opens, never fails, at least the declared number of
   bytes) and ANY never-failing writer (every short-write pattern) the write does return Ok and the
   accepted bytes are the one serialisation [full_wire]. *)
Theorem c06_sound_response_is_written :
  forall reason ct_text r close w,
    r_normal r = true -> collides r = false -> body_sound (r_body r) = true -> writer_errfree w = true ->
    exists w', write_http_response reason ct_text r close w = (None, full_wire reason ct_text r close, w')
               /\ writer_errfree w' = true.
Proof. exact W_sound. Qed.

(* C06.3  Partial writes are invisible: for every response whatsoever and every never-failing
   writer, result and accepted bytes equal those of the writer that accepts everything at once. *)
Theorem c06_partial_writes_invisible :
  forall reason ct_text r close w, writer_errfree w = true ->
    fst (write_http_response reason ct_text r close w) = fst (write_http_response reason ct_text r close writer_all).
Proof. exact W_short_writes. Qed.

(* C06.4  Framing is exclusive: among ALL emitted fields (automatic and user) exactly one is a
   Content-Length or Transfer-Encoding field; known length => "content-length: <declared>",
   unknown => "transfer-encoding: chunked"; the parser's framing decision is exactly that. *)
Theorem c06_framing_exclusive :
  forall ct_text r close, collides r = false ->
    framing_count (all_fields ct_text r close) = 1%nat /\
    framing_of (all_fields ct_text r close) =
      Some (match body_len (r_body r) with Some n => FLength n | None => FChunked end).
Proof. intros ct r close H. exact (conj (framing_count_all ct r close H) (framing_of_all ct r close H)). Qed.

(* C06.5  The automatic fields follow fixed rules: content-type iff a type is set, connection: close
   iff closing, then the framing field; and the head written is the status line, these fields, the
   user fields in order, and an empty line. *)
Theorem c06_auto_fields_rules :
  forall reason ct_text r close, r_normal r = true -> collides r = false ->
    build_head reason ct_text false r close =
      inr (status_line reason (r_code r) ++ concat (map field_line (all_fields ct_text r close)) ++ crlf) /\
    all_fields ct_text r close =
      (if ctype_set (r_ctype r) then [(s_content_type, ctype_str ct_text (r_ctype r))] else []) ++
      (if close then [(s_connection, s_close)] else []) ++
      [match body_len (r_body r) with
       | Some n => (s_content_length, dec n)
       | None => (s_transfer_encoding, s_chunked)
       end] ++ r_headers r.
Proof.
  intros reason ct r close Hn Hc. split.
  - pose proof (build_head_spec reason ct r close Hn) as H. now rewrite Hc in H.
  - unfold all_fields, auto_fields. now rewrite <- !app_assoc.
Qed.

(* C06.6  A response that would duplicate (or contradict) an automatic field -- a user field whose
   name equals content-length or transfer-encoding case-insensitively, in any multiplicity, on any
   body kind, or content-type while a type is set -- is refused before any byte is written: the
   result is one of the Duplicate* errors, nothing is accepted, the writer is untouched. *)
Theorem c06_duplicate_refused_before_any_byte :
  forall reason ct_text r close w, r_normal r = true -> collides r = true ->
    exists e, write_http_response reason ct_text r close w = (Some e, [], w) /\ is_dup e = true.
Proof. exact W_refused. Qed.

(* ... and never otherwise: without a collision no Duplicate* error occurs, and whatever happens
   the accepted bytes are a prefix of the one serialisation. *)
Theorem c06_no_spurious_refusal :
  forall reason ct_text r close w res wire w', r_normal r = true -> collides r = false ->
    write_http_response reason ct_text r close w = (res, wire, w') ->
    (exists suf, full_wire reason ct_text r close = wire ++ suf) /\
    forall e, res = Some e -> is_dup e = false.
Proof.
  intros reason ct r close w res wire w' Hn Hc HW.
  destruct (W_general reason ct r close w res wire w' Hn Hc HW) as (S & R). split; [exact S|].
  intros e ->. now destruct R.
Qed.

(* C06.7  The code before the repair of D6 (single-value lookup, per-branch check) violates C06.6:
   content-length added twice, and a user transfer-encoding on a known-length body, are written
   with three resp. two framing fields; the repaired code refuses both. *)
Theorem c06_prefix_guard_refuted :
  write_http_response d6_reason d6_ct d6_witness1 false writer_all = (Some EDupContentLength, [], writer_all) /\
  write_http_response d6_reason d6_ct d6_witness2 false writer_all = (Some EDupTransferEncoding, [], writer_all) /\
  collides d6_witness1 = true /\ collides d6_witness2 = true /\
  fst (fst (write_http_response_prefix d6_reason d6_ct d6_witness1 false writer_all)) = None /\
  emitted_framing_count (snd (fst (write_http_response_prefix d6_reason d6_ct d6_witness1 false writer_all))) = Some 3%nat /\
  fst (fst (write_http_response_prefix d6_reason d6_ct d6_witness2 false writer_all)) = None /\
  emitted_framing_count (snd (fst (write_http_response_prefix d6_reason d6_ct d6_witness2 false writer_all))) = Some 2%nat.
Proof. exact d6_refuted. Qed.

(* C06.8  Body source shorter / longer than declared (ResponseBody::File(path, len)), as the code
   has it: a longer source is cut at the declared length (C06.2: body_sound only needs n <= |data|);
   a shorter one is sent completely and then reported as an error. *)
Theorem c06_short_body_source :
  forall reason ct_text r close w n src, r_normal r = true -> collides r = false ->
    r_body r = BKnown n true src -> reader_errfree src = true -> writer_errfree w = true ->
    N.of_nat (length (r_data src)) < n ->
    exists w', write_http_response reason ct_text r close w =
               (Some EShortBody, head_of reason ct_text r close ++ r_data src, w').
Proof. exact W_short_file. Qed.

(* C06.9  The serializer is injective on the well-formed domain (corollary of the round trip). *)
Theorem c06_serialize_injective :
  forall reason ct_text r1 c1 w1 r2 c2 w2 wire w1' w2',
    head_ok reason ct_text r1 = true -> collides r1 = false ->
    head_ok reason ct_text r2 = true -> collides r2 = false ->
    write_http_response reason ct_text r1 c1 w1 = (None, wire, w1') ->
    write_http_response reason ct_text r2 c2 w2 = (None, wire, w2') ->
    r_code r1 = r_code r2 /\ all_fields ct_text r1 c1 = all_fields ct_text r2 c2 /\
    body_payload (r_body r1) = body_payload (r_body r2).
Proof. exact W_injective. Qed.

(* C06.10  Status line and decimal rendering used above: every code 100..999 is rendered as three
   digits that read back as the code (finite sweep inside Coq), and Content-Length values of any
   size read back exactly. *)
Theorem c06_numbers_roundtrip :
  (forall c, 100 <= c <= 999 -> code3_ok c = true) /\
  (forall n, dec n <> [] /\ forallb is_digit (dec n) = true /\ undec (dec n) = Some n).
Proof. exact (conj code3_all dec_spec). Qed.

(* C06.11  The oracle evaluated by the correspondence check on the implementation's result and wire
   bytes is true of the model for every table, response, close flag and never-failing writer. *)
Theorem c06_oracle_sound :
  forall reason ct_text r close w, writer_errfree w = true ->
    let '(res, wire, _) := write_http_response reason ct_text r close w in
    oracle_c06 reason ct_text r close res wire = true.
Proof. exact oracle_c06_model. Qed.

(* non-vacuity: 404, text/plain, closing, one user field, 5-byte body, written 1, 2, 3 bytes at a time *)
Example c06_nonvacuous :
  let reason := fun _ : N => [78;111;116;32;70;111;117;110;100] in
  let ct := fun _ : nat => [116;101;120;116;47;112;108;97;105;110] in
  let r := mkResponse true 404 (CtVariant 13) [([120;45;97], [98;49])] (BKnown 5 true (mkReader [104;101;108;108;111] [RGive 2])) in
  head_ok reason ct r = true /\ collides r = false /\ body_sound (r_body r) = true /\
  fst (fst (write_http_response reason ct r true (mkWriter [WAccept 1; WAccept 2; WAccept 3] None true))) = None /\
  parse_response (snd (fst (write_http_response reason ct r true (mkWriter [WAccept 1; WAccept 2; WAccept 3] None true))))
  = Some (404, [(s_content_type, ct O); (s_connection, s_close); (s_content_length, [53]); ([120;45;97], [98;49])],
          [104;101;108;108;111], []).
Proof. vm_compute. repeat split; reflexivity. Qed.

(* C06.src  the texts ContentType::as_str returns for its fixed variants, re-read from
   src/content_type.rs ON THIS RUN, are legal field values (printable, CR/LF-free, no edge blanks):
   the content-type half of the hypothesis head_ok, discharged against the current source *)
Theorem c06_source_content_type_texts_ok :
  forallb (fun e => ct_text_ok (snd e)) src_ct_as_str_table = true /\
  map fst src_ct_as_str_table = map fst ct_names.
Proof. exact ct_as_str_table_ok. Qed.

(* C06.src2  The statements of write_http_response (src/response.rs) that build the head, as TRANSLATED ON THIS RUN
   (props/srcparams.py -> Generated/SourceParams.v: src_resp_head -- the header names, the format strings, the error
   names and the order of the statements are the source's), interpreted by Tie/ResponseTie.v with head_bytes as the
   only local variable, produce exactly the head (or the refusal) of the model the theorems above are about -- for
   every response, close flag and reason / content-type table.  The part after the head (write_all, the match on
   body.len(), copy_async under take / copy_chunked_async, flush) is checked for the transcribed shape. *)
Theorem c06_copy_buffer_is_the_source : copy_cap = N.to_nat src_copy_buf_len /\ src_problems_copy_async = 0%nat.
Proof. exact copy_buf_tie. Qed.
Theorem c06_head_is_the_source :
  forall reason ct_text r close, eval_head reason ct_text r close = build_head reason ct_text false r close.
Proof. exact response_head_tie. Qed.
Theorem c06_head_translation_complete : src_problems_resp_head = 0%nat /\ src_resp_body_shape_ok = true.
Proof. exact resp_head_translated. Qed.

Print Assumptions c06_serialize_parse_roundtrip.
Print Assumptions c06_sound_response_is_written.
Print Assumptions c06_partial_writes_invisible.
Print Assumptions c06_framing_exclusive.
Print Assumptions c06_auto_fields_rules.
Print Assumptions c06_duplicate_refused_before_any_byte.
Print Assumptions c06_no_spurious_refusal.
Print Assumptions c06_prefix_guard_refuted.
Print Assumptions c06_short_body_source.
Print Assumptions c06_serialize_injective.
Print Assumptions c06_numbers_roundtrip.
Print Assumptions c06_oracle_sound.
Print Assumptions c06_source_content_type_texts_ok.
Print Assumptions c06_head_is_the_source.
Print Assumptions c06_head_translation_complete.
Print Assumptions c06_copy_buffer_is_the_source.
