(* Properties/C11.v -- server-sent events.  Only property-level statements.

   KNOWN FINDINGS D9 and D17 (D17: see C11.11 at the end).
   D9: every event block on the wire lacks the terminating blank line (the bytes are
   pinned by /repo/tests/event.rs), so an EventSource-conformant parser never dispatches.  Following
   DESIGN 2.3 the full property is stated (c11_strict_modulo_known_class), proved for every stream
   outside the class [kf_c11_missing_blank_line], the class is proved to be hit
   (c11_wire_blocks_lack_blank_line_refuted), and everything else is stated on the de-chunked
   stream WITH THE DISPATCH LINE SUPPLIED AT CHUNK ENDS (each chunk is one block:
   c11_each_chunk_is_one_block).

   Text is the UTF-8 byte string; [cap] is the size of the read buffer handed to
   EventReceiver::poll_read by copy_chunked_async (65528 in the code). *)
From SV Require Import Base.Bytes Spec.Sse Model.Event Proofs.EventP.
From SV Require Import Generated.SourceParams Tie.EventTie.
From SV Require Model.Chunked Proofs.EventChunkP.

(* C11.1  block_parses_back: for every event the constructors can build (type without CR/LF):
   parsing its block followed by the blank line dispatches exactly one event, with its type and
   its newline-normalised data; for CR-free data that is exactly (type, data). *)
Theorem c11_block_parses_back :
  forall e, ev_wf e = true ->
    sse_parse (encode_event e ++ [10]) = [(ev_type e, normalize_data (ev_data e))] /\
    (no_cr (ev_data e) = true -> sse_parse (encode_event e ++ [10]) = [(ev_type e, ev_data e)]).
Proof. exact block_parses_back_l. Qed.

(* C11.2  no_injection: for ALL data the fields the parser acts on are exactly the encoder's: the
   optional `event` field carrying the type and one `data` field per line of the data, each value
   free of CR/LF -- no content starts a field or an event of its own. *)
Theorem c11_no_injection :
  forall e, ev_wf e = true ->
    sse_fields (encode_event e ++ [10]) = fields_of e /\
    Forall (fun f => (fst f = f_event /\ snd f = ev_type e) \/
                     (fst f = f_data /\ no_crlf (snd f) = true /\ In (snd f) (data_lines (ev_data e))))
           (fields_of e).
Proof. exact no_injection_l. Qed.

(* the same for whole streams: blocks = events, once each, in order *)
Theorem c11_stream_parses_back :
  forall es, Forall (fun e => ev_wf e = true) es ->
    sse_parse (stream_supplied (map encode_event es)) = map expected_of es /\
    sse_fields (stream_supplied (map encode_event es)) = concat (map fields_of es).
Proof. exact parse_blocks. Qed.

(* C11.3  encode_never_empty: hence a 0-byte read of the EventReceiver only comes from RecvError *)
Theorem c11_encode_never_empty : forall e, encode_event e <> [].
Proof. exact encode_never_empty_l. Qed.

(* C11.4  exactly_once_in_order, for ALL interleavings of send / clone / disconnect / drop /
   writer poll / client loss: the blocks on the wire are the encodings of a prefix of the accepted
   events in sending order; while the writer runs nothing is lost (accepted = written ++ queued);
   at normal termination every accepted event has been written. *)
Theorem c11_exactly_once_in_order :
  forall fixed cap tr s, crun fixed cap cinit tr = Some s ->
    wire s = map (encode_gen fixed) (firstn (length (wire s)) (accepted s)) /\
    (wst s = WActive -> accepted s = firstn (length (wire s)) (accepted s) ++ queue s) /\
    (fixed = true -> wst s = WTerminated -> wire s = map (encode_gen fixed) (accepted s)).
Proof. exact exactly_once_in_order_l. Qed.

(* C11.5  each chunk on the wire is exactly one block *)
Theorem c11_each_chunk_is_one_block :
  forall fixed cap tr s, N.of_nat cap < 65536 -> crun fixed cap cinit tr = Some s ->
    dechunk (S (length (wire_bytes s))) (wire_bytes s) = Dechunked (wire s) (is_term s) true.
Proof. exact each_chunk_is_one_block_l. Qed.

(* C11.6  terminator_iff_all_senders_gone.  only-if: *)
Theorem c11_terminator_only_when_senders_gone :
  forall cap tr s, crun true cap cinit tr = Some s -> wst s = WTerminated ->
    live_senders s = O /\ (forall i, is_connected s i = false) /\ queue s = [] /\
    wire s = map encode_event (accepted s).
Proof. exact terminator_only_when_senders_gone_l. Qed.

(* never because of an event's content: while a sender is connected no poll terminates the stream *)
Theorem c11_content_never_terminates :
  forall cap tr s s', crun true cap cinit tr = Some s -> wst s = WActive -> live_senders s <> O ->
    cstep true cap s WriterPoll = Some s' -> wst s' <> WTerminated.
Proof. exact content_never_terminates_l. Qed.

(* if: all senders gone, client present, queued events fit the buffer => |queue|+1 polls later the
   stream is terminated and carries every accepted event *)
Theorem c11_terminator_when_all_senders_gone :
  forall cap tr s, crun true cap cinit tr = Some s -> wst s = WActive -> live_senders s = O ->
    client_gone s = false -> Forall (fun e => (length (encode_event e) <= cap)%nat) (queue s) ->
    exists s', crun true cap s (repeat WriterPoll (S (length (queue s)))) = Some s' /\ wst s' = WTerminated /\
               wire s' = map encode_event (accepted s').
Proof. exact terminator_when_all_senders_gone_l. Qed.

(* C11.7  overrun_disconnects: a send on a full queue (50) or after the client/response is gone
   returns at once, disconnects that sender, queues and writes nothing *)
Theorem c11_overrun_disconnects :
  forall fixed cap s i e h, find_h i (handles s) = Some h -> h_conn h = true ->
    (recv_alive s = false \/ (queue_cap <= length (queue s))%nat) ->
    exists s', cstep fixed cap s (Send i e) = Some s' /\ is_connected s' i = false /\
               queue s' = queue s /\ accepted s' = accepted s /\ wire s' = wire s /\ wst s' = wst s.
Proof. exact overrun_disconnects_l. Qed.

Theorem c11_send_never_blocks :
  forall fixed cap s i e h, find_h i (handles s) = Some h -> exists s', cstep fixed cap s (Send i e) = Some s'.
Proof. exact send_never_blocks_l. Qed.

Theorem c11_queue_bounded :
  forall fixed cap tr s, crun fixed cap cinit tr = Some s -> (length (queue s) <= queue_cap)%nat.
Proof. exact queue_bounded_l. Qed.

(* C11.8  the oracle evaluated on the implementation's wire bytes and is_connected() answers holds
   of the model in every reachable state (modulo D9: dispatch line supplied at chunk ends) *)
Theorem c11_oracle_sound :
  forall cap tr s, N.of_nat cap < 65536 -> crun true cap cinit tr = Some s ->
    Forall (fun e => ev_wf e = true) (accepted s) ->
    oracle_c11_modulo (accepted s) (wire_bytes s) (is_term s) (Nat.eqb (live_senders s) 0) (lossless_of s)
                      (drained_of s) [(is_term s, negb (Nat.eqb (live_senders s) 0))] = VOk.
Proof. exact oracle_c11_model_sound_l. Qed.

(* C11.9  the FULL property -- the stream as sent dispatches the accepted events -- holds for every
   reachable stream outside the known class ... *)
Theorem c11_strict_modulo_known_class :
  forall cap tr s, crun true cap cinit tr = Some s -> kf_c11_missing_blank_line (wire s) = false ->
    sse_parse (stream_raw (wire s)) = map expected_of (firstn (length (wire s)) (accepted s)).
Proof. exact strict_modulo_known_class_l. Qed.

(* ... every stream of the model with at least one block is in the class ... *)
Theorem c11_model_wire_in_class :
  forall cap tr s, crun true cap cinit tr = Some s -> wire s <> [] -> kf_c11_missing_blank_line (wire s) = true.
Proof. exact model_wire_in_class. Qed.

(* ... and inside the class the property fails: D9. *)
Theorem c11_wire_blocks_lack_blank_line_refuted :
  exists s, crun true 100 cinit [Send 0 ev_x; WriterPoll] = Some s /\
            wire s = [[100; 97; 116; 97; 58; 32; 120; 10]] /\
            kf_c11_missing_blank_line (wire s) = true /\
            sse_parse (stream_raw (wire s)) = [] /\
            map expected_of (firstn (length (wire s)) (accepted s)) = [([], b_x)] /\
            sse_parse (stream_supplied (wire s)) = [([], b_x)].
Proof. exact wire_blocks_lack_blank_line_refuted_l. Qed.

(* C11.10  the tree before the repair of D8 (`str::lines`) *)
Theorem c11_empty_message_terminates_refuted :
  encode_gen false (Message []) = [] /\
  exists s, crun false 100 cinit [Send 0 (Message []); WriterPoll] = Some s /\
            wst s = WTerminated /\ is_connected s 0 = true /\ live_senders s = 1%nat.
Proof. exact empty_message_terminates_refuted_l. Qed.

Theorem c11_cr_injects_field_refuted :
  sse_parse (encode_gen false (Message d_evil) ++ [10]) = [([101; 118; 105; 108], [120])] /\
  sse_fields (encode_gen false (Message d_evil) ++ [10]) = [(f_data, [120]); (f_event, [101; 118; 105; 108])] /\
  sse_parse (encode_gen true (Message d_evil) ++ [10]) = [([], normalize_data d_evil)] /\
  sse_fields (encode_gen true (Message d_evil) ++ [10]) =
    [(f_data, [120]); (f_data, [101; 118; 101; 110; 116; 58; 32; 101; 118; 105; 108])].
Proof. exact cr_injects_field_refuted_l. Qed.

Theorem c11_trailing_newline_lost_refuted :
  sse_parse (encode_gen false (Message [97; 10]) ++ [10]) = [([], [97])] /\
  sse_parse (encode_gen true (Message [97; 10]) ++ [10]) = [([], [97; 10])].
Proof. exact trailing_newline_lost_refuted_l. Qed.

(* C11.11  KNOWN FINDING D17 (class [kf_c11_oversize_event cap]: the history sends an event whose
   encoding exceeds the [cap] = 65528-byte read buffer).  What the code does: write_to fails
   (WriteZero); the stream ends without terminating chunk, the event and everything behind it are
   never delivered although accepted, and the senders learn of it only at their next send. *)
Theorem c11_oversize_event_aborts_stream :
  forall fixed cap s e q, wst s = WActive -> queue s = e :: q -> (cap < length (encode_gen fixed e))%nat ->
    exists s', cstep fixed cap s WriterPoll = Some s' /\ wst s' = WReaderErr /\ wire s' = wire s /\
               recv_alive s' = false /\ accepted s' = accepted s.
Proof. exact oversize_event_aborts_stream_l. Qed.

(* the lossless clauses hold for every history OUTSIDE the class: write_to never fails, every
   queued event fits, and once all senders are gone (client present) the writer delivers the
   whole queue and terminates the stream with every accepted event on the wire ... *)
Theorem c11_lossless_modulo_oversize :
  forall cap tr s, crun true cap cinit tr = Some s -> kf_c11_oversize_event cap tr = false ->
    wst s <> WReaderErr /\
    Forall (fun e => (length (encode_event e) <= cap)%nat) (queue s) /\
    (wst s = WActive -> live_senders s = O -> client_gone s = false ->
     exists s', crun true cap s (repeat WriterPoll (S (length (queue s)))) = Some s' /\ wst s' = WTerminated /\
                wire s' = map encode_event (accepted s')).
Proof. exact lossless_modulo_oversize_l. Qed.

(* ... and the oracle WITH its lossless clauses switched on (off only after a client loss) holds of
   the model for every history outside the class ... *)
Theorem c11_oracle_sound_modulo_oversize :
  forall cap tr s, N.of_nat cap < 65536 -> crun true cap cinit tr = Some s ->
    kf_c11_oversize_event cap tr = false -> Forall (fun e => ev_wf e = true) (accepted s) ->
    oracle_c11_modulo (accepted s) (wire_bytes s) (is_term s) (Nat.eqb (live_senders s) 0) (lossless_no_oversize s)
                      (drained_of s) [(is_term s, negb (Nat.eqb (live_senders s) 0))] = VOk.
Proof. exact oracle_c11_sound_modulo_oversize_l. Qed.

(* ... while inside the class they fail: D17 (buffer of 8 bytes, "data: aaaa\n" needs 11). *)
Theorem c11_oversize_event_lost_refuted :
  kf_c11_oversize_event 8 d17_trace = true /\
  exists s, crun true 8 cinit d17_trace = Some s /\
            wst s = WReaderErr /\ wire s = [] /\ wire_bytes s = [] /\ length (accepted s) = 2%nat /\
            live_senders s = O /\
            oracle_c11_modulo (accepted s) (wire_bytes s) (is_term s) true true true [] = VTerminator /\
            oracle_c11_modulo (accepted s) (wire_bytes s) (is_term s) true false true [] = VOk.
Proof. exact oversize_event_lost_refuted_l. Qed.

Example c11_nonvacuous :
  exists s, crun true 100 cinit [Send 0 ev_x; Clone 0; WriterPoll; Send 1 (Custom [116] [97; 13; 10; 98]);
                                 DropSender 0; Disconnect 1; WriterPoll; WriterPoll] = Some s /\
            wst s = WTerminated /\ length (wire s) = 2%nat /\
            sse_parse (stream_supplied (wire s)) = [([], [120]); ([116], [97; 10; 98])].
Proof. exact c11_run_example. Qed.

Example c11_oversize_nonvacuous :
  exists s, crun true 8 cinit [Send 0 (Message [97; 97; 97; 97]); Send 0 ev_x; WriterPoll] = Some s /\
            wst s = WReaderErr /\ wire s = [] /\ length (accepted s) = 2%nat /\ is_connected s 0 = true.
Proof. exact oversize_example. Qed.

(* C11.src  literals re-read from the source ON THIS RUN: the capacity of the event channel
   (src/response.rs) and the field formats of Event::write_to (src/event.rs) are the model's *)
Theorem c11_source_queue_capacity : N.of_nat queue_cap = src_event_queue_cap.
Proof. exact event_queue_cap_tie. Qed.
Theorem c11_source_event_formats :
  src_event_type_fmt = (t_event, [10]) /\ src_event_data_fmt = (t_data, [10]).
Proof. exact event_formats_tie. Qed.

Theorem c11_translation_complete : (src_problems_event_queue + src_problems_event_fmt = 0)%nat.
Proof. exact event_translated. Qed.

(* C11.chunk  the chunk framing of the event-stream model is the chunk framing of the chunked-encoder model
   of C07 (whose read window is re-read from src/util.rs on every run): C07's theorems about chunk_of --
   size line correct, decodes back, never reads as the terminating chunk -- hold of every event block *)
Theorem c11_chunk_framing_is_the_chunked_encoders :
  forall p, encode_piece p = Chunked.chunk_of p /\ terminator = Chunked.terminator.
Proof. exact (fun p => conj (EventChunkP.encode_piece_is_chunk_of p) EventChunkP.terminator_eq). Qed.

Print Assumptions c11_block_parses_back.
Print Assumptions c11_no_injection.
Print Assumptions c11_stream_parses_back.
Print Assumptions c11_encode_never_empty.
Print Assumptions c11_exactly_once_in_order.
Print Assumptions c11_each_chunk_is_one_block.
Print Assumptions c11_terminator_only_when_senders_gone.
Print Assumptions c11_content_never_terminates.
Print Assumptions c11_terminator_when_all_senders_gone.
Print Assumptions c11_overrun_disconnects.
Print Assumptions c11_send_never_blocks.
Print Assumptions c11_queue_bounded.
Print Assumptions c11_oracle_sound.
Print Assumptions c11_strict_modulo_known_class.
Print Assumptions c11_model_wire_in_class.
Print Assumptions c11_wire_blocks_lack_blank_line_refuted.
Print Assumptions c11_empty_message_terminates_refuted.
Print Assumptions c11_cr_injects_field_refuted.
Print Assumptions c11_trailing_newline_lost_refuted.
Print Assumptions c11_oversize_event_aborts_stream.
Print Assumptions c11_lossless_modulo_oversize.
Print Assumptions c11_oracle_sound_modulo_oversize.
Print Assumptions c11_oversize_event_lost_refuted.
Print Assumptions c11_source_queue_capacity.
Print Assumptions c11_source_event_formats.
Print Assumptions c11_translation_complete.
Print Assumptions c11_chunk_framing_is_the_chunked_encoders.
