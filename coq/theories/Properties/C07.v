(* Properties/C07.v -- Chunked encoder output decodes to exactly the source for every read pattern.
   Only property-level statements; each is closed by [exact <lemma>].
   Model: Model/Chunked.v (copy_chunked_async of src/util.rs, over the scripted readers/writers of
   Model/IOSched.v).  Spec: Spec/ChunkDecode.v (RFC 7230 section 4.1 decoder, written independently).
   [cap] is the encoder's read-buffer size; the code uses piece_max = the read window of src/util.rs, re-read on every run (65528 = buf[6..65534] at the pinned commit); every
   theorem holds for every cap with 1 <= cap < 65536 (a 4-digit size line), c07_piece_max_ok
   instantiates it. *)
From SV Require Import Base.Bytes Base.BytesP Model.IOSched Spec.ChunkDecode Model.Chunked
                       Proofs.IOSchedP Proofs.ChunkedP.
From SV Require Import Generated.SourceParams Tie.ChunkTie Tie.ResponseTie.

(* C07.1  The size line.  For EVERY data length 1 <= n <= 65535 (all lengths a read of at most
   65528 bytes can have, and then some; finite domain, checked exhaustively by computation inside
   Coq) the line written is 1..4 hex digits whose value is n, without a leading '0'. *)
Theorem c07_size_line_correct :
  forall n, 1 <= n < 65536 ->
    forallb is_hex (size_line n) = true /\ hexval 0 (size_line n) = n /\
    exists c t, size_line n = c :: t /\ c <> 48.
Proof. exact size_line_correct. Qed.

Theorem c07_piece_max_ok : cap_ok piece_max /\ piece_max_N = src_chunk_read_hi - src_chunk_read_lo.
Proof. exact (conj piece_max_ok eq_refl). Qed.

(* C07.2  For ALL lists of pieces with lengths in 1..cap the independent decoder recovers exactly the
   pieces as its chunks (so every size line equals its data length, CRLF follows the data, the
   message ends with one zero chunk + CRLF and nothing follows), hence exactly the source bytes. *)
Theorem c07_decode_encode :
  forall cap pieces, cap_ok cap -> Forall (piece_ok cap) pieces ->
    decode_chunked (encode pieces) = DComplete pieces [].
Proof. intros cap ps C F. exact (decode_chunked_encode cap ps C F). Qed.

(* C07.3  Every byte stream under every delivery: an error-free source holding [data], cut into
   reads by ANY schedule of positive counts, through ANY never-failing writer (any short-write
   pattern): Ok(|data| + 3) and the output decodes to chunks whose concatenation is [data]. *)
Theorem c07_stream_any_delivery :
  forall cap data rsched w, cap_ok cap ->
    reader_errfree (mkReader data rsched) = true -> writer_errfree w = true ->
    exists chunks out r' w',
      copy_chunked cap (mkReader data rsched) w = (COk (N.of_nat (length data) + 3), out, r', w') /\
      decode_chunked out = DComplete chunks [] /\ concat chunks = data /\
      forallb nonempty chunks = true.
Proof. exact stream_any_delivery. Qed.

(* C07.4  No zero-length chunk before the end: whatever the reader and writer do, every chunk the
   encoder emits carries a piece of 1..cap bytes (chunks of the decoded output are non-empty). *)
Theorem c07_no_empty_chunk_before_end :
  forall cap r w res out r' w' ps errored, cap_ok cap ->
    copy_chunked cap r w = (res, out, r', w') -> delivered cap r = (ps, errored) ->
    Forall (piece_ok cap) ps /\
    (forall n, res = COk n -> decode_chunked out = DComplete ps [] /\ forallb nonempty ps = true).
Proof. exact no_empty_chunk. Qed.

(* C07.5  Exactly one terminator, at the very end: the output is [chunks ++ "0\r\n\r\n"], and NO
   proper prefix of it is a complete chunked message -- each one decodes to Incomplete. *)
Theorem c07_exactly_one_terminator :
  forall cap pieces, cap_ok cap -> Forall (piece_ok cap) pieces ->
    encode pieces = concat (map chunk_of pieces) ++ terminator /\
    forall pre suf, encode pieces = pre ++ suf -> suf <> [] -> decode_chunked pre = DIncomplete.
Proof. exact one_terminator. Qed.

(* C07.6  A source error (at any read) ends the output without the terminating chunk: the result is
   ReaderErr and the bytes written decode to Incomplete -- never Complete.  The same holds for a
   writer error at any point.  Ok is returned only if the source did not fail. *)
Theorem c07_source_error_not_complete :
  forall cap r w res out r' w' ps errored, cap_ok cap ->
    copy_chunked cap r w = (res, out, r', w') -> delivered cap r = (ps, errored) ->
    match res with
    | COk n => errored = false /\ decode_chunked out = DComplete ps [] /\ n = N.of_nat (length (concat ps)) + 3
    | CReaderErr => errored = true /\ decode_chunked out = DIncomplete
    | CWriterErr => decode_chunked out = DIncomplete
    | COutOfFuel => False
    end.
Proof. exact copy_chunked_decode. Qed.

(* ... and with a never-failing writer the source's fate decides the result *)
Theorem c07_source_error_iff :
  forall cap r w ps errored, cap_ok cap -> writer_errfree w = true -> delivered cap r = (ps, errored) ->
    fst (fst (fst (copy_chunked cap r w))) = (if errored then CReaderErr else COk (N.of_nat (length (concat ps)) + 3)).
Proof. exact source_error_iff. Qed.

(* C07.7  Short writes are invisible: for every never-failing writer, whatever numbers of bytes it
   accepts per call, result and accepted bytes equal those of the accept-everything writer. *)
Theorem c07_short_writes_invisible :
  forall cap r w, writer_errfree w = true ->
    fst (fst (copy_chunked cap r w)) = fst (fst (copy_chunked cap r writer_all)) /\
    fst (fst (fst (copy_chunked cap r w))) <> CWriterErr.
Proof. exact short_writes_invisible. Qed.

(* C07.8  A failing writer: the accepted bytes are a prefix of what the never-failing run writes. *)
Theorem c07_failed_write_is_prefix :
  forall cap r w res out r' w' ps errored, cap_ok cap ->
    copy_chunked cap r w = (res, out, r', w') -> delivered cap r = (ps, errored) ->
    exists suf, full_output ps errored = out ++ suf.
Proof. exact failed_write_prefix. Qed.

(* C07.9  The decoder's fuel is irrelevant (it always terminates with the same answer). *)
Theorem c07_decoder_fuel_independent :
  forall f1 f2 l, (length l < f1)%nat -> (length l < f2)%nat -> decode_fuel f1 l = decode_fuel f2 l.
Proof. exact decode_fuel_indep. Qed.

(* C07.10  The oracle evaluated by the correspondence check on the implementation's result and
   output is true of the model for every reader, writer and buffer size. *)
Theorem c07_oracle_sound :
  forall cap r w, cap_ok cap ->
    let '(res, out, _, _) := copy_chunked cap r w in oracle_c07 cap r res out = true.
Proof. exact oracle_c07_model. Qed.

(* non-vacuity: 17 bytes delivered as 16 + 1 through a writer accepting 1, 2, then 3 bytes at a time *)
Example c07_nonvacuous :
  let data := [1;2;3;4;5;6;7;8;9;10;11;12;13;14;15;16;17] in
  fst (fst (copy_chunked piece_max (mkReader data [RGive 16]) (mkWriter [WAccept 1; WAccept 2; WAccept 3] None true)))
  = (COk 20, [49;48;13;10] ++ firstn 16 data ++ [13;10] ++ [49;13;10;17;13;10] ++ [48;13;10;13;10])
  /\ reader_errfree (mkReader data [RGive 16]) = true
  /\ fst (fst (copy_chunked piece_max (mkReader data [RGive 16; RFail]) writer_all))
     = (CReaderErr, [49;48;13;10] ++ firstn 16 data ++ [13;10]).
Proof. vm_compute. repeat split; reflexivity. Qed.

(* C07.src  The encoder's buffer layout as re-read from src/util.rs ON THIS RUN (props/srcparams.py ->
   Generated/SourceParams.v): four hex-digit cells, most significant first, then CR LF, the read window
   right after them with room for the closing CR LF, every window length below 16^4, the terminating
   chunk literal.  The model's piece_max IS this window (Model/Chunked.v), so c07_piece_max_ok and every
   theorem instantiated with piece_max is re-checked against the code's current constants. *)
Theorem c07_source_layout :
  src_chunk_hex_stores = hex_stores_of 4 /\
  src_chunk_crlf_stores = [(4, 13); (5, 10)] /\
  src_chunk_read_lo = 6 /\
  src_chunk_read_hi + 2 <= src_chunk_buf_len /\
  src_chunk_read_lo < src_chunk_read_hi /\
  piece_max_N = src_chunk_read_hi - src_chunk_read_lo /\
  piece_max_N < 16 ^ 4 /\
  src_chunk_terminator = terminator.
Proof. exact chunk_layout. Qed.

Theorem c07_hex4_is_the_source_stores :
  forall len, hex4 len = map (fun st => hex_digit (N.land (N.shiftr len (snd st)) 15)) src_chunk_hex_stores.
Proof. exact hex4_is_the_stores. Qed.

Theorem c07_translation_complete : src_problems_chunk = 0%nat.
Proof. exact chunk_translated. Qed.

Theorem c07_hex_digit_is_the_source_table :
  map fst src_hex_digit_table = map N.of_nat (seq 0 16) /\
  forallb (fun e => hex_digit (fst e) =? snd e) src_hex_digit_table = true.
Proof. exact hex_digit_table_tie. Qed.

(* C07.src2  write_http_response (src/response.rs) as read ON THIS RUN sends a body of unknown length through
   copy_chunked_async and nothing else (the shape of the part after the head; a source error is mapped to
   ErrorReadingResponseBody, a writer error to Disconnected, and the head announces transfer-encoding: chunked) *)
Theorem c07_serialiser_uses_the_encoder : src_problems_resp_head = 0%nat /\ src_resp_body_shape_ok = true.
Proof. exact resp_head_translated. Qed.

Print Assumptions c07_size_line_correct.
Print Assumptions c07_piece_max_ok.
Print Assumptions c07_decode_encode.
Print Assumptions c07_stream_any_delivery.
Print Assumptions c07_no_empty_chunk_before_end.
Print Assumptions c07_exactly_one_terminator.
Print Assumptions c07_source_error_not_complete.
Print Assumptions c07_source_error_iff.
Print Assumptions c07_short_writes_invisible.
Print Assumptions c07_failed_write_is_prefix.
Print Assumptions c07_decoder_fuel_independent.
Print Assumptions c07_oracle_sound.
Print Assumptions c07_source_layout.
Print Assumptions c07_hex4_is_the_source_stores.
Print Assumptions c07_translation_complete.
Print Assumptions c07_hex_digit_is_the_source_table.
Print Assumptions c07_serialiser_uses_the_encoder.
