(* Properties/C16.v -- Calendar conversion and date arithmetic are correct for every instant.
   Only property-level statements; each is closed by [exact <lemma>] (proofs: Proofs/TimeP.v).
   Model: Model/Time.v (transcription of src/time.rs).  Spec: Spec/Civil.v (leap rule, month table,
   day number as sums, validity).

   Domain notes (what the real code rejects is kept out of the domain explicitly):
   * DateTime::new takes an i64; the theorems are about 0 <= s (for s < 0 the code returns the
     non-canonical 1970-01-01T00:00:<s>).  SystemTime::to_datetime panics for instants before the
     epoch (duration_since(..).unwrap()) and for seconds >= 2^63 (i64::try_from(..).unwrap()).
   * `+ Duration` panics when as_secs() >= 2^63 ([PanicTryFrom]); when sec + as_secs() > i64::MAX
     the i64 addition overflows ([Overflow]: debug panic, release wrap) -- both outside the domain.
   * the model computes in unbounded Z; C16.1c proves that on these domains no i64 operation of
     the code overflows (Model/TimeI64.v instruments every `+ - * /` site), so the unbounded model
     and the i64 code agree in both build profiles. *)
From Coq Require Import ZArith.
From SV Require Import Base.Bytes Spec.Civil Model.Time Model.TimeI64 Proofs.TimeP Proofs.TimeI64P.
From SV Require Import Generated.SourceParams Tie.TimeTie.
Open Scope Z_scope.

(* C16.1  For EVERY epoch second s >= 0 (unbounded) and every fuel >= s/31536000 + 14,
   DateTime::new returns (no assert fires, no fuel exhaustion) a valid proleptic-Gregorian
   date-time whose instant -- by the declarative day count -- is exactly s. *)
Theorem c16_new_correct :
  forall (s : Z) (fuel : nat), 0 <= s -> (Z.to_nat (s / 31536000) + 14 <= fuel)%nat ->
    exists t, new fuel s = Ok t /\ valid_dt t /\ secs_of_civil t = s.
Proof. exact new_correct. Qed.

(* C16.1b the result is small: its year lies in 1970 .. 1970 + s/31536000, so for an i64 input every
   field of the result (and, the loops being monotone in the year and antitone in the day, every
   intermediate value) fits an i64. *)
Theorem c16_result_year_bound :
  forall t s, valid_dt t -> secs_of_civil t = s -> 0 <= s -> 1970 <= year t <= 1970 + s / 31536000.
Proof. exact result_year_bound. Qed.

(* C16.1c no intermediate overflow.  [new_chk] / [add_chk] are the code with EVERY i64 `+= -= + - * /`
   of balance, balance_min, balance_hour, balance_day (both loops), balance_month, new and add
   checked against -2^63 .. 2^63-1 (outcome Overflow = debug panic / release wrap).  They equal the
   unbounded model for every fuel:
     new : every i64 argument 0 <= s < 2^63;
     add : every valid date-time with |year| <= 9.2 * 10^18 (the property's years 0..9999 and far
           beyond) and every duration with sec + secs < 2^63.
   Excluded, and explicit outcomes of the model: s < 0 (not a timestamp the library renders),
   secs >= 2^63 (PanicTryFrom), sec + secs >= 2^63 (Overflow at the `self.sec +=` site itself), and
   years within 2.3 * 10^16 of i64::MAX / i64::MIN. *)
Theorem c16_no_intermediate_overflow :
  (forall s fuel, 0 <= s < 2 ^ 63 ->
     new_chk fuel s = new fuel s /\
     ((fuel_for s <= fuel)%nat -> exists t, new_chk fuel s = Ok t /\ dt_in_i64 t)) /\
  (forall t secs fuel, valid_dt t -> - 9200000000000000000 <= year t <= 9200000000000000000 ->
     0 <= secs -> sec t + secs < 2 ^ 63 ->
     add_chk fuel t secs = add fuel t secs /\
     ((fuel_for secs <= fuel)%nat -> exists t', add_chk fuel t secs = Ok t')).
Proof. exact no_intermediate_overflow. Qed.

(* the general room condition behind the explicit year range *)
Theorem c16_add_no_overflow_general :
  forall t secs fuel, valid_dt t -> 0 <= secs -> sec t + secs <= 9223372036854775807 ->
    -9223372036854775808 <= year t -> year t + (sec t + secs) / 86400 + 33 <= 9223372036854775807 ->
    add_chk fuel t secs = add fuel t secs.
Proof. exact add_no_overflow. Qed.

(* C16.2  canonical forms are unique: a valid date-time is determined by its instant. *)
Theorem c16_canonical_forms_unique :
  forall t1 t2, valid_dt t1 -> valid_dt t2 -> secs_of_civil t1 = secs_of_civil t2 -> t1 = t2.
Proof. exact civil_unique. Qed.

(* C16.3  termination: above the stated bound the result does not depend on the fuel and is never
   OutOfFuel -- both loops of balance_day terminate. *)
Theorem c16_new_terminates :
  forall s f1 f2, 0 <= s -> (fuel_for s <= f1)%nat -> (fuel_for s <= f2)%nat ->
    new f1 s = new f2 s /\ new f1 s <> OutOfFuel.
Proof. exact new_fuel_independent. Qed.

(* C16.4  date arithmetic: for every valid date-time (any year) and every duration the code
   accepts, `t + d` is the valid date-time whose instant is instant(t) + d. *)
Theorem c16_add_correct :
  forall (t : dt) (secs : Z) (fuel : nat),
    valid_dt t -> 0 <= secs -> sec t + secs <= 9223372036854775807 ->
    (Z.to_nat (secs / 31536000) + 14 <= fuel)%nat ->
    exists t', add fuel t secs = Ok t' /\ valid_dt t' /\ secs_of_civil t' = secs_of_civil t + secs.
Proof. exact add_correct. Qed.

(* C16.5  ... which for date-times at or after the epoch is literally "convert to seconds, add,
   convert back" computed by DateTime::new. *)
Theorem c16_add_is_convert_add_convert_back :
  forall t secs fuel fuel',
    valid_dt t -> 0 <= secs_of_civil t -> 0 <= secs -> sec t + secs <= 9223372036854775807 ->
    (fuel_for secs <= fuel)%nat -> (fuel_for (secs_of_civil t + secs) <= fuel')%nat ->
    add fuel t secs = new fuel' (secs_of_civil t + secs).
Proof. exact add_is_new_of_sum. Qed.

(* C16.6  what the code rejects: durations of 2^63 seconds or more panic in i64::try_from. *)
Theorem c16_add_rejects_huge_durations :
  forall t secs fuel, 9223372036854775807 < secs -> add fuel t secs = PanicTryFrom.
Proof. exact add_rejects. Qed.

(* C16.7  the tree before the repair of D12 violates C16.4: 2023-03-01 + 366 days. *)
Theorem c16_add_refuted_prefix :
  valid_dt (mkdt 2023 3 1 0 0 0) /\
  add_prefix 20 (mkdt 2023 3 1 0 0 0) (366 * 86400) = Ok (mkdt 2024 3 2 0 0 0) /\
  add 20 (mkdt 2023 3 1 0 0 0) (366 * 86400) = Ok (mkdt 2024 3 1 0 0 0) /\
  secs_of_civil (mkdt 2024 3 2 0 0 0) <> secs_of_civil (mkdt 2023 3 1 0 0 0) + 366 * 86400.
Proof. exact add_prefix_refuted. Qed.

(* C16.8  rendering: for years 0..9999 "{:04}-{:02}-{:02}T{:02}:{:02}:{:02}Z" is exactly 20
   bytes, every field zero-padded to its fixed width (the reference reader demands a digit in
   every digit position and the separators in place), and it reads back as the same date-time. *)
Theorem c16_format_fixed_width :
  forall t, valid_dt t -> 0 <= year t <= 9999 ->
    length (fmt_iso t) = 20%nat /\ parse_iso (fmt_iso t) = Some t.
Proof. exact fmt_iso_fixed_width. Qed.

(* C16.9  the same for the log-file-name form "{:04}{:02}{:02}T{:02}{:02}{:02}Z" (16 bytes). *)
Theorem c16_format_compact_fixed_width :
  forall t, valid_dt t -> 0 <= year t <= 9999 ->
    length (fmt_compact t) = 16%nat /\ parse_compact (fmt_compact t) = Some t.
Proof. exact fmt_compact_fixed_width. Qed.

(* C16.10 end to end: for every instant from the epoch through 9999-12-31T23:59:59 the rendered
   timestamp is 20 bytes and reads back as the valid date-time of that instant. *)
Theorem c16_iso8601_utc_correct :
  forall s fuel, 0 <= s < 253402300800 -> (fuel_for s <= fuel)%nat ->
    exists b, iso8601_utc fuel s = Some b /\ length b = 20%nat /\
              exists t, parse_iso b = Some t /\ valid_dt t /\ secs_of_civil t = s.
Proof. exact iso8601_utc_correct. Qed.

(* C16.11 the transcribed leap test is the Gregorian rule; the day count has the usual closed form
   (used by the extracted oracle so that it runs in O(1)). *)
Theorem c16_leap_rule : forall y, is_leap_year y = leap y.
Proof. exact is_leap_year_spec. Qed.
Theorem c16_day_count_closed_form :
  forall y m d, 1 <= m <= 12 ->
    abs_days y m d =
    365 * (y - 1970) + ((y - 1) / 4 - (y - 1) / 100 + (y - 1) / 400 - 477) + dbm_fast y m + (d - 1).
Proof. exact abs_days_closed_form. Qed.

(* C16.12 the O(1) successor used for the exhaustive walk is correct, and walking k days from
   1970-01-01 gives exactly what DateTime::new computes for any second of day k. *)
Theorem c16_next_day_correct :
  forall y m d, valid_date y m d ->
    let '(y', m', d') := next_day (y, m, d) in
    valid_date y' m' d' /\ abs_days_fast y' m' d' = abs_days_fast y m d + 1.
Proof. exact next_day_correct. Qed.
Theorem c16_walk_correct :
  forall (k : nat) (sod : Z) (fuel : nat), 0 <= sod < 86400 ->
    (fuel_for (86400 * Z.of_nat k + sod) <= fuel)%nat ->
    new fuel (86400 * Z.of_nat k + sod) = Ok (at_sod (iter_days k epoch_date) sod).
Proof. exact walk_correct. Qed.

(* C16.13 the hinted evaluations used by the driver equal the fuelled model for EVERY hint (the
   hint is data from outside the trusted base; a wrong hint only costs time). *)
Theorem c16_new_hinted_eq :
  forall hint s, new_hinted hint s = new (fuel_for s) s.
Proof. exact new_hinted_eq. Qed.
Theorem c16_new_fast_eq :
  forall s, new_fast s = new (fuel_for s) s.
Proof. exact new_fast_eq. Qed.
Theorem c16_day_hinted_correct :
  forall hint k (n : nat) sod fuel, 0 <= k -> 0 <= sod < 86400 ->
    (fuel_for (86400 * (k + Z.of_nat n) + sod) <= fuel)%nat ->
    new fuel (86400 * (k + Z.of_nat n) + sod) = Ok (at_sod (iter_days n (day_hinted hint k)) sod).
Proof. exact walk_from_correct. Qed.

(* C16.14 the oracles evaluated on the implementation's observations are the boolean forms of
   the conclusions above, and hold of the model. *)
Theorem c16_oracle_new_iff :
  forall s obs, oracle_new s obs = true <-> valid_dt obs /\ secs_of_civil obs = s.
Proof. exact oracle_new_spec. Qed.
Theorem c16_oracle_add_iff :
  forall t d obs, valid_dt t ->
    (oracle_add t d obs = true <-> valid_dt obs /\ secs_of_civil obs = secs_of_civil t + d).
Proof. exact oracle_add_spec. Qed.
Theorem c16_oracle_new_sound :
  forall s fuel t, 0 <= s -> (fuel_for s <= fuel)%nat -> new fuel s = Ok t -> oracle_new s t = true.
Proof. exact oracle_new_sound. Qed.
Theorem c16_oracle_add_sound :
  forall t secs fuel t', valid_dt t -> 0 <= secs -> sec t + secs <= 9223372036854775807 ->
    (fuel_for secs <= fuel)%nat -> add fuel t secs = Ok t' -> oracle_add t secs t' = true.
Proof. exact oracle_add_sound. Qed.
Theorem c16_oracle_iso_sound :
  forall s fuel b, 0 <= s < 253402300800 -> (fuel_for s <= fuel)%nat ->
    iso8601_utc fuel s = Some b -> oracle_iso_at s b = true.
Proof. exact oracle_iso_at_sound. Qed.

(* non-vacuity: concrete instances inside the hypotheses *)
Example c16_nonvacuous :
  new (fuel_for 4107542400) 4107542400 = Ok (mkdt 2100 3 1 0 0 0) /\
  valid_dt (mkdt 2024 2 29 23 59 59) /\
  add (fuel_for (146097 * 86400)) (mkdt 2024 2 29 23 59 59) (146097 * 86400) = Ok (mkdt 2424 2 29 23 59 59) /\
  iso8601_utc (fuel_for 253402300799) 253402300799 =
    Some [57;57;57;57;45;49;50;45;51;49;84;50;51;58;53;57;58;53;57;90]%N /\
  (* the overflow checks are live: one day past 31 December of year i64::MAX overflows `year + 1` *)
  add_chk 20 (mkdt 9223372036854775807 12 31 0 0 0) 86400 = Overflow /\
  new_chk (fuel_for 68256000) 68256000 = Ok (mkdt 1972 3 1 0 0 0).
Proof.
  split; [vm_compute; reflexivity|]. split; [apply valid_dtb_spec; vm_compute; reflexivity|].
  repeat split; vm_compute; reflexivity.
Qed.

(* C16.src  is_leap_year and month_len_days as TRANSLATED from src/time.rs ON THIS RUN
   (props/srcparams.py -> Generated/SourceParams.v) are the model's functions, for every year and
   every month number (also outside 1..12, where both are unimplemented!()) *)
Theorem c16_source_is_leap_year : forall y, src_is_leap_year y = is_leap_year y.
Proof. exact is_leap_year_tie. Qed.
Theorem c16_source_month_len_days : forall y m, src_month_len_days y m = month_len_days y m.
Proof. exact month_len_days_tie. Qed.

Theorem c16_translation_complete : src_problems_time = 0%nat.
Proof. exact time_translated. Qed.

Print Assumptions c16_new_correct.
Print Assumptions c16_result_year_bound.
Print Assumptions c16_no_intermediate_overflow.
Print Assumptions c16_add_no_overflow_general.
Print Assumptions c16_canonical_forms_unique.
Print Assumptions c16_new_terminates.
Print Assumptions c16_add_correct.
Print Assumptions c16_add_is_convert_add_convert_back.
Print Assumptions c16_add_rejects_huge_durations.
Print Assumptions c16_add_refuted_prefix.
Print Assumptions c16_format_fixed_width.
Print Assumptions c16_format_compact_fixed_width.
Print Assumptions c16_iso8601_utc_correct.
Print Assumptions c16_leap_rule.
Print Assumptions c16_day_count_closed_form.
Print Assumptions c16_next_day_correct.
Print Assumptions c16_walk_correct.
Print Assumptions c16_new_hinted_eq.
Print Assumptions c16_new_fast_eq.
Print Assumptions c16_day_hinted_correct.
Print Assumptions c16_oracle_new_iff.
Print Assumptions c16_oracle_add_iff.
Print Assumptions c16_oracle_new_sound.
Print Assumptions c16_oracle_add_sound.
Print Assumptions c16_oracle_iso_sound.
Print Assumptions c16_source_is_leap_year.
Print Assumptions c16_source_month_len_days.
Print Assumptions c16_translation_complete.
