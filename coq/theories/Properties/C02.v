(* Properties/C02.v -- Parsed head is faithful to the bytes sent (RFC 7230 grammar agreement).
   Only property-level statements; each is closed by [exact <lemma>].

   [url_parse] is the external `url` crate.  The must-accept theorem assumes [url_canonical]: for
   targets of the canonical origin-form class (Spec/Rfc7230.v: canonical_target) the crate returns
   path and query verbatim; the correspondence check evaluates this hypothesis on every target it
   meets.  All other theorems hold for every url_parse. *)
From SV Require Import Base.Bytes Base.BytesP Base.IO Model.Headers Model.Head Spec.Rfc7230
  Model.HeadLoops Proofs.HeadP Proofs.HeadReadP Proofs.HeadGrammarP Proofs.HeadClassifyP Proofs.HeadLoopsP
  Model.RustStr Model.Request Spec.Framing Proofs.RequestLevelP
  Base.Regex Generated.SourceParams Tie.RegexTie.
From SV Require Generated.SourceParams Tie.HeadTie.

(* C02.1  must-accept: a head rendered from a token method, a canonical origin-form target and
   fields name ":" OWS value OWS (token names, values in the field-value grammar) parses to exactly
   those parts -- names verbatim, values without the surrounding OWS, in order -- and leaves [rest]. *)
Theorem c02_parse_render_roundtrip :
  forall url_parse,
    (forall t, canonical_target t = true -> url_parse t = Some (path_of t, query_of t)) ->
    forall rd m t fs rest,
      is_token m = true -> canonical_target t = true -> forallb field_ok fs = true ->
      exists b', try_read url_parse (mk_fbuf rd (render_head m t fs ++ crlf2 ++ rest))
                 = (Ok (mk_head m t (path_of t) (query_of t) (map field_pair fs)), b') /\ fb_data b' = rest.
Proof. exact parse_render_roundtrip. Qed.

(* C02.2  never repaired: an accepted head has a token method, a non-blank target starting with "/"
   that the url crate parsed to the exposed path and query, token names, values in the field-value
   grammar; the bytes were, line by line (LF-separated, one trailing CR dropped), exactly
   method SP target SP HTTP/1.1 and name ":" pad value pad with blank pads; and parsing the strict
   rendering of the result gives the same head. *)
Theorem c02_accept_implies_grammar :
  forall url_parse b h,
    fst (try_read url_parse b) = Ok h ->
    is_token (h_method h) = true /\
    nonblank_run (h_target h) = true /\ starts_with [47] (h_target h) = true /\
    url_parse (h_target h) = Some (h_path h, h_query h) /\
    Forall (fun hd => is_token (fst hd) = true /\ is_field_value (snd hd) = true) (h_headers h) /\
    (exists n ls, find_slice crlf2 (fb_data b) = Some n /\ lines_spec (firstn n (fb_data b)) ls /\
                  reqline_spec (hd [] ls) (h_method h) (h_target h) http11 /\
                  Forall2 good_field_line (tl ls) (h_headers h)) /\
    (forall rd rest, exists b',
        try_read url_parse (mk_fbuf rd (render_head (h_method h) (h_target h) (map strict_field (h_headers h)) ++ crlf2 ++ rest))
        = (Ok h, b') /\ fb_data b' = rest).
Proof. exact accept_implies_grammar. Qed.

(* C02.3  must-reject: every error is justified by a rule the bytes violate (priority among
   simultaneous violations is not specified), and bytes outside the lenient grammar are rejected. *)
Theorem c02_reject_classified :
  forall url_parse b e, fst (try_read url_parse b) = Err e -> justified url_parse (fb_data b) e.
Proof. exact reject_classified. Qed.

Theorem c02_must_reject :
  forall url_parse b, ~ lenient_ok (fb_data b) -> exists e, fst (try_read url_parse b) = Err e.
Proof. exact must_reject. Qed.

(* C02.4  no partial acceptance: once the head terminator is present the head is consumed whole,
   the verdict is final (never Truncated) and the buffer holds exactly the bytes after the head. *)
Theorem c02_no_partial_accept :
  forall url_parse b n,
    find_slice crlf2 (fb_data b) = Some n ->
    fb_data (snd (try_read url_parse b)) = skipn (n + 4) (fb_data b) /\
    (forall e, fst (try_read url_parse b) = Err e -> e <> HE_Truncated).
Proof. exact no_partial_accept. Qed.

(* C02.5  the two hand-written recognisers are the declarative readings of the two patterns *)
Theorem c02_request_line_recogniser :
  forall line m t v, match_request_line line = Some (m, t, v) <-> reqline_spec line m t v.
Proof. exact match_request_line_iff. Qed.

Theorem c02_field_line_recogniser :
  forall line name g, fieldline_spec line name g ->
    exists g0, match_header_line line = Some (name, g0) /\ trim_ws g0 = trim_ws g.
Proof. exact fieldline_value_unique. Qed.

Theorem c02_trim_ws_absorbs_ows :
  forall a g b, is_ows_run a = true -> is_ows_run b = true -> trim_ws (a ++ g ++ b) = trim_ws g.
Proof. exact trim_ws_absorbs_ows. Qed.

(* the literal loop of trim_whitespace (first-blank / last-blank / break, on fuel length + 1)
   computes the structural trim_ws used by the model *)
Theorem c02_trim_whitespace_loop :
  forall l, trim_whitespace l = trim_ws l.
Proof. exact trim_whitespace_is_trim_ws. Qed.

(* C02.5b  the tie to the source: the two `regex!` literals of src/head.rs are re-read from the source ON
   THIS RUN and translated to a regex AST (props/srcparams.py -> Generated/SourceParams.v); under the
   standard denotation of regular expressions (Base/Regex.v; safe_regex matches iff the WHOLE line is in
   the language) they denote exactly the two declarative line grammars above, so the hand-written
   recognisers accept exactly the lines the source patterns match. *)
Theorem c02_request_line_regex_is_the_source_literal :
  forall line, lang src_request_line_regex line <-> exists m t v, reqline_spec line m t v.
Proof. exact request_line_regex_tie. Qed.

Theorem c02_request_line_recogniser_is_the_source_regex :
  forall line, lang src_request_line_regex line <-> exists m t v, match_request_line line = Some (m, t, v).
Proof. exact request_line_recogniser_is_the_source_regex. Qed.

Theorem c02_field_line_regex_is_the_source_literal :
  forall line, lang src_field_line_regex line <-> exists name g, fieldline_spec line name g.
Proof. exact field_line_regex_tie. Qed.

(* C02.6  the oracles evaluated on the implementation's observations are true of the model *)
Theorem c02_oracle_sound :
  forall url_parse b,
    oracle_c02 url_parse (fb_data b) (fst (try_read url_parse b)) (fb_data (snd (try_read url_parse b))) = true.
Proof. exact oracle_c02_model. Qed.

Theorem c02_oracle_roundtrip_sound :
  forall url_parse,
    (forall t, canonical_target t = true -> url_parse t = Some (path_of t, query_of t)) ->
    forall rd m t fs rest,
      let b := mk_fbuf rd (render_head m t fs ++ crlf2 ++ rest) in
      oracle_c02_roundtrip m t fs rest (fst (try_read url_parse b)) (fb_data (snd (try_read url_parse b))) = true.
Proof. exact oracle_c02_roundtrip_model. Qed.

(* C02.1b  the same at request level ("the parsed request exposes exactly that method, the target's path
   and query, and every header field in the order sent"): for a must-accept head, whenever the header
   processing of read_http_request accepts the parsed fields, the request carries the method sent and
   exactly the fields sent -- names verbatim, values without the surrounding OWS, order kept -- minus
   the content-type / expect / transfer-encoding fields the library consumes into typed fields. *)
Theorem c02_request_exposes_head_fields :
  forall url_parse,
    (forall t, canonical_target t = true -> url_parse t = Some (path_of t, query_of t)) ->
    forall rd m t fs rest,
      is_token m = true -> canonical_target t = true -> forallb field_ok fs = true ->
      exists h b',
        try_read url_parse (mk_fbuf rd (render_head m t fs ++ crlf2 ++ rest)) = (Ok h, b') /\
        fb_data b' = rest /\ h_method h = m /\ h_path h = path_of t /\ h_query h = query_of t /\
        forall r, request_of_head (h_method h) (h_headers h) = QOk r ->
          rq_method r = m /\
          rq_headers r =
          filter (fun x => negb (eq_ic (fst x) n_content_type || eq_ic (fst x) n_expect ||
                                 eq_ic (fst x) n_transfer_encoding)) (map field_pair fs).
Proof. exact request_exposes_head_fields. Qed.

(* C02.7  Defect D2: the parser before the repair accepts a field value with a CR or a NUL inside
   ("A: b\rc", "A: b\0c"), which is outside the field-value grammar; the current parser rejects. *)
Theorem c02_d2_refuted :
  forall url_parse w x,
    (w = d2_witness_cr /\ x = 13) \/ (w = d2_witness_nul /\ x = 0) ->
    forall p q, url_parse [47] = Some (p, q) ->
    fst (try_read_gen url_parse true false (mk_fbuf 0 w)) = Ok (mk_head [71] [47] p q [([65], [98; x; 99])]) /\
    is_field_value [98; x; 99] = false /\
    fst (try_read url_parse (mk_fbuf 0 w)) = Err HE_MalformedHeader.
Proof. exact d2_prefix_accepts. Qed.

(* non-vacuity: the hypotheses of the must-accept theorem are satisfiable, with a url_parse that
   meets url_canonical *)
Example c02_nonvacuous :
  let u := fun t : bytes => Some (path_of t, query_of t) in
  let fs := [mk_field [72;111;115;116] [32] [97;46;98] []; mk_field [88;45;89] [9;32] [49;32;50] [32;9]] in
  must_accept [71;69;84] [47;97;47;98;63;113;61;49] fs = true /\
  try_read u (mk_fbuf 3 (render_head [71;69;84] [47;97;47;98;63;113;61;49] fs ++ crlf2 ++ [90]))
  = (Ok (mk_head [71;69;84] [47;97;47;98;63;113;61;49] [47;97;47;98] (Some [113;61;49])
           [([72;111;115;116], [97;46;98]); ([88;45;89], [49;32;50])]),
     mk_fbuf 52 [90]).
Proof. vm_compute. split; reflexivity. Qed.

Theorem c02_translation_complete : src_problems_regex = 0%nat.
Proof. exact regex_translated. Qed.

(* C02.src-head  Head::try_read (src/head.rs) after read_head_bytes, as TRANSLATED statement by statement ON THIS RUN
   (props/srcparams.py -> Generated/SourceParams.v: src_try_read -- the split at LF with trim_trailing_cr, the first
   line as request line or MissingRequestLine, parse_request_line, the loop that parses and pushes EVERY remaining
   line, the value returned), interpreted by Tie/HeadTie.v, is the head parser the theorems above are about, for every
   head and every URL parser; the field-value byte test of parse_header_line, the first character demanded of the
   target and the protocol text are the model's *)
Theorem c02_try_read_is_the_source :
  forall url_parse hb, Tie.HeadTie.eval_try_read url_parse hb = Model.Head.parse_head url_parse hb.
Proof. exact Tie.HeadTie.try_read_tie. Qed.
Theorem c02_line_parser_literals_are_the_source :
  (forall b, Base.Bytes.is_fv_byte b =
             (N.eqb b Generated.SourceParams.src_fv_tab || Base.Bytes.in_range Generated.SourceParams.src_fv_lo Generated.SourceParams.src_fv_hi b)%bool) /\
  Generated.SourceParams.src_target_first = [47%N] /\ Generated.SourceParams.src_protocol = Model.Head.http11.
Proof. exact (conj Tie.HeadTie.fv_byte_tie (conj Tie.HeadTie.target_first_tie Tie.HeadTie.protocol_tie)). Qed.
Theorem c02_try_read_translation_complete : Generated.SourceParams.src_problems_try_read = 0%nat.
Proof. exact Tie.HeadTie.try_read_translated. Qed.

Print Assumptions c02_parse_render_roundtrip.
Print Assumptions c02_accept_implies_grammar.
Print Assumptions c02_reject_classified.
Print Assumptions c02_must_reject.
Print Assumptions c02_no_partial_accept.
Print Assumptions c02_request_line_recogniser.
Print Assumptions c02_field_line_recogniser.
Print Assumptions c02_trim_ws_absorbs_ows.
Print Assumptions c02_oracle_sound.
Print Assumptions c02_oracle_roundtrip_sound.
Print Assumptions c02_d2_refuted.
Print Assumptions c02_trim_whitespace_loop.
Print Assumptions c02_request_exposes_head_fields.
Print Assumptions c02_request_line_regex_is_the_source_literal.
Print Assumptions c02_request_line_recogniser_is_the_source_regex.
Print Assumptions c02_field_line_regex_is_the_source_literal.
Print Assumptions c02_translation_complete.
Print Assumptions c02_try_read_is_the_source.
Print Assumptions c02_line_parser_literals_are_the_source.
Print Assumptions c02_try_read_translation_complete.
