(* Properties/C05.v -- Connection protocol-state contract holds for every sequence of API calls.
   All statements quantify over EVERY request reader [read_req], EVERY response writer [write_out]
   (result + bytes the socket accepted) and every connection state; sequences by induction. *)
From SV Require Import Base.Bytes Base.IO Model.Conn Spec.ConnSpec Proofs.ConnP.
From SV Require Tie.ReadBodyTie.
From SV Require Import Base.SrcAst Generated.SourceParams Tie.ConnTie Tie.ConnGuardTie Tie.WriteResponseTie.

Section C05.
Variables payload resp : Type.
Variable read_req : cin -> (herr + (payload * reqmeta)) * cin.
Variable resp_code : resp -> N.
Variable write_out : resp -> bool -> option herr * bytes.
Variable resp_continue : resp.
Hypothesis continue_code : resp_code resp_continue = 100.     (* Response::new(100) *)

(* the machine as the code is now (repair of D16 present) *)
Notation step := (cstep payload resp read_req resp_code write_out resp_continue true).
Notation run := (crun payload resp read_req resp_code write_out resp_continue true).
Notation gerr := (guard_error resp).
Notation wdelta := (wire_delta resp resp_code write_out resp_continue).

(* C05.1  Misuse is reported by the specific documented error and changes NOTHING: not the
   protocol state, not the input position, not the wire, not the shutdown flag. *)
Theorem c05_misuse_unchanged :
  forall c o e, gerr c o = Some e -> step c o = (misuse_result payload resp o e, c).
Proof. exact (misuse_unchanged payload resp read_req resp_code write_out resp_continue true). Qed.

(* C05.2  The bytes put on the wire by a call are exactly those the state prescribes. *)
Theorem c05_wire_effect :
  forall c o, c_wire (snd (step c o)) = c_wire c ++ wdelta c o.
Proof. exact (wire_effect payload resp read_req resp_code write_out resp_continue true). Qed.

(* C05.3  Nothing is sent after shutdown, whatever is called afterwards (all sequences). *)
Theorem c05_nothing_after_shutdown :
  forall ops c, c_ws c = WS_Shutdown ->
    c_wire (snd (run c ops)) = c_wire c /\ c_ws (snd (run c ops)) = WS_Shutdown.
Proof. exact (nothing_after_shutdown payload resp read_req resp_code write_out resp_continue true). Qed.

(* C05.4  A final response cannot be sent twice: on every sequence from a fresh connection the
   number of final responses sent never exceeds the number of requests whose reading was started;
   and a successful final response leaves "nothing owed". *)
Theorem c05_final_response_once :
  forall i ops,
    (snd (counts payload resp read_req resp_code write_out resp_continue true (conn_new i) ops) <=
     fst (counts payload resp read_req resp_code write_out resp_continue true (conn_new i) ops))%nat.
Proof. exact (final_response_once payload resp read_req resp_code write_out resp_continue true continue_code). Qed.

Theorem c05_final_discharges :
  forall c r, c_ws c = WS_Response -> is_1xx (resp_code r) = false ->
    fst (step c (OWrite r)) = CR_Ok -> c_ws (snd (step c (OWrite r))) <> WS_Response.
Proof. exact (final_discharges payload resp read_req resp_code write_out resp_continue true). Qed.

(* C05.5  Interim (1xx) responses do not discharge the owed response. *)
Theorem c05_interim_keeps_owed :
  forall c r, c_ws c = WS_Response -> is_1xx (resp_code r) = true ->
    fst (write_out r (is_5xx_close (resp_code r))) = None ->
    fst (step c (OWrite r)) = CR_Ok /\ c_ws (snd (step c (OWrite r))) = WS_Response /\
    c_rs (snd (step c (OWrite r))) = c_rs c.
Proof. exact (interim_keeps_owed payload resp read_req resp_code write_out resp_continue true continue_code). Qed.

(* C05.6  A 5xx response that was sent closes the write side. *)
Theorem c05_fivexx_closes_write :
  forall c r, c_ws c = WS_Response -> is_5xx_close (resp_code r) = true ->
    fst (step c (OWrite r)) = CR_Ok ->
    c_ws (snd (step c (OWrite r))) = WS_Shutdown /\ c_wshut (snd (step c (OWrite r))) = true.
Proof. exact (fivexx_closes_write payload resp read_req resp_code write_out resp_continue true). Qed.

(* C05.7  A failed write: any accepted byte closes the write side, none leaves the response owed
   (shared with C08). *)
Theorem c05_failed_write_accounting :
  forall c r e, c_ws c = WS_Response -> fst (step c (OWrite r)) = CR_Err e ->
    c_ws (snd (step c (OWrite r))) =
      match snd (write_out r (is_5xx_close (resp_code r))) with [] => WS_Response | _ => WS_Shutdown end.
Proof. exact (failed_write_accounting payload resp read_req resp_code write_out resp_continue true). Qed.

(* C05.8  A request can be read exactly when the connection is ready: awaiting a head, nothing owed. *)
Theorem c05_is_ready_iff :
  forall c, is_ready c = true <-> c_rs c = RS_Head /\ c_ws c = WS_None.
Proof. exact is_ready_spec. Qed.
Theorem c05_read_request_iff_ready :
  forall c, is_ready c = true <-> gerr c OReadRequest = None.
Proof. exact (read_request_iff_ready resp). Qed.

(* C05.9  100-continue goes out automatically before a body announced with Expect is read, the
   response stays owed, and the body returned is exactly the next n bytes of the input. *)
Theorem c05_auto_continue_then_body :
  forall c n ch gz cb,
    c_rs c = RS_Body (Some n) true ch gz -> ch || gz = false -> c_ws c = WS_Response ->
    write_out resp_continue false = (None, cb) ->
    n <= N.of_nat (length (cin_avail (c_in c))) ->
    let '(r, c') := step c OReadBodyVec in
    r = CR_Body (BR_Vec (firstn (N.to_nat n) (cin_avail (c_in c)))) /\
    c_wire c' = c_wire c ++ cb /\ c_ws c' = WS_Response /\ c_rs c' = RS_Head /\
    cin_avail (c_in c') = skipn (N.to_nat n) (cin_avail (c_in c)).
Proof. exact (auto_continue_then_body payload resp read_req resp_code write_out resp_continue true continue_code). Qed.

(* C05.10  A request cannot be read while a body is unread: a body read that fails never puts the
   connection back to "awaiting a head" (repair of D16). *)
Theorem c05_failed_body_read_not_head :
  forall c o e l ex ch gz,
    is_body_op resp o = true -> c_rs c = RS_Body l ex ch gz ->
    fst (step c o) = CR_Body (BR_Err e) -> c_rs (snd (step c o)) <> RS_Head.
Proof. exact (failed_body_read_not_head payload resp read_req resp_code write_out resp_continue true eq_refl). Qed.

(* C05.11  The oracle evaluated on the implementation's observations holds of every model step. *)
Theorem c05_oracle_sound :
  forall c o,
    oracle_c05_step resp resp_code (c_rs c) (c_ws c) o (err_of payload (fst (step c o)))
                    (kind_of_step payload resp read_req c o)
                    (c_rs (snd (step c o))) (c_ws (snd (step c o))) (wdelta c o) = true.
Proof. exact (oracle_c05_sound payload resp read_req resp_code write_out resp_continue true continue_code eq_refl). Qed.
End C05.

(* The code before the repair of D16: a failed read_body_to_file left read_state = Head with the
   body unread, so the body bytes were parsed as the next request. *)
Theorem c05_failed_body_read_head_refuted :
  let st := cstep unit unit (fun i => (inl Disconnected, i)) (fun _ => 200) (fun _ _ => (None, [])) tt false
                  d16_conn (OReadBodyFile false 100) in
  fst st = CR_Body (BR_Err ErrorSavingFile) /\ c_rs (snd st) = RS_Head /\ c_in (snd st) = d16_in.
Proof. exact failed_body_read_head_refuted. Qed.

(* non-vacuity: a two-request exchange on a toy instance *)
Example c05_nonvacuous :
  let rd (i : cin) := match ci_buf i with
                      | 71 :: t => (inr (tt, mk_meta BK_None false false false), mk_cin t (ci_in i))
                      | 80 :: t => (inr (tt, mk_meta (BK_Known 2) true false false), mk_cin t (ci_in i))
                      | _ => (inl Disconnected, i) end in
  let wr (r : N) (close : bool) := (@None herr, [r]) in
  fst (crun unit N rd (fun r => r) wr 100 true (conn_new (mk_cin [71; 80; 1; 2] (mk_in [] [] false)))
        [OReadRequest; OWrite 200; OWrite 200; OReadRequest; OReadRequest; OReadBodyVec; OWrite 503; OWrite 200]) =
  [CR_Req tt; CR_Ok; CR_Err ResponseAlreadySent; CR_Req tt; CR_Err ResponseNotSent; CR_Body (BR_Vec [1; 2]);
   CR_Ok; CR_Err Disconnected].
Proof. vm_compute. reflexivity. Qed.

(* C05.src  the connection's head buffer length, re-read from src/http_conn.rs ON THIS RUN, is the
   capacity the concrete instance of the connection machine uses *)
Theorem c05_source_conn_buffer : ConnInst.cap8k = N.to_nat src_conn_buf_len.
Proof. exact conn_buf_tie. Qed.

(* C05.src2  the leading state guards of HttpConn::read_request / write_http_continue / write_response as
   TRANSLATED from src/http_conn.rs ON THIS RUN (match arms in source order) return, for EVERY connection state,
   exactly the misuse error the documented contract prescribes (Spec/ConnSpec.v: guard_error), and let the call
   proceed exactly when the contract allows it *)
Theorem c05_source_read_request_guards :
  forall (resp : Type) c, eval_guards src_guards_read_request c = Some (guard_error resp c (@OReadRequest resp)).
Proof. exact read_request_guards_tie. Qed.
Theorem c05_source_write_continue_guards :
  forall (resp : Type) c, eval_guards src_guards_write_http_continue c = Some (guard_error resp c (@OContinue resp)).
Proof. exact write_continue_guards_tie. Qed.
Theorem c05_source_write_response_guards :
  forall (resp : Type) c r, eval_guards src_guards_write_response c = Some (guard_error resp c (OWrite r)).
Proof. exact write_response_guards_tie. Qed.
Theorem c05_guards_translation_complete : src_problems_conn_guards = 0%nat.
Proof. exact conn_guards_translated. Qed.

(* C05.src3  HttpConn::write_response after its guard, as TRANSLATED ON THIS RUN (the 500..=599 close range, the per-call
   byte counter, the statements of the Ok branch, shutdown iff the counter is positive on Err), interpreted over the
   connection machine, is the machine's write_response for every connection, response and serialiser outcome *)
Theorem c05_write_response_is_the_source :
  forall (resp : Type) (resp_code : resp -> N) (write_out : resp -> bool -> option herr * bytes) c r,
    m_eval_write_response resp resp_code write_out c r = Conn.write_response resp resp_code write_out c r.
Proof. exact machine_write_response_tie. Qed.
Theorem c05_write_response_translation_complete : src_problems_write_response = 0%nat.
Proof. exact write_response_translated. Qed.

(* C05.src-body  HttpConn::read_body_to_vec and read_body_to_file (src/http_conn.rs) as TRANSLATED ON THIS RUN -- the arms
   of `match self.read_state` in source order with their patterns (the chunked / gzip refusal, the `if len > max_len`
   guard), errors and statements (the interim 100 Continue, the read state set BEFORE the read, Shutdown after a failed
   read) -- interpreted by Tie/ReadBodyTie.v over the connection machine, are the machine's body readers for every
   connection state, input, limit and cache-directory condition *)
Theorem c05_read_body_to_vec_is_the_source :
  forall (resp : Type) resp_code write_out resp_continue c,
    Tie.ReadBodyTie.eval_read_body resp resp_code write_out resp_continue Generated.SourceParams.src_read_body_to_vec None true c
    = Model.Conn.read_body_to_vec resp resp_code write_out resp_continue true c.
Proof. exact Tie.ReadBodyTie.read_body_to_vec_tie. Qed.
Theorem c05_read_body_to_file_is_the_source :
  forall (resp : Type) resp_code write_out resp_continue c dir_ok max_len,
    Tie.ReadBodyTie.eval_read_body resp resp_code write_out resp_continue Generated.SourceParams.src_read_body_to_file (Some max_len) dir_ok c
    = Model.Conn.read_body_to_file resp resp_code write_out resp_continue true c dir_ok max_len.
Proof. exact Tie.ReadBodyTie.read_body_to_file_tie. Qed.
Theorem c05_read_body_translation_complete : Generated.SourceParams.src_problems_read_body = 0%nat.
Proof. exact Tie.ReadBodyTie.read_body_translated. Qed.

Print Assumptions c05_misuse_unchanged.
Print Assumptions c05_wire_effect.
Print Assumptions c05_nothing_after_shutdown.
Print Assumptions c05_final_response_once.
Print Assumptions c05_final_discharges.
Print Assumptions c05_interim_keeps_owed.
Print Assumptions c05_fivexx_closes_write.
Print Assumptions c05_failed_write_accounting.
Print Assumptions c05_is_ready_iff.
Print Assumptions c05_read_request_iff_ready.
Print Assumptions c05_auto_continue_then_body.
Print Assumptions c05_failed_body_read_not_head.
Print Assumptions c05_oracle_sound.
Print Assumptions c05_failed_body_read_head_refuted.
Print Assumptions c05_source_conn_buffer.
Print Assumptions c05_source_read_request_guards.
Print Assumptions c05_source_write_continue_guards.
Print Assumptions c05_source_write_response_guards.
Print Assumptions c05_guards_translation_complete.
Print Assumptions c05_write_response_is_the_source.
Print Assumptions c05_write_response_translation_complete.
Print Assumptions c05_read_body_to_vec_is_the_source.
Print Assumptions c05_read_body_to_file_is_the_source.
Print Assumptions c05_read_body_translation_complete.
