(* Properties/C01.v -- Request reading is total: any byte stream, split into reads in any way,
   gives a parsed head or one of the documented errors; never a panic, never a hang; nothing past
   the blank line is consumed; the outcome does not depend on the split.
   Only property-level statements; each is closed by [exact <lemma>].

   Reading guide.  [url_parse] is the external `url` crate (any function).  [cap] is the size of
   the FixedBuf, [b] any well-formed buffer state (read index + readable bytes), [s] the input:
   bytes still to come, the read schedule (how many bytes each read may return), and how the stream
   ends (EOF or io error).  [abstract] forgets where the left-over bytes sit (buffer or unread).
   Outcomes of the model: ROk | RErr e | RPanic (every unwrap / assert of the Rust code that the
   compiler cannot rule out) | ROutOfFuel (the loop did not finish within [fuel] iterations). *)
From SV Require Import Base.Bytes Base.BytesP Base.IO Model.Headers Model.Head Proofs.HeadP Proofs.HeadReadP.
From SV Require Generated.SourceParams Tie.HeadTie.

(* C01.1  Head::try_read itself never panics (find_slice bounds the try_read_exact unwrap; token
   bytes are ASCII; after the repair of D1 the value conversion is checked). *)
Theorem c01_try_read_never_panics :
  forall url_parse b, fst (try_read url_parse b) <> Panic.
Proof. exact try_read_total. Qed.

(* C01.2  The loop equals a schedule-free function of the bytes and needs at most
   writable + 1 <= cap + 1 iterations. *)
Theorem c01_read_head_spec :
  forall url_parse cap fuel b s,
    fb_wf cap b -> (fb_writable cap b < fuel)%nat ->
    abstract (read_head url_parse cap fuel b s) = Some (head_spec url_parse cap b (in_bytes s)).
Proof. intros u cap. exact (read_head_spec u true true cap). Qed.

(* C01.3  Totality: a request or a documented error; never Panic, never OutOfFuel. *)
Theorem c01_read_head_total :
  forall url_parse cap fuel b s,
    fb_wf cap b -> (cap + 2 <= fuel)%nat ->
    (exists h b' s', read_head url_parse cap fuel b s = ROk h b' s') \/
    (exists e b' s', read_head url_parse cap fuel b s = RErr e b' s' /\
       (e = E_MalformedRequestLine \/ e = E_MalformedPath \/ e = E_UnsupportedProtocol \/
        e = E_MalformedHeaderLine \/ e = E_HeadTooLong \/ e = E_Truncated \/ e = E_Disconnected)).
Proof. exact read_head_total_listed. Qed.

(* C01.4  Split independence: same bytes, any two schedules / endings / sufficient fuels. *)
Theorem c01_read_head_split_independent :
  forall url_parse cap fuel fuel' b bytes sched sched' err err',
    fb_wf cap b -> (cap + 2 <= fuel)%nat -> (cap + 2 <= fuel')%nat ->
    abstract (read_head url_parse cap fuel b (mk_in bytes sched err))
    = abstract (read_head url_parse cap fuel' b (mk_in bytes sched' err')).
Proof. intros u cap. exact (read_head_split_independent u true true cap). Qed.

(* C01.5  Exact consumption: with the first CRLFCRLF at offset n inside the window, the answer is
   the parser's answer on the n bytes before it, and exactly the bytes after n + 4 remain. *)
Theorem c01_read_head_consumes_exactly :
  forall url_parse cap fuel b s n,
    fb_wf cap b -> (cap + 2 <= fuel)%nat ->
    find_slice crlf2 (fb_data b ++ in_bytes s) = Some n -> (n + 4 <= cap - fb_rd b)%nat ->
    let all := fb_data b ++ in_bytes s in
    (exists h b' s', read_head url_parse cap fuel b s = ROk h b' s' /\
                     parse_head url_parse (firstn n all) = Ok h /\
                     fb_data b' ++ in_bytes s' = skipn (n + 4) all) \/
    (exists e b' s', read_head url_parse cap fuel b s = RErr (of_head_error e) b' s' /\
                     parse_head url_parse (firstn n all) = Err e /\
                     fb_data b' ++ in_bytes s' = skipn (n + 4) all).
Proof. exact read_head_consumes_exactly. Qed.

(* C01.6  The remaining arms of the specification: terminator beyond the window => HeadTooLong;
   no terminator => HeadTooLong / Disconnected / Truncated by length; nothing is consumed. *)
Theorem c01_no_terminator_outcomes :
  forall url_parse cap b stream,
    find_slice crlf2 (fb_data b ++ stream) = None ->
    head_spec url_parse cap b stream =
    if (cap - fb_rd b <=? length (fb_data b ++ stream))%nat then VErr E_HeadTooLong (fb_data b ++ stream)
    else match fb_data b ++ stream with [] => VErr E_Disconnected [] | _ => VErr E_Truncated (fb_data b ++ stream) end.
Proof. intros u cap. exact (spec_no_terminator u true true cap). Qed.

Theorem c01_terminator_beyond_window :
  forall url_parse cap b stream n,
    find_slice crlf2 (fb_data b ++ stream) = Some n -> (cap - fb_rd b < n + 4)%nat ->
    head_spec url_parse cap b stream = VErr E_HeadTooLong (fb_data b ++ stream).
Proof. intros u cap. exact (spec_too_long u true true cap). Qed.

(* C01.7  The head phase of read_http_request (buf.shift() first): total, split independent, and
   the window is the whole buffer whatever read index the previous message left behind, so a
   pipelined head of up to cap bytes always fits. *)
Theorem c01_read_request_head_total :
  forall url_parse cap fuel b s,
    fb_wf cap b -> (cap + 2 <= fuel)%nat ->
    (exists h b' s', read_request_head url_parse cap fuel b s = ROk h b' s') \/
    (exists e b' s', read_request_head url_parse cap fuel b s = RErr e b' s' /\ documented_head_error e = true).
Proof. exact read_request_head_total_outcome. Qed.

Theorem c01_read_request_head_split_independent :
  forall url_parse cap fuel fuel' b bytes sched sched' err err',
    fb_wf cap b -> (cap + 2 <= fuel)%nat -> (cap + 2 <= fuel')%nat ->
    abstract (read_request_head url_parse cap fuel b (mk_in bytes sched err))
    = abstract (read_request_head url_parse cap fuel' b (mk_in bytes sched' err')).
Proof. exact read_request_head_split_independent. Qed.

Theorem c01_pipelined_head_fits :
  forall url_parse cap fuel b s n,
    fb_wf cap b -> (cap + 2 <= fuel)%nat ->
    find_slice crlf2 (fb_data b ++ in_bytes s) = Some n -> (n + 4 <= cap)%nat ->
    forall b' s', read_request_head url_parse cap fuel b s <> RErr E_HeadTooLong b' s'.
Proof. exact read_request_head_fits. Qed.

(* C01.8  A whole pipelined connection: the sequence of head outcomes is a function of the
   concatenated bytes only (every later request starts from whatever buffer state the previous
   one left). *)
Theorem c01_pipelined_sequence_spec :
  forall url_parse cap n fuel b s,
    fb_wf cap b -> (cap + 2 <= fuel)%nat ->
    map abstract (read_seq url_parse cap n fuel b s)
    = map Some (seq_spec url_parse cap n (fb_data b ++ in_bytes s)).
Proof. exact read_seq_spec. Qed.

(* C01.9  Every error of the head phase maps to a documented status or to dropping the
   connection, and HeadError -> HttpError keeps the class. *)
Theorem c01_error_maps_to_documented_status :
  forall e, status_of e = match e with
                          | E_Disconnected => Drop
                          | E_HeadTooLong => Status 431
                          | E_UnsupportedProtocol => Status 505
                          | _ => Status 400
                          end.
Proof. exact error_status_table. Qed.

Theorem c01_head_error_conversion :
  forall e, documented_head_error (of_head_error e) = true \/ e = HE_MissingRequestLine.
Proof. exact head_error_status. Qed.

(* C01.10  The oracles evaluated by the correspondence check on the implementation's observations
   are true of the model. *)
Theorem c01_oracle_sound :
  forall url_parse cap fuel b s,
    fb_wf cap b -> (cap + 2 <= fuel)%nat ->
    forall cmp, oracle_c01 url_parse cmp cap b (in_bytes s) (abstract (read_head url_parse cap fuel b s)) = true.
Proof. exact oracle_c01_model. Qed.

Theorem c01_oracle_seq_sound :
  forall url_parse cap n fuel b s,
    fb_wf cap b -> (cap + 2 <= fuel)%nat ->
    forall cmp, oracle_c01_seq url_parse cmp cap n (fb_data b ++ in_bytes s)
                   (map abstract (read_seq url_parse cap n fuel b s)) = true.
Proof. exact oracle_c01_seq_model. Qed.

Theorem c01_oracle_try_sound :
  forall url_parse cap b, fb_wf cap b ->
    oracle_c01_try url_parse cap b (fst (try_read url_parse b)) (fb_data (snd (try_read url_parse b))) = true.
Proof. exact oracle_c01_try_model. Qed.

(* C01.11  Defect D1: the parser before the repair (unwrap on the value conversion) panics on
   "GET / HTTP/1.1\r\nA: \x80\r\n\r\n" under every schedule, for every url_parse that accepts "/";
   the current parser answers MalformedHeaderLine on the same bytes. *)
Theorem C01_refuted_prefix :
  forall url_parse, url_parse [47] <> None ->
  forall sched err,
    read_head_prefix url_parse 64 66 (mk_fbuf 0 []) (mk_in d1_witness sched err) = RPanic.
Proof. exact d1_prefix_panics. Qed.

Theorem c01_d1_repaired :
  forall url_parse, url_parse [47] <> None ->
  forall sched err,
    abstract (read_head url_parse 64 66 (mk_fbuf 0 []) (mk_in d1_witness sched err))
    = Some (VErr E_MalformedHeaderLine []).
Proof. exact d1_fixed_rejects. Qed.

(* non-vacuity: two pipelined requests delivered one byte per read through a 24-byte buffer; the
   second head (18 bytes) only fits because of the shift *)
Example c01_nonvacuous :
  let u := fun t : bytes => Some (t, @None bytes) in
  let stream := [65;32;47;97;32;72;84;84;80;47;49;46;49;13;10;13;10;
                 66;32;47;98;32;72;84;84;80;47;49;46;49;13;10;13;10;67] in
  map abstract (read_seq u 24 3 26 (mk_fbuf 0 []) (mk_in stream [] false))
  = [Some (VOk (mk_head [65] [47;97] [47;97] None []) (skipn 17 stream));
     Some (VOk (mk_head [66] [47;98] [47;98] None []) [67]);
     Some (VErr E_Truncated [67])]
  /\ (* without the shift a head that fits the buffer is refused once left-over bytes precede it *)
  abstract (read_head u 24 26 (mk_fbuf 10 (firstn 4 (skipn 17 stream))) (mk_in (skipn 21 stream) [] false))
  = Some (VErr E_HeadTooLong (skipn 17 stream)).
Proof. vm_compute. split; reflexivity. Qed.

(* C01.src-head  Head::try_read (src/head.rs) after read_head_bytes, as TRANSLATED statement by statement ON THIS RUN
   (props/srcparams.py -> Generated/SourceParams.v: src_try_read -- the split at LF with trim_trailing_cr, the first
   line as request line or MissingRequestLine, parse_request_line, the loop that parses and pushes EVERY remaining
   line, the value returned), interpreted by Tie/HeadTie.v, is the head parser the theorems above are about, for every
   head and every URL parser; the field-value byte test of parse_header_line, the first character demanded of the
   target and the protocol text are the model's *)
Theorem c01_try_read_is_the_source :
  forall url_parse hb, Tie.HeadTie.eval_try_read url_parse hb = Model.Head.parse_head url_parse hb.
Proof. exact Tie.HeadTie.try_read_tie. Qed.
Theorem c01_line_parser_literals_are_the_source :
  (forall b, Base.Bytes.is_fv_byte b =
             (N.eqb b Generated.SourceParams.src_fv_tab || Base.Bytes.in_range Generated.SourceParams.src_fv_lo Generated.SourceParams.src_fv_hi b)%bool) /\
  Generated.SourceParams.src_target_first = [47%N] /\ Generated.SourceParams.src_protocol = Model.Head.http11.
Proof. exact (conj Tie.HeadTie.fv_byte_tie (conj Tie.HeadTie.target_first_tie Tie.HeadTie.protocol_tie)). Qed.
Theorem c01_try_read_translation_complete : Generated.SourceParams.src_problems_try_read = 0%nat.
Proof. exact Tie.HeadTie.try_read_translated. Qed.

(* C01.src-loop  read_http_head (src/head.rs) as TRANSLATED statement by statement ON THIS RUN (the try_read match, the
   full-buffer test with its error, the read with its two end-of-stream errors and buf.wrote), interpreted as a loop
   with one unit of fuel per read, is the reader the theorems above are about -- for every buffer capacity, buffer
   state, stream and delivery schedule; the delimiter read_head_bytes searches for and the number of bytes it
   consumes beyond the head are the model's *)
Theorem c01_read_loop_is_the_source :
  forall url_parse cap fuel b s,
    Tie.HeadTie.eval_read_http_head url_parse cap Generated.SourceParams.src_read_http_head fuel b s
    = Model.Head.read_head url_parse cap fuel b s.
Proof. exact Tie.HeadTie.read_http_head_tie. Qed.
Theorem c01_head_delimiter_is_the_source :
  Generated.SourceParams.src_head_delim = Model.Head.crlf2 /\
  Generated.SourceParams.src_head_delim_consumed = N.of_nat (length Model.Head.crlf2).
Proof. exact Tie.HeadTie.head_delim_tie. Qed.
Theorem c01_read_loop_translation_complete : Generated.SourceParams.src_problems_read_head = 0%nat.
Proof. exact Tie.HeadTie.read_head_translated. Qed.

Print Assumptions c01_try_read_never_panics.
Print Assumptions c01_read_head_spec.
Print Assumptions c01_read_head_total.
Print Assumptions c01_read_head_split_independent.
Print Assumptions c01_read_head_consumes_exactly.
Print Assumptions c01_no_terminator_outcomes.
Print Assumptions c01_terminator_beyond_window.
Print Assumptions c01_read_request_head_total.
Print Assumptions c01_read_request_head_split_independent.
Print Assumptions c01_pipelined_head_fits.
Print Assumptions c01_pipelined_sequence_spec.
Print Assumptions c01_error_maps_to_documented_status.
Print Assumptions c01_head_error_conversion.
Print Assumptions c01_oracle_sound.
Print Assumptions c01_oracle_seq_sound.
Print Assumptions C01_refuted_prefix.
Print Assumptions c01_d1_repaired.
Print Assumptions c01_oracle_try_sound.
Print Assumptions c01_try_read_is_the_source.
Print Assumptions c01_line_parser_literals_are_the_source.
Print Assumptions c01_try_read_translation_complete.
Print Assumptions c01_read_loop_is_the_source.
Print Assumptions c01_head_delimiter_is_the_source.
Print Assumptions c01_read_loop_translation_complete.
