(* Properties/C03.v -- Message framing comes only from the headers; ambiguous framing is rejected.
   Only property-level statements; each is closed by [exact <lemma>].

   Model: Model/Request.v (request_of_head = read_http_request after the head is parsed; msg_step /
   pipeline = read_http_request + HttpConn::read_body_to_vec, message after message).
   Specification: Spec/Framing.v (framing_spec, spec_ctype, spec_expect, spec_cookies, spec_exposed,
   spec_body), written from the property statement.
   Hypothesis [values_fv hs]: every field value consists of HTAB / SP / VCHAR bytes -- what the head
   parser guarantees (C02, after D2).  The stream-level theorems are stated over an ABSTRACT head
   reader [read_head : bytes -> option (head * bytes)] (the schedule-free meaning of read_http_head,
   C01); [pipeline_roundtrip] additionally assumes that it inverts a renderer on well-formed heads
   and returns exactly the bytes behind the head -- the statements C01/C02 prove for Model/Head.v. *)
From SV Require Import Base.Bytes Base.BytesP Model.Headers Proofs.HeadersP Model.RustStr
     Proofs.RustStrP Model.Request Spec.Framing Proofs.RequestP Proofs.StreamP Proofs.FramingP.
From SV Require Generated.SourceParams Tie.HeadTie.
From SV Require Import Base.SrcAst Generated.SourceParams Tie.ContentTypeTie Tie.RequestTie.
From SV Require Model.Head Spec.Rfc7230.
From SV Require Import Base.IO Model.PipelineInst Proofs.PipelineInstP.

(* C03.1  framing_agrees: for every method and header list the classification made by the code
   equals the decision table of the statement (cookie syntax errors, which are not framing, aside). *)
Theorem c03_framing_agrees :
  forall method hs, values_fv hs = true -> spec_cookies hs <> None ->
    framing_of_result (request_of_head method hs) = framing_spec method hs.
Proof. exact framing_agrees. Qed.

(* C03.2  the whole result of read_http_request is the specified function of (method, fields):
   rejection (transfer-encoding before cookie before content-length) or the request whose every
   field is given by the spec functions. *)
Theorem c03_request_is_function_of_head :
  forall method hs, values_fv hs = true -> request_of_head method hs = spec_request method hs.
Proof. exact request_of_head_spec. Qed.

(* C03.3  framing_never_ignored: invalid or ambiguous framing => Err, never "as if absent":
   Content-Length repeated (equal or different), empty, non-numeric, signed, padded inside,
   >= 2^64; Transfer-Encoding repeated, unknown / mis-ordered / repeated codings. *)
Theorem c03_framing_never_ignored :
  forall method hs, values_fv hs = true ->
    classify_cl (field_values n_content_length hs) = ClInvalid \/
    classify_te (field_values n_transfer_encoding hs) = TeInvalid ->
    exists e, request_of_head method hs = QErr e.
Proof. exact invalid_framing_rejected. Qed.

Theorem c03_repeated_content_length_is_invalid :
  forall v1 v2 rest, classify_cl (v1 :: v2 :: rest) = ClInvalid.
Proof. exact repeated_cl_invalid. Qed.

Theorem c03_repeated_transfer_encoding_is_invalid :
  forall v1 v2 rest, classify_te (v1 :: v2 :: rest) = TeInvalid.
Proof. exact repeated_te_invalid. Qed.

Theorem c03_single_content_length_invalid_iff :
  forall v, classify_cl [v] = ClInvalid <->
            v = [] \/ forallb is_digit v = false \/ 18446744073709551616 <= digits_value v.
Proof. exact cl_single_invalid_iff. Qed.

Theorem c03_single_content_length_valid_iff :
  forall v n, classify_cl [v] = ClValid n <->
              v <> [] /\ forallb is_digit v = true /\ digits_value v = n /\ n < 18446744073709551616.
Proof. exact cl_valid_iff. Qed.

Theorem c03_boundary_values_content_length :
  classify_cl [] = ClAbsent /\ classify_cl [v_0] = ClValid 0 /\ classify_cl [v_1] = ClValid 1 /\
  classify_cl [v_005] = ClValid 5 /\
  classify_cl [v_max] = ClValid 18446744073709551615 /\ classify_cl [v_2_64] = ClInvalid /\
  classify_cl [v_plus5] = ClInvalid /\ classify_cl [v_minus0] = ClInvalid /\
  classify_cl [v_5sp5] = ClInvalid /\ classify_cl [[]] = ClInvalid /\ classify_cl [v_abc] = ClInvalid /\
  classify_cl [v_5; v_5] = ClInvalid /\ classify_cl [v_5; v_6] = ClInvalid.
Proof. exact cl_boundaries. Qed.

Theorem c03_boundary_values_transfer_encoding :
  classify_te [] = TeAbsent /\ classify_te [s_chunked] = TeChunked /\ classify_te [s_gzip] = TeGzip /\
  classify_te [v_gzip_chunked] = TeGzipChunked /\ classify_te [v_chunked_gzip] = TeInvalid /\
  classify_te [v_identity] = TeInvalid /\ classify_te [v_Chunked] = TeInvalid /\
  classify_te [v_empty_elems] = TeChunked /\ classify_te [v_chunked_chunked] = TeInvalid /\
  classify_te [[]] = TeAbsent /\
  classify_te [s_chunked; s_chunked] = TeInvalid /\ classify_te [s_gzip; s_chunked] = TeInvalid.
Proof. exact te_boundaries. Qed.

(* C03.4  derived_fields_pure + handler_sees_sent_minus_consumed: an accepted request carries
     content type = media_type_of v when exactly one content-type field (value v) was sent, None for
                    zero or several (remove_only answers None for 0 or >= 2 matches);
     expect flag  = (the single expect field is exactly "100-continue"), false for zero or several;
     cookies      = the pairs of all Cookie fields in order, later pairs overriding earlier ones;
     headers      = the list sent minus EVERY content-type / expect / transfer-encoding field
                    (remove_only / remove_all delete all matches whatever their number), order kept;
   all of them functions of the header list alone. *)
Theorem c03_derived_fields_pure :
  forall method hs r, values_fv hs = true -> request_of_head method hs = QOk r ->
    framing_spec method hs = Accept (rq_chunked r) (rq_gzip r) (rq_clen r) (rq_body r) /\
    spec_cookies hs = Some (rq_cookies r) /\
    rq_ctype r = spec_ctype hs /\ rq_expect r = spec_expect hs /\
    rq_headers r = spec_exposed hs /\ rq_method r = method.
Proof. exact accepted_request. Qed.

Theorem c03_handler_sees_sent_minus_consumed :
  forall method hs r, values_fv hs = true -> request_of_head method hs = QOk r ->
    rq_headers r =
    filter (fun h => negb (eq_ic (fst h) n_content_type || eq_ic (fst h) n_expect ||
                           eq_ic (fst h) n_transfer_encoding)) hs.
Proof. exact exposed_headers. Qed.

(* C03.5  schedule independence: one message step, abstracted to (result, unread bytes, go on?), is a
   function of the unread bytes only -- for every buffer/socket split and every read schedule, and for
   every variant of the code. *)
Theorem c03_message_step_schedule_independent :
  forall (head : Type) (h_method : head -> bytes) (h_headers : head -> hlist)
         (read_head : bytes -> option (head * bytes)) (small : N) (d3 d4 : bool)
         buf stream split sched,
    abs3 head (msg_step head h_method h_headers read_head small d3 d4 buf stream split sched) =
    msg_spec head h_method h_headers read_head small d3 d4 (buf ++ stream).
Proof. exact msg_step_spec. Qed.

(* C03.6  body_exact: one valid Content-Length = n (0 < n <= small_body_len), no transfer coding, at
   least n bytes behind the head => the body is exactly the next n bytes, for every split and
   schedule, the connection goes on, and what is left for the next head parse is exactly the rest. *)
Theorem c03_body_exact :
  forall (head : Type) (h_method : head -> bytes) (h_headers : head -> hlist)
         (read_head : bytes -> option (head * bytes)) (small : N)
         h data rest n buf stream split sched,
    buf ++ stream = data -> read_head data = Some (h, rest) -> values_fv (h_headers h) = true ->
    spec_cookies (h_headers h) <> None ->
    single_valid_length (h_headers h) n -> 0 < n -> n <= small -> n <= nlen rest ->
    exists b s,
      msg_step head h_method h_headers read_head small true true buf stream split sched =
      (MReq h (expected_request head h_method h_headers h n) (BrVec (ntake n rest)), (b, s), true) /\
      b ++ s = nskip n rest.
Proof. exact body_exact. Qed.

(* C03.7  pipeline_roundtrip (request-smuggling freedom): for every list of well-formed
   Content-Length-framed messages (any number), any bytes [tail] behind them, every split and
   schedule: reading |msgs| messages from the concatenation yields exactly the messages (head,
   derived request, body bytes) and leaves exactly [tail]. *)
Theorem c03_pipeline_roundtrip :
  forall (head : Type) (h_method : head -> bytes) (h_headers : head -> hlist)
         (read_head : bytes -> option (head * bytes)) (small : N)
         (render_head : head -> bytes) (wf_head : head -> Prop),
    (forall h rest, wf_head h -> read_head (render_head h ++ rest) = Some (h, rest)) ->
    forall msgs tail buf stream splits scheds,
      Forall (cl_framed head h_headers small wf_head) msgs ->
      buf ++ stream = flat_map (render head render_head) msgs ++ tail ->
      fst (pipeline head h_method h_headers read_head small true true (length msgs) buf stream splits scheds)
      = map (expected head h_method h_headers) msgs /\
      fst (snd (pipeline head h_method h_headers read_head small true true (length msgs) buf stream splits scheds)) ++
      snd (snd (pipeline head h_method h_headers read_head small true true (length msgs) buf stream splits scheds))
      = tail.
Proof. exact pipeline_roundtrip. Qed.

(* C03.8  coded_bodies_refused: chunked / gzip are reported in the flags, and reading the body is
   refused without consuming anything. *)
Theorem c03_coded_flags_reported :
  forall method hs r, values_fv hs = true -> request_of_head method hs = QOk r ->
    (rq_chunked r = match classify_te (field_values n_transfer_encoding hs) with
                    | TeChunked | TeGzipChunked => true | _ => false end) /\
    (rq_gzip r = match classify_te (field_values n_transfer_encoding hs) with
                 | TeGzip | TeGzipChunked => true | _ => false end).
Proof. exact coded_flags. Qed.

Theorem c03_coded_bodies_refused :
  forall chunked gzip len buf stream sched,
    chunked || gzip = true ->
    read_body_to_vec chunked gzip len buf stream sched = (BrRefused, (buf, stream)).
Proof. exact coded_refused. Qed.

Theorem c03_coded_message_refused :
  forall (head : Type) (h_method : head -> bytes) (h_headers : head -> hlist)
         (read_head : bytes -> option (head * bytes)) (small : N)
         h data rest buf stream split sched r,
    buf ++ stream = data -> read_head data = Some (h, rest) -> values_fv (h_headers h) = true ->
    request_of_head (h_method h) (h_headers h) = QOk r ->
    rq_chunked r || rq_gzip r = true -> rq_body r <> BodyEmpty ->
    exists b s br,
      msg_step head h_method h_headers read_head small true true buf stream split sched =
      (MReq h r br, (b, s), false) /\ b ++ s = rest /\ (br = BrRefused \/ br = BrDeferred).
Proof. exact coded_message_refused. Qed.

(* C03.9  without framing fields: POST / PUT bodies run to the end of the stream ... *)
Theorem c03_unknown_length_runs_to_eof :
  forall (head : Type) (h_method : head -> bytes) (h_headers : head -> hlist)
         (read_head : bytes -> option (head * bytes)) (small : N)
         h data rest buf stream split sched,
    buf ++ stream = data -> read_head data = Some (h, rest) -> values_fv (h_headers h) = true ->
    spec_cookies (h_headers h) <> None -> no_framing_fields (h_headers h) ->
    method_has_default_body (h_method h) = true ->
    exists r b s,
      msg_step head h_method h_headers read_head small true true buf stream split sched =
      (MReq h r (BrVec rest), (b, s), false) /\ b ++ s = [] /\
      rq_body r = PendingUnknown /\ rq_clen r = None.
Proof. exact unknown_length_to_eof. Qed.

(* ... and bodiless methods (no Expect) have an empty body: the next byte starts the next request. *)
Theorem c03_bodiless_methods_empty :
  forall (head : Type) (h_method : head -> bytes) (h_headers : head -> hlist)
         (read_head : bytes -> option (head * bytes)) (small : N)
         h data rest buf stream split sched,
    buf ++ stream = data -> read_head data = Some (h, rest) -> values_fv (h_headers h) = true ->
    spec_cookies (h_headers h) <> None -> no_framing_fields (h_headers h) ->
    method_has_default_body (h_method h) = false -> spec_expect (h_headers h) = false ->
    exists r b s,
      msg_step head h_method h_headers read_head small true true buf stream split sched =
      (MReq h r BrNone, (b, s), true) /\ b ++ s = rest /\ rq_body r = BodyEmpty.
Proof. exact bodiless_empty. Qed.

(* C03.10  the oracle evaluated by the correspondence check on the implementation's observations is
   true of the model for every head, stream, split and schedule. *)
Theorem c03_oracle_sound :
  forall small (h : head_in) data rest buf stream split sched,
    buf ++ stream = data -> after_head data = Some rest -> values_fv (snd h) = true ->
    oracle_c03_msg small h rest
      (fst (fst (msg_step head_in fst snd (read_head_given (Some h)) small true true buf stream split sched)),
       fst (snd (fst (msg_step head_in fst snd (read_head_given (Some h)) small true true buf stream split sched))) ++
       snd (snd (fst (msg_step head_in fst snd (read_head_given (Some h)) small true true buf stream split sched))))
    = true.
Proof. exact oracle_c03_model. Qed.

(* C03.11  purity: two accepted requests with the same header list carry the same content type,
   expect flag and cookies, whatever their methods (and bodies, and places on the stream: the
   request is a function of method and fields only, C03.2) -- and its boolean form, the purity
   oracle the correspondence check evaluates across all observations of a run. *)
Theorem c03_derived_fields_depend_on_fields_only :
  forall m1 m2 hs r1 r2,
    values_fv hs = true -> request_of_head m1 hs = QOk r1 -> request_of_head m2 hs = QOk r2 ->
    rq_ctype r1 = rq_ctype r2 /\ rq_expect r1 = rq_expect r2 /\ rq_cookies r1 = rq_cookies r2.
Proof. exact derived_pure. Qed.

Theorem c03_oracle_pure_sound :
  forall m1 m2 hs r1 r2,
    values_fv hs = true -> request_of_head m1 hs = QOk r1 -> request_of_head m2 hs = QOk r2 ->
    oracle_pure hs hs r1 r2 = true.
Proof. exact oracle_pure_model. Qed.

(* C03.12  which function the cookie map is: looking a name up in the cookies handed to the handler
   gives the value of the last name=value pair with that name among the pairs of all Cookie fields. *)
Theorem c03_cookies_lookup :
  forall method hs r, values_fv hs = true -> request_of_head method hs = QOk r ->
    exists pairs, cookie_pairs hs = Some pairs /\
                  forall k, cookie_get k (rq_cookies r) = last_value k pairs None.
Proof. exact cookies_lookup. Qed.

(* Pre-repair code violates the property -- the witnesses of defects D3 and D4. *)
Theorem c03_prefix_d3_refuted :
  framing_spec (fst d3_head) (snd d3_head) = Reject /\
  (exists r, request_of_head_prefix (fst d3_head) (snd d3_head) = QOk r /\
             rq_clen r = None /\ rq_body r = BodyEmpty) /\
  request_of_head (fst d3_head) (snd d3_head) = QErr InvalidContentLength.
Proof. exact prefix_d3_refuted. Qed.

Theorem c03_prefix_d3_smuggling_refuted :
  (exists r1 r2,
     run_given 65536 false false [Some d3_head; Some smuggled_head] [] d3_stream [] [] =
     [(MReq d3_head r1 BrNone, smuggled); (MReq smuggled_head r2 BrNone, [])]) /\
  run_given 65536 true true [Some d3_head; Some smuggled_head] [] d3_stream [] [] =
  [(MErr d3_head InvalidContentLength, smuggled)].
Proof. exact prefix_d3_smuggling. Qed.

Theorem c03_prefix_d3_transfer_encoding_refuted :
  let hs := [(hn_te, s_chunked); (hn_te, s_chunked)] in
  framing_spec m_GET hs = Reject /\
  (exists r, request_of_head_prefix m_GET hs = QOk r /\ rq_chunked r = false /\ rq_body r = BodyEmpty) /\
  request_of_head m_GET hs = QErr UnsupportedTransferEncoding.
Proof. exact prefix_d3_te_refuted. Qed.

Theorem c03_prefix_d4_refuted :
  let hs := [(hn_cl, v_plus5)] in
  framing_spec s_POST hs = Reject /\
  (exists r, request_of_head_gen true false s_POST hs = QOk r /\ rq_clen r = Some 5) /\
  (exists r, request_of_head_prefix s_POST hs = QOk r /\ rq_clen r = Some 5 /\ rq_body r = PendingKnown 5) /\
  request_of_head s_POST hs = QErr InvalidContentLength.
Proof. exact prefix_d4_refuted. Qed.

(* non-vacuity: a two-message stream (POST with Content-Length: 5, a cookie and the body "hello",
   then a GET), head boundary in the middle of the body (split 3), byte-at-a-time reads *)
Definition ex_m2 : bytes := [71;69;84;32;47;98;32;72;84;84;80;47;49;46;49;13;10;13;10].
Definition ex_stream : bytes := [80;79;83;84;32;47;97;32;72;84;84;80;47;49;46;49;13;10;67;111;110;116;101;110;116;45;76;101;110;103;116;104;58;32;53;13;10;67;111;111;107;105;101;58;32;97;61;49;13;10;13;10;104;101;108;108;111] ++ ex_m2.
Definition ex_h1 : head_in := (s_POST, [(hn_cl, v_5); ([67;111;111;107;105;101], [97;61;49])]).
Definition ex_h2 : head_in := (m_GET, []).
Example c03_nonvacuous :
  run_given 65536 true true [Some ex_h1; Some ex_h2] [] ex_stream [3%nat; O] [[1%nat]; [1%nat]] =
  [(MReq ex_h1 (mkRequest s_POST [(hn_cl, v_5); ([67;111;111;107;105;101], [97;61;49])] [([97], [49])]
                          CtNone false false false (Some 5) (PendingKnown 5)) (BrVec hello), ex_m2);
   (MReq ex_h2 (mkRequest m_GET [] [] CtNone false false false None BodyEmpty) BrNone, [])]
  /\ single_valid_length (snd ex_h1) 5 /\ values_fv (snd ex_h1) = true
  /\ spec_cookies (snd ex_h1) <> None.
Proof. split; [vm_compute; reflexivity|]. split; [split; vm_compute; reflexivity|]. split; [reflexivity|vm_compute; discriminate]. Qed.

(* ---------------------------------------------------------------------------------------------
   C03.13  Request-smuggling freedom for the CONCRETE head reader of Model/Head.v (no abstract
   reader hypothesis; the only external hypothesis is url_canonical about the url crate, exactly as
   C02 states it).  Model/PipelineInst.v: [read_head_conc] = Head.head_spec on a shifted buffer;
   [conc_pipeline] = the fuelled loop Head.read_request_head (any FixedBuf state, any socket read
   schedule) followed by request_of_head and read_body_to_vec, message after message.
   Messages are (method, target, fields with their optional white space, body), rendered with the
   reference renderer of Spec/Rfc7230.v; [cframed cap small c]: token method, canonical origin-form
   target, valid fields, rendered head + CRLFCRLF at most [cap] bytes, well-formed cookies, no
   Transfer-Encoding, exactly one Content-Length = |body| <= small_body_len. *)
Theorem c03_concrete_reader_inverts_renderer :
  forall url_parse,
    (forall t, Rfc7230.canonical_target t = true -> url_parse t = Some (Rfc7230.path_of t, Rfc7230.query_of t)) ->
    forall cap m t fs rest,
      is_token m = true -> Rfc7230.canonical_target t = true -> forallb Rfc7230.field_ok fs = true ->
      (length (Rfc7230.render_head m t fs) + 4 <= cap)%nat ->
      read_head_conc url_parse cap (Rfc7230.render_head m t fs ++ Head.crlf2 ++ rest)
      = Some (Head.mk_head m t (Rfc7230.path_of t) (Rfc7230.query_of t) (map Rfc7230.field_pair fs), rest).
Proof. exact read_head_conc_render. Qed.

(* the abstract loop of Model/Request.v instantiated with the schedule-free concrete reader *)
Theorem c03_pipeline_roundtrip_concrete_head_spec :
  forall url_parse,
    (forall t, Rfc7230.canonical_target t = true -> url_parse t = Some (Rfc7230.path_of t, Rfc7230.query_of t)) ->
    forall cap small msgs tail buf stream splits scheds,
      Forall (cframed cap small) msgs -> buf ++ stream = flat_map crender msgs ++ tail ->
      fst (pipeline Head.head Head.h_method Head.h_headers (read_head_conc url_parse cap) small true true
                    (length msgs) buf stream splits scheds) = map cexpected msgs /\
      fst (snd (pipeline Head.head Head.h_method Head.h_headers (read_head_conc url_parse cap) small true true
                         (length msgs) buf stream splits scheds)) ++
      snd (snd (pipeline Head.head Head.h_method Head.h_headers (read_head_conc url_parse cap) small true true
                         (length msgs) buf stream splits scheds)) = tail.
Proof. exact pipeline_roundtrip_head_spec. Qed.

(* the fully concrete loop (fuelled head reads on the FixedBuf model under any schedule) computes the
   schedule-free specification: a function of the unread bytes only -- for every url_parse *)
Theorem c03_concrete_loop_is_schedule_free :
  forall url_parse cap small n fuel b s scheds,
    Head.fb_wf cap b -> (cap + 2 <= fuel)%nat ->
    (fst (conc_pipeline url_parse cap small n fuel b s scheds),
     fst (snd (conc_pipeline url_parse cap small n fuel b s scheds)) ++
     snd (snd (conc_pipeline url_parse cap small n fuel b s scheds)))
    = pipeline_spec Head.head Head.h_method Head.h_headers (read_head_conc url_parse cap) small true true n
                    (Head.fb_data b ++ in_bytes s).
Proof. exact conc_pipeline_abs. Qed.

(* reading message after message with the concrete reader yields exactly the messages and leaves
   exactly the tail *)
Theorem c03_pipeline_roundtrip_concrete :
  forall url_parse,
    (forall t, Rfc7230.canonical_target t = true -> url_parse t = Some (Rfc7230.path_of t, Rfc7230.query_of t)) ->
    forall cap small msgs tail fuel b s scheds,
      Forall (cframed cap small) msgs ->
      Head.fb_wf cap b -> (cap + 2 <= fuel)%nat ->
      Head.fb_data b ++ in_bytes s = flat_map crender msgs ++ tail ->
      fst (conc_pipeline url_parse cap small (length msgs) fuel b s scheds) = map cexpected msgs /\
      fst (snd (conc_pipeline url_parse cap small (length msgs) fuel b s scheds)) ++
      snd (snd (conc_pipeline url_parse cap small (length msgs) fuel b s scheds)) = tail.
Proof. exact conc_pipeline_roundtrip. Qed.

(* non-vacuity: POST /a with "Content-Length: 5" + "hello", then GET /b?x=1 with "X-A:<HTAB>v w<SP>" and
   "Content-Length:0", then a stray byte; a 52-byte FixedBuf that already holds the first 7 bytes at
   read index 3, the socket delivering 1, 2, 40, 1, 1, ... bytes per read, byte-at-a-time body reads *)
Definition cx_u (t : bytes) : option (bytes * option bytes) := Some (Rfc7230.path_of t, Rfc7230.query_of t).
Definition cx_cl : bytes := [67;111;110;116;101;110;116;45;76;101;110;103;116;104].
Definition cx_m1 : cmsg :=
  ([80;79;83;84], [47;97], [Rfc7230.mk_field cx_cl [32] [53] []], [104;101;108;108;111]).
Definition cx_m2 : cmsg :=
  ([71;69;84], [47;98;63;120;61;49],
   [Rfc7230.mk_field [88;45;65] [9] [118;32;119] [32]; Rfc7230.mk_field cx_cl [] [48] []], []).
Definition cx_stream : bytes := crender cx_m1 ++ crender cx_m2 ++ [90].
Example c03_concrete_nonvacuous :
  (forall t, Rfc7230.canonical_target t = true -> cx_u t = Some (Rfc7230.path_of t, Rfc7230.query_of t)) /\
  Forall (cframed 52 65536) [cx_m1; cx_m2] /\
  conc_pipeline cx_u 52 65536 2 54 (Head.mk_fbuf 3 (firstn 7 cx_stream))
                (mk_in (skipn 7 cx_stream) [1; 2; 40]%nat false) [[1%nat]; [1%nat]]
  = ([cexpected cx_m1; cexpected cx_m2], ([], [90])) /\
  cexpected cx_m1 =
  MReq (Head.mk_head [80;79;83;84] [47;97] [47;97] None [(cx_cl, [53])])
       (mkRequest [80;79;83;84] [(cx_cl, [53])] [] CtNone false false false (Some 5) (PendingKnown 5))
       (BrVec [104;101;108;108;111]).
Proof.
  split; [intros t _; reflexivity|]. split.
  - repeat constructor; try (vm_compute; reflexivity); try (vm_compute; discriminate);
      try (vm_compute; intros; discriminate).
  - split; vm_compute; reflexivity.
Qed.

(* C03.src  the arms of ContentType::parse, re-read from src/content_type.rs ON THIS RUN, are the
   entries of the model's media-type table, in order *)
Theorem c03_source_content_type_parse_table :
  map (fun e => (fst e, option_map ctype_tag (name_lookup (snd e) ct_names))) src_ct_parse_table
  = map (fun e => (fst e, Some (ctype_tag (snd e)))) ct_table.
Proof. exact ct_parse_table_tie. Qed.

(* C03.file  a body longer than small_body_len is received into a file when the handler asks for it:
   the file holds exactly the next Content-Length bytes of what is unread (buffer, then socket); when the
   peer ends the stream earlier the result is Truncated -- never a shorter body *)
Theorem c03_file_body_exact :
  forall len avail,
    match body_to_file_known len avail with
    | Some b => N.of_nat (length b) = len /\ exists rest, avail = b ++ rest
    | None => N.of_nat (length avail) < len
    end.
Proof. exact body_to_file_known_exact. Qed.

Theorem c03_translation_complete : src_problems_content_type = 0%nat.
Proof. exact content_type_translated. Qed.

(* C03.src2  The field names, the literals and the two decision tables of read_http_request as TRANSLATED from
   src/request.rs ON THIS RUN (match arms in source order; first matching arm wins): the coding-list table is the
   model's te_flags, the (chunked, content_length, method) table is the model's body_table for every input, and
   the consumed / looked-up names are the model's.  framing_agrees above is therefore a theorem about the tables
   the code has now. *)
Theorem c03_source_names :
  src_req_content_type = n_content_type /\ src_req_expect = n_expect /\ src_req_expect_value = s_100_continue /\
  src_req_transfer_encoding = n_transfer_encoding /\ src_req_cookie = n_cookie /\
  src_req_content_length = n_content_length.
Proof. exact request_names_tie. Qed.
Theorem c03_source_coding_table :
  forall value, te_flags value =
    let items := split_trim_nonempty 44 (match value with Some s => s | None => [] end) in
    te_eval src_te_arms (nth_error items 0) (nth_error items 1) (nth_error items 2).
Proof. exact te_table_tie. Qed.
Theorem c03_source_body_table :
  forall ch cl m ex gz, body_eval src_body_arms ch cl m ex gz = Some (body_table ch cl m ex gz).
Proof. exact body_table_tie. Qed.
Theorem c03_request_translation_complete : src_problems_request = 0%nat.
Proof. exact request_translated. Qed.

(* C03.src-head  Head::try_read (src/head.rs) after read_head_bytes, as TRANSLATED statement by statement ON THIS RUN
   (props/srcparams.py -> Generated/SourceParams.v: src_try_read -- the split at LF with trim_trailing_cr, the first
   line as request line or MissingRequestLine, parse_request_line, the loop that parses and pushes EVERY remaining
   line, the value returned), interpreted by Tie/HeadTie.v, is the head parser the theorems above are about, for every
   head and every URL parser; the field-value byte test of parse_header_line, the first character demanded of the
   target and the protocol text are the model's *)
Theorem c03_try_read_is_the_source :
  forall url_parse hb, Tie.HeadTie.eval_try_read url_parse hb = Model.Head.parse_head url_parse hb.
Proof. exact Tie.HeadTie.try_read_tie. Qed.
Theorem c03_line_parser_literals_are_the_source :
  (forall b, Base.Bytes.is_fv_byte b =
             (N.eqb b Generated.SourceParams.src_fv_tab || Base.Bytes.in_range Generated.SourceParams.src_fv_lo Generated.SourceParams.src_fv_hi b)%bool) /\
  Generated.SourceParams.src_target_first = [47%N] /\ Generated.SourceParams.src_protocol = Model.Head.http11.
Proof. exact (conj Tie.HeadTie.fv_byte_tie (conj Tie.HeadTie.target_first_tie Tie.HeadTie.protocol_tie)). Qed.
Theorem c03_try_read_translation_complete : Generated.SourceParams.src_problems_try_read = 0%nat.
Proof. exact Tie.HeadTie.try_read_translated. Qed.

Print Assumptions c03_framing_agrees.
Print Assumptions c03_request_is_function_of_head.
Print Assumptions c03_framing_never_ignored.
Print Assumptions c03_repeated_content_length_is_invalid.
Print Assumptions c03_repeated_transfer_encoding_is_invalid.
Print Assumptions c03_single_content_length_invalid_iff.
Print Assumptions c03_single_content_length_valid_iff.
Print Assumptions c03_boundary_values_content_length.
Print Assumptions c03_boundary_values_transfer_encoding.
Print Assumptions c03_derived_fields_pure.
Print Assumptions c03_handler_sees_sent_minus_consumed.
Print Assumptions c03_message_step_schedule_independent.
Print Assumptions c03_body_exact.
Print Assumptions c03_pipeline_roundtrip.
Print Assumptions c03_coded_flags_reported.
Print Assumptions c03_coded_bodies_refused.
Print Assumptions c03_coded_message_refused.
Print Assumptions c03_unknown_length_runs_to_eof.
Print Assumptions c03_bodiless_methods_empty.
Print Assumptions c03_oracle_sound.
Print Assumptions c03_derived_fields_depend_on_fields_only.
Print Assumptions c03_oracle_pure_sound.
Print Assumptions c03_cookies_lookup.
Print Assumptions c03_prefix_d3_refuted.
Print Assumptions c03_prefix_d3_smuggling_refuted.
Print Assumptions c03_prefix_d3_transfer_encoding_refuted.
Print Assumptions c03_prefix_d4_refuted.
Print Assumptions c03_concrete_reader_inverts_renderer.
Print Assumptions c03_pipeline_roundtrip_concrete_head_spec.
Print Assumptions c03_concrete_loop_is_schedule_free.
Print Assumptions c03_pipeline_roundtrip_concrete.
Print Assumptions c03_source_content_type_parse_table.
Print Assumptions c03_file_body_exact.
Print Assumptions c03_translation_complete.
Print Assumptions c03_source_names.
Print Assumptions c03_source_coding_table.
Print Assumptions c03_source_body_table.
Print Assumptions c03_request_translation_complete.
Print Assumptions c03_try_read_is_the_source.
Print Assumptions c03_line_parser_literals_are_the_source.
Print Assumptions c03_try_read_translation_complete.
