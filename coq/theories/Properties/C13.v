(* Properties/C13.v -- graceful shutdown.  Only property-level statements.

   Level: partial.  "Within a bounded time" is proved as "within a bounded number of steps of the
   accept task, which is never blocked once the permit is revoked"; that the executor runs the
   task, timer behaviour (one 500 ms error sleep may be in progress) and TCP are runtime facts
   observed by the correspondence scenarios. *)
From Coq Require Import List Arith Bool.
Import ListNotations.
From SV Require Import Model.TokenSet Model.Accept Proofs.AcceptP Proofs.AcceptP2.
From SV Require Import Base.SrcAst Generated.SourceParams Tie.AcceptTie.

(* C13.1  stopped_after_revoke: never before revocation; at that point the listener is closed and
   the accept loop has returned (both trees). *)
Theorem c13_stopped_after_revoke :
  forall fixed n s, reachable fixed n s -> stopped s = true ->
    revoked s = true /\ listening s = false /\ loop s = Done.
Proof. exact stopped_after_revoke_l. Qed.

(* C13.2  listener_closed_before_stopped: the step that delivers the stopped signal is a step of
   the accept task taken when the listening socket is already released. *)
Theorem c13_listener_closed_before_stopped :
  forall fixed n s a s', reachable fixed n s -> step fixed n s a = Some s' ->
    stopped s = false -> stopped s' = true ->
    a = Loop /\ loop s = Done /\ listening s = false /\ revoked s = true.
Proof. exact listener_closed_before_stopped_l. Qed.

(* C13.3  stop_is_bounded (current tree): rank <= 4; once revoked and not yet stopped the accept
   task is enabled and its step strictly lowers the rank ... *)
Theorem c13_stop_is_bounded_loop_enabled :
  forall n s, revoked s = true -> rank s <> 0 ->
    exists s', step true n s Loop = Some s' /\ rank s' < rank s /\ revoked s' = true.
Proof. exact loop_enabled_fixed. Qed.

(* ... no other action (clients, connection tasks, further revocations) raises it ... *)
Theorem c13_stop_is_bounded_others_keep_rank :
  forall fixed n s a s', a <> Loop -> step fixed n s a = Some s' ->
    rank s' <= rank s /\ (revoked s = true -> revoked s' = true).
Proof. exact others_keep_rank. Qed.

Theorem c13_rank_bound : forall s, rank s <= 4 /\ (rank s = 0 <-> (loop s = Done /\ stopped s = true)).
Proof. intros s. split; [apply rank_le_4|apply rank_zero_iff]. Qed.

(* ... hence under ANY schedule (any interleaving with any other actions) that lets the accept
   task take [rank s] (<= 4) steps after the revocation, the stopped signal has been delivered,
   whatever the connections do -- in particular with all slots held by idle connections. *)
Theorem c13_stop_is_bounded :
  forall n tr s s', revoked s = true -> run true n s tr = Some s' -> rank s <= count_loop tr ->
    stopped s' = true /\ loop s' = Done.
Proof. exact stop_within_rank_steps. Qed.

(* C13.4  no_accept_after_stop: once the loop has returned, accept() is never called again, and
   after the stopped signal no run admits a further connection or re-opens the listener. *)
Theorem c13_no_accept_after_done :
  forall fixed n s, loop s = Done -> step fixed n s IncomingOk = None /\ step fixed n s IncomingErr = None.
Proof. exact no_accept_after_done_l. Qed.

Theorem c13_no_accept_after_stop :
  forall fixed n tr s s', reachable fixed n s -> stopped s = true -> run fixed n s tr = Some s' ->
    next_id s' = next_id s /\ stopped s' = true /\ listening s' = false.
Proof. exact no_accept_after_stop_l. Qed.

(* C13.5  inflight_completes: a running handler runs to its answer and the answer is written
   completely, whether or not the permit was revoked meanwhile; the permit is only looked at
   afterwards (phase CHead) ... *)
Theorem c13_inflight_completes :
  forall fixed n s k c, find_conn k (conns s) = Some c -> c_phase c = CHandler ->
    exists s1 s2 c2,
      step fixed n s (ConnStep k) = Some s1 /\ step fixed n s1 (ConnStep k) = Some s2 /\
      find_conn k (conns s2) = Some c2 /\ c_phase c2 = CHead /\ c_done c2 = S (c_done c) /\
      c_reqs c2 = c_reqs c /\ revoked s2 = revoked s.
Proof. exact inflight_completes_l. Qed.

(* ... and nothing the server does (accept task, revocation, other connections) disturbs it. *)
Theorem c13_others_leave_conn_alone :
  forall fixed n s a s' k c, reachable fixed n s -> find_conn k (conns s) = Some c ->
    step fixed n s a = Some s' -> a <> ConnEnd k -> a <> ConnStep k -> a <> ConnReq k ->
    find_conn k (conns s') = Some c.
Proof. exact others_leave_conn_alone. Qed.

(* C13.6  at_most_one_more_request: in every reachable state every open connection has begun at
   most one request after the revocation; an idle one has begun none (it may serve one); one
   accepted after the revocation has served nothing and sits at its loop head, where its next
   step closes it. *)
Theorem c13_at_most_one_more_request :
  forall fixed n s c, reachable fixed n s -> In c (conns s) ->
    c_after c <= 1 /\ (revoked s = true -> c_phase c = CIdle -> c_after c = 0) /\
    (c_born_revoked c = true -> c_reqs c = 0 /\ c_phase c = CHead).
Proof. exact at_most_one_more_request_l. Qed.

Theorem c13_closes_at_head_when_revoked :
  forall fixed n s k c, find_conn k (conns s) = Some c -> c_phase c = CHead -> revoked s = true ->
    step fixed n s (ConnStep k) = Some (end_conn n s k).
Proof. exact closes_at_head_when_revoked. Qed.

(* C13.7  the scenario oracle evaluated on the implementation's observations (no stopped signal
   and listener open before the revocation; signal delivered and listener closed once the tasks
   have settled after it; nobody admitted after the signal) holds of the model for ALL scenarios. *)
Theorem c13_scenario_oracle_sound :
  forall full n cs, oracle_c13_acc cs (scenario true full n cs) = true.
Proof. exact oracle_c13_acc_sound_l. Qed.

(* C13.7b  the connection-side oracle (the totals of completed responses and of connections closed by
   the server never decrease; after the revocation every completed response is followed, before
   the tasks settle, by the server closing that connection -- so no connection serves a second
   further request) holds of the model for ALL scenarios, every n, both modes.  (Proved with a
   measure showing that the settle loop, with the fuel it is given, leaves no connection at its loop
   head, connection ids being unique.) *)
Theorem c13_conn_oracle_sound :
  forall full n cs, oracle_c13_conn cs (totals_cmds true full n (sim_init n) cs) = true.
Proof. exact oracle_c13_conn_sound_l. Qed.

(* C13.8  the tree before the repair of D10 violates stop_is_bounded: after max_conns clients
   have connected and gone idle and the permit is revoked, the accept task is parked in
   async_wait_token; it cannot move, and stays so under every continuation in which no client
   leaves or speaks. *)
Theorem c13_stop_bounded_refuted :
  forall n, In n [1; 2; 3; 4] ->
    exists s, run false n (init n) (stuck_trace n) = Some s /\ stuck_state s /\ length (conns s) = n /\
              step false n s Loop = None /\
              (forall tr s', forallb (fun a => negb (is_client_action a)) tr = true ->
                             run false n s tr = Some s' -> stopped s' = false /\ step false n s' Loop = None).
Proof. exact stop_bounded_refuted_l. Qed.

(* non-vacuity: the same history on the current tree stops within two accept-task steps *)
Example c13_nonvacuous :
  forall n, In n [1; 2; 3; 4] ->
    exists s, run true n (init n) (stuck_trace n ++ [Loop; Loop]) = Some s /\ stopped s = true /\ listening s = false.
Proof. exact stuck_trace_stops_when_fixed. Qed.

(* C13.src  accept_loop (src/accept.rs) as TRANSLATED statement by statement ON THIS RUN (props/srcparams.py ->
   Generated/SourceParams.v: src_accept_loop -- the token-or-permit wait, `let Some(token) = .. else { return }`, the
   revocation check, the accept-or-permit match with the statements of its four arms), under a small-step semantics
   whose pause points are the await points and the window before the revocation check (Tie/AcceptTie.v), makes exactly
   the accept-task transitions of the system the theorems above are about -- for every pool size and state; the step
   that sends the stopped signal is the statement that FOLLOWS accept_loop in the task HttpServerBuilder::spawn starts
   (src/lib.rs, translated too: src_spawn_task) *)
Theorem c13_accept_loop_is_the_source :
  forall n s ev, eval_accept n src_accept_loop s ev = step true n s (action_of ev).
Proof. exact accept_loop_tie. Qed.
Theorem c13_accept_translation_complete : src_problems_accept = 0%nat /\ src_problems_spawn = 0%nat.
Proof. exact accept_translated. Qed.

Print Assumptions c13_stopped_after_revoke.
Print Assumptions c13_listener_closed_before_stopped.
Print Assumptions c13_stop_is_bounded_loop_enabled.
Print Assumptions c13_stop_is_bounded_others_keep_rank.
Print Assumptions c13_rank_bound.
Print Assumptions c13_stop_is_bounded.
Print Assumptions c13_no_accept_after_done.
Print Assumptions c13_no_accept_after_stop.
Print Assumptions c13_inflight_completes.
Print Assumptions c13_others_leave_conn_alone.
Print Assumptions c13_at_most_one_more_request.
Print Assumptions c13_closes_at_head_when_revoked.
Print Assumptions c13_scenario_oracle_sound.
Print Assumptions c13_conn_oracle_sound.
Print Assumptions c13_stop_bounded_refuted.
Print Assumptions c13_accept_loop_is_the_source.
Print Assumptions c13_accept_translation_complete.
