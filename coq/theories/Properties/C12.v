(* Properties/C12.v -- the connection limit is never exceeded and slots are conserved.
   Only property-level statements; each is closed by [exact <lemma>].

   Level: partial.  The theorems are about the transition system of Model/Accept.v (token pool +
   accept loop + connection tasks) over ALL action lists.  That every way a connection task ends
   in the real server really drops its Token (Rust ownership, executor behaviour), and executor
   fairness, are observed by the correspondence scenarios, not proved. *)
From Coq Require Import List Arith Bool.
Import ListNotations.
From SV Require Import Base.SrcAst Model.TokenSet Model.Accept Proofs.AcceptP Proofs.AcceptP2 Tie.TokenSetTie Tie.AcceptTie Generated.SourceParams.

(* ---- the slot pool driven through its API (src/token_set.rs) ---- *)

(* C12.1  after any sequence of take / try-take / drop calls: units in the channel + live Tokens
   = size, no unit was ever lost, and never more than [n] Tokens are alive. *)
Theorem c12_pool_conservation :
  forall n ops, let t := fst (prun (ts_new n) ops) in
    ts_avail t + ts_live t = n /\ ts_lost t = 0 /\ ts_live t <= n.
Proof. exact pool_conservation_l. Qed.

(* C12.2  Token::drop is `try_send`, which fails when the channel is full; it never is while a
   Token is alive, so the unit always goes back. *)
Theorem c12_pool_drop_never_lost :
  forall n ops, let t := fst (prun (ts_new n) ops) in
    0 < ts_live t -> ts_avail t < ts_size t /\ ts_lost (ts_drop t) = 0 /\ ts_avail (ts_drop t) = S (ts_avail t).
Proof. exact pool_drop_never_lost_l. Qed.

(* C12.3  a take blocks / times out exactly when all n Tokens are alive. *)
Theorem c12_pool_take_iff_room :
  forall n ops, let t := fst (prun (ts_new n) ops) in (ts_recv t = None <-> ts_live t = n).
Proof. exact pool_take_iff_room_l. Qed.

(* C12.4  the oracle evaluated on the implementation's observations holds of the model, for every
   size and every API sequence. *)
Theorem c12_pool_oracle_sound :
  forall n ops, oracle_c12_pool n ops (pool_model n ops) = true.
Proof. exact oracle_c12_pool_sound_l. Qed.

(* ---- accept loop + connection tasks (src/accept.rs, src/lib.rs, src/http_conn.rs) ---- *)

(* C12.5  token_conservation: for ALL action lists (all interleavings of accept-task steps,
   incoming connections, accept failures, connection ends of any kind, revocation, requests),
   for the current loop and the one before D10:
   units in the pool + token held by the loop + live connections = n. *)
Theorem c12_token_conservation :
  forall fixed n tr s, run fixed n (init n) tr = Some s ->
    avail s + held s + length (conns s) = n.
Proof. exact token_conservation_l. Qed.

(* C12.6  never_over_admit *)
Theorem c12_never_over_admit :
  forall fixed n tr s, run fixed n (init n) tr = Some s -> length (conns s) <= n.
Proof. exact never_over_admit_l. Qed.

(* C12.7  drop_never_lost: in every reachable state no unit has been lost, and whenever somebody
   holds a Token the channel has room for it (so the try_send in Token::drop succeeds). *)
Theorem c12_drop_never_lost :
  forall fixed n tr s, run fixed n (init n) tr = Some s ->
    lost s = 0 /\
    (0 < held s + length (conns s) -> avail s < n /\ put n (avail s) (lost s) = (S (avail s), 0)).
Proof. exact drop_never_lost_l. Qed.

(* C12.8  failure_consumes_no_slot: accept() failing keeps the token in the loop's hands during
   the 500 ms sleep and returns it at the end of the iteration; no connection is touched. *)
Theorem c12_failure_consumes_no_slot :
  forall fixed n s s1, reachable fixed n s -> step fixed n s IncomingErr = Some s1 ->
    loop s = Accepting /\ loop s1 = SleepAfterError /\
    exists s2, step fixed n s1 Loop = Some s2 /\ loop s2 = WaitTokenOrPermit /\
               avail s2 = S (avail s) /\ conns s2 = conns s /\ held s2 = 0 /\
               avail s2 + length (conns s2) = n.
Proof. exact failure_consumes_no_slot_l. Qed.

(* C12.9  full_capacity_recoverable: from every reachable state, once the live connections have
   ended (in any of the ways ConnEnd stands for) every slot is in the pool or in the loop's hands *)
Theorem c12_full_capacity_recoverable :
  forall fixed n s, reachable fixed n s ->
    exists s', run fixed n s (end_all_trace (conns s)) = Some s' /\ conns s' = [] /\ avail s' + held s' = n.
Proof. exact full_capacity_recoverable_l. Qed.

(* C12.10 ... and while the permit is not revoked the server can then service n connections
   simultaneously again. *)
Theorem c12_can_refill :
  forall fixed n s, reachable fixed n s -> revoked s = false ->
    exists tr s', run fixed n s (end_all_trace (conns s) ++ tr) = Some s' /\ length (conns s') = n.
Proof. exact can_refill_l. Qed.

(* C12.11  every observation sequence printed by the model for a scenario is read off a trace the
   transition system accepts. *)
Theorem c12_scenario_is_trace :
  forall fixed full n cs,
    let m := fst (run_cmds fixed full n (sim_init n) cs) in
    run fixed n (init n) (trace m) = Some (sst m) /\
    Forall (fun o => exists m', run fixed n (init n) (trace m') = Some (sst m') /\ o = observe m')
           (snd (run_cmds fixed full n (sim_init n) cs)).
Proof. exact scenario_is_trace_l. Qed.

(* C12.12  the scenario oracle (evaluated on the implementation's gauges) holds of the model:
   safety half for ALL scenarios ... *)
Theorem c12_scenario_oracle_safety :
  forall fixed full n cs,
    forallb (fun x => (o_gauge x <=? n) && (o_handlers x <=? n)) (fst (scenario fixed full n cs)) = true /\
    o_gauge (snd (scenario fixed full n cs)) <= n.
Proof. exact oracle_c12_acc_safety. Qed.

(* ... and the complete oracle -- including "with no revocation in the history, after all live
   connections have ended and n + 1 fresh clients knock, exactly n are served at once" -- for ALL
   scenarios, every pool size n, direct-drive and full-server mode.  (The settle loop of the
   interpreter runs the accept task until it is blocked; blocked with a client still waiting means
   no unit is left in the pool and none in the loop's hands, so by conservation n connections live.) *)
Theorem c12_scenario_oracle_sound :
  forall full n cs, oracle_c12_acc n cs (scenario true full n cs) = true.
Proof. exact oracle_c12_acc_sound_l. Qed.

(* non-vacuity: a run that fills both slots, fails an accept, ends a connection and refills *)
Example c12_nonvacuous :
  exists s, run true 2 (init 2) [Loop; Loop; IncomingOk; Loop; Loop; IncomingErr; Loop; Loop; Loop; IncomingOk;
                                 ConnEnd 0; Loop; Loop; IncomingOk] = Some s /\
            length (conns s) = 2 /\ avail s = 0 /\ next_id s = 3.
Proof. vm_compute. eexists. repeat split. Qed.

Example c12_pool_nonvacuous :
  pool_model 2 [PTake; PTry; PTake; PDrop 0; PTry] = ([OGot; OGot; OTimeout; ODropped; OGot], 0, 2).
Proof. vm_compute. reflexivity. Qed.

(* C12.src  src/token_set.rs as TRANSLATED statement by statement ON THIS RUN (props/srcparams.py ->
   Generated/SourceParams.v), interpreted by Tie/TokenSetTie.v, is the token-set model the theorems above are about:
   new(size) = a channel of capacity size holding size units; Token::drop = try_send, a failure ignored; each of
   async_wait_token / wait_token / wait_token_timeout receives one unit and hands out a clone of the sender *)
Theorem c12_token_set_new_is_the_source : forall n, eval_ts_new src_ts_new n None = Some (ts_new n).
Proof. exact token_set_new_tie. Qed.
Theorem c12_token_drop_is_the_source : forall t, eval_ts_drop src_ts_drop t = Some (ts_drop t).
Proof. exact token_drop_tie. Qed.
Theorem c12_token_take_is_the_source :
  length src_ts_takes = 3 /\ Forall (fun st => forall t, eval_ts_take st t = ts_recv t) src_ts_takes.
Proof. exact token_take_tie. Qed.
Theorem c12_translation_complete : src_problems_token_set = 0%nat.
Proof. exact token_set_translated. Qed.

(* C12.src  accept_loop (src/accept.rs) as TRANSLATED statement by statement ON THIS RUN (props/srcparams.py ->
   Generated/SourceParams.v: src_accept_loop -- the token-or-permit wait, `let Some(token) = .. else { return }`, the
   revocation check, the accept-or-permit match with the statements of its four arms), under a small-step semantics
   whose pause points are the await points and the window before the revocation check (Tie/AcceptTie.v), makes exactly
   the accept-task transitions of the system the theorems above are about -- for every pool size and state; the step
   that sends the stopped signal is the statement that FOLLOWS accept_loop in the task HttpServerBuilder::spawn starts
   (src/lib.rs, translated too: src_spawn_task) *)
Theorem c12_accept_loop_is_the_source :
  forall n s ev, eval_accept n src_accept_loop s ev = step true n s (action_of ev).
Proof. exact accept_loop_tie. Qed.
Theorem c12_accept_translation_complete : src_problems_accept = 0%nat /\ src_problems_spawn = 0%nat.
Proof. exact accept_translated. Qed.

Print Assumptions c12_pool_conservation.
Print Assumptions c12_pool_drop_never_lost.
Print Assumptions c12_pool_take_iff_room.
Print Assumptions c12_pool_oracle_sound.
Print Assumptions c12_token_conservation.
Print Assumptions c12_never_over_admit.
Print Assumptions c12_drop_never_lost.
Print Assumptions c12_failure_consumes_no_slot.
Print Assumptions c12_full_capacity_recoverable.
Print Assumptions c12_can_refill.
Print Assumptions c12_scenario_is_trace.
Print Assumptions c12_scenario_oracle_safety.
Print Assumptions c12_scenario_oracle_sound.
Print Assumptions c12_token_set_new_is_the_source.
Print Assumptions c12_token_drop_is_the_source.
Print Assumptions c12_token_take_is_the_source.
Print Assumptions c12_translation_complete.
Print Assumptions c12_accept_loop_is_the_source.
Print Assumptions c12_accept_translation_complete.
