(* Properties/C19.v -- File log writer: no loss or reordering across rotation; disk use bounded.
   Only property-level statements; each is closed by [exact <lemma>].

   Vocabulary (Model/LogFile.v, Proofs/LogFileW.v):
     run_history v m prefix fs0 rs   the directory after the runs [rs] of the writer (each run: start,
                                     events, sender dropped) over the initial directory [fs0];
                                     [v] = post b18: D14 repaired; b18 = false is the heap order of /repo
                                     before the repair of D18 (post_fix), b18 = true after it (fix18);
                                     every positive theorem holds for both.  [m] = the build profile
     hist_ok prefix fs0 MW WA rs     the hypotheses: live names of [fs0] are distinct and its log
                                     files total less than 2^64 bytes; in every run both byte limits
                                     and every line size are below 2^63, max_write_bytes <= MW,
                                     max_write_age <= WA.   NOTHING is assumed about event sizes,
                                     time stamps, tie choices of the heap, or the initial files.
     Kills prefix a b                b is a with some log files marked deleted, nothing else changed
     a deleted file stays in the list with f_alive = false; the directory listing is filter f_alive. *)
From Coq Require Import Sorting.Sorted.
From SV Require Import Base.Bytes Base.SrcAst Spec.Civil Model.Time Model.LogFile Proofs.LogFileP Proofs.LogFileW Proofs.LogFileS Proofs.LogFileO Proofs.LogFileR
  Tie.FmtEval Tie.WriterTie Tie.FileSetTie Generated.SourceParams.

(* C19.1  len_is_sum -- PrefixFileSet.len equals the sum of the lengths in the heap after every
   sequence of API calls (debug build: whenever the call returns), ... *)
Theorem c19_len_is_sum :
  forall prefix b18 ops s, set_ok (snd s) ->
    res_ok (fun s' => set_ok (snd s')) (run_set (post b18) Debug prefix s ops).
Proof. exact len_is_sum_debug. Qed.

(* ... and inside the writer, at every event boundary of every history, in both build profiles:
   len = total size of the closed live log files, LogFile.len = size of the current file. *)
Theorem c19_writer_len_is_sum :
  forall prefix b18 m fs0 MW WA rs r, hist_ok prefix fs0 MW WA (rs ++ [r]) ->
  exists fsA rest cf w,
    run_history (post b18) m prefix fs0 rs = ROk fsA /\ run_one (post b18) m prefix fsA r = ROk w /\
    w_fs w = rest ++ [cf] /\ f_name cf = w_cur w /\ f_alive cf = true /\
    slen (w_set w) = sumN (map f_size (logs prefix rest)) /\ w_len w = f_size cf.
Proof. exact writer_len_is_sum. Qed.

(* C19.2  writer_never_panics -- no arithmetic overflow, no unwrap on None/Err, no unreachable!(),
   for every history, in debug and release builds. *)
Theorem c19_writer_never_panics :
  forall prefix b18 m fs0 MW WA rs, hist_ok prefix fs0 MW WA rs ->
  exists fs', run_history (post b18) m prefix fs0 rs = ROk fs'.
Proof. exact writer_never_panics. Qed.

(* C19.3  every_event_once_in_order -- the files the writer ever created, in creation order
   (deleted ones included), hold exactly the accepted lines (start lines and events of all runs):
   nothing lost, duplicated, split or reordered, no empty file; what is on disk is the
   sub-sequence of live files; the original entries are unchanged except for deleted log files. *)
Theorem c19_every_event_once_in_order :
  forall prefix b18 m fs0 MW WA rs, hist_ok prefix fs0 MW WA rs ->
  exists fs' old created,
    run_history (post b18) m prefix fs0 rs = ROk fs' /\ fs' = old ++ created /\ Kills prefix fs0 old /\
    concat (map f_lines created) = history_lines rs /\
    Forall (fun f => f_lines f <> []) created.
Proof. exact every_event_once_in_order. Qed.

(* the current file is live, is the last one, and ends with the last accepted line *)
Theorem c19_current_file_has_last_event :
  forall prefix b18 m fs0 MW WA rs r, hist_ok prefix fs0 MW WA (rs ++ [r]) ->
  exists fsA rest cf w p,
    run_history (post b18) m prefix fs0 rs = ROk fsA /\ run_one (post b18) m prefix fsA r = ROk w /\
    w_fs w = rest ++ [cf] /\ f_alive cf = true /\
    history_lines (rs ++ [r]) = p ++ f_lines cf /\ f_lines cf <> [].
Proof. exact current_file_has_last_event. Qed.

(* C19.4  file_bounds -- every file the writer created holds at most max_write_bytes, or exactly
   one (oversized) line; every line in it was written at most max_write_age after the file's
   creation. *)
Theorem c19_file_bounds :
  forall prefix b18 m fs0 MW WA rs, hist_ok prefix fs0 MW WA rs ->
  exists fs' old created,
    run_history (post b18) m prefix fs0 rs = ROk fs' /\ fs' = old ++ created /\ length old = length fs0 /\
    Forall (fun f =>
      (f_size f <= MW \/ length (f_lines f) = 1%nat) /\
      Forall (fun l => l_time l - f_created f <= WA) (f_lines f)) created.
Proof. exact file_bounds. Qed.

(* C19.5  total_bound -- at every event boundary of every history the live log files (those of
   earlier runs and foreign files with the prefix included) total at most
   max(max_keep, max_write, last event); right after a start at most max_keep + start line. *)
Theorem c19_total_bound :
  forall prefix b18 m fs0 MW WA rs r, hist_ok prefix fs0 MW WA (rs ++ [r]) ->
  exists fsA w,
    run_history (post b18) m prefix fs0 rs = ROk fsA /\ run_one (post b18) m prefix fsA r = ROk w /\
    (r_events r = [] ->
       total_size post_fix prefix (w_fs w) <= max_keep_bytes (r_cfg r) + l_size (r_start r)) /\
    (forall ev, last (r_events r) ev = ev -> r_events r <> [] ->
       total_size post_fix prefix (w_fs w)
         <= N.max (N.max (max_keep_bytes (r_cfg r)) (max_write_bytes (r_cfg r))) (l_size ev)).
Proof. exact total_bound. Qed.

(* the form of the property text, for the configurations of its quantifier (max_keep >= max_write) *)
Theorem c19_total_bound_keep_plus_one_event :
  forall prefix b18 m fs0 MW WA rs r, hist_ok prefix fs0 MW WA (rs ++ [r]) ->
  max_write_bytes (r_cfg r) <= max_keep_bytes (r_cfg r) ->
  exists fsA w,
    run_history (post b18) m prefix fs0 rs = ROk fsA /\ run_one (post b18) m prefix fsA r = ROk w /\
    total_size post_fix prefix (w_fs w) <= max_keep_bytes (r_cfg r) + l_size (last (r_events r) (r_start r)).
Proof. exact total_bound_quantifier. Qed.

(* without max_keep >= max_write the bound of the property text is false (the current file alone
   may exceed max_keep by more than one event) *)
Theorem c19_total_bound_needs_keep_ge_write_refuted :
  final_total (run_history post_fix Debug pfx [] h_budget) = Some 120105 /\ 65536 + 40000 < 120105.
Proof. exact keep_below_write_refuted. Qed.

(* C19.6  age_bound -- after each event no closed file in the set is older than the keep-age
   (age counted from the time the set knows: the rotation time, or the mtime found at start-up),
   and the set holds exactly the closed live log files. *)
Theorem c19_age_bound :
  forall prefix b18 m fs0 MW WA rs r d, hist_ok prefix fs0 MW WA (rs ++ [r]) ->
  max_keep_age (r_cfg r) = Some d -> r_events r <> [] ->
  exists fsA rest cf w,
    run_history (post b18) m prefix fs0 rs = ROk fsA /\ run_one (post b18) m prefix fsA r = ROk w /\
    w_fs w = rest ++ [cf] /\
    map p_name (entries (w_set w)) = map f_name (logs prefix rest) /\
    Forall (fun e => l_time (last (r_events r) (r_start r)) - d <= p_mtime e) (entries (w_set w)).
Proof. exact age_bound. Qed.

(* C19.7  entries that are not regular files with the prefix are never touched *)
Theorem c19_other_files_untouched :
  forall prefix b18 m fs0 MW WA rs, hist_ok prefix fs0 MW WA rs ->
  exists fs' old created,
    run_history (post b18) m prefix fs0 rs = ROk fs' /\ fs' = old ++ created /\
    Forall2 (fun f f' => is_log_file post_fix prefix f = false -> f' = f) fs0 old.
Proof. exact other_files_untouched. Qed.

(* C19.8  the code before the repairs (defect D14) *)
Theorem c19_push_not_counted_refuted :
  final_total (run_history pre_fix Release pfx [] h_uncounted) = Some 300105 /\
  final_total (run_history pre_fix Debug pfx [] h_uncounted) = Some 300105 /\
  final_total (run_history post_fix Release pfx [] h_uncounted) = Some 60000.
Proof. exact push_not_counted_refuted. Qed.

Theorem c19_prefix_match_refuted :
  final_total (run_history pre_fix Release pfx [old_file] h_one) = Some 1000305 /\
  final_total (run_history post_fix Release pfx [old_file] h_one) = Some 305.
Proof. exact prefix_match_refuted. Qed.

Theorem c19_age_delete_underflow_refuted :
  is_panic (run_history pre_fix Debug pfx [] h_age) = true /\
  is_panic (run_history pre_fix Release pfx [] h_age) = true /\
  is_panic (run_history post_fix Debug pfx [] h_age) = false.
Proof. exact age_delete_underflow_refuted. Qed.

Theorem c19_budget_underflow_refuted :
  is_panic (run_history pre_fix Debug pfx [] h_budget) = true /\
  is_panic (run_history post_fix Debug pfx [] h_budget) = false.
Proof. exact budget_underflow_refuted. Qed.

(* C19.8b  survivors_are_suffix -- deletion is oldest-first.  Proved for ONE run over ANY
   directory whose log files are strictly sorted in the heap order of the variant
     b18 = false (mtime only, /repo before the repair of D18): strictly increasing mtimes,
     b18 = true  (mtime, then path): increasing (mtime, path) -- EQUAL MTIMES ALLOWED,
   and not younger than the start, under a strictly increasing clock, for every tie schedule: the
   closed files the set still holds (= the closed live log files on disk, same order) are a suffix
   of (log files found at start-up) ++ (files closed by this run).
   FULL STATEMENT (not proved, hence the name): the same for whole histories, i.e.
     forall rs, hist_ok .. rs -> strictly increasing clock over all runs -> fs0 sorted ->
       map f_alive (log-candidate files of the final directory) = repeat false j ++ repeat true k.
   GAP: that the directory is again sorted in the heap order when the next run starts is not
   derived from the previous run.  After D18 this needs that the names of the files of one second
   increase with creation, which fails when a "-n" suffix is reused after a deletion or n reaches
   10 ("-10" < "-2" as text) while the mtimes of those files are equal; before D18 it is simply
   false with equal mtimes (c19_equal_mtimes_hole_refuted). *)
Theorem c19_survivors_are_suffix_partial :
  forall prefix b18 m MW WA fsA r,
  dir_ok prefix fsA -> wf_run MW WA r ->
  StronglySorted (fun f g => heap_leb (post b18) (entry_of g) (entry_of f) = false) (logs prefix fsA) ->
  Forall (fun f => f_mtime f <= l_time (r_start r)) (logs prefix fsA) ->
  inc (l_time (r_start r)) (r_events r) ->
  exists w rest cf pushed pre,
    run_one (post b18) m prefix fsA r = ROk w /\ w_fs w = rest ++ [cf] /\
    map p_name (entries (w_set w)) = map f_name (logs prefix rest) /\
    map entry_of (logs prefix fsA) ++ pushed = pre ++ entries (w_set w).
Proof. exact survivors_are_suffix_run. Qed.

(* C19.9  D18: with equal mtimes the heap of /repo (order by mtime only) may delete the newer of
   two equally old files, which leaves a hole in the log ... *)
Theorem c19_equal_mtimes_hole_refuted :
  alive_flags (run_history post_fix Debug pfx [fA; fB] (h_tie [1%nat])) = [true; false; true] /\
  alive_flags (run_history post_fix Debug pfx [fA; fB] (h_tie [])) = [false; true; true].
Proof. exact equal_mtimes_hole_refuted. Qed.

(* ... with ties broken by path the older file goes, whatever the schedule; and that directory
   satisfies the sortedness hypothesis of c19_survivors_are_suffix_partial for b18 = true only *)
Theorem c19_equal_mtimes_fixed :
  alive_flags (run_history fix18 Debug pfx [fA; fB] (h_tie [1%nat])) = [false; true; true] /\
  alive_flags (run_history fix18 Debug pfx [fA; fB] (h_tie [])) = [false; true; true] /\
  alive_flags (run_history fix18 Debug pfx [fA; fB] (h_tie [7%nat; 3%nat])) = [false; true; true].
Proof. exact equal_mtimes_fixed. Qed.

Example c19_equal_mtimes_sorted_nonvacuous :
  heap_leb fix18 (entry_of fB) (entry_of fA) = false /\ heap_leb post_fix (entry_of fB) (entry_of fA) = true.
Proof. exact equal_mtimes_sorted. Qed.

(* C19.9b  KNOWN FINDING D20 (found by asking what the sortedness hypothesis of c19_survivors_are_suffix_partial
   excludes, then running the real PrefixFileSet at that point): equally old files are deleted in the order of
   their path TEXT.  The writer names files <prefix>.<second>-<n>; "-10" sorts before "-2", and a suffix freed by a
   deletion is reused, so among files of equal mtime (file systems with coarse time stamps) the path order is not
   the creation order: the NEWER file "a-10" is deleted and the older "a-2" kept.  c19_survivors_are_suffix_partial
   is the property for every directory OUTSIDE that class (its hypothesis: the log files are strictly sorted in the
   heap order); inside it the clause is refuted: *)
Theorem c19_name_order_hole_refuted :
  entry_names (run_ops fix18 [97] ([], mkPset [] 0 []) d20_ops) = [NPre n_a2] /\
  let before := [mkPfile (NPre n_a2) 5 100; mkPfile (NPre n_a10) 5 100] in
  oracle_set_creation [NPre n_a2; NPre n_a10] before [NPre n_a10] = false /\
  kf_c19_equal_mtime_name_order [NPre n_a2; NPre n_a10] before [NPre n_a10] = true /\
  oracle_set_creation [NPre n_a2; NPre [97; 45; 51]] [mkPfile (NPre n_a2) 5 100; mkPfile (NPre [97; 45; 51]) 5 100] [NPre n_a2] = true.
Proof. exact name_order_hole_refuted. Qed.

(* C19.10  the oracles of the correspondence check are the boolean form of the theorems.
   c19_oracle_set_sound: on every state in which heap and directory agree (the writer's states;
   the state after PrefixFileSet::new, c19_set_new_good; and, by the conclusion, every state reached
   from these by deleting calls) each deleting call of the model satisfies oracle_set_step, where
   [del] are the names that left the heap = the names of the log files that left the directory. *)
Theorem c19_oracle_set_sound :
  forall prefix b18 m rest tl st o fs' st',
  Good prefix rest tl st ->
  (o = ODelOldest \/ (exists now dur, o = ODelOlder now dur) \/ (exists mx, o = OWhileOver mx)) ->
  set_step (post b18) m prefix (rest ++ tl, st) o = ROk (fs', st') ->
  exists del rest',
    fs' = rest' ++ tl /\ Good prefix rest' tl st' /\ Kills prefix rest rest' /\
    entries st' = keep_entries del (entries st) /\
    oracle_set_step (post b18) (entries st) o del = true.
Proof. exact oracle_set_sound. Qed.

Theorem c19_set_new_good :
  forall prefix b18 m fs ts st,
  NoDup (live_names fs) -> total_size post_fix prefix fs < two64 ->
  set_new (post b18) m prefix fs ts = ROk st -> Good prefix fs [] st.
Proof. exact set_new_good. Qed.

(* c19_oracle_writer_sound: at every event boundary of every history the model's observation (the
   contents of the live files the writer created, in order; the bytes in surviving older log
   files; the set's entries) satisfies the clauses ow_current_last, ow_file_sizes, ow_total and
   ow_age of the writer oracle.
   FULL STATEMENT (not proved, hence the name): additionally
     ow_suffix (history_lines (rs ++ [r])) (obs_of created) = true,
   i.e. oracle_writer .. = true as a whole.
   GAP: ow_suffix is the boolean form of survivors_are_suffix for whole histories, which is proved
   for one run only (c19_survivors_are_suffix_partial); what IS proved for all histories is that the
   live files are a sub-sequence of the files holding exactly the accepted lines
   (c19_every_event_once_in_order). *)
Theorem c19_oracle_writer_sound_partial :
  forall prefix b18 m fs0 MW WA rs r, hist_ok prefix fs0 MW WA (rs ++ [r]) ->
  exists fsA w old created,
    run_history (post b18) m prefix fs0 rs = ROk fsA /\ run_one (post b18) m prefix fsA r = ROk w /\
    w_fs w = old ++ created /\ length old = length fs0 /\
    ow_current_last (history_lines (rs ++ [r])) (obs_of created) = true /\
    ow_file_sizes MW (obs_of created) = true /\
    ow_total (max_write_bytes (r_cfg r)) (max_keep_bytes (r_cfg r)) (history_lines (rs ++ [r]))
             (total_size post_fix prefix old) (obs_of created) = true /\
    (r_events r <> [] ->
     ow_age (max_keep_age (r_cfg r)) (l_time (last (r_events r) (r_start r))) (entries (w_set w)) = true).
Proof. exact oracle_writer_sound. Qed.

(* non-vacuity: the hypotheses hold for a concrete history with a pre-existing file *)
Example c19_nonvacuous :
  hist_ok pfx [old_file] 65536 86400000 h_uncounted /\
  final_total (run_history post_fix Debug pfx [old_file] h_uncounted) = Some 60000.
Proof.
  split; [split; [split|]|].
  - vm_compute. repeat constructor. intros [].
  - vm_compute. reflexivity.
  - constructor; [|constructor]. unfold wf_run, cfg_ok.
    split; [split; vm_compute; reflexivity|].
    split; [vm_compute; discriminate|]. split; [vm_compute; discriminate|].
    unfold run_lines, h_uncounted, r_start, r_events.
    repeat (constructor; [vm_compute; reflexivity|]). constructor.
  - vm_compute. reflexivity.
Qed.

(* C19.src  the body of the writer thread's loop as TRANSLATED statement by statement from
   src/log/log_file_writer.rs ON THIS RUN (props/srcparams.py -> Generated/SourceParams.v: src_writer_loop),
   interpreted over the model's writer state by Tie/WriterTie.v, is the model's [step] -- for every state, event,
   configuration, build profile and tie schedule.  This fixes the order of the duties (rotate, delete by age, delete
   by size, append), the rotation condition (file length PLUS the event strictly above max_write_bytes, or the
   file's age by THIS iteration's clock reading strictly above max_write_age), the pushed entry (path, mtime = that
   clock reading, len) and the deletion budget (max_keep_bytes minus the current file minus the event, saturating).
   The file name format of LogFile::create is Model/Time.v's fmt_compact; the builder defaults are the documented ones. *)
Theorem c19_writer_loop_is_the_source : forall b18 m cfg w ev,
  eval_iteration (post b18) m cfg ev src_writer_loop w = step (post b18) m cfg w ev.
Proof. exact writer_loop_tie. Qed.
Theorem c19_writer_thread_is_the_source : forall b18 m cfg evs w,
  run_events_src (post b18) m cfg w evs = run_events (post b18) m cfg w evs.
Proof. exact writer_thread_tie. Qed.
Theorem c19_file_name_is_the_source : forall t n,
  eval_fmt (name_env t n) src_logfile_name_fmt = Some (46 :: fmt_compact t ++ 45 :: dec n).
Proof. exact logfile_name_tie. Qed.
Theorem c19_builder_defaults_are_the_source :
  src_default_max_write_age_secs = 86400 /\ src_default_max_write_bytes = 10485760 /\ src_min_max_write_bytes = 65536.
Proof. exact writer_defaults_tie. Qed.
(* PrefixFileSet (src/log/prefix_file_set.rs) as translated on this run, interpreted by Tie/FileSetTie.v: the heap
   order read from `impl Ord for PrefixFile` is the model's order after D18; delete_oldest statement by statement is
   the model's delete_oldest for every state, profile and tie schedule; the loop tests are the model's; push is the
   model's push *)
Theorem c19_heap_order_is_the_source : forall a b, chain_leb src_pfs_cmp a b = heap_leb fix18 a b.
Proof. exact ord_tie. Qed.
Theorem c19_delete_oldest_is_the_source : forall v m s, eval_delete_oldest v m s = delete_oldest v m s.
Proof. exact delete_oldest_tie. Qed.
Theorem c19_deletion_loops_are_the_source :
  (forall mm thr, loop_test src_pfs_older_cmp mm thr = (mm <? thr)) /\
  (forall len mx, loop_test src_pfs_over_cmp len mx = (mx <? len)).
Proof. exact (conj older_loop_tie over_loop_tie). Qed.
Theorem c19_push_is_the_source : forall b18 m e ps, eval_pstmts m e src_pfs_push ps = push (post b18) m e ps.
Proof. exact push_tie. Qed.
Theorem c19_file_set_translation_complete : src_problems_pfs = 0%nat /\ src_pfs_new_shape_ok = true.
Proof. exact fileset_translated. Qed.
Theorem c19_translation_complete : src_problems_writer = 0%nat.
Proof. exact writer_translated. Qed.

Print Assumptions c19_len_is_sum.
Print Assumptions c19_writer_len_is_sum.
Print Assumptions c19_writer_never_panics.
Print Assumptions c19_every_event_once_in_order.
Print Assumptions c19_current_file_has_last_event.
Print Assumptions c19_file_bounds.
Print Assumptions c19_total_bound.
Print Assumptions c19_total_bound_keep_plus_one_event.
Print Assumptions c19_total_bound_needs_keep_ge_write_refuted.
Print Assumptions c19_age_bound.
Print Assumptions c19_other_files_untouched.
Print Assumptions c19_push_not_counted_refuted.
Print Assumptions c19_prefix_match_refuted.
Print Assumptions c19_age_delete_underflow_refuted.
Print Assumptions c19_budget_underflow_refuted.
Print Assumptions c19_survivors_are_suffix_partial.
Print Assumptions c19_name_order_hole_refuted.
Print Assumptions c19_equal_mtimes_hole_refuted.
Print Assumptions c19_equal_mtimes_fixed.
Print Assumptions c19_oracle_set_sound.
Print Assumptions c19_set_new_good.
Print Assumptions c19_oracle_writer_sound_partial.
Print Assumptions c19_writer_loop_is_the_source.
Print Assumptions c19_file_name_is_the_source.
Print Assumptions c19_builder_defaults_are_the_source.
Print Assumptions c19_translation_complete.
Print Assumptions c19_heap_order_is_the_source.
Print Assumptions c19_delete_oldest_is_the_source.
Print Assumptions c19_deletion_loops_are_the_source.
Print Assumptions c19_push_is_the_source.
Print Assumptions c19_file_set_translation_complete.
Print Assumptions c19_writer_thread_is_the_source.
