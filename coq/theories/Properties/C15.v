(* Properties/C15.v -- Cookies: request parsing and Set-Cookie formatting agree with RFC 6265.
   Only property-level statements; each is closed by [exact <lemma>] (proofs: Proofs/CookieP.v).
   Model: Model/Cookie.v (cookie loop of read_http_request, Display for Cookie, with_set_cookie).
   Spec: Spec/Rfc6265.v (cookie-string rendering with stray ";" and blanks; "last pair wins";
   the section 5.2 Set-Cookie parsing algorithm).  `Expires` is emitted by the code and skipped
   by the reference parser; it is outside the statement (DESIGN section 7). *)
From Coq Require Import ZArith.
From SV Require Import Base.Bytes Spec.Civil Spec.Rfc6265 Model.Time Model.Headers Model.Cookie Proofs.CookieP.
From SV Require Import Base.SrcAst Generated.SourceParams Tie.CookieTie.
Open Scope N_scope.

(* C15.1  For EVERY list of Cookie fields generated from the cookie-string grammar -- any number
   of fields, any number of segments, token names, values over cookie-octets and DQUOTE (so with
   "=" inside, empty, quoted), any stray ";" and any SP/HTAB blanks around segments -- the cookie
   map has distinct keys and maps each name to the value of the LAST pair with that name. *)
Theorem c15_cookie_header_roundtrip :
  forall fs : list field, fields_ok fs = true ->
    exists m, request_cookies (render_fields fs) = CookiesOk m /\ keys_nodup m = true /\
              forall n, lookup n m = last_value n (pairs_of_fields fs).
Proof. exact cookie_header_roundtrip. Qed.

(* C15.2  the same starting from the parsed head: the fields are found under any letter case of
   the field name "cookie". *)
Theorem c15_cookie_header_roundtrip_from_headers :
  forall (fs : list field) (names : list bytes),
    fields_ok fs = true -> length names = length fs -> forallb (fun n => eq_ic n COOKIE) names = true ->
    exists m, request_cookies_of_headers (combine names (render_fields fs)) = CookiesOk m /\ keys_nodup m = true /\
              forall n, lookup n m = last_value n (pairs_of_fields fs).
Proof. exact cookie_header_roundtrip_headers. Qed.

(* C15.3  RFC 6265 4.2.1 proper (pairs joined by "; " in one field) is an instance. *)
Theorem c15_rfc_cookie_string_is_an_instance :
  forall pairs, pairs <> [] ->
    forallb (fun p => is_cookie_name (fst p) && is_cookie_value (snd p)) pairs = true ->
    fields_ok [cookie_string_field pairs] = true /\ pairs_of_fields [cookie_string_field pairs] = pairs.
Proof. exact cookie_string_field_ok. Qed.

(* C15.4  for ARBITRARY field values (any bytes): the request is refused with
   MalformedCookieHeader if and only if some ";"-separated piece is, after trimming, non-empty and
   has no "=" -- nothing is dropped silently, nothing else is refused by the cookie loop. *)
Theorem c15_rejected_iff_segment_without_eq :
  forall values : list bytes,
    request_cookies values = ErrMalformedCookieHeader <->
    existsb (fun v => existsb (fun s => negb (is_empty (trim s)) && forallb (fun b => negb (b =? 61)) (trim s))
                              (split_on 59 v)) values = true.
Proof. exact rejected_iff_segment_without_eq. Qed.

(* C15.5  in the generated structure: one token segment without "=" anywhere (whatever the other
   segments are) makes the request a 400. *)
Theorem c15_segment_without_eq_is_400 :
  forall (fs : list field) (f : field) (s : seg), In f fs -> In s f -> seg_is_noeq s = true ->
    request_cookies (render_fields fs) = ErrMalformedCookieHeader /\ status_of_malformed_cookie_header = 400.
Proof. exact segment_without_eq_is_400. Qed.

(* C15.6  For EVERY cookie built from RFC-valid characters (token name; value over cookie-octets
   and DQUOTE; Domain over letters/digits/"-"/"."; Path starting with "/" over CHARs except CTLs
   and ";" without a blank at either end; Max-Age any whole number of seconds, unbounded; any
   Expires instant at or after the epoch; every combination of Secure, HttpOnly, SameSite),
   Display succeeds and the RFC 6265 5.2 algorithm reads back the same name, value, Domain
   (lower-cased, leading dot removed: 5.2.3), Path, Max-Age (absent when zero), Secure, HttpOnly
   and SameSite. *)
Theorem c15_set_cookie_roundtrip :
  forall c : cookie, cookie_ok c = true ->
    exists text, display_cookie c = Some text /\ parse_set_cookie text = Some (expected_parse c).
Proof. exact set_cookie_roundtrip. Qed.

(* C15.7  Response::with_set_cookie: exactly one Set-Cookie field per cookie, appended in order,
   nothing else added, and each field reads back as its cookie. *)
Theorem c15_one_field_per_cookie :
  forall (cs : list cookie) (hs : hlist), forallb cookie_ok cs = true ->
    exists texts,
      with_set_cookies hs cs = Some (hs ++ map (fun t => (SET_COOKIE, t)) texts) /\
      length texts = length cs /\
      get_all (hs ++ map (fun t => (SET_COOKIE, t)) texts) SET_COOKIE = get_all hs SET_COOKIE ++ texts /\
      oracle_set_cookies cs texts = true.
Proof. exact one_field_per_cookie. Qed.

(* C15.8  the oracles evaluated on the implementation's observations are the boolean forms of the
   conclusions above and hold of the model. *)
Theorem c15_oracle_request_sound :
  forall fs, oracle_request fs (request_cookies (render_fields fs)) = true.
Proof. exact oracle_request_sound. Qed.
Theorem c15_oracle_request_means_last_wins :
  forall pairs m, map_is_last_wins pairs m = true ->
    keys_nodup m = true /\ forall n, lookup n m = last_value n pairs.
Proof. exact map_is_last_wins_spec. Qed.
Theorem c15_oracle_set_cookie_sound :
  forall c text, display_cookie c = Some text -> oracle_set_cookie c text = true.
Proof. exact oracle_set_cookie_sound. Qed.
Theorem c15_oracle_parsed_eqb_is_equality :
  forall p q, parsed_eqb p q = true -> p = q.
Proof. exact parsed_eqb_eq. Qed.

(* C15.9  recorded behaviour OUTSIDE the quantifier (which is whole seconds): a Max-Age Duration
   below one second is "> Duration::ZERO", so the attribute is printed, with as_secs() = 0 --
   a client reads Max-Age=0 (expire now). *)
Theorem c15_subsecond_max_age_prints_zero :
  display_cookie (mkcookie [97] [98] [] None false [] 0 true Strict false) =
    Some [97; 61; 98; 59; 32; 77; 97; 120; 45; 65; 103; 101; 61; 48; 59; 32; 83; 97; 109; 101; 83; 105; 116; 101; 61; 83; 116; 114; 105; 99; 116] /\
  (match display_cookie (mkcookie [97] [98] [] None false [] 0 true Strict false) with
   | Some t => option_map p_max_age (parse_set_cookie t) | None => None end) = Some (Some 0%Z).
Proof. exact subsecond_max_age_prints_zero. Qed.

(* non-vacuity: the hypotheses are satisfiable by non-trivial instances *)
Example c15_nonvacuous :
  (* "a=b=c; ;d=" and "A=1 ;a=z" : '=' in a value, an empty value, a stray ';', blanks, a repeated name *)
  let fs := [[mkseg [] (SPair [97] [98;61;99]) []; mkseg [32] SEmpty []; mkseg [] (SPair [100] []) []];
             [mkseg [] (SPair [65] [49]) [32]; mkseg [] (SPair [97] [122]) []]] in
  fields_ok fs = true /\
  render_fields fs = [[97;61;98;61;99;59;32;59;100;61]; [65;61;49;32;59;97;61;122]] /\
  request_cookies (render_fields fs) = CookiesOk [([97],[122]); ([65],[49]); ([100],[])] /\
  (* all attributes on: ".Example.COM", "/a b", Max-Age 2^40, SameSite=None *)
  let c := mkcookie [115;105;100] [34;120;61;121;34] [46;69;120;97;109;112;108;101;46;67;79;77] (Some 1700000000%Z)
                    true [47;97;32;98] 1099511627776 false SSNone true in
  cookie_ok c = true /\
  option_map (fun t => parse_set_cookie t) (display_cookie c) = Some (Some (expected_parse c)) /\
  p_domain (expected_parse c) = Some [101;120;97;109;112;108;101;46;99;111;109].
Proof. vm_compute. repeat split; reflexivity. Qed.

(* C15.src  `impl Display for Cookie` as TRANSLATED statement by statement from src/cookie.rs ON THIS RUN
   (props/srcparams.py -> Generated/SourceParams.v: src_cookie_display), interpreted by Tie/CookieTie.v
   (guards, arguments, literals in source order), is the model's display_cookie for EVERY cookie: the Set-Cookie
   theorems above are about the formatting code as it is now *)
Theorem c15_display_is_the_source :
  forall c, eval_segs src_cookie_display c = display_cookie c.
Proof. exact cookie_display_tie. Qed.
Theorem c15_translation_complete : src_problems_cookie = 0%nat.
Proof. exact cookie_translated. Qed.

Print Assumptions c15_cookie_header_roundtrip.
Print Assumptions c15_cookie_header_roundtrip_from_headers.
Print Assumptions c15_rfc_cookie_string_is_an_instance.
Print Assumptions c15_rejected_iff_segment_without_eq.
Print Assumptions c15_segment_without_eq_is_400.
Print Assumptions c15_set_cookie_roundtrip.
Print Assumptions c15_one_field_per_cookie.
Print Assumptions c15_oracle_request_sound.
Print Assumptions c15_oracle_request_means_last_wins.
Print Assumptions c15_oracle_set_cookie_sound.
Print Assumptions c15_oracle_parsed_eqb_is_equality.
Print Assumptions c15_subsecond_max_age_prints_zero.
Print Assumptions c15_display_is_the_source.
Print Assumptions c15_translation_complete.
