(* Proofs/HeadLoopsP.v -- the literal trim_whitespace loop computes the structural trim_ws. *)
From SV Require Import Base.Bytes Base.BytesP Model.Headers Model.Head Model.HeadLoops Proofs.HeadGrammarP.

Lemma trim_ws_loop_spec fuel : forall l, (length l < fuel)%nat -> trim_ws_loop fuel l = trim_ws l.
Proof.
  induction fuel as [|f IH]; intros l H; [lia|]. cbn [trim_ws_loop]. destruct l as [|b t]; [reflexivity|].
  destruct (is_ws b) eqn:W.
  - cbn [tl]. rewrite IH by (cbn [length] in H; lia). unfold trim_ws. cbn [drop_while]. now rewrite W.
  - unfold trim_ws. rewrite drop_while_head by exact W. destruct (is_ws (last (b :: t) 0)) eqn:L.
    + assert (Hne : b :: t <> []) by discriminate.
      pose proof (app_removelast_last 0 Hne) as E.
      destruct t as [|c t']; [cbn in L; congruence|].
      assert (R : removelast (b :: c :: t') = b :: removelast (c :: t')) by reflexivity.
      rewrite IH.
      * rewrite E at 2. rewrite drop_while_end_app_all by (cbn [forallb]; now rewrite L).
        unfold trim_ws. rewrite R, drop_while_head by exact W. reflexivity.
      * rewrite E in H. rewrite app_length in H. cbn [length] in H. lia.
    + symmetry. apply drop_while_end_last; [discriminate|exact L].
Qed.

Theorem trim_whitespace_is_trim_ws l : trim_whitespace l = trim_ws l.
Proof. apply trim_ws_loop_spec. lia. Qed.
