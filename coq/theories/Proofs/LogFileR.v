(* Proofs/LogFileR.v -- witnesses: the three parts of defect D14 on the code before the repairs
   ([pre_fix]), and two corners of the repaired code that the property text does not cover. *)
From SV Require Import Base.Bytes Model.LogFile.

Definition pfx : bytes := [108; 111; 103].                       (* "log" *)
Definition cfg64 (keep_age : option N) : config := mkConfig keep_age 65536 86400000 65536 1000.
Definition ev (i size t : N) : line := mkLine i size t.
Definition startl (t : N) : line := mkLine start_id 105 t.

Definition final_total (r : res (list file)) : option N :=
  match r with ROk fs => Some (total_size post_fix pfx fs) | _ => None end.
Definition is_panic {A} (r : res A) : bool := match r with RPanic => true | _ => false end.

(* D14a  rotated files are never counted: five 60000-byte events with max_keep = max_write = 64 KiB
   leave 300105 bytes on disk (every event rotates, nothing is ever deleted). *)
Definition h_uncounted : list run :=
  [mkRun (cfg64 None) [] (startl 1000)
         [ev 0 60000 1001; ev 1 60000 1002; ev 2 60000 1003; ev 3 60000 1004; ev 4 60000 1005]].
Lemma push_not_counted_refuted :
  final_total (run_history pre_fix Release pfx [] h_uncounted) = Some 300105 /\
  final_total (run_history pre_fix Debug pfx [] h_uncounted) = Some 300105 /\
  final_total (run_history post_fix Release pfx [] h_uncounted) = Some 60000.
Proof. vm_compute. auto. Qed.

(* D14b  files left by an earlier run are never matched: "log.1" (1 MB) survives any history *)
Definition old_file : file := mkFile (NPre [108; 111; 103; 46; 49]) true true 500 400 [mkLine 7 1000000 500].
Definition h_one : list run := [mkRun (cfg64 None) [] (startl 1000) [ev 0 200 1001]].
Lemma prefix_match_refuted :
  final_total (run_history pre_fix Release pfx [old_file] h_one) = Some 1000305 /\
  final_total (run_history post_fix Release pfx [old_file] h_one) = Some 305.
Proof. vm_compute. auto. Qed.

(* D14a+  deletion by age subtracts the length of a file that was never added: the debug build
   panics on the subtraction, the release build wraps, then deletes everything and panics on the
   empty heap *)
Definition h_age : list run :=
  [mkRun (cfg64 (Some 60000)) [] (startl 1000) [ev 0 60000 2000; ev 1 60000 3000; ev 2 200 100000]].
Lemma age_delete_underflow_refuted :
  is_panic (run_history pre_fix Debug pfx [] h_age) = true /\
  is_panic (run_history pre_fix Release pfx [] h_age) = true /\
  is_panic (run_history post_fix Debug pfx [] h_age) = false.
Proof. vm_compute. auto. Qed.

(* D14c  max_keep_bytes - file.len - n underflows as soon as the current file plus the event
   exceed max_keep_bytes (here max_keep 64 KiB < max_write 128 KiB) *)
Definition cfg_small_keep : config := mkConfig None 65536 86400000 131072 1000.
Definition h_budget : list run :=
  [mkRun cfg_small_keep [] (startl 1000) [ev 0 40000 1001; ev 1 40000 1002; ev 2 40000 1003]].
Lemma budget_underflow_refuted :
  is_panic (run_history pre_fix Debug pfx [] h_budget) = true /\
  is_panic (run_history post_fix Debug pfx [] h_budget) = false.
Proof. vm_compute. auto. Qed.

(* Corner 1 (not a defect of the repaired code w.r.t. the stated quantifier, which has
   max_keep >= max_write): with max_keep < max_write the current file alone may exceed
   max_keep by more than one event. *)
Lemma keep_below_write_refuted :
  final_total (run_history post_fix Debug pfx [] h_budget) = Some 120105 /\ 65536 + 40000 < 120105.
Proof. vm_compute. auto. Qed.

(* Corner 2: two closed files with EQUAL mtime.  The heap may pop either; with the tie choice 1
   the newer file B goes and the older file A stays: the surviving files are A and the current
   file, which is not a contiguous suffix of the log. *)
Definition fA : file := mkFile (NGen 0 0) true true 500 100 [mkLine 11 40000 500].
Definition fB : file := mkFile (NGen 0 1) true true 500 500 [mkLine 12 40000 500].
Definition h_tie (ts : list nat) : list run := [mkRun (cfg64 None) ts (startl 1000) [ev 0 200 1001]].
Definition alive_flags (r : res (list file)) : list bool :=
  match r with ROk fs => map f_alive fs | _ => [] end.
Lemma equal_mtimes_hole_refuted :
  alive_flags (run_history post_fix Debug pfx [fA; fB] (h_tie [1%nat])) = [true; false; true] /\
  alive_flags (run_history post_fix Debug pfx [fA; fB] (h_tie [])) = [false; true; true].
Proof. vm_compute. auto. Qed.

(* D18 repaired (ties broken by path): the same directory, every tie schedule tried, always loses
   the older file A *)
Lemma equal_mtimes_fixed :
  alive_flags (run_history fix18 Debug pfx [fA; fB] (h_tie [1%nat])) = [false; true; true] /\
  alive_flags (run_history fix18 Debug pfx [fA; fB] (h_tie [])) = [false; true; true] /\
  alive_flags (run_history fix18 Debug pfx [fA; fB] (h_tie [7%nat; 3%nat])) = [false; true; true].
Proof. vm_compute. auto. Qed.

(* the directory [fA; fB] (equal mtimes, names in creation order) is strictly sorted in the
   repaired heap order, and is not in the old one *)
Lemma equal_mtimes_sorted :
  heap_leb fix18 (entry_of fB) (entry_of fA) = false /\ heap_leb post_fix (entry_of fB) (entry_of fA) = true.
Proof. vm_compute. auto. Qed.

(* Corner 3 (known finding D20): equally old files are ordered by path TEXT, which is not their creation order once
   the counter suffix has two digits: "a-2" (created first) and "a-10" (created later) with the same mtime and a
   budget for one file -- the repaired heap order (mtime, then path) deletes "a-10", the NEWER file, and keeps
   "a-2": the survivors are not a most-recent suffix.  [run_ops] folds set_step over a case. *)
Fixpoint run_ops (v : variant) (prefix : bytes) (s : sys) (ops : list sop) : res sys :=
  match ops with
  | [] => ROk s
  | o :: t => match set_step v Debug prefix s o with ROk s' => run_ops v prefix s' t | r => r end
  end.
Definition n_a2 : bytes := [97; 45; 50].          (* "a-2"  *)
Definition n_a10 : bytes := [97; 45; 49; 48].     (* "a-10" *)
Definition d20_ops : list sop :=
  [OMkFile n_a2 true 100 5; OMkFile n_a10 true 100 5; ONew []; OWhileOver 150].
Definition entry_names (r : res sys) : list fname :=
  match r with ROk (_, st) => map p_name (entries st) | _ => [] end.
Lemma name_order_hole_refuted :
  entry_names (run_ops fix18 [97] ([], mkPset [] 0 []) d20_ops) = [NPre n_a2] /\
  let before := [mkPfile (NPre n_a2) 5 100; mkPfile (NPre n_a10) 5 100] in
  oracle_set_creation [NPre n_a2; NPre n_a10] before [NPre n_a10] = false /\
  kf_c19_equal_mtime_name_order [NPre n_a2; NPre n_a10] before [NPre n_a10] = true /\
  (* with the names in creation order ("a-2" then "a-3") the same history keeps the newer file *)
  oracle_set_creation [NPre n_a2; NPre [97; 45; 51]] [mkPfile (NPre n_a2) 5 100; mkPfile (NPre [97; 45; 51]) 5 100] [NPre n_a2] = true.
Proof. vm_compute. repeat split; reflexivity. Qed.
