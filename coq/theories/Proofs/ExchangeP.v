(* Proofs/ExchangeP.v -- the connection loop as a sequence of exchanges (C04, whole-connection form).
   For EVERY request reader, response writer, handler and revocation schedule:
   the loop is exactly the iteration of single exchanges (handle_http_conn_once), in order, cut at the
   first closing event; the invocation log and the temp-file log are the concatenation of the
   exchanges' logs; the wire after each exchange extends the wire before it (responses appear in
   request order, nothing already sent is ever changed); after the last exchange at most the one
   error response of the loop's error path is appended. *)
From Coq Require Import ZArith List.
From SV Require Import Base.Bytes Base.IO Model.Conn Spec.ConnSpec Proofs.ConnP Model.Server Proofs.ServerP.
Import ListNotations.

Section X.
Variable payload : Type.
Variable resp : Type.
Variable read_req : cin -> (herr + (payload * reqmeta)) * cin.
Variable resp_code : resp -> N.
Variable write_out : resp -> bool -> option herr * bytes.
Variable resp_continue : resp.
Variable fix16 : bool.
Variable error_response : herr -> resp.
Variable handler : payload -> bview -> hres resp.
Variable small_body_len : N.
Variable cache_dir : option bool.
Variable revoked : nat -> bool.

Notation once := (handle_once payload resp read_req resp_code write_out resp_continue fix16 handler true small_body_len cache_dir).
Notation loop := (conn_loop payload resp read_req resp_code write_out resp_continue fix16 error_response handler true small_body_len cache_dir revoked).
Notation fin := (finish payload resp resp_code write_out).
Notation pend := (pending payload resp resp_code write_out resp_continue fix16 handler true cache_dir).
Notation step := (cstep payload resp read_req resp_code write_out resp_continue fix16).
Notation oout := (once_out payload resp).

Definition extends (a b : bytes) : Prop := exists w, b = a ++ w.
Lemma extends_refl a : extends a a.
Proof. exists []. now rewrite app_nil_r. Qed.
Lemma extends_trans a b c : extends a b -> extends b c -> extends a c.
Proof. intros [w ->] [v ->]. exists (w ++ v). now rewrite app_assoc. Qed.

(* every operation of the connection machine only appends to the wire *)
Lemma op_extends c o : extends (c_wire c) (c_wire (snd (step c o))).
Proof. eexists. apply (wire_effect payload resp read_req resp_code write_out resp_continue fix16). Qed.

Lemma rd_request_extends c : extends (c_wire c) (c_wire (snd (read_request payload read_req c))).
Proof.
  pose proof (op_extends c (@OReadRequest resp)) as H. cbn [cstep] in H.
  destruct (read_request payload read_req c) as [r c']. exact H.
Qed.
Lemma rd_vec_extends c :
  extends (c_wire c) (c_wire (snd (read_body_to_vec resp resp_code write_out resp_continue fix16 c))).
Proof.
  pose proof (op_extends c (@OReadBodyVec resp)) as H. cbn [cstep] in H.
  destruct (read_body_to_vec resp resp_code write_out resp_continue fix16 c) as [r c']. exact H.
Qed.
Lemma rd_file_extends c d m :
  extends (c_wire c) (c_wire (snd (read_body_to_file resp resp_code write_out resp_continue fix16 c d m))).
Proof.
  pose proof (op_extends c (@OReadBodyFile resp d m)) as H. cbn [cstep] in H.
  destruct (read_body_to_file resp resp_code write_out resp_continue fix16 c d m) as [r c']. exact H.
Qed.
Lemma wr_response_extends c r :
  extends (c_wire c) (c_wire (snd (write_response resp resp_code write_out c r))).
Proof.
  pose proof (op_extends c (OWrite r)) as H. cbn [cstep] in H.
  destruct (write_response resp resp_code write_out c r) as [x c']. exact H.
Qed.

Lemma finish_extends c log files a : extends (c_wire c) (c_wire (oo_conn _ _ (fin c log files a))).
Proof.
  unfold finish. destruct a as [r| |m]; try apply extends_refl.
  pose proof (wr_response_extends c r) as H.
  destruct (write_response resp resp_code write_out c r) as [x c'].
  destruct (is_4xx_5xx (resp_code r)); exact H.
Qed.

Lemma pending_extends p v c1 : extends (c_wire c1) (c_wire (oo_conn _ _ (pend p v c1))).
Proof.
  unfold pending. destruct (handler p v) as [r| |m].
  - apply finish_extends.
  - apply extends_refl.
  - destruct cache_dir as [d|]; [|apply extends_refl].
    pose proof (rd_file_extends c1 d m) as H.
    destruct (read_body_to_file resp resp_code write_out resp_continue fix16 c1 d m) as [[e|b|b] c2]; cbn [snd] in H.
    + exact H.
    + exact H.
    + eapply extends_trans; [exact H|apply finish_extends].
Qed.

Lemma once_extends c : extends (c_wire c) (c_wire (oo_conn _ _ (once c))).
Proof.
  unfold handle_once. pose proof (rd_request_extends c) as H0.
  destruct (read_request payload read_req c) as [[e|p] c1]; cbn [snd] in H0; [exact H0|].
  destruct (c_rs c1) as [|l ex ch gz|].
  - eapply extends_trans; [exact H0|apply finish_extends].
  - destruct l as [len|].
    + destruct (len <=? small_body_len).
      * pose proof (rd_vec_extends c1) as H1.
        destruct (read_body_to_vec resp resp_code write_out resp_continue fix16 c1) as [[e|b|b] c2]; cbn [snd] in H1.
        -- eapply extends_trans; [exact H0|exact H1].
        -- eapply extends_trans; [exact H0|]. eapply extends_trans; [exact H1|apply finish_extends].
        -- eapply extends_trans; [exact H0|exact H1].
      * eapply extends_trans; [exact H0|apply pending_extends].
    + eapply extends_trans; [exact H0|apply pending_extends].
  - eapply extends_trans; [exact H0|apply finish_extends].
Qed.

(* ---- the exchange sequence of a connection ---- *)
Fixpoint exchanges (n : nat) (k : nat) (c : conn) : list oout :=
  match n with
  | O => []
  | S n' =>
      if revoked k then [] else if negb (is_ready c) then [] else
      let o := once c in
      o :: match oo_res _ _ o with None => exchanges n' (S k) (oo_conn _ _ o) | Some _ => [] end
  end.

(* what the loop's error path does after the last exchange *)
Definition after_last (c : conn) (xs : list oout) : conn :=
  match rev xs with
  | [] => c
  | o :: _ =>
      match oo_res _ _ o with
      | None | Some Disconnected => oo_conn _ _ o
      | Some e => shutdown_write (snd (write_response resp resp_code write_out (oo_conn _ _ o) (error_response e)))
      end
  end.

Lemma after_last_cons c o xs : xs <> [] -> after_last c (o :: xs) = after_last (oo_conn _ _ o) xs.
Proof.
  intros Hne. unfold after_last. cbn [rev]. destruct (rev xs) as [|y ys] eqn:E.
  - exfalso. apply Hne. apply (f_equal (@rev _)) in E. now rewrite rev_involutive in E.
  - reflexivity.
Qed.

(* the loop is the iteration of the exchanges *)
Theorem loop_is_exchanges fuel : forall k c log files,
  let out := loop fuel k c log files in
  let xs := exchanges fuel k c in
  lo_log _ _ out = log ++ concat (map (oo_log _ _) xs) /\
  lo_files _ _ out = files ++ concat (map (oo_files _ _) xs) /\
  (lo_out_of_fuel _ _ out = false -> lo_conn _ _ out = after_last c xs).
Proof.
  induction fuel as [|f IH]; intros k c log files; cbn [conn_loop exchanges].
  - cbn. rewrite !app_nil_r. repeat split; try reflexivity; try discriminate.
  - destruct (revoked k); [cbn; rewrite !app_nil_r; repeat split; reflexivity|].
    destruct (negb (is_ready c)); [cbn; rewrite !app_nil_r; repeat split; reflexivity|].
    destruct (oo_res _ _ (once c)) as [e|] eqn:R.
    + assert (after_last c [once c] =
              match e with Disconnected => oo_conn _ _ (once c)
                         | _ => shutdown_write (snd (write_response resp resp_code write_out (oo_conn _ _ (once c)) (error_response e))) end) as HA
        by (unfold after_last; cbn [rev app]; rewrite R; destruct e; reflexivity).
      destruct e;
        try (destruct (write_response resp resp_code write_out (oo_conn _ _ (once c)) (error_response _)) as [x c'] eqn:W;
             cbn [map concat lo_log lo_files lo_conn lo_out_of_fuel]; rewrite !app_nil_r; repeat split; try reflexivity;
             intros _; rewrite HA; cbn [snd]; reflexivity);
        cbn [map concat lo_log lo_files lo_conn lo_out_of_fuel]; rewrite !app_nil_r; repeat split; try reflexivity;
        intros _; rewrite HA; reflexivity.
    + specialize (IH (S k) (oo_conn _ _ (once c)) (log ++ oo_log _ _ (once c)) (files ++ oo_files _ _ (once c))).
      cbn zeta in IH. destruct IH as (H1 & H2 & H3).
      cbn [map concat]. repeat split; [rewrite app_assoc; exact H1 | rewrite app_assoc; exact H2 |].
      intros Hf. rewrite (H3 Hf).
      destruct (exchanges f (S k) (oo_conn _ _ (once c))) as [|y ys] eqn:E.
      * unfold after_last. cbn [rev app]. now rewrite R.
      * symmetry. apply after_last_cons. discriminate.
Qed.

(* responses appear in request order: along the exchange sequence the wire only grows *)
Theorem exchanges_wire_ordered n : forall k c,
  let xs := exchanges n k c in
  Forall (fun o => extends (c_wire c) (c_wire (oo_conn _ _ o))) xs.
Proof.
  induction n as [|n IH]; intros k c; cbn [exchanges]; [constructor|].
  destruct (revoked k); [constructor|]. destruct (negb (is_ready c)); [constructor|].
  constructor; [apply once_extends|].
  destruct (oo_res _ _ (once c)); [constructor|].
  specialize (IH (S k) (oo_conn _ _ (once c))). cbn zeta in IH.
  eapply Forall_impl; [|exact IH]. intros o Ho. eapply extends_trans; [apply once_extends|exact Ho].
Qed.

(* only the last exchange of the sequence can be a closing one: every earlier one returned Ok(()) *)
Theorem exchanges_only_last_closes n : forall k c xs o,
  exchanges n k c = xs ++ [o] -> Forall (fun x => oo_res _ _ x = None) xs.
Proof.
  induction n as [|n IH]; intros k c xs o; cbn [exchanges].
  - intros H. destruct xs; discriminate.
  - destruct (revoked k); [intros H; destruct xs; discriminate|].
    destruct (negb (is_ready c)); [intros H; destruct xs; discriminate|].
    destruct (oo_res _ _ (once c)) as [e|] eqn:R.
    + intros H. destruct xs as [|x xs]; [constructor|]. cbn in H. injection H as _ H. destruct xs; discriminate.
    + intros H. destruct xs as [|x xs]; [constructor|]. cbn [app] in H. injection H as <- H.
      constructor; [exact R|]. eapply IH. exact H.
Qed.
End X.
