(* Proofs/RequestLevelP.v -- C02 at request level: composing the must-accept round trip of the head
   parser (HeadClassifyP.parse_render_roundtrip) with the header processing of read_http_request
   (FramingP.accepted_request). *)
From Coq Require Import List Bool NArith Lia.
From SV Require Import Base.Bytes Base.BytesP Base.IO Model.Headers Model.Head Spec.Rfc7230
  Model.RustStr Model.Request Spec.Framing Proofs.HeadGrammarP Proofs.HeadClassifyP Proofs.FramingP.
Import ListNotations.

Lemma field_ok_values_fv fs :
  forallb field_ok fs = true -> values_fv (map field_pair fs) = true.
Proof.
  unfold values_fv. rewrite !forallb_forall. intros H h Hh. apply in_map_iff in Hh.
  destruct Hh as [f [<- Hf]]. specialize (H f Hf). unfold field_ok, is_field_value in H.
  cbn [field_pair snd]. repeat (apply andb_true_iff in H; destruct H as [H ?]).
  match goal with X : forallb is_fv_byte _ && _ = true |- _ => apply andb_true_iff in X; tauto end.
Qed.

Lemma request_exposes_head_fields url_parse :
  (forall t, canonical_target t = true -> url_parse t = Some (path_of t, query_of t)) ->
  forall rd m t fs rest,
    is_token m = true -> canonical_target t = true -> forallb field_ok fs = true ->
    exists h b',
      try_read url_parse (mk_fbuf rd (render_head m t fs ++ crlf2 ++ rest)) = (Ok h, b') /\
      fb_data b' = rest /\ h_method h = m /\ h_path h = path_of t /\ h_query h = query_of t /\
      forall r, request_of_head (h_method h) (h_headers h) = QOk r ->
        rq_method r = m /\
        rq_headers r =
        filter (fun x => negb (eq_ic (fst x) n_content_type || eq_ic (fst x) n_expect ||
                               eq_ic (fst x) n_transfer_encoding)) (map field_pair fs).
Proof.
  intros Hu rd m t fs rest Hm Ht Hfs.
  destruct (parse_render_roundtrip url_parse Hu rd m t fs rest Hm Ht Hfs) as [b' [Htr Hrest]].
  exists (mk_head m t (path_of t) (query_of t) (map field_pair fs)), b'.
  repeat split; try assumption; cbn [h_method h_headers] in *.
  - pose proof (accepted_request m (map field_pair fs) r (field_ok_values_fv fs Hfs) H) as A. tauto.
  - apply (exposed_headers m); [now apply field_ok_values_fv | assumption].
Qed.
