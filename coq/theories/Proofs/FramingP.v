(* Proofs/FramingP.v -- property-level lemmas of C03 about the code as it is now (D3 and D4
   repaired), the refutations of the pre-repair variants, and soundness of the oracle. *)
From SV Require Import Base.Bytes Base.BytesP Model.Headers Proofs.HeadersP Model.RustStr
     Proofs.RustStrP Model.Request Spec.Framing Proofs.RequestP Proofs.StreamP.

(* ------------------------------------------------------------------ classification *)
Definition framing_of_result (x : result request) : framing :=
  match x with
  | QOk r => Accept (rq_chunked r) (rq_gzip r) (rq_clen r) (rq_body r)
  | QErr _ => Reject
  end.

Lemma te_invalid_rejects eb method hs :
  classify_te (field_values n_transfer_encoding hs) = TeInvalid -> framing_spec_gen eb method hs = Reject.
Proof. intros H. unfold framing_spec_gen. now rewrite H. Qed.

Lemma cl_invalid_rejects eb method hs :
  classify_cl (field_values n_content_length hs) = ClInvalid -> framing_spec_gen eb method hs = Reject.
Proof.
  intros H. unfold framing_spec_gen. rewrite H.
  destruct (classify_te (field_values n_transfer_encoding hs)); reflexivity.
Qed.

Lemma reject_iff eb method hs :
  framing_spec_gen eb method hs = Reject <->
  classify_te (field_values n_transfer_encoding hs) = TeInvalid \/
  classify_cl (field_values n_content_length hs) = ClInvalid.
Proof.
  split.
  - unfold framing_spec_gen.
    destruct (classify_te (field_values n_transfer_encoding hs)); auto;
      destruct (classify_cl (field_values n_content_length hs)); auto; discriminate.
  - intros [H|H]; [now apply te_invalid_rejects|now apply cl_invalid_rejects].
Qed.

Lemma framing_agrees method hs :
  values_fv hs = true -> spec_cookies hs <> None ->
  framing_of_result (request_of_head method hs) = framing_spec method hs.
Proof.
  intros Hfv Hck. rewrite (request_of_head_spec method hs Hfv). unfold spec_request.
  destruct (classify_te (field_values n_transfer_encoding hs)) eqn:Ete;
    try (destruct (spec_cookies hs); [|congruence]; destruct (framing_spec method hs); reflexivity).
  cbn [framing_of_result]. symmetry. now apply te_invalid_rejects.
Qed.

Lemma framing_never_ignored method hs :
  values_fv hs = true -> framing_spec method hs = Reject -> exists e, request_of_head method hs = QErr e.
Proof.
  intros Hfv Hr. rewrite (request_of_head_spec method hs Hfv). unfold spec_request.
  destruct (classify_te (field_values n_transfer_encoding hs)); eauto;
    destruct (spec_cookies hs); eauto; rewrite Hr; eauto.
Qed.

Lemma invalid_framing_rejected method hs :
  values_fv hs = true ->
  classify_cl (field_values n_content_length hs) = ClInvalid \/
  classify_te (field_values n_transfer_encoding hs) = TeInvalid ->
  exists e, request_of_head method hs = QErr e.
Proof.
  intros Hfv H. apply framing_never_ignored; [assumption|]. apply reject_iff. tauto.
Qed.

(* everything an accepted request carries is the stated function of the header fields *)
Lemma accepted_request method hs r :
  values_fv hs = true -> request_of_head method hs = QOk r ->
  framing_spec method hs = Accept (rq_chunked r) (rq_gzip r) (rq_clen r) (rq_body r) /\
  spec_cookies hs = Some (rq_cookies r) /\
  rq_ctype r = spec_ctype hs /\ rq_expect r = spec_expect hs /\
  rq_headers r = spec_exposed hs /\ rq_method r = method.
Proof.
  intros Hfv. rewrite (request_of_head_spec method hs Hfv). unfold spec_request.
  destruct (classify_te (field_values n_transfer_encoding hs)); try discriminate;
    (destruct (spec_cookies hs) as [ck|]; [|discriminate]);
    (destruct (framing_spec method hs); [discriminate|]);
    intros [= <-]; cbn; repeat split; reflexivity.
Qed.

Lemma exposed_headers method hs r :
  values_fv hs = true -> request_of_head method hs = QOk r ->
  rq_headers r =
  filter (fun h => negb (eq_ic (fst h) n_content_type || eq_ic (fst h) n_expect ||
                         eq_ic (fst h) n_transfer_encoding)) hs.
Proof. intros Hfv Hr. exact (proj1 (proj2 (proj2 (proj2 (proj2 (accepted_request method hs r Hfv Hr)))))). Qed.

(* C14 at request level: the oracle of the correspondence check holds of the model, for every sent list *)
Lemma oracle_c14_req_model method hs r :
  values_fv hs = true -> request_of_head method hs = QOk r -> oracle_c14_req hs (rq_headers r) = true.
Proof.
  intros Hfv Hr. pose proof (accepted_request method hs r Hfv Hr) as H.
  destruct H as (_ & _ & _ & _ & He & _). unfold oracle_c14_req. rewrite He.
  apply andb_true_iff. split; [now apply hlist_beq_eq|].
  destruct (all_ascii hs) eqn:Ha; [|reflexivity]. cbn [negb orb].
  unfold spec_exposed. now apply all_ascii_filter.
Qed.

(* the classes of the quantifier, spelled out *)
Lemma repeated_cl_invalid v1 v2 r : classify_cl (v1 :: v2 :: r) = ClInvalid.
Proof. reflexivity. Qed.
Lemma repeated_te_invalid v1 v2 r : classify_te (v1 :: v2 :: r) = TeInvalid.
Proof. reflexivity. Qed.

Lemma cl_valid_iff v n :
  classify_cl [v] = ClValid n <->
  v <> [] /\ forallb is_digit v = true /\ digits_value v = n /\ n < 18446744073709551616.
Proof.
  unfold classify_cl, one_or_more_digits. split.
  - destruct v as [|c t]; [discriminate|]. destruct (forallb is_digit (c :: t)); [|discriminate].
    cbn [andb]. destruct (digits_value (c :: t) <? 18446744073709551616) eqn:E; [|discriminate].
    intros [= <-]. apply N.ltb_lt in E. repeat split; [discriminate|assumption].
  - intros (Hne & Hd & <- & Hlt). destruct v as [|c t]; [congruence|]. rewrite Hd. cbn [andb].
    apply N.ltb_lt in Hlt. now rewrite Hlt.
Qed.

Lemma cl_single_invalid_iff v :
  classify_cl [v] = ClInvalid <->
  v = [] \/ forallb is_digit v = false \/ 18446744073709551616 <= digits_value v.
Proof.
  unfold classify_cl, one_or_more_digits. destruct v as [|c t].
  - split; auto.
  - destruct (forallb is_digit (c :: t)); cbn [andb].
    + destruct (digits_value (c :: t) <? 18446744073709551616) eqn:E.
      * apply N.ltb_lt in E. split; [discriminate|]. intros [H|[H|H]]; [discriminate|discriminate|lia].
      * apply N.ltb_ge in E. split; auto.
    + split; auto.
Qed.

(* ------------------------------------------------------------------ stream level, current code *)
Section Fixed.
  Variable head : Type.
  Variable h_method : head -> bytes.
  Variable h_headers : head -> hlist.
  Variable read_head : bytes -> option (head * bytes).
  Variable small : N.

  Let step := msg_step head h_method h_headers read_head small true true.
  Let run := pipeline head h_method h_headers read_head small true true.

  (* one message: the outcome is the specification's, whatever the schedule and the buffer split *)
  Lemma msg_step_outcome h data rest buf stream split sched :
    buf ++ stream = data -> read_head data = Some (h, rest) -> values_fv (h_headers h) = true ->
    abs3 head (step buf stream split sched) =
    match spec_request (h_method h) (h_headers h) with
    | QErr e => (MErr h e, rest, false)
    | QOk r =>
        let '(br, lft, cont) := spec_body small (rq_chunked r) (rq_gzip r) (rq_body r) rest in
        (MReq h r br, lft, cont)
    end.
  Proof.
    intros Hd Hr Hfv. unfold step. rewrite msg_step_spec. unfold msg_spec. rewrite Hd, Hr.
    change (request_of_head_gen true true) with request_of_head.
    now rewrite (request_of_head_spec _ _ Hfv).
  Qed.

  Definition single_valid_length (hs : hlist) (n : N) : Prop :=
    classify_te (field_values n_transfer_encoding hs) = TeAbsent /\
    classify_cl (field_values n_content_length hs) = ClValid n.

  Definition expected_request (h : head) (n : N) : request :=
    let hs := h_headers h in
    mkRequest (h_method h) (spec_exposed hs)
              (match spec_cookies hs with Some ck => ck | None => [] end)
              (spec_ctype hs) (spec_expect hs) false false (Some n)
              (if n =? 0 then BodyEmpty else PendingKnown n).

  Lemma spec_request_length h n :
    single_valid_length (h_headers h) n -> spec_cookies (h_headers h) <> None ->
    spec_request (h_method h) (h_headers h) = QOk (expected_request h n).
  Proof.
    intros [Hte Hcl] Hck. unfold spec_request, expected_request, framing_spec, framing_spec_gen.
    rewrite Hte, Hcl. destruct (spec_cookies (h_headers h)); [reflexivity|congruence].
  Qed.

  (* body_exact *)
  Lemma body_exact h data rest n buf stream split sched :
    buf ++ stream = data -> read_head data = Some (h, rest) -> values_fv (h_headers h) = true ->
    spec_cookies (h_headers h) <> None ->
    single_valid_length (h_headers h) n -> 0 < n -> n <= small -> n <= nlen rest ->
    exists b s,
      step buf stream split sched = (MReq h (expected_request h n) (BrVec (ntake n rest)), (b, s), true) /\
      b ++ s = nskip n rest.
  Proof.
    intros Hd Hr Hfv Hck Hsv Hpos Hsmall Hlen.
    pose proof (msg_step_outcome h data rest buf stream split sched Hd Hr Hfv) as H.
    rewrite (spec_request_length h n Hsv Hck) in H.
    unfold expected_request in H at 1 2 3. cbn [rq_chunked rq_gzip rq_body] in H.
    assert (n =? 0 = false) as E0 by (apply N.eqb_neq; lia).
    unfold spec_body in H. rewrite E0 in H.
    assert (small <? n = false) as E1 by (apply N.ltb_ge; lia).
    assert (nlen rest <? n = false) as E2 by (apply N.ltb_ge; lia).
    rewrite E1, E2 in H. cbn [orb] in H.
    destruct (step buf stream split sched) as [[m [b s]] cont]. unfold abs3 in H. cbn [fst snd] in H.
    injection H as -> Hbs ->. exists b, s. split; [reflexivity|assumption].
  Qed.

  (* chunked / gzip: refused, nothing consumed *)
  Lemma coded_refused chunked gzip len buf stream sched :
    chunked || gzip = true ->
    read_body_to_vec chunked gzip len buf stream sched = (BrRefused, (buf, stream)).
  Proof. intros H. unfold read_body_to_vec. now rewrite H. Qed.

  Lemma coded_flags method hs r :
    values_fv hs = true -> request_of_head method hs = QOk r ->
    (rq_chunked r = match classify_te (field_values n_transfer_encoding hs) with
                    | TeChunked | TeGzipChunked => true | _ => false end) /\
    (rq_gzip r = match classify_te (field_values n_transfer_encoding hs) with
                 | TeGzip | TeGzipChunked => true | _ => false end).
  Proof.
    intros Hfv Hr. destruct (accepted_request method hs r Hfv Hr) as (Hf & _).
    unfold framing_spec, framing_spec_gen in Hf.
    destruct (classify_te (field_values n_transfer_encoding hs));
      destruct (classify_cl (field_values n_content_length hs)); try discriminate;
      injection Hf as <- <- _ _; split; reflexivity.
  Qed.

  (* a coded request that announces a body (anything but "gzip with Content-Length: 0") *)
  Lemma coded_message_refused h data rest buf stream split sched r :
    buf ++ stream = data -> read_head data = Some (h, rest) -> values_fv (h_headers h) = true ->
    request_of_head (h_method h) (h_headers h) = QOk r ->
    rq_chunked r || rq_gzip r = true -> rq_body r <> BodyEmpty ->
    exists b s br,
      step buf stream split sched = (MReq h r br, (b, s), false) /\ b ++ s = rest /\
      (br = BrRefused \/ br = BrDeferred).
  Proof.
    intros Hd Hr Hfv Hq Hc Hne.
    pose proof (msg_step_outcome h data rest buf stream split sched Hd Hr Hfv) as H.
    rewrite <- (request_of_head_spec _ _ Hfv), Hq in H. unfold spec_body in H. rewrite Hc in H.
    destruct (step buf stream split sched) as [[m [b s]] cont]. unfold abs3 in H. cbn [fst snd] in H.
    destruct (rq_body r) as [|n|]; [congruence| |].
    - destruct (small <? n); injection H as -> Hbs ->; exists b, s; eexists; repeat split; eauto.
    - injection H as -> Hbs ->. exists b, s. eexists; repeat split; eauto.
  Qed.

  (* no length, no coding *)
  Definition no_framing_fields (hs : hlist) : Prop :=
    classify_te (field_values n_transfer_encoding hs) = TeAbsent /\
    classify_cl (field_values n_content_length hs) = ClAbsent.

  Lemma spec_request_unframed h :
    no_framing_fields (h_headers h) -> spec_cookies (h_headers h) <> None ->
    exists r, spec_request (h_method h) (h_headers h) = QOk r /\
              rq_chunked r = false /\ rq_gzip r = false /\ rq_clen r = None /\
              rq_body r = (if method_has_default_body (h_method h) then PendingUnknown
                           else if spec_expect (h_headers h) then PendingUnknown else BodyEmpty).
  Proof.
    intros [Hte Hcl] Hck. unfold spec_request, framing_spec, framing_spec_gen. rewrite Hte, Hcl.
    destruct (spec_cookies (h_headers h)) as [ck|]; [|congruence].
    eexists. split; [reflexivity|]. cbn [rq_chunked rq_gzip rq_clen rq_body]. tauto.
  Qed.

  (* POST / PUT without framing fields: the body runs to the end of the stream *)
  Lemma unknown_length_to_eof h data rest buf stream split sched :
    buf ++ stream = data -> read_head data = Some (h, rest) -> values_fv (h_headers h) = true ->
    spec_cookies (h_headers h) <> None -> no_framing_fields (h_headers h) ->
    method_has_default_body (h_method h) = true ->
    exists r b s,
      step buf stream split sched = (MReq h r (BrVec rest), (b, s), false) /\ b ++ s = [] /\
      rq_body r = PendingUnknown /\ rq_clen r = None.
  Proof.
    intros Hd Hr Hfv Hck Hnf Hm.
    pose proof (msg_step_outcome h data rest buf stream split sched Hd Hr Hfv) as H.
    destruct (spec_request_unframed h Hnf Hck) as (r & Hq & Hch & Hgz & Hcl & Hb).
    rewrite Hm in Hb. rewrite Hq in H. unfold spec_body in H. rewrite Hb, Hch, Hgz in H. cbn [orb] in H.
    destruct (step buf stream split sched) as [[m [b s]] cont]. unfold abs3 in H. cbn [fst snd] in H.
    injection H as -> Hbs ->. exists r, b, s. repeat split; assumption.
  Qed.

  (* other methods without framing fields and without Expect: no body; the next byte starts the
     next request *)
  Lemma bodiless_empty h data rest buf stream split sched :
    buf ++ stream = data -> read_head data = Some (h, rest) -> values_fv (h_headers h) = true ->
    spec_cookies (h_headers h) <> None -> no_framing_fields (h_headers h) ->
    method_has_default_body (h_method h) = false -> spec_expect (h_headers h) = false ->
    exists r b s,
      step buf stream split sched = (MReq h r BrNone, (b, s), true) /\ b ++ s = rest /\
      rq_body r = BodyEmpty.
  Proof.
    intros Hd Hr Hfv Hck Hnf Hm Hex.
    pose proof (msg_step_outcome h data rest buf stream split sched Hd Hr Hfv) as H.
    destruct (spec_request_unframed h Hnf Hck) as (r & Hq & Hch & Hgz & Hcl & Hb).
    rewrite Hm, Hex in Hb. rewrite Hq in H. unfold spec_body in H. rewrite Hb in H.
    destruct (step buf stream split sched) as [[m [b s]] cont]. unfold abs3 in H. cbn [fst snd] in H.
    injection H as -> Hbs ->. exists r, b, s. repeat split; assumption.
  Qed.

  (* ---- request-smuggling freedom ---- *)
  Variable render_head : head -> bytes.
  Variable wf_head : head -> Prop.
  (* what C01 (consumes exactly the head) and C02 (parse o render = id on well-formed heads) prove
     for the concrete parser *)
  Hypothesis read_head_render :
    forall h rest, wf_head h -> read_head (render_head h ++ rest) = Some (h, rest).

  Definition message := (head * bytes)%type.
  Definition render (m : message) : bytes := render_head (fst m) ++ snd m.
  (* a well-formed Content-Length-framed message *)
  Definition cl_framed (m : message) : Prop :=
    wf_head (fst m) /\ values_fv (h_headers (fst m)) = true /\
    spec_cookies (h_headers (fst m)) <> None /\
    single_valid_length (h_headers (fst m)) (nlen (snd m)) /\ nlen (snd m) <= small.
  Definition expected (m : message) : msg_result head :=
    MReq (fst m) (expected_request (fst m) (nlen (snd m)))
         (match snd m with [] => BrNone | _ :: _ => BrVec (snd m) end).

  Lemma msg_spec_framed m tail :
    cl_framed m ->
    msg_spec head h_method h_headers read_head small true true (render m ++ tail) = (expected m, tail, true).
  Proof.
    intros (Hwf & Hfv & Hck & Hsv & Hsm). destruct m as [h body]. cbn [fst snd] in *.
    unfold msg_spec, render. cbn [fst snd]. rewrite <- app_assoc, (read_head_render h _ Hwf).
    change (request_of_head_gen true true) with request_of_head.
    rewrite (request_of_head_spec _ _ Hfv), (spec_request_length h _ Hsv Hck).
    unfold expected. cbn [fst snd]. unfold expected_request at 1 2 3. cbn [rq_chunked rq_gzip rq_body].
    unfold spec_body. destruct body as [|x t].
    - reflexivity.
    - assert (nlen (x :: t) =? 0 = false) as -> by (apply N.eqb_neq; unfold nlen; cbn [length]; lia).
      assert (small <? nlen (x :: t) = false) as -> by (apply N.ltb_ge; lia).
      assert (nlen ((x :: t) ++ tail) <? nlen (x :: t) = false) as ->
        by (apply N.ltb_ge; unfold nlen; rewrite app_length; lia).
      cbn [orb]. now rewrite ntake_app_len, nskip_app_len.
  Qed.

  Lemma pipeline_spec_roundtrip msgs : forall tail,
    Forall cl_framed msgs ->
    pipeline_spec head h_method h_headers read_head small true true (length msgs) (flat_map render msgs ++ tail)
    = (map expected msgs, tail).
  Proof.
    induction msgs as [|m t IH]; intros tail Hall; [reflexivity|].
    inversion Hall as [|? ? Hm Ht]; subst. cbn [length flat_map map pipeline_spec].
    rewrite <- app_assoc, (msg_spec_framed m _ Hm). now rewrite (IH tail Ht).
  Qed.

  Lemma pipeline_roundtrip msgs tail buf stream splits scheds :
    Forall cl_framed msgs -> buf ++ stream = flat_map render msgs ++ tail ->
    fst (run (length msgs) buf stream splits scheds) = map expected msgs /\
    fst (snd (run (length msgs) buf stream splits scheds)) ++
    snd (snd (run (length msgs) buf stream splits scheds)) = tail.
  Proof.
    intros Hall Hd.
    pose proof (pipeline_abs head h_method h_headers read_head small true true (length msgs)
                             buf stream splits scheds) as H.
    rewrite Hd, (pipeline_spec_roundtrip msgs tail Hall) in H. fold run in H.
    injection H as H1 H2. split; assumption.
  Qed.
End Fixed.

(* ------------------------------------------------------------------ the oracle is the theorem *)
Lemma pair_beq_eq a b : pair_beq a b = true <-> a = b.
Proof.
  destruct a as [a1 a2], b as [b1 b2]. unfold pair_beq. cbn [fst snd].
  rewrite andb_true_iff, !beq_eq. split; [intros [-> ->]; reflexivity|intros [= -> ->]; split; reflexivity].
Qed.
Lemma ctype_beq_refl c : ctype_beq c c = true.
Proof. destruct c; cbn [ctype_beq]; try reflexivity. apply beq_refl. Qed.
Lemma body_kind_beq_refl b : body_kind_beq b b = true.
Proof. destruct b; cbn [body_kind_beq]; try reflexivity. apply N.eqb_refl. Qed.
Lemma body_result_beq_refl b : body_result_beq b b = true.
Proof. destruct b; cbn [body_result_beq]; try reflexivity. apply beq_refl. Qed.

Lemma framing_matches_refl method hs chunked gzip clen body ck ct ex :
  framing_matches method hs chunked gzip clen body
    (mkRequest method (spec_exposed hs) ck ct ex chunked gzip clen body) = true.
Proof.
  unfold framing_matches. cbn [rq_method rq_headers rq_chunked rq_gzip rq_clen rq_body].
  rewrite beq_refl, !Bool.eqb_reflx, body_kind_beq_refl.
  assert (hlist_beq (spec_exposed hs) (spec_exposed hs) = true) as -> by (now apply hlist_beq_eq).
  assert (option_beq N.eqb clen clen = true) as -> by (destruct clen; cbn [option_beq]; [apply N.eqb_refl|reflexivity]).
  reflexivity.
Qed.

Lemma reject_indep eb eb' method hs :
  framing_spec_gen eb method hs = Reject -> framing_spec_gen eb' method hs = Reject.
Proof. intros H. apply reject_iff. now apply reject_iff in H. Qed.

Lemma spec_expect_has hs : spec_expect hs = true -> has_expect hs = true.
Proof. unfold spec_expect, has_expect. destruct (field_values n_expect hs); [discriminate|reflexivity]. Qed.

(* For every head as parsed, every stream behind it, every buffer split and read schedule, the
   observation the model makes satisfies the oracle that the correspondence check evaluates on
   the implementation's observations. *)
Lemma oracle_c03_model small (h : head_in) data rest buf stream split sched :
  buf ++ stream = data -> after_head data = Some rest -> values_fv (snd h) = true ->
  oracle_c03_msg small h rest
    (fst (fst (msg_step head_in fst snd (read_head_given (Some h)) small true true buf stream split sched)),
     fst (snd (fst (msg_step head_in fst snd (read_head_given (Some h)) small true true buf stream split sched))) ++
     snd (snd (fst (msg_step head_in fst snd (read_head_given (Some h)) small true true buf stream split sched))))
  = true.
Proof.
  intros Hd Hah Hfv.
  assert (read_head_given (Some h) data = Some (h, rest)) as Hr by (unfold read_head_given; now rewrite Hah).
  pose proof (msg_step_outcome head_in fst snd (read_head_given (Some h)) small h data rest buf stream split sched
                               Hd Hr Hfv) as H.
  destruct (msg_step head_in fst snd (read_head_given (Some h)) small true true buf stream split sched)
    as [[m [b s]] cont]. unfold abs3 in H. cbn [fst snd] in H. cbn [fst snd].
  unfold oracle_c03_msg. cbn [fst snd]. unfold spec_request, framing_spec in H.
  destruct (classify_te (field_values n_transfer_encoding (snd h))) eqn:Ete.
  5: { injection H as -> -> _. rewrite (te_invalid_rejects false _ _ Ete).
       cbn [andb]. apply beq_refl. }
  all: destruct (spec_cookies (snd h)) as [ck|] eqn:Eck;
    [|injection H as -> -> _; rewrite beq_refl; destruct (framing_spec_gen false (fst h) (snd h)); reflexivity].
  all: destruct (framing_spec_gen (spec_expect (snd h)) (fst h) (snd h)) as [|ch gz cl body] eqn:Ef;
    [injection H as -> -> _; rewrite (reject_indep _ false _ _ Ef); cbn [andb]; apply beq_refl|].
  all: destruct (spec_body small ch gz body rest) as [[br lft] cont'] eqn:Esb;
    cbn [rq_chunked rq_gzip rq_body] in H; rewrite Esb in H; injection H as -> -> _.
  all: destruct (spec_expect (snd h)) eqn:Eex;
    [ rewrite (spec_expect_has _ Eex), Ef; cbn [andb]; unfold oracle_accept at 2;
      rewrite framing_matches_refl, Esb, body_result_beq_refl, beq_refl; apply orb_true_r
    | rewrite Ef; unfold oracle_accept at 1;
      rewrite framing_matches_refl, Esb, body_result_beq_refl, beq_refl; reflexivity ].
Qed.

(* the derived fields do not depend on anything but the header list *)
Lemma derived_pure m1 m2 hs r1 r2 :
  values_fv hs = true -> request_of_head m1 hs = QOk r1 -> request_of_head m2 hs = QOk r2 ->
  rq_ctype r1 = rq_ctype r2 /\ rq_expect r1 = rq_expect r2 /\ rq_cookies r1 = rq_cookies r2.
Proof.
  intros Hfv H1 H2.
  destruct (accepted_request m1 hs r1 Hfv H1) as (_ & Hc1 & Ht1 & He1 & _).
  destruct (accepted_request m2 hs r2 Hfv H2) as (_ & Hc2 & Ht2 & He2 & _).
  rewrite Hc1 in Hc2. injection Hc2 as Hc2. repeat split; congruence.
Qed.

Lemma oracle_pure_model m1 m2 hs r1 r2 :
  values_fv hs = true -> request_of_head m1 hs = QOk r1 -> request_of_head m2 hs = QOk r2 ->
  oracle_pure hs hs r1 r2 = true.
Proof.
  intros Hfv H1 H2. destruct (derived_pure m1 m2 hs r1 r2 Hfv H1 H2) as (Ht & He & Hc).
  unfold oracle_pure, derived_beq. rewrite Ht, He, Hc, ctype_beq_refl, Bool.eqb_reflx.
  assert (list_beq pair_beq (rq_cookies r2) (rq_cookies r2) = true) as ->
    by (now apply (list_beq_eq pair_beq pair_beq_eq)).
  apply orb_true_r.
Qed.

(* ------------------------------------------------------------------ witnesses *)
Definition hn_cl : bytes := [67;111;110;116;101;110;116;45;76;101;110;103;116;104].  (* "Content-Length" *)
Definition hn_te : bytes := [84;114;97;110;115;102;101;114;45;69;110;99;111;100;105;110;103].  (* "Transfer-Encoding" *)
Definition m_GET : bytes := [71;69;84].
Definition v_26 : bytes := [50;54].
Definition v_5 : bytes := [53].
Definition v_6 : bytes := [54].
Definition v_plus5 : bytes := [43;53].
Definition v_0 : bytes := [48].
Definition v_1 : bytes := [49].
Definition v_005 : bytes := [48;48;53].
Definition v_max : bytes := [49;56;52;52;54;55;52;52;48;55;51;55;48;57;53;53;49;54;49;53].  (* 2^64-1 *)
Definition v_2_64 : bytes := [49;56;52;52;54;55;52;52;48;55;51;55;48;57;53;53;49;54;49;54].  (* 2^64 *)
Definition v_minus0 : bytes := [45;48].
Definition v_5sp5 : bytes := [53;32;53].
Definition v_abc : bytes := [97;98;99].
Definition v_gzip_chunked : bytes := [103;122;105;112;44;32;99;104;117;110;107;101;100].  (* "gzip, chunked" *)
Definition v_chunked_gzip : bytes := [99;104;117;110;107;101;100;44;32;103;122;105;112].  (* "chunked, gzip" *)
Definition v_identity : bytes := [105;100;101;110;116;105;116;121].
Definition v_empty_elems : bytes := [44;32;99;104;117;110;107;101;100;32;44].  (* ", chunked ," *)
Definition v_chunked_chunked : bytes := [99;104;117;110;107;101;100;44;32;99;104;117;110;107;101;100].
Definition v_Chunked : bytes := [67;104;117;110;107;101;100].
Definition hello : bytes := [104;101;108;108;111].

(* GET / HTTP/1.1 CRLF Content-Length: 26 CRLF Content-Length: 26 CRLF CRLF GET /smuggled HTTP/1.1 CRLF CRLF *)
Definition smuggled : bytes := [71;69;84;32;47;115;109;117;103;103;108;101;100;32;72;84;84;80;47;49;46;49;13;10;13;10].
Definition d3_stream : bytes := [71;69;84;32;47;32;72;84;84;80;47;49;46;49;13;10;67;111;110;116;101;110;116;45;76;101;110;103;116;104;58;32;50;54;13;10;67;111;110;116;101;110;116;45;76;101;110;103;116;104;58;32;50;54;13;10;13;10] ++ smuggled.
Definition d3_head : head_in := (m_GET, [(hn_cl, v_26); (hn_cl, v_26)]).
Definition smuggled_head : head_in := (m_GET, []).

(* D3: before the repair two Content-Length fields were "no Content-Length": the request is
   accepted with an empty body although the specification rejects it ... *)
Lemma prefix_d3_refuted :
  framing_spec (fst d3_head) (snd d3_head) = Reject /\
  (exists r, request_of_head_prefix (fst d3_head) (snd d3_head) = QOk r /\
             rq_clen r = None /\ rq_body r = BodyEmpty) /\
  request_of_head (fst d3_head) (snd d3_head) = QErr InvalidContentLength.
Proof. split; [reflexivity|]. split; [eexists; split; [reflexivity|split; reflexivity]|reflexivity]. Qed.

(* ... and the 26 body bytes are then read as a second request (request smuggling), whereas the
   repaired code reads one message and rejects it. *)
Lemma prefix_d3_smuggling :
  (exists r1 r2,
     run_given 65536 false false [Some d3_head; Some smuggled_head] [] d3_stream [] [] =
     [(MReq d3_head r1 BrNone, smuggled); (MReq smuggled_head r2 BrNone, [])]) /\
  run_given 65536 true true [Some d3_head; Some smuggled_head] [] d3_stream [] [] =
  [(MErr d3_head InvalidContentLength, smuggled)].
Proof. split; [eexists; eexists; vm_compute; reflexivity|vm_compute; reflexivity]. Qed.

(* D3, Transfer-Encoding: two fields were treated as absent *)
Lemma prefix_d3_te_refuted :
  let hs := [(hn_te, s_chunked); (hn_te, s_chunked)] in
  framing_spec m_GET hs = Reject /\
  (exists r, request_of_head_prefix m_GET hs = QOk r /\ rq_chunked r = false /\ rq_body r = BodyEmpty) /\
  request_of_head m_GET hs = QErr UnsupportedTransferEncoding.
Proof. split; [reflexivity|]. split; [eexists; split; [reflexivity|split; reflexivity]|reflexivity]. Qed.

(* D4: Content-Length: +5 was accepted as 5 *)
Lemma prefix_d4_refuted :
  let hs := [(hn_cl, v_plus5)] in
  framing_spec s_POST hs = Reject /\
  (exists r, request_of_head_gen true false s_POST hs = QOk r /\ rq_clen r = Some 5) /\
  (exists r, request_of_head_prefix s_POST hs = QOk r /\ rq_clen r = Some 5 /\ rq_body r = PendingKnown 5) /\
  request_of_head s_POST hs = QErr InvalidContentLength.
Proof.
  split; [reflexivity|]. split; [eexists; split; reflexivity|].
  split; [eexists; split; [reflexivity|split; reflexivity]|reflexivity].
Qed.

(* the Appendix-A boundary values, classified by the specification *)
Lemma cl_boundaries :
  classify_cl [] = ClAbsent /\ classify_cl [v_0] = ClValid 0 /\ classify_cl [v_1] = ClValid 1 /\
  classify_cl [v_005] = ClValid 5 /\
  classify_cl [v_max] = ClValid 18446744073709551615 /\ classify_cl [v_2_64] = ClInvalid /\
  classify_cl [v_plus5] = ClInvalid /\ classify_cl [v_minus0] = ClInvalid /\
  classify_cl [v_5sp5] = ClInvalid /\ classify_cl [[]] = ClInvalid /\ classify_cl [v_abc] = ClInvalid /\
  classify_cl [v_5; v_5] = ClInvalid /\ classify_cl [v_5; v_6] = ClInvalid.
Proof. repeat split; vm_compute; reflexivity. Qed.

Lemma te_boundaries :
  classify_te [] = TeAbsent /\ classify_te [s_chunked] = TeChunked /\ classify_te [s_gzip] = TeGzip /\
  classify_te [v_gzip_chunked] = TeGzipChunked /\ classify_te [v_chunked_gzip] = TeInvalid /\
  classify_te [v_identity] = TeInvalid /\ classify_te [v_Chunked] = TeInvalid /\
  classify_te [v_empty_elems] = TeChunked /\ classify_te [v_chunked_chunked] = TeInvalid /\
  classify_te [[]] = TeAbsent /\
  classify_te [s_chunked; s_chunked] = TeInvalid /\ classify_te [s_gzip; s_chunked] = TeInvalid.
Proof. repeat split; vm_compute; reflexivity. Qed.

(* ------------------------------------------------------------------ the cookie map, observationally *)
Fixpoint cookie_get (k : bytes) (m : cookie_map) : option bytes :=
  match m with
  | [] => None
  | (k', v) :: t => if beq k k' then Some v else cookie_get k t
  end.

Lemma bcompare_eq a b : bcompare a b = Eq <-> a = b.
Proof.
  revert b; induction a as [|x a IH]; intros [|y b]; cbn [bcompare]; split; try discriminate; try reflexivity.
  - destruct (x ?= y) eqn:E; try discriminate. apply N.compare_eq_iff in E. subst y.
    intros H. f_equal. now apply IH.
  - intros [= -> ->]. rewrite N.compare_refl. now apply IH.
Qed.

Lemma cookie_get_insert k k' v m :
  cookie_get k (cookie_insert k' v m) = if beq k k' then Some v else cookie_get k m.
Proof.
  induction m as [|[k2 v2] t IH]; cbn [cookie_insert cookie_get]; [reflexivity|].
  destruct (bcompare k' k2) eqn:E; cbn [cookie_get].
  - apply bcompare_eq in E. subst k2. destruct (beq k k'); reflexivity.
  - reflexivity.
  - rewrite IH. destruct (beq k k2) eqn:E2; [|reflexivity]. destruct (beq k k') eqn:E1; [|reflexivity].
    apply beq_eq in E1. apply beq_eq in E2. subst k' k2.
    assert (bcompare k k = Eq) as E' by (now apply bcompare_eq). congruence.
Qed.

(* the value of the last pair named k, if any *)
Definition last_value (k : bytes) (pairs : list (bytes * bytes)) (init : option bytes) : option bytes :=
  fold_left (fun acc p => if beq k (fst p) then Some (snd p) else acc) pairs init.

Lemma cookie_get_fold k pairs : forall m,
  cookie_get k (fold_left ins pairs m) = last_value k pairs (cookie_get k m).
Proof.
  unfold last_value. induction pairs as [|p t IH]; intros m; cbn [fold_left]; [reflexivity|].
  rewrite IH. unfold ins at 1. now rewrite cookie_get_insert.
Qed.

(* cookies handed to the handler: looking a name up gives the value of the LAST name=value pair
   with that name among the pairs of all Cookie fields, in the order sent *)
Lemma cookies_lookup method hs r :
  values_fv hs = true -> request_of_head method hs = QOk r ->
  exists pairs, cookie_pairs hs = Some pairs /\
                forall k, cookie_get k (rq_cookies r) = last_value k pairs None.
Proof.
  intros Hfv Hr. destruct (accepted_request method hs r Hfv Hr) as (_ & Hc & _).
  unfold spec_cookies in Hc. destruct (cookie_pairs hs) as [pairs|]; [|discriminate].
  injection Hc as Hc. exists pairs. split; [reflexivity|]. intros k. rewrite <- Hc.
  change (fun m p => cookie_insert (fst p) (snd p) m) with ins. apply cookie_get_fold.
Qed.
