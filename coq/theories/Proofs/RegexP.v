(* Proofs/RegexP.v -- facts about the regex denotation of Base/Regex.v: inversion lemmas and the
   characterisation of the languages of the shapes that occur in src/head.rs. *)
From Coq Require Import List NArith Bool Lia.
From SV Require Import Base.Regex.
Import ListNotations.
Open Scope N_scope.

Lemma lang_seq a b s : lang (RSeq a b) s <-> exists s1 s2, s = s1 ++ s2 /\ lang a s1 /\ lang b s2.
Proof.
  split.
  - intros H. inversion H; subst. eauto.
  - intros (s1 & s2 & -> & H1 & H2). now constructor.
Qed.

Lemma lang_group a s : lang (RGroup a) s <-> lang a s.
Proof. split; intros H; [inversion H; subst; assumption | now constructor]. Qed.

Lemma lang_char c s : lang (RChar c) s <-> s = [c].
Proof. split; intros H; [inversion H; subst; reflexivity | subst; constructor]. Qed.

Lemma lang_class neg rs s : lang (RClass neg rs) s <-> exists b, s = [b] /\ class_mem neg rs b = true.
Proof.
  split; intros H.
  - inversion H; subst. eauto.
  - destruct H as (b & -> & Hb). now constructor.
Qed.

Lemma lang_star_class neg rs s :
  lang (RStar (RClass neg rs)) s <-> forallb (class_mem neg rs) s = true.
Proof.
  split.
  - intros H. remember (RStar (RClass neg rs)) as r eqn:Er.
    induction H as [ | | | | | a0 | a0 s0 t0 Ha IHa Hst IHst | | ]; try discriminate.
    + reflexivity.
    + injection Er as ->. apply lang_class in Ha as (b & -> & Hb).
      cbn [app forallb]. rewrite Hb. cbn [andb]. now apply IHst.
  - induction s as [|b s IH]; intros H.
    + constructor.
    + cbn [forallb] in H. apply andb_true_iff in H as [Hb Hs].
      change (b :: s) with ([b] ++ s). constructor; [now constructor | now apply IH].
Qed.

Lemma lang_plus_class neg rs s :
  lang (RPlus (RClass neg rs)) s <-> s <> [] /\ forallb (class_mem neg rs) s = true.
Proof.
  split.
  - intros H. inversion H as [ | | | | | | | a0 s0 t0 Ha Hst | ]; subst.
    apply lang_class in Ha as (b & -> & Hb).
    apply lang_star_class in Hst. split; [discriminate|]. cbn [app forallb]. now rewrite Hb.
  - intros [Hne H]. destruct s as [|b s]; [congruence|].
    cbn [forallb] in H. apply andb_true_iff in H as [Hb Hs].
    change (b :: s) with ([b] ++ s). constructor; [now constructor | now apply lang_star_class].
Qed.

Lemma lang_star_any s : lang (RStar RAny) s.
Proof.
  induction s as [|b s IH]; [constructor|].
  change (b :: s) with ([b] ++ s). constructor; [constructor | exact IH].
Qed.

(* ranges that stay below a bound exclude everything from the bound on *)
Lemma in_ranges_above rs bound b :
  forallb (fun r => snd r <? bound) rs = true -> bound <= b -> in_ranges rs b = false.
Proof.
  intros H Hb. unfold in_ranges. induction rs as [|r rs IH]; [reflexivity|].
  cbn [forallb existsb] in *. apply andb_true_iff in H as [Hr Hrs]. apply N.ltb_lt in Hr.
  rewrite (IH Hrs). replace (b <=? snd r) with false by (symmetry; apply N.leb_gt; lia).
  now rewrite andb_false_r.
Qed.

(* two byte predicates that agree below 128 (finite sweep) and are both constant from 128 on agree everywhere *)
Lemma pred_eq_by_sweep (p q : N -> bool) (hi : bool) :
  forallb (fun n => Bool.eqb (p (N.of_nat n)) (q (N.of_nat n))) (seq 0 128) = true ->
  (forall b, 128 <= b -> p b = hi) -> (forall b, 128 <= b -> q b = hi) ->
  forall b, p b = q b.
Proof.
  intros Hs Hp Hq b. destruct (N.lt_ge_cases b 128) as [Hlt|Hge].
  - rewrite forallb_forall in Hs. specialize (Hs (N.to_nat b)).
    rewrite N2Nat.id in Hs. apply Bool.eqb_prop. apply Hs. apply in_seq. lia.
  - now rewrite Hp, Hq.
Qed.
