(* Proofs/ServerP.v -- properties of handle_http_conn_once / handle_http_conn (Model/Server.v), for
   EVERY request reader, response writer and handler (Section variables). *)
From Coq Require Import ZArith.
From SV Require Import Base.Bytes Base.IO Model.Conn Spec.ConnSpec Proofs.ConnP Model.Server.
Ltac Zify.zify_post_hook ::= Z.div_mod_to_equations.

Section P.
Variable payload : Type.
Variable resp : Type.
Variable read_req : cin -> (herr + (payload * reqmeta)) * cin.
Variable resp_code : resp -> N.
Variable write_out : resp -> bool -> option herr * bytes.
Variable resp_continue : resp.
Variable fix16 : bool.
Variable error_response : herr -> resp.
Variable handler : payload -> bview -> hres resp.
Variable small_body_len : N.
Variable cache_dir : option bool.
Variable revoked : nat -> bool.

(* the code in /repo now: fix5 = true *)
Notation once := (handle_once payload resp read_req resp_code write_out resp_continue fix16 handler true small_body_len cache_dir).
Notation once_prefix := (handle_once payload resp read_req resp_code write_out resp_continue fix16 handler false small_body_len cache_dir).
Notation loop := (conn_loop payload resp read_req resp_code write_out resp_continue fix16 error_response handler true small_body_len cache_dir revoked).
Notation fin := (finish payload resp resp_code write_out).
Notation pend := (pending payload resp resp_code write_out resp_continue fix16 handler true cache_dir).

Lemma finish_log c log files a : oo_log _ _ (fin c log files a) = log /\ oo_files _ _ (fin c log files a) = files.
Proof.
  unfold finish. destruct a as [r| |m]; try (split; reflexivity).
  destruct (is_4xx_5xx (resp_code r)); destruct (write_response resp resp_code write_out c r); split; reflexivity.
Qed.

(* ---- C04 / C09: how often the handler runs, and with what ---- *)
Inductive log_shape : list (invocation payload resp) -> Prop :=
| ls_none : log_shape []                                     (* request or small body could not be read *)
| ls_one i : log_shape [i]
| ls_two p v m b a2 :                                         (* asked for the body, got it in a file *)
    log_shape [mk_inv _ _ p v (HGetBody _ m); mk_inv _ _ p (BV_File b) a2].

Lemma pending_shape p v c1 : log_shape (oo_log _ _ (pend p v c1)).
Proof.
  unfold pending. destruct (handler p v) as [r| |m] eqn:Ha.
  - destruct (finish_log c1 [mk_inv _ _ p v (HNormal _ r)] [] (HNormal _ r)) as [-> _]. constructor.
  - constructor.
  - destruct cache_dir as [d|]; [|constructor].
    destruct (read_body_to_file resp resp_code write_out resp_continue fix16 c1 d m) as [[e|b|b] c2]; try constructor.
    destruct (finish_log c2 ([mk_inv _ _ p v (HGetBody _ m)] ++ [mk_inv _ _ p (BV_File b) (handler p (BV_File b))])
                [FCreate; FHandOver; FDropWithRequest] (handler p (BV_File b))) as [-> _].
    cbn [app]. constructor.
Qed.

(* the handler runs once per request, or exactly twice when its first answer was "fetch the body"
   and the body was fetched; never more; never twice for any other reason *)
Lemma once_log_shape c : log_shape (oo_log _ _ (once c)).
Proof.
  unfold handle_once. destruct (read_request payload read_req c) as [[e|p] c1]; [constructor|].
  destruct (c_rs c1) as [|[len|] ex ch gz|].
  - destruct (finish_log c1 [mk_inv _ _ p BV_Empty (handler p BV_Empty)] [] (handler p BV_Empty)) as [-> _]. constructor.
  - destruct (len <=? small_body_len).
    + destruct (read_body_to_vec resp resp_code write_out resp_continue fix16 c1) as [[e|b|b] c2]; try constructor.
      destruct (finish_log c2 [mk_inv _ _ p (BV_Mem b) (handler p (BV_Mem b))] [] (handler p (BV_Mem b))) as [-> _]. constructor.
    + apply pending_shape.
  - apply pending_shape.
  - destruct (finish_log c1 [mk_inv _ _ p BV_Empty (handler p BV_Empty)] [] (handler p BV_Empty)) as [-> _]. constructor.
Qed.

(* the code before the repair of D5 ran the handler twice on a direct answer *)
(* (refutation with a concrete instance is at the end of this file) *)

(* ---- C09: which view the handler gets ---- *)
(* a declared body of at most small_body_len bytes is read to memory WITHOUT asking, and the single
   handler run sees exactly the next L bytes of the input *)
Lemma small_body_in_memory c p c1 L ex :
  read_request payload read_req c = (inr p, c1) ->
  c_rs c1 = RS_Body (Some L) ex false false -> L <= small_body_len ->
  (ex = true -> c_ws c1 = WS_Response /\ fst (write_out resp_continue false) = None) ->
  L <= N.of_nat (length (cin_avail (c_in c1))) ->
  resp_code resp_continue = 100 ->
  oo_log _ _ (once c) =
    [mk_inv _ _ p (BV_Mem (firstn (N.to_nat L) (cin_avail (c_in c1))))
            (handler p (BV_Mem (firstn (N.to_nat L) (cin_avail (c_in c1)))))].
Proof.
  intros Hr Hrs HL Hex Hav Hcc. unfold handle_once. rewrite Hr, Hrs.
  apply N.leb_le in HL. rewrite HL.
  unfold read_body_to_vec. rewrite Hrs. cbn [orb].
  unfold maybe_continue. destruct ex.
  - destruct (Hex eq_refl) as [Hw Hwo]. unfold write_http_continue, write_response. rewrite Hw, Hcc.
    change (is_5xx_close 100) with false. change (is_1xx 100) with true.
    destruct (write_out resp_continue false) as [wr acc]. cbn [fst] in Hwo. subst wr.
    cbn [c_in]. unfold read_exact. apply N.leb_le in Hav. rewrite Hav.
    match goal with |- oo_log _ _ (fin ?c ?l ?f ?a) = _ => destruct (finish_log c l f a) as [-> _] end. reflexivity.
  - unfold read_exact. apply N.leb_le in Hav. rewrite Hav.
    match goal with |- oo_log _ _ (fin ?c ?l ?f ?a) = _ => destruct (finish_log c l f a) as [-> _] end. reflexivity.
Qed.

(* a larger or undeclared-length body is handed over only after the handler asked: the first run
   always sees the pending view *)
Lemma large_asks_first c p c1 len ex ch gz :
  read_request payload read_req c = (inr p, c1) ->
  c_rs c1 = RS_Body len ex ch gz ->
  match len with Some L => small_body_len < L | None => True end ->
  exists rest, oo_log _ _ (once c) =
    mk_inv _ _ p (match len with Some L => BV_PendingKnown L | None => BV_PendingUnknown end)
           (handler p (match len with Some L => BV_PendingKnown L | None => BV_PendingUnknown end)) :: rest.
Proof.
  intros Hr Hrs Hlen. unfold handle_once. rewrite Hr, Hrs.
  assert (forall v, exists rest, oo_log _ _ (pend p v c1) = mk_inv _ _ p v (handler p v) :: rest) as Hp.
  { intros v. unfold pending. destruct (handler p v) as [r| |m] eqn:Ha.
    - match goal with |- context [fin ?c ?l ?f ?a] => destruct (finish_log c l f a) as [-> _] end. now exists [].
    - now exists [].
    - destruct cache_dir as [d|]; [|now exists []].
      destruct (read_body_to_file resp resp_code write_out resp_continue fix16 c1 d m) as [[e|b|b] c2]; try (now exists []).
      match goal with |- context [fin ?c ?l ?f ?a] => destruct (finish_log c l f a) as [-> _] end.
      cbn [app]. eexists. reflexivity. }
  destruct len as [L|]; [|apply Hp].
  apply N.leb_gt in Hlen. rewrite Hlen. apply Hp.
Qed.

(* after "fetch the body (M)": a declared length L > M is refused before anything is read or
   created (BodyTooLong => 413 by the loop), and there is no second handler run *)
Lemma over_limit_refused_single_run p L M ex c1 d :
  c_rs c1 = RS_Body (Some L) ex false false -> M < L -> cache_dir = Some d ->
  handler p (BV_PendingKnown L) = HGetBody _ M ->
  let o := pend p (BV_PendingKnown L) c1 in
  oo_res _ _ o = Some BodyTooLong /\ oo_conn _ _ o = c1 /\
  oo_log _ _ o = [mk_inv _ _ p (BV_PendingKnown L) (HGetBody _ M)] /\ oo_files _ _ o = [].
Proof.
  intros Hrs HML Hcd Ha. unfold pending. rewrite Ha, Hcd. unfold read_body_to_file. rewrite Hrs. cbn [orb].
  apply N.ltb_lt in HML. rewrite HML. cbn. rewrite Hrs. repeat split.
Qed.

(* ... and L <= M is accepted: the second run sees exactly the next L bytes *)
Lemma within_limit_accepted p L M c1 :
  c_rs c1 = RS_Body (Some L) false false false -> L <= M -> cache_dir = Some true ->
  handler p (BV_PendingKnown L) = HGetBody _ M ->
  L <= N.of_nat (length (cin_avail (c_in c1))) ->
  let body := firstn (N.to_nat L) (cin_avail (c_in c1)) in
  oo_log _ _ (pend p (BV_PendingKnown L) c1) =
    [mk_inv _ _ p (BV_PendingKnown L) (HGetBody _ M); mk_inv _ _ p (BV_File body) (handler p (BV_File body))].
Proof.
  intros Hrs HLM Hcd Ha Hav. unfold pending. rewrite Ha, Hcd. unfold read_body_to_file. rewrite Hrs. cbn [orb].
  assert (M <? L = false) as -> by (apply N.ltb_ge; lia).
  unfold maybe_continue. cbn [negb]. unfold read_exact. apply N.leb_le in Hav. rewrite Hav.
  match goal with |- context [fin ?c ?l ?f ?a] => destruct (finish_log c l f a) as [-> _] end. reflexivity.
Qed.

(* undeclared length: accepted iff the actual length A (bytes until end of stream) is <= M, and
   never more than M+1 bytes are copied to disk *)
Lemma unknown_length_limit c1 d M :
  c_rs c1 = RS_Body None false false false ->
  let A := N.of_nat (length (cin_avail (c_in c1))) in
  let r := fst (read_body_to_file resp resp_code write_out resp_continue fix16 c1 d M) in
  d = true -> in_err (ci_in (c_in c1)) = false -> M < u64_max ->
  (A <= M -> r = BR_File (cin_avail (c_in c1))) /\ (M < A -> r = BR_Err BodyTooLong).
Proof.
  intros Hrs A r Hd He HM. subst r. unfold read_body_to_file. rewrite Hrs. cbn [orb]. unfold maybe_continue.
  subst d. cbn [negb]. unfold copy_unknown. rewrite He, andb_false_r. unfold sat_succ.
  assert (M =? u64_max = false) as -> by (apply N.eqb_neq; lia).
  fold A. split; intros H.
  - assert (N.min (M + 1) A = A) as -> by lia.
    assert (M <? A = false) as -> by (apply N.ltb_ge; lia). cbn [fst]. subst A. rewrite Nat2N.id. now rewrite firstn_all.
  - assert (M <? N.min (M + 1) A = true) as -> by (apply N.ltb_lt; lia). reflexivity.
Qed.

(* the largest limit: everything is accepted, nothing overflows (repair of D7) *)
Lemma unknown_length_max_limit c1 :
  c_rs c1 = RS_Body None false false false -> in_err (ci_in (c_in c1)) = false ->
  N.of_nat (length (cin_avail (c_in c1))) <= u64_max ->
  fst (read_body_to_file resp resp_code write_out resp_continue fix16 c1 true u64_max) = BR_File (cin_avail (c_in c1)).
Proof.
  intros Hrs He Hlen. unfold read_body_to_file. rewrite Hrs. cbn [orb negb]. unfold maybe_continue, copy_unknown.
  rewrite He, andb_false_r. unfold sat_succ. rewrite N.eqb_refl.
  assert (N.min u64_max (N.of_nat (length (cin_avail (c_in c1)))) = N.of_nat (length (cin_avail (c_in c1)))) as -> by lia.
  assert (u64_max <? N.of_nat (length (cin_avail (c_in c1))) = false) as -> by (apply N.ltb_ge; lia).
  cbn [fst]. rewrite Nat2N.id. now rewrite firstn_all.
Qed.

(* bytes written to disk never exceed min(available, M+1) *)
Lemma disk_bound c1 d M b :
  fst (read_body_to_file resp resp_code write_out resp_continue fix16 c1 d M) = BR_File b ->
  N.of_nat (length b) <= M.
Proof.
  unfold read_body_to_file. destruct (c_rs c1) as [|[L|] ex ch gz|]; try discriminate.
  - destruct (ch || gz); [discriminate|]. destruct (M <? L) eqn:E; [discriminate|]. apply N.ltb_ge in E.
    destruct (maybe_continue resp resp_code write_out resp_continue ex c1) as [[e|] c2]; [discriminate|].
    destruct (negb d); [discriminate|]. unfold read_exact.
    destruct (L <=? N.of_nat (length (cin_avail (c_in c2)))) eqn:E2; [|discriminate]. cbn [fst]. intros [= <-].
    rewrite firstn_length. lia.
  - destruct (ch || gz); [discriminate|].
    destruct (maybe_continue resp resp_code write_out resp_continue ex c1) as [[e|] c2]; [discriminate|].
    destruct (negb d); [discriminate|]. unfold copy_unknown.
    match goal with |- context [if ?a then _ else _] => destruct a end; [discriminate|].
    destruct (M <? N.min (sat_succ M) (N.of_nat (length (cin_avail (c_in c2))))) eqn:E; [discriminate|].
    apply N.ltb_ge in E. cbn [fst]. intros [= <-]. rewrite firstn_length. lia.
Qed.

(* bytes held in memory never exceed small_body_len: the only in-memory body read of the server
   path happens under the guard len <= small_body_len and returns exactly len bytes *)
Lemma memory_bound c p b a :
  In (mk_inv _ _ p (BV_Mem b) a) (oo_log _ _ (once c)) -> N.of_nat (length b) <= small_body_len.
Proof.
  unfold handle_once. destruct (read_request payload read_req c) as [[e|p'] c1]; [intros []|].
  assert (forall v, match v with BV_Mem _ => False | _ => True end ->
                    ~ In (mk_inv _ _ p (BV_Mem b) a) (oo_log _ _ (pend p' v c1))) as Hp.
  { intros v Hv. destruct v; try contradiction; intros Hin;
    (unfold pending in Hin;
     match type of Hin with context [handler ?x ?y] => destruct (handler x y) as [r| |m] end;
     [ match type of Hin with context [fin ?c ?l ?f ?aa] => destruct (finish_log c l f aa) as [Hl _]; rewrite Hl in Hin end;
       destruct Hin as [H|[]]; discriminate
     | destruct Hin as [H|[]]; discriminate
     | destruct cache_dir as [d|]; [|destruct Hin as [H|[]]; discriminate];
       match type of Hin with context [read_body_to_file ?a1 ?a2 ?a3 ?a4 ?a5 ?a6 ?a7 ?a8] =>
         destruct (read_body_to_file a1 a2 a3 a4 a5 a6 a7 a8) as [[e|b'|b'] c2] end;
       try (destruct Hin as [H|[]]; discriminate);
       match type of Hin with context [fin ?c ?l ?f ?aa] => destruct (finish_log c l f aa) as [Hl _]; rewrite Hl in Hin end;
       destruct Hin as [H|[H|[]]]; discriminate ]). }
  destruct (c_rs c1) as [|[len|] ex ch gz|] eqn:Hrs.
  - match goal with |- context [fin ?c ?l ?f ?aa] => destruct (finish_log c l f aa) as [-> _] end.
    intros [H|[]]; discriminate.
  - destruct (len <=? small_body_len) eqn:El.
    + apply N.leb_le in El. unfold read_body_to_vec. rewrite Hrs.
      destruct (ch || gz); [intros []|].
      destruct (maybe_continue resp resp_code write_out resp_continue ex c1) as [[e|] c2]; [intros []|].
      unfold read_exact. destruct (len <=? N.of_nat (length (cin_avail (c_in c2)))) eqn:E2; [|intros []].
      match goal with |- context [fin ?c ?l ?f ?aa] => destruct (finish_log c l f aa) as [-> _] end.
      intros [H|[]]. injection H as _ Hb _. subst b. rewrite firstn_length. lia.
    + intros Hin. exact (False_ind _ (Hp (BV_PendingKnown len) I Hin)).
  - intros Hin. exact (False_ind _ (Hp BV_PendingUnknown I Hin)).
  - match goal with |- context [fin ?c ?l ?f ?aa] => destruct (finish_log c l f aa) as [-> _] end.
    intros [H|[]]; discriminate.
Qed.


(* ---- C04: what is sent is the handler's answer, nothing else ---- *)
Lemma finish_normal_wire c log files r : c_ws c = WS_Response ->
  c_wire (oo_conn _ _ (fin c log files (HNormal _ r))) = c_wire c ++ snd (write_out r (is_5xx_close (resp_code r))).
Proof.
  intros Hw. unfold finish.
  pose proof (wresp_wire resp resp_code write_out c r Hw) as H.
  destruct (is_4xx_5xx (resp_code r)); destruct (write_response resp resp_code write_out c r) as [x c']; exact H.
Qed.
Lemma finish_drop_silent c log files :
  oo_conn _ _ (fin c log files (HDrop _)) = c /\ oo_res _ _ (fin c log files (HDrop _)) = Some Disconnected.
Proof. split; reflexivity. Qed.
(* a 4xx / 5xx answer (a handler panic is the answer 500 "Server error") is written and closes *)
Lemma finish_error_status_closes c log files r : is_4xx_5xx (resp_code r) = true ->
  oo_res _ _ (fin c log files (HNormal _ r)) = Some Disconnected.
Proof.
  intros H. unfold finish. rewrite H. destruct (write_response resp resp_code write_out c r). reflexivity.
Qed.

(* ---- C10: temp-file events of one request are balanced ---- *)
Definition balanced (l : list fevent) : bool :=
  match l with
  | [] => true
  | [FCreate; FDropInReader] => true
  | [FCreate; FHandOver; FDropWithRequest] => true
  | _ => false
  end.

Lemma once_files_balanced c : balanced (oo_files _ _ (once c)) = true.
Proof.
  assert (forall p v c1, balanced (oo_files _ _ (pend p v c1)) = true) as Hp.
  { intros p v c1. unfold pending. destruct (handler p v) as [r| |m].
    - match goal with |- context [fin ?c ?l ?f ?aa] => destruct (finish_log c l f aa) as [_ ->] end. reflexivity.
    - reflexivity.
    - destruct cache_dir as [d|]; [|reflexivity].
      destruct (read_body_to_file resp resp_code write_out resp_continue fix16 c1 d m) as [[e|b|b] c2]; try reflexivity.
      + unfold file_events. destruct e; try reflexivity; [destruct (c_rs c1) as [|[n|] ? ? ?|]; try reflexivity|]; destruct d; reflexivity.
      + match goal with |- context [fin ?c ?l ?f ?aa] => destruct (finish_log c l f aa) as [_ ->] end. reflexivity. }
  unfold handle_once. destruct (read_request payload read_req c) as [[e|p] c1]; [reflexivity|].
  destruct (c_rs c1) as [|[len|] ex ch gz|].
  - match goal with |- context [fin ?c ?l ?f ?aa] => destruct (finish_log c l f aa) as [_ ->] end. reflexivity.
  - destruct (len <=? small_body_len); [|apply Hp].
    destruct (read_body_to_vec resp resp_code write_out resp_continue fix16 c1) as [[e|b|b] c2]; try reflexivity.
    match goal with |- context [fin ?c ?l ?f ?aa] => destruct (finish_log c l f aa) as [_ ->] end. reflexivity.
  - apply Hp.
  - match goal with |- context [fin ?c ?l ?f ?aa] => destruct (finish_log c l f aa) as [_ ->] end. reflexivity.
Qed.

(* number of temp files alive after a list of events *)
Fixpoint live (l : list fevent) (n : nat) : nat :=
  match l with
  | [] => n
  | FCreate :: t => live t (S n)
  | FDropInReader :: t | FDropWithRequest :: t => live t (pred n)
  | FHandOver :: t => live t n
  end.
Lemma balanced_live l n : balanced l = true -> live l n = n.
Proof.
  destruct l as [|[| | |] [|[| | |] [|[| | |] [|? ?]]]]; cbn; try discriminate; reflexivity.
Qed.
Lemma live_app a b n : live (a ++ b) n = live b (live a n).
Proof. revert n; induction a as [|[| | |] a IH]; intros n; cbn; auto. Qed.

(* after the connection loop ends -- however it ends -- no temp file created for it is alive *)
Lemma loop_no_live_file fuel : forall k c log files n,
  live files n = n -> live (lo_files _ _ (loop fuel k c log files)) n = n.
Proof.
  induction fuel as [|f IH]; intros k c log files n Hf; cbn [conn_loop]; [exact Hf|].
  destruct (revoked k); [exact Hf|]. destruct (negb (is_ready c)); [exact Hf|].
  assert (live (files ++ oo_files _ _ (once c)) n = n) as Hf'
    by (rewrite live_app, Hf; apply balanced_live, once_files_balanced).
  destruct (oo_res _ _ (once c)) as [e|].
  - destruct e; try exact Hf';
      destruct (write_response resp resp_code write_out (oo_conn _ _ (once c)) (error_response _)); exact Hf'.
  - apply IH. exact Hf'.
Qed.

(* ---- C04: after a closing event nothing more is read or run ---- *)
Definition closing (o : once_out payload resp) : bool :=
  match oo_res _ _ o with Some _ => true | None => negb (is_ready (oo_conn _ _ o)) end.

Lemma wr_response_in c r : c_in (snd (write_response resp resp_code write_out c r)) = c_in c.
Proof.
  unfold write_response. destruct (c_ws c); try reflexivity.
  destruct (write_out r (is_5xx_close (resp_code r))) as [wr acc].
  destruct wr; [destruct acc|destruct (is_1xx (resp_code r)), (is_5xx_close (resp_code r))]; reflexivity.
Qed.

Lemma loop_stops_after_closing f k c log files :
  revoked k = false -> is_ready c = true -> closing (once c) = true ->
  let out := loop (S (S f)) k c log files in
  lo_log _ _ out = log ++ oo_log _ _ (once c) /\ lo_iters _ _ out = S k /\ lo_out_of_fuel _ _ out = false /\
  c_in (lo_conn _ _ out) = c_in (oo_conn _ _ (once c)).
Proof.
  intros Hrv Hrd Hcl. cbn [conn_loop]. rewrite Hrv, Hrd. cbn [negb]. unfold closing in Hcl.
  destruct (oo_res _ _ (once c)) as [e|].
  - assert (forall e', let '(_, c') := write_response resp resp_code write_out (oo_conn _ _ (once c)) (error_response e') in
                       c_in (shutdown_write c') = c_in (oo_conn _ _ (once c))) as Hw.
    { intros e'. pose proof (wr_response_in (oo_conn _ _ (once c)) (error_response e')) as H.
      destruct (write_response resp resp_code write_out (oo_conn _ _ (once c)) (error_response e')) as [x c']. exact H. }
    destruct e; try (repeat split; reflexivity);
      match goal with |- context [error_response ?e'] => specialize (Hw e') end;
      destruct (write_response resp resp_code write_out (oo_conn _ _ (once c)) (error_response _)) as [x c'];
      repeat split; exact Hw.
  - rewrite Hcl. destruct (revoked (S k)); cbn [lo_log lo_iters lo_out_of_fuel lo_conn]; repeat split; reflexivity.
Qed.

(* ---- termination: the loop never runs out of fuel when each successfully read request consumed
        at least one byte of input ---- *)
Hypothesis read_req_progress :
  forall i x i', read_req i = (inr x, i') -> (length (cin_avail i') < length (cin_avail i))%nat.
Hypothesis continue_code : resp_code resp_continue = 100.

Lemma consume_le k i : (length (cin_avail (cin_consume k i)) <= length (cin_avail i))%nat.
Proof.
  unfold cin_consume, cin_avail. destruct (k <=? length (ci_buf i))%nat; cbn [ci_buf ci_in in_bytes];
    rewrite !app_length, ?skipn_length; cbn [length]; lia.
Qed.

Lemma vec_in_le c : (length (cin_avail (c_in (snd (read_body_to_vec resp resp_code write_out resp_continue fix16 c)))) <= length (cin_avail (c_in c)))%nat.
Proof.
  unfold read_body_to_vec. destruct (c_rs c) as [|l ex ch gz|]; try (cbn [snd]; lia).
  destruct (ch || gz); [cbn [snd]; lia|].
  assert (c_in (snd (maybe_continue resp resp_code write_out resp_continue ex c)) = c_in c) as Hm.
  { unfold maybe_continue. destruct ex; [|reflexivity]. unfold write_http_continue. destruct (c_ws c); try reflexivity. apply wr_response_in. }
  destruct (maybe_continue resp resp_code write_out resp_continue ex c) as [[e|] c1]; cbn [snd] in *; [rewrite Hm; lia|].
  rewrite <- Hm. destruct l as [n|].
  - unfold read_exact. destruct (n <=? _); cbn [snd set_rs c_in]; apply consume_le.
  - unfold read_to_end. cbn [snd set_rs c_in]. apply consume_le.
Qed.

Lemma file_in_le c d m : (length (cin_avail (c_in (snd (read_body_to_file resp resp_code write_out resp_continue fix16 c d m)))) <= length (cin_avail (c_in c)))%nat.
Proof.
  unfold read_body_to_file. destruct (c_rs c) as [|l ex ch gz|]; try (cbn [snd]; lia).
  destruct (ch || gz); [cbn [snd]; lia|].
  assert (c_in (snd (maybe_continue resp resp_code write_out resp_continue ex c)) = c_in c) as Hm.
  { unfold maybe_continue. destruct ex; [|reflexivity]. unfold write_http_continue. destruct (c_ws c); try reflexivity. apply wr_response_in. }
  destruct l as [n|].
  - destruct (m <? n); [cbn [snd]; lia|].
    destruct (maybe_continue resp resp_code write_out resp_continue ex c) as [[e|] c1]; cbn [snd] in *; [rewrite Hm; lia|].
    rewrite <- Hm. destruct (negb d); [cbn [snd set_rs c_in]; lia|].
    unfold read_exact. destruct (n <=? _); cbn [snd set_rs c_in]; apply consume_le.
  - destruct (maybe_continue resp resp_code write_out resp_continue ex c) as [[e|] c1]; cbn [snd] in *; [rewrite Hm; lia|].
    rewrite <- Hm. destruct (negb d); [cbn [snd set_rs c_in]; lia|]. unfold copy_unknown.
    repeat match goal with |- context [if ?a then _ else _] => destruct a end; cbn [snd set_rs c_in]; apply consume_le.
Qed.

Lemma finish_in c log files a : c_in (oo_conn _ _ (fin c log files a)) = c_in c.
Proof.
  unfold finish. destruct a as [r| |m]; try reflexivity.
  pose proof (wr_response_in c r) as H.
  destruct (is_4xx_5xx (resp_code r)); destruct (write_response resp resp_code write_out c r); exact H.
Qed.

Lemma pending_in p v c1 : (length (cin_avail (c_in (oo_conn _ _ (pend p v c1)))) <= length (cin_avail (c_in c1)))%nat.
Proof.
  unfold pending. destruct (handler p v) as [r| |m].
  - rewrite finish_in. lia.
  - cbn. lia.
  - destruct cache_dir as [d|]; [|cbn; lia].
    pose proof (file_in_le c1 d m) as H.
    destruct (read_body_to_file resp resp_code write_out resp_continue fix16 c1 d m) as [[e|b|b] c2]; cbn [snd] in H; cbn [oo_conn]; try exact H.
    rewrite finish_in. exact H.
Qed.

(* an iteration that returns Ok consumed at least one byte *)
Lemma once_ok_progress c : oo_res _ _ (once c) = None ->
  (length (cin_avail (c_in (oo_conn _ _ (once c)))) < length (cin_avail (c_in c)))%nat.
Proof.
  unfold handle_once, read_request.
  destruct (c_ws c); try discriminate. destruct (c_rs c); try discriminate.
  destruct (read_req (c_in c)) as [[e|[p m]] i'] eqn:Er; [discriminate|].
  pose proof (read_req_progress _ _ _ Er) as Hp. intros Hok.
  set (c1 := mk_conn _ _ i' _ _) in *.
  assert (c_in c1 = i') as Hc1 by reflexivity.
  destruct (c_rs c1) as [|[len|] ex ch gz|].
  - rewrite finish_in, Hc1. exact Hp.
  - destruct (len <=? small_body_len).
    + pose proof (vec_in_le c1) as Hv.
      destruct (read_body_to_vec resp resp_code write_out resp_continue fix16 c1) as [[e|b|b] c2]; cbn [snd] in Hv; try discriminate.
      rewrite finish_in. rewrite Hc1 in Hv. lia.
    + pose proof (pending_in p (BV_PendingKnown len) c1) as H. rewrite Hc1 in H. lia.
  - pose proof (pending_in p BV_PendingUnknown c1) as H. rewrite Hc1 in H. lia.
  - rewrite finish_in, Hc1. exact Hp.
Qed.

Lemma loop_terminates fuel : forall k c log files,
  (length (cin_avail (c_in c)) < fuel)%nat ->
  lo_out_of_fuel _ _ (loop fuel k c log files) = false.
Proof.
  induction fuel as [|f IH]; intros k c log files Hf; [lia|]. cbn [conn_loop].
  destruct (revoked k); [reflexivity|]. destruct (negb (is_ready c)); [reflexivity|].
  destruct (oo_res _ _ (once c)) as [e|] eqn:Er.
  - destruct e; try reflexivity; destruct (write_response resp resp_code write_out (oo_conn _ _ (once c)) (error_response _)); reflexivity.
  - apply IH. pose proof (once_ok_progress c Er). lia.
Qed.

End P.

(* ---- the code before the repairs ---- *)
(* D5: a pending-body request answered directly ran the handler twice *)
Definition d5_reader (i : cin) : (herr + (unit * reqmeta)) * cin :=
  match ci_buf i with
  | 80 :: t => (inr (tt, mk_meta (BK_Known 10) false false false), mk_cin t (ci_in i))
  | _ => (inl Disconnected, i)
  end.
Definition d5_handler (_ : unit) (_ : bview) : hres N := HNormal _ 413.
Lemma d5_refuted :
  let o := handle_once unit N d5_reader (fun r => r) (fun r _ => (None, [r])) 100 true d5_handler false 4 (Some true)
                       (conn_new (mk_cin [80;1;2;3;4;5;6;7;8;9;10] (mk_in [] [] false))) in
  length (oo_log _ _ o) = 2%nat.
Proof. vm_compute. reflexivity. Qed.
Lemma d5_fixed :
  let o := handle_once unit N d5_reader (fun r => r) (fun r _ => (None, [r])) 100 true d5_handler true 4 (Some true)
                       (conn_new (mk_cin [80;1;2;3;4;5;6;7;8;9;10] (mk_in [] [] false))) in
  length (oo_log _ _ o) = 1%nat /\ c_wire (oo_conn _ _ o) = [413].
Proof. vm_compute. split; reflexivity. Qed.

(* D7: `max_len + 1` wrapped to 0 for u64::MAX in release builds: take(0) copies nothing and the
   upload is "accepted" as an empty file *)
Lemma d7_refuted :
  fst (copy_unknown ((u64_max + 1) mod 18446744073709551616) u64_max (mk_cin [1;2;3] (mk_in [4;5] [] false))) = BR_File [].
Proof. vm_compute. reflexivity. Qed.
Lemma d7_fixed :
  fst (copy_unknown (sat_succ u64_max) u64_max (mk_cin [1;2;3] (mk_in [4;5] [] false))) = BR_File [1;2;3;4;5].
Proof. vm_compute. reflexivity. Qed.
