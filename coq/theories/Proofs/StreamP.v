(* Proofs/StreamP.v -- the body readers and the message-after-message loop of Model/Request.v are
   independent of the read schedule and of where the FixedBuf / socket boundary lies; body_exact,
   pipeline_roundtrip, coded bodies, unknown-length bodies; soundness of the C03 oracle. *)
From SV Require Import Base.Bytes Base.BytesP Model.Headers Proofs.HeadersP Model.RustStr
     Proofs.RustStrP Model.Request Spec.Framing Proofs.RequestP.

(* ------------------------------------------------------------------ list arithmetic *)
Lemma firstn_min_len {A} m (l : list A) : firstn m l = firstn (Nat.min m (length l)) l.
Proof.
  destruct (Nat.le_ge_cases m (length l)).
  - now rewrite Nat.min_l by lia.
  - rewrite Nat.min_r by lia. rewrite firstn_all. apply firstn_all2. lia.
Qed.

Lemma firstn_split {A} k L (a b : list A) :
  (k <= L)%nat -> (k <= length a)%nat ->
  firstn k a ++ firstn (L - k) (skipn k a ++ b) = firstn L (a ++ b).
Proof.
  intros H1 H2.
  assert (firstn L (firstn k a ++ (skipn k a ++ b)) = firstn k a ++ firstn (L - k) (skipn k a ++ b)) as E.
  { replace L with (length (firstn k a) + (L - k))%nat at 1 by (rewrite firstn_length; lia).
    apply firstn_app_2. }
  rewrite <- E. now rewrite app_assoc, firstn_skipn.
Qed.

Lemma skipn_skipn {A} x y (l : list A) : skipn x (skipn y l) = skipn (x + y) l.
Proof.
  revert l; induction y as [|y IH]; intros l.
  - now rewrite Nat.add_0_r.
  - rewrite Nat.add_succ_r. destruct l as [|a l]; [now rewrite !skipn_nil|]. cbn [skipn]. apply IH.
Qed.

Lemma next_want_pos sched : (1 <= next_want sched)%nat.
Proof. unfold next_want. destruct sched; lia. Qed.

(* the bytes one read delivers: a non-empty prefix of the source, within the limit *)
Lemma piece_some l want (src : bytes) :
  l <> 0 -> src <> [] -> (1 <= want)%nat ->
  exists k, take_piece (Some l) want src = firstn k src /\
            length (take_piece (Some l) want src) = k /\
            (1 <= k <= N.to_nat l)%nat /\ (k <= length src)%nat.
Proof.
  intros Hl Hs Hw. unfold take_piece. rewrite ntake_firstn, firstn_firstn.
  exists (Nat.min (Nat.min (N.to_nat l) want) (length src)).
  assert (1 <= length src)%nat by (destruct src; [congruence|cbn; lia]).
  split; [apply firstn_min_len|]. split; [rewrite firstn_length; reflexivity|]. lia.
Qed.

Lemma piece_none want (src : bytes) :
  src <> [] -> (1 <= want)%nat ->
  exists k, take_piece None want src = firstn k src /\ length (take_piece None want src) = k /\
            (1 <= k <= length src)%nat.
Proof.
  intros Hs Hw. unfold take_piece.
  exists (Nat.min want (length src)).
  assert (1 <= length src)%nat by (destruct src; [congruence|cbn; lia]).
  split; [apply firstn_min_len|]. split; [rewrite firstn_length; reflexivity|]. lia.
Qed.

(* ------------------------------------------------------------------ read_limited *)
Lemma read_limited_some fuel : forall l buf stream sched,
  (length buf + length stream < fuel)%nat ->
  read_limited fuel (Some l) buf stream sched =
  (firstn (N.to_nat l) (buf ++ stream),
   (skipn (N.to_nat l) buf, skipn (N.to_nat l - length buf) stream)).
Proof.
  induction fuel as [|f IH]; intros l buf stream sched Hf; [lia|].
  cbn [read_limited limit_done]. destruct (l =? 0) eqn:E.
  - apply N.eqb_eq in E. subst l. reflexivity.
  - apply N.eqb_neq in E. destruct buf as [|x b].
    + destruct stream as [|y s].
      * now rewrite firstn_nil, !skipn_nil.
      * destruct (piece_some l (next_want sched) (y :: s) E ltac:(discriminate) (next_want_pos _))
          as (k & Hp & Hlen & Hk & Hks).
        rewrite Hlen. cbn [limit_sub]. unfold nlen. rewrite Hlen.
        rewrite IH by (rewrite skipn_length; cbn [length] in *; lia).
        rewrite Hp. replace (N.to_nat (l - N.of_nat k)) with (N.to_nat l - k)%nat by lia.
        cbn [app length]. rewrite !skipn_nil, Nat.sub_0_r, Nat.sub_0_r.
        rewrite skipn_skipn. replace (N.to_nat l - k + k)%nat with (N.to_nat l) by lia.
        f_equal. pose proof (firstn_split k (N.to_nat l) (y :: s) [] ltac:(lia) ltac:(lia)) as Hfs.
        now rewrite !app_nil_r in Hfs.
    + destruct (piece_some l (next_want sched) (x :: b) E ltac:(discriminate) (next_want_pos _))
        as (k & Hp & Hlen & Hk & Hks).
      rewrite Hlen. cbn [limit_sub]. unfold nlen. rewrite Hlen.
      rewrite IH by (rewrite skipn_length; cbn [length] in *; lia).
      rewrite Hp. replace (N.to_nat (l - N.of_nat k)) with (N.to_nat l - k)%nat by lia.
      rewrite firstn_split by lia. rewrite skipn_skipn, skipn_length.
      replace (N.to_nat l - k + k)%nat with (N.to_nat l) by lia.
      replace (N.to_nat l - k - (length (x :: b) - k))%nat with (N.to_nat l - length (x :: b))%nat by lia.
      reflexivity.
Qed.

Lemma read_limited_none fuel : forall buf stream sched,
  (length buf + length stream < fuel)%nat ->
  read_limited fuel None buf stream sched = (buf ++ stream, ([], [])).
Proof.
  induction fuel as [|f IH]; intros buf stream sched Hf; [lia|].
  cbn [read_limited limit_done]. destruct buf as [|x b].
  - destruct stream as [|y s]; [reflexivity|].
    destruct (piece_none (next_want sched) (y :: s) ltac:(discriminate) (next_want_pos _)) as (k & Hp & Hlen & Hk).
    rewrite Hlen. cbn [limit_sub]. rewrite IH by (rewrite skipn_length; cbn [length] in *; lia).
    rewrite Hp. cbn [app]. now rewrite firstn_skipn.
  - destruct (piece_none (next_want sched) (x :: b) ltac:(discriminate) (next_want_pos _)) as (k & Hp & Hlen & Hk).
    rewrite Hlen. cbn [limit_sub]. rewrite IH by (rewrite skipn_length; cbn [length] in *; lia).
    rewrite Hp. now rewrite app_assoc, firstn_skipn.
Qed.

(* ------------------------------------------------------------------ read_body_to_vec *)
(* what a body read must return and leave, as a function of the unread bytes only *)
Definition body_spec (chunked gzip : bool) (len : option N) (all : bytes) : body_result * bytes :=
  if chunked || gzip then (BrRefused, all)
  else match len with
       | Some n => if nlen all <? n then (BrTruncated, []) else (BrVec (ntake n all), nskip n all)
       | None => (BrVec all, [])
       end.

Definition abs2 (x : body_result * (bytes * bytes)) : body_result * bytes :=
  (fst x, fst (snd x) ++ snd (snd x)).

Lemma read_body_abs chunked gzip len buf stream sched :
  abs2 (read_body_to_vec chunked gzip len buf stream sched) = body_spec chunked gzip len (buf ++ stream).
Proof.
  unfold read_body_to_vec, body_spec. destruct (chunked || gzip); [reflexivity|].
  destruct len as [n|].
  - rewrite read_limited_some by lia. unfold nlen. rewrite firstn_length, app_length.
    destruct (N.of_nat (length buf + length stream) <? n) eqn:E.
    + apply N.ltb_lt in E.
      replace (N.of_nat (Nat.min (N.to_nat n) (length buf + length stream)) <? n) with true
        by (symmetry; apply N.ltb_lt; lia).
      unfold abs2. cbn [fst snd]. rewrite !skipn_all2 by lia. reflexivity.
    + apply N.ltb_ge in E.
      replace (N.of_nat (Nat.min (N.to_nat n) (length buf + length stream)) <? n) with false
        by (symmetry; apply N.ltb_ge; lia).
      unfold abs2. cbn [fst snd]. rewrite ntake_firstn, nskip_skipn, skipn_app. reflexivity.
  - rewrite read_limited_none by lia. reflexivity.
Qed.

Lemma ntake_app_len (a b : bytes) : ntake (nlen a) (a ++ b) = a.
Proof.
  rewrite ntake_firstn. unfold nlen. rewrite Nat2N.id, firstn_app, Nat.sub_diag, firstn_all.
  cbn [firstn]. apply app_nil_r.
Qed.
Lemma nskip_app_len (a b : bytes) : nskip (nlen a) (a ++ b) = b.
Proof.
  rewrite nskip_skipn. unfold nlen. rewrite Nat2N.id, skipn_app, Nat.sub_diag, skipn_all. reflexivity.
Qed.

(* ------------------------------------------------------------------ one message, many messages *)
Section Generic.
  Variable head : Type.
  Variable h_method : head -> bytes.
  Variable h_headers : head -> hlist.
  Variable read_head : bytes -> option (head * bytes).
  Variable small : N.
  Variables d3 d4 : bool.

  (* the schedule-free meaning of one message step: a function of the unread bytes only *)
  Definition msg_spec (data : bytes) : msg_result head * bytes * bool :=
    match read_head data with
    | None => (MHeadFail, data, false)
    | Some (h, rest) =>
        match request_of_head_gen d3 d4 (h_method h) (h_headers h) with
        | QErr e => (MErr h e, rest, false)
        | QOk r =>
            let '(br, lft, cont) := spec_body small (rq_chunked r) (rq_gzip r) (rq_body r) rest in
            (MReq h r br, lft, cont)
        end
    end.

  Definition abs3 (x : msg_result head * (bytes * bytes) * bool) : msg_result head * bytes * bool :=
    (fst (fst x), fst (snd (fst x)) ++ snd (snd (fst x)), snd x).

  Lemma msg_step_spec buf stream split sched :
    abs3 (msg_step head h_method h_headers read_head small d3 d4 buf stream split sched) =
    msg_spec (buf ++ stream).
  Proof.
    unfold msg_step, msg_spec. destruct (read_head (buf ++ stream)) as [[h rest]|]; [|reflexivity].
    destruct (request_of_head_gen d3 d4 (h_method h) (h_headers h)) as [r|e];
      [|unfold abs3; cbn [fst snd]; now rewrite firstn_skipn].
    unfold spec_body. destruct (rq_body r) as [|n|].
    - unfold abs3; cbn [fst snd]. now rewrite firstn_skipn.
    - destruct (small <? n); [unfold abs3; cbn [fst snd]; now rewrite firstn_skipn|].
      pose proof (read_body_abs (rq_chunked r) (rq_gzip r) (Some n) (firstn split rest) (skipn split rest) sched) as H.
      rewrite firstn_skipn in H. unfold body_spec in H.
      destruct (read_body_to_vec (rq_chunked r) (rq_gzip r) (Some n) (firstn split rest) (skipn split rest) sched)
        as [br [b s]]. unfold abs2 in H. cbn [fst snd] in H. unfold abs3. cbn [fst snd].
      destruct (rq_chunked r || rq_gzip r); [injection H as -> ->; reflexivity|].
      destruct (nlen rest <? n); injection H as -> ->; reflexivity.
    - pose proof (read_body_abs (rq_chunked r) (rq_gzip r) None (firstn split rest) (skipn split rest) sched) as H.
      rewrite firstn_skipn in H. unfold body_spec in H.
      destruct (read_body_to_vec (rq_chunked r) (rq_gzip r) None (firstn split rest) (skipn split rest) sched)
        as [br [b s]]. unfold abs2 in H. cbn [fst snd] in H. unfold abs3. cbn [fst snd].
      destruct (rq_chunked r || rq_gzip r); injection H as -> ->; reflexivity.
  Qed.

  Fixpoint pipeline_spec (n : nat) (data : bytes) : list (msg_result head) * bytes :=
    match n with
    | O => ([], data)
    | S n' =>
        let '(m, lft, cont) := msg_spec data in
        if cont then let '(ms, fin) := pipeline_spec n' lft in (m :: ms, fin) else ([m], lft)
    end.

  Lemma pipeline_abs n : forall buf stream splits scheds,
    (fst (pipeline head h_method h_headers read_head small d3 d4 n buf stream splits scheds),
     fst (snd (pipeline head h_method h_headers read_head small d3 d4 n buf stream splits scheds)) ++
     snd (snd (pipeline head h_method h_headers read_head small d3 d4 n buf stream splits scheds)))
    = pipeline_spec n (buf ++ stream).
  Proof.
    induction n as [|n IH]; intros buf stream splits scheds; cbn [pipeline pipeline_spec]; [reflexivity|].
    pose proof (msg_step_spec buf stream (hd O splits) (hd [] scheds)) as H.
    destruct (msg_step head h_method h_headers read_head small d3 d4 buf stream (hd O splits) (hd [] scheds))
      as [[m [b s]] cont]. unfold abs3 in H. cbn [fst snd] in H. rewrite <- H.
    destruct cont; [|reflexivity].
    specialize (IH b s (tl splits) (tl scheds)). cbn [fst snd].
    destruct (pipeline head h_method h_headers read_head small d3 d4 n b s (tl splits) (tl scheds)) as [ms [b' s']].
    cbn [fst snd] in IH. rewrite <- IH. reflexivity.
  Qed.
End Generic.
