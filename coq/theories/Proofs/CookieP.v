(* Proofs/CookieP.v -- C15: the cookie loop of read_http_request reads RFC 6265 cookie-strings
   back (last pair wins, a segment without "=" is refused), and Display for Cookie is read back by
   the RFC 6265 section 5.2 algorithm. *)
From Coq Require Import ZArith Lia Setoid.
From SV Require Import Base.Bytes Base.BytesP Base.DecC15 Spec.Civil Spec.Rfc6265 Model.Time Model.Headers
  Model.Cookie Proofs.TimeP Proofs.HeadersP.
Open Scope N_scope.

(* ------------------------------------------------------------------------------------------ *)
(* character classes                                                                            *)

Ltac props H :=
  unfold is_token, is_tchar, is_value_byte, is_cookie_octet, is_av_byte, is_domain_byte, is_rust_ws, is_blank in H;
  unfold is_alpha, is_upper, is_lower, is_digit in H; unfold in_range in H;
  rewrite ?orb_true_iff, ?andb_true_iff, ?negb_true_iff, ?N.leb_le, ?N.eqb_eq, ?N.eqb_neq in H.
Ltac class_false :=
  let H := fresh "H" in let H' := fresh "H'" in
  intros H; apply not_true_is_false; intros H'; props H; props H'; lia.

Lemma tchar_not_ws b : is_tchar b = true -> is_rust_ws b = false. Proof. class_false. Qed.
Lemma tchar_not_blank b : is_tchar b = true -> is_blank b = false. Proof. class_false. Qed.
Lemma tchar_not_semi b : is_tchar b = true -> (b =? 59) = false. Proof. class_false. Qed.
Lemma tchar_not_eq b : is_tchar b = true -> (b =? 61) = false. Proof. class_false. Qed.
Lemma vbyte_not_ws b : is_value_byte b = true -> is_rust_ws b = false. Proof. class_false. Qed.
Lemma vbyte_not_blank b : is_value_byte b = true -> is_blank b = false. Proof. class_false. Qed.
Lemma vbyte_not_semi b : is_value_byte b = true -> (b =? 59) = false. Proof. class_false. Qed.
Lemma blank_not_semi b : is_blank b = true -> (b =? 59) = false. Proof. class_false. Qed.
Lemma blank_is_ws b : is_blank b = true -> is_rust_ws b = true.
Proof. intros H. props H. unfold is_rust_ws, in_range. destruct H as [-> | ->]; reflexivity. Qed.
Lemma dbyte_not_semi b : is_domain_byte b = true -> (b =? 59) = false. Proof. class_false. Qed.
Lemma dbyte_not_blank b : is_domain_byte b = true -> is_blank b = false. Proof. class_false. Qed.
Lemma avbyte_not_semi b : is_av_byte b = true -> (b =? 59) = false. Proof. class_false. Qed.
Lemma digit_not_semi b : is_digit b = true -> (b =? 59) = false. Proof. class_false. Qed.
Lemma digit_not_blank b : is_digit b = true -> is_blank b = false. Proof. class_false. Qed.

(* "no byte c in s" *)
Definition no_byte (c : N) (s : bytes) : bool := forallb (fun b => negb (b =? c)) s.

Lemma forallb_impl {A} (P Q : A -> bool) l : (forall x, P x = true -> Q x = true) -> forallb P l = true -> forallb Q l = true.
Proof. intros H. induction l as [|x l IH]; cbn; [reflexivity|]. rewrite !andb_true_iff. intros [H1 H2]. auto. Qed.

Lemma no_byte_of_class (P : N -> bool) c s : (forall b, P b = true -> (b =? c) = false) -> forallb P s = true -> no_byte c s = true.
Proof. intros H. apply forallb_impl. intros x Hx. now rewrite (H x Hx). Qed.

Lemma no_byte_cons c b s : no_byte c (b :: s) = negb (b =? c) && no_byte c s.
Proof. reflexivity. Qed.

Lemma no_byte_app c a b : no_byte c (a ++ b) = no_byte c a && no_byte c b.
Proof. unfold no_byte. apply forallb_app. Qed.

(* ------------------------------------------------------------------------------------------ *)
(* str::split, str::trim, str::splitn(2)                                                        *)

Lemma split_on_nonempty c s : split_on c s <> [].
Proof. induction s as [|b t IH]; cbn [split_on]; [discriminate|]. destruct (b =? c); [discriminate|]. destruct (split_on c t); discriminate. Qed.

Lemma split_on_nosep c s : no_byte c s = true -> split_on c s = [s].
Proof.
  induction s as [|b t IH]; cbn [split_on no_byte forallb]; [reflexivity|].
  rewrite andb_true_iff, negb_true_iff. intros [H1 H2]. rewrite H1. fold (no_byte c t) in H2. now rewrite (IH H2).
Qed.

(* pieces (a ++ [c] ++ b) = pieces a ++ pieces b *)
Lemma split_on_app_sep c a b : split_on c (a ++ c :: b) = split_on c a ++ split_on c b.
Proof.
  induction a as [|x a IH]; cbn [app split_on].
  - now rewrite N.eqb_refl.
  - destruct (x =? c); [now rewrite IH|]. rewrite IH.
    pose proof (split_on_nonempty c a). destruct (split_on c a); [congruence|reflexivity].
Qed.

Lemma split_on_join c (Hc : c = 59) l : l <> [] -> split_on c (join_semis l) = flat_map (split_on c) l.
Proof.
  subst c. induction l as [|x r IH]; [congruence|]. intros _. destruct r as [|y r].
  - cbn [join_semis flat_map]. now rewrite app_nil_r.
  - change (join_semis (x :: y :: r)) with (x ++ 59 :: join_semis (y :: r)).
    rewrite split_on_app_sep, IH by discriminate. reflexivity.
Qed.

Lemma flat_map_singletons {A B} (f : A -> list B) (g : A -> B) l : (forall x, In x l -> f x = [g x]) -> flat_map f l = map g l.
Proof. induction l as [|x r IH]; intros H; cbn; [reflexivity|]. rewrite (H x (or_introl eq_refl)), IH; [reflexivity|]. intros y Hy. apply H. now right. Qed.

Lemma drop_ws_all s : forallb is_rust_ws s = true -> drop_ws s = [].
Proof. induction s as [|b t IH]; cbn; [reflexivity|]. rewrite andb_true_iff. intros [-> H]. auto. Qed.

Lemma drop_ws_app_l lead s : forallb is_rust_ws lead = true -> drop_ws (lead ++ s) = drop_ws s.
Proof. induction lead as [|b t IH]; cbn; [reflexivity|]. rewrite andb_true_iff. intros [-> H]. auto. Qed.

Definition head_not_ws (s : bytes) : Prop := match s with [] => False | b :: _ => is_rust_ws b = false end.

Lemma drop_ws_head s : head_not_ws s -> drop_ws s = s.
Proof. destruct s as [|b t]; cbn; [tauto|]. now intros ->. Qed.

(* trim (blanks ++ core ++ blanks) = core, for a core that neither starts nor ends with whitespace *)
Lemma trim_padded lead core trail :
  forallb is_rust_ws lead = true -> forallb is_rust_ws trail = true ->
  head_not_ws core -> head_not_ws (rev core) -> trim (lead ++ core ++ trail) = core.
Proof.
  intros Hl Ht Hc Hr. unfold trim. rewrite drop_ws_app_l by exact Hl.
  assert (Hct : head_not_ws (core ++ trail)) by (destruct core; [destruct Hc|exact Hc]).
  rewrite (drop_ws_head _ Hct), rev_app_distr.
  rewrite drop_ws_app_l by (rewrite forallb_forall in *; intros x Hx; apply Ht; now apply in_rev).
  rewrite (drop_ws_head _ Hr). apply rev_involutive.
Qed.

Lemma trim_blank lead trail : forallb is_rust_ws lead = true -> forallb is_rust_ws trail = true -> trim (lead ++ trail) = [].
Proof.
  intros Hl Ht. unfold trim. rewrite (drop_ws_all (lead ++ trail)) by (rewrite forallb_app; now rewrite Hl, Ht). reflexivity.
Qed.

Lemma splitn2_found c n v : no_byte c n = true -> splitn2 c (n ++ c :: v) = (n, Some v).
Proof.
  induction n as [|b t IH]; cbn [app splitn2 no_byte forallb].
  - now rewrite N.eqb_refl.
  - rewrite andb_true_iff, negb_true_iff. intros [H1 H2]. rewrite H1. fold (no_byte c t) in H2. now rewrite (IH H2).
Qed.

Lemma splitn2_none_iff c s : snd (splitn2 c s) = None <-> no_byte c s = true.
Proof.
  induction s as [|b t IH]; cbn [splitn2 no_byte forallb]; [tauto|].
  destruct (b =? c) eqn:E; cbn [negb andb snd].
  - split; discriminate.
  - fold (no_byte c t). destruct (splitn2 c t) as [h r]. cbn [snd] in *. exact IH.
Qed.

(* ------------------------------------------------------------------------------------------ *)
(* request side                                                                                 *)

Definition ins (m : cmap) (p : bytes * bytes) : cmap := map_insert (fst p) (snd p) m.

Lemma blanks_are_ws s : forallb is_blank s = true -> forallb is_rust_ws s = true.
Proof. apply forallb_impl. exact blank_is_ws. Qed.

Lemma token_head n : is_token n = true -> head_not_ws n /\ forallb is_tchar n = true.
Proof.
  unfold is_token. destruct n as [|b t]; cbn [negb andb forallb]; [discriminate|].
  rewrite andb_true_iff. intros [H1 H2]. split; [cbn; now apply tchar_not_ws|now rewrite H1, H2].
Qed.

Lemma rev_head_not_ws_pair n v : forallb is_tchar n = true -> forallb is_value_byte v = true ->
  head_not_ws (rev (n ++ 61 :: v)).
Proof.
  intros Hn Hv. rewrite rev_app_distr. cbn [rev]. rewrite <- app_assoc. cbn [app].
  destruct (rev v) as [|b t] eqn:E; cbn [app head_not_ws].
  - reflexivity.
  - apply vbyte_not_ws. rewrite forallb_forall in Hv. apply Hv. apply in_rev. rewrite E. now left.
Qed.

Lemma render_seg_ok s : seg_ok s = true ->
  no_byte 59 (render_seg s) = true /\
  match seg_core_of s with
  | SPair n v => trim (render_seg s) = n ++ 61 :: v /\ no_byte 61 n = true
  | _ => trim (render_seg s) = []
  end.
Proof.
  destruct s as [lead core trail]. unfold seg_ok, render_seg. cbn [seg_lead seg_core_of seg_trail].
  rewrite !andb_true_iff. intros [[Hl Ht] Hc].
  assert (Hl59 := no_byte_of_class is_blank 59 lead blank_not_semi Hl).
  assert (Ht59 := no_byte_of_class is_blank 59 trail blank_not_semi Ht).
  destruct core as [n v| |t]; cbn [render_core].
  - apply andb_true_iff in Hc. destruct Hc as [Hn Hv]. destruct (token_head n Hn) as [Hh Htc].
    unfold is_cookie_value in Hv.
    split.
    + rewrite !no_byte_app, no_byte_cons, Hl59, Ht59.
      rewrite (no_byte_of_class is_tchar 59 n tchar_not_semi Htc), (no_byte_of_class is_value_byte 59 v vbyte_not_semi Hv).
      reflexivity.
    + split; [|exact (no_byte_of_class is_tchar 61 n tchar_not_eq Htc)].
      apply trim_padded; try (now apply blanks_are_ws).
      * destruct n; [destruct Hh|exact Hh].
      * now apply rev_head_not_ws_pair.
  - cbn [app]. split; [now rewrite no_byte_app, Hl59, Ht59|]. apply trim_blank; now apply blanks_are_ws.
  - discriminate.
Qed.

Lemma seg_loop_render f : forallb seg_ok f = true -> forall m,
  seg_loop (map render_seg f) m = Some (fold_left ins (pairs_of_field f) m).
Proof.
  induction f as [|s r IH]; cbn [forallb map seg_loop pairs_of_field flat_map fold_left]; [reflexivity|].
  rewrite andb_true_iff. intros [Hs Hr] m. destruct (render_seg_ok s Hs) as [_ Ht].
  unfold pairs_of_seg. destruct (seg_core_of s) as [n v| |t].
  - destruct Ht as [Ht Hn]. rewrite Ht.
    assert (is_empty (n ++ 61 :: v) = false) as -> by (destruct n; reflexivity).
    rewrite (splitn2_found 61 n v Hn). cbn [app fold_left].
    unfold pairs_of_field in IH. now rewrite IH.
  - rewrite Ht. cbn [is_empty app]. unfold pairs_of_field in IH. now rewrite IH.
  - rewrite Ht. cbn [is_empty app]. unfold pairs_of_field in IH. now rewrite IH.
Qed.

Lemma fields_ok_field fs f : fields_ok fs = true -> In f fs -> f <> [] /\ forallb seg_ok f = true.
Proof.
  unfold fields_ok. rewrite forallb_forall. intros H Hin. specialize (H f Hin).
  apply andb_true_iff in H. destruct H as [H1 H2]. split; [|exact H2]. destruct f; [discriminate|discriminate].
Qed.

Lemma split_render_field f : f <> [] -> forallb seg_ok f = true ->
  split_on 59 (render_field f) = map render_seg f.
Proof.
  intros Hne Hok. unfold render_field. rewrite (split_on_join 59 eq_refl) by (destruct f; [congruence|discriminate]).
  rewrite flat_map_concat_map, map_map, <- flat_map_concat_map.
  apply flat_map_singletons. intros s Hs. apply split_on_nosep.
  rewrite forallb_forall in Hok. exact (proj1 (render_seg_ok s (Hok s Hs))).
Qed.

Lemma header_loop_render fs : fields_ok fs = true -> forall m,
  header_loop (render_fields fs) m = Some (fold_left ins (pairs_of_fields fs) m).
Proof.
  induction fs as [|f r IH]; intros Hok m; cbn [render_fields map header_loop pairs_of_fields flat_map fold_left]; [reflexivity|].
  destruct (fields_ok_field (f :: r) f Hok (or_introl eq_refl)) as [Hne Hf].
  rewrite (split_render_field f Hne Hf), (seg_loop_render f Hf). rewrite fold_left_app.
  apply IH. unfold fields_ok in *. cbn [forallb] in Hok. apply andb_true_iff in Hok. tauto.
Qed.

(* the map built by successive inserts answers "last pair wins" *)
Lemma lookup_filter_neq k n m : beq k n = false ->
  lookup n (filter (fun p => negb (beq (fst p) k)) m) = lookup n m.
Proof.
  intros Hkn. induction m as [|[k' v'] r IH]; cbn [filter lookup fst]; [reflexivity|].
  destruct (beq k' k) eqn:E; cbn [negb].
  - apply beq_eq in E. subst k'. now rewrite Hkn.
  - cbn [lookup]. now rewrite IH.
Qed.

Lemma lookup_insert k v m n : lookup n (map_insert k v m) = if beq k n then Some v else lookup n m.
Proof. unfold map_insert. cbn [lookup]. destruct (beq k n) eqn:E; [reflexivity|]. now apply lookup_filter_neq. Qed.

Lemma lookup_fold_ins pairs : forall m n,
  lookup n (fold_left ins pairs m) = match last_value n pairs with Some v => Some v | None => lookup n m end.
Proof.
  induction pairs as [|[k v] r IH]; intros m n; cbn [fold_left last_value]; [reflexivity|].
  rewrite IH. unfold ins. cbn [fst snd]. destruct (last_value n r); [reflexivity|]. rewrite lookup_insert. now destruct (beq k n).
Qed.

Lemma existsb_filter_false k (m : cmap) : existsb (fun p => beq (fst p) k) (filter (fun p => negb (beq (fst p) k)) m) = false.
Proof.
  induction m as [|p r IH]; cbn [filter existsb]; [reflexivity|].
  destruct (beq (fst p) k) eqn:E; cbn [negb]; [exact IH|]. cbn [existsb]. now rewrite E, IH.
Qed.

Lemma existsb_filter_mono (P Q : bytes * bytes -> bool) (m : cmap) : existsb P m = false -> existsb P (filter Q m) = false.
Proof.
  induction m as [|p r IH]; cbn [filter existsb]; [reflexivity|]. rewrite orb_false_iff. intros [H1 H2].
  destruct (Q p); cbn [existsb]; [now rewrite H1, IH|auto].
Qed.

Lemma keys_nodup_filter (Q : bytes * bytes -> bool) (m : cmap) : keys_nodup m = true -> keys_nodup (filter Q m) = true.
Proof.
  induction m as [|[k v] r IH]; cbn [filter keys_nodup]; [reflexivity|].
  rewrite andb_true_iff, negb_true_iff. intros [H1 H2]. destruct (Q (k, v)); [|auto].
  cbn [keys_nodup]. now rewrite (existsb_filter_mono _ Q r H1), IH.
Qed.

Lemma keys_nodup_insert k v m : keys_nodup m = true -> keys_nodup (map_insert k v m) = true.
Proof. intros H. unfold map_insert. cbn [keys_nodup]. now rewrite existsb_filter_false, keys_nodup_filter. Qed.

Lemma keys_nodup_fold pairs : forall m, keys_nodup m = true -> keys_nodup (fold_left ins pairs m) = true.
Proof. induction pairs as [|p r IH]; intros m H; cbn [fold_left]; [exact H|]. apply IH. now apply keys_nodup_insert. Qed.

Lemma lookup_in_nodup k v (m : cmap) : keys_nodup m = true -> In (k, v) m -> lookup k m = Some v.
Proof.
  induction m as [|[k' v'] r IH]; cbn [keys_nodup lookup In]; [tauto|].
  rewrite andb_true_iff, negb_true_iff. intros [H1 H2] [E|Hin].
  - injection E as -> ->. now rewrite beq_refl.
  - destruct (beq k' k) eqn:E; [|auto]. apply beq_eq in E. subst k'.
    exfalso. assert (existsb (fun p => beq (fst p) k) r = true) as X; [|congruence].
    apply existsb_exists. exists (k, v). split; [exact Hin|apply beq_refl].
Qed.

Lemma opt_bytes_eqb_refl x : opt_bytes_eqb x x = true.
Proof. destruct x; cbn; [apply beq_refl|reflexivity]. Qed.

Lemma map_is_last_wins_fold pairs : map_is_last_wins pairs (fold_left ins pairs []) = true.
Proof.
  assert (L : forall n, lookup n (fold_left ins pairs []) = last_value n pairs).
  { intros n. rewrite lookup_fold_ins. cbn [lookup]. now destruct (last_value n pairs). }
  assert (K : keys_nodup (fold_left ins pairs []) = true) by (now apply keys_nodup_fold).
  unfold map_is_last_wins. rewrite K. cbn [andb]. apply andb_true_iff. split; apply forallb_forall.
  - intros p _. rewrite L. apply opt_bytes_eqb_refl.
  - intros [k v] Hin. cbn [fst snd]. rewrite <- L, (lookup_in_nodup k v _ K Hin). apply opt_bytes_eqb_refl.
Qed.

Theorem cookie_header_roundtrip fs : fields_ok fs = true ->
  exists m, request_cookies (render_fields fs) = CookiesOk m /\ keys_nodup m = true /\
            forall n, lookup n m = last_value n (pairs_of_fields fs).
Proof.
  intros Hok. unfold request_cookies. rewrite (header_loop_render fs Hok).
  exists (fold_left ins (pairs_of_fields fs) []). split; [reflexivity|]. split; [now apply keys_nodup_fold|].
  intros n. rewrite lookup_fold_ins. cbn [lookup]. now destruct (last_value n (pairs_of_fields fs)).
Qed.

(* the Cookie fields are found whatever the letter case of the field name *)
Lemma get_all_all_match (hs : hlist) name : forallb (fun h => eq_ic (fst h) name) hs = true -> get_all hs name = map snd hs.
Proof.
  induction hs as [|h r IH]; cbn [forallb get_all map]; [reflexivity|]. rewrite andb_true_iff. intros [H1 H2].
  unfold matches. now rewrite H1, IH.
Qed.

Lemma map_snd_combine {A B} (l1 : list A) : forall (l2 : list B), length l1 = length l2 -> map snd (combine l1 l2) = l2.
Proof.
  induction l1 as [|x r IH]; intros [|y t] H; cbn [combine map snd length] in *; try reflexivity; try discriminate.
  f_equal. apply IH. now injection H.
Qed.

Lemma forallb_combine_fst {A B} (P : A -> bool) (l1 : list A) : forall (l2 : list B),
  forallb P l1 = true -> forallb (fun h => P (fst h)) (combine l1 l2) = true.
Proof.
  induction l1 as [|x r IH]; intros [|y t] H; cbn [combine forallb fst] in *; try reflexivity.
  apply andb_true_iff in H. destruct H as [H1 H2]. now rewrite H1, IH.
Qed.

Theorem cookie_header_roundtrip_headers fs (names : list bytes) :
  fields_ok fs = true -> length names = length fs -> forallb (fun n => eq_ic n COOKIE) names = true ->
  exists m, request_cookies_of_headers (combine names (render_fields fs)) = CookiesOk m /\ keys_nodup m = true /\
            forall n, lookup n m = last_value n (pairs_of_fields fs).
Proof.
  intros Hok Hlen Hn. unfold request_cookies_of_headers.
  rewrite get_all_all_match by (now apply (forallb_combine_fst (fun n => eq_ic n COOKIE))).
  rewrite map_snd_combine by (unfold render_fields; now rewrite map_length).
  now apply cookie_header_roundtrip.
Qed.

(* RFC 6265 4.2.1 proper: one field, pairs joined by "; " *)
Lemma cookie_string_field_ok pairs :
  pairs <> [] -> forallb (fun p => is_cookie_name (fst p) && is_cookie_value (snd p)) pairs = true ->
  fields_ok [cookie_string_field pairs] = true /\ pairs_of_fields [cookie_string_field pairs] = pairs.
Proof.
  intros Hne Hp. destruct pairs as [|[n v] r]; [congruence|]. cbn [forallb fst snd] in Hp.
  apply andb_true_iff in Hp. destruct Hp as [H1 H2].
  unfold fields_ok, cookie_string_field, pairs_of_fields, pairs_of_field. cbn [forallb flat_map negb andb].
  rewrite app_nil_r. split.
  - unfold seg_ok at 1. cbn [seg_lead seg_trail seg_core_of forallb andb]. rewrite H1. cbn [andb]. rewrite andb_true_r.
    rewrite forallb_forall in *. intros s Hs. apply in_map_iff in Hs. destruct Hs as ([n' v'] & <- & Hin).
    unfold seg_ok. cbn [seg_lead seg_trail seg_core_of forallb fst snd is_blank andb]. exact (H2 _ Hin).
  - unfold pairs_of_seg at 1. cbn [seg_core_of app]. f_equal. clear Hne H1.
    induction r as [|[n' v'] r IH]; cbn [map flat_map]; [reflexivity|].
    unfold pairs_of_seg at 1. cbn [seg_core_of fst snd app]. f_equal. apply IH. cbn [forallb] in H2. apply andb_true_iff in H2. tauto.
Qed.

(* ---- a non-empty segment without "=" is refused ---- *)
Definition bad_seg (s : bytes) : bool := negb (is_empty (trim s)) && no_byte 61 (trim s).

Lemma seg_loop_none segs : forall m, seg_loop segs m = None <-> existsb bad_seg segs = true.
Proof.
  induction segs as [|s r IH]; intros m; cbn [seg_loop existsb]; [split; discriminate|].
  unfold bad_seg at 1. destruct (is_empty (trim s)) eqn:E; cbn [negb andb orb]; [apply IH|].
  pose proof (splitn2_none_iff 61 (trim s)) as X. destruct (splitn2 61 (trim s)) as [name [value|]]; cbn [snd] in X.
  - assert (no_byte 61 (trim s) = false) as -> by (destruct (no_byte 61 (trim s)); [destruct X as [_ X]; discriminate X; reflexivity|reflexivity]).
    cbn [orb]. apply IH.
  - assert (no_byte 61 (trim s) = true) as -> by (now apply X). cbn [orb]. tauto.
Qed.

Lemma header_loop_none values : forall m,
  header_loop values m = None <-> existsb (fun v => existsb bad_seg (split_on 59 v)) values = true.
Proof.
  induction values as [|v r IH]; intros m; cbn [header_loop existsb]; [split; discriminate|].
  destruct (seg_loop (split_on 59 v) m) as [m'|] eqn:E.
  - assert (existsb bad_seg (split_on 59 v) = false) as ->.
    { destruct (existsb bad_seg (split_on 59 v)) eqn:X; [|reflexivity]. apply (seg_loop_none _ m) in X. congruence. }
    cbn [orb]. apply IH.
  - apply seg_loop_none in E. rewrite E. cbn [orb]. tauto.
Qed.

(* for ARBITRARY field values: refused iff some ";"-piece is, after trimming, non-empty and without "=" *)
Theorem rejected_iff_segment_without_eq values :
  request_cookies values = ErrMalformedCookieHeader <->
  existsb (fun v => existsb bad_seg (split_on 59 v)) values = true.
Proof.
  unfold request_cookies. rewrite <- (header_loop_none values []).
  destruct (header_loop values []); split; congruence.
Qed.

Lemma in_split_join l x : In x l -> no_byte 59 x = true -> In x (split_on 59 (join_semis l)).
Proof.
  intros Hin Hx. rewrite (split_on_join 59 eq_refl) by (destruct l; [destruct Hin|discriminate]).
  apply in_flat_map. exists x. split; [exact Hin|]. rewrite (split_on_nosep 59 x Hx). now left.
Qed.

Lemma noeq_seg_bad s : seg_is_noeq s = true -> no_byte 59 (render_seg s) = true /\ bad_seg (render_seg s) = true.
Proof.
  destruct s as [lead core trail]. unfold seg_is_noeq, render_seg. cbn [seg_lead seg_core_of seg_trail].
  rewrite !andb_true_iff. intros [[Hl Ht] Hc]. destruct core as [n v| |t]; try discriminate. cbn [render_core].
  destruct (token_head t Hc) as [Hh Htc].
  assert (Hl59 := no_byte_of_class is_blank 59 lead blank_not_semi Hl).
  assert (Ht59 := no_byte_of_class is_blank 59 trail blank_not_semi Ht).
  split.
  - now rewrite !no_byte_app, Hl59, Ht59, (no_byte_of_class is_tchar 59 t tchar_not_semi Htc).
  - unfold bad_seg. rewrite trim_padded; try (now apply blanks_are_ws); try exact Hh.
    + rewrite (no_byte_of_class is_tchar 61 t tchar_not_eq Htc). destruct t; [destruct Hh|reflexivity].
    + destruct (rev t) as [|b r] eqn:E; [destruct t; [destruct Hh|]; apply (f_equal (@length N)) in E; rewrite rev_length in E; discriminate|].
      cbn. apply tchar_not_ws. rewrite forallb_forall in Htc. apply Htc. apply in_rev. rewrite E. now left.
Qed.

Theorem segment_without_eq_is_400 fs f s : In f fs -> In s f -> seg_is_noeq s = true ->
  request_cookies (render_fields fs) = ErrMalformedCookieHeader /\ status_of_malformed_cookie_header = 400.
Proof.
  intros Hf Hs Hn. split; [|reflexivity]. apply rejected_iff_segment_without_eq. apply existsb_exists.
  exists (render_field f). split; [unfold render_fields; now apply in_map|].
  destruct (noeq_seg_bad s Hn) as [H59 Hbad]. apply existsb_exists. exists (render_seg s). split; [|exact Hbad].
  unfold render_field. apply in_split_join; [now apply in_map|exact H59].
Qed.

Theorem oracle_request_sound fs : oracle_request fs (request_cookies (render_fields fs)) = true.
Proof.
  unfold oracle_request. destruct (fields_ok fs) eqn:Hok.
  - unfold request_cookies. rewrite (header_loop_render fs Hok). apply map_is_last_wins_fold.
  - destruct (existsb (existsb seg_is_noeq) fs) eqn:E; [|reflexivity].
    apply existsb_exists in E. destruct E as (f & Hf & E). apply existsb_exists in E. destruct E as (s & Hs & E).
    now rewrite (proj1 (segment_without_eq_is_400 fs f s Hf Hs E)).
Qed.

(* the oracle accepts exactly the maps that answer "last pair wins" *)
Lemma map_is_last_wins_spec pairs m : map_is_last_wins pairs m = true ->
  keys_nodup m = true /\ forall n, lookup n m = last_value n pairs.
Proof.
  unfold map_is_last_wins. rewrite !andb_true_iff, !forallb_forall. intros [[K A] B]. split; [exact K|]. intros n.
  destruct (lookup n m) as [v|] eqn:E.
  - assert (Hin : exists k, In (k, v) m /\ beq k n = true).
    { clear -E. induction m as [|[k' v'] r IH]; cbn [lookup] in E; [discriminate|].
      destruct (beq k' n) eqn:X; [injection E as ->; exists k'; split; [now left|exact X]|].
      destruct (IH E) as (k & H1 & H2). exists k. split; [now right|exact H2]. }
    destruct Hin as (k & Hin & Hk). apply beq_eq in Hk. subst k.
    specialize (B _ Hin). cbn [fst snd] in B. destruct (last_value n pairs) as [w|]; cbn in B; [|discriminate].
    apply beq_eq in B. now subst.
  - destruct (last_value n pairs) as [w|] eqn:L; [|reflexivity]. exfalso.
    assert (Hin : exists v0, In (n, v0) pairs).
    { clear -L. revert w L. induction pairs as [|[k v] r IH]; intros w L; cbn [last_value] in L; [discriminate|].
      destruct (last_value n r) eqn:X; [destruct (IH _ eq_refl) as (v0 & H); exists v0; now right|].
      destruct (beq k n) eqn:Y; [|discriminate]. apply beq_eq in Y. subst k. exists v. now left. }
    destruct Hin as (v0 & Hin). specialize (A _ Hin). cbn [fst] in A. rewrite E, L in A. discriminate A.
Qed.

(* ------------------------------------------------------------------------------------------ *)
(* response side: RFC 6265 5.2 reads Display for Cookie back                                    *)

Lemma split_semis_is_split_on s : split_semis s = split_on 59 s.
Proof. induction s as [|b t IH]; cbn [split_semis split_on]; [reflexivity|]. now rewrite IH. Qed.

Lemma break_at_found c n v : no_byte c n = true -> break_at c (n ++ c :: v) = (n, Some v).
Proof.
  induction n as [|b t IH]; cbn [app break_at].
  - now rewrite N.eqb_refl.
  - rewrite no_byte_cons, andb_true_iff, negb_true_iff. intros [H1 H2]. now rewrite H1, (IH H2).
Qed.

Lemma break_at_none c s : no_byte c s = true -> break_at c s = (s, None).
Proof.
  induction s as [|b t IH]; cbn [break_at]; [reflexivity|].
  rewrite no_byte_cons, andb_true_iff, negb_true_iff. intros [H1 H2]. now rewrite H1, (IH H2).
Qed.

Definition head_not_blank (s : bytes) : Prop := match s with [] => True | b :: _ => is_blank b = false end.

Lemma drop_wsp_head s : head_not_blank s -> drop_wsp s = s.
Proof. destruct s as [|b t]; cbn; [reflexivity|]. now intros ->. Qed.

Lemma trim_wsp_id s : head_not_blank s -> head_not_blank (rev s) -> trim_wsp s = s.
Proof. intros H1 H2. unfold trim_wsp. rewrite (drop_wsp_head s H1), (drop_wsp_head _ H2). apply rev_involutive. Qed.

Lemma class_edges (P : N -> bool) s : (forall b, P b = true -> is_blank b = false) -> forallb P s = true ->
  head_not_blank s /\ head_not_blank (rev s).
Proof.
  intros HP Hs. rewrite forallb_forall in Hs. split.
  - destruct s as [|b t]; cbn; [exact I|]. apply HP, Hs. now left.
  - destruct (rev s) as [|b t] eqn:E; cbn; [exact I|]. apply HP, Hs. apply in_rev. rewrite E. now left.
Qed.

(* the pieces between ";" of  ";p1;p2;...;pk" *)
Lemma pieces_split pieces : pieces <> [] -> forallb (no_byte 59) pieces = true ->
  exists rest, concat (map (cons 59) pieces) = 59 :: rest /\ split_semis rest = pieces.
Proof.
  intros Hne Hall. destruct pieces as [|p r]; [congruence|]. cbn [map concat app].
  exists (p ++ concat (map (cons 59) r)). split; [reflexivity|]. rewrite split_semis_is_split_on.
  clear Hne. revert p Hall. induction r as [|q r IH]; intros p Hall; cbn [forallb] in Hall; apply andb_true_iff in Hall; destruct Hall as [Hp Hr].
  - cbn [map concat]. rewrite app_nil_r. now apply split_on_nosep.
  - cbn [map concat app]. rewrite split_on_app_sep, (split_on_nosep 59 p Hp). cbn [app]. f_equal. now apply IH.
Qed.

(* bodies of the attribute texts; each piece keeps the SP that follows the ";" *)
Definition P_DOMAIN : bytes := tl S_DOMAIN.       Definition N_DOMAIN : bytes := removelast P_DOMAIN.
Definition P_EXPIRES : bytes := tl S_EXPIRES.     Definition N_EXPIRES : bytes := removelast P_EXPIRES.
Definition P_HTTPONLY : bytes := tl S_HTTPONLY.
Definition P_MAX_AGE : bytes := tl S_MAX_AGE.     Definition N_MAX_AGE : bytes := removelast P_MAX_AGE.
Definition P_PATH : bytes := tl S_PATH.           Definition N_PATH : bytes := removelast P_PATH.
Definition P_SECURE : bytes := tl S_SECURE.
Definition P_SAME_SITE (ss : same_site) : bytes :=
  tl (match ss with Strict => S_SS_STRICT | Lax => S_SS_LAX | SSNone => S_SS_NONE end).

Definition opt {A} (b : bool) (x : A) : list A := if b then [x] else [].
Definition max_age_shown (c : cookie) : bool := (0 <? c_max_age_secs c) || c_max_age_subsec c.

Definition pieces_of (c : cookie) (texp : option bytes) : list bytes :=
  opt (negb (is_empty (c_domain c))) (P_DOMAIN ++ c_domain c) ++
  (match texp with Some t => [P_EXPIRES ++ t] | None => [] end) ++
  opt (c_http_only c) P_HTTPONLY ++
  opt (max_age_shown c) (P_MAX_AGE ++ dec (c_max_age_secs c)) ++
  opt (negb (is_empty (c_path c))) (P_PATH ++ c_path c) ++
  [P_SAME_SITE (c_same_site c)] ++
  opt (c_secure c) P_SECURE.

Definition display_text (c : cookie) (texp : option bytes) : bytes :=
  c_name c ++ 61 :: c_value c ++ concat (map (cons 59) (pieces_of c texp)).

Lemma display_shape c :
  display_cookie c =
  match c_expires c with
  | None => Some (display_text c None)
  | Some s => match expires_text s with Some t => Some (display_text c (Some t)) | None => None end
  end.
Proof.
  unfold display_cookie, display_text, pieces_of, max_age_shown, opt.
  destruct c as [name value dom exp ho path secs sub ss sec]. cbn [c_name c_value c_domain c_expires c_http_only c_path c_max_age_secs c_max_age_subsec c_same_site c_secure].
  destruct exp as [s|]; [destruct (expires_text s) as [t|]; [|reflexivity]|];
    destruct (is_empty dom), ho, ((0 <? secs) || sub), (is_empty path), ss, sec; cbn [negb app map concat];
    rewrite <- ?app_assoc; cbn [app]; rewrite <- ?app_assoc; reflexivity.
Qed.

(* one lemma per attribute kind *)
Lemma av_domain dom p : dom <> [] -> forallb is_domain_byte dom = true ->
  process_cookie_av (P_DOMAIN ++ dom) p = set_domain (Some (canon_domain dom)) p.
Proof.
  intros Hne Hd. unfold process_cookie_av.
  change (P_DOMAIN ++ dom) with (N_DOMAIN ++ 61 :: dom). rewrite break_at_found by reflexivity.
  destruct (class_edges is_domain_byte dom dbyte_not_blank Hd) as [E1 E2]. rewrite (trim_wsp_id dom E1 E2).
  change (trim_wsp N_DOMAIN) with (tl N_DOMAIN).
  destruct dom as [|c r]; [congruence|]. reflexivity.
Qed.

Lemma av_expires t p : process_cookie_av (P_EXPIRES ++ t) p = p.
Proof.
  unfold process_cookie_av. change (P_EXPIRES ++ t) with (N_EXPIRES ++ 61 :: t).
  rewrite break_at_found by reflexivity. reflexivity.
Qed.

Lemma av_http_only p : process_cookie_av P_HTTPONLY p = set_http_only p.
Proof. reflexivity. Qed.
Lemma av_secure p : process_cookie_av P_SECURE p = set_secure p.
Proof. reflexivity. Qed.
Lemma av_same_site ss p : process_cookie_av (P_SAME_SITE ss) p = set_same_site (Some ss) p.
Proof. destruct ss; reflexivity. Qed.

Lemma parse_delta_seconds_dec n : parse_delta_seconds (dec n) = Some (Z.of_N n).
Proof.
  unfold parse_delta_seconds. pose proof (dec_all_digits n) as Hd. pose proof (undec_dec n) as Hu.
  pose proof (dec_nonempty n) as Hne. destruct (dec n) as [|c r]; [congruence|].
  cbn [forallb] in Hd. apply andb_true_iff in Hd. destruct Hd as [Hc Hr].
  assert ((c =? 45) = false) as -> by (revert Hc; class_false).
  now rewrite Hc, Hr, Hu.
Qed.

Lemma av_max_age n p : process_cookie_av (P_MAX_AGE ++ dec n) p = set_max_age (Some (Z.of_N n)) p.
Proof.
  unfold process_cookie_av. change (P_MAX_AGE ++ dec n) with (N_MAX_AGE ++ 61 :: dec n).
  rewrite break_at_found by reflexivity.
  destruct (class_edges is_digit (dec n) digit_not_blank (dec_all_digits n)) as [E1 E2]. rewrite (trim_wsp_id _ E1 E2).
  change (trim_wsp N_MAX_AGE) with (tl N_MAX_AGE).
  change (process_av (tl N_MAX_AGE) (dec n) p) with
    (match parse_delta_seconds (dec n) with Some d => set_max_age (Some d) p | None => p end).
  now rewrite parse_delta_seconds_dec.
Qed.

Lemma av_path r p : no_edge_blank (47 :: r) = true ->
  process_cookie_av (P_PATH ++ 47 :: r) p = set_path (Some (47 :: r)) p.
Proof.
  intros He. unfold process_cookie_av. change (P_PATH ++ 47 :: r) with (N_PATH ++ 61 :: 47 :: r).
  rewrite break_at_found by reflexivity.
  assert (E : head_not_blank (47 :: r) /\ head_not_blank (rev (47 :: r))).
  { unfold no_edge_blank in He. apply andb_true_iff in He. destruct He as [H1 H2]. split; [reflexivity|].
    destruct (rev (47 :: r)) as [|b t]; [exact I|]. cbn. now apply negb_true_iff in H2. }
  destruct E as [E1 E2]. rewrite (trim_wsp_id _ E1 E2). reflexivity.
Qed.

Lemma fold_opt {A B} (f : A -> B -> A) b x a : fold_left f (opt b x) a = if b then f a x else a.
Proof. destruct b; reflexivity. Qed.

(* no ";" inside the pieces *)
Lemma no59_repeat k : no_byte 59 (repeat 48 k) = true.
Proof. induction k as [|k IH]; [reflexivity|]. cbn [repeat]. now rewrite no_byte_cons, IH. Qed.
Lemma no59_dec n : no_byte 59 (dec n) = true.
Proof. exact (no_byte_of_class is_digit 59 (dec n) digit_not_semi (dec_all_digits n)). Qed.
Lemma no59_fmt_int w z : no_byte 59 (fmt_int w z) = true.
Proof.
  unfold fmt_int, pad. destruct (z <? 0)%Z; rewrite ?no_byte_cons, !no_byte_app, !no59_repeat, !no59_dec; reflexivity.
Qed.
Lemma no59_fmt_iso t : no_byte 59 (fmt_iso t) = true.
Proof. unfold fmt_iso. rewrite !no_byte_app, !no59_fmt_int. reflexivity. Qed.

Lemma expires_text_ok s : (0 <= s)%Z -> exists t, expires_text s = Some t /\ no_byte 59 t = true.
Proof.
  intros Hs. unfold expires_text. assert ((s <? 0)%Z = false) as -> by lia.
  rewrite iso8601_utc_fast_eq. unfold iso8601_utc. destruct (new_correct s (fuel_for s) Hs (le_n _)) as (t & E & _). rewrite E.
  exists (fmt_iso t). split; [reflexivity|apply no59_fmt_iso].
Qed.

Lemma pieces_no59 c texp : cookie_ok c = true -> match texp with Some t => no_byte 59 t = true | None => True end ->
  forallb (no_byte 59) (pieces_of c texp) = true.
Proof.
  unfold cookie_ok. rewrite !andb_true_iff. intros [[[[[Hn Hv] Hd] Hp] Hs] He] Ht.
  unfold pieces_of, opt. rewrite !forallb_app.
  assert (Hdom : no_byte 59 (P_DOMAIN ++ c_domain c) = true)
    by (rewrite no_byte_app, (no_byte_of_class is_domain_byte 59 _ dbyte_not_semi Hd); reflexivity).
  assert (Hpath : is_empty (c_path c) = false -> no_byte 59 (P_PATH ++ c_path c) = true).
  { intros X. rewrite X in Hp. cbn [orb] in Hp. rewrite !andb_true_iff in Hp. destruct Hp as [[_ Hp] _].
    rewrite no_byte_app, (no_byte_of_class is_av_byte 59 _ avbyte_not_semi Hp). reflexivity. }
  assert (Hma : no_byte 59 (P_MAX_AGE ++ dec (c_max_age_secs c)) = true) by (rewrite no_byte_app, no59_dec; reflexivity).
  destruct (is_empty (c_domain c)), (c_http_only c), (max_age_shown c), (is_empty (c_path c)) eqn:Ep, (c_same_site c), (c_secure c), texp as [t|];
    cbn [negb forallb andb]; rewrite ?Hdom, ?Hma, ?(Hpath eq_refl), ?andb_true_r;
    try reflexivity; try (rewrite no_byte_app, Ht; reflexivity).
Qed.

Theorem set_cookie_roundtrip c : cookie_ok c = true ->
  exists text, display_cookie c = Some text /\ parse_set_cookie text = Some (expected_parse c).
Proof.
  intros Hok. pose proof Hok as Hok0. unfold cookie_ok in Hok. rewrite !andb_true_iff in Hok.
  destruct Hok as [[[[[Hn Hv] Hd] Hp] Hs] He].
  (* the Expires text, if any *)
  assert (Hexp : exists texp, display_cookie c = Some (display_text c texp) /\
                 match texp with Some t => no_byte 59 t = true | None => True end).
  { rewrite display_shape. destruct (c_expires c) as [s|].
    - apply Z.leb_le in He. destruct (expires_text_ok s He) as (t & E & Ht). rewrite E. exists (Some t). auto.
    - exists None. auto. }
  destruct Hexp as (texp & Hdisp & Htexp). exists (display_text c texp). split; [exact Hdisp|].
  (* step 1: split at the first ";" *)
  assert (Hne : pieces_of c texp <> []).
  { unfold pieces_of. intros X. apply (f_equal (@length bytes)) in X. rewrite !app_length in X. cbn [length] in X. lia. }
  destruct (pieces_split (pieces_of c texp) Hne (pieces_no59 c texp Hok0 Htexp)) as (rest & Hrest & Hsplit).
  unfold parse_set_cookie, display_text. rewrite Hrest.
  destruct (token_head (c_name c) Hn) as [Hh Htc].
  unfold is_cookie_value in Hv.
  change (c_name c ++ 61 :: c_value c ++ 59 :: rest) with (c_name c ++ (61 :: c_value c) ++ 59 :: rest).
  rewrite app_assoc. rewrite break_at_found
    by (rewrite no_byte_app, no_byte_cons, (no_byte_of_class is_tchar 59 _ tchar_not_semi Htc),
          (no_byte_of_class is_value_byte 59 _ vbyte_not_semi Hv); reflexivity).
  (* steps 2-5 *)
  rewrite break_at_found by exact (no_byte_of_class is_tchar 61 _ tchar_not_eq Htc).
  destruct (class_edges is_tchar (c_name c) tchar_not_blank Htc) as [N1 N2]. rewrite (trim_wsp_id _ N1 N2).
  destruct (class_edges is_value_byte (c_value c) vbyte_not_blank Hv) as [V1 V2]. rewrite (trim_wsp_id _ V1 V2).
  destruct (c_name c) as [|n0 nr] eqn:En; [destruct Hh|]. rewrite <- En. f_equal.
  (* the attribute loop *)
  rewrite Hsplit. unfold pieces_of. rewrite !fold_left_app, !fold_opt. cbn [fold_left].
  rewrite av_same_site, av_http_only, av_secure, av_max_age.
  assert (Hdom : is_empty (c_domain c) = false ->
     forall p, process_cookie_av (P_DOMAIN ++ c_domain c) p = set_domain (Some (canon_domain (c_domain c))) p).
  { intros X p. apply av_domain; [destruct (c_domain c); [discriminate|discriminate]|exact Hd]. }
  assert (Hpath : is_empty (c_path c) = false ->
     forall p, process_cookie_av (P_PATH ++ c_path c) p = set_path (Some (c_path c)) p).
  { intros X p. rewrite X in Hp. cbn [orb] in Hp. rewrite !andb_true_iff in Hp. destruct Hp as [[Hp0 _] Hp2].
    destruct (c_path c) as [|b r]; [discriminate|]. destruct (b =? 47) eqn:Eb.
    - apply N.eqb_eq in Eb. subst b. now apply av_path.
    - exfalso. revert Hp0 Eb. clear. destruct b as [|q]; [discriminate|].
      do 6 (destruct q as [q|q|]; try discriminate). }
  apply negb_true_iff in Hs.
  unfold expected_parse, max_age_shown. rewrite Hs, orb_false_r.
  destruct texp as [t|]; cbn [fold_left]; rewrite ?av_expires;
    destruct (is_empty (c_domain c)) eqn:E1; cbn [negb]; rewrite ?(Hdom eq_refl);
    destruct (is_empty (c_path c)) eqn:E2; cbn [negb]; rewrite ?(Hpath eq_refl);
    destruct (c_http_only c), (0 <? c_max_age_secs c), (c_secure c); reflexivity.
Qed.

(* the oracle's equality test is equality *)
Lemma parsed_eqb_refl p : parsed_eqb p p = true.
Proof.
  unfold parsed_eqb. rewrite !beq_refl, !opt_bytes_eqb_refl, !Bool.eqb_reflx. cbn [andb].
  destruct (p_max_age p) as [z|], (p_same_site p) as [[| |]|]; cbn; rewrite ?Z.eqb_refl; reflexivity.
Qed.

Lemma opt_bytes_eqb_eq a b : opt_bytes_eqb a b = true -> a = b.
Proof. destruct a, b; cbn; try discriminate; try reflexivity. intros H. apply beq_eq in H. now subst. Qed.

Lemma parsed_eqb_eq p q : parsed_eqb p q = true -> p = q.
Proof.
  destruct p as [n1 v1 d1 pa1 m1 s1 h1 ss1], q as [n2 v2 d2 pa2 m2 s2 h2 ss2]. unfold parsed_eqb.
  cbn [p_name p_value p_domain p_path p_max_age p_secure p_http_only p_same_site].
  rewrite !andb_true_iff. intros [[[[[[[H1 H2] H3] H4] H5] H6] H7] H8].
  apply beq_eq in H1, H2. apply opt_bytes_eqb_eq in H3, H4. apply Bool.eqb_prop in H6, H7. subst.
  assert (m1 = m2) as -> by (destruct m1, m2; cbn in H5; try discriminate; try reflexivity; apply Z.eqb_eq in H5; now subst).
  assert (ss1 = ss2) as -> by (destruct ss1 as [[| |]|], ss2 as [[| |]|]; cbn in H8; try discriminate; reflexivity).
  reflexivity.
Qed.

Theorem oracle_set_cookie_sound c text : display_cookie c = Some text -> oracle_set_cookie c text = true.
Proof.
  intros H. unfold oracle_set_cookie. destruct (cookie_ok c) eqn:Hok; [|reflexivity].
  destruct (set_cookie_roundtrip c Hok) as (text' & E & P). rewrite H in E. injection E as <-.
  rewrite P. apply parsed_eqb_refl.
Qed.

(* exactly one Set-Cookie field per cookie, in order, and nothing else *)
Lemma get_all_app (a b : hlist) name : get_all (a ++ b) name = get_all a name ++ get_all b name.
Proof. rewrite !get_all_spec. unfold spec_values. now rewrite filter_app, map_app. Qed.

Lemma get_all_set_cookie_fields texts :
  get_all (map (fun t => (SET_COOKIE, t)) texts) SET_COOKIE = texts.
Proof.
  induction texts as [|t r IH]; cbn [map get_all]; [reflexivity|].
  unfold matches. cbn [fst snd]. rewrite eq_ic_refl. now rewrite IH.
Qed.

Theorem one_field_per_cookie cs : forall hs, forallb cookie_ok cs = true ->
  exists texts,
    with_set_cookies hs cs = Some (hs ++ map (fun t => (SET_COOKIE, t)) texts) /\
    length texts = length cs /\
    get_all (hs ++ map (fun t => (SET_COOKIE, t)) texts) SET_COOKIE = get_all hs SET_COOKIE ++ texts /\
    oracle_set_cookies cs texts = true.
Proof.
  induction cs as [|c r IH]; intros hs Hok.
  - exists []. cbn [with_set_cookies map length oracle_set_cookies]. rewrite !app_nil_r. auto.
  - cbn [forallb] in Hok. apply andb_true_iff in Hok. destruct Hok as [Hc Hr].
    destruct (set_cookie_roundtrip c Hc) as (text & E & P).
    destruct (IH (add hs SET_COOKIE text) Hr) as (texts & W & L & G & O).
    exists (text :: texts). cbn [with_set_cookies]. unfold with_set_cookie, cookie_to_ascii_string. rewrite E, W.
    unfold add. rewrite <- app_assoc. cbn [app map length oracle_set_cookies].
    split; [reflexivity|]. split; [now rewrite L|]. split.
    + rewrite get_all_app. f_equal. exact (get_all_set_cookie_fields (text :: texts)).
    + now rewrite (oracle_set_cookie_sound c text E), O.
Qed.

(* recorded behaviour outside the statement's quantifier (whole seconds): a Duration below one
   second is "> ZERO", so Max-Age is printed, with as_secs() = 0 *)
Definition subsecond_cookie : cookie := mkcookie [97] [98] [] None false [] 0 true Strict false.
Lemma subsecond_max_age_prints_zero :
  display_cookie subsecond_cookie =
    Some [97; 61; 98; 59; 32; 77; 97; 120; 45; 65; 103; 101; 61; 48; 59; 32; 83; 97; 109; 101; 83; 105; 116; 101; 61; 83; 116; 114; 105; 99; 116] /\
  (match display_cookie subsecond_cookie with Some t => option_map p_max_age (parse_set_cookie t) | None => None end) = Some (Some 0%Z).
Proof. split; vm_compute; reflexivity. Qed.
