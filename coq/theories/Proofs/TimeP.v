(* Proofs/TimeP.v -- src/time.rs (model: Model/Time.v) computes the proleptic Gregorian calendar
   (spec: Spec/Civil.v).  Invariant argument: every loop step preserves the absolute day number,
   the exit condition is the canonical form, canonical forms are unique. *)
From Coq Require Import ZArith Lia.
From SV Require Import Base.Bytes Spec.Civil Model.Time.
Open Scope Z_scope.
Ltac Zify.zify_post_hook ::= Z.div_mod_to_equations.

(* ------------------------------------------------------------------------------------------ *)
(* A. the transcribed leap test is the declarative leap rule                                   *)

Lemma rem0_mod0 a b : 0 < b -> (Z.rem a b =? 0) = (a mod b =? 0).
Proof.
  intros Hb. destruct (Z.rem a b =? 0) eqn:E1, (a mod b =? 0) eqn:E2; try reflexivity;
    rewrite ?Z.eqb_eq, ?Z.eqb_neq in *.
  - exfalso. apply E2. apply Z.mod_divide; [lia|]. apply Z.rem_divide; [lia|assumption].
  - exfalso. apply E1. apply Z.rem_divide; [lia|]. apply Z.mod_divide; [lia|assumption].
Qed.

Lemma is_leap_year_spec y : is_leap_year y = leap y.
Proof.
  unfold is_leap_year, leap. rewrite !rem0_mod0 by lia.
  destruct (y mod 400 =? 0), (y mod 100 =? 0), (y mod 4 =? 0); reflexivity.
Qed.

Lemma year_len_days_spec y : year_len_days y = ylen y.
Proof. unfold year_len_days, ylen. now rewrite is_leap_year_spec. Qed.

Ltac month_cases m H :=
  let Hc := fresh "Hc" in
  assert (m = 1 \/ m = 2 \/ m = 3 \/ m = 4 \/ m = 5 \/ m = 6 \/ m = 7 \/ m = 8 \/ m = 9 \/
          m = 10 \/ m = 11 \/ m = 12) as Hc by lia;
  clear H;
  destruct Hc as [->|[->|[->|[->|[->|[->|[->|[->|[->|[->|[->| ->]]]]]]]]]]].

Lemma month_len_days_spec y m : 1 <= m <= 12 -> month_len_days y m = Some (mlen y m).
Proof.
  intros Hm. unfold mlen, leap. month_cases m Hm; cbn [month_len_days]; try reflexivity.
  rewrite !rem0_mod0 by lia.
  destruct (y mod 400 =? 0), (y mod 100 =? 0), (y mod 4 =? 0); reflexivity.
Qed.

Lemma mlen_bounds y m : 1 <= m <= 12 -> 28 <= mlen y m <= 31.
Proof. intros Hm. unfold mlen. month_cases m Hm; destruct (leap y); lia. Qed.

Lemma ylen_bounds y : 365 <= ylen y <= 366.
Proof. unfold ylen. destruct (leap y); lia. Qed.

(* ------------------------------------------------------------------------------------------ *)
(* B. the declarative sums have closed forms                                                   *)

Lemma zseq_snoc n : forall a, zseq a (S n) = zseq a n ++ [a + Z.of_nat n].
Proof.
  induction n as [|n IH]; intros a.
  - cbn. f_equal. lia.
  - change (zseq a (S (S n))) with (a :: zseq (a + 1) (S n)). rewrite IH.
    cbn [zseq app]. do 2 f_equal. f_equal. lia.
Qed.

Lemma sumZ_app l1 l2 : sumZ (l1 ++ l2) = sumZ l1 + sumZ l2.
Proof. unfold sumZ. induction l1 as [|x l IH]; cbn [app fold_right]; lia. Qed.

Lemma year_len_L y : Lf y - Lf (y - 1) = ylen y - 365.
Proof.
  unfold Lf, ylen, leap.
  destruct (y mod 4 =? 0) eqn:E4, (y mod 100 =? 0) eqn:E100, (y mod 400 =? 0) eqn:E400;
    cbn [negb andb orb]; rewrite ?Z.eqb_eq, ?Z.eqb_neq in *; lia.
Qed.

Lemma dby_fast_succ y : dby_fast (y + 1) = dby_fast y + ylen y.
Proof. unfold dby_fast. replace (y + 1 - 1) with y by lia. pose proof (year_len_L y). lia. Qed.

Lemma dby_succ y : dby (y + 1) = dby y + ylen y.
Proof.
  unfold dby. destruct (1970 <=? y) eqn:E.
  - assert (1970 <=? y + 1 = true) as -> by lia.
    replace (Z.to_nat (y + 1 - 1970)) with (S (Z.to_nat (y - 1970))) by lia.
    rewrite zseq_snoc, map_app, sumZ_app. cbn [map sumZ fold_right].
    replace (1970 + Z.of_nat (Z.to_nat (y - 1970))) with y by lia. lia.
  - destruct (1970 <=? y + 1) eqn:E'.
    + assert (y = 1969) as -> by lia. vm_compute. reflexivity.
    + replace (Z.to_nat (1970 - y)) with (S (Z.to_nat (1970 - (y + 1)))) by lia.
      unfold sumZ. cbn [zseq map fold_right]. lia.
Qed.

Lemma dby_closed_form y : dby y = dby_fast y.
Proof.
  assert (H0 : dby 1970 = dby_fast 1970) by (vm_compute; reflexivity).
  assert (Hup : forall n : nat, dby (1970 + Z.of_nat n) = dby_fast (1970 + Z.of_nat n)).
  { induction n as [|n IH]; [now rewrite Z.add_0_r|].
    replace (1970 + Z.of_nat (S n)) with (1970 + Z.of_nat n + 1) by lia.
    now rewrite dby_succ, dby_fast_succ, IH. }
  assert (Hdn : forall n : nat, dby (1970 - Z.of_nat n) = dby_fast (1970 - Z.of_nat n)).
  { induction n as [|n IH]; [now rewrite Z.sub_0_r|].
    pose proof (dby_succ (1970 - Z.of_nat (S n))) as H1.
    pose proof (dby_fast_succ (1970 - Z.of_nat (S n))) as H2.
    replace (1970 - Z.of_nat (S n) + 1) with (1970 - Z.of_nat n) in * by lia. lia. }
  destruct (Z_le_gt_dec 1970 y).
  - specialize (Hup (Z.to_nat (y - 1970))). now replace (1970 + Z.of_nat (Z.to_nat (y - 1970))) with y in Hup by lia.
  - specialize (Hdn (Z.to_nat (1970 - y))). now replace (1970 - Z.of_nat (Z.to_nat (1970 - y))) with y in Hdn by lia.
Qed.

Lemma dbm_closed_form y m : 1 <= m <= 12 -> dbm y m = dbm_fast y m.
Proof.
  intros Hm. unfold dbm, dbm_fast.
  month_cases m Hm;
    match goal with |- context [Z.to_nat ?e] => let n := eval vm_compute in (Z.to_nat e) in change (Z.to_nat e) with n end;
    cbn [zseq map sumZ fold_right Z.add Pos.add Pos.succ Pos.add_carry mlen Z.ltb Z.compare Pos.compare Pos.compare_cont andb];
    destruct (leap y); reflexivity.
Qed.

Lemma abs_days_closed_form y m d : 1 <= m <= 12 -> abs_days y m d = abs_days_fast y m d.
Proof. intros Hm. unfold abs_days, abs_days_fast. now rewrite dby_closed_form, dbm_closed_form. Qed.

Lemma secs_closed_form t : 1 <= month t <= 12 -> secs_of_civil t = secs_fast t.
Proof. intros Hm. unfold secs_of_civil, secs_fast. now rewrite abs_days_closed_form. Qed.

(* ------------------------------------------------------------------------------------------ *)
(* C. every loop step preserves the absolute day number; the loops end in canonical form       *)

Definition ystep (y m : Z) : Z := if 2 <? m then ylen (y + 1) else ylen y.

Lemma year_step_abs y m d : 1 <= m <= 12 ->
  abs_days_fast (y + 1) m (d - ystep y m) = abs_days_fast y m d.
Proof.
  intros Hm. unfold abs_days_fast, ystep. rewrite dby_fast_succ. unfold dbm_fast, ylen.
  month_cases m Hm; cbn [Z.ltb Z.compare Pos.compare Pos.compare_cont andb];
    destruct (leap y); destruct (leap (y + 1)); lia.
Qed.

Lemma month_step_abs y m d : 1 <= m <= 11 ->
  abs_days_fast y (m + 1) (d - mlen y m) = abs_days_fast y m d.
Proof.
  intros Hm. unfold abs_days_fast, dbm_fast, mlen.
  assert (m = 1 \/ m = 2 \/ m = 3 \/ m = 4 \/ m = 5 \/ m = 6 \/ m = 7 \/ m = 8 \/ m = 9 \/ m = 10 \/ m = 11) as Hc by lia.
  destruct Hc as [->|[->|[->|[->|[->|[->|[->|[->|[->|[->| ->]]]]]]]]]];
    cbn [Z.add Pos.add Pos.succ Z.ltb Z.compare Pos.compare Pos.compare_cont andb]; destruct (leap y); lia.
Qed.

Lemma month_step_abs_dec y d : abs_days_fast (y + 1) 1 (d - 31) = abs_days_fast y 12 d.
Proof.
  unfold abs_days_fast. rewrite dby_fast_succ. unfold dbm_fast, ylen.
  cbn [Z.ltb Z.compare Pos.compare Pos.compare_cont andb]. destruct (leap y); lia.
Qed.

Lemma year_loop_spec fuel : forall t, 1 <= month t <= 12 -> 1 <= day t ->
  Z.of_nat fuel * 365 >= day t - 366 ->
  exists y' d', year_loop true fuel t = Ok (set_yd t y' d') /\
    abs_days_fast y' (month t) d' = abs_days_fast (year t) (month t) (day t) /\
    1 <= d' <= 366 /\ year t <= y'.
Proof.
  induction fuel as [|f IH]; intros [y m d h mi s]; cbn [year month day hour minute sec];
    intros Hm Hd Hf; cbn [year_loop year month day hour minute sec].
  - destruct (d >? 366) eqn:E; [lia|]. exists y, d. repeat split; lia.
  - destruct (d >? 366) eqn:E.
    + cbn [andb]. rewrite !year_len_days_spec.
      replace (if m >? 2 then ylen (y + 1) else ylen y) with (ystep y m)
        by (unfold ystep; destruct (m >? 2) eqn:E1, (2 <? m) eqn:E2; try reflexivity; lia).
      assert (365 <= ystep y m <= 366)
        by (unfold ystep; pose proof (ylen_bounds y); pose proof (ylen_bounds (y + 1)); destruct (2 <? m); lia).
      unfold set_yd at 1. cbn [year month day hour minute sec].
      destruct (IH (mkdt (y + 1) m (d - ystep y m) h mi s)) as (y' & d' & H1 & H2 & H3 & H4);
        cbn [year month day hour minute sec] in *; try lia.
      exists y', d'. rewrite H1. unfold set_yd. cbn [year month day hour minute sec].
      rewrite H2, year_step_abs by lia. repeat split; lia.
    + exists y, d. repeat split; lia.
Qed.

Lemma balance_month_noop t : month t <= 12 -> balance_month t = Ok t.
Proof. intros H. unfold balance_month. destruct (month t >? 12) eqn:E; [lia|reflexivity]. Qed.

Lemma balance_month_13 y d h mi s : balance_month (mkdt y 13 d h mi s) = Ok (mkdt (y + 1) 1 d h mi s).
Proof. reflexivity. Qed.

Lemma month_loop_spec fuel : forall t, 1 <= month t <= 12 -> 1 <= day t ->
  Z.of_nat fuel * 28 >= day t - 28 ->
  exists y' m' d', month_loop fuel t = Ok (mkdt y' m' d' (hour t) (minute t) (sec t)) /\
    abs_days_fast y' m' d' = abs_days_fast (year t) (month t) (day t) /\ valid_date y' m' d'.
Proof.
  induction fuel as [|f IH]; intros [y m d h mi s]; cbn [year month day hour minute sec];
    intros Hm Hd Hf; cbn [month_loop year month day hour minute sec];
    rewrite (month_len_days_spec y m Hm); pose proof (mlen_bounds y m Hm) as Hb.
  - destruct (d >? mlen y m) eqn:E; [lia|]. exists y, m, d. unfold valid_date. repeat split; lia.
  - destruct (d >? mlen y m) eqn:E.
    + unfold set_md. cbn [year month day hour minute sec].
      destruct (Z.eq_dec m 12) as [->|Hne].
      * change (12 + 1) with 13. rewrite balance_month_13. cbn [bind].
        destruct (IH (mkdt (y + 1) 1 (d - mlen y 12) h mi s)) as (y' & m' & d' & H1 & H2 & H3);
          cbn [year month day hour minute sec] in *; try lia.
        exists y', m', d'. rewrite H1, H2. change (mlen y 12) with 31.
        rewrite month_step_abs_dec. split; [reflexivity|]. split; [reflexivity|exact H3].
      * rewrite balance_month_noop by (cbn [month]; lia). cbn [bind].
        destruct (IH (mkdt y (m + 1) (d - mlen y m) h mi s)) as (y' & m' & d' & H1 & H2 & H3);
          cbn [year month day hour minute sec] in *; try lia.
        exists y', m', d'. rewrite H1, H2, month_step_abs by lia. split; [reflexivity|]. split; [reflexivity|exact H3].
    + exists y, m, d. unfold valid_date. repeat split; lia.
Qed.

Lemma balance_day_spec fuel t : 1 <= month t <= 12 -> 1 <= day t ->
  Z.of_nat fuel * 365 >= day t - 366 -> (14 <= fuel)%nat ->
  exists y' m' d', balance_day true fuel t = Ok (mkdt y' m' d' (hour t) (minute t) (sec t)) /\
    abs_days_fast y' m' d' = abs_days_fast (year t) (month t) (day t) /\ valid_date y' m' d'.
Proof.
  intros Hm Hd Hf H14. unfold balance_day. rewrite balance_month_noop by lia. cbn [bind].
  destruct (year_loop_spec fuel t Hm Hd Hf) as (y1 & d1 & H1 & H2 & H3 & _). rewrite H1. cbn [bind].
  destruct (month_loop_spec fuel (set_yd t y1 d1)) as (y' & m' & d' & H4 & H5 & H6);
    unfold set_yd in *; cbn [year month day hour minute sec] in *; try lia.
  exists y', m', d'. rewrite H4, H5, H2. split; [reflexivity|]. split; [reflexivity|exact H6].
Qed.

(* the seconds / minutes / hours cascade *)
Definition dayfuel_ok (fuel : nat) (days : Z) : Prop :=
  Z.of_nat fuel * 365 >= days - 366 /\ (14 <= fuel)%nat.

Lemma balance_hour_spec fuel t :
  1 <= month t <= 12 -> 1 <= day t -> 0 <= hour t -> 0 <= minute t < 60 -> 0 <= sec t < 60 ->
  dayfuel_ok fuel (day t + hour t / 24) ->
  exists t', balance_hour true fuel t = Ok t' /\ valid_dt t' /\ secs_fast t' = secs_fast t.
Proof.
  destruct t as [y m d h mi s]; cbn [year month day hour minute sec].
  intros Hm Hd Hh Hmi Hs [Hf H14]. unfold balance_hour. cbn [year month day hour minute sec].
  destruct (h >? 23) eqn:E.
  - assert (((0 <=? h - 24 * (h / 24)) && (h - 24 * (h / 24) <? 24)) = true) as -> by lia.
    destruct (balance_day_spec fuel (mkdt y m (d + h / 24) (h - 24 * (h / 24)) mi s)) as (y' & m' & d' & H1 & H2 & H3);
      cbn [year month day hour minute sec] in *; try lia.
    eexists; split; [exact H1|]. split.
    + unfold valid_dt; cbn [year month day hour minute sec]. repeat split; try apply H3; lia.
    + unfold secs_fast, tod; cbn [year month day hour minute sec]. rewrite H2.
      unfold abs_days_fast. lia.
  - destruct (balance_day_spec fuel (mkdt y m d h mi s)) as (y' & m' & d' & H1 & H2 & H3);
      cbn [year month day hour minute sec] in *; try lia.
    eexists; split; [exact H1|]. split.
    + unfold valid_dt; cbn [year month day hour minute sec]. repeat split; try apply H3; lia.
    + unfold secs_fast, tod; cbn [year month day hour minute sec]. rewrite H2. reflexivity.
Qed.

Lemma balance_min_spec fuel t :
  1 <= month t <= 12 -> 1 <= day t -> 0 <= hour t -> 0 <= minute t -> 0 <= sec t < 60 ->
  dayfuel_ok fuel (day t + (hour t + minute t / 60) / 24) ->
  exists t', balance_min true fuel t = Ok t' /\ valid_dt t' /\ secs_fast t' = secs_fast t.
Proof.
  destruct t as [y m d h mi s]; cbn [year month day hour minute sec].
  intros Hm Hd Hh Hmi Hs [Hf H14]. unfold balance_min. cbn [year month day hour minute sec].
  destruct (mi >? 59) eqn:E.
  - assert (((0 <=? mi - 60 * (mi / 60)) && (mi - 60 * (mi / 60) <? 60)) = true) as -> by lia.
    destruct (balance_hour_spec fuel (mkdt y m d (h + mi / 60) (mi - 60 * (mi / 60)) s)) as (t' & H1 & H2 & H3);
      cbn [year month day hour minute sec] in *; try lia; [split; lia|].
    exists t'. split; [exact H1|]. split; [exact H2|]. rewrite H3.
    unfold secs_fast, tod; cbn [year month day hour minute sec]. lia.
  - destruct (balance_hour_spec fuel (mkdt y m d h mi s)) as (t' & H1 & H2 & H3);
      cbn [year month day hour minute sec] in *; try lia; [split; lia|].
    exists t'. auto.
Qed.

Lemma balance_spec fuel t :
  1 <= month t <= 12 -> 1 <= day t -> 0 <= hour t -> 0 <= minute t -> 0 <= sec t ->
  dayfuel_ok fuel (day t + (hour t + (minute t + sec t / 60) / 60) / 24) ->
  exists t', balance true fuel t = Ok t' /\ valid_dt t' /\ secs_fast t' = secs_fast t.
Proof.
  destruct t as [y m d h mi s]; cbn [year month day hour minute sec].
  intros Hm Hd Hh Hmi Hs [Hf H14]. unfold balance. cbn [year month day hour minute sec].
  destruct (s >? 59) eqn:E.
  - assert (((0 <=? s - 60 * (s / 60)) && (s - 60 * (s / 60) <? 60)) = true) as -> by lia.
    destruct (balance_min_spec fuel (mkdt y m d h (mi + s / 60) (s - 60 * (s / 60)))) as (t' & H1 & H2 & H3);
      cbn [year month day hour minute sec] in *; try lia; [split; lia|].
    exists t'. split; [exact H1|]. split; [exact H2|]. rewrite H3.
    unfold secs_fast, tod; cbn [year month day hour minute sec]. lia.
  - destruct (balance_min_spec fuel (mkdt y m d h mi s)) as (t' & H1 & H2 & H3);
      cbn [year month day hour minute sec] in *; try lia; [split; lia|].
    exists t'. auto.
Qed.

(* ------------------------------------------------------------------------------------------ *)
(* D. canonical forms are unique                                                               *)

Lemma dby_fast_mono a b : a < b -> dby_fast a + ylen a <= dby_fast b.
Proof.
  intros H. rewrite <- dby_fast_succ.
  assert (G : forall n : nat, dby_fast (a + 1) <= dby_fast (a + 1 + Z.of_nat n)).
  { induction n as [|n IH]; [rewrite Z.add_0_r; lia|].
    replace (a + 1 + Z.of_nat (S n)) with (a + 1 + Z.of_nat n + 1) by lia.
    rewrite (dby_fast_succ (a + 1 + Z.of_nat n)). pose proof (ylen_bounds (a + 1 + Z.of_nat n)). lia. }
  specialize (G (Z.to_nat (b - (a + 1)))). now replace (a + 1 + Z.of_nat (Z.to_nat (b - (a + 1)))) with b in G by lia.
Qed.

Lemma doy_bounds y m d : valid_date y m d -> 0 <= dbm_fast y m + (d - 1) < ylen y.
Proof.
  intros [Hm Hd]. unfold dbm_fast, ylen, mlen in *.
  month_cases m Hm; cbn [Z.ltb Z.compare Pos.compare Pos.compare_cont andb] in *; destruct (leap y); lia.
Qed.

Lemma dbm_fast_mono y m m' : 1 <= m < m' -> m' <= 12 -> dbm_fast y m + mlen y m <= dbm_fast y m'.
Proof.
  intros H1 H2. unfold dbm_fast, mlen.
  assert (m = 1 \/ m = 2 \/ m = 3 \/ m = 4 \/ m = 5 \/ m = 6 \/ m = 7 \/ m = 8 \/ m = 9 \/ m = 10 \/ m = 11) as Hc by lia.
  assert (m' = 2 \/ m' = 3 \/ m' = 4 \/ m' = 5 \/ m' = 6 \/ m' = 7 \/ m' = 8 \/ m' = 9 \/ m' = 10 \/ m' = 11 \/ m' = 12) as Hc' by lia.
  destruct Hc as [->|[->|[->|[->|[->|[->|[->|[->|[->|[->| ->]]]]]]]]]];
  destruct Hc' as [->|[->|[->|[->|[->|[->|[->|[->|[->|[->| ->]]]]]]]]]]; try lia;
    cbn [Z.ltb Z.compare Pos.compare Pos.compare_cont andb]; destruct (leap y); lia.
Qed.

Lemma date_unique y1 m1 d1 y2 m2 d2 :
  valid_date y1 m1 d1 -> valid_date y2 m2 d2 ->
  abs_days_fast y1 m1 d1 = abs_days_fast y2 m2 d2 -> y1 = y2 /\ m1 = m2 /\ d1 = d2.
Proof.
  intros V1 V2 H. unfold abs_days_fast in H.
  pose proof (doy_bounds _ _ _ V1) as B1. pose proof (doy_bounds _ _ _ V2) as B2.
  assert (y1 = y2) as ->.
  { destruct (Z.lt_trichotomy y1 y2) as [L|[E|L]]; [|exact E|].
    - pose proof (dby_fast_mono _ _ L). lia.
    - pose proof (dby_fast_mono _ _ L). lia. }
  destruct V1 as [Hm1 Hd1], V2 as [Hm2 Hd2].
  assert (m1 = m2) as ->.
  { destruct (Z.lt_trichotomy m1 m2) as [L|[E|L]]; [|exact E|].
    - pose proof (dbm_fast_mono y2 m1 m2). lia.
    - pose proof (dbm_fast_mono y2 m2 m1). lia. }
  repeat split; lia.
Qed.

Lemma civil_unique_fast t1 t2 : valid_dt t1 -> valid_dt t2 -> secs_fast t1 = secs_fast t2 -> t1 = t2.
Proof.
  destruct t1 as [y1 m1 d1 h1 i1 s1], t2 as [y2 m2 d2 h2 i2 s2]. unfold valid_dt, secs_fast, tod.
  cbn [year month day hour minute sec]. intros (V1 & Hh1 & Hi1 & Hs1) (V2 & Hh2 & Hi2 & Hs2) H.
  assert (abs_days_fast y1 m1 d1 = abs_days_fast y2 m2 d2) as Ha by lia.
  destruct (date_unique _ _ _ _ _ _ V1 V2 Ha) as (-> & -> & ->).
  assert (h1 = h2) as -> by lia. assert (i1 = i2) as -> by lia. assert (s1 = s2) as -> by lia.
  reflexivity.
Qed.

Lemma valid_month t : valid_dt t -> 1 <= month t <= 12.
Proof. intros [[H _] _]. exact H. Qed.

Lemma civil_unique t1 t2 : valid_dt t1 -> valid_dt t2 -> secs_of_civil t1 = secs_of_civil t2 -> t1 = t2.
Proof.
  intros V1 V2. rewrite !secs_closed_form by (now apply valid_month). now apply civil_unique_fast.
Qed.

(* reflection of the boolean validity test and of the oracle *)
Lemma valid_dtb_spec t : valid_dtb t = true <-> valid_dt t.
Proof.
  unfold valid_dtb, valid_dateb, valid_dt, valid_date. rewrite !andb_true_iff.
  rewrite !Z.leb_le, !Z.ltb_lt. tauto.
Qed.

Lemma oracle_new_spec s t : oracle_new s t = true <-> valid_dt t /\ secs_of_civil t = s.
Proof.
  unfold oracle_new. rewrite andb_true_iff, valid_dtb_spec, Z.eqb_eq. split; intros [V H]; split; auto.
  - now rewrite secs_closed_form by (now apply valid_month).
  - now rewrite <- secs_closed_form by (now apply valid_month).
Qed.

(* ------------------------------------------------------------------------------------------ *)
(* E. DateTime::new and Add<Duration>                                                          *)

Lemma fuel_for_ok s days : 0 <= s -> days <= 32 + s / 86400 -> forall fuel, (fuel_for s <= fuel)%nat -> dayfuel_ok fuel days.
Proof. unfold fuel_for, dayfuel_ok. intros Hs Hd fuel Hf. split; lia. Qed.

Theorem new_correct s fuel : 0 <= s -> (fuel_for s <= fuel)%nat ->
  exists t, new fuel s = Ok t /\ valid_dt t /\ secs_of_civil t = s.
Proof.
  intros Hs Hf. unfold new, new_gen.
  destruct (balance_spec fuel (mkdt 1970 1 1 0 0 s)) as (t & H1 & H2 & H3);
    cbn [year month day hour minute sec]; try lia.
  { apply (fuel_for_ok s); try assumption. lia. }
  exists t. split; [exact H1|]. split; [exact H2|].
  rewrite secs_closed_form by (now apply valid_month). rewrite H3.
  unfold secs_fast, tod. cbn [year month day hour minute sec].
  change (abs_days_fast 1970 1 1) with 0. lia.
Qed.

Theorem new_fuel_independent s f1 f2 : 0 <= s -> (fuel_for s <= f1)%nat -> (fuel_for s <= f2)%nat ->
  new f1 s = new f2 s /\ new f1 s <> OutOfFuel.
Proof.
  intros Hs H1 H2.
  destruct (new_correct s f1 Hs H1) as (t1 & E1 & V1 & S1).
  destruct (new_correct s f2 Hs H2) as (t2 & E2 & V2 & S2).
  rewrite E1, E2. split; [|discriminate]. f_equal. apply civil_unique; congruence.
Qed.

Theorem add_correct t secs fuel : valid_dt t -> 0 <= secs -> sec t + secs <= i64_max ->
  (fuel_for secs <= fuel)%nat ->
  exists t', add fuel t secs = Ok t' /\ valid_dt t' /\ secs_of_civil t' = secs_of_civil t + secs.
Proof.
  intros V Hs Hmax Hf. pose proof V as V0. destruct V as ((Hm & Hd) & Hh & Hi & Hsec).
  pose proof (mlen_bounds (year t) (month t) Hm) as Hb.
  unfold add, add_gen.
  assert (secs >? i64_max = false) as -> by lia.
  assert (sec t + secs >? i64_max = false) as -> by lia.
  destruct (balance_spec fuel (mkdt (year t) (month t) (day t) (hour t) (minute t) (sec t + secs))) as (t' & H1 & H2 & H3);
    cbn [year month day hour minute sec]; try lia.
  { apply (fuel_for_ok secs); try assumption. lia. }
  exists t'. split; [exact H1|]. split; [exact H2|].
  rewrite !secs_closed_form by (now apply valid_month). rewrite H3.
  unfold secs_fast, tod. cbn [year month day hour minute sec]. lia.
Qed.

(* "convert to seconds, add, convert back" as an equation between the two code paths *)
Theorem add_is_new_of_sum t secs fuel fuel' : valid_dt t -> 0 <= secs_of_civil t -> 0 <= secs ->
  sec t + secs <= i64_max -> (fuel_for secs <= fuel)%nat -> (fuel_for (secs_of_civil t + secs) <= fuel')%nat ->
  add fuel t secs = new fuel' (secs_of_civil t + secs).
Proof.
  intros V H0 Hs Hmax Hf Hf'.
  destruct (add_correct t secs fuel V Hs Hmax Hf) as (t1 & E1 & V1 & S1).
  destruct (new_correct (secs_of_civil t + secs) fuel' ltac:(lia) Hf') as (t2 & E2 & V2 & S2).
  rewrite E1, E2. f_equal. apply civil_unique; congruence.
Qed.

Theorem add_rejects t secs fuel : i64_max < secs -> add fuel t secs = PanicTryFrom.
Proof. intros H. unfold add, add_gen. now assert (secs >? i64_max = true) as -> by lia. Qed.

(* the tree before the repair of D12 *)
Definition d12_start : dt := mkdt 2023 3 1 0 0 0.
Definition d12_secs : Z := 366 * 86400.
Theorem add_prefix_refuted :
  valid_dt d12_start /\
  add_prefix 20 d12_start d12_secs = Ok (mkdt 2024 3 2 0 0 0) /\
  add 20 d12_start d12_secs = Ok (mkdt 2024 3 1 0 0 0) /\
  secs_of_civil (mkdt 2024 3 2 0 0 0) <> secs_of_civil d12_start + d12_secs.
Proof.
  split; [apply valid_dtb_spec; vm_compute; reflexivity|].
  split; [vm_compute; reflexivity|]. split; [vm_compute; reflexivity|].
  vm_compute. discriminate.
Qed.

(* ------------------------------------------------------------------------------------------ *)
(* F. the renderings are fixed-width, zero-padded and read back                                *)

Definition nrange100 : list N := map N.of_nat (seq 0 100).
Lemma in_nrange100 n : (n < 100)%N -> In n nrange100.
Proof.
  intros H. unfold nrange100. apply in_map_iff. exists (N.to_nat n). split; [apply N2Nat.id|].
  apply in_seq. lia.
Qed.

Definition optZ_eqb := option_beq Z.eqb.
Lemma optZ_eqb_eq a b : optZ_eqb a b = true -> a = b.
Proof.
  destruct a, b; cbn; try discriminate; try reflexivity. intros H. apply Z.eqb_eq in H. now subst.
Qed.

Definition chk2 (n : N) : bool :=
  match fmt_int 2 (Z.of_N n) with [a; b] => optZ_eqb (rd2 a b) (Some (Z.of_N n)) | _ => false end.
Definition chk4 (a b : N) : bool :=
  let n := (100 * a + b)%N in
  match fmt_int 4 (Z.of_N n) with [p; q; r; s] => optZ_eqb (rd4 p q r s) (Some (Z.of_N n)) | _ => false end.

(* finite sweeps: 100 and 100 x 100 values *)
Lemma sweep2 : forallb chk2 nrange100 = true.
Proof. vm_compute. reflexivity. Qed.
Lemma sweep4 : forallb (fun a => forallb (chk4 a) nrange100) nrange100 = true.
Proof. vm_compute. reflexivity. Qed.

Lemma fmt2_ok z : 0 <= z < 100 -> exists a b, fmt_int 2 z = [a; b] /\ rd2 a b = Some z.
Proof.
  intros Hz. pose proof sweep2 as H. rewrite forallb_forall in H.
  specialize (H (Z.to_N z) (in_nrange100 (Z.to_N z) ltac:(lia))). unfold chk2 in H.
  rewrite Z2N.id in H by lia.
  destruct (fmt_int 2 z) as [|a [|b [|c l]]]; try discriminate.
  exists a, b. split; [reflexivity|]. now apply optZ_eqb_eq.
Qed.

Lemma fmt4_ok z : 0 <= z < 10000 -> exists a b c d, fmt_int 4 z = [a; b; c; d] /\ rd4 a b c d = Some z.
Proof.
  intros Hz. pose proof sweep4 as H. rewrite forallb_forall in H.
  specialize (H (Z.to_N (z / 100)) (in_nrange100 (Z.to_N (z / 100)) ltac:(lia))). rewrite forallb_forall in H.
  specialize (H (Z.to_N (z mod 100)) (in_nrange100 (Z.to_N (z mod 100)) ltac:(lia))). unfold chk4 in H.
  replace (Z.of_N (100 * Z.to_N (z / 100) + Z.to_N (z mod 100))) with z in H by lia.
  destruct (fmt_int 4 z) as [|a [|b [|c [|d [|e l]]]]]; try discriminate.
  exists a, b, c, d. split; [reflexivity|]. now apply optZ_eqb_eq.
Qed.

Definition in_format_range (t : dt) : Prop :=
  0 <= year t <= 9999 /\ 0 <= month t < 100 /\ 0 <= day t < 100 /\
  0 <= hour t < 100 /\ 0 <= minute t < 100 /\ 0 <= sec t < 100.

Lemma valid_in_format_range t : valid_dt t -> 0 <= year t <= 9999 -> in_format_range t.
Proof.
  intros ((Hm & Hd) & Hh & Hi & Hs) Hy. pose proof (mlen_bounds (year t) (month t) Hm). unfold in_format_range. lia.
Qed.

Theorem fmt_iso_reads_back t : in_format_range t ->
  length (fmt_iso t) = 20%nat /\ parse_iso (fmt_iso t) = Some t.
Proof.
  destruct t as [y m d h i s]. unfold in_format_range, fmt_iso. cbn [year month day hour minute sec].
  intros (Hy & Hm & Hd & Hh & Hi & Hs).
  destruct (fmt4_ok y ltac:(lia)) as (y1 & y2 & y3 & y4 & -> & Ey).
  destruct (fmt2_ok m Hm) as (m1 & m2 & -> & Em). destruct (fmt2_ok d Hd) as (d1 & d2 & -> & Ed).
  destruct (fmt2_ok h Hh) as (h1 & h2 & -> & Eh). destruct (fmt2_ok i Hi) as (i1 & i2 & -> & Ei).
  destruct (fmt2_ok s Hs) as (s1 & s2 & -> & Es).
  cbn [app length]. split; [reflexivity|].
  unfold parse_iso. rewrite !N.eqb_refl. cbn [andb]. now rewrite Ey, Em, Ed, Eh, Ei, Es.
Qed.

Theorem fmt_compact_reads_back t : in_format_range t ->
  length (fmt_compact t) = 16%nat /\ parse_compact (fmt_compact t) = Some t.
Proof.
  destruct t as [y m d h i s]. unfold in_format_range, fmt_compact. cbn [year month day hour minute sec].
  intros (Hy & Hm & Hd & Hh & Hi & Hs).
  destruct (fmt4_ok y ltac:(lia)) as (y1 & y2 & y3 & y4 & -> & Ey).
  destruct (fmt2_ok m Hm) as (m1 & m2 & -> & Em). destruct (fmt2_ok d Hd) as (d1 & d2 & -> & Ed).
  destruct (fmt2_ok h Hh) as (h1 & h2 & -> & Eh). destruct (fmt2_ok i Hi) as (i1 & i2 & -> & Ei).
  destruct (fmt2_ok s Hs) as (s1 & s2 & -> & Es).
  cbn [app length]. split; [reflexivity|].
  unfold parse_compact. rewrite !N.eqb_refl. cbn [andb]. now rewrite Ey, Em, Ed, Eh, Ei, Es.
Qed.

Lemma dt_eqb_refl t : dt_eqb t t = true.
Proof. unfold dt_eqb. now rewrite !Z.eqb_refl. Qed.

Lemma oracle_iso_sound t : in_format_range t -> oracle_iso t (fmt_iso t) = true.
Proof.
  intros H. destruct (fmt_iso_reads_back t H) as [H1 H2]. unfold oracle_iso. rewrite H1, H2.
  cbn. apply dt_eqb_refl.
Qed.

(* instants up to 9999-12-31T23:59:59 have a four-digit year *)
Definition end_of_9999 : Z := 253402300800.   (* = secs_of_civil 10000-01-01T00:00:00 *)
Lemma year_le_9999 t : valid_dt t -> secs_of_civil t < end_of_9999 -> year t <= 9999.
Proof.
  intros V H. rewrite secs_closed_form in H by (now apply valid_month).
  destruct V as (Vd & Hh & Hi & Hs). pose proof (doy_bounds _ _ _ Vd) as B.
  destruct (Z_le_gt_dec (year t) 9999) as [L|G]; [exact L|exfalso].
  assert (dby_fast 10000 <= dby_fast (year t)).
  { destruct (Z.eq_dec (year t) 10000) as [->|Hne]; [lia|].
    pose proof (dby_fast_mono 10000 (year t) ltac:(lia)). pose proof (ylen_bounds 10000). lia. }
  change (dby_fast 10000) with 2932897 in *. unfold secs_fast, abs_days_fast, tod, end_of_9999 in H. lia.
Qed.

Lemma year_ge_1970 t : valid_dt t -> 0 <= secs_of_civil t -> 1970 <= year t.
Proof.
  intros V H. rewrite secs_closed_form in H by (now apply valid_month).
  destruct V as (Vd & Hh & Hi & Hs). pose proof (doy_bounds _ _ _ Vd) as B.
  destruct (Z_le_gt_dec 1970 (year t)) as [L|G]; [exact L|exfalso].
  pose proof (dby_fast_mono (year t) 1970 ltac:(lia)).
  change (dby_fast 1970) with 0 in *. unfold secs_fast, abs_days_fast, tod in H. lia.
Qed.

Theorem iso8601_utc_correct s fuel : 0 <= s < end_of_9999 -> (fuel_for s <= fuel)%nat ->
  exists b, iso8601_utc fuel s = Some b /\ length b = 20%nat /\
            exists t, parse_iso b = Some t /\ valid_dt t /\ secs_of_civil t = s.
Proof.
  intros Hs Hf. unfold iso8601_utc. destruct (new_correct s fuel ltac:(lia) Hf) as (t & E & V & S).
  rewrite E. exists (fmt_iso t).
  assert (R : in_format_range t).
  { apply valid_in_format_range; [exact V|]. pose proof (year_le_9999 t V ltac:(lia)).
    pose proof (year_ge_1970 t V ltac:(lia)). lia. }
  destruct (fmt_iso_reads_back t R) as [H1 H2]. split; [reflexivity|]. split; [exact H1|].
  exists t. auto.
Qed.

Lemma oracle_iso_at_sound s fuel b : 0 <= s < end_of_9999 -> (fuel_for s <= fuel)%nat ->
  iso8601_utc fuel s = Some b -> oracle_iso_at s b = true.
Proof.
  intros Hs Hf E. destruct (iso8601_utc_correct s fuel Hs Hf) as (b' & E' & L & t & P & V & S).
  rewrite E in E'. injection E' as <-. unfold oracle_iso_at. rewrite P, L. cbn [N.of_nat].
  change (N.of_nat 20 =? 20)%N with true. cbn [andb]. apply oracle_new_spec. auto.
Qed.

(* ------------------------------------------------------------------------------------------ *)
(* G. the O(1) successor and the hinted evaluation agree with the fuelled model                *)

Lemma next_day_correct y m d : valid_date y m d ->
  let '(y', m', d') := next_day (y, m, d) in
  valid_date y' m' d' /\ abs_days_fast y' m' d' = abs_days_fast y m d + 1.
Proof.
  intros [Hm Hd]. unfold next_day. destruct (d <? mlen y m) eqn:E.
  - split; [split; lia|]. unfold abs_days_fast. lia.
  - assert (d = mlen y m) as -> by lia. destruct (m <? 12) eqn:E12.
    + pose proof (mlen_bounds y (m + 1) ltac:(lia)). split; [split; lia|].
      pose proof (month_step_abs y m (mlen y m) ltac:(lia)) as H1. unfold abs_days_fast in *. lia.
    + assert (m = 12) as -> by lia. split; [split; [lia|cbn; lia]|].
      pose proof (month_step_abs_dec y (mlen y 12)) as H1. change (mlen y 12) with 31 in *.
      unfold abs_days_fast in *. lia.
Qed.

Definition valid_date3 (x : Z * Z * Z) : Prop := let '(y, m, d) := x in valid_date y m d.
Definition abs3 (x : Z * Z * Z) : Z := let '(y, m, d) := x in abs_days_fast y m d.

Lemma iter_days_correct n : forall x, valid_date3 x ->
  valid_date3 (iter_days n x) /\ abs3 (iter_days n x) = abs3 x + Z.of_nat n.
Proof.
  induction n as [|n IH]; intros [[y m] d] V; cbn [iter_days].
  - split; [exact V|lia].
  - pose proof (next_day_correct y m d V) as H. destruct (next_day (y, m, d)) as [[y' m'] d'].
    destruct H as [V' A']. destruct (IH (y', m', d') V') as [V'' A''].
    split; [exact V''|]. rewrite A''. cbn [abs3]. lia.
Qed.

Lemma at_sod_valid x sod : valid_date3 x -> 0 <= sod < 86400 ->
  valid_dt (at_sod x sod) /\ secs_fast (at_sod x sod) = 86400 * abs3 x + sod.
Proof.
  destruct x as [[y m] d]. intros V Hs. unfold at_sod, valid_dt, secs_fast, tod.
  cbn [year month day hour minute sec abs3]. split; [split; [exact V|lia]|lia].
Qed.

Theorem walk_correct k sod fuel : 0 <= sod < 86400 ->
  (fuel_for (86400 * Z.of_nat k + sod) <= fuel)%nat ->
  new fuel (86400 * Z.of_nat k + sod) = Ok (at_sod (iter_days k epoch_date) sod).
Proof.
  intros Hs Hf.
  destruct (new_correct (86400 * Z.of_nat k + sod) fuel ltac:(lia) Hf) as (t & E & V & S). rewrite E. f_equal.
  assert (V0 : valid_date3 epoch_date) by (cbn; unfold valid_date; cbn; lia).
  destruct (iter_days_correct k epoch_date V0) as [V1 A1].
  destruct (at_sod_valid _ sod V1 Hs) as [V2 S2].
  apply civil_unique_fast; [exact V|exact V2|].
  rewrite S2, A1. rewrite secs_closed_form in S by (now apply valid_month). rewrite S.
  change (abs3 epoch_date) with 0. lia.
Qed.

Theorem new_hinted_eq hint s : new_hinted hint s = new (fuel_for s) s.
Proof.
  unfold new_hinted.
  destruct ((0 <=? s) && oracle_new s (at_sod hint (s mod 86400))) eqn:E; [|reflexivity].
  apply andb_true_iff in E. destruct E as [E0 E1]. apply Z.leb_le in E0.
  apply oracle_new_spec in E1. destruct E1 as [V S].
  destruct (new_correct s (fuel_for s) E0 (le_n _)) as (t & E & V' & S'). rewrite E. f_equal.
  apply civil_unique; congruence.
Qed.

Theorem new_fast_eq s : new_fast s = new (fuel_for s) s.
Proof. unfold new_fast. apply new_hinted_eq. Qed.

Theorem iso8601_utc_fast_eq s : iso8601_utc_fast s = iso8601_utc (fuel_for s) s.
Proof. unfold iso8601_utc_fast, iso8601_utc. now rewrite new_fast_eq. Qed.

Lemma valid_dateb_spec y m d : valid_dateb y m d = true <-> valid_date y m d.
Proof.
  unfold valid_dateb, valid_date. rewrite !andb_true_iff, !Z.leb_le. tauto.
Qed.

Lemma day_hinted_date hint k : 0 <= k ->
  valid_date3 (day_hinted hint k) /\ abs3 (day_hinted hint k) = k.
Proof.
  intros Hk. unfold day_hinted. destruct hint as [[y m] d].
  destruct (valid_dateb y m d && (abs_days_fast y m d =? k)) eqn:E.
  - apply andb_true_iff in E. destruct E as [E1 E2]. apply valid_dateb_spec in E1. apply Z.eqb_eq in E2.
    split; assumption.
  - destruct (new_correct (86400 * k) (fuel_for (86400 * k)) ltac:(lia) (le_n _)) as (t & E' & V & S).
    rewrite E'. rewrite secs_closed_form in S by (now apply valid_month).
    destruct V as (Vd & Hh & Hi & Hs). cbn [valid_date3 abs3]. split; [exact Vd|].
    unfold secs_fast, tod in S. lia.
Qed.

Theorem day_hinted_correct hint k sod fuel : 0 <= k -> 0 <= sod < 86400 ->
  (fuel_for (86400 * k + sod) <= fuel)%nat ->
  new fuel (86400 * k + sod) = Ok (at_sod (day_hinted hint k) sod).
Proof.
  intros Hk Hs Hf.
  destruct (new_correct (86400 * k + sod) fuel ltac:(lia) Hf) as (t & E & V & S). rewrite E. f_equal.
  destruct (day_hinted_date hint k Hk) as [V1 A1].
  destruct (at_sod_valid _ sod V1 Hs) as [V2 S2].
  apply civil_unique_fast; [exact V|exact V2|].
  rewrite S2, A1. rewrite secs_closed_form in S by (now apply valid_month). exact S.
Qed.

(* walking n days from the date of day k gives the date of day k + n *)
Theorem walk_from_correct hint k n sod fuel : 0 <= k -> 0 <= sod < 86400 ->
  (fuel_for (86400 * (k + Z.of_nat n) + sod) <= fuel)%nat ->
  new fuel (86400 * (k + Z.of_nat n) + sod) = Ok (at_sod (iter_days n (day_hinted hint k)) sod).
Proof.
  intros Hk Hs Hf.
  destruct (new_correct (86400 * (k + Z.of_nat n) + sod) fuel ltac:(lia) Hf) as (t & E & V & S). rewrite E. f_equal.
  destruct (day_hinted_date hint k Hk) as [V1 A1].
  destruct (iter_days_correct n _ V1) as [V2 A2].
  destruct (at_sod_valid _ sod V2 Hs) as [V3 S3].
  apply civil_unique_fast; [exact V|exact V3|].
  rewrite S3, A2, A1. rewrite secs_closed_form in S by (now apply valid_month). exact S.
Qed.

(* ------------------------------------------------------------------------------------------ *)
(* H. the oracles are the boolean forms of the theorems                                        *)

Lemma oracle_new_sound s fuel t : 0 <= s -> (fuel_for s <= fuel)%nat -> new fuel s = Ok t -> oracle_new s t = true.
Proof.
  intros Hs Hf E. destruct (new_correct s fuel Hs Hf) as (t' & E' & V & S).
  rewrite E in E'. injection E' as <-. apply oracle_new_spec. auto.
Qed.

Lemma oracle_add_spec t d obs : valid_dt t ->
  (oracle_add t d obs = true <-> valid_dt obs /\ secs_of_civil obs = secs_of_civil t + d).
Proof.
  intros Vt. unfold oracle_add. rewrite andb_true_iff, valid_dtb_spec, Z.eqb_eq.
  rewrite (secs_closed_form t) by (now apply valid_month).
  split; intros [V H]; split; auto.
  - now rewrite secs_closed_form by (now apply valid_month).
  - now rewrite <- secs_closed_form by (now apply valid_month).
Qed.

Lemma oracle_add_sound t secs fuel t' : valid_dt t -> 0 <= secs -> sec t + secs <= i64_max ->
  (fuel_for secs <= fuel)%nat -> add fuel t secs = Ok t' -> oracle_add t secs t' = true.
Proof.
  intros V Hs Hmax Hf E. destruct (add_correct t secs fuel V Hs Hmax Hf) as (t1 & E1 & V1 & S1).
  rewrite E in E1. injection E1 as <-. apply oracle_add_spec; auto.
Qed.

Lemma fmt_iso_fixed_width t : valid_dt t -> 0 <= year t <= 9999 ->
  length (fmt_iso t) = 20%nat /\ parse_iso (fmt_iso t) = Some t.
Proof. intros V Hy. exact (fmt_iso_reads_back t (valid_in_format_range t V Hy)). Qed.

Lemma fmt_compact_fixed_width t : valid_dt t -> 0 <= year t <= 9999 ->
  length (fmt_compact t) = 16%nat /\ parse_compact (fmt_compact t) = Some t.
Proof. intros V Hy. exact (fmt_compact_reads_back t (valid_in_format_range t V Hy)). Qed.

(* ------------------------------------------------------------------------------------------ *)
(* I. size of the result (for the i64 argument)                                                 *)

Lemma dby_fast_lower n : 365 * Z.of_nat n <= dby_fast (1970 + Z.of_nat n).
Proof.
  induction n as [|n IH]; [vm_compute; discriminate|].
  replace (1970 + Z.of_nat (S n)) with (1970 + Z.of_nat n + 1) by lia.
  rewrite dby_fast_succ. pose proof (ylen_bounds (1970 + Z.of_nat n)). lia.
Qed.

(* the year of a valid date-time denoting instant s >= 0 lies in 1970 .. 1970 + s/31536000 *)
Theorem result_year_bound t s : valid_dt t -> secs_of_civil t = s -> 0 <= s ->
  1970 <= year t <= 1970 + s / 31536000.
Proof.
  intros V S Hs. pose proof (year_ge_1970 t V ltac:(lia)) as Hy. split; [exact Hy|].
  rewrite secs_closed_form in S by (now apply valid_month).
  destruct V as (Vd & Hh & Hi & Hsec). pose proof (doy_bounds _ _ _ Vd) as B.
  pose proof (dby_fast_lower (Z.to_nat (year t - 1970))) as L.
  replace (1970 + Z.of_nat (Z.to_nat (year t - 1970))) with (year t) in L by lia.
  unfold secs_fast, abs_days_fast, tod in S. lia.
Qed.
