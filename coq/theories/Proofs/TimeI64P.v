(* Proofs/TimeI64P.v -- no i64 arithmetic site of src/time.rs overflows on the stated domains:
   the overflow-instrumented functions of Model/TimeI64.v equal the unbounded ones of Model/Time.v.
   Loop invariant: year >= i64::MIN, 1 <= day <= i64::MAX, year + day <= i64::MAX, 1 <= month <= 12;
   "year + day" never grows (a year step trades >= 365 days for one year, a month step >= 28 days
   for at most one year). *)
From Coq Require Import ZArith Lia.
From SV Require Import Base.Bytes Spec.Civil Model.Time Model.TimeI64 Proofs.TimeP.
Open Scope Z_scope.
Ltac Zify.zify_post_hook ::= Z.div_mod_to_equations.

Lemma ck_in x k : in_i64 x -> ck x k = k x.
Proof.
  unfold in_i64, ck, in_i64b. intros [H1 H2].
  assert ((i64_min <=? x) = true) as -> by lia. assert ((x <=? i64_max) = true) as -> by lia. reflexivity.
Qed.

Ltac ck_ok := rewrite ck_in by (unfold in_i64, i64_min, i64_max in *; lia).

Definition inv (t : dt) : Prop :=
  i64_min <= year t /\ 1 <= day t <= i64_max /\ year t + day t <= i64_max /\ 1 <= month t <= 12.

Lemma balance_month_chk_eq t : i64_min <= year t < i64_max -> 1 <= month t <= 13 ->
  balance_month_chk t = balance_month t.
Proof.
  intros Hy Hm. unfold balance_month_chk, balance_month. destruct (month t >? 12) eqn:E; [|reflexivity].
  assert (month t = 13) as Hm13 by lia. rewrite Hm13.
  change ((13 - 1) / 12) with 1. change (12 * 1) with 12. change (13 - 12) with 1.
  repeat ck_ok. reflexivity.
Qed.

Lemma year_len_days_bounds y : 365 <= year_len_days y <= 366.
Proof. rewrite year_len_days_spec. apply ylen_bounds. Qed.

Lemma year_loop_chk_eq fuel : forall t, inv t ->
  year_loop_chk fuel t = year_loop true fuel t /\
  forall t', year_loop true fuel t = Ok t' -> inv t'.
Proof.
  induction fuel as [|f IH]; intros [y m d h mi s]; unfold inv; cbn [year month day hour minute sec];
    intros (Hy & Hd & Hyd & Hm); cbn [year_loop_chk year_loop year month day hour minute sec andb].
  - destruct (d >? 366); split; try reflexivity; try discriminate.
    intros t' E. injection E as <-. unfold inv. cbn [year month day]. lia.
  - destruct (d >? 366) eqn:E.
    + pose proof (year_len_days_bounds y) as B0. pose proof (year_len_days_bounds (y + 1)) as B1.
      unfold set_yd. cbn [year month day hour minute sec].
      destruct (m >? 2).
      * repeat ck_ok. apply IH. unfold inv. cbn [year month day]. lia.
      * repeat ck_ok. apply IH. unfold inv. cbn [year month day]. lia.
    + split; [reflexivity|]. intros t' E'. injection E' as <-. unfold inv. cbn [year month day]. lia.
Qed.

Lemma month_loop_chk_eq fuel : forall t, inv t -> month_loop_chk fuel t = month_loop fuel t.
Proof.
  induction fuel as [|f IH]; intros [y m d h mi s]; unfold inv; cbn [year month day hour minute sec];
    intros (Hy & Hd & Hyd & Hm); cbn [month_loop_chk month_loop year month day hour minute sec];
    rewrite (month_len_days_spec y m Hm); [reflexivity|].
  pose proof (mlen_bounds y m Hm) as Hb.
  destruct (d >? mlen y m) eqn:E; [|reflexivity].
  repeat ck_ok. unfold set_md. cbn [year month day hour minute sec].
  rewrite balance_month_chk_eq by (cbn [year month]; lia).
  destruct (Z.eq_dec m 12) as [->|Hne].
  - change (12 + 1) with 13. rewrite balance_month_13. cbn [bind]. apply IH.
    unfold inv. cbn [year month day]. lia.
  - rewrite balance_month_noop by (cbn [month]; lia). cbn [bind]. apply IH.
    unfold inv. cbn [year month day]. lia.
Qed.

Lemma balance_day_chk_eq fuel t : inv t -> balance_day_chk fuel t = balance_day true fuel t.
Proof.
  intros Hi. pose proof Hi as (Hy & Hd & Hyd & Hm). unfold balance_day_chk, balance_day.
  rewrite balance_month_chk_eq by lia. rewrite balance_month_noop by lia. cbn [bind].
  destruct (year_loop_chk_eq fuel t Hi) as [E Hout]. rewrite E.
  destruct (year_loop true fuel t) as [t'| | | | |]; cbn [bind]; try reflexivity.
  apply month_loop_chk_eq. now apply Hout.
Qed.

(* the cascade; D = the day number reached once hours, minutes and seconds are carried *)
Lemma balance_hour_chk_eq fuel t :
  1 <= month t <= 12 -> i64_min <= year t -> 1 <= day t -> 0 <= hour t <= i64_max ->
  day t + hour t / 24 <= i64_max -> year t + (day t + hour t / 24) <= i64_max ->
  balance_hour_chk fuel t = balance_hour true fuel t.
Proof.
  destruct t as [y m d h mi s]; cbn [year month day hour minute sec]. intros Hm Hy Hd Hh Hdd Hyd.
  unfold balance_hour_chk, balance_hour. cbn [year month day hour minute sec].
  destruct (h >? 23) eqn:E.
  - repeat ck_ok.
    destruct ((0 <=? h - 24 * (h / 24)) && (h - 24 * (h / 24) <? 24)); [|reflexivity].
    apply balance_day_chk_eq. unfold inv, i64_min, i64_max in *. cbn [year month day]. lia.
  - apply balance_day_chk_eq. unfold inv, i64_min, i64_max in *. cbn [year month day]. lia.
Qed.

Lemma balance_min_chk_eq fuel t :
  1 <= month t <= 12 -> i64_min <= year t -> 1 <= day t -> 0 <= hour t -> 0 <= minute t <= i64_max ->
  hour t + minute t / 60 <= i64_max ->
  day t + (hour t + minute t / 60) / 24 <= i64_max ->
  year t + (day t + (hour t + minute t / 60) / 24) <= i64_max ->
  balance_min_chk fuel t = balance_min true fuel t.
Proof.
  destruct t as [y m d h mi s]; cbn [year month day hour minute sec]. intros Hm Hy Hd Hh Hmi Hhm Hdd Hyd.
  unfold balance_min_chk, balance_min. cbn [year month day hour minute sec].
  destruct (mi >? 59) eqn:E.
  - repeat ck_ok.
    destruct ((0 <=? mi - 60 * (mi / 60)) && (mi - 60 * (mi / 60) <? 60)); [|reflexivity].
    apply balance_hour_chk_eq; cbn [year month day hour minute sec]; unfold i64_min, i64_max in *; lia.
  - apply balance_hour_chk_eq; cbn [year month day hour minute sec]; unfold i64_min, i64_max in *; lia.
Qed.

Lemma balance_chk_eq fuel t :
  1 <= month t <= 12 -> i64_min <= year t -> 1 <= day t -> 0 <= hour t -> 0 <= minute t -> 0 <= sec t <= i64_max ->
  minute t + sec t / 60 <= i64_max ->
  hour t + (minute t + sec t / 60) / 60 <= i64_max ->
  day t + (hour t + (minute t + sec t / 60) / 60) / 24 <= i64_max ->
  year t + (day t + (hour t + (minute t + sec t / 60) / 60) / 24) <= i64_max ->
  balance_chk fuel t = balance true fuel t.
Proof.
  destruct t as [y m d h mi s]; cbn [year month day hour minute sec]. intros Hm Hy Hd Hh Hmi Hs Hms Hhm Hdd Hyd.
  unfold balance_chk, balance. cbn [year month day hour minute sec].
  destruct (s >? 59) eqn:E.
  - repeat ck_ok.
    destruct ((0 <=? s - 60 * (s / 60)) && (s - 60 * (s / 60) <? 60)); [|reflexivity].
    apply balance_min_chk_eq; cbn [year month day hour minute sec]; unfold i64_min, i64_max in *; lia.
  - apply balance_min_chk_eq; cbn [year month day hour minute sec]; unfold i64_min, i64_max in *; lia.
Qed.

(* DateTime::new: every i64 argument s >= 0, every fuel *)
Theorem new_no_overflow s fuel : 0 <= s <= i64_max -> new_chk fuel s = new fuel s.
Proof.
  intros Hs. unfold new_chk, new, new_gen.
  assert (in_i64b s = true) as -> by (unfold in_i64b, i64_min, i64_max in *; lia).
  apply balance_chk_eq; cbn [year month day hour minute sec]; unfold i64_min, i64_max in *; lia.
Qed.

(* Add<Duration>: every valid date-time whose year leaves room for the days added *)
Theorem add_no_overflow t secs fuel : valid_dt t -> 0 <= secs -> sec t + secs <= i64_max ->
  i64_min <= year t -> year t + (sec t + secs) / 86400 + 33 <= i64_max ->
  add_chk fuel t secs = add fuel t secs.
Proof.
  intros ((Hm & Hd) & Hh & Hi & Hsec) Hs Hmax Hy Hroom.
  pose proof (mlen_bounds (year t) (month t) Hm) as Hb.
  unfold add_chk, add, add_gen.
  assert (secs >? i64_max = false) as -> by (unfold i64_max in *; lia).
  assert (sec t + secs >? i64_max = false) as -> by lia.
  ck_ok. apply balance_chk_eq; cbn [year month day hour minute sec]; unfold i64_min, i64_max in *; lia.
Qed.

(* the range the property covers, and far beyond: |year| <= 9.2 * 10^18 *)
Definition year_room : Z := 9200000000000000000.

Theorem no_intermediate_overflow :
  (forall s fuel, 0 <= s < 2 ^ 63 ->
     new_chk fuel s = new fuel s /\
     ((fuel_for s <= fuel)%nat -> exists t, new_chk fuel s = Ok t /\ dt_in_i64 t)) /\
  (forall t secs fuel, valid_dt t -> - year_room <= year t <= year_room ->
     0 <= secs -> sec t + secs < 2 ^ 63 ->
     add_chk fuel t secs = add fuel t secs /\
     ((fuel_for secs <= fuel)%nat -> exists t', add_chk fuel t secs = Ok t')).
Proof.
  change (2 ^ 63) with (i64_max + 1). split.
  - intros s fuel Hs. assert (E : new_chk fuel s = new fuel s) by (apply new_no_overflow; lia).
    split; [exact E|]. intros Hf. rewrite E.
    destruct (new_correct s fuel ltac:(lia) Hf) as (t & E' & V & S). exists t. split; [exact E'|].
    pose proof (result_year_bound t s V S ltac:(lia)) as Hy.
    destruct V as ((Hm & Hd) & Hh & Hi & Hsec). pose proof (mlen_bounds (year t) (month t) Hm).
    unfold dt_in_i64, in_i64, i64_min, i64_max in *. lia.
  - intros t secs fuel V Hy Hs Hmax.
    assert (E : add_chk fuel t secs = add fuel t secs).
    { pose proof V as (_ & _ & _ & Hsec).
      apply add_no_overflow; try assumption; unfold year_room, i64_min, i64_max in *; lia. }
    split; [exact E|]. intros Hf. rewrite E.
    destruct (add_correct t secs fuel V Hs ltac:(lia) Hf) as (t' & E' & _). now exists t'.
Qed.
