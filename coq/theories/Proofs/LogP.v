(* Proofs/LogP.v -- lemmas about Model/Log.v (property C18). *)
From SV Require Import Base.Bytes Base.BytesP Spec.Json8259 Model.Json Model.Log Proofs.JsonP.
From Coq Require Import ZArith Sorted.

(* ------------------------------------------------------------------ stable sorting by a key *)
Section StableSortP.
  Context {A : Type} (key : A -> N).

  Lemma insert_by_front x s : Forall (fun y => key x <= key y) s -> insert_by key x s = x :: s.
  Proof.
    destruct s as [|h r]; [reflexivity|]. intros H. inversion H as [|? ? Hh _]; subst.
    cbn [insert_by]. destruct (N.ltb_spec (key h) (key x)); [lia|reflexivity].
  Qed.

  Lemma insert_by_skip x a b :
    Forall (fun y => key y < key x) a -> insert_by key x (a ++ b) = a ++ insert_by key x b.
  Proof.
    induction a as [|h a IH]; intros H; [reflexivity|]. inversion H as [|? ? Hh Ha]; subst.
    cbn [app insert_by]. destruct (N.ltb_spec (key h) (key x)); [|lia]. now rewrite IH.
  Qed.

  Lemma bucket_key v l : Forall (fun y => key y = v) (bucket key v l).
  Proof.
    apply Forall_forall. intros y Hy. unfold bucket in Hy. apply filter_In in Hy as [_ Hy]. now apply N.eqb_eq.
  Qed.

  Lemma buckets_keys ks l : Forall (fun y => In (key y) ks) (buckets key ks l).
  Proof.
    apply Forall_forall. intros y Hy. unfold buckets in Hy. apply in_flat_map in Hy as (v & Hv & Hy).
    pose proof (bucket_key v l) as Hb. rewrite Forall_forall in Hb. now rewrite (Hb y Hy).
  Qed.

  Lemma bucket_cons_eq v x l : key x = v -> bucket key v (x :: l) = x :: bucket key v l.
  Proof. intros H. unfold bucket. cbn [filter]. now rewrite (proj2 (N.eqb_eq _ _) H). Qed.
  Lemma bucket_cons_ne v x l : key x <> v -> bucket key v (x :: l) = bucket key v l.
  Proof. intros H. unfold bucket. cbn [filter]. now rewrite (proj2 (N.eqb_neq _ _) H). Qed.

  Lemma buckets_cons_notin ks x l : ~ In (key x) ks -> buckets key ks (x :: l) = buckets key ks l.
  Proof.
    induction ks as [|v ks IH]; intros H; [reflexivity|].
    unfold buckets. cbn [flat_map]. fold (buckets key ks (x :: l)). fold (buckets key ks l).
    rewrite bucket_cons_ne, IH; [reflexivity| |]; intros Hc; apply H; [right; exact Hc|left; now symmetry].
  Qed.

  Lemma insert_buckets ks : StronglySorted N.lt ks ->
    forall x l, In (key x) ks -> insert_by key x (buckets key ks l) = buckets key ks (x :: l).
  Proof.
    induction 1 as [|v ks Hs IH Hv]; intros x l Hin; [destruct Hin|].
    unfold buckets. cbn [flat_map]. fold (buckets key ks (x :: l)). fold (buckets key ks l).
    rewrite Forall_forall in Hv.
    destruct (N.eq_dec (key x) v) as [Heq|Hne].
    - rewrite (bucket_cons_eq v x l Heq).
      rewrite buckets_cons_notin by (intros Hc; specialize (Hv _ Hc); lia).
      cbn [app]. apply insert_by_front. apply Forall_app. split.
      + eapply Forall_impl; [|apply bucket_key]. cbn. intros y Hy. lia.
      + eapply Forall_impl; [|apply buckets_keys]. cbn. intros y Hy. specialize (Hv _ Hy). lia.
    - destruct Hin as [Hin|Hin]; [congruence|].
      rewrite (bucket_cons_ne v x l Hne), insert_by_skip, (IH x l Hin); [reflexivity|].
      eapply Forall_impl; [|apply bucket_key]. cbn. intros y Hy. specialize (Hv _ Hin). lia.
  Qed.

  Lemma buckets_nil ks : buckets key ks [] = [].
  Proof. induction ks as [|v ks IH]; [reflexivity|]. unfold buckets in *. cbn [flat_map]. now rewrite IH. Qed.

  (* A stable sort by a key whose values all lie in the ascending list [ks] is: the elements with the
     first key in the order given, then those with the second key in the order given, ... *)
  Theorem stable_sort_buckets ks :
    StronglySorted N.lt ks -> (forall x, In (key x) ks) ->
    forall l, stable_sort key l = buckets key ks l.
  Proof.
    intros Hs Hall. induction l as [|x l IH]; [now rewrite buckets_nil|].
    cbn [stable_sort]. rewrite IH. apply insert_buckets; [exact Hs|apply Hall].
  Qed.
End StableSortP.

(* ------------------------------------------------------------------ the priority table *)
Lemma prio_keys_sorted : StronglySorted N.lt prio_keys.
Proof. unfold prio_keys. repeat constructor; lia. Qed.
Lemma prio_in_keys name : In (prio name) prio_keys.
Proof.
  unfold prio, prio_keys.
  repeat match goal with |- context [if ?b then _ else _] => destruct b end; cbn; tauto.
Qed.

Lemma sort_tags_spec l : sort_tags l = spec_order l.
Proof.
  unfold sort_tags, spec_order. apply stable_sort_buckets; [exact prio_keys_sorted|].
  intros x. apply prio_in_keys.
Qed.

(* which names have which priority *)
Lemma prio_spec name :
  (prio name = 0 <-> name = k_msg) /\ (prio name = 1 <-> name = k_http_method) /\
  (prio name = 2 <-> name = k_path) /\ (prio name = 3 <-> name = k_request_body_len) /\
  (prio name = 4 <-> name = k_request_body) /\ (prio name = 5 <-> name = k_response_body_len) /\
  (prio name = 99 <-> ~ In name [k_msg; k_http_method; k_path; k_request_body_len; k_request_body; k_response_body_len]).
Proof.
  unfold prio.
  destruct (beq name k_msg) eqn:H0; [apply beq_eq in H0; subst; cbn; repeat split; intros; try discriminate; try reflexivity; try tauto|].
  destruct (beq name k_http_method) eqn:H1; [apply beq_eq in H1; subst; cbn; repeat split; intros; try discriminate; try reflexivity; try tauto|].
  destruct (beq name k_path) eqn:H2; [apply beq_eq in H2; subst; cbn; repeat split; intros; try discriminate; try reflexivity; try tauto|].
  destruct (beq name k_request_body_len) eqn:H3; [apply beq_eq in H3; subst; cbn; repeat split; intros; try discriminate; try reflexivity; try tauto|].
  destruct (beq name k_request_body) eqn:H4; [apply beq_eq in H4; subst; cbn; repeat split; intros; try discriminate; try reflexivity; try tauto|].
  destruct (beq name k_response_body_len) eqn:H5; [apply beq_eq in H5; subst; cbn; repeat split; intros; try discriminate; try reflexivity; try tauto|].
  assert (N0 : name <> k_msg) by (intros ->; now rewrite beq_refl in H0).
  assert (N1 : name <> k_http_method) by (intros ->; now rewrite beq_refl in H1).
  assert (N2 : name <> k_path) by (intros ->; now rewrite beq_refl in H2).
  assert (N3 : name <> k_request_body_len) by (intros ->; now rewrite beq_refl in H3).
  assert (N4 : name <> k_request_body) by (intros ->; now rewrite beq_refl in H4).
  assert (N5 : name <> k_response_body_len) by (intros ->; now rewrite beq_refl in H5).
  repeat split; intros; try discriminate; try contradiction.
  cbn. intros [E|[E|[E|[E|[E|[E|[]]]]]]]; congruence.
Qed.

(* ------------------------------------------------------------------ model = specification *)
Lemma do_log_spec st t lvl ct r : do_log sort_tags st t lvl ct r = do_log spec_order st t lvl ct r.
Proof. unfold do_log. now rewrite sort_tags_spec. Qed.

Lemma step_refines st ta : step st ta = spec_step st ta.
Proof.
  unfold step, spec_step, step_gen. destruct ta as [t a]. destruct a; try reflexivity; apply do_log_spec.
Qed.

Lemma run_refines st acts : run st acts = spec_run st acts.
Proof.
  unfold run, spec_run. revert st. induction acts as [|ta acts IH]; intros st; [reflexivity|].
  cbn [run_gen]. rewrite step_refines. destruct (spec_step st ta) as [st1 o]. now rewrite IH.
Qed.

(* ------------------------------------------------------------------ what a logging call does *)
Definition logger_alive (st : state) : bool :=
  match glob st with GSome id => negb (mem_N id (gone st)) | _ => true end.
Definition dest_now (st : state) : dest :=
  match glob st with GSome id => DLogger id | _ => DDefault end.
(* the level, the tags passed by the call, and the value the call returns when the event was sent *)
Definition call_of (a : act) : option (level * list tag * res) :=
  match a with
  | ALog lvl msg tags => Some (lvl, (k_msg, VStr msg) :: tags, ROk)
  | ALogRaw lvl tags => Some (lvl, tags, ROk)
  | ALogResponse hr | AWrapEnd _ hr | AWrapped _ _ hr =>
      Some (level_of hr, response_call_tags hr, RResp (response_of hr))
  | _ => None
  end.

Lemma get_set_tags st t l t' : get_tags (set_tags st t l) t' = if t =? t' then l else get_tags st t'.
Proof. reflexivity. Qed.
Lemma get_set_glob st g gd t : get_tags (set_glob st g gd) t = get_tags st t.
Proof. reflexivity. Qed.

Lemma do_log_obs sorter st t lvl ct r :
  snd (do_log sorter st t lvl ct r) =
  if logger_alive st then (r, [(dest_now st, lvl, sorter (ct ++ get_tags st t))]) else (RStopped, []).
Proof.
  unfold do_log, logger_alive, dest_now. destruct (glob st) as [|id|]; try reflexivity.
  destruct (mem_N id (gone st)); reflexivity.
Qed.
Lemma do_log_tags sorter st t lvl ct r t' : get_tags (fst (do_log sorter st t lvl ct r)) t' = get_tags st t'.
Proof.
  unfold do_log. destruct (glob st) as [|id|]; try reflexivity. destruct (mem_N id (gone st)); reflexivity.
Qed.
Lemma do_log_glob sorter st t lvl ct r :
  gone (fst (do_log sorter st t lvl ct r)) = gone st /\ guards (fst (do_log sorter st t lvl ct r)) = guards st /\
  glob (fst (do_log sorter st t lvl ct r)) = match glob st with GNone => GDefault | g => g end.
Proof.
  unfold do_log. destruct (glob st) as [|id|] eqn:Hg; [|destruct (mem_N id (gone st))|];
    cbn [fst set_glob glob gone guards]; rewrite ?Hg; repeat split; reflexivity.
Qed.

(* the calling thread's tag list after the call, and the list that the call sends *)
Lemma step_tags st t a t' :
  get_tags (fst (step st (t, a))) t' = if t =? t' then own_step (get_tags st t) a else get_tags st t'.
Proof.
  unfold step, step_gen. destruct a; cbn [own_step fst]; rewrite ?do_log_tags, ?get_set_tags;
    try (destruct (N.eqb_spec t t') as [->|]; reflexivity).
  - destruct (glob st); cbn; destruct (N.eqb_spec t t') as [->|]; reflexivity.
  - destruct (guards st); [destruct (N.eqb_spec t t') as [->|]; reflexivity|].
    destruct (glob st); cbn; destruct (N.eqb_spec t t') as [->|]; reflexivity.
Qed.

Theorem step_log_spec st t a lvl ct r :
  call_of a = Some (lvl, ct, r) ->
  snd (step st (t, a)) =
  if logger_alive st
  then (r, [(dest_now st, lvl, spec_order (ct ++ own_step (get_tags st t) a))])
  else (RStopped, []).
Proof.
  intros Hc. rewrite step_refines. unfold spec_step, step_gen.
  destruct a; cbn [call_of] in Hc; try discriminate; injection Hc as <- <- <-; rewrite do_log_obs; cbn [own_step];
    rewrite ?get_set_tags, ?N.eqb_refl; reflexivity.
Qed.

Lemma step_nonlog_events st t a : call_of a = None -> snd (snd (step st (t, a))) = [].
Proof.
  unfold step, step_gen. destruct a; cbn [call_of]; try discriminate; intros _; try reflexivity.
  - destruct (glob st); reflexivity.
  - destruct (guards st); [reflexivity|]. destruct (glob st); reflexivity.
Qed.

(* ------------------------------------------------------------------ isolation of thread-local tags *)
Lemma own_tags_cons start t t' a h :
  own_tags start t ((t', a) :: h) = own_tags (if t' =? t then own_step start a else start) t h.
Proof. unfold own_tags. cbn [filter fst]. destruct (t' =? t); reflexivity. Qed.

Theorem tags_isolated : forall h st t,
  get_tags (fst (run st h)) t = own_tags (get_tags st t) t h.
Proof.
  unfold run. induction h as [|[t' a] h IH]; intros st t; [reflexivity|].
  cbn [run_gen]. destruct (step st (t', a)) as [st1 o] eqn:Hs.
  destruct (run_gen step st1 h) as [st2 os] eqn:Hr. cbn [fst].
  specialize (IH st1 t). rewrite Hr in IH. cbn [fst] in IH. rewrite IH, own_tags_cons.
  pose proof (step_tags st t' a t) as Ht. rewrite Hs in Ht. cbn [fst] in Ht. rewrite Ht.
  destruct (t' =? t) eqn:E; [apply N.eqb_eq in E; subst|]; reflexivity.
Qed.

(* ------------------------------------------------------------------ guard discipline: drop never panics *)
Definition inv (st : state) : Prop :=
  match glob st with GSome _ => guards st = 1%nat | _ => guards st = 0%nat end.

Lemma step_inv st ta : inv st -> inv (fst (step st ta)) /\ fst (snd (step st ta)) <> RPanic.
Proof.
  unfold inv. destruct ta as [t a]. intros H. unfold step, step_gen.
  assert (Hlog : forall st' lvl ct r, glob st' = glob st -> guards st' = guards st -> r <> RPanic ->
            match glob (fst (do_log sort_tags st' t lvl ct r)) with GSome _ => guards (fst (do_log sort_tags st' t lvl ct r)) = 1%nat
                                                                 | _ => guards (fst (do_log sort_tags st' t lvl ct r)) = 0%nat end
            /\ fst (snd (do_log sort_tags st' t lvl ct r)) <> RPanic).
  { intros st' lvl ct r Hg Hgd Hr. destruct (do_log_glob sort_tags st' t lvl ct r) as (_ & -> & ->).
    rewrite do_log_obs, Hg, Hgd. split.
    - destruct (glob st); exact H.
    - destruct (logger_alive st'); cbn; [exact Hr|discriminate]. }
  destruct a; try (apply Hlog; [reflexivity|reflexivity|discriminate]); cbn.
  - split; [exact H|discriminate].
  - split; [exact H|discriminate].
  - split; [exact H|discriminate].
  - destruct (glob st) eqn:Hg; cbn; rewrite ?Hg; split; try discriminate; try exact H; rewrite H; reflexivity.
  - destruct (glob st) eqn:Hg; rewrite H; cbn; rewrite ?Hg; split; try discriminate; try exact H; reflexivity.
  - split; [exact H|discriminate].
Qed.

Theorem run_no_panic : forall h st, inv st -> Forall (fun o => fst o <> RPanic) (snd (run st h)) /\ inv (fst (run st h)).
Proof.
  unfold run. induction h as [|ta h IH]; intros st H; [split; [constructor|exact H]|].
  cbn [run_gen]. destruct (step_inv st ta H) as [H1 Hp]. destruct (step st ta) as [st1 o].
  destruct (IH st1 H1) as [Hf Hi]. destruct (run_gen step st1 h) as [st2 os]. cbn [fst snd] in *.
  split; [constructor; assumption|exact Hi].
Qed.

Lemma inv_init : inv init_state.
Proof. reflexivity. Qed.

(* ------------------------------------------------------------------ exactly one event per call, over whole runs *)
(* the states in which the successive actions are executed *)
Fixpoint annotate (st : state) (acts : list (N * act)) : list (state * (N * act)) :=
  match acts with
  | [] => []
  | ta :: rest => (st, ta) :: annotate (fst (step st ta)) rest
  end.
Definition delivered (sa : state * (N * act)) : nat :=
  match call_of (snd (snd sa)) with
  | Some _ => if logger_alive (fst sa) then 1 else 0
  | None => 0
  end.

Lemma step_event_count st t a : length (snd (snd (step st (t, a)))) = delivered (st, (t, a)).
Proof.
  unfold delivered. cbn [fst snd]. destruct (call_of a) as [[[lvl ct] r]|] eqn:Hc.
  - rewrite (step_log_spec st t a lvl ct r Hc). destruct (logger_alive st); reflexivity.
  - now rewrite (step_nonlog_events st t a Hc).
Qed.

Theorem events_counted : forall h st,
  length (flat_map snd (snd (run st h))) = list_sum (map delivered (annotate st h)).
Proof.
  unfold run. induction h as [|[t a] h IH]; intros st; [reflexivity|].
  cbn [run_gen annotate map list_sum]. pose proof (step_event_count st t a) as Hc.
  destruct (step st (t, a)) as [st1 o] eqn:Hs. specialize (IH st1).
  destruct (run_gen step st1 h) as [st2 os]. cbn [fst snd flat_map] in *.
  rewrite app_length, IH, Hc. reflexivity.
Qed.

(* ------------------------------------------------------------------ the wrapper functions *)
Theorem wrapper_spec st t a hr :
  (a = ALogResponse hr \/ (exists d, a = AWrapEnd d hr) \/ (exists q d, a = AWrapped q d hr)) ->
  snd (step st (t, a)) =
  if logger_alive st
  then (RResp (response_of hr),
        [(dest_now st, level_of hr, spec_order (response_call_tags hr ++ own_step (get_tags st t) a))])
  else (RStopped, []).
Proof.
  intros H. apply step_log_spec. destruct H as [->|[[d ->]|[q [d ->]]]]; reflexivity.
Qed.

Lemma response_of_cases hr :
  match hr with
  | HOk r => response_of hr = r /\ level_of hr = LInfo
  | HErr _ _ _ (Some r) => response_of hr = r /\ level_of hr = LError
  | HErr _ _ _ None => response_of hr = bare_500 /\ level_of hr = LError
  end.
Proof. destruct hr as [r|m b e [r|]]; split; reflexivity. Qed.

Lemma response_call_tags_code hr :
  In (k_code, n_value (r_code (response_of hr))) (response_call_tags hr).
Proof.
  destruct hr as [r|m b e ro]; cbn [response_call_tags].
  - left. reflexivity.
  - rewrite !in_app_iff. right. right. right. left. reflexivity.
Qed.

Lemma wrap_begin_clean st t q :
  get_tags (fst (step st (t, AWrapBegin q))) t = request_tags q /\ snd (step st (t, AWrapBegin q)) = (RUnit, []).
Proof. split; [rewrite step_tags, N.eqb_refl|]; reflexivity. Qed.

Lemma wrapped_clean st t q d hr :
  snd (step st (t, AWrapped q d hr)) =
  if logger_alive st
  then (RResp (response_of hr),
        [(dest_now st, level_of hr,
          spec_order (response_call_tags hr ++ request_tags q ++ [(k_duration_ms, n_value d)]))])
  else (RStopped, []).
Proof. apply (wrapper_spec st t (AWrapped q d hr) hr). right. right. eauto. Qed.

(* AWrapped is AWrapBegin followed by AWrapEnd of the same thread *)
Lemma wrapped_is_begin_end st t q d hr :
  let st1 := fst (step st (t, AWrapBegin q)) in
  snd (step st (t, AWrapped q d hr)) = snd (step st1 (t, AWrapEnd d hr)) /\
  (forall t', get_tags (fst (step st (t, AWrapped q d hr))) t' = get_tags (fst (step st1 (t, AWrapEnd d hr))) t') /\
  glob (fst (step st (t, AWrapped q d hr))) = glob (fst (step st1 (t, AWrapEnd d hr))).
Proof.
  cbv zeta. repeat split.
  - rewrite (wrapper_spec st t (AWrapped q d hr) hr) by (right; right; eauto).
    rewrite (wrapper_spec _ t (AWrapEnd d hr) hr) by (right; left; eauto).
    destruct (wrap_begin_clean st t q) as [-> _]. reflexivity.
  - intros t'. rewrite !step_tags. destruct (N.eqb_spec t t') as [->|Hne]; [|reflexivity].
    rewrite N.eqb_refl. reflexivity.
  - unfold step, step_gen. cbn [fst].
    destruct (do_log_glob sort_tags (set_tags st t (request_tags q ++ [(k_duration_ms, n_value d)])) t (level_of hr) (response_call_tags hr) (RResp (response_of hr))) as (_ & _ & ->).
    destruct (do_log_glob sort_tags (set_tags (set_tags st t (request_tags q)) t (get_tags (set_tags st t (request_tags q)) t ++ [(k_duration_ms, n_value d)])) t (level_of hr) (response_call_tags hr) (RResp (response_of hr))) as (_ & _ & ->).
    reflexivity.
Qed.

(* ------------------------------------------------------------------ stopped logger, second install *)
Lemma stopped_logger st t a id c :
  glob st = GSome id -> mem_N id (gone st) = true -> call_of a = Some c ->
  snd (step st (t, a)) = (RStopped, []) /\ glob (fst (step st (t, a))) = GSome id.
Proof.
  intros Hg Hm Hc. destruct c as [[lvl ct] r]. split.
  - rewrite (step_log_spec st t a lvl ct r Hc). unfold logger_alive. rewrite Hg, Hm. reflexivity.
  - unfold step, step_gen. destruct a; cbn [call_of] in Hc; try discriminate;
      match goal with |- glob (fst (do_log ?s ?st' ?t ?l ?c ?r)) = _ =>
        destruct (do_log_glob s st' t l c r) as (_ & _ & ->) end; cbn; rewrite Hg; reflexivity.
Qed.

Lemma second_install st t id id' :
  glob st = GSome id -> step st (t, AInstall id') = (st, (RRefused, [])).
Proof. intros Hg. unfold step, step_gen. rewrite Hg. reflexivity. Qed.

Lemma install_when_free st t id :
  (forall id0, glob st <> GSome id0) ->
  snd (step st (t, AInstall id)) = (RInstalled, []) /\ glob (fst (step st (t, AInstall id))) = GSome id.
Proof. intros H. unfold step, step_gen. destruct (glob st) as [|id0|]; [| exfalso; eapply H; reflexivity |]; split; reflexivity. Qed.

(* ------------------------------------------------------------------ the oracle holds of the model *)
Lemma value_eqb_refl v : value_eqb v v = true.
Proof. destruct v; cbn; try apply beq_refl; try reflexivity; [apply Bool.eqb_reflx|apply Z.eqb_refl]. Qed.
Lemma tag_list_eqb_refl l : list_beq tag_eqb l l = true.
Proof.
  induction l as [|a l IH]; [reflexivity|]. cbn [list_beq]. unfold tag_eqb at 1. now rewrite beq_refl, value_eqb_refl, IH.
Qed.
Lemma event_list_eqb_refl l : list_beq event_eqb l l = true.
Proof.
  induction l as [|[[d lv] tg] l IH]; [reflexivity|]. cbn [list_beq event_eqb]. rewrite tag_list_eqb_refl, IH.
  destruct d; destruct lv; cbn; rewrite ?N.eqb_refl; reflexivity.
Qed.
Lemma obs_eqb_refl o : obs_eqb o o = true.
Proof.
  destruct o as [r ev]. unfold obs_eqb. cbn [fst snd]. rewrite event_list_eqb_refl.
  destruct r; try reflexivity. cbn. unfold response_eqb. rewrite !N.eqb_refl.
  destruct (r_body_len r); cbn; rewrite ?N.eqb_refl; reflexivity.
Qed.

Theorem oracle_c18_model : forall acts st, oracle_c18 st acts (snd (run st acts)) = true.
Proof.
  unfold run. induction acts as [|ta acts IH]; intros st; [reflexivity|].
  cbn [run_gen]. rewrite step_refines. destruct (spec_step st ta) as [st1 o] eqn:Hs.
  specialize (IH st1). destruct (run_gen step st1 acts) as [st2 os]. cbn [snd] in *.
  cbn [oracle_c18]. unfold oracle_c18_step. rewrite Hs. cbn [fst snd]. now rewrite obs_eqb_refl, IH.
Qed.

Theorem oracle_own_tags_model acts : oracle_own_tags acts = true.
Proof.
  unfold oracle_own_tags. apply forallb_forall. intros t _.
  rewrite <- run_refines, tags_isolated. apply tag_list_eqb_refl.
Qed.

(* ------------------------------------------------------------------ a concrete run *)
Definition demo_acts : list (N * act) :=
  [(1, AAddTag ([97], VInt 1)); (2, AAddTag ([98], VInt 2)); (1, AInstall 7);
   (2, AInstall 8);
   (1, ALog LInfo [104; 105] [([120], VBool true); (k_path, VStr [47])]);
   (2, AWrapped {| q_method := [71; 69; 84]; q_path := [47]; q_id := 5; q_body_len := None |} 0
                (HErr (Some [111; 111; 112; 115]) None [([101], VNull)] None));
   (3, AReceiverGone 7); (1, ALog LError [120] []); (3, ADropGuard);
   (3, ALogRaw LDebug [])].

(* ------------------------------------------------------------------ the fixed order, written out *)
Definition named (k : text) (tg : tag) : bool := beq (fst tg) k.
Definition unnamed (tg : tag) : bool :=
  negb (named k_msg tg || named k_http_method tg || named k_path tg || named k_request_body_len tg ||
        named k_request_body tg || named k_response_body_len tg).

Lemma prio_eqb name :
  (prio name =? 0) = beq name k_msg /\ (prio name =? 1) = beq name k_http_method /\
  (prio name =? 2) = beq name k_path /\ (prio name =? 3) = beq name k_request_body_len /\
  (prio name =? 4) = beq name k_request_body /\ (prio name =? 5) = beq name k_response_body_len /\
  (prio name =? 99) = negb (beq name k_msg || beq name k_http_method || beq name k_path ||
                            beq name k_request_body_len || beq name k_request_body || beq name k_response_body_len).
Proof.
  unfold prio.
  destruct (beq name k_msg) eqn:H0; [apply beq_eq in H0; subst; repeat split; reflexivity|].
  destruct (beq name k_http_method) eqn:H1; [apply beq_eq in H1; subst; repeat split; reflexivity|].
  destruct (beq name k_path) eqn:H2; [apply beq_eq in H2; subst; repeat split; reflexivity|].
  destruct (beq name k_request_body_len) eqn:H3; [apply beq_eq in H3; subst; repeat split; reflexivity|].
  destruct (beq name k_request_body) eqn:H4; [apply beq_eq in H4; subst; repeat split; reflexivity|].
  destruct (beq name k_response_body_len) eqn:H5; [apply beq_eq in H5; subst; repeat split; reflexivity|].
  repeat split; reflexivity.
Qed.

Theorem spec_order_explicit l :
  spec_order l =
  filter (named k_msg) l ++ filter (named k_http_method) l ++ filter (named k_path) l ++
  filter (named k_request_body_len) l ++ filter (named k_request_body) l ++
  filter (named k_response_body_len) l ++ filter unnamed l.
Proof.
  unfold spec_order, buckets, prio_keys, bucket. cbn [flat_map]. rewrite app_nil_r.
  assert (E : forall v f, (forall tg, (tag_key tg =? v) = f tg) ->
                          filter (fun x => tag_key x =? v) l = filter f l) by (intros; apply filter_ext; assumption).
  rewrite (E 0 (named k_msg)), (E 1 (named k_http_method)), (E 2 (named k_path)), (E 3 (named k_request_body_len)),
          (E 4 (named k_request_body)), (E 5 (named k_response_body_len)), (E 99 unnamed); [reflexivity|..];
    intros tg; unfold tag_key, named, unnamed;
    destruct (prio_eqb (fst tg)) as (E0 & E1 & E2 & E3 & E4 & E5 & E99); assumption.
Qed.

Theorem sort_tags_explicit l :
  sort_tags l =
  filter (named k_msg) l ++ filter (named k_http_method) l ++ filter (named k_path) l ++
  filter (named k_request_body_len) l ++ filter (named k_request_body) l ++
  filter (named k_response_body_len) l ++ filter unnamed l.
Proof. rewrite sort_tags_spec. exact (spec_order_explicit l). Qed.

(* ------------------------------------------------------------------ the line-level oracle holds of the model *)
Lemma tags_wf_app a b : tags_wf (a ++ b) = tags_wf a && tags_wf b.
Proof. apply forallb_app. Qed.

Lemma spec_order_wf l : tags_wf l = true -> tags_wf (spec_order l) = true.
Proof.
  unfold tags_wf. rewrite !forallb_forall. intros H x Hx. apply H.
  unfold spec_order, buckets in Hx. apply in_flat_map in Hx as (v & _ & Hx).
  unfold bucket in Hx. apply filter_In in Hx. tauto.
Qed.

Lemma get_tags_wf st t : state_wf st = true -> tags_wf (get_tags st t) = true.
Proof.
  unfold state_wf, get_tags. induction (ttags st) as [|[t' l] m IH]; intros H; [reflexivity|].
  cbn [forallb snd] in H. apply andb_true_iff in H as [Hl Hm]. cbn [get_tags_in].
  destruct (t' =? t); [exact Hl|exact (IH Hm)].
Qed.

Lemma request_tags_wf q : request_wf q = true -> tags_wf (request_tags q) = true.
Proof.
  unfold request_wf. rewrite andb_true_iff. intros [Hm Hp]. unfold request_tags. rewrite tags_wf_app.
  cbn [tags_wf forallb]. unfold tag_wf. cbn [fst snd value_wf n_value]. rewrite Hm, Hp.
  destruct (q_body_len q); reflexivity.
Qed.

Lemma code_tags_wf r : tags_wf (code_tags r) = true.
Proof. unfold code_tags. destruct (r_body_len r); reflexivity. Qed.
Lemma opt_msg_wf m : opt_text_ok m = true -> tags_wf (opt_msg m) = true.
Proof.
  destruct m as [s|]; [|reflexivity]. cbn [opt_text_ok opt_msg tags_wf forallb]. intros H.
  unfold tag_wf. cbn [fst snd value_wf]. rewrite H. reflexivity.
Qed.

Lemma response_call_tags_wf hr : hr_wf hr = true -> tags_wf (response_call_tags hr) = true.
Proof.
  destruct hr as [r|m b e ro]; cbn [hr_wf response_call_tags]; [intros _; apply code_tags_wf|].
  rewrite !andb_true_iff. intros [[Hm Hb] He].
  rewrite !tags_wf_app, He, (opt_msg_wf m Hm), (opt_msg_wf b Hb), code_tags_wf. reflexivity.
Qed.

Lemma call_of_wf a lvl ct r : call_of a = Some (lvl, ct, r) -> act_wf a = true -> tags_wf ct = true.
Proof.
  destruct a; cbn [call_of act_wf]; try discriminate; intros H Hw; injection H as <- <- <-.
  - apply andb_true_iff in Hw as [Hm Ht]. cbn [tags_wf forallb]. unfold tag_wf at 1. cbn [fst snd value_wf]. rewrite Hm. exact Ht.
  - exact Hw.
  - apply response_call_tags_wf. exact Hw.
  - apply response_call_tags_wf. exact Hw.
  - apply andb_true_iff in Hw as [_ Hw]. apply response_call_tags_wf. exact Hw.
Qed.

Lemma own_step_wf cur a : tags_wf cur = true -> act_wf a = true -> tags_wf (own_step cur a) = true.
Proof.
  intros Hc Hw. destruct a; cbn [own_step act_wf] in *; try exact Hc; try reflexivity.
  - rewrite tags_wf_app, Hc. cbn [tags_wf forallb]. now rewrite Hw.
  - apply request_tags_wf. exact Hw.
  - rewrite tags_wf_app, Hc. reflexivity.
  - apply andb_true_iff in Hw as [Hq _]. rewrite tags_wf_app, (request_tags_wf q Hq). reflexivity.
Qed.

Lemma res_eqb_refl r : res_eqb r r = true.
Proof. pose proof (obs_eqb_refl (r, [])) as H. unfold obs_eqb in H. cbn [fst snd list_beq] in H. now rewrite andb_true_r in H. Qed.

Lemma event_line_ok_render time ns e :
  time_text_ok time = true -> length time = 20%nat -> tags_wf (snd e) = true ->
  event_line_ok (render_event time ns e) e = true.
Proof.
  intros Ht Hl Hw. destruct e as [[d lvl] tg]. cbn [snd] in Hw. destruct d as [id|]; cbn [render_event event_line_ok fst snd dest_eqb].
  - rewrite N.eqb_refl. cbn [andb]. apply oracle_c17_sound_lemma; assumption.
  - apply beq_refl.
Qed.

Theorem oracle_c18_lines_model st t a time ns :
  state_wf st = true -> act_wf a = true -> time_text_ok time = true -> length time = 20%nat ->
  oracle_c18_lines_step st (t, a)
    (fst (snd (step st (t, a))), map (render_event time ns) (snd (snd (step st (t, a))))) = true.
Proof.
  intros Hs Ha Ht Hl. unfold oracle_c18_lines_step. rewrite <- step_refines. cbn [fst snd].
  rewrite res_eqb_refl. cbn [andb].
  destruct (call_of a) as [[[lvl ct] r]|] eqn:Hc.
  - rewrite (step_log_spec st t a lvl ct r Hc). destruct (logger_alive st); [|reflexivity].
    cbn [snd map list_all2]. rewrite andb_true_r. apply event_line_ok_render; [exact Ht|exact Hl|].
    cbn [snd]. apply spec_order_wf. rewrite tags_wf_app, (call_of_wf a lvl ct r Hc Ha).
    apply own_step_wf; [apply get_tags_wf; exact Hs|exact Ha].
  - rewrite (step_nonlog_events st t a Hc). reflexivity.
Qed.

(* well-formedness is preserved, so the statement above applies along every run of well-formed actions *)
Lemma step_state_wf st t a : state_wf st = true -> act_wf a = true -> state_wf (fst (step st (t, a))) = true.
Proof.
  intros Hs Ha.
  assert (Hset : forall l, tags_wf l = true -> state_wf (set_tags st t l) = true).
  { intros l Hl. unfold state_wf, set_tags. cbn [ttags forallb snd]. rewrite Hl. exact Hs. }
  assert (Hlog : forall st' lvl ct r, state_wf st' = true -> state_wf (fst (do_log sort_tags st' t lvl ct r)) = true).
  { intros st' lvl ct r H'. unfold do_log. destruct (glob st'); [exact H'| |exact H']. destruct (mem_N id (gone st')); exact H'. }
  pose proof (get_tags_wf st t Hs) as Hg.
  unfold step, step_gen. destruct a; cbn [act_wf] in Ha; try (apply Hlog; exact Hs).
  - apply Hset. rewrite tags_wf_app, Hg. cbn [tags_wf forallb]. now rewrite Ha.
  - apply Hset. reflexivity.
  - apply Hset. apply request_tags_wf. exact Ha.
  - apply Hlog. apply Hset. rewrite tags_wf_app, Hg. reflexivity.
  - apply Hlog. apply Hset. apply andb_true_iff in Ha as [Hq _]. rewrite tags_wf_app, (request_tags_wf q Hq). reflexivity.
  - destruct (glob st); exact Hs.
  - destruct (guards st); [exact Hs|]. destruct (glob st); exact Hs.
  - exact Hs.
Qed.
