(* Proofs/LogFileW.v -- the writer loop of LogFileWriter::start_writer_thread (repaired code,
   [post_fix]): the state invariant [WInv], one start, one loop iteration, whole runs and
   histories of runs (restarts). *)
From Coq Require Import FinFun.
From SV Require Import Base.Bytes Base.BytesP Model.LogFile Proofs.LogFileP.

Definition cfg_ok (c : config) : Prop := max_write_bytes c < two63 /\ max_keep_bytes c < two63.

Definition add_line (ev : line) (f : file) : file :=
  mkFile (f_name f) (f_reg f) (f_alive f) (l_time ev) (f_created f) (f_lines f ++ [ev]).
Definition new_file (nm : fname) (now : N) : file := mkFile nm true true now now [].

Lemma append_last_snoc ev : forall rest cf, append_last ev (rest ++ [cf]) = rest ++ [add_line ev cf].
Proof.
  induction rest as [|f rest IH]; intros cf; cbn [app append_last]; [reflexivity|].
  rewrite IH. destruct (rest ++ [cf]) eqn:E; [destruct rest; discriminate|reflexivity].
Qed.
Lemma f_size_add_line ev f : f_size (add_line ev f) = f_size f + l_size ev.
Proof. unfold f_size, add_line. cbn [f_lines]. rewrite map_app, sumN_app. cbn [map]. rewrite sumN_cons, sumN_nil. lia. Qed.

Lemma NoDup_app_snoc {A} (l : list A) x : NoDup l -> ~ In x l -> NoDup (l ++ [x]).
Proof.
  intros H Hx. induction H as [|a l Ha H IH]; cbn [app]; [constructor; [tauto|constructor]|].
  constructor.
  - intros Hin. apply in_app_or in Hin as [Hin|[->|[]]]; [contradiction|]. apply Hx. now left.
  - apply IH. intros Hin. apply Hx. now right.
Qed.

Section Writer.
Variable prefix : bytes.
Variable b18 : bool.      (* with or without the repair of D18 *)
Notation pv := (post b18).
Notation islog := (is_log_file post_fix prefix).
Notation Good := (Good prefix).
Notation Kills := (Kills prefix).

Lemma islog_gen f : f_alive f = true -> f_reg f = true -> is_gen (f_name f) = true -> islog f = true.
Proof. intros A R G. unfold is_log_file. rewrite A, R. destruct (f_name f); [discriminate|reflexivity]. Qed.

Lemma live_names_snoc_same rest cf cf' :
  f_alive cf' = f_alive cf -> f_name cf' = f_name cf -> live_names (rest ++ [cf']) = live_names (rest ++ [cf]).
Proof. intros A Nm. rewrite !live_names_app. f_equal. unfold live_names, listing. cbn [filter]. rewrite A. destruct (f_alive cf); cbn [map]; congruence. Qed.

(* ------------------------------------------------------------------ LogFile::create *)
Lemma name_taken_false fs nm : name_taken fs nm = false -> ~ In nm (live_names fs).
Proof.
  unfold name_taken, live_names, listing. induction fs as [|f fs IH]; cbn [existsb filter map]; [tauto|].
  intros H. apply orb_false_iff in H as [H1 H2]. destruct (f_alive f); cbn [map andb] in *; [|auto].
  intros [E|Hin]; [|now apply IH]. apply fname_eqb_neq in H1. congruence.
Qed.
Lemma name_taken_true fs nm : name_taken fs nm = true -> In nm (map f_name fs).
Proof.
  unfold name_taken. intros H. apply existsb_exists in H as (f & Hf & E). apply andb_true_iff in E as [_ E].
  apply fname_eqb_eq in E. subst. now apply in_map.
Qed.

Lemma fresh_from_some fs sec : forall fuel n r, fresh_from fs sec fuel n = Some r -> name_taken fs (NGen sec r) = false.
Proof.
  induction fuel as [|fuel IH]; intros n r; cbn [fresh_from]; [discriminate|].
  destruct (name_taken fs (NGen sec n)) eqn:E; [apply IH|]. intros [= <-]. exact E.
Qed.
Lemma fresh_from_none fs sec : forall fuel n, fresh_from fs sec fuel n = None ->
  forall i, (i < fuel)%nat -> name_taken fs (NGen sec (n + N.of_nat i)) = true.
Proof.
  induction fuel as [|fuel IH]; intros n H i Hi; [lia|]. cbn [fresh_from] in H.
  destruct (name_taken fs (NGen sec n)) eqn:E; [|discriminate].
  destruct i as [|i].
  - now rewrite N.add_0_r.
  - specialize (IH _ H i ltac:(lia)). replace (n + N.of_nat (S i)) with (N.succ n + N.of_nat i) by lia. exact IH.
Qed.

Lemma fresh_n_some fs sec : exists n, fresh_n fs sec = Some n /\ name_taken fs (NGen sec n) = false.
Proof.
  unfold fresh_n. destruct (fresh_from fs sec (S (length fs)) 0) as [n|] eqn:E.
  - exists n. split; [reflexivity|]. eapply fresh_from_some; eauto.
  - exfalso.
    set (cands := map (fun i => NGen sec (0 + N.of_nat i)) (seq 0 (S (length fs)))).
    assert (Hnd : NoDup cands).
    { unfold cands. apply Injective_map_NoDup; [|apply seq_NoDup].
      intros a b H. injection H as H. lia. }
    assert (Hincl : incl cands (map f_name fs)).
    { intros nm Hnm. unfold cands in Hnm. apply in_map_iff in Hnm as (i & <- & Hi).
      apply name_taken_true. apply (fresh_from_none _ _ _ _ E). apply in_seq in Hi. lia. }
    pose proof (NoDup_incl_length Hnd Hincl) as Hlen.
    unfold cands in Hlen. rewrite !map_length, seq_length in Hlen. lia.
Qed.

Lemma create_some tps now fs : exists nm, create tps now fs = Some (nm, fs ++ [new_file nm now]) /\
  is_gen nm = true /\ ~ In nm (live_names fs).
Proof.
  unfold create. destruct (fresh_n_some fs (now / tps)) as (n & -> & Hn).
  exists (NGen (now / tps) n). repeat split; auto. now apply name_taken_false.
Qed.

(* ------------------------------------------------------------------ the writer invariant *)
Record WInv (rest : list file) (cf : file) (w : wstate) : Prop := mkWInv {
  wi_fs : w_fs w = rest ++ [cf];
  wi_good : Good rest [cf] (w_set w);
  wi_alive : f_alive cf = true;
  wi_reg : f_reg cf = true;
  wi_name : f_name cf = w_cur w;
  wi_gen : is_gen (w_cur w) = true;
  wi_size : f_size cf = w_len w;
  wi_created : f_created cf = w_created w
}.

Lemma total_size_inv rest cf w : WInv rest cf w ->
  total_size post_fix prefix (w_fs w) = slen (w_set w) + w_len w.
Proof.
  intros [Hfs [_ _ Hl Hs] A R Nm G Sz _]. unfold total_size, log_files. rewrite Hfs, filter_app, map_app, sumN_app.
  cbn [filter]. rewrite (islog_gen cf A R) by (now rewrite Nm). cbn [map]. rewrite sumN_cons, sumN_nil, Sz.
  rewrite Hs, Hl. unfold logs. lia.
Qed.

(* ---- phase 1: rotation *)
Lemma phase_rotate_ok m cfg rest cf w ev :
  WInv rest cf w -> w_len w < two63 -> l_size ev < two63 -> slen (w_set w) < two63 ->
  (phase_rotate pv m cfg ev w = ROk w /\
   w_len w + l_size ev <= max_write_bytes cfg /\ l_time ev - w_created w <= max_write_age cfg)
  \/
  (exists nm, phase_rotate pv m cfg ev w =
      ROk (mkW ((rest ++ [cf]) ++ [new_file nm (l_time ev)])
               (mkPset (entries (w_set w) ++ [mkPfile (w_cur w) (l_time ev) (w_len w)])
                       (slen (w_set w) + w_len w) (ties (w_set w)))
               nm 0 (l_time ev)) /\
    WInv (rest ++ [cf]) (new_file nm (l_time ev))
         (mkW ((rest ++ [cf]) ++ [new_file nm (l_time ev)])
               (mkPset (entries (w_set w) ++ [mkPfile (w_cur w) (l_time ev) (w_len w)])
                       (slen (w_set w) + w_len w) (ties (w_set w)))
               nm 0 (l_time ev))).
Proof.
  intros I Hl Hn Hs. destruct I as [Hfs G A R Nm Gn Sz Cr].
  unfold phase_rotate. rewrite add64_ok by (rewrite <- two63_two64; lia).
  destruct ((max_write_bytes cfg <? w_len w + l_size ev) || (max_write_age cfg <? l_time ev - w_created w)) eqn:E.
  - right. unfold push. cbn [v_push_counts post p_len].
    rewrite add64_ok by (rewrite <- two63_two64; lia).
    destruct (create_some (ticks_per_sec cfg) (l_time ev) (w_fs w)) as (nm & Ec & Gnm & Hfresh).
    rewrite Ec, Hfs. exists nm. split; [reflexivity|].
    destruct G as [Hnd Hnames Hlens Hsum].
    constructor; cbn [w_fs w_set w_cur w_len w_created new_file f_alive f_reg f_name f_created]; auto.
    + constructor; cbn [entries slen].
      * rewrite live_names_app. unfold live_names at 2. unfold listing. cbn.
        apply NoDup_app_snoc; auto. now rewrite <- Hfs.
      * rewrite map_app, logs_app, map_app, Hnames. f_equal. unfold logs. cbn [filter].
        rewrite (islog_gen cf A R) by (now rewrite Nm). cbn. now rewrite Nm.
      * rewrite map_app, logs_app, map_app, Hlens. f_equal. unfold logs. cbn [filter].
        rewrite (islog_gen cf A R) by (now rewrite Nm). cbn. now rewrite Sz.
      * rewrite map_app, sumN_app. cbn [map p_len]. rewrite sumN_cons, sumN_nil. lia.
  - left. apply orb_false_iff in E as [E1 E2]. apply N.ltb_ge in E1, E2. auto.
Qed.

(* ---- phase 2: deletion by age and by budget *)
Lemma Pops_trans leb P a b c : Pops leb P a b -> Pops leb P b c -> Pops leb P a c.
Proof. induction 1; intros Hc; auto. apply Pops_step; auto. Qed.

Lemma phase_delete_ok m cfg rest cf w ev : WInv rest cf w ->
  exists rest' st',
    let w' := mkW (rest' ++ [cf]) st' (w_cur w) (w_len w) (w_created w) in
    phase_delete pv m cfg ev w = ROk w' /\ WInv rest' cf w' /\ Kills rest rest' /\
    slen st' <= max_keep_bytes cfg - w_len w - l_size ev /\
    (forall d, max_keep_age cfg = Some d -> forall e, In e (entries st') -> l_time ev - d <= p_mtime e) /\
    Pops (heap_leb pv) (fun _ => True) (entries (w_set w)) (entries st').
Proof.
  intros I. destruct I as [Hfs G A R Nm Gn Sz Cr].
  unfold phase_delete.
  (* age *)
  assert (H1 : exists rest1 st1,
    match max_keep_age cfg with
    | Some d => lift_set w (delete_older_than pv m (l_time ev) d (w_fs w, w_set w))
    | None => ROk w
    end = ROk (mkW (rest1 ++ [cf]) st1 (w_cur w) (w_len w) (w_created w)) /\
    Good rest1 [cf] st1 /\ Kills rest rest1 /\
    (forall d, max_keep_age cfg = Some d -> forall e, In e (entries st1) -> l_time ev - d <= p_mtime e) /\
    Pops (heap_leb pv) (fun _ => True) (entries (w_set w)) (entries st1)).
  { destruct (max_keep_age cfg) as [d|].
    - rewrite Hfs. destruct (delete_older_than_good prefix b18 m (l_time ev) d rest [cf] _ G)
        as (rest1 & st1 & E & G1 & K1 & P1 & Hthr & _).
      rewrite E. cbn [lift_set]. exists rest1, st1. splits; auto.
      + intros d' [= <-]. exact Hthr.
      + eapply Pops_weaken; [|exact P1]. auto.
    - exists rest, (w_set w). splits; auto using Kills_refl.
      + destruct w; cbn in *. now rewrite Hfs.
      + intros d' [=].
      + constructor. }
  destruct H1 as (rest1 & st1 & -> & G1 & K1 & Hage & P1).
  cbn [bind]. unfold budget. cbn [v_sat_budget post w_len w_fs w_set].
  destruct (while_over_good prefix b18 m (sat_sub (sat_sub (max_keep_bytes cfg) (w_len w)) (l_size ev)) rest1 [cf] st1 G1)
    as (rest2 & st2 & E & G2 & K2 & Hle & P2 & _).
  rewrite E. cbn [lift_set w_cur w_len w_created].
  exists rest2, st2. cbn zeta. splits; auto.
  - constructor; cbn [w_fs w_set w_cur w_len w_created]; auto.
  - eapply Kills_trans; eauto.
  - intros d Hd e He. apply (Hage d Hd). eapply Pops_incl; eauto.
  - eapply Pops_trans; eauto.
Qed.

(* ---- phase 3: append *)
Lemma phase_append_ok m rest cf w ev : WInv rest cf w -> w_len w + l_size ev < two64 ->
  let w' := mkW (rest ++ [add_line ev cf]) (w_set w) (w_cur w) (w_len w + l_size ev) (w_created w) in
  phase_append m ev w = ROk w' /\ WInv rest (add_line ev cf) w'.
Proof.
  intros I H. destruct I as [Hfs G A R Nm Gn Sz Cr]. cbn zeta.
  unfold phase_append. rewrite add64_ok by assumption. rewrite Hfs, append_last_snoc. split; [reflexivity|].
  constructor; cbn [w_fs w_set w_cur w_len w_created add_line f_alive f_reg f_name f_created]; auto.
  - destruct G as [Hnd Hn Hl Hs]. constructor; auto.
    rewrite (live_names_snoc_same rest cf (add_line ev cf)); auto.
  - rewrite f_size_add_line. now rewrite Sz.
Qed.

(* ---- one loop iteration *)
Definition step_shape (rest : list file) (cf : file) (w : wstate) (cfg : config) (ev : line)
           (rest' : list file) (cf' : file) : Prop :=
  (Kills rest rest' /\ cf' = add_line ev cf /\
   w_len w + l_size ev <= max_write_bytes cfg /\ l_time ev - w_created w <= max_write_age cfg)
  \/
  (exists nm, Kills (rest ++ [cf]) rest' /\ cf' = add_line ev (new_file nm (l_time ev)) /\ is_gen nm = true).

Lemma step_ok m cfg rest cf w ev :
  cfg_ok cfg -> WInv rest cf w -> w_len w < two63 -> slen (w_set w) <= max_keep_bytes cfg -> l_size ev < two63 ->
  exists rest' cf' w',
    step pv m cfg w ev = ROk w' /\ WInv rest' cf' w' /\ step_shape rest cf w cfg ev rest' cf' /\
    w_len w' < two63 /\ slen (w_set w') <= max_keep_bytes cfg /\
    slen (w_set w') + w_len w' <= N.max (N.max (max_keep_bytes cfg) (max_write_bytes cfg)) (l_size ev) /\
    (forall d, max_keep_age cfg = Some d -> forall e, In e (entries (w_set w')) -> l_time ev - d <= p_mtime e).
Proof.
  intros [Cw Ck] I Hl Hs Hn. unfold step.
  destruct (phase_rotate_ok m cfg rest cf w ev I Hl Hn) as [(E & Hsz & Hag)|(nm & E & I1)]; [lia| |].
  - (* no rotation *)
    rewrite E. cbn [bind].
    destruct (phase_delete_ok m cfg rest cf w ev I) as (rest' & st' & E2 & I2 & K & Hb & Hage & _).
    cbn zeta in E2, I2. rewrite E2. cbn [bind].
    destruct (phase_append_ok m rest' cf _ ev I2) as [E3 I3].
    { cbn [w_len]. rewrite <- two63_two64. lia. }
    cbn zeta in E3, I3. cbn [w_set w_cur w_len w_created] in E3, I3. rewrite E3.
    eexists rest', (add_line ev cf), _. splits; [reflexivity|exact I3| | | | |]; cbn [w_len w_set].
    + left. auto.
    + lia.
    + lia.
    + lia.
    + exact Hage.
  - (* rotation *)
    rewrite E. cbn [bind].
    destruct (phase_delete_ok m cfg (rest ++ [cf]) (new_file nm (l_time ev)) _ ev I1) as (rest' & st' & E2 & I2 & K & Hb & Hage & _).
    cbn zeta in E2, I2. cbn [w_set w_cur w_len w_created] in E2, I2, Hb, Hage.
    rewrite E2. cbn [bind].
    destruct (phase_append_ok m rest' (new_file nm (l_time ev)) _ ev I2) as [E3 I3].
    { cbn [w_len]. rewrite <- two63_two64. lia. }
    cbn zeta in E3, I3. cbn [w_set w_cur w_len w_created] in E3, I3. rewrite E3.
    eexists rest', (add_line ev (new_file nm (l_time ev))), _. splits; [reflexivity|exact I3| | | | |]; cbn [w_len w_set].
    + right. exists nm. splits; auto. destruct I1 as [_ _ _ _ _ Gn _ _]. exact Gn.
    + lia.
    + lia.
    + lia.
    + exact Hage.
Qed.

(* ---- start_writer_thread up to the spawn *)
Lemma logs_entry_lens (l : list file) : map p_len (map entry_of l) = map f_size l.
Proof. rewrite map_map. reflexivity. Qed.
Lemma logs_entry_names (l : list file) : map p_name (map entry_of l) = map f_name l.
Proof. rewrite map_map. reflexivity. Qed.

Lemma start_ok m cfg fs0 ts sl :
  NoDup (live_names fs0) -> total_size post_fix prefix fs0 < two64 -> l_size sl < two63 ->
  exists rest nm w,
    start pv m cfg prefix fs0 ts sl = ROk w /\
    WInv rest (add_line sl (new_file nm (l_time sl))) w /\ Kills fs0 rest /\ is_gen nm = true /\
    w_len w = l_size sl /\ slen (w_set w) <= max_keep_bytes cfg.
Proof.
  intros Hnd Htot Hs. unfold start, set_new.
  change (filter (is_log_file pv prefix) fs0) with (logs prefix fs0). rewrite logs_entry_lens.
  rewrite (sum64_fits m _ 0) by (unfold total_size, log_files in Htot; unfold logs; lia).
  set (st0 := mkPset (map entry_of (logs prefix fs0)) (0 + sumN (map f_size (logs prefix fs0))) ts).
  assert (G0 : Good fs0 [] st0).
  { constructor; cbn [st0 entries slen].
    - now rewrite app_nil_r.
    - apply logs_entry_names.
    - apply logs_entry_lens.
    - rewrite logs_entry_lens. lia. }
  destruct (while_over_good prefix b18 m (max_keep_bytes cfg) fs0 [] st0 G0) as (rest & st1 & E & G1 & K & Hle & _).
  rewrite !app_nil_r in E. rewrite E.
  destruct (create_some (ticks_per_sec cfg) (l_time sl) rest) as (nm & Ec & Gn & Hfresh). rewrite Ec.
  rewrite add64_ok by (pose proof two63_two64; lia).
  rewrite append_last_snoc.
  exists rest, nm. eexists. splits; [reflexivity| |exact K|exact Gn|reflexivity|exact Hle].
  destruct G1 as [Hnd1 Hn1 Hl1 Hs1]. rewrite app_nil_r in Hnd1.
  constructor; cbn [w_fs w_set w_cur w_len w_created add_line new_file f_alive f_reg f_name f_created]; auto.
  - constructor; auto. rewrite live_names_app. unfold live_names at 2, listing. cbn. now apply NoDup_app_snoc.
  - rewrite f_size_add_line. unfold f_size. cbn. lia.
Qed.

(* ------------------------------------------------------------------ what is on disk *)
(* size and age rule of one file of the writer: at most max_write_bytes, or a single line *)
Definition size_rule (mw : N) (lines : list line) : bool :=
  (sumN (map l_size lines) <=? mw) || (length lines <=? 1)%nat.
Definition fprop (MW WA : N) (f : file) : Prop :=
  size_rule MW (f_lines f) = true /\
  Forall (fun l => l_time l - f_created f <= WA) (f_lines f) /\
  f_lines f <> [] /\ f_reg f = true /\ is_gen (f_name f) = true.

(* [HI fs0 lines MW WA fs]: the directory [fs] consists of the original entries [fs0], of which
   only log files may have been deleted, followed by the files the writer created; these hold
   exactly the accepted [lines], in order, cut into whole lines; each obeys the file rule *)
Definition HI (fs0 : list file) (lines : list line) (MW WA : N) (fs : list file) : Prop :=
  exists old created, fs = old ++ created /\ Kills fs0 old /\
                      concat (map f_lines created) = lines /\ Forall (fprop MW WA) created.

Lemma fprop_kill_rel MW WA f f' : kill_rel prefix f f' -> fprop MW WA f -> fprop MW WA f'.
Proof. intros [->|[-> _]]; auto. Qed.

Lemma Forall2_app_inv_l' {A B} (R : A -> B -> Prop) l1 l2 l' : Forall2 R (l1 ++ l2) l' ->
  exists l1' l2', Forall2 R l1 l1' /\ Forall2 R l2 l2' /\ l' = l1' ++ l2'.
Proof. apply Forall2_app_inv_l. Qed.

Lemma HI_kills fs0 lines MW WA fs fs' : HI fs0 lines MW WA fs -> Kills fs fs' -> HI fs0 lines MW WA fs'.
Proof.
  intros (old & created & -> & K0 & Hc & Hf) K.
  apply Forall2_app_inv_l' in K as (old' & created' & Ko & Kc & ->).
  exists old', created'. splits; auto.
  - eapply Kills_trans; eauto.
  - rewrite <- (Kills_lines prefix _ _ Kc). exact Hc.
  - clear - Kc Hf. induction Kc; inversion Hf; subst; constructor; eauto using fprop_kill_rel.
Qed.

Lemma HI_snoc fs0 lines MW WA fs f : HI fs0 lines MW WA fs -> fprop MW WA f ->
  HI fs0 (lines ++ f_lines f) MW WA (fs ++ [f]).
Proof.
  intros (old & created & -> & K0 & Hc & Hf) Pf.
  exists old, (created ++ [f]). splits; auto.
  - now rewrite app_assoc.
  - rewrite map_app, concat_app, Hc. cbn. now rewrite app_nil_r.
  - apply Forall_app. split; auto.
Qed.

(* the current file is the last of the created files *)
Definition HIc (fs0 : list file) (lines : list line) (MW WA : N) (rest : list file) (cf : file) : Prop :=
  exists old c0, rest = old ++ c0 /\ Kills fs0 old /\
                 concat (map f_lines (c0 ++ [cf])) = lines /\ Forall (fprop MW WA) (c0 ++ [cf]).

Lemma HIc_HI fs0 lines MW WA rest cf : HIc fs0 lines MW WA rest cf -> HI fs0 lines MW WA (rest ++ [cf]).
Proof. intros (old & c0 & -> & K & Hc & Hf). exists old, (c0 ++ [cf]). splits; auto. now rewrite app_assoc. Qed.

Lemma HIc_of_snoc fs0 lines MW WA fs f : HI fs0 lines MW WA fs -> fprop MW WA f ->
  HIc fs0 (lines ++ f_lines f) MW WA fs f.
Proof.
  intros (old & created & -> & K0 & Hc & Hf) Pf.
  exists old, created. splits; auto.
  - rewrite map_app, concat_app, Hc. cbn. now rewrite app_nil_r.
  - apply Forall_app. split; auto.
Qed.

Lemma fprop_add_line MW WA ev cf : fprop MW WA cf -> f_size cf + l_size ev <= MW ->
  l_time ev - f_created cf <= WA -> fprop MW WA (add_line ev cf).
Proof.
  intros (Hs & Ha & Hne & Hr & Hg) Hsz Hag. unfold fprop, add_line. cbn [f_lines f_created f_reg f_name]. splits; auto.
  - unfold size_rule. rewrite map_app, sumN_app. cbn [map]. rewrite sumN_cons, sumN_nil.
    apply orb_true_iff. left. apply N.leb_le. unfold f_size in Hsz. lia.
  - apply Forall_app. split; auto.
  - destruct (f_lines cf); discriminate.
Qed.
Lemma fprop_first_line MW WA ev nm : is_gen nm = true -> fprop MW WA (add_line ev (new_file nm (l_time ev))).
Proof.
  intros Gn. unfold fprop, add_line, new_file. cbn [f_lines f_created f_reg f_name app]. splits; auto.
  - unfold size_rule. apply orb_true_iff. right. reflexivity.
  - constructor; [lia|constructor].
  - discriminate.
Qed.

Lemma HIc_step fs0 lines MW WA rest cf w cfg ev rest' cf' :
  HIc fs0 lines MW WA rest cf -> f_size cf = w_len w -> f_created cf = w_created w ->
  max_write_bytes cfg <= MW -> max_write_age cfg <= WA ->
  step_shape rest cf w cfg ev rest' cf' ->
  HIc fs0 (lines ++ [ev]) MW WA rest' cf'.
Proof.
  intros H Sz Cr Hmw Hwa [(K & -> & Hsz & Hag)|(nm & K & -> & Gn)].
  - destruct H as (old & c0 & -> & K0 & Hc & Hf).
    apply Forall2_app_inv_l' in K as (old' & c0' & Ko & Kc & ->).
    exists old', c0'. splits; auto.
    + eapply Kills_trans; eauto.
    + rewrite map_app, concat_app in *. rewrite <- (Kills_lines prefix _ _ Kc). cbn in *.
      rewrite !app_nil_r in *. rewrite <- Hc. now rewrite app_assoc.
    + apply Forall_app in Hf as [Hf0 Hfc]. apply Forall_app. split.
      * clear - Kc Hf0. induction Kc; inversion Hf0; subst; constructor; eauto using fprop_kill_rel.
      * constructor; [|constructor]. inversion Hfc; subst. apply fprop_add_line; auto; lia.
  - apply HIc_HI in H. pose proof (HI_kills _ _ _ _ _ _ H K) as H'.
    apply (HIc_of_snoc _ _ _ _ _ (add_line ev (new_file nm (l_time ev)))) in H'; [exact H'|now apply fprop_first_line].
Qed.

(* ------------------------------------------------------------------ a whole run *)
Lemma run_events_ok m cfg fs0 MW WA : cfg_ok cfg -> max_write_bytes cfg <= MW -> max_write_age cfg <= WA ->
  forall evs rest cf w lines,
  WInv rest cf w -> w_len w < two63 -> slen (w_set w) <= max_keep_bytes cfg ->
  Forall (fun l => l_size l < two63) evs -> HIc fs0 lines MW WA rest cf ->
  exists rest' cf' w',
    run_events pv m cfg w evs = ROk w' /\ WInv rest' cf' w' /\
    w_len w' < two63 /\ slen (w_set w') <= max_keep_bytes cfg /\
    HIc fs0 (lines ++ evs) MW WA rest' cf' /\
    (forall ev, last evs ev = ev -> evs <> [] ->
       slen (w_set w') + w_len w' <= N.max (N.max (max_keep_bytes cfg) (max_write_bytes cfg)) (l_size ev) /\
       (forall d, max_keep_age cfg = Some d -> forall e, In e (entries (w_set w')) -> l_time ev - d <= p_mtime e)).
Proof.
  intros Cok Hmw Hwa. induction evs as [|ev evs IH]; intros rest cf w lines I Hl Hs Hsz H.
  - exists rest, cf, w. cbn [run_events]. rewrite app_nil_r. splits; auto. intros ev _ Hne. contradiction.
  - inversion Hsz as [|? ? Hev Hsz']; subst. cbn [run_events].
    destruct (step_ok m cfg rest cf w ev Cok I Hl Hs Hev) as (rest1 & cf1 & w1 & E & I1 & Sh & Hl1 & Hs1 & Htot & Hage).
    rewrite E. cbn [bind].
    assert (H1 : HIc fs0 (lines ++ [ev]) MW WA rest1 cf1).
    { eapply HIc_step; eauto; destruct I; auto. }
    destruct (IH rest1 cf1 w1 _ I1 Hl1 Hs1 Hsz' H1) as (rest' & cf' & w' & E' & I' & Hl' & Hs' & H' & Hlast).
    exists rest', cf', w'. splits; auto.
    + rewrite <- app_assoc in H'. exact H'.
    + intros ev' Hlst _. destruct evs as [|ev2 evs].
      * cbn in Hlst. subst ev'. cbn [run_events] in E'. injection E' as <-. auto.
      * apply Hlast; [|discriminate]. exact Hlst.
Qed.

Definition wf_run (MW WA : N) (r : run) : Prop :=
  cfg_ok (r_cfg r) /\ max_write_bytes (r_cfg r) <= MW /\ max_write_age (r_cfg r) <= WA /\
  Forall (fun l => l_size l < two63) (run_lines r).

Definition dir_ok (fs : list file) : Prop :=
  NoDup (live_names fs) /\ total_size post_fix prefix fs < two64.

Lemma WInv_dir_ok rest cf w cfg : WInv rest cf w -> cfg_ok cfg -> w_len w < two63 ->
  slen (w_set w) <= max_keep_bytes cfg -> dir_ok (w_fs w).
Proof.
  intros I [_ Ck] Hl Hs. split.
  - destruct I as [Hfs [Hnd _ _ _] _ _ _ _ _ _]. now rewrite Hfs.
  - rewrite (total_size_inv _ _ _ I). pose proof two63_two64. lia.
Qed.

Lemma run_one_ok m fs0 MW WA linesA fsA r :
  HI fs0 linesA MW WA fsA -> dir_ok fsA -> wf_run MW WA r ->
  exists rest cf w,
    run_one pv m prefix fsA r = ROk w /\ WInv rest cf w /\
    w_len w < two63 /\ slen (w_set w) <= max_keep_bytes (r_cfg r) /\
    HIc fs0 (linesA ++ run_lines r) MW WA rest cf /\
    (r_events r = [] -> slen (w_set w) + w_len w <= max_keep_bytes (r_cfg r) + l_size (r_start r)) /\
    (forall ev, last (r_events r) ev = ev -> r_events r <> [] ->
       slen (w_set w) + w_len w
         <= N.max (N.max (max_keep_bytes (r_cfg r)) (max_write_bytes (r_cfg r))) (l_size ev) /\
       (forall d, max_keep_age (r_cfg r) = Some d ->
                  forall e, In e (entries (w_set w)) -> l_time ev - d <= p_mtime e)).
Proof.
  intros H [Hnd Htot] (Cok & Hmw & Hwa & Hsz). unfold run_lines in Hsz. inversion Hsz as [|? ? Hs0 Hevs]; subst.
  unfold run_one.
  destruct (start_ok m (r_cfg r) fsA (r_ties r) (r_start r) Hnd Htot Hs0) as (rest & nm & w & E & I & K & Gn & Hl & Hs).
  rewrite E. cbn [bind].
  assert (H1 : HIc fs0 (linesA ++ [r_start r]) MW WA rest (add_line (r_start r) (new_file nm (l_time (r_start r))))).
  { pose proof (HI_kills _ _ _ _ _ _ H K) as H'.
    apply (HIc_of_snoc _ _ _ _ _ (add_line (r_start r) (new_file nm (l_time (r_start r))))) in H'; [exact H'|now apply fprop_first_line]. }
  assert (Hl2 : w_len w < two63) by (rewrite Hl; exact Hs0).
  destruct (run_events_ok m (r_cfg r) fs0 MW WA Cok Hmw Hwa (r_events r) _ _ w (linesA ++ [r_start r]) I Hl2 Hs Hevs H1)
    as (rest' & cf' & w' & E' & I' & Hl' & Hs' & H' & Hlast).
  exists rest', cf', w'. splits; auto.
  - unfold run_lines. rewrite <- app_assoc in H'. exact H'.
  - intros Hnil. rewrite Hnil in E'. cbn [run_events] in E'. injection E' as <-. lia.
Qed.

Lemma history_ok m fs0 MW WA : forall rs linesA fsA,
  HI fs0 linesA MW WA fsA -> dir_ok fsA -> Forall (wf_run MW WA) rs ->
  exists fs', run_history pv m prefix fsA rs = ROk fs' /\
              HI fs0 (linesA ++ history_lines rs) MW WA fs' /\ dir_ok fs'.
Proof.
  induction rs as [|r rs IH]; intros linesA fsA H D Hwf.
  - exists fsA. cbn [run_history history_lines map concat]. rewrite app_nil_r. auto.
  - inversion Hwf as [|? ? Hr Hrs]; subst. cbn [run_history].
    destruct (run_one_ok m fs0 MW WA linesA fsA r H D Hr) as (rest & cf & w & E & I & Hl & Hs & Hc & _).
    rewrite E.
    destruct (IH (linesA ++ run_lines r) (w_fs w)) as (fs' & E' & H' & D'); auto.
    + destruct I as [Hfs _ _ _ _ _ _ _]. rewrite Hfs. now apply HIc_HI.
    + destruct Hr as (Cok & _). eapply WInv_dir_ok; eauto.
    + exists fs'. splits; auto. unfold history_lines in *. cbn [map concat]. now rewrite app_assoc.
Qed.

Lemma HI_init fs0 MW WA : HI fs0 [] MW WA fs0.
Proof. exists fs0, []. splits; auto using Kills_refl. now rewrite app_nil_r. Qed.

(* ------------------------------------------------------------------ the statements of C19 *)
Definition hist_ok (fs0 : list file) (MW WA : N) (rs : list run) : Prop :=
  dir_ok fs0 /\ Forall (wf_run MW WA) rs.

Lemma writer_never_panics m fs0 MW WA rs : hist_ok fs0 MW WA rs ->
  exists fs', run_history pv m prefix fs0 rs = ROk fs'.
Proof.
  intros [D W]. destruct (history_ok m fs0 MW WA rs [] fs0 (HI_init _ _ _) D W) as (fs' & E & _). eauto.
Qed.

Lemma every_event_once_in_order m fs0 MW WA rs : hist_ok fs0 MW WA rs ->
  exists fs' old created,
    run_history pv m prefix fs0 rs = ROk fs' /\ fs' = old ++ created /\ Kills fs0 old /\
    concat (map f_lines created) = history_lines rs /\
    Forall (fun f => f_lines f <> []) created.
Proof.
  intros [D W]. destruct (history_ok m fs0 MW WA rs [] fs0 (HI_init _ _ _) D W) as (fs' & E & (old & created & -> & K & Hc & Hf) & _).
  exists (old ++ created), old, created. splits; auto.
  eapply Forall_impl; [|exact Hf]. intros f (_ & _ & H & _). exact H.
Qed.

Lemma file_bounds m fs0 MW WA rs : hist_ok fs0 MW WA rs ->
  exists fs' old created,
    run_history pv m prefix fs0 rs = ROk fs' /\ fs' = old ++ created /\ length old = length fs0 /\
    Forall (fun f =>
      (f_size f <= MW \/ length (f_lines f) = 1%nat) /\
      Forall (fun l => l_time l - f_created f <= WA) (f_lines f)) created.
Proof.
  intros [D W]. destruct (history_ok m fs0 MW WA rs [] fs0 (HI_init _ _ _) D W) as (fs' & E & (old & created & -> & K & Hc & Hf) & _).
  exists (old ++ created), old, created. splits; auto.
  - symmetry. eapply Kills_length; eauto.
  - eapply Forall_impl; [|exact Hf]. intros f (Hs & Ha & Hne & _). split; auto.
    unfold size_rule in Hs. apply orb_true_iff in Hs as [Hs|Hs].
    + left. apply N.leb_le in Hs. exact Hs.
    + right. apply Nat.leb_le in Hs. destruct (f_lines f) as [|? [|? ?]]; cbn in *; try lia. contradiction.
Qed.

Lemma other_files_untouched m fs0 MW WA rs : hist_ok fs0 MW WA rs ->
  exists fs' old created,
    run_history pv m prefix fs0 rs = ROk fs' /\ fs' = old ++ created /\
    Forall2 (fun f f' => is_log_file post_fix prefix f = false -> f' = f) fs0 old.
Proof.
  intros [D W]. destruct (history_ok m fs0 MW WA rs [] fs0 (HI_init _ _ _) D W) as (fs' & E & (old & created & -> & K & Hc & Hf) & _).
  exists (old ++ created), old, created. splits; auto. now apply Kills_nonlog.
Qed.

(* the state of the writer after any run [r] that follows any history [rs] -- i.e. at every event
   boundary of every history, because the events of [r] are an arbitrary list *)
Lemma run_after_history m fs0 MW WA rs r : hist_ok fs0 MW WA (rs ++ [r]) ->
  exists fsA rest cf w,
    run_history pv m prefix fs0 rs = ROk fsA /\ run_one pv m prefix fsA r = ROk w /\
    WInv rest cf w /\ HIc fs0 (history_lines rs ++ run_lines r) MW WA rest cf /\
    (r_events r = [] -> slen (w_set w) + w_len w <= max_keep_bytes (r_cfg r) + l_size (r_start r)) /\
    (forall ev, last (r_events r) ev = ev -> r_events r <> [] ->
       slen (w_set w) + w_len w
         <= N.max (N.max (max_keep_bytes (r_cfg r)) (max_write_bytes (r_cfg r))) (l_size ev) /\
       (forall d, max_keep_age (r_cfg r) = Some d ->
                  forall e, In e (entries (w_set w)) -> l_time ev - d <= p_mtime e)).
Proof.
  intros [D W]. apply Forall_app in W as [W Wr]. inversion Wr as [|? ? Hr _]; subst.
  destruct (history_ok m fs0 MW WA rs [] fs0 (HI_init _ _ _) D W) as (fsA & E & H & DA).
  destruct (run_one_ok m fs0 MW WA _ fsA r H DA Hr) as (rest & cf & w & E1 & I & _ & _ & Hc & T0 & T1).
  exists fsA, rest, cf, w. splits; auto.
Qed.

Lemma total_bound m fs0 MW WA rs r : hist_ok fs0 MW WA (rs ++ [r]) ->
  exists fsA w,
    run_history pv m prefix fs0 rs = ROk fsA /\ run_one pv m prefix fsA r = ROk w /\
    (r_events r = [] ->
       total_size post_fix prefix (w_fs w) <= max_keep_bytes (r_cfg r) + l_size (r_start r)) /\
    (forall ev, last (r_events r) ev = ev -> r_events r <> [] ->
       total_size post_fix prefix (w_fs w)
         <= N.max (N.max (max_keep_bytes (r_cfg r)) (max_write_bytes (r_cfg r))) (l_size ev)).
Proof.
  intros H. destruct (run_after_history m fs0 MW WA rs r H) as (fsA & rest & cf & w & E & E1 & I & _ & T0 & T1).
  exists fsA, w. rewrite (total_size_inv _ _ _ I). splits; auto. intros ev Hl Hne. now apply T1.
Qed.

Lemma total_bound_quantifier m fs0 MW WA rs r : hist_ok fs0 MW WA (rs ++ [r]) ->
  max_write_bytes (r_cfg r) <= max_keep_bytes (r_cfg r) ->
  exists fsA w,
    run_history pv m prefix fs0 rs = ROk fsA /\ run_one pv m prefix fsA r = ROk w /\
    total_size post_fix prefix (w_fs w) <= max_keep_bytes (r_cfg r) + l_size (last (r_events r) (r_start r)).
Proof.
  intros H Hk. destruct (total_bound m fs0 MW WA rs r H) as (fsA & w & E & E1 & T0 & T1).
  exists fsA, w. splits; auto. destruct (r_events r) as [|e0 evs] eqn:Ev.
  - cbn [last]. now apply T0.
  - assert (Hne : e0 :: evs <> []) by discriminate.
    assert (Hl : last (e0 :: evs) (last (e0 :: evs) (r_start r)) = last (e0 :: evs) (r_start r)).
    { clear. generalize (r_start r). revert e0. induction evs as [|a evs IH]; intros e0 d; [reflexivity|].
      change (last (e0 :: a :: evs) ?x) with (last (a :: evs) x). apply IH. }
    specialize (T1 _ Hl Hne). lia.
Qed.

Lemma age_bound m fs0 MW WA rs r d : hist_ok fs0 MW WA (rs ++ [r]) ->
  max_keep_age (r_cfg r) = Some d -> r_events r <> [] ->
  exists fsA rest cf w,
    run_history pv m prefix fs0 rs = ROk fsA /\ run_one pv m prefix fsA r = ROk w /\
    w_fs w = rest ++ [cf] /\
    map p_name (entries (w_set w)) = map f_name (logs prefix rest) /\
    Forall (fun e => l_time (last (r_events r) (r_start r)) - d <= p_mtime e) (entries (w_set w)).
Proof.
  intros H Hd Hne. destruct (run_after_history m fs0 MW WA rs r H) as (fsA & rest & cf & w & E & E1 & I & _ & _ & T1).
  exists fsA, rest, cf, w. destruct I as [Hfs [_ Hn _ _] _ _ _ _ _ _]. splits; auto.
  apply Forall_forall. intros e He.
  assert (Hl : last (r_events r) (last (r_events r) (r_start r)) = last (r_events r) (r_start r)).
  { clear - Hne. generalize (r_start r). induction (r_events r) as [|a evs IH]; intros d0; [contradiction|].
    destruct evs as [|b evs]; [reflexivity|]. change (last (a :: b :: evs) ?x) with (last (b :: evs) x).
    apply IH. discriminate. }
  destruct (T1 _ Hl Hne) as [_ Ha]. now apply (Ha d Hd).
Qed.

Lemma writer_len_is_sum m fs0 MW WA rs r : hist_ok fs0 MW WA (rs ++ [r]) ->
  exists fsA rest cf w,
    run_history pv m prefix fs0 rs = ROk fsA /\ run_one pv m prefix fsA r = ROk w /\
    w_fs w = rest ++ [cf] /\ f_name cf = w_cur w /\ f_alive cf = true /\
    slen (w_set w) = sumN (map f_size (logs prefix rest)) /\ w_len w = f_size cf.
Proof.
  intros H. destruct (run_after_history m fs0 MW WA rs r H) as (fsA & rest & cf & w & E & E1 & I & _).
  exists fsA, rest, cf, w. destruct I as [Hfs [_ _ Hl Hs] A _ Nm _ Sz _]. splits; auto. now rewrite Hs, Hl.
Qed.

Lemma current_file_has_last_event m fs0 MW WA rs r : hist_ok fs0 MW WA (rs ++ [r]) ->
  exists fsA rest cf w p,
    run_history pv m prefix fs0 rs = ROk fsA /\ run_one pv m prefix fsA r = ROk w /\
    w_fs w = rest ++ [cf] /\ f_alive cf = true /\
    history_lines (rs ++ [r]) = p ++ f_lines cf /\ f_lines cf <> [].
Proof.
  intros H. destruct (run_after_history m fs0 MW WA rs r H) as (fsA & rest & cf & w & E & E1 & I & Hc & _).
  destruct Hc as (old & c0 & -> & K & Hc & Hf).
  exists fsA, (old ++ c0), cf, w, (concat (map f_lines c0)).
  destruct I as [Hfs _ A _ _ _ _ _]. splits; auto.
  - unfold history_lines. rewrite map_app, concat_app. cbn [map concat]. rewrite app_nil_r.
    rewrite map_app, concat_app in Hc. cbn in Hc. rewrite app_nil_r in Hc. now rewrite Hc.
  - apply Forall_app in Hf as [_ Hf]. inversion Hf as [|? ? (_ & _ & Hne & _) _]; subst. exact Hne.
Qed.

End Writer.
