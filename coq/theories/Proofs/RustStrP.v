(* Proofs/RustStrP.v -- lemmas about Model/RustStr.v *)
From SV Require Import Base.Bytes Base.BytesP Model.RustStr.

(* ---- split ---- *)
Lemma split_not_nil c s : split c s <> [].
Proof.
  destruct s as [|x t]; cbn [split]; [discriminate|].
  destruct (x =? c); [discriminate|]. destruct (split c t); discriminate.
Qed.

Lemma split_cons_ne c x t : (x =? c) = false ->
  split c (x :: t) = match split c t with p :: ps => (x :: p) :: ps | [] => [[x]] end.
Proof. intros H. cbn [split]. now rewrite H. Qed.

(* every piece of a string all of whose bytes satisfy P satisfies P *)
Lemma split_forallb (P : N -> bool) c s :
  forallb P s = true -> forallb (forallb P) (split c s) = true.
Proof.
  induction s as [|x t IH]; cbn [split forallb]; [reflexivity|].
  rewrite andb_true_iff. intros [Hx Ht]. specialize (IH Ht).
  destruct (x =? c); cbn [forallb]; [exact IH|].
  destruct (split c t) as [|p ps]; cbn [forallb] in *; [now rewrite Hx|].
  apply andb_true_iff in IH. destruct IH as [Hp Hps]. now rewrite Hx, Hp, Hps.
Qed.

(* ---- dropping / trimming with two predicates that agree on the string ---- *)
Fixpoint drop_while (p : N -> bool) (s : bytes) : bytes :=
  match s with
  | [] => []
  | x :: t => if p x then drop_while p t else s
  end.

Lemma drop_ws_is s : drop_ws s = drop_while is_rust_ws s.
Proof. induction s as [|x t IH]; cbn [drop_ws drop_while]; [reflexivity|]. now rewrite IH. Qed.

Lemma drop_while_ext (p q : N -> bool) s :
  (forall x, In x s -> p x = q x) -> drop_while p s = drop_while q s.
Proof.
  induction s as [|x t IH]; intros H; cbn [drop_while]; [reflexivity|].
  rewrite (H x (or_introl eq_refl)). rewrite IH; [reflexivity|]. intros y Hy. apply H. now right.
Qed.

Lemma drop_while_incl (p : N -> bool) s x : In x (drop_while p s) -> In x s.
Proof.
  induction s as [|y t IH]; cbn [drop_while]; [auto|].
  destruct (p y); [intros H; right; now apply IH|auto].
Qed.

Lemma forallb_drop_while (P p : N -> bool) s :
  forallb P s = true -> forallb P (drop_while p s) = true.
Proof.
  rewrite !forallb_forall. intros H x Hx. apply H. eapply drop_while_incl; eassumption.
Qed.

Lemma forallb_rev (P : N -> bool) s : forallb P (rev s) = forallb P s.
Proof.
  induction s as [|x t IH]; cbn [rev forallb]; [reflexivity|].
  rewrite forallb_app, IH. cbn [forallb]. rewrite andb_true_r. apply andb_comm.
Qed.

Lemma forallb_trim (P : N -> bool) s : forallb P s = true -> forallb P (trim s) = true.
Proof.
  intros H. unfold trim. rewrite forallb_rev, drop_ws_is. apply forallb_drop_while.
  rewrite forallb_rev, drop_ws_is. now apply forallb_drop_while.
Qed.

(* on HTAB / SP / VCHAR bytes, Rust's ASCII white space and RFC 7230 OWS coincide *)
Lemma fv_ws_is_ows x : is_fv_byte x = true -> is_rust_ws x = is_ows x.
Proof.
  unfold is_fv_byte, is_rust_ws, is_ows, in_range. intros H.
  apply orb_true_iff in H. destruct H as [H|H].
  - apply N.eqb_eq in H. subst x. reflexivity.
  - apply andb_true_iff in H. destruct H as [H1 H2]. apply N.leb_le in H1.
    destruct (x =? 32) eqn:E; [now rewrite orb_true_r|].
    apply N.eqb_neq in E. rewrite orb_false_r. cbn [orb].
    assert (x <=? 13 = false) as -> by (apply N.leb_gt; lia). rewrite andb_false_r.
    symmetry. apply N.eqb_neq. lia.
Qed.

(* ---- N-indexed take / skip ---- *)
Lemma ntake_firstn n l : ntake n l = firstn (N.to_nat n) l.
Proof.
  revert n; induction l as [|x t IH]; intros n; cbn [ntake].
  - now rewrite firstn_nil.
  - destruct (n =? 0) eqn:E.
    + apply N.eqb_eq in E. subst n. reflexivity.
    + apply N.eqb_neq in E. rewrite IH.
      replace (N.to_nat n) with (S (N.to_nat (N.pred n))) by lia. reflexivity.
Qed.

Lemma nskip_skipn n l : nskip n l = skipn (N.to_nat n) l.
Proof.
  revert n; induction l as [|x t IH]; intros n; cbn [nskip].
  - now rewrite skipn_nil.
  - destruct (n =? 0) eqn:E.
    + apply N.eqb_eq in E. subst n. reflexivity.
    + apply N.eqb_neq in E. rewrite IH.
      replace (N.to_nat n) with (S (N.to_nat (N.pred n))) by lia. reflexivity.
Qed.

(* ---- numbers ---- *)
Lemma undec_acc_fold s : forall a, forallb is_digit s = true ->
  undec_acc a s = Some (fold_left (fun acc c => 10 * acc + (c - 48)) s a).
Proof.
  induction s as [|c t IH]; intros a H; cbn [undec_acc fold_left forallb] in *; [reflexivity|].
  apply andb_true_iff in H. destruct H as [Hc Ht]. rewrite Hc. now apply IH.
Qed.

Lemma undec_acc_nondigit s : forall a, forallb is_digit s = false -> undec_acc a s = None.
Proof.
  induction s as [|c t IH]; intros a H; cbn [undec_acc forallb] in *; [discriminate|].
  destruct (is_digit c); [|reflexivity]. cbn [andb] in H. now apply IH.
Qed.

(* on an all-digit string u64::from_str never takes the sign branch *)
Lemma u64_from_str_digits s : forallb is_digit s = true -> u64_from_str s = u64_of_digits s.
Proof.
  destruct s as [|c t]; [reflexivity|]. cbn [forallb]. rewrite andb_true_iff. intros [Hc _].
  unfold u64_from_str.
  destruct (N.eq_dec c 43) as [->|Hne]; [vm_compute in Hc; discriminate|].
  destruct c as [|p]; [reflexivity|].
  repeat (destruct p as [p|p|]; try reflexivity); exfalso; apply Hne; reflexivity.
Qed.
