(* Proofs/HeadP.v -- lemmas about the concrete head parser of Model/Head.v:
   find_slice facts, FixedBuf facts, which errors each stage can return, absence of Panic. *)
From SV Require Import Base.Bytes Base.BytesP Base.IO Model.Headers Model.Head.

(* ------------------------------------------------------------------ starts_with / find_slice *)
Lemma starts_with_app_true p l x : starts_with p l = true -> starts_with p (l ++ x) = true.
Proof.
  revert l; induction p as [|a p IH]; intros [|b l]; cbn [starts_with app]; try easy.
  intros H; apply andb_true_iff in H as [H1 H2]. rewrite H1, IH; auto.
Qed.

Lemma starts_with_len p l : starts_with p l = true -> (length p <= length l)%nat.
Proof.
  revert l; induction p as [|a p IH]; intros [|b l]; cbn [starts_with length]; try easy; try lia.
  intros H; apply andb_true_iff in H as [_ H]. apply IH in H. lia.
Qed.

Lemma starts_with_firstn p l c : (length p <= c)%nat -> starts_with p (firstn c l) = starts_with p l.
Proof.
  revert l c; induction p as [|a p IH]; intros l c H; [destruct (firstn c l), l; reflexivity|].
  destruct c as [|c]; [cbn in H; lia|]. destruct l as [|b l]; cbn [firstn starts_with]; [reflexivity|].
  rewrite IH by (cbn in H; lia). reflexivity.
Qed.

Lemma starts_with_app_len p l x : (length p <= length l)%nat -> starts_with p (l ++ x) = starts_with p l.
Proof.
  intros H. rewrite <- (starts_with_firstn p (l ++ x) (length l)) by exact H.
  rewrite firstn_app, Nat.sub_diag, firstn_all. cbn [firstn]. now rewrite app_nil_r.
Qed.

Lemma find_slice_unfold p l :
  find_slice p l = if starts_with p l then Some O else
                   match l with [] => None
                   | _ :: t => match find_slice p t with Some k => Some (S k) | None => None end end.
Proof. destruct l; reflexivity. Qed.

Lemma find_slice_len p l n : find_slice p l = Some n -> (n + length p <= length l)%nat.
Proof.
  revert n; induction l as [|a l IH]; intros n; rewrite find_slice_unfold.
  - destruct (starts_with p []) eqn:E; [|discriminate]. intros [= <-]. apply starts_with_len in E. lia.
  - destruct (starts_with p (a :: l)) eqn:E.
    + intros [= <-]. apply starts_with_len in E. lia.
    + destruct (find_slice p l) as [m|]; [|discriminate]. intros [= <-]. specialize (IH m eq_refl). cbn [length]. lia.
Qed.

Lemma find_slice_firstn p l n c :
  find_slice p l = Some n -> (n + length p <= c)%nat -> find_slice p (firstn c l) = Some n.
Proof.
  revert n c; induction l as [|a l IH]; intros n c; rewrite find_slice_unfold.
  - destruct (starts_with p []) eqn:E; [|discriminate]. intros [= <-] _.
    rewrite firstn_nil, find_slice_unfold, E. reflexivity.
  - destruct (starts_with p (a :: l)) eqn:E.
    + intros [= <-] Hc. rewrite find_slice_unfold, starts_with_firstn, E by lia. reflexivity.
    + destruct (find_slice p l) as [m|] eqn:F; [|discriminate]. intros [= <-] Hc.
      destruct c as [|c]; [lia|]. cbn [firstn]. rewrite find_slice_unfold.
      change (a :: firstn c l) with (firstn (S c) (a :: l)).
      rewrite starts_with_firstn, E by lia. cbn [firstn].
      rewrite (IH m c eq_refl) by lia. reflexivity.
Qed.

Lemma find_slice_app p l x n : find_slice p l = Some n -> find_slice p (l ++ x) = Some n.
Proof.
  revert n; induction l as [|a l IH]; intros n; rewrite find_slice_unfold.
  - destruct (starts_with p []) eqn:E; [|discriminate]. intros [= <-].
    rewrite find_slice_unfold. rewrite (starts_with_app_true _ _ x E). reflexivity.
  - destruct (starts_with p (a :: l)) eqn:E.
    + intros [= <-]. rewrite find_slice_unfold, (starts_with_app_true _ _ x E). reflexivity.
    + destruct (find_slice p l) as [m|] eqn:F; [|discriminate]. intros [= <-].
      pose proof (find_slice_len _ _ _ F) as Hl.
      rewrite find_slice_unfold, starts_with_app_len, E by (cbn [length]; lia).
      cbn [app]. rewrite (IH m eq_refl). reflexivity.
Qed.

Lemma find_slice_none_prefix p l x : find_slice p (l ++ x) = None -> find_slice p l = None.
Proof. destruct (find_slice p l) eqn:F; auto. rewrite (find_slice_app _ _ x _ F). discriminate. Qed.

(* the window either contains the first occurrence entirely or contains none *)
Lemma find_slice_window p l n c :
  find_slice p l = Some n ->
  find_slice p (firstn c l) = if (n + length p <=? c)%nat then Some n else None.
Proof.
  intros F. destruct (n + length p <=? c)%nat eqn:E.
  - apply Nat.leb_le in E. now apply find_slice_firstn.
  - apply Nat.leb_gt in E. destruct (find_slice p (firstn c l)) as [m|] eqn:G; [|reflexivity].
    pose proof (find_slice_len _ _ _ G) as Hm. rewrite firstn_length in Hm.
    pose proof (find_slice_app _ _ (skipn c l) _ G) as G'. rewrite firstn_skipn in G'.
    rewrite F in G'. injection G' as ->. lia.
Qed.

(* ------------------------------------------------------------------ character classes *)
Lemma tchar_ascii b : is_tchar b = true -> is_ascii b = true.
Proof.
  unfold is_tchar, is_alpha, is_upper, is_lower, is_digit, in_range, is_ascii.
  rewrite !orb_true_iff, !andb_true_iff, !N.leb_le, !N.eqb_eq, N.ltb_lt. lia.
Qed.
Lemma fv_byte_ascii b : is_fv_byte b = true -> is_ascii b = true.
Proof.
  unfold is_fv_byte, in_range, is_ascii.
  rewrite !orb_true_iff, !andb_true_iff, !N.leb_le, !N.eqb_eq, N.ltb_lt. lia.
Qed.
Lemma forallb_impl (p q : N -> bool) l :
  (forall b, p b = true -> q b = true) -> forallb p l = true -> forallb q l = true.
Proof. intros H. rewrite !forallb_forall. auto. Qed.
Lemma token_ascii s : is_token s = true -> forallb is_ascii s = true.
Proof. unfold is_token. rewrite andb_true_iff. intros [_ H]. exact (forallb_impl _ _ _ tchar_ascii H). Qed.
Lemma fv_ascii s : forallb is_fv_byte s = true -> forallb is_ascii s = true.
Proof. exact (forallb_impl _ _ _ fv_byte_ascii). Qed.

(* ------------------------------------------------------------------ split_on *)
Lemma split_on_nonempty c l : split_on c l <> [].
Proof. induction l as [|b t IH]; cbn [split_on]; [discriminate|]. destruct (b =? c); [discriminate|]. destruct (split_on c t); discriminate. Qed.

(* ------------------------------------------------------------------ which errors can occur *)
Section Parser.
Variable url_parse : bytes -> option (bytes * option bytes).
Variables fix1 fix2 : bool.
Notation prl := (parse_request_line url_parse).
Notation phl := (parse_header_line fix1 fix2).
Notation phls := (parse_header_lines fix1 fix2).
Notation ph := (parse_head_gen url_parse fix1 fix2).

Lemma match_request_line_token line m t v :
  match_request_line line = Some (m, t, v) -> is_token m = true /\ nonblank_run t = true /\ nonblank_run v = true.
Proof.
  unfold match_request_line. destruct (cut_at 32 line) as [[m' r]|]; [|discriminate].
  destruct (cut_at 32 r) as [[t' v']|]; [|discriminate].
  destruct (is_token m' && nonblank_run t' && nonblank_run v') eqn:E; [|discriminate].
  intros [= <- <- <-]. apply andb_true_iff in E as [E E3]. apply andb_true_iff in E as [E1 E2]. auto.
Qed.

Lemma prl_no_panic line : prl line <> Panic.
Proof.
  unfold parse_request_line. destruct (match_request_line line) as [[[m t] v]|] eqn:M; [|discriminate].
  apply match_request_line_token in M as [Hm _]. rewrite (token_ascii _ Hm). cbn [negb].
  destruct (negb (starts_with [47] t)); [discriminate|].
  destruct (url_parse t) as [[p q]|]; [|discriminate]. destruct (beq v http11); discriminate.
Qed.

Lemma prl_errs line e :
  prl line = Err e -> e = HE_MalformedRequestLine \/ e = HE_MalformedPath \/ e = HE_UnsupportedProtocol.
Proof.
  unfold parse_request_line. destruct (match_request_line line) as [[[m t] v]|]; [|intros [= <-]; auto].
  destruct (negb (forallb is_ascii m)); [discriminate|].
  destruct (negb (starts_with [47] t)); [intros [= <-]; auto|].
  destruct (url_parse t) as [[p q]|]; [|intros [= <-]; auto].
  destruct (beq v http11); [discriminate|intros [= <-]; auto].
Qed.

Lemma match_header_line_token line name g :
  match_header_line line = Some (name, g) -> is_token name = true.
Proof.
  unfold match_header_line. destruct (cut_at 58 line) as [[n r]|]; [|discriminate].
  destruct (is_token n) eqn:E; [|discriminate]. now intros [= <- _].
Qed.

Lemma phl_errs line e : phl line = Err e -> e = HE_MalformedHeader.
Proof.
  unfold parse_header_line. destruct (match_header_line line) as [[name g]|]; [|now intros [= <-]].
  destruct (negb (forallb is_ascii name)); [discriminate|].
  destruct (fix2 && negb (forallb is_fv_byte (trim_ws g))); [now intros [= <-]|].
  destruct (forallb is_ascii (trim_ws g)); [discriminate|].
  destruct fix1; [now intros [= <-]|discriminate].
Qed.

Lemma phls_errs lines e : phls lines = Err e -> e = HE_MalformedHeader.
Proof.
  induction lines as [|l t IH]; cbn [parse_header_lines]; [discriminate|].
  destruct (phl l) as [h|e'|] eqn:E; [| intros [= <-]; exact (phl_errs _ _ E) | discriminate].
  destruct (phls t) as [hs|e'|]; [discriminate| |discriminate]. intros [= <-]. now apply IH.
Qed.

(* parse_head never answers Truncated (so the read loop only continues when no CRLFCRLF was found)
   and never MissingRequestLine (slice::split yields at least one piece) *)
Lemma ph_errs hb e :
  ph hb = Err e ->
  e = HE_MalformedRequestLine \/ e = HE_MalformedPath \/ e = HE_UnsupportedProtocol \/ e = HE_MalformedHeader.
Proof.
  unfold parse_head_gen. destruct (split_on 10 hb) as [|x r] eqn:S; [now apply split_on_nonempty in S|].
  cbn [map]. destruct (prl (trim_trailing_cr x)) as [[[[m t] p] q]|e'|] eqn:E.
  - destruct (phls (map trim_trailing_cr r)) as [hs|e'|] eqn:F; [discriminate| |discriminate].
    intros [= <-]. apply phls_errs in F. auto.
  - intros [= <-]. apply prl_errs in E. tauto.
  - discriminate.
Qed.

Lemma ph_not_truncated hb : ph hb <> Err HE_Truncated.
Proof. intros H. apply ph_errs in H. intuition discriminate. Qed.

Lemma ph_error_documented hb e : ph hb = Err e -> documented_head_error (of_head_error e) = true.
Proof. intros H. apply ph_errs in H. destruct H as [->|[->|[->| ->]]]; reflexivity. Qed.
End Parser.

(* with the repair of D1 no stage can panic *)
Section NoPanic.
Variable url_parse : bytes -> option (bytes * option bytes).
Variable fix2 : bool.

Lemma phl_no_panic line : parse_header_line true fix2 line <> Panic.
Proof.
  unfold parse_header_line. destruct (match_header_line line) as [[name g]|] eqn:M; [|discriminate].
  apply match_header_line_token in M. rewrite (token_ascii _ M). cbn [negb].
  destruct (fix2 && negb (forallb is_fv_byte (trim_ws g))); [discriminate|].
  destruct (forallb is_ascii (trim_ws g)); discriminate.
Qed.

Lemma phls_no_panic lines : parse_header_lines true fix2 lines <> Panic.
Proof.
  induction lines as [|l t IH]; cbn [parse_header_lines]; [discriminate|].
  destruct (parse_header_line true fix2 l) as [h|e|] eqn:E; [|discriminate|now apply phl_no_panic in E].
  destruct (parse_header_lines true fix2 t); [discriminate|discriminate|congruence].
Qed.

Lemma ph_no_panic hb : parse_head_gen url_parse true fix2 hb <> Panic.
Proof.
  unfold parse_head_gen. destruct (map trim_trailing_cr (split_on 10 hb)) as [|rl lines]; [discriminate|].
  destruct (parse_request_line url_parse rl) as [[[[m t] p] q]|e|] eqn:E; [|discriminate|now apply prl_no_panic in E].
  destruct (parse_header_lines true fix2 lines) eqn:F; [discriminate|discriminate|now apply phls_no_panic in F].
Qed.
End NoPanic.

(* ------------------------------------------------------------------ try_read on the buffer *)
Section TryRead.
Variable url_parse : bytes -> option (bytes * option bytes).
Variables fix1 fix2 : bool.
Notation tr := (try_read_gen url_parse fix1 fix2).
Notation ph := (parse_head_gen url_parse fix1 fix2).

Lemma try_read_none b : find_slice crlf2 (fb_data b) = None -> tr b = (Err HE_Truncated, b).
Proof. intros H. unfold try_read_gen. now rewrite H. Qed.

(* the unwrap of try_read_exact(head_len + 4) cannot fail: find_slice guarantees the bytes *)
Lemma try_read_some b n :
  find_slice crlf2 (fb_data b) = Some n ->
  exists b', tr b = (ph (firstn n (fb_data b)), b') /\
             fb_data b' = skipn (n + 4) (fb_data b) /\
             (fb_rd b' + length (fb_data b') <= fb_rd b + length (fb_data b))%nat.
Proof.
  intros H. pose proof (find_slice_len _ _ _ H) as L. change (length crlf2) with 4%nat in L.
  unfold try_read_gen, fb_try_read_exact. rewrite H.
  destruct (length (fb_data b) <? n + 4)%nat eqn:E; [apply Nat.ltb_lt in E; lia|].
  rewrite firstn_firstn. replace (Nat.min n (n + 4)) with n by lia.
  destruct (n + 4 =? length (fb_data b))%nat eqn:E2.
  - apply Nat.eqb_eq in E2. eexists; split; [reflexivity|]. cbn [fb_data fb_rd length].
    split; [rewrite E2, skipn_all; reflexivity | lia].
  - eexists; split; [reflexivity|]. cbn [fb_data fb_rd]. split; [reflexivity|].
    rewrite skipn_length. lia.
Qed.

Lemma try_read_no_panic_buf b :
  fst (tr b) = Panic -> exists n, find_slice crlf2 (fb_data b) = Some n /\ ph (firstn n (fb_data b)) = Panic.
Proof.
  destruct (find_slice crlf2 (fb_data b)) as [n|] eqn:F.
  - destruct (try_read_some b n F) as (b' & -> & _). cbn [fst]. intros H. exists n. auto.
  - rewrite (try_read_none b F). discriminate.
Qed.
End TryRead.

Lemma try_read_total url_parse b : fst (try_read url_parse b) <> Panic.
Proof.
  intros H. apply try_read_no_panic_buf in H as (n & _ & H). now apply ph_no_panic in H.
Qed.

(* ------------------------------------------------------------------ boolean equalities *)
Lemma head_error_beq_eq a b : head_error_beq a b = true <-> a = b.
Proof. destruct a, b; cbn; split; congruence. Qed.
Lemma http_error_beq_eq a b : http_error_beq a b = true <-> a = b.
Proof. destruct a, b; cbn; split; congruence. Qed.
Lemma header_beq_eq a b : header_beq a b = true <-> a = b.
Proof.
  destruct a as [a1 a2], b as [b1 b2]. unfold header_beq. cbn [fst snd].
  rewrite andb_true_iff, !beq_eq. split; [intros [-> ->]; reflexivity|intros [= -> ->]; auto].
Qed.
Lemma hlist_beq_eq a b : hlist_beq a b = true <-> a = b.
Proof. apply list_beq_eq. exact header_beq_eq. Qed.
Lemma option_beq_eq a b : option_beq beq a b = true <-> a = b.
Proof.
  destruct a, b; cbn [option_beq]; try (split; congruence).
  rewrite beq_eq. split; congruence.
Qed.
Lemma head_beq_eq a b : head_beq a b = true <-> a = b.
Proof.
  destruct a as [m1 t1 p1 q1 hs1], b as [m2 t2 p2 q2 hs2]. unfold head_beq. cbn [h_method h_target h_path h_query h_headers].
  rewrite !andb_true_iff, !beq_eq, option_beq_eq, hlist_beq_eq. split.
  - intros [[[[-> ->] ->] ->] ->]. reflexivity.
  - intros [= -> -> -> -> ->]. auto.
Qed.
Lemma verdict_beq_eq a b : verdict_beq a b = true <-> a = b.
Proof.
  destruct a, b; cbn [verdict_beq]; try (split; congruence).
  - rewrite andb_true_iff, head_beq_eq, beq_eq. split; [intros [-> ->]; reflexivity|intros [= -> ->]; auto].
  - rewrite andb_true_iff, http_error_beq_eq, beq_eq. split; [intros [-> ->]; reflexivity|intros [= -> ->]; auto].
Qed.

Lemma list_beq_refl {A} (eq : A -> A -> bool) : (forall x, eq x x = true) -> forall l, list_beq eq l l = true.
Proof. intros H l. induction l as [|x l IH]; cbn [list_beq]; [reflexivity|]. now rewrite H, IH. Qed.
Lemma head_obs_beq_refl h : head_obs_beq h h = true.
Proof.
  unfold head_obs_beq. rewrite !beq_refl. cbn [andb].
  replace (option_beq beq (h_query h) (h_query h)) with true by (symmetry; now apply option_beq_eq).
  apply hlist_beq_eq. reflexivity.
Qed.
Lemma verdict_obs_beq_refl c v : verdict_obs_beq c v v = true.
Proof.
  destruct v as [h r|e r|]; cbn [verdict_obs_beq]; [| |reflexivity].
  - rewrite head_obs_beq_refl, beq_refl, orb_true_r. reflexivity.
  - rewrite beq_refl, andb_true_r. now apply http_error_beq_eq.
Qed.
