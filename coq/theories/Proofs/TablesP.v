(* Proofs/TablesP.v -- generic (table-independent) lemmas for C20 and the finite checks of the
   generated tables. *)
From SV Require Import Base.Bytes Base.BytesP Model.Tables Spec.ErrorClasses Generated.StatusTables.

Definition payload_free (e : err_entry) : bool :=
  match e_resp e with
  | RDrop => true
  | RText _ (BLiteral _) => true
  | RText _ BDescription => match e_desc e with DLiteral _ => true | DFormat _ => false end
  end.

Lemma payload_free_sound e :
  payload_free e = true -> forall kd tx kd' tx', respond e kd tx = respond e kd' tx'.
Proof.
  unfold payload_free, respond, describe. intros H kd tx kd' tx'.
  destruct (e_resp e) as [|code [|s]]; try reflexivity.
  destruct (e_desc e); [reflexivity|discriminate].
Qed.

Definition entry_ok (e : err_entry) : bool :=
  match lookup_class spec_classes (e_name e) with
  | None => false
  | Some DropConn => match e_resp e with RDrop => true | _ => false end
  | Some ServerErr =>
      payload_free e && match respond e [] [] with Some (c, _) => c =? 500 | None => false end
  | Some (ClientErr code) =>
      payload_free e &&
      match respond e [] [] with
      | Some (c, body) => (c =? code) && (beq body (str_HttpError ++ e_name e) || (code =? 413))
      | None => false
      end
  end.

Definition mem (n : bytes) (l : list bytes) : bool := existsb (beq n) l.
Definition tables_complete : bool :=
  forallb (fun n => mem n (map e_name err_table)) (map fst spec_classes) &&
  forallb (fun n => mem n (map fst spec_classes)) (map e_name err_table) &&
  Nat.eqb (length err_table) (length spec_classes).

Definition ctor_ok (p : bytes * N) : bool := option_beq N.eqb (suffix_code (fst p)) (Some (snd p)).

(* ---- the finite checks of the tables generated from the current source ---- *)
Lemma ctor_table_ok : forallb ctor_ok ctor_table = true.
Proof. vm_compute. reflexivity. Qed.
Lemma err_table_ok : forallb entry_ok err_table = true.
Proof. vm_compute. reflexivity. Qed.
Lemma tables_complete_ok : tables_complete = true.
Proof. vm_compute. reflexivity. Qed.
Lemma close_range_ok : (close_lo <=? 500) && (599 <=? close_hi) = true.
Proof. vm_compute. reflexivity. Qed.
Lemma translation_clean : translation_problems = O.
Proof. reflexivity. Qed.

(* ---- consequences, stated for all payloads ---- *)
Lemma ctor_code_matches_name n c : In (n, c) ctor_table -> suffix_code n = Some c.
Proof.
  intros Hin. pose proof ctor_table_ok as H. rewrite forallb_forall in H. specialize (H _ Hin).
  unfold ctor_ok in H. cbn [fst snd] in H. destruct (suffix_code n) as [c'|]; cbn in H; [|discriminate].
  apply N.eqb_eq in H. now subst.
Qed.

Lemma entry_ok_in e : In e err_table -> entry_ok e = true.
Proof. intros Hin. pose proof err_table_ok as H. rewrite forallb_forall in H. now apply H. Qed.

Lemma client_errors_specific e code :
  In e err_table -> lookup_class spec_classes (e_name e) = Some (ClientErr code) ->
  forall kd tx, exists body,
    respond e kd tx = Some (code, body) /\
    (body = str_HttpError ++ e_name e \/ code = 413) /\
    respond e kd tx = respond e [] [].
Proof.
  intros Hin Hc kd tx. pose proof (entry_ok_in e Hin) as H. unfold entry_ok in H. rewrite Hc in H.
  apply andb_true_iff in H. destruct H as [Hpf H].
  rewrite (payload_free_sound e Hpf kd tx [] []).
  destruct (respond e [] []) as [[c body]|]; [|discriminate].
  apply andb_true_iff in H. destruct H as [Hcode Hbody]. apply N.eqb_eq in Hcode. subst c.
  exists body. split; [reflexivity|]. split; [|reflexivity].
  apply orb_true_iff in Hbody. destruct Hbody as [Hb|Hb].
  - left. now apply beq_eq.
  - right. now apply N.eqb_eq.
Qed.

Lemma server_errors_opaque e :
  In e err_table -> lookup_class spec_classes (e_name e) = Some ServerErr ->
  forall kd tx, exists body,
    respond e kd tx = Some (500, body) /\ respond e kd tx = respond e [] [].
Proof.
  intros Hin Hc kd tx. pose proof (entry_ok_in e Hin) as H. unfold entry_ok in H. rewrite Hc in H.
  apply andb_true_iff in H. destruct H as [Hpf H].
  rewrite (payload_free_sound e Hpf kd tx [] []).
  destruct (respond e [] []) as [[c body]|]; [|discriminate].
  apply N.eqb_eq in H. subst c. exists body. split; reflexivity.
Qed.

Lemma disconnected_drops e :
  In e err_table -> lookup_class spec_classes (e_name e) = Some DropConn ->
  forall kd tx, respond e kd tx = None.
Proof.
  intros Hin Hc kd tx. pose proof (entry_ok_in e Hin) as H. unfold entry_ok in H. rewrite Hc in H.
  unfold respond. destruct (e_resp e); [reflexivity|discriminate].
Qed.

Lemma mem_in n l : mem n l = true <-> In n l.
Proof.
  unfold mem. rewrite existsb_exists. split.
  - intros [x [Hin Hb]]. apply beq_eq in Hb. now subst.
  - intros Hin. exists n. split; [assumption|apply beq_refl].
Qed.

Lemma every_variant_classified e : In e err_table -> exists cls, lookup_class spec_classes (e_name e) = Some cls.
Proof.
  intros Hin. pose proof (entry_ok_in e Hin) as H. unfold entry_ok in H.
  destruct (lookup_class spec_classes (e_name e)) as [cls|]; [now exists cls|discriminate].
Qed.

Lemma every_class_has_variant n cls : In (n, cls) spec_classes -> exists e, In e err_table /\ e_name e = n.
Proof.
  intros Hin. pose proof tables_complete_ok as H. unfold tables_complete in H.
  apply andb_true_iff in H. destruct H as [H _]. apply andb_true_iff in H. destruct H as [H _].
  rewrite forallb_forall in H. assert (In n (map fst spec_classes)) as Hn by (apply in_map_iff; now exists (n, cls)).
  specialize (H n Hn). apply mem_in in H. apply in_map_iff in H. destruct H as [e [He Hine]]. now exists e.
Qed.

Lemma fivexx_close code : 500 <= code <= 599 -> in_close_range close_lo close_hi code = true.
Proof.
  intros [H1 H2]. pose proof close_range_ok as H. apply andb_true_iff in H. destruct H as [Ha Hb].
  apply N.leb_le in Ha. apply N.leb_le in Hb. unfold in_close_range. apply andb_true_iff.
  split; apply N.leb_le; lia.
Qed.

(* the oracle evaluated on implementation observations holds of the translated tables *)
Lemma oracle_err_sound e cls kd tx :
  In e err_table -> lookup_class spec_classes (e_name e) = Some cls ->
  (forall c body, respond e [] [] = Some (c, body) -> payload_hidden kd tx body = true) ->
  oracle_err cls (e_name e) kd tx (respond e kd tx) = true.
Proof.
  intros Hin Hc Hh. destruct cls as [ code | | ].
  - destruct (client_errors_specific e code Hin Hc kd tx) as [body [Hr [Hb Hs]]].
    rewrite Hr. cbn [oracle_err]. rewrite N.eqb_refl. rewrite Hs in Hr. rewrite (Hh _ _ Hr). cbn [andb].
    destruct Hb as [-> | ->]; [now rewrite beq_refl|now rewrite orb_true_r].
  - destruct (server_errors_opaque e Hin Hc kd tx) as [body [Hr Hs]].
    rewrite Hr. cbn [oracle_err]. rewrite Hs in Hr. now rewrite (Hh _ _ Hr).
  - now rewrite (disconnected_drops e Hin Hc kd tx).
Qed.

Lemma oracle_ctor_sound n c : In (n, c) ctor_table -> oracle_ctor n c true = true.
Proof.
  intros Hin. unfold oracle_ctor. rewrite (ctor_code_matches_name n c Hin). cbn. now rewrite N.eqb_refl.
Qed.
