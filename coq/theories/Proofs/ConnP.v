(* Proofs/ConnP.v -- the connection machine of Model/Conn.v obeys the protocol-state contract of
   Spec/ConnSpec.v, for EVERY request reader and EVERY response writer (Section variables). *)
From Coq Require Import ZArith.
From SV Require Import Base.Bytes Base.IO Model.Conn Spec.ConnSpec.
Ltac Zify.zify_post_hook ::= Z.div_mod_to_equations.

Section P.
Variables payload resp : Type.
Variable read_req : cin -> (herr + (payload * reqmeta)) * cin.
Variable resp_code : resp -> N.
Variable write_out : resp -> bool -> option herr * bytes.
Variable resp_continue : resp.
Variable fix16 : bool.
(* Response::new(100) has status 100 *)
Hypothesis continue_code : resp_code resp_continue = 100.

Notation step := (cstep payload resp read_req resp_code write_out resp_continue fix16).
Notation run := (crun payload resp read_req resp_code write_out resp_continue fix16).
Notation gerr := (guard_error resp).
Notation wdelta := (wire_delta resp resp_code write_out resp_continue).
Notation wresp := (write_response resp resp_code write_out).
Notation wcont := (write_http_continue resp resp_code write_out resp_continue).

(* the result an operation reports for misuse error e *)
Definition misuse_result (o : cop resp) (e : herr) : conn_res payload :=
  match o with
  | OReadBodyVec | OReadBodyFile _ _ => CR_Body (BR_Err e)
  | _ => CR_Err e
  end.

Lemma continue_flags : is_5xx_close (resp_code resp_continue) = false /\ is_1xx (resp_code resp_continue) = true.
Proof. rewrite continue_code. split; reflexivity. Qed.

(* ---- misuse: the documented error, and NOTHING changes (states, input, wire, shutdown flag) ---- *)
Lemma wcont_guard c e : send_guard c = Some e -> wcont c = (Some e, c).
Proof.
  unfold send_guard, wside_of, write_http_continue. destruct (c_ws c); intros H; inversion H; reflexivity.
Qed.

Lemma misuse_unchanged c o e : gerr c o = Some e -> step c o = (misuse_result o e, c).
Proof.
  destruct c as [rs ws i w sh].
  destruct o as [| |d m| |r|]; cbn [guard_error cstep misuse_result]; unfold rside_of, wside_of, send_guard,
    body_coded, body_expect, body_len; cbn [c_rs c_ws].
  - (* read_request *)
    unfold read_request; cbn [c_rs c_ws].
    destruct ws; [destruct rs as [|l ex ch gz|]|..]; intros H; inversion H; reflexivity.
  - (* read_body_to_vec *)
    unfold read_body_to_vec; cbn [c_rs c_ws].
    destruct rs as [|l ex ch gz|]; [intros H; inversion H; reflexivity| |intros H; inversion H; reflexivity].
    destruct (ch || gz); [intros H; inversion H; reflexivity|].
    destruct ex; [|discriminate]. intros H.
    unfold maybe_continue. rewrite (wcont_guard _ e); [reflexivity|]. unfold send_guard, wside_of. cbn [c_ws]. exact H.
  - (* read_body_to_file *)
    unfold read_body_to_file; cbn [c_rs c_ws].
    destruct rs as [|l ex ch gz|]; [intros H; inversion H; reflexivity| |intros H; inversion H; reflexivity].
    destruct (ch || gz); [intros H; inversion H; reflexivity|].
    destruct l as [n|].
    + destruct (m <? n); [intros H; inversion H; reflexivity|].
      destruct ex; [|discriminate]. intros H.
      unfold maybe_continue. rewrite (wcont_guard _ e); [reflexivity|]. unfold send_guard, wside_of. cbn [c_ws]. exact H.
    + destruct ex; [|discriminate]. intros H.
      unfold maybe_continue. rewrite (wcont_guard _ e); [reflexivity|]. unfold send_guard, wside_of. cbn [c_ws]. exact H.
  - (* continue *)
    intros H. rewrite (wcont_guard _ e); [reflexivity|]. unfold send_guard, wside_of. cbn [c_ws]. exact H.
  - (* write *)
    unfold write_response; cbn [c_ws]. destruct ws; intros H; inversion H; reflexivity.
  - discriminate.
Qed.

(* ---- the wire grows exactly by the prescribed bytes ---- *)
Lemma wresp_wire c r : c_ws c = WS_Response ->
  c_wire (snd (wresp c r)) = c_wire c ++ snd (write_out r (is_5xx_close (resp_code r))).
Proof.
  intros Hw. unfold write_response. rewrite Hw.
  destruct (write_out r (is_5xx_close (resp_code r))) as [res acc]. cbn [snd].
  destruct res as [e|].
  - destruct acc; reflexivity.
  - destruct (is_1xx (resp_code r)), (is_5xx_close (resp_code r)); reflexivity.
Qed.

Lemma wcont_wire c : c_ws c = WS_Response ->
  c_wire (snd (wcont c)) = c_wire c ++ snd (write_out resp_continue (is_5xx_close (resp_code resp_continue))).
Proof. intros Hw. unfold write_http_continue. rewrite Hw. now apply wresp_wire. Qed.

Lemma set_rs_wire c rs i : c_wire (set_rs c rs i) = c_wire c.
Proof. reflexivity. Qed.

Lemma wire_effect c o : c_wire (snd (step c o)) = c_wire c ++ wdelta c o.
Proof.
  unfold wire_delta. destruct (gerr c o) as [e|] eqn:G.
  - rewrite (misuse_unchanged c o e G). cbn [snd]. now rewrite app_nil_r.
  - destruct c as [rs ws i w sh].
    destruct o as [| |d m| |r|]; cbn [guard_error] in G; unfold rside_of, wside_of, send_guard, body_coded,
      body_expect, body_len in *; cbn [c_rs c_ws] in *; cbn [cstep].
    + (* read_request *)
      unfold read_request; cbn [c_rs c_ws c_in c_wire].
      destruct ws; try discriminate. destruct rs; try discriminate.
      destruct (read_req i) as [[e'|[p mt]] i']; cbn [snd c_wire]; now rewrite app_nil_r.
    + (* vec *)
      unfold read_body_to_vec; cbn [c_rs].
      destruct rs as [|l ex ch gz|]; try discriminate.
      destruct (ch || gz); try discriminate. unfold maybe_continue, emit.
      destruct ex.
      * destruct ws; try discriminate.
        pose proof (wcont_wire (mk_conn (RS_Body l true ch gz) WS_Response i w sh) eq_refl) as Hc.
        destruct (wcont (mk_conn (RS_Body l true ch gz) WS_Response i w sh)) as [[e'|] c1]; cbn [snd] in Hc |- *; [exact Hc|].
        destruct l as [n|].
        -- destruct (read_exact n (c_in c1)) as [rr i']. cbn [snd]. rewrite set_rs_wire. exact Hc.
        -- destruct (read_to_end (c_in c1)) as [rr i']. cbn [snd]. rewrite set_rs_wire. exact Hc.
      * destruct l as [n|].
        -- cbn [c_in]. destruct (read_exact n i) as [rr i']. cbn [snd]. rewrite set_rs_wire. cbn [c_wire]. now rewrite app_nil_r.
        -- cbn [c_in]. destruct (read_to_end i) as [rr i']. cbn [snd]. rewrite set_rs_wire. cbn [c_wire]. now rewrite app_nil_r.
    + (* file *)
      unfold read_body_to_file; cbn [c_rs].
      destruct rs as [|l ex ch gz|]; try discriminate.
      destruct (ch || gz); try discriminate. unfold maybe_continue, emit.
      destruct l as [n|].
      * destruct (m <? n); try discriminate.
        destruct ex.
        -- destruct ws; try discriminate.
           pose proof (wcont_wire (mk_conn (RS_Body (Some n) true ch gz) WS_Response i w sh) eq_refl) as Hc.
           destruct (wcont (mk_conn (RS_Body (Some n) true ch gz) WS_Response i w sh)) as [[e'|] c1]; cbn [snd] in Hc |- *; [exact Hc|].
           destruct (negb d); [cbn [snd]; rewrite set_rs_wire; exact Hc|].
           destruct (read_exact n (c_in c1)) as [rr i']. cbn [snd]. rewrite set_rs_wire. exact Hc.
        -- destruct (negb d); [cbn [snd c_wire]; rewrite set_rs_wire; cbn [c_wire]; now rewrite app_nil_r|].
           cbn [c_in]. destruct (read_exact n i) as [rr i']. cbn [snd]. rewrite set_rs_wire. cbn [c_wire]. now rewrite app_nil_r.
      * destruct ex.
        -- destruct ws; try discriminate.
           pose proof (wcont_wire (mk_conn (RS_Body None true ch gz) WS_Response i w sh) eq_refl) as Hc.
           destruct (wcont (mk_conn (RS_Body None true ch gz) WS_Response i w sh)) as [[e'|] c1]; cbn [snd] in Hc |- *; [exact Hc|].
           destruct (negb d); [cbn [snd]; rewrite set_rs_wire; exact Hc|].
           destruct (copy_unknown (sat_succ m) m (c_in c1)) as [rr i']. cbn [snd]. rewrite set_rs_wire. exact Hc.
        -- destruct (negb d); [cbn [snd c_wire]; rewrite set_rs_wire; cbn [c_wire]; now rewrite app_nil_r|].
           cbn [c_in]. destruct (copy_unknown (sat_succ m) m i) as [rr i']. cbn [snd]. rewrite set_rs_wire. cbn [c_wire]. now rewrite app_nil_r.
    + (* continue *)
      destruct ws; try discriminate. unfold emit.
      pose proof (wcont_wire (mk_conn rs WS_Response i w sh) eq_refl) as Hc.
      destruct (wcont (mk_conn rs WS_Response i w sh)) as [[e'|] c1]; cbn [snd] in Hc |- *; exact Hc.
    + (* write *)
      destruct ws; try discriminate. unfold emit.
      pose proof (wresp_wire (mk_conn rs WS_Response i w sh) r eq_refl) as Hc.
      destruct (wresp (mk_conn rs WS_Response i w sh) r) as [[e'|] c1]; cbn [snd] in Hc |- *; exact Hc.
    + cbn [snd shutdown_write c_wire]. now rewrite app_nil_r.
Qed.

(* ---- write-state transitions ---- *)
Lemma wresp_ws c r : c_ws c = WS_Response ->
  let '(res, c') := wresp c r in
  let '(wres, acc) := write_out r (is_5xx_close (resp_code r)) in
  res = wres /\
  c_ws c' = match wres with
            | None => if is_5xx_close (resp_code r) then WS_Shutdown
                      else if is_1xx (resp_code r) then WS_Response else WS_None
            | Some _ => match acc with [] => WS_Response | _ => WS_Shutdown end
            end /\
  c_rs c' = c_rs c /\ c_in c' = c_in c /\
  (c_wshut c' = true <-> c_wshut c = true \/ c_ws c' = WS_Shutdown).
Proof.
  intros Hw. unfold write_response. rewrite Hw.
  destruct (write_out r (is_5xx_close (resp_code r))) as [wres acc].
  destruct wres as [e|].
  - destruct acc; cbn; rewrite ?Hw; repeat split; try tauto; intros [H|H]; try assumption; try reflexivity; discriminate.
  - destruct (is_1xx (resp_code r)), (is_5xx_close (resp_code r)); cbn; rewrite ?Hw; repeat split; try tauto;
      intros [H|H]; try assumption; try reflexivity; discriminate.
Qed.

Lemma ws_shutdown_sticky c o : c_ws c = WS_Shutdown -> c_ws (snd (step c o)) = WS_Shutdown.
Proof.
  intros Hs. destruct c as [rs ws i w sh]. cbn [c_ws] in Hs. subst ws.
  destruct o as [| |d m| |r|]; cbn [cstep].
  - reflexivity.
  - unfold read_body_to_vec; cbn [c_rs]. destruct rs as [|l ex ch gz|]; try reflexivity.
    destruct (ch || gz); [reflexivity|]. unfold maybe_continue, write_http_continue. cbn [c_ws].
    destruct ex; [reflexivity|]. destruct l as [n|]; cbn [c_in].
    + destruct (read_exact n i). reflexivity.
    + destruct (read_to_end i). reflexivity.
  - unfold read_body_to_file; cbn [c_rs]. destruct rs as [|l ex ch gz|]; try reflexivity.
    destruct (ch || gz); [reflexivity|]. unfold maybe_continue, write_http_continue. cbn [c_ws].
    destruct l as [n|].
    + destruct (m <? n); [reflexivity|]. destruct ex; [reflexivity|]. destruct (negb d); [reflexivity|].
      cbn [c_in]. destruct (read_exact n i). reflexivity.
    + destruct ex; [reflexivity|]. destruct (negb d); [reflexivity|].
      cbn [c_in]. destruct (copy_unknown (sat_succ m) m i). reflexivity.
  - reflexivity.
  - reflexivity.
  - reflexivity.
Qed.

Lemma shutdown_no_delta c o : c_ws c = WS_Shutdown -> wdelta c o = [].
Proof.
  intros Hs. unfold wire_delta. destruct (gerr c o) as [e|] eqn:G; [reflexivity|].
  destruct o as [| |d m| |r|]; cbn [guard_error] in G; unfold send_guard, wside_of in G; rewrite ?Hs in G; try discriminate; try reflexivity.
  - destruct (rside_of c); try discriminate. destruct (body_coded c); try discriminate.
    destruct (body_expect c); [discriminate|reflexivity].
  - destruct (rside_of c); try discriminate. destruct (body_coded c); try discriminate.
    destruct (body_len c) as [n|]; [destruct (m <? n); try discriminate|]; (destruct (body_expect c); [discriminate|reflexivity]).
Qed.

(* nothing is ever sent after shutdown, whatever is called afterwards *)
Lemma nothing_after_shutdown ops : forall c, c_ws c = WS_Shutdown ->
  c_wire (snd (run c ops)) = c_wire c /\ c_ws (snd (run c ops)) = WS_Shutdown.
Proof.
  induction ops as [|o t IH]; intros c Hs; cbn [crun]; [split; [reflexivity|assumption]|].
  pose proof (ws_shutdown_sticky c o Hs) as H1. pose proof (wire_effect c o) as H2.
  rewrite (shutdown_no_delta c o Hs), app_nil_r in H2.
  destruct (step c o) as [r c']. cbn [snd] in H1, H2.
  specialize (IH c' H1). destruct (run c' t) as [rs c'']. cbn [snd] in IH |- *. rewrite <- H2. exact IH.
Qed.

(* an interim (1xx) response does not discharge the owed response *)
Lemma interim_keeps_owed c r : c_ws c = WS_Response -> is_1xx (resp_code r) = true ->
  fst (write_out r (is_5xx_close (resp_code r))) = None ->
  fst (step c (OWrite r)) = CR_Ok /\ c_ws (snd (step c (OWrite r))) = WS_Response /\ c_rs (snd (step c (OWrite r))) = c_rs c.
Proof.
  intros Hw H1 Hok. cbn [cstep]. pose proof (wresp_ws c r Hw) as H.
  destruct (wresp c r) as [res c']. destruct (write_out r (is_5xx_close (resp_code r))) as [wres acc].
  cbn [fst] in Hok. subst wres. destruct H as [-> [Hws [Hrs _]]]. cbn [fst snd].
  assert (is_5xx_close (resp_code r) = false) as H5.
  { unfold is_1xx in H1. unfold is_5xx_close, in_range. apply N.eqb_eq in H1.
    destruct (500 <=? resp_code r) eqn:E; [|reflexivity]. apply N.leb_le in E.
    lia. }
  rewrite H5, H1 in Hws. repeat split; assumption.
Qed.

(* a final response is sent at most once: after it, sending is refused and the wire stays *)
Lemma final_discharges c r : c_ws c = WS_Response -> is_1xx (resp_code r) = false ->
  fst (step c (OWrite r)) = CR_Ok -> c_ws (snd (step c (OWrite r))) <> WS_Response.
Proof.
  intros Hw H1 Hok. cbn [cstep] in *. pose proof (wresp_ws c r Hw) as H.
  destruct (wresp c r) as [res c']. destruct (write_out r (is_5xx_close (resp_code r))) as [wres acc].
  destruct H as [-> [Hws _]]. cbn [fst snd] in *. destruct wres; [discriminate|].
  rewrite Hws, H1. destruct (is_5xx_close (resp_code r)); discriminate.
Qed.

(* a 5xx response that was sent closes the write side *)
Lemma fivexx_closes_write c r : c_ws c = WS_Response -> is_5xx_close (resp_code r) = true ->
  fst (step c (OWrite r)) = CR_Ok ->
  c_ws (snd (step c (OWrite r))) = WS_Shutdown /\ c_wshut (snd (step c (OWrite r))) = true.
Proof.
  intros Hw H5 Hok. cbn [cstep] in *. pose proof (wresp_ws c r Hw) as H.
  destruct (wresp c r) as [res c']. destruct (write_out r (is_5xx_close (resp_code r))) as [wres acc].
  destruct H as [-> [Hws [_ [_ Hsh]]]]. cbn [fst snd] in *. destruct wres; [discriminate|].
  rewrite H5 in Hws. split; [assumption|]. apply Hsh. now right.
Qed.

(* a failed write: any accepted byte closes the write side; none leaves the response owed *)
Lemma failed_write_accounting c r e : c_ws c = WS_Response ->
  fst (step c (OWrite r)) = CR_Err e ->
  c_ws (snd (step c (OWrite r))) =
    match snd (write_out r (is_5xx_close (resp_code r))) with [] => WS_Response | _ => WS_Shutdown end.
Proof.
  intros Hw Hr. cbn [cstep] in *. pose proof (wresp_ws c r Hw) as H.
  destruct (wresp c r) as [res c']. destruct (write_out r (is_5xx_close (resp_code r))) as [wres acc].
  destruct H as [-> [Hws _]]. cbn [fst snd] in *. destruct wres; [exact Hws|discriminate].
Qed.

(* is_ready <-> awaiting a head and nothing owed; read_request consults the reader iff ready *)
Lemma is_ready_iff c : is_ready c = true <-> c_rs c = RS_Head /\ c_ws c = WS_None.
Proof.
  unfold is_ready. destruct (c_rs c), (c_ws c); split; try discriminate; try tauto; intros [H1 H2]; discriminate.
Qed.

Lemma read_request_iff_ready c : is_ready c = true <-> gerr c OReadRequest = None.
Proof.
  unfold is_ready, guard_error, wside_of, rside_of. destruct (c_rs c), (c_ws c); split; try discriminate; reflexivity.
Qed.

Lemma read_request_ready c : is_ready c = true ->
  step c OReadRequest =
    let '(r, i') := read_req (c_in c) in
    match r with
    | inl e => (CR_Err e, mk_conn RS_Head WS_Response i' (c_wire c) (c_wshut c))
    | inr (p, m) =>
        (CR_Req p, mk_conn (match rm_body m with
                            | BK_Known n => RS_Body (Some n) (rm_expect m) (rm_chunked m) (rm_gzip m)
                            | BK_Unknown => RS_Body None (rm_expect m) (rm_chunked m) (rm_gzip m)
                            | BK_None => RS_Head end) WS_Response i' (c_wire c) (c_wshut c))
    end.
Proof.
  intros H. apply is_ready_iff in H. destruct H as [Hr Hw]. cbn [cstep]. unfold read_request. rewrite Hr, Hw.
  destruct (read_req (c_in c)) as [[e|[p m]] i']; reflexivity.
Qed.

(* 100-continue goes out automatically before a body announced with Expect is read, and the body
   bytes returned are exactly the next [n] bytes of the input *)
Lemma auto_continue_then_body c n ch gz cb :
  c_rs c = RS_Body (Some n) true ch gz -> ch || gz = false -> c_ws c = WS_Response ->
  write_out resp_continue false = (None, cb) ->
  n <= N.of_nat (length (cin_avail (c_in c))) ->
  let '(r, c') := step c OReadBodyVec in
  r = CR_Body (BR_Vec (firstn (N.to_nat n) (cin_avail (c_in c)))) /\
  c_wire c' = c_wire c ++ cb /\ c_ws c' = WS_Response /\ c_rs c' = RS_Head /\
  cin_avail (c_in c') = skipn (N.to_nat n) (cin_avail (c_in c)).
Proof.
  intros Hr Hcg Hw Hwo Hn. cbn [cstep]. unfold read_body_to_vec. rewrite Hr, Hcg.
  unfold maybe_continue, write_http_continue, write_response. rewrite Hw.
  destruct continue_flags as [F5 F1]. rewrite F5, F1, Hwo. cbn [c_in c_rs c_ws c_wire c_wshut].
  unfold read_exact. apply N.leb_le in Hn. rewrite Hn. cbn [set_rs c_wire c_ws c_rs c_in].
  unfold rs_after. cbn [andb]. repeat split.
  (* consumed exactly n bytes *)
  unfold cin_consume, cin_avail.
  destruct (N.to_nat n <=? length (ci_buf (c_in c)))%nat eqn:E; cbn [ci_buf ci_in in_bytes].
  - apply Nat.leb_le in E. rewrite skipn_app. clear - E. assert (N.to_nat n - length (ci_buf (c_in c)) = 0)%nat as -> by lia. reflexivity.
  - apply Nat.leb_gt in E. rewrite skipn_app. clear - E. rewrite (skipn_all2 (ci_buf (c_in c))) by lia. reflexivity.
Qed.

(* ---- a final response is sent at most once per request read (trace invariant) ---- *)
Definition started (c : conn) (o : cop resp) : nat :=
  match o with OReadRequest => if is_ready c then 1 else 0 | _ => 0 end%nat.
Definition final_sent (o : cop resp) (r : conn_res payload) : nat :=
  match o, r with OWrite x, CR_Ok => if is_1xx (resp_code x) then 0 else 1 | _, _ => 0 end%nat.
Fixpoint counts (c : conn) (ops : list (cop resp)) : nat * nat :=   (* (requests started, finals sent) *)
  match ops with
  | [] => (0, 0)%nat
  | o :: t => let '(r, c') := step c o in let '(a, b) := counts c' t in
              (started c o + a, final_sent o r + b)%nat
  end.
Definition owes (c : conn) : nat := match c_ws c with WS_Response => 1 | _ => 0 end%nat.

Lemma owes_set_rs c rs i : owes (set_rs c rs i) = owes c.
Proof. reflexivity. Qed.

Lemma maybe_continue_owes ex c :
  (owes (snd (maybe_continue resp resp_code write_out resp_continue ex c)) <= owes c)%nat.
Proof.
  unfold maybe_continue. destruct ex; [|cbn [snd]; lia]. unfold write_http_continue.
  destruct (c_ws c) eqn:Hw; try (cbn [snd]; lia).
  pose proof (wresp_ws c resp_continue Hw) as H. destruct continue_flags as [F5 F1].
  destruct (wresp c resp_continue) as [res c1]. destruct (write_out resp_continue (is_5xx_close (resp_code resp_continue))) as [wres acc].
  destruct H as [-> [Hws _]]. rewrite F5, F1 in Hws. cbn [snd]. unfold owes. rewrite Hws, Hw. destruct wres; [destruct acc|]; lia.
Qed.

Lemma vec_owes c : (owes (snd (read_body_to_vec resp resp_code write_out resp_continue fix16 c)) <= owes c)%nat.
Proof.
  unfold read_body_to_vec. destruct (c_rs c) as [|l ex ch gz|]; try (cbn [snd]; lia).
  destruct (ch || gz); [cbn [snd]; lia|].
  pose proof (maybe_continue_owes ex c) as H.
  destruct (maybe_continue resp resp_code write_out resp_continue ex c) as [[e|] c1]; cbn [snd] in H |- *; [exact H|].
  destruct l as [n|]; [destruct (read_exact n (c_in c1))|destruct (read_to_end (c_in c1))]; cbn [snd]; rewrite owes_set_rs; exact H.
Qed.

Lemma file_owes c d m : (owes (snd (read_body_to_file resp resp_code write_out resp_continue fix16 c d m)) <= owes c)%nat.
Proof.
  unfold read_body_to_file. destruct (c_rs c) as [|l ex ch gz|]; try (cbn [snd]; lia).
  destruct (ch || gz); [cbn [snd]; lia|].
  pose proof (maybe_continue_owes ex c) as H.
  destruct l as [n|].
  - destruct (m <? n); [cbn [snd]; lia|].
    destruct (maybe_continue resp resp_code write_out resp_continue ex c) as [[e|] c1]; cbn [snd] in H |- *; [exact H|].
    destruct (negb d); [cbn [snd]; rewrite owes_set_rs; exact H|].
    destruct (read_exact n (c_in c1)); cbn [snd]; rewrite owes_set_rs; exact H.
  - destruct (maybe_continue resp resp_code write_out resp_continue ex c) as [[e|] c1]; cbn [snd] in H |- *; [exact H|].
    destruct (negb d); [cbn [snd]; rewrite owes_set_rs; exact H|].
    destruct (copy_unknown (sat_succ m) m (c_in c1)); cbn [snd]; rewrite owes_set_rs; exact H.
Qed.

Lemma step_owes c o : (final_sent o (fst (step c o)) + owes (snd (step c o)) <= started c o + owes c)%nat.
Proof.
  destruct (gerr c o) as [e|] eqn:G.
  - rewrite (misuse_unchanged c o e G). cbn [fst snd]. destruct o; cbn [final_sent misuse_result]; lia.
  - destruct o as [| |d m| |r|].
    + assert (is_ready c = true) as Hr by (now apply read_request_iff_ready).
      rewrite (read_request_ready c Hr). cbn [started]. rewrite Hr.
      apply is_ready_iff in Hr. destruct Hr as [_ Hw]. unfold owes at 2. rewrite Hw.
      destruct (read_req (c_in c)) as [[e|[p m]] i']; cbn; lia.
    + cbn [started cstep]. pose proof (vec_owes c) as H.
      destruct (read_body_to_vec resp resp_code write_out resp_continue fix16 c) as [r c']. cbn [fst snd final_sent] in *. lia.
    + cbn [started cstep]. pose proof (file_owes c d m) as H.
      destruct (read_body_to_file resp resp_code write_out resp_continue fix16 c d m) as [r c']. cbn [fst snd final_sent] in *. lia.
    + (* continue *)
      cbn [started final_sent cstep]. cbn [guard_error] in G. unfold send_guard, wside_of in G.
      destruct (c_ws c) eqn:Hw; try discriminate. unfold write_http_continue. rewrite Hw.
      pose proof (wresp_ws c resp_continue Hw) as H. destruct continue_flags as [F5 F1].
      destruct (wresp c resp_continue) as [res c1]. destruct (write_out resp_continue (is_5xx_close (resp_code resp_continue))) as [wres acc].
      destruct H as [-> [Hws _]]. rewrite F5, F1 in Hws. cbn [fst snd]. unfold owes. rewrite Hws, Hw.
      destruct wres; [destruct acc|]; cbn; lia.
    + (* write *)
      cbn [started cstep]. cbn [guard_error] in G. unfold send_guard, wside_of in G.
      destruct (c_ws c) eqn:Hw; try discriminate.
      pose proof (wresp_ws c r Hw) as H.
      destruct (wresp c r) as [res c1]. destruct (write_out r (is_5xx_close (resp_code r))) as [wres acc].
      destruct H as [-> [Hws _]]. cbn [fst snd]. unfold owes. rewrite Hws, Hw.
      destruct wres; cbn [final_sent]; [destruct acc; lia|].
      destruct (is_5xx_close (resp_code r)), (is_1xx (resp_code r)); lia.
    + cbn. lia.
Qed.

Lemma counts_bound ops : forall c, (snd (counts c ops) + owes (snd (run c ops)) <= fst (counts c ops) + owes c)%nat.
Proof.
  induction ops as [|o t IH]; intros c; cbn [counts crun]; [cbn; lia|].
  pose proof (step_owes c o) as H. destruct (step c o) as [r c']. cbn [fst snd] in H.
  specialize (IH c'). destruct (counts c' t) as [a b]. destruct (run c' t) as [rs c'']. cbn [fst snd] in *. lia.
Qed.

(* from a fresh connection: (final responses sent) <= (requests whose reading was started) *)
Lemma final_response_once i ops :
  (snd (counts (conn_new i) ops) <= fst (counts (conn_new i) ops))%nat.
Proof. pose proof (counts_bound ops (conn_new i)) as H. cbn [owes conn_new c_ws] in H. lia. Qed.

(* ---- D16: a body read that fails must not leave the connection "awaiting a head" ---- *)
Definition is_body_op (o : cop resp) : bool :=
  match o with OReadBodyVec | OReadBodyFile _ _ => true | _ => false end.

Lemma maybe_continue_rs ex c : c_rs (snd (maybe_continue resp resp_code write_out resp_continue ex c)) = c_rs c.
Proof.
  unfold maybe_continue. destruct ex; [|reflexivity]. unfold write_http_continue.
  destruct (c_ws c) eqn:Hw; try reflexivity.
  pose proof (wresp_ws c resp_continue Hw) as H.
  destruct (wresp c resp_continue) as [res' c1'].
  destruct (write_out resp_continue (is_5xx_close (resp_code resp_continue))) as [wres acc].
  destruct H as [_ [_ [Hr1 _]]]. exact Hr1.
Qed.

Hypothesis fix16_on : fix16 = true.

(* with the repair: whenever a body operation on an unread body reports an error, the read side is
   NOT back at "awaiting a head" (it is closed, or -- guard / 100-continue failure -- still
   "body unread"), so the unread body bytes can never be parsed as a request *)
Lemma failed_body_read_not_head c o e l ex ch gz :
  is_body_op o = true -> c_rs c = RS_Body l ex ch gz ->
  fst (step c o) = CR_Body (BR_Err e) -> c_rs (snd (step c o)) <> RS_Head.
Proof.
  intros Ho Hrs. destruct o as [| |d m| | |]; try discriminate; cbn [cstep].
  - unfold read_body_to_vec. rewrite Hrs. destruct (ch || gz); [cbn [fst snd]; rewrite Hrs; discriminate|].
    pose proof (maybe_continue_rs ex c) as Hmc.
    destruct (maybe_continue resp resp_code write_out resp_continue ex c) as [[e'|] c1]; cbn [snd] in Hmc;
      [cbn [fst snd]; rewrite Hmc, Hrs; discriminate|].
    unfold rs_after. rewrite fix16_on.
    destruct l as [n|].
    + destruct (read_exact n (c_in c1)) as [[b|] i']; cbn [fst snd]; [discriminate|]. intros _. cbn. discriminate.
    + destruct (read_to_end (c_in c1)) as [[b|] i']; cbn [fst snd]; [discriminate|]. intros _. cbn. discriminate.
  - unfold read_body_to_file. rewrite Hrs. destruct (ch || gz); [cbn [fst snd]; rewrite Hrs; discriminate|].
    pose proof (maybe_continue_rs ex c) as Hmc. unfold rs_after. rewrite fix16_on.
    destruct l as [n|].
    + destruct (m <? n); [cbn [fst snd]; rewrite Hrs; discriminate|].
      destruct (maybe_continue resp resp_code write_out resp_continue ex c) as [[e'|] c1]; cbn [snd] in Hmc;
        [cbn [fst snd]; rewrite Hmc, Hrs; discriminate|].
      destruct (negb d); [cbn; discriminate|].
      destruct (read_exact n (c_in c1)) as [[b|] i']; cbn [fst snd]; [discriminate|]. intros _. cbn. discriminate.
    + destruct (maybe_continue resp resp_code write_out resp_continue ex c) as [[e'|] c1]; cbn [snd] in Hmc;
        [cbn [fst snd]; rewrite Hmc, Hrs; discriminate|].
      destruct (negb d); [cbn; discriminate|].
      destruct (copy_unknown (sat_succ m) m (c_in c1)) as [rr i']. intros _. cbn. discriminate.
Qed.

(* ---- the oracle of C05 (Spec/ConnSpec.v) holds of every step of the model ---- *)
Definition err_of (r : conn_res payload) : option herr :=
  match r with CR_Err e => Some e | CR_Body (BR_Err e) => Some e | _ => None end.

Lemma rs_beq_refl a : rs_beq a a = true.
Proof. destruct a as [|[l|] e c g|]; cbn; rewrite ?N.eqb_refl, ?Bool.eqb_reflx; reflexivity. Qed.
Lemma ws_beq_refl a : ws_beq a a = true.
Proof. destruct a; reflexivity. Qed.
Lemma herr_beq_refl a : herr_beq a a = true.
Proof. unfold herr_beq. apply N.eqb_refl. Qed.

Lemma guard_error_ext c o i w sh : gerr (mk_conn (c_rs c) (c_ws c) i w sh) o = gerr c o.
Proof. destruct c. reflexivity. Qed.

Lemma not_owed_no_delta c o : c_ws c <> WS_Response -> wdelta c o = [].
Proof.
  intros Hs. unfold wire_delta. destruct (gerr c o) as [e|] eqn:G; [reflexivity|].
  destruct o as [| |d m| |r|]; cbn [guard_error] in G; unfold send_guard, wside_of in G; try reflexivity.
  - destruct (rside_of c); try discriminate. destruct (body_coded c); try discriminate.
    destruct (body_expect c); [|reflexivity]. destruct (c_ws c); try discriminate. contradiction.
  - destruct (rside_of c); try discriminate. destruct (body_coded c); try discriminate.
    destruct (body_len c) as [n|]; [destruct (m <? n); try discriminate|];
      (destruct (body_expect c); [|reflexivity]; destruct (c_ws c); try discriminate; contradiction).
  - destruct (c_ws c); try discriminate. contradiction.
  - destruct (c_ws c); try discriminate. contradiction.
Qed.

Lemma body_ok_rs c o : is_body_op o = true -> err_of (fst (step c o)) = None ->
  c_rs (snd (step c o)) = RS_Head \/ c_rs (snd (step c o)) = RS_Shutdown.
Proof.
  intros Ho. destruct o as [| |d m| | |]; try discriminate; cbn [cstep].
  - unfold read_body_to_vec. destruct (c_rs c) as [|l ex ch gz|] eqn:Hrs; cbn [fst snd err_of]; try discriminate.
    destruct (ch || gz); [discriminate|].
    destruct (maybe_continue resp resp_code write_out resp_continue ex c) as [[e'|] c1]; [discriminate|].
    unfold rs_after. destruct l as [n|].
    + destruct (read_exact n (c_in c1)) as [[b|] i']; cbn [fst snd err_of]; [|discriminate]. intros _. cbn. now left.
    + destruct (read_to_end (c_in c1)) as [[b|] i']; cbn [fst snd err_of]; [|discriminate]. intros _. cbn. now right.
  - unfold read_body_to_file. destruct (c_rs c) as [|l ex ch gz|] eqn:Hrs; cbn [fst snd err_of]; try discriminate.
    destruct (ch || gz); [discriminate|]. unfold rs_after.
    destruct l as [n|].
    + destruct (m <? n); [discriminate|].
      destruct (maybe_continue resp resp_code write_out resp_continue ex c) as [[e'|] c1]; [discriminate|].
      destruct (negb d); [discriminate|].
      destruct (read_exact n (c_in c1)) as [[b|] i']; cbn [fst snd err_of]; [|discriminate]. intros _. cbn. now left.
    + destruct (maybe_continue resp resp_code write_out resp_continue ex c) as [[e'|] c1]; [discriminate|].
      destruct (negb d); [discriminate|].
      destruct (copy_unknown (sat_succ m) m (c_in c1)) as [rr i']. intros _. cbn. now right.
Qed.

(* the body kind of the request returned by a successful read_request: what the reader said *)
Definition kind_of_step (c : conn) (o : cop resp) : option body_kind :=
  match o with
  | OReadRequest => if is_ready c then
                      match fst (read_req (c_in c)) with inr (_, m) => Some (rm_body m) | inl _ => None end
                    else None
  | _ => None
  end.

Lemma oracle_c05_sound c o :
  oracle_c05_step resp resp_code (c_rs c) (c_ws c) o (err_of (fst (step c o))) (kind_of_step c o)
                  (c_rs (snd (step c o))) (c_ws (snd (step c o))) (wdelta c o) = true.
Proof.
  unfold oracle_c05_step. rewrite guard_error_ext.
  destruct (gerr c o) as [e|] eqn:G.
  - rewrite (misuse_unchanged c o e G). cbn [fst snd].
    assert (err_of (misuse_result o e) = Some e) as -> by (destruct o; reflexivity).
    unfold wire_delta. rewrite G. cbn [option_beq nil_b]. now rewrite herr_beq_refl, rs_beq_refl, ws_beq_refl.
  - apply andb_true_iff. split; [apply andb_true_iff; split|].
    + destruct (c_ws c) eqn:Hw; cbn [ws_beq orb]; try reflexivity;
        rewrite not_owed_no_delta by (rewrite Hw; discriminate); reflexivity.
    + destruct (c_ws c) eqn:Hw; cbn [ws_beq negb orb]; try reflexivity.
      now rewrite (ws_shutdown_sticky c o Hw).
    + destruct o as [| |d m| |r|].
      * assert (is_ready c = true) as Hr by (now apply read_request_iff_ready).
        rewrite (read_request_ready c Hr). unfold kind_of_step. rewrite Hr.
        destruct (read_req (c_in c)) as [[e|[p m]] i']; cbn [fst snd err_of c_ws c_rs ws_beq andb]; [reflexivity|].
        destruct (rm_body m); cbn [rs_matches_kind]; try reflexivity. apply N.eqb_refl.
      * destruct (err_of (fst (step c OReadBodyVec))) as [e|] eqn:Ee.
        -- cbn [guard_error] in G. unfold rside_of in G. destruct (c_rs c) as [|l ex ch gz|] eqn:Hrs; try discriminate.
           destruct (fst (step c OReadBodyVec)) as [| |[e'|b|b]|] eqn:Ef; cbn [err_of] in Ee; try discriminate;
             try (cbn [cstep] in Ef; destruct (read_body_to_vec resp resp_code write_out resp_continue fix16 c); discriminate).
           injection Ee as ->.
           pose proof (failed_body_read_not_head c OReadBodyVec e l ex ch gz eq_refl Hrs Ef) as Hn.
           destruct (c_rs (snd (step c OReadBodyVec))); cbn; try reflexivity. contradiction.
        -- destruct (body_ok_rs c OReadBodyVec eq_refl Ee) as [-> | ->]; reflexivity.
      * destruct (err_of (fst (step c (OReadBodyFile d m)))) as [e|] eqn:Ee.
        -- cbn [guard_error] in G. unfold rside_of in G. destruct (c_rs c) as [|l ex ch gz|] eqn:Hrs; try discriminate.
           destruct (fst (step c (OReadBodyFile d m))) as [| |[e'|b|b]|] eqn:Ef; cbn [err_of] in Ee; try discriminate;
             try (cbn [cstep] in Ef; destruct (read_body_to_file resp resp_code write_out resp_continue fix16 c d m); discriminate).
           injection Ee as ->.
           pose proof (failed_body_read_not_head c (OReadBodyFile d m) e l ex ch gz eq_refl Hrs Ef) as Hn.
           destruct (c_rs (snd (step c (OReadBodyFile d m)))); cbn; try reflexivity. contradiction.
        -- destruct (body_ok_rs c (OReadBodyFile d m) eq_refl Ee) as [-> | ->]; reflexivity.
      * (* continue *)
        cbn [guard_error] in G. unfold send_guard, wside_of in G. destruct (c_ws c) eqn:Hw; try discriminate.
        unfold wire_delta. cbn [guard_error]. unfold send_guard, wside_of. rewrite Hw. unfold emit.
        cbn [cstep]. unfold write_http_continue. rewrite Hw.
        pose proof (wresp_ws c resp_continue Hw) as H. destruct continue_flags as [F5 F1].
        destruct (wresp c resp_continue) as [res c1]. destruct (write_out resp_continue (is_5xx_close (resp_code resp_continue))) as [wres acc].
        destruct H as [-> [Hws [Hrs _]]]. rewrite F5, F1 in Hws. cbn [fst snd].
        rewrite Hrs, rs_beq_refl. cbn [andb]. destruct wres as [e|]; cbn [err_of]; rewrite Hws; [destruct acc|]; reflexivity.
      * (* write *)
        cbn [guard_error] in G. unfold send_guard, wside_of in G. destruct (c_ws c) eqn:Hw; try discriminate.
        unfold wire_delta. cbn [guard_error]. unfold send_guard, wside_of. rewrite Hw. unfold emit.
        cbn [cstep].
        pose proof (wresp_ws c r Hw) as H.
        destruct (wresp c r) as [res c1]. destruct (write_out r (is_5xx_close (resp_code r))) as [wres acc].
        destruct H as [-> [Hws [Hrs _]]]. cbn [fst snd].
        rewrite Hrs, rs_beq_refl. cbn [andb]. destruct wres as [e|]; cbn [err_of]; rewrite Hws; [destruct acc; reflexivity|].
        apply ws_beq_refl.
      * cbn [cstep fst snd shutdown_write c_ws c_rs]. rewrite rs_beq_refl. unfold wire_delta. cbn [guard_error]. reflexivity.
Qed.

End P.


Lemma is_ready_spec c : is_ready c = true <-> c_rs c = RS_Head /\ c_ws c = WS_None.
Proof.
  unfold is_ready. destruct (c_rs c), (c_ws c); split; try discriminate; try tauto; intros [H1 H2]; discriminate.
Qed.

(* the code before the repair of D16: a failed read_body_to_file leaves read_state = Head with the
   whole body still in the input; the next read_request (after a response) would parse body bytes
   as a request head *)
Definition d16_in : cin := mk_cin [71;69;84;32;47;120] (mk_in [] [] false).     (* body "GET /x" *)
Definition d16_conn : conn := mk_conn (RS_Body (Some 6) false false false) WS_Response d16_in [] false.
Lemma failed_body_read_head_refuted :
  let st := cstep unit unit (fun i => (inl Disconnected, i)) (fun _ => 200) (fun _ _ => (None, [])) tt false
                  d16_conn (OReadBodyFile false 100) in
  fst st = CR_Body (BR_Err ErrorSavingFile) /\ c_rs (snd st) = RS_Head /\ c_in (snd st) = d16_in.
Proof. vm_compute. repeat split. Qed.
