(* Proofs/RequestP.v -- the header post-processing of read_http_request (Model/Request.v) equals
   the specification of Spec/Framing.v: request_of_head = spec_request. *)
From SV Require Import Base.Bytes Base.BytesP Model.Headers Proofs.HeadersP Model.RustStr
     Proofs.RustStrP Model.Request Spec.Framing.

(* ------------------------------------------------------------------ header-list algebra *)
Lemma field_values_is name hs : field_values name hs = spec_values hs name.
Proof. reflexivity. Qed.

Lemma matches_disjoint a b h : eq_ic a b = false -> matches a h = true -> matches b h = false.
Proof.
  unfold matches. intros Hab Ha. destruct (eq_ic (fst h) b) eqn:Hb; [|reflexivity].
  rewrite eq_ic_sym in Ha. rewrite (eq_ic_trans _ _ _ Ha Hb) in Hab. discriminate.
Qed.

Lemma spec_values_rest a b hs : eq_ic a b = false -> spec_values (spec_rest hs a) b = spec_values hs b.
Proof.
  intros Hab. unfold spec_values, spec_rest. induction hs as [|h t IH]; [reflexivity|].
  cbn [filter]. destruct (matches a h) eqn:Ea; cbn [negb].
  - rewrite (matches_disjoint a b h Hab Ea). exact IH.
  - cbn [filter]. destruct (matches b h); cbn [map]; now rewrite IH.
Qed.

Lemma filter_filter {A} (f g : A -> bool) l : filter f (filter g l) = filter (fun x => g x && f x) l.
Proof.
  induction l as [|x l IH]; [reflexivity|]. cbn [filter].
  destruct (g x); cbn [filter andb]; [destruct (f x); now rewrite IH|exact IH].
Qed.

Lemma exposed_is hs :
  spec_rest (spec_rest (spec_rest hs n_content_type) n_expect) n_transfer_encoding = spec_exposed hs.
Proof.
  unfold spec_rest, spec_exposed. rewrite !filter_filter. apply filter_ext. intros h.
  unfold matches, consumed_name. rewrite !negb_orb. now rewrite andb_assoc.
Qed.

Lemma values_fv_spec_values hs name :
  values_fv hs = true -> forallb (forallb is_fv_byte) (spec_values hs name) = true.
Proof.
  unfold values_fv, spec_values. rewrite !forallb_forall. intros H v Hv.
  apply in_map_iff in Hv. destruct Hv as [h [<- Hh]]. apply filter_In in Hh. now apply H.
Qed.

(* ------------------------------------------------------------------ transfer-encoding *)
Lemma strip_left_is s : strip_left s = drop_while is_ows s.
Proof. induction s as [|x t IH]; cbn [strip_left drop_while]; [reflexivity|]. now rewrite IH. Qed.

Lemma trim_strip (s : bytes) : forallb is_fv_byte s = true -> trim s = strip s.
Proof.
  intros H. unfold trim, strip. rewrite !drop_ws_is, !strip_left_is.
  assert (drop_while is_rust_ws s = drop_while is_ows s) as E1.
  { apply drop_while_ext. intros x Hx. apply fv_ws_is_ows. rewrite forallb_forall in H. now apply H. }
  rewrite E1. f_equal. apply drop_while_ext. intros x Hx. apply fv_ws_is_ows.
  assert (forallb is_fv_byte (rev (drop_while is_ows s)) = true) as H2
    by (rewrite forallb_rev; now apply forallb_drop_while).
  rewrite forallb_forall in H2. now apply H2.
Qed.

Lemma elements_acc_split s : forall cur,
  elements_acc s cur = match split 44 s with p :: ps => (rev cur ++ p) :: ps | [] => [rev cur] end.
Proof.
  induction s as [|c t IH]; intros cur; cbn [elements_acc split].
  - now rewrite app_nil_r.
  - destruct (c =? 44).
    + rewrite app_nil_r. f_equal. rewrite IH. cbn [rev app].
      destruct (split 44 t) as [|p ps] eqn:E; [now apply split_not_nil in E|reflexivity].
    + rewrite IH. cbn [rev]. destruct (split 44 t) as [|p ps]; [reflexivity|].
      now rewrite <- app_assoc.
Qed.

Lemma elements_is_split s : elements_acc s [] = split 44 s.
Proof.
  rewrite elements_acc_split. destruct (split 44 s) as [|p ps] eqn:E; [now apply split_not_nil in E|reflexivity].
Qed.

Lemma te_items (v : bytes) : forallb is_fv_byte v = true -> split_trim_nonempty 44 v = list_elements v.
Proof.
  intros H. unfold split_trim_nonempty, list_elements. rewrite elements_is_split.
  assert (map trim (split 44 v) = map strip (split 44 v)) as ->.
  { apply map_ext_in. intros p Hp. apply trim_strip.
    pose proof (split_forallb is_fv_byte 44 v H) as Hs. rewrite forallb_forall in Hs. now apply Hs. }
  apply filter_ext. intros e. destruct e; reflexivity.
Qed.

Definition te_result (c : te_class) : option (bool * bool) :=
  match c with
  | TeInvalid => None
  | TeAbsent => Some (false, false)
  | TeChunked => Some (false, true)
  | TeGzip => Some (true, false)
  | TeGzipChunked => Some (true, true)
  end.

Lemma gzip_not_chunked a : beq a s_gzip = true -> beq a s_chunked = false.
Proof. rewrite beq_eq. intros ->. reflexivity. Qed.
Lemma chunked_not_gzip a : beq a s_chunked = true -> beq a s_gzip = false.
Proof. rewrite beq_eq. intros ->. reflexivity. Qed.

Lemma te_flags_classify (v : bytes) : forallb is_fv_byte v = true -> te_flags (Some v) = te_result (classify_te [v]).
Proof.
  intros H. unfold te_flags, classify_te. rewrite (te_items v H).
  destruct (list_elements v) as [|a [|b [|c r]]];
    cbn [nth_error opt_is opt_none list_beq andb te_result]; [reflexivity|..];
    rewrite ?andb_true_r, ?andb_false_r;
    destruct (beq a s_gzip) eqn:Eg, (beq a s_chunked) eqn:Ec;
    try (rewrite (gzip_not_chunked a Eg) in Ec; discriminate);
    cbn [andb te_result]; try reflexivity; try (destruct (beq b s_chunked); reflexivity).
Qed.

Lemma te_step_spec hs :
  values_fv hs = true ->
  te_step true hs =
  match te_result (classify_te (field_values n_transfer_encoding hs)) with
  | Some f => Some (spec_rest hs n_transfer_encoding, f)
  | None => None
  end.
Proof.
  intros Hfv. unfold te_step. rewrite remove_all_spec, field_values_is.
  pose proof (values_fv_spec_values hs n_transfer_encoding Hfv) as Hv.
  destruct (spec_values hs n_transfer_encoding) as [|v [|v2 r]].
  - reflexivity.
  - cbn [length Nat.ltb Nat.leb vec_pop rev app]. cbn [forallb] in Hv. apply andb_true_iff in Hv.
    rewrite (te_flags_classify v (proj1 Hv)). reflexivity.
  - reflexivity.
Qed.

(* ------------------------------------------------------------------ content-length *)
Definition cl_result (c : cl_class) : option (option N) :=
  match c with ClAbsent => Some None | ClValid n => Some (Some n) | ClInvalid => None end.

Lemma cl_parse_classify s :
  match cl_parse true s with Some n => Some (Some n) | None => None end = cl_result (classify_cl [s]).
Proof.
  unfold cl_parse, classify_cl. destruct (forallb is_digit s) eqn:Hd.
  - rewrite (u64_from_str_digits s Hd). unfold u64_of_digits, undec, one_or_more_digits.
    destruct s as [|c t]; [reflexivity|]. rewrite Hd. rewrite (undec_acc_fold _ 0 Hd).
    fold (digits_value (c :: t)). unfold two64. cbn [andb].
    destruct (digits_value (c :: t) <? 18446744073709551616); reflexivity.
  - unfold one_or_more_digits. destruct s as [|c t]; [discriminate|]. rewrite Hd. reflexivity.
Qed.

Lemma cl_step_spec hs :
  cl_step true true hs = cl_result (classify_cl (spec_values hs n_content_length)).
Proof.
  unfold cl_step. rewrite get_all_spec.
  destruct (spec_values hs n_content_length) as [|s [|s2 r]]; [reflexivity| |reflexivity].
  apply cl_parse_classify.
Qed.

(* ------------------------------------------------------------------ cookies *)
Definition ins (m : cookie_map) (p : bytes * bytes) : cookie_map := cookie_insert (fst p) (snd p) m.

Lemma cookies_of_segments_spec segs : forall m,
  cookies_of_segments segs m =
  match all_some (map cookie_pair segs) with
  | Some pairs => Some (fold_left ins pairs m)
  | None => None
  end.
Proof.
  induction segs as [|seg t IH]; intros m; cbn [cookies_of_segments map all_some]; [reflexivity|].
  unfold cookie_pair at 1. destruct (splitn2 61 seg) as [name [value|]]; [|reflexivity].
  rewrite IH. destruct (all_some (map cookie_pair t)); reflexivity.
Qed.

Lemma all_some_app {A} (a b : list (option A)) :
  all_some (a ++ b) =
  match all_some a with
  | Some x => match all_some b with Some y => Some (x ++ y) | None => None end
  | None => None
  end.
Proof.
  induction a as [|[x|] a IH]; cbn [app all_some].
  - destruct (all_some b); reflexivity.
  - rewrite IH. destruct (all_some a); [destruct (all_some b)|]; reflexivity.
  - reflexivity.
Qed.

Lemma cookies_of_values_spec vals : forall m,
  cookies_of_values vals m =
  match all_some (map cookie_pair (flat_map (split_trim_nonempty 59) vals)) with
  | Some pairs => Some (fold_left ins pairs m)
  | None => None
  end.
Proof.
  induction vals as [|v t IH]; intros m; cbn [cookies_of_values flat_map map all_some]; [reflexivity|].
  rewrite map_app, all_some_app, cookies_of_segments_spec.
  destruct (all_some (map cookie_pair (split_trim_nonempty 59 v))) as [p1|]; [|reflexivity].
  rewrite IH. destruct (all_some (map cookie_pair (flat_map (split_trim_nonempty 59) t))); [|reflexivity].
  now rewrite fold_left_app.
Qed.

(* ------------------------------------------------------------------ content type *)
Lemma split_hd_before s :
  match split 59 s with p :: _ => p | [] => [] end = before_semicolon s.
Proof.
  induction s as [|c t IH]; cbn [split before_semicolon]; [reflexivity|].
  destruct (c =? 59); [reflexivity|].
  destruct (split 59 t) as [|p ps]; rewrite <- IH; reflexivity.
Qed.

Lemma ct_lookup_find key tbl :
  ct_lookup key tbl =
  match find (fun kc => beq key (fst kc)) tbl with Some kc => Some (snd kc) | None => None end.
Proof.
  induction tbl as [|[k c] t IH]; cbn [ct_lookup find fst]; [reflexivity|].
  destruct (beq key k); [reflexivity|exact IH].
Qed.

Lemma ct_parse_spec v : ct_parse v = media_type_of v.
Proof.
  unfold ct_parse, media_type_of. rewrite split_hd_before, ct_lookup_find.
  destruct (find _ ct_table); reflexivity.
Qed.

(* ------------------------------------------------------------------ the whole request *)
Lemma names_distinct :
  eq_ic n_content_type n_expect = false /\ eq_ic n_content_type n_transfer_encoding = false /\
  eq_ic n_content_type n_cookie = false /\ eq_ic n_content_type n_content_length = false /\
  eq_ic n_expect n_transfer_encoding = false /\ eq_ic n_expect n_cookie = false /\
  eq_ic n_expect n_content_length = false /\ eq_ic n_transfer_encoding n_cookie = false /\
  eq_ic n_transfer_encoding n_content_length = false.
Proof. repeat split; reflexivity. Qed.

Theorem request_of_head_spec method hs :
  values_fv hs = true -> request_of_head method hs = spec_request method hs.
Proof.
  intros Hfv.
  destruct names_distinct as (D1 & D2 & D3 & D4 & D5 & D6 & D7 & D8 & D9).
  unfold request_of_head, request_of_head_gen, spec_request.
  rewrite remove_only_spec. rewrite remove_only_spec.
  set (hs1 := spec_rest hs n_content_type).
  set (hs2 := spec_rest hs1 n_expect).
  assert (values_fv hs2 = true) as Hfv2.
  { unfold hs2, hs1, spec_rest, values_fv in *. rewrite forallb_forall in *. intros h Hh.
    apply filter_In in Hh. destruct Hh as [Hh _]. apply filter_In in Hh. destruct Hh as [Hh _]. now apply Hfv. }
  rewrite (te_step_spec hs2 Hfv2).
  assert (field_values n_transfer_encoding hs2 = field_values n_transfer_encoding hs) as ->.
  { rewrite !field_values_is. unfold hs2, hs1. rewrite !spec_values_rest by assumption. reflexivity. }
  assert (spec_rest hs2 n_transfer_encoding = spec_exposed hs) as Hex by apply exposed_is.
  rewrite Hex.
  assert (forall name, eq_ic n_content_type name = false -> eq_ic n_expect name = false ->
                       eq_ic n_transfer_encoding name = false ->
                       spec_values (spec_exposed hs) name = spec_values hs name) as Hsv.
  { intros name E1 E2 E3. rewrite <- Hex. unfold hs2, hs1. rewrite !spec_values_rest by assumption. reflexivity. }
  (* the derived fields *)
  assert ((match (match spec_values hs n_content_type with [v] => Some v | _ => None end) with
           | Some s => ct_parse s | None => CtNone end) = spec_ctype hs) as Hct.
  { unfold spec_ctype. rewrite field_values_is.
    destruct (spec_values hs n_content_type) as [|v [|v2 r]]; try reflexivity. apply ct_parse_spec. }
  assert ((match (match spec_values hs1 n_expect with [v] => Some v | _ => None end) with
           | Some s => beq s s_100_continue | None => false end) = spec_expect hs) as Hexp.
  { unfold spec_expect. rewrite field_values_is. unfold hs1. rewrite spec_values_rest by assumption.
    destruct (spec_values hs n_expect) as [|v [|v2 r]]; reflexivity. }
  rewrite Hct, Hexp.
  unfold framing_spec, framing_spec_gen.
  destruct (classify_te (field_values n_transfer_encoding hs)) eqn:Ete; cbn [te_result];
    try reflexivity;
    rewrite get_all_spec, (Hsv n_cookie) by assumption;
    rewrite cookies_of_values_spec;
    unfold spec_cookies, cookie_pairs; rewrite field_values_is;
    (destruct (all_some (map cookie_pair (flat_map (split_trim_nonempty 59) (spec_values hs n_cookie)))) as [pairs|];
     [|reflexivity]);
    rewrite cl_step_spec, (Hsv n_content_length) by assumption;
    rewrite field_values_is;
    (destruct (classify_cl (spec_values hs n_content_length)) as [|n|]; cbn [cl_result]; try reflexivity);
    unfold body_table, method_has_default_body; cbn [andb orb];
    try (destruct (n =? 0); reflexivity);
    rewrite ?orb_false_r, ?orb_true_r, ?andb_true_r;
    try reflexivity;
    try (destruct (beq method s_POST || beq method s_PUT); [reflexivity|]; destruct (spec_expect hs); reflexivity).
Qed.

(* read_http_body_to_file on a known length: exactly the next [len] bytes, or Truncated iff fewer are there *)
Lemma body_to_file_known_exact len avail :
  match body_to_file_known len avail with
  | Some b => N.of_nat (length b) = len /\ exists rest, avail = b ++ rest
  | None => N.of_nat (length avail) < len
  end.
Proof.
  unfold body_to_file_known. destruct (N.of_nat (length avail) <? len) eqn:E.
  - now apply N.ltb_lt in E.
  - apply N.ltb_ge in E. split.
    + rewrite firstn_length, Nat.min_l by lia. now rewrite N2Nat.id.
    + exists (skipn (N.to_nat len) avail). now rewrite firstn_skipn.
Qed.
