(* Proofs/AcceptP.v -- proofs about Model/TokenSet.v and Model/Accept.v (C12, C13). *)
From Coq Require Import List Arith Bool Lia.
Import ListNotations.
From SV Require Import Model.TokenSet Model.Accept.

(* ============================================================================================
   Part 1: the token pool driven through its API
   ============================================================================================ *)

Definition ts_inv (t : tset) : Prop := ts_avail t + ts_live t = ts_size t /\ ts_lost t = 0.

Lemma ts_new_inv n : ts_inv (ts_new n).
Proof. unfold ts_inv, ts_new; cbn. lia. Qed.

Lemma ts_recv_inv t t' :
  ts_inv t -> ts_recv t = Some t' ->
  ts_inv t' /\ ts_size t' = ts_size t /\ ts_live t' = S (ts_live t) /\ ts_live t < ts_size t.
Proof.
  unfold ts_inv, ts_recv. intros [H1 H2]. destruct (ts_avail t) eqn:E; [discriminate|].
  intros [= <-]. cbn. lia.
Qed.

Lemma ts_recv_none t : ts_inv t -> ts_recv t = None -> ts_live t = ts_size t.
Proof.
  unfold ts_inv, ts_recv. intros [H1 H2]. destruct (ts_avail t) eqn:E; [|discriminate]. lia.
Qed.

(* a live Token can always be returned: try_send finds room *)
Lemma ts_drop_room t : ts_inv t -> 0 < ts_live t -> ts_avail t <? ts_size t = true.
Proof. unfold ts_inv. intros [H1 _] H. apply Nat.ltb_lt. lia. Qed.

Lemma ts_drop_inv t :
  ts_inv t -> 0 < ts_live t ->
  ts_inv (ts_drop t) /\ ts_size (ts_drop t) = ts_size t /\ ts_live (ts_drop t) = pred (ts_live t) /\
  ts_avail (ts_drop t) = S (ts_avail t).
Proof.
  intros I H. unfold ts_drop. rewrite (ts_drop_room t I H). destruct I as [H1 H2].
  unfold ts_inv; cbn. lia.
Qed.

Lemma pstep_inv t o :
  ts_inv t -> ts_inv (fst (pstep t o)) /\ ts_size (fst (pstep t o)) = ts_size t.
Proof.
  intros I. destruct o as [| |i]; cbn [pstep].
  - destruct (ts_recv t) eqn:E; cbn [fst]; [|tauto]. destruct (ts_recv_inv _ _ I E) as (?&?&_). tauto.
  - destruct (ts_recv t) eqn:E; cbn [fst]; [|tauto]. destruct (ts_recv_inv _ _ I E) as (?&?&_). tauto.
  - destruct (i <? ts_live t) eqn:E; cbn [fst]; [|tauto].
    apply Nat.ltb_lt in E. destruct (ts_drop_inv t I) as (?&?&_); [lia|tauto].
Qed.

Lemma prun_inv ops : forall t,
  ts_inv t -> ts_inv (fst (prun t ops)) /\ ts_size (fst (prun t ops)) = ts_size t.
Proof.
  induction ops as [|o r IH]; intros t I; cbn [prun]; [cbn; tauto|].
  destruct (pstep t o) as [t1 ob] eqn:E1. destruct (prun t1 r) as [t2 obs] eqn:E2. cbn [fst].
  pose proof (pstep_inv t o I) as [I1 S1]. rewrite E1 in I1, S1; cbn [fst] in I1, S1.
  specialize (IH t1 I1). rewrite E2 in IH; cbn [fst] in IH. destruct IH. split; [assumption|congruence].
Qed.

Lemma pool_conservation_l n ops :
  let t := fst (prun (ts_new n) ops) in ts_avail t + ts_live t = n /\ ts_lost t = 0 /\ ts_live t <= n.
Proof.
  cbn zeta. destruct (prun_inv ops (ts_new n) (ts_new_inv n)) as [[H1 H2] H3]. cbn in H3. lia.
Qed.

Lemma pool_drop_never_lost_l n ops :
  let t := fst (prun (ts_new n) ops) in
  0 < ts_live t -> ts_avail t < ts_size t /\ ts_lost (ts_drop t) = 0 /\ ts_avail (ts_drop t) = S (ts_avail t).
Proof.
  cbn zeta. intros H. destruct (prun_inv ops (ts_new n) (ts_new_inv n)) as [I _].
  pose proof (ts_drop_room _ I H) as R. apply Nat.ltb_lt in R.
  destruct (ts_drop_inv _ I H) as ([_ L]&_&_&A). tauto.
Qed.

(* a take succeeds exactly when fewer than n Tokens are alive *)
Lemma pool_take_iff_room_l n ops :
  let t := fst (prun (ts_new n) ops) in
  (ts_recv t = None <-> ts_live t = n).
Proof.
  cbn zeta. destruct (prun_inv ops (ts_new n) (ts_new_inv n)) as [I S]. cbn in S.
  split.
  - intros H. pose proof (ts_recv_none _ I H). lia.
  - intros H. destruct (ts_recv _) eqn:E; [|reflexivity].
    destruct (ts_recv_inv _ _ I E) as (_&_&_&L). lia.
Qed.

Lemma ts_drop_all_full k : forall t,
  ts_inv t -> k = ts_live t -> ts_avail (ts_drop_all k t) = ts_size t.
Proof.
  induction k as [|k IH]; intros t I E; cbn [ts_drop_all].
  - destruct I. lia.
  - destruct (ts_drop_inv t I) as (I'&S'&L'&_); [lia|]. rewrite IH; [assumption|assumption|lia].
Qed.

Lemma pool_oracle_steps_model n ops : forall t,
  ts_inv t -> ts_size t = n ->
  pool_oracle_steps n (ts_live t) ops (snd (prun t ops)) = Some (ts_live (fst (prun t ops))).
Proof.
  induction ops as [|o r IH]; intros t I S; cbn [prun]; [reflexivity|].
  destruct (pstep t o) as [t1 ob] eqn:E1. destruct (prun t1 r) as [t2 obs] eqn:E2. cbn [fst snd].
  pose proof (pstep_inv t o I) as [I1 S1]. rewrite E1 in I1, S1; cbn [fst] in I1, S1.
  assert (IH' := IH t1 I1 ltac:(congruence)). rewrite E2 in IH'; cbn [fst snd] in IH'.
  assert (Htake : forall o', (o' = PTake \/ o' = PTry) -> pstep t o' = (t1, ob) ->
            pool_oracle_steps n (ts_live t) (o' :: r) (ob :: obs) = Some (ts_live t2)).
  { intros o' Ho' E. assert (E' : match ts_recv t with Some t' => (t', OGot) | None => (t, OTimeout) end = (t1, ob))
      by (destruct Ho' as [-> | ->]; exact E). clear E.
    destruct (ts_recv t) eqn:R; injection E' as <- <-.
    - destruct (ts_recv_inv _ _ I R) as (_&_&L&Lt).
      assert (Hlt : ts_live t <? n = true) by (apply Nat.ltb_lt; lia).
      destruct Ho' as [-> | ->]; cbn [pool_oracle_steps]; rewrite Hlt, <- L; exact IH'.
    - pose proof (ts_recv_none _ I R) as L.
      assert (ts_live t =? n = true) as Hn by (apply Nat.eqb_eq; lia).
      destruct Ho' as [-> | ->]; cbn [pool_oracle_steps]; rewrite Hn; exact IH'. }
  destruct o as [| |i].
  - apply Htake; auto.
  - apply Htake; auto.
  - cbn [pstep] in E1. cbn [pool_oracle_steps]. destruct (i <? ts_live t) eqn:Ei; injection E1 as <- <-.
    + apply Nat.ltb_lt in Ei. destruct (ts_drop_inv t I) as (_&_&L&_); [lia|]. rewrite <- L. exact IH'.
    + exact IH'.
Qed.

Lemma oracle_c12_pool_sound_l n ops : oracle_c12_pool n ops (pool_model n ops) = true.
Proof.
  unfold oracle_c12_pool, pool_model.
  pose proof (pool_oracle_steps_model n ops (ts_new n) (ts_new_inv n) eq_refl) as H.
  destruct (prun_inv ops (ts_new n) (ts_new_inv n)) as [I S]. cbn in S.
  destruct (prun (ts_new n) ops) as [t obs]. cbn [fst snd] in *. cbn [ts_live ts_new] in H. rewrite H.
  rewrite (ts_drop_all_full (ts_live t) t I eq_refl), S.
  destruct I as [I1 _]. rewrite Nat.eqb_refl, andb_true_r. apply Nat.eqb_eq. lia.
Qed.

(* the oracle rejects every observation that over-admits or loses a slot: if it accepts, the
   number of Tokens handed out never exceeded n *)
Lemma pool_oracle_steps_bound n ops : forall live obs l',
  live <= n -> pool_oracle_steps n live ops obs = Some l' -> l' <= n.
Proof.
  induction ops as [|o r IH]; intros live obs l' Hl H.
  - destruct obs; cbn in H; [injection H as <-; assumption|discriminate].
  - destruct obs as [|ob obs]; [destruct o; discriminate|].
    destruct o as [| |i]; cbn [pool_oracle_steps] in H.
    + destruct ob; try discriminate.
      * destruct (live <? n) eqn:E; [|discriminate]. apply Nat.ltb_lt in E. eapply IH; [|exact H]. lia.
      * destruct (live =? n); [|discriminate]. eapply IH; [|exact H]. lia.
    + destruct ob; try discriminate.
      * destruct (live <? n) eqn:E; [|discriminate]. apply Nat.ltb_lt in E. eapply IH; [|exact H]. lia.
      * destruct (live =? n); [|discriminate]. eapply IH; [|exact H]. lia.
    + destruct (i <? live); destruct ob; try discriminate; (eapply IH; [|exact H]); lia.
Qed.

(* ============================================================================================
   Part 2: the accept loop / connection tasks as a transition system
   ============================================================================================ *)

Definition conn_ok (rev : bool) (c : conn) : Prop :=
  c_after c <= 1 /\
  (c_after c = 1 -> rev = true) /\
  (rev = true -> c_phase c = CIdle -> c_after c = 0) /\
  (c_born_revoked c = true -> c_phase c = CHead /\ c_reqs c = 0 /\ c_done c = 0 /\ rev = true).

Definition Inv (n : nat) (s : st) : Prop :=
  avail s + held s + length (conns s) = n /\
  lost s = 0 /\
  (stopped s = true -> loop s = Done) /\
  (loop s = Done -> revoked s = true /\ listening s = false) /\
  (loop s <> Done -> listening s = true) /\
  Forall (conn_ok (revoked s)) (conns s).

Definition reachable (fixed : bool) (n : nat) (s : st) : Prop :=
  exists tr, run fixed n (init n) tr = Some s.

Lemma find_conn_in k cs c : find_conn k cs = Some c -> In c cs /\ c_id c = k.
Proof.
  induction cs as [|x r IH]; cbn; [discriminate|].
  destruct (c_id x =? k) eqn:E.
  - intros [= ->]. apply Nat.eqb_eq in E. auto.
  - intros H. destruct (IH H). auto.
Qed.

Lemma remove_conn_length k cs c : find_conn k cs = Some c -> S (length (remove_conn k cs)) = length cs.
Proof.
  induction cs as [|x r IH]; cbn; [discriminate|].
  destruct (c_id x =? k); [reflexivity|]. intros H. cbn. now rewrite IH.
Qed.

Lemma remove_conn_forall (P : conn -> Prop) k cs : Forall P cs -> Forall P (remove_conn k cs).
Proof.
  induction cs as [|x r IH]; cbn; [auto|]. intros H. inversion H; subst.
  destruct (c_id x =? k); [assumption|]. constructor; auto.
Qed.

Lemma update_conn_length k c' cs : length (update_conn k c' cs) = length cs.
Proof. induction cs as [|x r IH]; cbn; [reflexivity|]. destruct (c_id x =? k); cbn; congruence. Qed.

Lemma update_conn_forall (P : conn -> Prop) k c' cs : Forall P cs -> P c' -> Forall P (update_conn k c' cs).
Proof.
  induction cs as [|x r IH]; cbn; [auto|]. intros H Hc. inversion H; subst.
  destruct (c_id x =? k); constructor; auto.
Qed.

Lemma conn_ok_revoke b c : conn_ok b c -> conn_ok true c.
Proof.
  intros (H1&H2&H3&H4). unfold conn_ok. destruct b.
  - tauto.
  - repeat split; auto.
    + intros _ _. destruct (Nat.eq_dec (c_after c) 1) as [E|E]; [specialize (H2 E); discriminate|lia].
    + apply H4; assumption.
    + apply H4; assumption.
    + apply H4; assumption.
Qed.

Lemma put_room n av lo : av < n -> put n av lo = (S av, lo).
Proof. intros H. unfold put. apply Nat.ltb_lt in H. now rewrite H. Qed.

Lemma inv_init n : Inv n (init n).
Proof. unfold Inv, init, held; cbn. repeat split; try lia; try discriminate; auto. Qed.

Lemma end_conn_inv n s k c :
  Inv n s -> find_conn k (conns s) = Some c -> Inv n (end_conn n s k).
Proof.
  intros (H1&H2&H3&H4&H5&H6) F. unfold end_conn.
  pose proof (remove_conn_length _ _ _ F) as L.
  rewrite put_room by lia. unfold Inv, held in *; cbn.
  repeat split; try tauto; try lia. now apply remove_conn_forall.
Qed.

Lemma set_conns_inv n s cs :
  Inv n s -> length cs = length (conns s) -> Forall (conn_ok (revoked s)) cs -> Inv n (set_conns s cs).
Proof.
  intros (H1&H2&H3&H4&H5&H6) L F. unfold Inv, set_conns, held in *; cbn. repeat split; try tauto; lia.
Qed.

Ltac fin_inv H3 H5 :=
  cbn; repeat split; auto; try lia; try discriminate;
  try (intros _; apply H5; discriminate);
  try (let E0 := fresh "E0" in intros E0; try (specialize (H3 E0)); try discriminate; try tauto; auto; fail).

Ltac conn_fin C2 C4 :=
  unfold conn_ok; cbn; repeat split; intros; try lia; try discriminate; auto;
  try (match goal with B : c_born_revoked _ = true |- _ => destruct (C4 B) as (?&?&?&?); congruence end);
  try (match goal with E : c_after _ = 1 |- _ => specialize (C2 E); congruence end).

Lemma inv_step fixed n s a s' : Inv n s -> step fixed n s a = Some s' -> Inv n s'.
Proof.
  intros I Hs. destruct a; cbn [step] in Hs.
  - (* Loop *)
    destruct I as (H1&H2&H3&H4&H5&H6). unfold step_loop in Hs. unfold Inv, held in *.
    destruct s as [l av cs r li stp nid lo]; cbn in *.
    destruct l; cbn in *.
    + destruct av as [|av'].
      * destruct (fixed && r) eqn:E; [|discriminate]. apply andb_true_iff in E as [_ ->].
        injection Hs as <-. fin_inv H3 H5.
      * injection Hs as <-. fin_inv H3 H5.
    + destruct r.
      * rewrite put_room in Hs by lia. injection Hs as <-. fin_inv H3 H5.
      * injection Hs as <-. fin_inv H3 H5.
    + destruct r; [|discriminate]. rewrite put_room in Hs by lia. injection Hs as <-. fin_inv H3 H5.
    + rewrite put_room in Hs by lia. injection Hs as <-. fin_inv H3 H5.
    + destruct stp; [discriminate|]. injection Hs as <-. destruct (H4 eq_refl). fin_inv H3 H5.
  - (* IncomingOk *)
    destruct I as (H1&H2&H3&H4&H5&H6). unfold Inv, held in *.
    destruct s as [l av cs r li stp nid lo]; cbn in *.
    destruct l; try discriminate. injection Hs as <-. cbn. rewrite app_length. cbn.
    split; [lia|]. split; [assumption|]. split; [intros E; specialize (H3 E); discriminate|].
    split; [discriminate|]. split; [intros _; apply H5; discriminate|].
    apply Forall_app. split; [assumption|]. constructor; [|constructor].
    unfold conn_ok; cbn. repeat split; auto; try lia; try discriminate.
  - (* IncomingErr *)
    destruct I as (H1&H2&H3&H4&H5&H6). unfold Inv, held in *.
    destruct s as [l av cs r li stp nid lo]; cbn in *.
    destruct l; try discriminate. injection Hs as <-. cbn.
    split; [lia|]. split; [assumption|]. split; [intros E; specialize (H3 E); discriminate|].
    split; [discriminate|]. split; [intros _; apply H5; discriminate|]. assumption.
  - (* ConnEnd *)
    destruct (find_conn k (conns s)) eqn:F; [|discriminate]. injection Hs as <-.
    eapply end_conn_inv; eauto.
  - (* Revoke *)
    destruct I as (H1&H2&H3&H4&H5&H6). injection Hs as <-. unfold Inv, held in *; cbn.
    repeat split; try tauto.
    eapply Forall_impl; [|exact H6]. intros c. apply conn_ok_revoke.
  - (* ConnReq *)
    destruct (find_conn k (conns s)) as [c|] eqn:F; [|discriminate].
    destruct (c_phase c) eqn:P; try discriminate. injection Hs as <-.
    pose proof I as (_&_&_&_&_&H6).
    destruct (find_conn_in _ _ _ F) as [Hin _].
    pose proof (proj1 (Forall_forall _ _) H6 c Hin) as (C1&C2&C3&C4).
    apply set_conns_inv; [assumption|apply update_conn_length|].
    destruct (revoked s) eqn:R.
    + apply update_conn_forall; [assumption|]. specialize (C3 eq_refl P). conn_fin C2 C4.
    + apply update_conn_forall; [assumption|]. conn_fin C2 C4.
  - (* ConnStep *)
    destruct (find_conn k (conns s)) as [c|] eqn:F; [|discriminate].
    pose proof I as (_&_&_&_&_&H6).
    destruct (find_conn_in _ _ _ F) as [Hin _].
    pose proof (proj1 (Forall_forall _ _) H6 c Hin) as (C1&C2&C3&C4).
    destruct (c_phase c) eqn:P; try discriminate.
    + destruct (revoked s) eqn:R; injection Hs as <-.
      * eapply end_conn_inv; eauto.
      * apply set_conns_inv; [assumption|apply update_conn_length|].
        rewrite R. apply update_conn_forall; [assumption|]. conn_fin C2 C4.
    + injection Hs as <-. apply set_conns_inv; [assumption|apply update_conn_length|].
      apply update_conn_forall; [assumption|]. conn_fin C2 C4.
    + injection Hs as <-. apply set_conns_inv; [assumption|apply update_conn_length|].
      apply update_conn_forall; [assumption|]. conn_fin C2 C4.
Qed.

Lemma inv_run fixed n tr : forall s s', Inv n s -> run fixed n s tr = Some s' -> Inv n s'.
Proof.
  induction tr as [|a t IH]; intros s s' I H; cbn in H.
  - injection H as <-. exact I.
  - destruct (step fixed n s a) eqn:E; [|discriminate]. eapply IH; [eapply inv_step; eauto|exact H].
Qed.

Lemma inv_reachable fixed n s : reachable fixed n s -> Inv n s.
Proof. intros [tr H]. eapply inv_run; [apply inv_init|exact H]. Qed.

Lemma run_app fixed n tr1 : forall tr2 s s1,
  run fixed n s tr1 = Some s1 -> run fixed n s (tr1 ++ tr2) = run fixed n s1 tr2.
Proof.
  induction tr1 as [|a t IH]; intros tr2 s s1 H; cbn in *.
  - injection H as <-. reflexivity.
  - destruct (step fixed n s a); [|discriminate]. now apply IH.
Qed.

Lemma reachable_step fixed n s a s' : reachable fixed n s -> step fixed n s a = Some s' -> reachable fixed n s'.
Proof.
  intros [tr H] Hs. exists (tr ++ [a]). rewrite (run_app _ _ _ _ _ _ H). cbn. now rewrite Hs.
Qed.

Lemma reachable_run fixed n s tr s' : reachable fixed n s -> run fixed n s tr = Some s' -> reachable fixed n s'.
Proof.
  intros [tr0 H] Hs. exists (tr0 ++ tr). now rewrite (run_app _ _ _ _ _ _ H).
Qed.

(* ---- C12 ---- *)

Lemma token_conservation_l fixed n tr s :
  run fixed n (init n) tr = Some s -> avail s + held s + length (conns s) = n.
Proof. intros H. apply (inv_reachable fixed n s (ex_intro _ tr H)). Qed.

Lemma never_over_admit_l fixed n tr s :
  run fixed n (init n) tr = Some s -> length (conns s) <= n.
Proof. intros H. pose proof (token_conservation_l _ _ _ _ H). lia. Qed.

(* whenever a Token is dropped -- by the accept task or by an ending connection task -- the
   channel has room (avail < n), so try_send succeeds; consequently no unit is ever lost. *)
Lemma drop_never_lost_l fixed n tr s :
  run fixed n (init n) tr = Some s ->
  lost s = 0 /\ (0 < held s + length (conns s) -> avail s < n /\ put n (avail s) (lost s) = (S (avail s), 0)).
Proof.
  intros H. destruct (inv_reachable fixed n s (ex_intro _ tr H)) as (H1&H2&_).
  split; [assumption|]. intros Hp. split; [lia|]. rewrite put_room by lia. now rewrite H2.
Qed.

(* an accept failure: the token is still held during the sleep, and is back in the pool when the
   iteration ends; the set of connections is untouched *)
Lemma failure_consumes_no_slot_l fixed n s s1 :
  reachable fixed n s -> step fixed n s IncomingErr = Some s1 ->
  loop s = Accepting /\ loop s1 = SleepAfterError /\
  exists s2, step fixed n s1 Loop = Some s2 /\ loop s2 = WaitTokenOrPermit /\
             avail s2 = S (avail s) /\ conns s2 = conns s /\ held s2 = 0 /\
             avail s2 + length (conns s2) = n.
Proof.
  intros R Hs. pose proof (inv_reachable _ _ _ R) as I.
  pose proof (inv_step _ _ _ _ _ I Hs) as I1.
  destruct s as [l av cs r li stp nid lo]. cbn in Hs. destruct l; try discriminate.
  injection Hs as <-. split; [reflexivity|]. split; [reflexivity|].
  destruct I1 as (H1&H2&_). unfold held in H1. cbn in *.
  eexists. unfold step_loop; cbn. rewrite put_room by lia. split; [reflexivity|]. cbn.
  repeat split; lia.
Qed.

(* ending all connections: *)
Fixpoint end_all_trace (cs : list conn) : list action :=
  match cs with [] => [] | c :: r => ConnEnd (c_id c) :: end_all_trace r end.

Lemma find_conn_head c r : find_conn (c_id c) (c :: r) = Some c.
Proof. cbn. now rewrite Nat.eqb_refl. Qed.

Lemma end_all_run fixed n : forall cs s,
  Inv n s -> conns s = cs ->
  exists s', run fixed n s (end_all_trace cs) = Some s' /\ conns s' = [] /\ loop s' = loop s /\
             revoked s' = revoked s /\ stopped s' = stopped s /\ next_id s' = next_id s /\
             avail s' = avail s + length cs.
Proof.
  induction cs as [|c r IH]; intros s I E; cbn [end_all_trace run].
  - exists s. repeat split; auto; cbn; lia.
  - assert (F : find_conn (c_id c) (conns s) = Some c) by (rewrite E; apply find_conn_head).
    cbn [step]. rewrite F.
    pose proof (end_conn_inv n s (c_id c) c I F) as I'.
    destruct (IH (end_conn n s (c_id c)) I') as (s'&R&C&L&Rv&St&Ni&Av).
    { unfold end_conn. destruct (put n (avail s) (lost s)). cbn. rewrite E. cbn. now rewrite Nat.eqb_refl. }
    exists s'. split; [exact R|].
    destruct I as (H1&_). rewrite E in H1. cbn in H1.
    unfold end_conn in *. rewrite put_room in * by lia. cbn in *.
    repeat split; auto; try congruence. lia.
Qed.

(* from a reachable state, however it was reached: once all connections have ended, every slot is
   either back in the pool or in the hands of the accept task for its next accept() *)
Lemma full_capacity_recoverable_l fixed n s :
  reachable fixed n s ->
  exists s', run fixed n s (end_all_trace (conns s)) = Some s' /\ conns s' = [] /\ avail s' + held s' = n.
Proof.
  intros R. pose proof (inv_reachable _ _ _ R) as I.
  destruct (end_all_run fixed n (conns s) s I eq_refl) as (s'&Rn&C&L&_).
  exists s'. split; [exact Rn|]. split; [exact C|].
  pose proof (inv_run _ _ _ _ _ I Rn) as (H1&_). rewrite C in H1. cbn in H1. lia.
Qed.

(* ... and, while the permit is not revoked, the loop can then admit n connections at once *)
Fixpoint admit_trace (k : nat) : list action :=
  match k with O => [] | S k' => [Loop; Loop; IncomingOk] ++ admit_trace k' end.

Definition normalize_trace (p : pc) : list action :=
  match p with
  | WaitTokenOrPermit => []
  | CheckRevoked => [Loop; IncomingOk]
  | Accepting => [IncomingOk]
  | SleepAfterError => [Loop]
  | Done => []
  end.

Lemma admit_run fixed n k : forall s,
  loop s = WaitTokenOrPermit -> revoked s = false -> k <= avail s ->
  exists s', run fixed n s (admit_trace k) = Some s' /\ length (conns s') = length (conns s) + k /\
             loop s' = WaitTokenOrPermit /\ revoked s' = false /\ avail s' = avail s - k.
Proof.
  induction k as [|k IH]; intros s L R A.
  - exists s. cbn. repeat split; auto; lia.
  - destruct s as [l av cs r li stp nid lo]. cbn in L, R, A. subst l r.
    destruct av as [|av]; [lia|].
    cbn [admit_trace app run step step_loop loop avail revoked].
    cbn [loop avail revoked conns listening stopped next_id lost].
    edestruct (IH (mk_st WaitTokenOrPermit av (cs ++ [mk_conn nid CHead 0 0 0 false]) false li stp (S nid) lo))
      as (s'&Rn&Ln&Lp&Rv&Av); try reflexivity; [cbn; lia|].
    exists s'. split; [exact Rn|]. cbn in *. rewrite app_length in Ln. cbn in Ln. repeat split; auto; lia.
Qed.

Lemma can_refill_l fixed n s :
  reachable fixed n s -> revoked s = false ->
  exists tr s', run fixed n s (end_all_trace (conns s) ++ tr) = Some s' /\ length (conns s') = n.
Proof.
  intros R Rv. pose proof (inv_reachable _ _ _ R) as I.
  destruct (end_all_run fixed n (conns s) s I eq_refl) as (s1&R1&C1&L1&Rv1&St1&_&Av1).
  pose proof (inv_run _ _ _ _ _ I R1) as I1.
  assert (Hnorm : exists s2, run fixed n s1 (normalize_trace (loop s1)) = Some s2 /\
            loop s2 = WaitTokenOrPermit /\ revoked s2 = false /\
            avail s2 + length (conns s2) = n).
  { destruct I1 as (H1&H2&H3&H4&H5&H6).
    destruct s1 as [l av cs r li stp nid lo]. cbn in *. subst cs. rewrite Rv in Rv1. subst r.
    unfold held in H1. cbn in H1.
    destruct l; cbn [normalize_trace run step step_loop loop revoked avail conns listening stopped next_id lost].
    - eexists. split; [reflexivity|]. cbn. repeat split; auto; lia.
    - eexists. split; [reflexivity|]. cbn. repeat split; auto; lia.
    - eexists. split; [reflexivity|]. cbn. repeat split; auto; lia.
    - rewrite put_room by lia. eexists. split; [reflexivity|]. cbn. repeat split; auto; lia.
    - destruct (H4 eq_refl) as [E _]. discriminate. }
  destruct Hnorm as (s2&R2&L2&Rv2&A2).
  destruct (admit_run fixed n (avail s2) s2 L2 Rv2 (le_n _)) as (s3&R3&Ln3&_).
  exists (normalize_trace (loop s1) ++ admit_trace (avail s2)), s3.
  rewrite (run_app _ _ _ _ _ _ R1). rewrite (run_app _ _ _ _ _ _ R2). split; [exact R3|]. lia.
Qed.

(* ---- C13 ---- *)

Lemma stopped_after_revoke_l fixed n s :
  reachable fixed n s -> stopped s = true -> revoked s = true /\ listening s = false /\ loop s = Done.
Proof.
  intros R H. destruct (inv_reachable _ _ _ R) as (_&_&H3&H4&_). specialize (H3 H). destruct (H4 H3). auto.
Qed.

(* the step that delivers the stopped signal is a step of the accept task taken when the listener
   is already closed and the permit already revoked *)
Lemma listener_closed_before_stopped_l fixed n s a s' :
  reachable fixed n s -> step fixed n s a = Some s' -> stopped s = false -> stopped s' = true ->
  a = Loop /\ loop s = Done /\ listening s = false /\ revoked s = true.
Proof.
  intros R Hs H0 H1. pose proof (inv_reachable _ _ _ R) as (_&_&_&H4&_).
  destruct s as [l av cs r li stp nid lo]. cbn in *. subst stp.
  destruct a; cbn in Hs.
  - unfold step_loop in Hs; cbn in Hs. destruct l.
    + destruct av; [destruct (fixed && r)|]; try discriminate; injection Hs as <-; discriminate.
    + destruct r; [destruct (put n av lo)|]; injection Hs as <-; discriminate.
    + destruct r; [destruct (put n av lo)|discriminate]; injection Hs as <-; discriminate.
    + destruct (put n av lo); injection Hs as <-; discriminate.
    + destruct (H4 eq_refl). auto.
  - destruct l; try discriminate; injection Hs as <-; discriminate.
  - destruct l; try discriminate; injection Hs as <-; discriminate.
  - destruct (find_conn k cs); [|discriminate]. unfold end_conn in Hs; cbn in Hs.
    destruct (put n av lo); injection Hs as <-; discriminate.
  - injection Hs as <-; discriminate.
  - destruct (find_conn k cs) as [c|]; [|discriminate]. destruct (c_phase c); try discriminate.
    injection Hs as <-; discriminate.
  - destruct (find_conn k cs) as [c|]; [|discriminate]. destruct (c_phase c); try discriminate.
    + destruct r; [unfold end_conn in Hs; cbn in Hs; destruct (put n av lo)|]; injection Hs as <-; discriminate.
    + injection Hs as <-; discriminate.
    + injection Hs as <-; discriminate.
Qed.

Lemma no_accept_after_done_l fixed n s :
  loop s = Done -> step fixed n s IncomingOk = None /\ step fixed n s IncomingErr = None.
Proof. intros H. cbn. rewrite H. auto. Qed.

(* every step keeps the loop in Done, keeps stopped, and admits nobody once the loop is Done *)
Lemma done_is_final fixed n s a s' :
  loop s = Done -> step fixed n s a = Some s' ->
  loop s' = Done /\ next_id s' = next_id s /\ (stopped s = true -> stopped s' = true) /\
  length (conns s') <= length (conns s).
Proof.
  intros L Hs. destruct s as [l av cs r li stp nid lo]. cbn in L. subst l.
  destruct a; cbn in Hs.
  - unfold step_loop in Hs; cbn in Hs. destruct stp; [discriminate|]. injection Hs as <-. cbn. auto.
  - discriminate.
  - discriminate.
  - destruct (find_conn k cs) eqn:F; [|discriminate]. unfold end_conn in Hs; cbn in Hs.
    destruct (put n av lo); injection Hs as <-. cbn. pose proof (remove_conn_length _ _ _ F). repeat split; auto; lia.
  - injection Hs as <-. cbn. auto.
  - destruct (find_conn k cs) as [c|]; [|discriminate]. destruct (c_phase c); try discriminate.
    injection Hs as <-. cbn. rewrite update_conn_length. auto.
  - destruct (find_conn k cs) as [c|] eqn:F; [|discriminate]. destruct (c_phase c); try discriminate.
    + destruct r; [unfold end_conn in Hs; cbn in Hs; destruct (put n av lo)|]; injection Hs as <-; cbn.
      * pose proof (remove_conn_length _ _ _ F). repeat split; auto; lia.
      * rewrite update_conn_length. auto.
    + injection Hs as <-. cbn. rewrite update_conn_length. auto.
    + injection Hs as <-. cbn. rewrite update_conn_length. auto.
Qed.

Lemma no_accept_after_stop_l fixed n tr : forall s s',
  reachable fixed n s -> stopped s = true -> run fixed n s tr = Some s' ->
  next_id s' = next_id s /\ stopped s' = true /\ listening s' = false.
Proof.
  induction tr as [|a t IH]; intros s s' R St H; cbn in H.
  - injection H as <-. destruct (stopped_after_revoke_l _ _ _ R St) as (_&?&_). auto.
  - destruct (step fixed n s a) as [s1|] eqn:E; [|discriminate].
    destruct (stopped_after_revoke_l _ _ _ R St) as (_&_&L).
    destruct (done_is_final _ _ _ _ _ L E) as (_&Ni&S1&_).
    destruct (IH s1 s' (reachable_step _ _ _ _ _ R E) (S1 St) H) as (?&?&?). repeat split; auto; congruence.
Qed.

(* bounded stop (current tree): once revoked, the accept task is never blocked and every one of
   its steps lowers the rank; no other action raises it *)
Lemma rank_le_4 s : rank s <= 4.
Proof. unfold rank. destruct (loop s); try lia. destruct (stopped s); lia. Qed.

Lemma rank_zero_iff s : rank s = 0 <-> (loop s = Done /\ stopped s = true).
Proof.
  unfold rank. destruct (loop s); destruct (stopped s); split; intros H; auto; try lia;
    try (destruct H; discriminate).
Qed.

Lemma loop_enabled_fixed n s :
  revoked s = true -> rank s <> 0 ->
  exists s', step true n s Loop = Some s' /\ rank s' < rank s /\ revoked s' = true.
Proof.
  intros Hr Hk. destruct s as [l av cs r li stp nid lo]; cbn in *; subst r.
  unfold step_loop, rank in *; cbn in *.
  destruct l; cbn.
  - destruct av; eexists; (split; [reflexivity|]); cbn; [destruct stp|]; split; auto; lia.
  - destruct (put n av lo). eexists; (split; [reflexivity|]); cbn; destruct stp; split; auto; lia.
  - destruct (put n av lo). eexists; (split; [reflexivity|]); cbn; split; auto; lia.
  - destruct (put n av lo). eexists; (split; [reflexivity|]); cbn; split; auto; lia.
  - destruct stp; [lia|]. eexists; (split; [reflexivity|]); cbn; split; auto; lia.
Qed.

Lemma others_keep_rank fixed n s a s' :
  a <> Loop -> step fixed n s a = Some s' ->
  rank s' <= rank s /\ (revoked s = true -> revoked s' = true).
Proof.
  intros Ha Hs. destruct s as [l av cs r li stp nid lo]. unfold rank.
  destruct a; try congruence; cbn in Hs.
  - destruct l; try discriminate. injection Hs as <-. cbn. split; auto; lia.
  - destruct l; try discriminate. injection Hs as <-. cbn. split; auto; lia.
  - destruct (find_conn k cs); [|discriminate]. unfold end_conn in Hs; cbn in Hs.
    destruct (put n av lo); injection Hs as <-. cbn. split; auto; lia.
  - injection Hs as <-. cbn. split; auto; lia.
  - destruct (find_conn k cs) as [c|]; [|discriminate]. destruct (c_phase c); try discriminate.
    injection Hs as <-. cbn. split; auto; lia.
  - destruct (find_conn k cs) as [c|]; [|discriminate]. destruct (c_phase c); try discriminate.
    + destruct r; [unfold end_conn in Hs; cbn in Hs; destruct (put n av lo)|]; injection Hs as <-; cbn; split; auto; lia.
    + injection Hs as <-. cbn. split; auto; lia.
    + injection Hs as <-. cbn. split; auto; lia.
Qed.

(* hence: in every run from a revoked state that contains at least [rank s] (<= 4) steps of the
   accept task, the stopped signal has been delivered *)
Lemma stop_within_rank_steps n tr : forall s s',
  revoked s = true -> run true n s tr = Some s' -> rank s <= count_loop tr -> stopped s' = true /\ loop s' = Done.
Proof.
  induction tr as [|a t IH]; intros s s' Hr H Hc; cbn in H.
  - injection H as <-. cbn in Hc. assert (rank s = 0) as Z by lia. apply rank_zero_iff in Z. tauto.
  - destruct (step true n s a) as [s1|] eqn:E; [|discriminate].
    destruct (match a with Loop => true | _ => false end) eqn:Ea.
    + destruct a; try discriminate. cbn in Hc.
      destruct (Nat.eq_dec (rank s) 0) as [Z|Z].
      * apply rank_zero_iff in Z as [L St]. cbn in E. unfold step_loop in E. rewrite L, St in E. discriminate.
      * destruct (loop_enabled_fixed n s Hr Z) as (s1'&E'&Rk&Rv). rewrite E in E'. injection E' as <-.
        apply (IH s1 s' Rv H). lia.
    + assert (a <> Loop) as Na by (intros ->; discriminate).
      destruct (others_keep_rank _ _ _ _ _ Na E) as [Rk Rv].
      apply (IH s1 s' (Rv Hr) H). destruct a; cbn in Hc; try lia; congruence.
Qed.

(* the tree before D10: a reachable, revoked, un-stopped state in which the accept task cannot
   move, and which stays so as long as no client goes away or speaks *)
Definition stuck_state (s : st) : Prop :=
  loop s = WaitTokenOrPermit /\ avail s = 0 /\ revoked s = true /\ stopped s = false /\
  Forall (fun c => c_phase c = CIdle) (conns s).

Lemma find_conn_forall (P : conn -> Prop) k cs c : Forall P cs -> find_conn k cs = Some c -> P c.
Proof. intros F H. destruct (find_conn_in _ _ _ H) as [Hin _]. exact (proj1 (Forall_forall _ _) F c Hin). Qed.

Lemma stuck_step n s a s' :
  stuck_state s -> is_client_action a = false -> step false n s a = Some s' -> stuck_state s'.
Proof.
  intros (L&A&R&St&F) Ha Hs. destruct s as [l av cs r li stp nid lo]. cbn in *. subst.
  destruct a; try discriminate; cbn in Hs; try discriminate.
  - injection Hs as <-. unfold stuck_state; cbn; auto.
  - destruct (find_conn k cs) as [c|] eqn:E; [|discriminate].
    rewrite (find_conn_forall _ _ _ _ F E) in Hs. discriminate.
Qed.

Lemma stuck_forever n tr : forall s s',
  stuck_state s -> forallb (fun a => negb (is_client_action a)) tr = true ->
  run false n s tr = Some s' -> stopped s' = false /\ step false n s' Loop = None.
Proof.
  induction tr as [|a t IH]; intros s s' S Ht H; cbn in H.
  - injection H as <-. destruct S as (L&A&R&St&F). split; [assumption|].
    cbn. unfold step_loop. rewrite L, A. reflexivity.
  - cbn in Ht. apply andb_true_iff in Ht as [Ha Ht]. apply negb_true_iff in Ha.
    destruct (step false n s a) as [s1|] eqn:E; [|discriminate].
    eapply IH; [eapply stuck_step; eauto|assumption|exact H].
Qed.

(* ---- connection tasks ---- *)

Lemma at_most_one_more_request_l fixed n s c :
  reachable fixed n s -> In c (conns s) ->
  c_after c <= 1 /\ (revoked s = true -> c_phase c = CIdle -> c_after c = 0) /\
  (c_born_revoked c = true -> c_reqs c = 0 /\ c_phase c = CHead).
Proof.
  intros R Hin. destruct (inv_reachable _ _ _ R) as (_&_&_&_&_&H6).
  destruct (proj1 (Forall_forall _ _) H6 c Hin) as (C1&C2&C3&C4). repeat split; auto.
  - apply C4; assumption.
  - apply C4; assumption.
Qed.

(* after revocation a connection at its loop head is closed by its own next step, and an idle one
   that has already served its one further request cannot begin another: *)
Lemma closes_at_head_when_revoked fixed n s k c :
  find_conn k (conns s) = Some c -> c_phase c = CHead -> revoked s = true ->
  step fixed n s (ConnStep k) = Some (end_conn n s k).
Proof. intros F P R. cbn. now rewrite F, P, R. Qed.

Lemma find_update_same k c' cs c : find_conn k cs = Some c -> c_id c' = k -> find_conn k (update_conn k c' cs) = Some c'.
Proof.
  intros F E. induction cs as [|x r IH]; cbn in *; [discriminate|].
  destruct (c_id x =? k) eqn:Ex.
  - cbn. rewrite E, Nat.eqb_refl. reflexivity.
  - cbn. rewrite Ex. auto.
Qed.

(* a handler that is running -- whether or not the permit has been revoked meanwhile -- runs to
   its response, and the response is written completely before the permit is looked at again *)
Lemma inflight_completes_l fixed n s k c :
  find_conn k (conns s) = Some c -> c_phase c = CHandler ->
  exists s1 s2 c2,
    step fixed n s (ConnStep k) = Some s1 /\ step fixed n s1 (ConnStep k) = Some s2 /\
    find_conn k (conns s2) = Some c2 /\ c_phase c2 = CHead /\ c_done c2 = S (c_done c) /\
    c_reqs c2 = c_reqs c /\ revoked s2 = revoked s.
Proof.
  intros F P. pose proof (find_conn_in _ _ _ F) as [_ Id].
  set (c1 := mk_conn (c_id c) CWriting (c_reqs c) (c_after c) (c_done c) (c_born_revoked c)).
  set (c2 := mk_conn (c_id c) CHead (c_reqs c) (c_after c) (S (c_done c)) (c_born_revoked c)).
  assert (F1 : find_conn k (update_conn k c1 (conns s)) = Some c1)
    by (apply (find_update_same k c1 _ c F); exact Id).
  assert (F2 : find_conn k (update_conn k c2 (update_conn k c1 (conns s))) = Some c2)
    by (apply (find_update_same k c2 _ c1 F1); exact Id).
  exists (set_conns s (update_conn k c1 (conns s))),
         (set_conns (set_conns s (update_conn k c1 (conns s))) (update_conn k c2 (update_conn k c1 (conns s)))), c2.
  split. { cbn [step]. rewrite F, P. reflexivity. }
  split. { cbn [step set_conns conns]. rewrite F1. reflexivity. }
  split. { cbn [set_conns conns]. exact F2. }
  cbn. auto.
Qed.

(* no action other than the connection's own steps and its own end touches connection k *)
Lemma find_remove_other k j cs : j <> k -> find_conn k (remove_conn j cs) = find_conn k cs.
Proof.
  intros N. induction cs as [|x r IH]; cbn; [reflexivity|].
  destruct (c_id x =? j) eqn:Ej.
  - apply Nat.eqb_eq in Ej. assert (c_id x =? k = false) as -> by (apply Nat.eqb_neq; lia). reflexivity.
  - cbn. destruct (c_id x =? k); auto.
Qed.
Lemma find_update_other k j c' cs : j <> k -> c_id c' = j -> find_conn k (update_conn j c' cs) = find_conn k cs.
Proof.
  intros N E. induction cs as [|x r IH]; cbn; [reflexivity|].
  destruct (c_id x =? j) eqn:Ej.
  - apply Nat.eqb_eq in Ej. cbn. rewrite E.
    assert (j =? k = false) as -> by (apply Nat.eqb_neq; lia).
    assert (c_id x =? k = false) as -> by (apply Nat.eqb_neq; lia). reflexivity.
  - cbn. destruct (c_id x =? k); auto.
Qed.
Lemma find_app_other k cs c' : c_id c' <> k -> find_conn k (cs ++ [c']) = find_conn k cs.
Proof.
  intros N. induction cs as [|x r IH]; cbn.
  - assert (c_id c' =? k = false) as -> by (apply Nat.eqb_neq; lia). reflexivity.
  - destruct (c_id x =? k); auto.
Qed.

Lemma fresh_ids fixed n s : reachable fixed n s -> Forall (fun c => c_id c < next_id s) (conns s).
Proof.
  intros [tr H]. revert H. assert (I0 : Forall (fun c => c_id c < next_id (init n)) (conns (init n))) by constructor.
  revert I0. generalize (init n). induction tr as [|a t IH]; intros s0 I0 H; cbn in H.
  - injection H as <-. exact I0.
  - destruct (step fixed n s0 a) as [s1|] eqn:E; [|discriminate]. apply (IH s1); [|exact H].
    clear IH H. destruct s0 as [l av cs r li stp nid lo]. cbn in I0.
    destruct a; cbn in E.
    + unfold step_loop in E; cbn in E.
      destruct l; [destruct av; [destruct (fixed && r)|]|destruct r; [destruct (put n av lo)|]|
                   destruct r; [destruct (put n av lo)|]|destruct (put n av lo)|destruct stp];
      try discriminate; injection E as <-; exact I0.
    + destruct l; try discriminate. injection E as <-. cbn. apply Forall_app. split.
      * eapply Forall_impl; [|exact I0]. cbn; intros; lia.
      * constructor; [cbn; lia|constructor].
    + destruct l; try discriminate. injection E as <-. exact I0.
    + destruct (find_conn k cs); [|discriminate]. unfold end_conn in E; cbn in E.
      destruct (put n av lo); injection E as <-. cbn. now apply remove_conn_forall.
    + injection E as <-. exact I0.
    + destruct (find_conn k cs) as [c|] eqn:F; [|discriminate]. destruct (c_phase c); try discriminate.
      injection E as <-. cbn. apply update_conn_forall; [exact I0|]. cbn.
      exact (find_conn_forall _ _ _ _ I0 F).
    + destruct (find_conn k cs) as [c|] eqn:F; [|discriminate].
      pose proof (find_conn_forall _ _ _ _ I0 F) as Hc.
      destruct (c_phase c); try discriminate.
      * destruct r; [unfold end_conn in E; cbn in E; destruct (put n av lo)|]; injection E as <-; cbn.
        -- now apply remove_conn_forall.
        -- apply update_conn_forall; [exact I0|exact Hc].
      * injection E as <-. cbn. apply update_conn_forall; [exact I0|exact Hc].
      * injection E as <-. cbn. apply update_conn_forall; [exact I0|exact Hc].
Qed.

Lemma others_leave_conn_alone fixed n s a s' k c :
  reachable fixed n s -> find_conn k (conns s) = Some c -> step fixed n s a = Some s' ->
  a <> ConnEnd k -> a <> ConnStep k -> a <> ConnReq k ->
  find_conn k (conns s') = Some c.
Proof.
  intros R F Hs N1 N2 N3. pose proof (fresh_ids _ _ _ R) as Fr.
  pose proof (find_conn_forall _ _ _ _ Fr F) as Lt. pose proof (find_conn_in _ _ _ F) as [_ Id].
  destruct s as [l av cs r li stp nid lo]. cbn in *.
  destruct a; cbn in Hs.
  - unfold step_loop in Hs; cbn in Hs.
    destruct l; [destruct av; [destruct (fixed && r)|]|destruct r; [destruct (put n av lo)|]|
                 destruct r; [destruct (put n av lo)|]|destruct (put n av lo)|destruct stp];
    try discriminate; injection Hs as <-; exact F.
  - destruct l; try discriminate. injection Hs as <-. cbn. rewrite find_app_other; [exact F|cbn; lia].
  - destruct l; try discriminate. injection Hs as <-. exact F.
  - destruct (find_conn k0 cs); [|discriminate]. unfold end_conn in Hs; cbn in Hs.
    destruct (put n av lo); injection Hs as <-. cbn. rewrite find_remove_other; [exact F|congruence].
  - injection Hs as <-. exact F.
  - destruct (find_conn k0 cs) as [c0|] eqn:F0; [|discriminate]. destruct (c_phase c0); try discriminate.
    injection Hs as <-. cbn. pose proof (find_conn_in _ _ _ F0) as [_ Id0].
    rewrite find_update_other; [exact F|congruence|exact Id0].
  - destruct (find_conn k0 cs) as [c0|] eqn:F0; [|discriminate].
    pose proof (find_conn_in _ _ _ F0) as [_ Id0].
    destruct (c_phase c0); try discriminate.
    + destruct r; [unfold end_conn in Hs; cbn in Hs; destruct (put n av lo)|]; injection Hs as <-; cbn.
      * rewrite find_remove_other; [exact F|congruence].
      * rewrite find_update_other; [exact F|congruence|exact Id0].
    + injection Hs as <-. cbn. rewrite find_update_other; [exact F|congruence|exact Id0].
    + injection Hs as <-. cbn. rewrite find_update_other; [exact F|congruence|exact Id0].
Qed.

(* ============================================================================================
   Part 3: the scenario interpreter only produces traces of the transition system
   ============================================================================================ *)

Definition sim_ok (fixed : bool) (n : nat) (m : sim) : Prop :=
  run fixed n (init n) (trace m) = Some (sst m).

Definition not_revoke (a : action) : bool := match a with Revoke => false | _ => true end.

Lemma sim_init_ok fixed n : sim_ok fixed n (sim_init n).
Proof. reflexivity. Qed.

Lemma apply_action_run fixed n m a m' :
  apply_action fixed n m a = Some m' ->
  step fixed n (sst m) a = Some (sst m') /\ trace m' = trace m ++ [a].
Proof.
  unfold apply_action. destruct (step fixed n (sst m) a) eqn:E; [|discriminate].
  intros [= <-]. cbn. auto.
Qed.

(* settle performs a (possibly empty) sequence of LTS steps, none of them Revoke *)
Lemma settle_run fixed full n fuel : forall m,
  exists tr, run fixed n (sst m) tr = Some (sst (settle fixed full n fuel m)) /\
             trace (settle fixed full n fuel m) = trace m ++ tr /\
             forallb not_revoke tr = true.
Proof.
  induction fuel as [|f IH]; intros m; cbn [settle].
  - exists []. cbn. rewrite app_nil_r. auto.
  - assert (Hstep : forall a, forallb not_revoke [a] = true ->
              exists tr, run fixed n (sst m) tr =
                Some (sst (match apply_action fixed n m a with Some m' => settle fixed full n f m' | None => m end)) /\
                trace (match apply_action fixed n m a with Some m' => settle fixed full n f m' | None => m end) = trace m ++ tr /\
                forallb not_revoke tr = true).
    { intros a Ha. destruct (apply_action fixed n m a) as [m'|] eqn:E.
      - destruct (apply_action_run _ _ _ _ _ E) as [S T]. destruct (IH m') as (tr&R&Tr&Nr).
        exists (a :: tr). cbn [run]. rewrite S. split; [exact R|]. split.
        + rewrite Tr, T, <- app_assoc. reflexivity.
        + cbn in Ha. cbn. rewrite andb_true_r in Ha. now rewrite Ha, Nr.
      - exists []. cbn. rewrite app_nil_r. auto. }
    destruct (next_loop_action fixed n m) as [a|] eqn:EL.
    + apply Hstep. unfold next_loop_action in EL.
      destruct (loop (sst m)); try (destruct (step_loop fixed n (sst m)); [injection EL as <-; reflexivity|discriminate]).
      destruct (errs m); [|injection EL as <-; reflexivity].
      destruct (pending m); [|injection EL as <-; reflexivity].
      destruct (revoked (sst m)); [injection EL as <-; reflexivity|discriminate].
    + destruct full.
      * destruct (next_conn_action (unread m) (conns (sst m))) as [a|] eqn:EC.
        -- apply Hstep. clear - EC. induction (conns (sst m)) as [|c r IHc]; cbn in EC; [discriminate|].
           destruct (c_phase c); try (injection EC as <-; reflexivity); auto.
           destruct (mem_nat (c_id c) (unread m)); [injection EC as <-; reflexivity|auto].
        -- exists []. cbn. rewrite app_nil_r. auto.
      * exists []. cbn. rewrite app_nil_r. auto.
Qed.

Lemma do_cmd_run fixed full n m c :
  exists tr, run fixed n (sst m) tr = Some (sst (do_cmd fixed full n m c)) /\
             trace (do_cmd fixed full n m c) = trace m ++ tr /\
             (match c with KRevoke => True | _ => forallb not_revoke tr = true end).
Proof.
  unfold do_cmd.
  set (m1 := match c with KConnect => _ | KEnd _ => _ | KRevoke => _ | KRequest _ => _ | KRelease _ => _ | KErrors _ => _ end).
  assert (H1 : exists tr1, run fixed n (sst m) tr1 = Some (sst m1) /\ trace m1 = trace m ++ tr1 /\
                 (match c with KRevoke => True | _ => forallb not_revoke tr1 = true end)).
  { assert (Hap : forall a, (match c with KRevoke => True | _ => not_revoke a = true end) ->
       exists tr1, run fixed n (sst m) tr1 = Some (sst (match apply_action fixed n m a with Some m' => m' | None => m end)) /\
         trace (match apply_action fixed n m a with Some m' => m' | None => m end) = trace m ++ tr1 /\
         (match c with KRevoke => True | _ => forallb not_revoke tr1 = true end)).
    { intros a Ha. destruct (apply_action fixed n m a) as [m'|] eqn:E.
      - destruct (apply_action_run _ _ _ _ _ E) as [S T]. exists [a]. cbn [run]. rewrite S.
        repeat split; auto. destruct c; auto; cbn; now rewrite Ha.
      - exists []. cbn. rewrite app_nil_r. repeat split; auto. destruct c; auto. }
    subst m1. destruct c.
    - exists []. cbn. rewrite app_nil_r. auto.
    - apply Hap. reflexivity.
    - apply Hap. exact I.
    - exists []. cbn. rewrite app_nil_r. auto.
    - destruct (find_conn k (conns (sst m))) as [c0|]; [destruct (c_phase c0)|];
        try (exists []; cbn; rewrite app_nil_r; auto; fail). apply Hap. reflexivity.
    - exists []. cbn. rewrite app_nil_r. auto. }
  destruct H1 as (tr1&R1&T1&N1).
  destruct (settle_run fixed full n (settle_fuel m1) m1) as (tr2&R2&T2&N2).
  exists (tr1 ++ tr2). rewrite (run_app _ _ _ _ _ _ R1). split; [exact R2|]. split.
  - rewrite T2, T1, app_assoc. reflexivity.
  - destruct c; auto; rewrite forallb_app, N1, N2; reflexivity.
Qed.

Lemma do_cmd_ok fixed full n m c : sim_ok fixed n m -> sim_ok fixed n (do_cmd fixed full n m c).
Proof.
  unfold sim_ok. intros H. destruct (do_cmd_run fixed full n m c) as (tr&R&T&_).
  rewrite T, (run_app _ _ _ _ _ _ H). exact R.
Qed.

Lemma run_cmds_ok fixed full n cs : forall m,
  sim_ok fixed n m ->
  sim_ok fixed n (fst (run_cmds fixed full n m cs)) /\
  Forall (fun o => exists m', sim_ok fixed n m' /\ o = observe m') (snd (run_cmds fixed full n m cs)).
Proof.
  induction cs as [|c r IH]; intros m H; cbn [run_cmds].
  - cbn. auto.
  - pose proof (do_cmd_ok fixed full n m c H) as H1.
    destruct (IH _ H1) as [A B]. destruct (run_cmds fixed full n (do_cmd fixed full n m c) r) as [m2 os].
    cbn [fst snd] in *. split; [exact A|]. constructor; [|exact B]. eexists; eauto.
Qed.

(* every observation sequence printed by the model is the sequence of observations along a trace
   that the transition system accepts from its initial state *)
Lemma scenario_is_trace_l fixed full n cs :
  let m := fst (run_cmds fixed full n (sim_init n) cs) in
  run fixed n (init n) (trace m) = Some (sst m) /\
  Forall (fun o => exists m', run fixed n (init n) (trace m') = Some (sst m') /\ o = observe m')
         (snd (run_cmds fixed full n (sim_init n) cs)).
Proof. cbn zeta. apply run_cmds_ok. apply sim_init_ok. Qed.

Lemma count_phase_le p cs : count_phase p cs <= length cs.
Proof.
  unfold count_phase. induction cs as [|c r IH]; cbn [filter length]; [lia|].
  match goal with |- context [if ?b then _ else _] => destruct b end; cbn [length]; lia.
Qed.

Lemma observe_bounds fixed n m :
  sim_ok fixed n m -> o_gauge (observe m) <= n /\ o_handlers (observe m) <= n.
Proof.
  intros H. pose proof (never_over_admit_l _ _ _ _ H) as L. unfold observe; cbn.
  pose proof (count_phase_le CHandler (conns (sst m))). lia.
Qed.

(* safety half of the C12 scenario oracle, for all command lists *)
Lemma oracle_c12_acc_safety fixed full n cs :
  forallb (fun x => (o_gauge x <=? n) && (o_handlers x <=? n)) (fst (scenario fixed full n cs)) = true /\
  o_gauge (snd (scenario fixed full n cs)) <= n.
Proof.
  unfold scenario.
  destruct (run_cmds_ok fixed full n cs (sim_init n) (sim_init_ok fixed n)) as [A B].
  destruct (run_cmds fixed full n (sim_init n) cs) as [m os]. cbn [fst snd] in *.
  destruct (run_cmds_ok fixed full n (recover_cmds n m) m A) as [A' _].
  destruct (run_cmds fixed full n m (recover_cmds n m)) as [m' os']. cbn [fst snd] in *.
  split.
  - apply forallb_forall. intros x Hx. destruct (proj1 (Forall_forall _ _) B x Hx) as (mx&Ok&->).
    destruct (observe_bounds _ _ _ Ok). apply andb_true_iff. split; apply Nat.leb_le; assumption.
  - apply (observe_bounds _ _ _ A').
Qed.

(* ---- C13 scenario oracle ---- *)

Lemma step_revoked fixed n s a s' :
  step fixed n s a = Some s' -> revoked s' = revoked s || negb (not_revoke a).
Proof.
  intros Hs. destruct s as [l av cs r li stp nid lo].
  destruct a; cbn in Hs.
  - unfold step_loop in Hs; cbn in Hs.
    destruct l; [destruct av; [destruct (fixed && r)|]|destruct r; [destruct (put n av lo)|]|
                 destruct r; [destruct (put n av lo)|]|destruct (put n av lo)|destruct stp];
    try discriminate; injection Hs as <-; cbn; now rewrite ?orb_false_r.
  - destruct l; try discriminate. injection Hs as <-. cbn. now rewrite orb_false_r.
  - destruct l; try discriminate. injection Hs as <-. cbn. now rewrite orb_false_r.
  - destruct (find_conn k cs); [|discriminate]. unfold end_conn in Hs; cbn in Hs.
    destruct (put n av lo); injection Hs as <-. cbn. now rewrite orb_false_r.
  - injection Hs as <-. cbn. now rewrite orb_true_r.
  - destruct (find_conn k cs) as [c|]; [|discriminate]. destruct (c_phase c); try discriminate.
    injection Hs as <-. cbn. now rewrite orb_false_r.
  - destruct (find_conn k cs) as [c|]; [|discriminate]. destruct (c_phase c); try discriminate.
    + destruct r; [unfold end_conn in Hs; cbn in Hs; destruct (put n av lo)|]; injection Hs as <-; cbn; now rewrite ?orb_false_r.
    + injection Hs as <-. cbn. now rewrite orb_false_r.
    + injection Hs as <-. cbn. now rewrite orb_false_r.
Qed.

Lemma run_revoked fixed n tr : forall s s',
  run fixed n s tr = Some s' -> forallb not_revoke tr = true -> revoked s' = revoked s.
Proof.
  induction tr as [|a t IH]; intros s s' H Nr; cbn in H.
  - now injection H as <-.
  - destruct (step fixed n s a) as [s1|] eqn:E; [|discriminate]. cbn in Nr. apply andb_true_iff in Nr as [Na Nt].
    rewrite (IH _ _ H Nt), (step_revoked _ _ _ _ _ E), Na. cbn. now rewrite orb_false_r.
Qed.

Lemma run_revoked_mono fixed n tr : forall s s',
  run fixed n s tr = Some s' -> revoked s = true -> revoked s' = true.
Proof.
  induction tr as [|a t IH]; intros s s' H R; cbn in H.
  - now injection H as <-.
  - destruct (step fixed n s a) as [s1|] eqn:E; [|discriminate]. apply (IH _ _ H).
    rewrite (step_revoked _ _ _ _ _ E), R. reflexivity.
Qed.

(* measure of the accept task once the permit is revoked *)
Definition mu (s : st) : nat :=
  match loop s with
  | Done => if stopped s then 0 else 1
  | CheckRevoked => 2
  | WaitTokenOrPermit => 3
  | SleepAfterError => 4
  | Accepting => 5
  end.

Lemma stopped_step_mono fixed n s a s' : stopped s = true -> step fixed n s a = Some s' -> stopped s' = true.
Proof.
  intros S0 E. destruct s as [l av cs r li stp nid lo]. cbn in S0. subst stp. destruct a; cbn in E.
  - unfold step_loop in E; cbn in E.
    destruct l; [destruct av; [destruct (fixed && r)|]|destruct r; [destruct (put n av lo)|]|
                 destruct r; [destruct (put n av lo)|]|destruct (put n av lo)|];
    try discriminate; injection E as <-; reflexivity.
  - destruct l; try discriminate; injection E as <-; reflexivity.
  - destruct l; try discriminate; injection E as <-; reflexivity.
  - destruct (find_conn k cs); [|discriminate]. unfold end_conn in E; cbn in E.
    destruct (put n av lo); injection E as <-; reflexivity.
  - injection E as <-; reflexivity.
  - destruct (find_conn k cs) as [c|]; [|discriminate]. destruct (c_phase c); try discriminate.
    injection E as <-; reflexivity.
  - destruct (find_conn k cs) as [c|]; [|discriminate]. destruct (c_phase c); try discriminate.
    + destruct r; [unfold end_conn in E; cbn in E; destruct (put n av lo)|]; injection E as <-; reflexivity.
    + injection E as <-; reflexivity.
    + injection E as <-; reflexivity.
Qed.

Lemma stopped_run_mono fixed n tr : forall s s', stopped s = true -> run fixed n s tr = Some s' -> stopped s' = true.
Proof.
  induction tr as [|a t IHt]; intros s s' S0 H; cbn in H; [now injection H as <-|].
  destruct (step fixed n s a) as [s1|] eqn:E; [|discriminate]. apply (IHt s1 s'); [|exact H].
  eapply stopped_step_mono; eauto.
Qed.

Lemma settle_reaches_stop full n fuel : forall m,
  revoked (sst m) = true -> mu (sst m) <= fuel -> stopped (sst (settle true full n fuel m)) = true.
Proof.
  induction fuel as [|f IH]; intros m R Hm.
  - cbn. unfold mu in Hm. destruct (loop (sst m)); try lia. destruct (stopped (sst m)); [reflexivity|lia].
  - cbn [settle]. destruct (stopped (sst m)) eqn:St.
    + (* already stopped: every further action keeps it *)
      destruct (settle_run true full n (S f) m) as (tr&Rn&_&_). cbn [settle] in Rn.
      clear IH Hm. revert Rn. generalize (match next_loop_action true n m with
        | Some a => match apply_action true n m a with Some m' => settle true full n f m' | None => m end
        | None => if full then match next_conn_action (unread m) (conns (sst m)) with
            | Some a => match apply_action true n m a with Some m' => settle true full n f m' | None => m end
            | None => m end else m end). intros mm Rn.
      pose proof (stopped_run_mono true n) as G.
      exact (G _ _ _ St Rn).
    + (* not yet stopped: the accept task can move and mu decreases *)
      assert (Hmove : exists a m', next_loop_action true n m = Some a /\ apply_action true n m a = Some m' /\
                        mu (sst m') < mu (sst m) /\ revoked (sst m') = true).
      { unfold next_loop_action, apply_action, mu in *.
        destruct m as [s pe ur nc er trc]. cbn [sst pending errs unread nclients trace] in *.
        destruct s as [l av cs r li stp nid lo]. cbn in R, St. subst r stp.
        destruct l; cbn [loop revoked stopped].
        - unfold step, step_loop; cbn [loop avail revoked]. destruct av.
          + cbn. eexists. eexists. split; [reflexivity|]. split; [reflexivity|]. cbn. split; [lia|reflexivity].
          + eexists. eexists. split; [reflexivity|]. split; [reflexivity|]. cbn. split; [lia|reflexivity].
        - unfold step, step_loop; cbn [loop avail revoked lost]. destruct (put n av lo).
          eexists. eexists. split; [reflexivity|]. split; [reflexivity|]. cbn. split; [lia|reflexivity].
        - destruct er.
          + destruct pe.
            * unfold step, step_loop; cbn [loop avail revoked lost]. destruct (put n av lo).
              eexists. eexists. split; [reflexivity|]. split; [reflexivity|]. cbn. split; [lia|reflexivity].
            * eexists. eexists. split; [reflexivity|]. cbn. split; [reflexivity|]. cbn. split; [lia|reflexivity].
          + eexists. eexists. split; [reflexivity|]. cbn. split; [reflexivity|]. cbn. split; [lia|reflexivity].
        - unfold step, step_loop; cbn [loop avail revoked lost]. destruct (put n av lo).
          eexists. eexists. split; [reflexivity|]. split; [reflexivity|]. cbn. split; [lia|reflexivity].
        - unfold step, step_loop; cbn [loop stopped].
          eexists. eexists. split; [reflexivity|]. split; [reflexivity|]. cbn. split; [lia|reflexivity]. }
      destruct Hmove as (a&m'&E1&E2&Lt&R'). rewrite E1, E2. apply IH; [exact R'|lia].
Qed.

Lemma settle_fuel_ge m : 8 <= settle_fuel m.
Proof. unfold settle_fuel. lia. Qed.

Lemma mu_le_5 s : mu s <= 5.
Proof. unfold mu. destruct (loop s); try lia. destruct (stopped s); lia. Qed.

Lemma settle_fuel_mono full n fuel : forall m k,
  revoked (sst m) = true -> mu (sst m) <= fuel -> stopped (sst (settle true full n (fuel + k) m)) = true.
Proof. intros m k R H. apply settle_reaches_stop; [exact R|lia]. Qed.

(* after the KRevoke command (and after any later command) the stopped signal has been delivered *)
Lemma do_cmd_stopped_when_revoked full n m c :
  revoked (sst (do_cmd true full n m c)) = true -> stopped (sst (do_cmd true full n m c)) = true.
Proof.
  unfold do_cmd.
  set (m1 := match c with KConnect => _ | KEnd _ => _ | KRevoke => _ | KRequest _ => _ | KRelease _ => _ | KErrors _ => _ end).
  intros R.
  destruct (settle_run true full n (settle_fuel m1) m1) as (tr&Rn&_&Nr).
  pose proof (run_revoked _ _ _ _ _ Rn Nr) as E. rewrite R in E. symmetry in E.
  apply settle_reaches_stop; [exact E|]. pose proof (mu_le_5 (sst m1)). pose proof (settle_fuel_ge m1). lia.
Qed.

Lemma do_cmd_revoked fixed full n m c :
  revoked (sst (do_cmd fixed full n m c)) = revoked (sst m) || match c with KRevoke => true | _ => false end.
Proof.
  destruct (do_cmd_run fixed full n m c) as (tr&R&_&N).
  destruct c; try (rewrite (run_revoked _ _ _ _ _ R N); now rewrite orb_false_r).
  (* KRevoke *)
  rewrite orb_true_r. unfold do_cmd.
  set (m1 := match apply_action fixed n m Revoke with Some m' => m' | None => m end).
  assert (R1 : revoked (sst m1) = true).
  { subst m1. unfold apply_action. cbn [step]. reflexivity. }
  destruct (settle_run fixed full n (settle_fuel m1) m1) as (tr2&Rn&_&Nr).
  rewrite (run_revoked _ _ _ _ _ Rn Nr). exact R1.
Qed.

Lemma oracle_c13_walk_sound full n cs : forall m adm,
  sim_ok true n m ->
  (revoked (sst m) = true -> stopped (sst m) = true) ->
  (match adm with Some a => stopped (sst m) = true /\ next_id (sst m) = a | None => stopped (sst m) = false end) ->
  oracle_c13_walk (revoked (sst m)) adm cs (snd (run_cmds true full n m cs)) = true.
Proof.
  induction cs as [|c r IH]; intros m adm Ok Hrs Hadm; cbn [run_cmds].
  - reflexivity.
  - set (m1 := do_cmd true full n m c).
    pose proof (do_cmd_ok true full n m c Ok) as Ok1. fold m1 in Ok1.
    pose proof (do_cmd_revoked true full n m c) as Rv1. fold m1 in Rv1.
    pose proof (do_cmd_stopped_when_revoked full n m c) as St1. fold m1 in St1.
    destruct (do_cmd_run true full n m c) as (tr&Rn&_&_). fold m1 in Rn.
    specialize (IH m1). clearbody m1. destruct (run_cmds true full n m1 r) as [m2 os]. cbn [snd] in *.
    cbn [oracle_c13_walk]. rewrite <- Rv1.
    assert (R1 : reachable true n (sst m1)) by (exists (trace m1); exact Ok1).
    pose proof (inv_reachable _ _ _ R1) as (_&_&I3&I4&I5&_).
    assert (Hflags : (if revoked (sst m1) then o_stopped (observe m1) && negb (o_listening (observe m1))
                      else negb (o_stopped (observe m1)) && o_listening (observe m1)) = true).
    { unfold observe; cbn. destruct (revoked (sst m1)) eqn:R.
      - rewrite (St1 eq_refl). destruct (I4 (I3 (St1 eq_refl))) as [_ ->]. reflexivity.
      - destruct (stopped (sst m1)) eqn:S1.
        + destruct (I4 (I3 eq_refl)) as [X _]. congruence.
        + cbn. apply I5. intros D. destruct (I4 D). congruence. }
    rewrite Hflags. cbn [andb].
    assert (Hadm1 : match adm with Some a => o_admitted (observe m1) =? a | None => true end = true /\
              match (match adm with Some a => Some a | None => if o_stopped (observe m1) then Some (o_admitted (observe m1)) else None end) with
              | Some a => stopped (sst m1) = true /\ next_id (sst m1) = a
              | None => stopped (sst m1) = false end).
    { destruct adm as [a|].
      - destruct Hadm as [S0 N0].
        assert (R0 : reachable true n (sst m)) by (exists (trace m); exact Ok).
        destruct (no_accept_after_stop_l _ _ _ _ _ R0 S0 Rn) as (Ni&S1&_).
        unfold observe; cbn. split; [apply Nat.eqb_eq; congruence|]. split; [exact S1|congruence].
      - split; [reflexivity|]. unfold observe; cbn. destruct (stopped (sst m1)) eqn:S1; auto. }
    destruct Hadm1 as [H1 H2]. rewrite H1. cbn [andb].
    apply IH; [exact Ok1|exact St1|exact H2].
Qed.

Lemma oracle_c13_acc_sound_l full n cs : oracle_c13_acc cs (scenario true full n cs) = true.
Proof.
  unfold oracle_c13_acc, scenario.
  pose proof (oracle_c13_walk_sound full n cs (sim_init n) None (sim_init_ok true n)) as H.
  cbn [sim_init sst init revoked stopped] in H. specialize (H ltac:(discriminate) eq_refl).
  destruct (run_cmds true full n (sim_init n) cs) as [m os].
  destruct (run_cmds true full n m (recover_cmds n m)) as [m' os']. cbn [fst snd] in *. exact H.
Qed.

(* ---- witnesses ---- *)
Fixpoint fill_idle (k start : nat) : list action :=
  match k with
  | O => []
  | S k' => [Loop; Loop; IncomingOk; ConnStep start] ++ fill_idle k' (S start)
  end.
(* n clients connect and go idle (keep-alive), then the permit is revoked *)
Definition stuck_trace (n : nat) : list action := fill_idle n 0 ++ [Revoke].

Definition stuck_check (fixed : bool) (n : nat) : bool :=
  match run fixed n (init n) (stuck_trace n) with
  | Some s =>
      (length (conns s) =? n) && (avail s =? 0) && revoked s && negb (stopped s) &&
      forallb (fun c => match c_phase c with CIdle => true | _ => false end) (conns s) &&
      match loop s with WaitTokenOrPermit => true | _ => false end &&
      match step fixed n s Loop with None => true | Some _ => false end
  | None => false
  end.

Lemma stuck_check_spec n :
  stuck_check false n = true ->
  exists s, run false n (init n) (stuck_trace n) = Some s /\ stuck_state s /\ length (conns s) = n /\
            step false n s Loop = None.
Proof.
  unfold stuck_check. destruct (run false n (init n) (stuck_trace n)) as [s|]; [|discriminate].
  intros H. repeat (apply andb_true_iff in H as [H ?]).
  exists s. split; [reflexivity|]. unfold stuck_state.
  apply Nat.eqb_eq in H. apply Nat.eqb_eq in H5.
  destruct (loop s) eqn:L; try discriminate. destruct (step false n s Loop) eqn:E; [discriminate|].
  apply negb_true_iff in H3.
  repeat split; auto.
  apply Forall_forall. intros c Hc. pose proof (proj1 (forallb_forall _ _) H2 c Hc) as P.
  cbn beta in P. destruct (c_phase c); try discriminate. reflexivity.
Qed.

Lemma stop_bounded_refuted_l :
  forall n, In n [1; 2; 3; 4] ->
  exists s, run false n (init n) (stuck_trace n) = Some s /\ stuck_state s /\ length (conns s) = n /\
            step false n s Loop = None /\
            (forall tr s', forallb (fun a => negb (is_client_action a)) tr = true ->
                           run false n s tr = Some s' -> stopped s' = false /\ step false n s' Loop = None).
Proof.
  intros n Hn.
  assert (C : stuck_check false n = true).
  { cbn in Hn. destruct Hn as [<-|[<-|[<-|[<-|[]]]]]; vm_compute; reflexivity. }
  destruct (stuck_check_spec n C) as (s&R&S&L&E).
  exists s. split; [exact R|]. split; [exact S|]. split; [exact L|]. split; [exact E|].
  intros tr s' Ht Hr. eapply stuck_forever; eauto.
Qed.

(* the same history on the current tree ends with the stopped signal after two accept-task steps *)
Lemma stuck_trace_stops_when_fixed :
  forall n, In n [1; 2; 3; 4] ->
  exists s, run true n (init n) (stuck_trace n ++ [Loop; Loop]) = Some s /\ stopped s = true /\ listening s = false.
Proof.
  intros n Hn. cbn in Hn. destruct Hn as [<-|[<-|[<-|[<-|[]]]]]; vm_compute; eexists; repeat split.
Qed.

(* The unbounded soundness of the scenario oracles (C12: the gauge returns to exactly n; C13: every
   completed response after the revocation is followed by the connection being closed) is proved in
   Proofs/AcceptP2.v. *)
