(* Proofs/ConnInstP.v -- the concrete instance (Model/ConnInst.v) satisfies the hypotheses under
   which the parametric theorems of Proofs/ConnP.v and Proofs/ServerP.v were proved:
     - Response::new(100) has status 100                                  (continue_code)
     - a successfully read request consumed at least four bytes of input  (read_req_progress)
     - the concrete request reader never reports ModelPanic / ModelOutOfFuel
       (totality of the head reader, C01) and keeps the buffer within its 8 KiB. *)
From SV Require Import Base.Bytes Base.BytesP Base.IO Model.Headers Model.IOSched Model.Response.
From SV Require Import Model.Head Proofs.HeadP Proofs.HeadReadP.
From SV Require Model.Request.
From SV Require Import Model.Conn Model.Server Model.ConnInst.

Strategy opaque [cap8k].
Opaque cap8k.

Lemma continue_code_inst : r_code resp_continue_inst = 100.
Proof. reflexivity. Qed.

Section Inst.
Variable url_parse : bytes -> option (bytes * option bytes).

Definition buf_ok (i : cin) : Prop := (length (ci_buf i) <= cap8k)%nat.

Lemma buf_wf i : buf_ok i -> fb_wf cap8k (mk_fbuf 0 (ci_buf i)).
Proof. unfold buf_ok, fb_wf. cbn [fb_rd fb_data]. lia. Qed.

(* the head reader's outcome on the connection's buffer, by the totality theorem of C01 *)
Lemma read_req_inst_total i : buf_ok i ->
  fst (read_req_inst url_parse i) <> inl ModelPanic /\ fst (read_req_inst url_parse i) <> inl ModelOutOfFuel /\
  buf_ok (snd (read_req_inst url_parse i)).
Proof.
  intros Hb. unfold read_req_inst.
  pose proof (read_request_head_total_outcome url_parse cap8k (cap8k + 2) (mk_fbuf 0 (ci_buf i)) (ci_in i)
                (buf_wf i Hb) (Nat.le_refl _)) as Ht.
  pose proof (read_head_wf url_parse true true cap8k (cap8k + 2) (fb_shift (mk_fbuf 0 (ci_buf i))) (ci_in i)
                (shift_wf cap8k _ (buf_wf i Hb))) as Hwf.
  unfold read_request_head, read_request_head_gen in *.
  destruct (read_head_gen url_parse true true cap8k (cap8k + 2) (fb_shift (mk_fbuf 0 (ci_buf i))) (ci_in i))
    as [h b s|e b s| |] eqn:E.
  - assert (buf_ok (mk_cin (fb_data b) s)) as Hok by (unfold buf_ok, fb_wf in *; cbn [ci_buf]; lia).
    destruct (Request.request_of_head (h_method h) (h_headers h)) as [rq|e]; cbn [fst snd].
    + repeat split; try discriminate. exact Hok.
    + repeat split; try exact Hok; destruct e; discriminate.
  - cbn [fst snd]. repeat split; try (destruct e; discriminate). unfold buf_ok, fb_wf in *; cbn [ci_buf]; lia.
  - exfalso. destruct Ht as [(h & b' & s' & H)|(e & b' & s' & H & _)]; discriminate.
  - exfalso. destruct Ht as [(h & b' & s' & H)|(e & b' & s' & H & _)]; discriminate.
Qed.

Lemma find_slice_some_len needle hay n : find_slice needle hay = Some n -> needle <> [] -> (n + length needle <= length hay)%nat.
Proof.
  revert n; induction hay as [|x t IH]; intros n; cbn [find_slice].
  - destruct (starts_with needle []) eqn:S; [|discriminate].
    intros _ Hne. destruct needle; [contradiction|discriminate].
  - destruct (starts_with needle (x :: t)) eqn:S.
    + intros [= <-] _. apply starts_with_spec in S. destruct S as [r Hr]. rewrite Hr, app_length. lia.
    + destruct (find_slice needle t) as [k|] eqn:F; [|discriminate]. intros [= <-] Hne.
      specialize (IH k eq_refl Hne). cbn [length]. lia.
Qed.

(* a successfully read request consumed at least four bytes: the progress hypothesis of the
   termination theorem (c04_loop_terminates) holds for the concrete reader *)
Lemma read_req_inst_progress i x i' : buf_ok i ->
  read_req_inst url_parse i = (inr x, i') -> (length (cin_avail i') + 4 <= length (cin_avail i))%nat.
Proof.
  intros Hb. unfold read_req_inst.
  pose proof (read_request_head_spec url_parse true true cap8k (cap8k + 2) (mk_fbuf 0 (ci_buf i)) (ci_in i)
                (buf_wf i Hb) (Nat.le_refl _)) as Hs.
  unfold read_request_head.
  destruct (read_request_head_gen url_parse true true cap8k (cap8k + 2) (mk_fbuf 0 (ci_buf i)) (ci_in i))
    as [h b s|e b s| |] eqn:E; try discriminate.
  destruct (Request.request_of_head (h_method h) (h_headers h)) as [rq|e]; [|discriminate].
  intros [= _ <-]. cbn [abstract] in Hs. injection Hs as Hs.
  unfold head_spec_gen in Hs. cbn [fb_data fb_rd] in Hs.
  unfold cin_avail. cbn [ci_buf ci_in].
  destruct (find_slice crlf2 (firstn (cap8k - 0) (ci_buf i ++ in_bytes (ci_in i)))) as [n|] eqn:F.
  - destruct (parse_head_gen url_parse true true (firstn n (ci_buf i ++ in_bytes (ci_in i)))) as [h'|e'|]; try discriminate.
    injection Hs as _ Hrest. rewrite Hrest, skipn_length.
    pose proof (find_slice_some_len crlf2 _ n F ltac:(discriminate)) as Hl.
    rewrite firstn_length in Hl. cbn [length crlf2] in Hl. lia.
  - destruct (cap8k - 0 <=? length (ci_buf i ++ in_bytes (ci_in i)))%nat; [discriminate|].
    destruct (ci_buf i ++ in_bytes (ci_in i)); discriminate.
Qed.
End Inst.

(* ---- every 5xx response that is sent through the connection is marked `connection: close` on
        the wire and closes the write side (C20 clause 3; composes C05, C06 and the close rule) ---- *)
From SV Require Import Spec.RespParse Spec.ConnSpec Proofs.ConnP Proofs.ResponseP.

Section FiveXX.
Variable url_parse : bytes -> option (bytes * option bytes).
Variable reason : N -> bytes.
Variable ct_text : nat -> bytes.

Lemma fivexx_marked_close_on_wire (c : conn) (r : response) :
  c_ws c = WS_Response -> 500 <= r_code r <= 599 ->
  head_ok reason ct_text r = true -> collides r = false ->
  let '(res, c') := cstep_inst url_parse reason ct_text true c (OWrite r) in
  res = CR_Ok ->
  exists delta,
    c_wire c' = c_wire c ++ delta /\
    parse_response delta = Some (r_code r, all_fields ct_text r true, body_payload (r_body r), []) /\
    In (s_connection, s_close) (all_fields ct_text r true) /\
    c_ws c' = WS_Shutdown /\ c_wshut c' = true.
Proof.
  intros Hw Hcode Hok Hcol.
  assert (is_5xx_close (r_code r) = true) as H5
    by (unfold is_5xx_close, in_range; apply andb_true_iff; split; apply N.leb_le; lia).
  unfold cstep_inst. cbn [cstep].
  pose proof (wresp_ws response r_code (write_out_inst reason ct_text) resp_continue_inst true c r Hw) as Hs.
  pose proof (wresp_wire response r_code (write_out_inst reason ct_text) c r Hw) as Hwire.
  destruct (write_response response r_code (write_out_inst reason ct_text) c r) as [res c'].
  rewrite H5 in Hs, Hwire. unfold write_out_inst in Hs, Hwire.
  destruct (write_http_response reason ct_text r true writer_all) as [[wres acc] w'] eqn:Ew.
  cbn [fst snd] in Hs, Hwire. destruct Hs as [Hres [Hws [_ [_ Hsh]]]].
  intros Hok'. destruct res as [e|]; [discriminate|].
  destruct wres as [e|]; [discriminate|].
  exists acc. split; [exact Hwire|].
  destruct (W_roundtrip reason ct_text r true writer_all None acc w' Hok Hcol Ew eq_refl) as [Hp _].
  split; [exact Hp|]. split.
  - unfold all_fields, auto_fields. apply in_or_app. left. apply in_or_app. right. apply in_or_app. left. now left.
  - split; [exact Hws|]. apply Hsh. now right.
Qed.
End FiveXX.
