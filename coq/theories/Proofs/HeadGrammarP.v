(* Proofs/HeadGrammarP.v -- C02: the concrete parser of Model/Head.v against the grammar of
   Spec/Rfc7230.v: recognisers = declarative readings, render/parse round trip, inversion of
   acceptance, classification of rejections, the oracle. *)
From SV Require Import Base.Bytes Base.BytesP Base.IO Model.Headers Model.Head Spec.Rfc7230 Proofs.HeadP Proofs.HeadReadP.

(* ------------------------------------------------------------------ cut_at *)
Definition ne (c b : N) : bool := negb (b =? c).

Lemma cut_at_app c l r : forallb (ne c) l = true -> cut_at c (l ++ c :: r) = Some (l, r).
Proof.
  induction l as [|b l IH]; cbn [app cut_at forallb]; intros H.
  - now rewrite N.eqb_refl.
  - apply andb_true_iff in H as [H1 H2]. unfold ne in H1. apply negb_true_iff in H1. rewrite H1, IH by exact H2. reflexivity.
Qed.

Lemma cut_at_spec c l x y : cut_at c l = Some (x, y) -> l = x ++ c :: y /\ forallb (ne c) x = true.
Proof.
  revert x y; induction l as [|b l IH]; intros x y; cbn [cut_at]; [discriminate|].
  destruct (b =? c) eqn:E.
  - intros [= <- <-]. apply N.eqb_eq in E. subst. auto.
  - destruct (cut_at c l) as [[x' y']|]; [|discriminate]. intros [= <- <-].
    destruct (IH x' y' eq_refl) as [-> H]. split; [reflexivity|]. cbn [forallb]. unfold ne at 1. now rewrite E, H.
Qed.

Lemma cut_at_unique c l x y : forallb (ne c) x = true -> l = x ++ c :: y -> cut_at c l = Some (x, y).
Proof. intros H ->. now apply cut_at_app. Qed.

(* ------------------------------------------------------------------ character facts *)
Lemma tchar_facts b : is_tchar b = true -> b <> 32 /\ b <> 58 /\ b <> 13 /\ b <> 10 /\ b <> 9.
Proof.
  unfold is_tchar, is_alpha, is_upper, is_lower, is_digit, in_range.
  rewrite !orb_true_iff, !andb_true_iff, !N.leb_le, !N.eqb_eq. lia.
Qed.
Lemma forallb_imp (p q : N -> bool) l : (forall b, p b = true -> q b = true) -> forallb p l = true -> forallb q l = true.
Proof. exact (forallb_impl p q l). Qed.
Lemma token_parts s : is_token s = true -> s <> [] /\ forallb is_tchar s = true.
Proof. unfold is_token. rewrite andb_true_iff. intros [H1 H2]. split; [|exact H2]. destruct s; [discriminate|discriminate]. Qed.
Lemma token_ne c s : (c = 32 \/ c = 58 \/ c = 13 \/ c = 10) -> is_token s = true -> forallb (ne c) s = true.
Proof.
  intros Hc H. apply token_parts in H as [_ H]. revert H. apply forallb_imp. intros b Hb.
  apply tchar_facts in Hb. unfold ne. apply negb_true_iff, N.eqb_neq. lia.
Qed.
Lemma nonblank_parts s : nonblank_run s = true -> s <> [] /\ forallb is_nonblank s = true.
Proof. destruct s; [discriminate|]. intros H. split; [discriminate|exact H]. Qed.
Lemma nonblank_facts b : is_nonblank b = true -> b <> 32 /\ b <> 9 /\ b <> 13 /\ b <> 10.
Proof. unfold is_nonblank, is_ws. rewrite negb_true_iff, !orb_false_iff, !N.eqb_neq. tauto. Qed.
Lemma nonblank_ne c s : (c = 32 \/ c = 13 \/ c = 10) -> nonblank_run s = true -> forallb (ne c) s = true.
Proof.
  intros Hc H. apply nonblank_parts in H as [_ H]. revert H. apply forallb_imp. intros b Hb.
  apply nonblank_facts in Hb. unfold ne. apply negb_true_iff, N.eqb_neq. lia.
Qed.
Lemma http11_nonblank : nonblank_run http11 = true.
Proof. vm_compute. reflexivity. Qed.
Lemma fv_byte_facts b : is_fv_byte b = true -> b <> 13 /\ b <> 10.
Proof. unfold is_fv_byte, in_range. rewrite orb_true_iff, andb_true_iff, !N.leb_le, N.eqb_eq. lia. Qed.
Lemma ows_facts b : is_ows b = true -> b <> 13 /\ b <> 10 /\ is_ws b = true.
Proof. unfold is_ows, is_ws. rewrite !orb_true_iff, !N.eqb_eq. intros [->| ->]; repeat split; try lia; reflexivity. Qed.
Lemma ws_not_ows_fv b : is_fv_byte b = true -> is_ows b = false -> is_ws b = false.
Proof.
  intros F O. apply fv_byte_facts in F. unfold is_ows in O. unfold is_ws.
  apply orb_false_iff in O as [O1 O2]. rewrite O1, O2. cbn [orb].
  apply orb_false_iff. rewrite !N.eqb_neq. tauto.
Qed.

(* ------------------------------------------------------------------ the request-line recogniser *)
Lemma match_request_line_iff line m t v :
  match_request_line line = Some (m, t, v) <-> reqline_spec line m t v.
Proof.
  unfold reqline_spec, match_request_line. split.
  - destruct (cut_at 32 line) as [[m' r]|] eqn:C1; [|discriminate].
    destruct (cut_at 32 r) as [[t' v']|] eqn:C2; [|discriminate].
    destruct (is_token m' && nonblank_run t' && nonblank_run v') eqn:E; [|discriminate].
    intros [= <- <- <-]. apply andb_true_iff in E as [E E3]. apply andb_true_iff in E as [E1 E2].
    apply cut_at_spec in C1 as [-> _]. apply cut_at_spec in C2 as [-> _]. auto.
  - intros (-> & Hm & Ht & Hv).
    rewrite (cut_at_app 32 m) by (apply token_ne; auto).
    rewrite (cut_at_app 32 t) by (apply nonblank_ne; auto).
    now rewrite Hm, Ht, Hv.
Qed.

Lemma match_request_line_none line :
  match_request_line line = None -> ~ exists m t v, reqline_spec line m t v.
Proof. intros H (m & t & v & S). apply match_request_line_iff in S. congruence. Qed.

(* ------------------------------------------------------------------ trim_ws *)
Lemma drop_while_all p l : forallb p l = true -> drop_while p l = [].
Proof. induction l as [|b l IH]; cbn [forallb drop_while]; [reflexivity|]. intros H. apply andb_true_iff in H as [-> H]. auto. Qed.
Lemma drop_while_app_all p a l : forallb p a = true -> drop_while p (a ++ l) = drop_while p l.
Proof. induction a as [|b a IH]; cbn [forallb drop_while app]; [reflexivity|]. intros H. apply andb_true_iff in H as [-> H]. auto. Qed.
Lemma drop_while_head p b l : p b = false -> drop_while p (b :: l) = b :: l.
Proof. intros H. cbn [drop_while]. now rewrite H. Qed.
Lemma drop_while_end_all p l : forallb p l = true -> drop_while_end p l = [].
Proof. induction l as [|b l IH]; cbn [forallb drop_while_end]; [reflexivity|]. intros H. apply andb_true_iff in H as [H1 H]. now rewrite IH, H1. Qed.
Lemma drop_while_end_app_all p l b : forallb p b = true -> drop_while_end p (l ++ b) = drop_while_end p l.
Proof.
  intros H. induction l as [|x l IH]; cbn [app drop_while_end].
  - now apply drop_while_end_all.
  - now rewrite IH.
Qed.
Lemma drop_while_end_cons p x l :
  drop_while_end p (x :: l) = match drop_while_end p l with [] => if p x then [] else [x] | r => x :: r end.
Proof. reflexivity. Qed.
Lemma trim_cr_cons2 x y t : trim_trailing_cr (x :: y :: t) = x :: trim_trailing_cr (y :: t).
Proof. reflexivity. Qed.
Lemma drop_while_end_last p l : l <> [] -> p (last l 0) = false -> drop_while_end p l = l.
Proof.
  induction l as [|x l IH]; [congruence|]. intros _ H. destruct l as [|y t].
  - cbn in *. now rewrite H.
  - change (last (x :: y :: t) 0) with (last (y :: t) 0) in H.
    rewrite drop_while_end_cons, IH by (congruence || exact H). reflexivity.
Qed.

(* decomposition: what drop_while / drop_while_end remove, and what the result looks like *)
Lemma drop_while_split p l :
  exists a, l = a ++ drop_while p l /\ forallb p a = true /\
            match drop_while p l with [] => True | b :: _ => p b = false end.
Proof.
  induction l as [|b l (a & E & A & H)]; [exists (@nil N); cbn; auto|]. cbn [drop_while]. destruct (p b) eqn:P.
  - exists (b :: a). cbn [app forallb]. rewrite P, A. rewrite <- E. auto.
  - exists []. cbn. auto.
Qed.
Lemma drop_while_end_split p l :
  exists b, l = drop_while_end p l ++ b /\ forallb p b = true /\
            (drop_while_end p l = [] \/ (drop_while_end p l <> [] /\ p (last (drop_while_end p l) 0) = false)) /\
            match l with [] => True | x :: _ => match drop_while_end p l with [] => True | y :: _ => y = x end end.
Proof.
  induction l as [|x l IH]; [exists (@nil N); cbn; auto|].
  destruct IH as (b & E & B & H & _). rewrite drop_while_end_cons.
  destruct (drop_while_end p l) as [|y r] eqn:D.
  - cbn [app] in E. subst b. destruct (p x) eqn:P.
    + exists (x :: l). cbn [app forallb]. rewrite P, B. auto.
    + exists l. cbn [app]. repeat split; auto. right. split; [discriminate|exact P].
  - exists b. split; [cbn [app] in *; f_equal; exact E|]. split; [exact B|]. split; [|reflexivity].
    right. split; [discriminate|]. destruct H as [H|[_ H]]; [discriminate|]. exact H.
Qed.

Lemma last_forallb (p : N -> bool) l d : l <> [] -> forallb p l = true -> p (last l d) = true.
Proof.
  induction l as [|x l IH]; [congruence|]. intros _ H. cbn [forallb] in H. apply andb_true_iff in H as [H1 H2].
  destruct l; [exact H1|]. apply IH; [discriminate|exact H2].
Qed.

(* a value of the grammar is either empty or has non-blank edges *)
Lemma field_value_edges v :
  is_field_value v = true -> v = [] \/ (exists x r, v = x :: r /\ is_ws x = false /\ is_ws (last v 0) = false).
Proof.
  unfold is_field_value, no_edge_ows. rewrite andb_true_iff. intros [F E]. destruct v as [|x r]; [auto|right].
  apply andb_true_iff in E as [E1 E2]. apply negb_true_iff in E1, E2. exists x, r. split; [reflexivity|].
  split; apply ws_not_ows_fv; auto.
  - cbn [forallb] in F. now apply andb_true_iff in F as [F _].
  - apply last_forallb; [discriminate|exact F].
Qed.

Lemma trim_ws_pad a v b :
  forallb is_ws a = true -> forallb is_ws b = true -> is_field_value v = true -> trim_ws (a ++ v ++ b) = v.
Proof.
  intros A B V. unfold trim_ws. rewrite drop_while_app_all by exact A.
  destruct (field_value_edges v V) as [->|(x & r & -> & X & L)].
  - cbn [app]. now rewrite drop_while_all.
  - change ((x :: r) ++ b) with (x :: (r ++ b)). rewrite drop_while_head by exact X.
    change (x :: r ++ b) with ((x :: r) ++ b). rewrite drop_while_end_app_all by exact B.
    apply drop_while_end_last; [discriminate|exact L].
Qed.

Lemma ows_run_ws a : is_ows_run a = true -> forallb is_ws a = true.
Proof. apply forallb_imp. intros b H. now apply ows_facts in H. Qed.

(* the regex's capture group 2 may include or exclude surrounding SP/HTAB: trim_whitespace absorbs it *)
Lemma trim_ws_drop_ows r : trim_ws (drop_while is_ows r) = trim_ws r.
Proof.
  unfold trim_ws. f_equal. induction r as [|b r IH]; [reflexivity|]. cbn [drop_while].
  destruct (is_ows b) eqn:O.
  - apply ows_facts in O as (_ & _ & W). now rewrite W.
  - reflexivity.
Qed.
Theorem trim_ws_absorbs_ows a g b :
  is_ows_run a = true -> is_ows_run b = true -> trim_ws (a ++ g ++ b) = trim_ws g.
Proof.
  intros A B. apply ows_run_ws in A, B. unfold trim_ws. rewrite drop_while_app_all by exact A.
  destruct (drop_while_split is_ws g) as (a' & Eg & A' & Hd).
  destruct (drop_while is_ws g) as [|x r] eqn:D.
  - rewrite app_nil_r in Eg. subst a'. rewrite drop_while_all; [reflexivity|]. rewrite forallb_app. now rewrite A', B.
  - rewrite Eg at 1. rewrite <- app_assoc, drop_while_app_all by exact A'.
    change ((x :: r) ++ b) with (x :: (r ++ b)). rewrite drop_while_head by exact Hd.
    change (x :: r ++ b) with ((x :: r) ++ b). now apply drop_while_end_app_all.
Qed.

(* what trim_ws returns: the input minus blank pads, with non-blank edges *)
Lemma trim_ws_split r :
  exists a b, r = a ++ trim_ws r ++ b /\ forallb is_ws a = true /\ forallb is_ws b = true /\
              (trim_ws r = [] \/ exists x t, trim_ws r = x :: t /\ is_ws x = false /\ is_ws (last (trim_ws r) 0) = false).
Proof.
  unfold trim_ws. destruct (drop_while_split is_ws r) as (a & Er & A & Hd).
  destruct (drop_while_end_split is_ws (drop_while is_ws r)) as (b & Ed & B & Hl & Hf).
  exists a, b. split; [|split; [exact A|split; [exact B|]]].
  - rewrite <- Ed. exact Er.
  - destruct Hl as [->|[Hne Hl]]; [auto|right].
    destruct (drop_while_end is_ws (drop_while is_ws r)) as [|y t] eqn:D; [congruence|].
    exists y, t. split; [reflexivity|]. split; [|exact Hl].
    destruct (drop_while is_ws r) as [|x r']; [cbn in D; discriminate|]. subst y. exact Hd.
Qed.

Lemma trim_ws_field_value r : forallb is_fv_byte (trim_ws r) = true -> is_field_value (trim_ws r) = true.
Proof.
  intros F. unfold is_field_value. rewrite F. cbn [andb].
  destruct (trim_ws_split r) as (a & b & _ & _ & _ & [->|(x & t & E & X & L)]); [reflexivity|].
  rewrite E in *. unfold no_edge_ows.
  assert (forall c, is_ws c = false -> is_ows c = false) as W.
  { intros c. unfold is_ws, is_ows. rewrite !orb_false_iff. tauto. }
  now rewrite (W _ X), (W _ L).
Qed.

(* ------------------------------------------------------------------ the field-line recogniser *)
Lemma match_header_line_spec line name g :
  match_header_line line = Some (name, g) ->
  exists rest, cut_at 58 line = Some (name, rest) /\ is_token name = true /\ g = drop_while is_ows rest /\
               fieldline_spec line name g.
Proof.
  unfold match_header_line. destruct (cut_at 58 line) as [[n r]|] eqn:C; [|discriminate].
  destruct (is_token n) eqn:T; [|discriminate]. intros [= <- <-]. exists r. repeat split; auto.
  apply cut_at_spec in C as [-> _]. destruct (drop_while_split is_ows r) as (a & E & A & _).
  exists a, []. rewrite app_nil_r. repeat split; auto. now rewrite <- E.
Qed.

(* whichever way the pattern splits the line, the parsed (name, value) is the same *)
Lemma fieldline_value_unique line name g :
  fieldline_spec line name g ->
  exists g0, match_header_line line = Some (name, g0) /\ trim_ws g0 = trim_ws g.
Proof.
  intros (a & b & -> & T & A & B). unfold match_header_line.
  rewrite (cut_at_app 58 name) by (apply token_ne; auto). rewrite T. eexists; split; [reflexivity|].
  rewrite trim_ws_drop_ows. now apply trim_ws_absorbs_ows.
Qed.

Section Grammar.
Variable url_parse : bytes -> option (bytes * option bytes).
Notation prl := (parse_request_line url_parse).

(* ---- rendering, then parsing *)
Lemma prl_render m t p q :
  is_token m = true -> nonblank_run t = true -> starts_with [47] t = true -> url_parse t = Some (p, q) ->
  prl (render_request_line m t) = Ok (m, t, p, q).
Proof.
  intros Hm Ht Hs Hu. unfold parse_request_line, render_request_line.
  assert (M : match_request_line (m ++ 32 :: t ++ 32 :: http11) = Some (m, t, http11)).
  { apply match_request_line_iff. unfold reqline_spec. auto using http11_nonblank. }
  rewrite M, (token_ascii _ Hm), Hs, Hu, beq_refl. reflexivity.
Qed.

Lemma phl_render f1 f2 f : field_ok f = true -> parse_header_line f1 f2 (render_field f) = Ok (field_pair f).
Proof.
  unfold field_ok. rewrite !andb_true_iff. intros [[[T A] V] B].
  unfold parse_header_line, match_header_line, render_field.
  rewrite (cut_at_app 58 (f_name f)) by (apply token_ne; auto). rewrite T, (token_ascii _ T). cbn [negb].
  rewrite trim_ws_drop_ows, trim_ws_pad by (auto using ows_run_ws).
  assert (F : forallb is_fv_byte (f_value f) = true) by (unfold is_field_value in V; now apply andb_true_iff in V as [V _]).
  rewrite F, (fv_ascii _ F). cbn [negb]. rewrite andb_false_r. reflexivity.
Qed.

Lemma phls_render f1 f2 fs :
  forallb field_ok fs = true -> parse_header_lines f1 f2 (map render_field fs) = Ok (map field_pair fs).
Proof.
  induction fs as [|f fs IH]; [reflexivity|]. cbn [forallb map parse_header_lines]. intros H.
  apply andb_true_iff in H as [H1 H2]. now rewrite phl_render, IH.
Qed.

(* bytes without CR / LF *)
Definition nocrlf (l : bytes) : bool := forallb (ne 13) l && forallb (ne 10) l.
Lemma nocrlf_app a b : nocrlf (a ++ b) = nocrlf a && nocrlf b.
Proof. unfold nocrlf. rewrite !forallb_app. destruct (forallb (ne 13) a), (forallb (ne 10) a), (forallb (ne 13) b); reflexivity. Qed.
Lemma nocrlf_cons x l : nocrlf (x :: l) = ne 13 x && ne 10 x && nocrlf l.
Proof. unfold nocrlf. cbn [forallb]. destruct (ne 13 x), (ne 10 x), (forallb (ne 13) l); reflexivity. Qed.
Lemma token_nocrlf s : is_token s = true -> nocrlf s = true.
Proof. intros H. unfold nocrlf. now rewrite !token_ne by auto. Qed.
Lemma nonblank_nocrlf s : nonblank_run s = true -> nocrlf s = true.
Proof. intros H. unfold nocrlf. now rewrite !nonblank_ne by auto. Qed.
Lemma ows_nocrlf s : is_ows_run s = true -> nocrlf s = true.
Proof.
  intros H. unfold nocrlf. apply andb_true_iff; split; revert H; apply forallb_imp; intros b Hb;
    apply ows_facts in Hb; unfold ne; apply negb_true_iff, N.eqb_neq; tauto.
Qed.
Lemma fv_nocrlf s : forallb is_fv_byte s = true -> nocrlf s = true.
Proof.
  intros H. unfold nocrlf. apply andb_true_iff; split; revert H; apply forallb_imp; intros b Hb;
    apply fv_byte_facts in Hb; unfold ne; apply negb_true_iff, N.eqb_neq; tauto.
Qed.
Lemma reqline_nocrlf m t : is_token m = true -> nonblank_run t = true -> nocrlf (render_request_line m t) = true.
Proof.
  intros Hm Ht. unfold render_request_line. rewrite nocrlf_app, nocrlf_cons, nocrlf_app, nocrlf_cons.
  rewrite (token_nocrlf _ Hm), (nonblank_nocrlf _ Ht), (nonblank_nocrlf _ http11_nonblank). reflexivity.
Qed.
Lemma field_nocrlf f : field_ok f = true -> nocrlf (render_field f) = true.
Proof.
  unfold field_ok. rewrite !andb_true_iff. intros [[[T A] V] B]. unfold render_field.
  unfold is_field_value in V. apply andb_true_iff in V as [V _].
  rewrite nocrlf_app, nocrlf_cons, !nocrlf_app, (token_nocrlf _ T), (ows_nocrlf _ A), (ows_nocrlf _ B), (fv_nocrlf _ V). reflexivity.
Qed.
Lemma field_first f : field_ok f = true -> exists c r, render_field f = c :: r /\ c <> 13.
Proof.
  unfold field_ok. rewrite !andb_true_iff. intros [[[T _] _] _]. unfold render_field.
  apply token_parts in T as [Hne T]. destruct (f_name f) as [|c r]; [congruence|].
  exists c. eexists. split; [reflexivity|]. cbn [forallb] in T. apply andb_true_iff in T as [T _].
  apply tchar_facts in T. tauto.
Qed.

(* splitting the rendered head into lines *)
Lemma split_on_nolf l y : forallb (ne 10) l = true -> split_on 10 (l ++ 10 :: y) = l :: split_on 10 y.
Proof.
  induction l as [|b l IH]; cbn [app split_on forallb]; intros H.
  - now rewrite N.eqb_refl.
  - apply andb_true_iff in H as [H1 H2]. unfold ne in H1. apply negb_true_iff in H1. rewrite H1, IH by exact H2. reflexivity.
Qed.
Lemma split_on_nolf_end l : forallb (ne 10) l = true -> split_on 10 l = [l].
Proof.
  induction l as [|b l IH]; cbn [split_on forallb]; intros H; [reflexivity|].
  apply andb_true_iff in H as [H1 H2]. unfold ne in H1. apply negb_true_iff in H1. rewrite H1, IH by exact H2. reflexivity.
Qed.
Lemma trim_cr_snoc l : trim_trailing_cr (l ++ [13]) = l.
Proof.
  induction l as [|x l IH]; [reflexivity|]. cbn [app]. destruct (l ++ [13]) as [|y t] eqn:E; [now destruct l|].
  rewrite trim_cr_cons2. now rewrite IH.
Qed.
Lemma trim_cr_id l : forallb (ne 13) l = true -> trim_trailing_cr l = l.
Proof.
  induction l as [|x l IH]; [reflexivity|]. cbn [forallb]. intros H. apply andb_true_iff in H as [H1 H2].
  destruct l as [|y t].
  - cbn. unfold ne in H1. apply negb_true_iff in H1. now rewrite H1.
  - rewrite trim_cr_cons2. now rewrite IH.
Qed.

Lemma lines_render l fs :
  nocrlf l = true -> forallb field_ok fs = true ->
  map trim_trailing_cr (split_on 10 (l ++ concat (map (fun f => 13 :: 10 :: render_field f) fs)))
  = l :: map render_field fs.
Proof.
  revert l; induction fs as [|f fs IH]; intros l Hl Hfs.
  - cbn [map concat]. rewrite app_nil_r. unfold nocrlf in Hl. apply andb_true_iff in Hl as [H13 H10].
    rewrite split_on_nolf_end by exact H10. cbn [map]. now rewrite trim_cr_id.
  - cbn [forallb] in Hfs. apply andb_true_iff in Hfs as [Hf Hfs]. cbn [map concat].
    change (l ++ (13 :: 10 :: render_field f) ++ concat (map (fun f0 => 13 :: 10 :: render_field f0) fs))
      with (l ++ [13] ++ 10 :: (render_field f ++ concat (map (fun f0 => 13 :: 10 :: render_field f0) fs))).
    rewrite app_assoc. unfold nocrlf in Hl. apply andb_true_iff in Hl as [H13 H10].
    rewrite split_on_nolf by (rewrite forallb_app, H10; reflexivity).
    cbn [map]. rewrite trim_cr_snoc. f_equal. apply IH; [now apply field_nocrlf|exact Hfs].
Qed.

(* finding the terminator of the rendered head *)
Lemma find_skip_nocr l x :
  forallb (ne 13) l = true ->
  find_slice crlf2 (l ++ x) = match find_slice crlf2 x with Some k => Some (length l + k)%nat | None => None end.
Proof.
  induction l as [|b l IH]; intros H.
  - cbn [app length]. now destruct (find_slice crlf2 x).
  - cbn [forallb] in H. apply andb_true_iff in H as [H1 H2]. cbn [app]. rewrite find_slice_unfold.
    unfold crlf2 at 1. cbn [starts_with]. unfold ne in H1. apply negb_true_iff in H1. rewrite N.eqb_sym, H1. cbn [andb].
    rewrite IH by exact H2. now destruct (find_slice crlf2 x).
Qed.
Lemma find_skip_crlf c y :
  c <> 13 ->
  find_slice crlf2 (13 :: 10 :: c :: y) = match find_slice crlf2 (c :: y) with Some k => Some (2 + k)%nat | None => None end.
Proof.
  intros H. rewrite find_slice_unfold. unfold crlf2 at 1. cbn [starts_with].
  rewrite !N.eqb_refl. cbn [andb]. replace (13 =? c) with false by (symmetry; apply N.eqb_neq; congruence). cbn [andb].
  rewrite (find_slice_unfold crlf2 (10 :: c :: y)). unfold crlf2 at 1. cbn [starts_with].
  replace (13 =? 10) with false by reflexivity. cbn [andb]. now destruct (find_slice crlf2 (c :: y)).
Qed.
Lemma find_fields fs rest :
  forallb field_ok fs = true ->
  find_slice crlf2 (concat (map (fun f => 13 :: 10 :: render_field f) fs) ++ crlf2 ++ rest)
  = Some (length (concat (map (fun f => 13 :: 10 :: render_field f) fs))).
Proof.
  induction fs as [|f fs IH]; intros H.
  - cbn [map concat app length]. rewrite find_slice_unfold, starts_with_app. reflexivity.
  - cbn [forallb] in H. apply andb_true_iff in H as [Hf Hfs]. cbn [map concat].
    destruct (field_first f Hf) as (c & r & E & Hc).
    pose proof (field_nocrlf f Hf) as N. unfold nocrlf in N. apply andb_true_iff in N as [N _].
    rewrite <- app_assoc. change ((13 :: 10 :: render_field f) ++ ?z) with (13 :: 10 :: (render_field f ++ z)).
    rewrite E. change ((c :: r) ++ ?z) with (c :: (r ++ z)). rewrite find_skip_crlf by exact Hc.
    change (c :: (r ++ ?z)) with ((c :: r) ++ z). rewrite <- E.
    rewrite find_skip_nocr by exact N. rewrite IH by exact Hfs.
    f_equal. cbn [length]. rewrite app_length. lia.
Qed.
Lemma find_render m t fs rest :
  is_token m = true -> nonblank_run t = true -> forallb field_ok fs = true ->
  find_slice crlf2 (render_head m t fs ++ crlf2 ++ rest) = Some (length (render_head m t fs)).
Proof.
  intros Hm Ht Hfs. unfold render_head. rewrite <- app_assoc.
  pose proof (reqline_nocrlf m t Hm Ht) as N. unfold nocrlf in N. apply andb_true_iff in N as [N _].
  rewrite find_skip_nocr by exact N. rewrite find_fields by exact Hfs. now rewrite app_length.
Qed.

(* the core of the round trip: no canonicity needed, only what the parser itself checks *)
Theorem try_read_render f1 f2 rd m t p q fs rest :
  is_token m = true -> nonblank_run t = true -> starts_with [47] t = true -> url_parse t = Some (p, q) ->
  forallb field_ok fs = true ->
  exists b', try_read_gen url_parse f1 f2 (mk_fbuf rd (render_head m t fs ++ crlf2 ++ rest))
             = (Ok (mk_head m t p q (map field_pair fs)), b') /\ fb_data b' = rest.
Proof.
  intros Hm Ht Hs Hu Hfs.
  pose proof (find_render m t fs rest Hm Ht Hfs) as F.
  destruct (try_read_some url_parse f1 f2 (mk_fbuf rd (render_head m t fs ++ crlf2 ++ rest)) _ F) as (b' & E & D & _).
  cbn [fb_data] in *. exists b'. split.
  - rewrite E. f_equal. rewrite firstn_app, Nat.sub_diag, firstn_all. cbn [firstn]. rewrite app_nil_r.
    unfold parse_head_gen, render_head.
    rewrite lines_render by (auto using reqline_nocrlf).
    rewrite (prl_render m t p q Hm Ht Hs Hu), phls_render by assumption. reflexivity.
  - rewrite D. rewrite skipn_app.
    replace (length (render_head m t fs) + 4 - length (render_head m t fs))%nat with 4%nat by lia.
    rewrite skipn_all2 by lia. cbn [app]. reflexivity.
Qed.
End Grammar.

(* ------------------------------------------------------------------ canonical targets *)
Lemma pct_scan_nonblank ok need l :
  (forall b, ok b = true -> is_nonblank b = true) -> pct_scan ok need l = true -> forallb is_nonblank l = true.
Proof.
  intros Hok. revert need; induction l as [|b l IH]; intros need; [reflexivity|]. cbn [pct_scan forallb].
  destruct need as [|k].
  - destruct (b =? 37) eqn:E.
    + apply N.eqb_eq in E. subst b. intros H. rewrite (IH _ H). reflexivity.
    + rewrite andb_true_iff. intros [H1 H2]. now rewrite (Hok _ H1), (IH _ H2).
  - rewrite andb_true_iff. intros [H1 H2]. rewrite (IH _ H2), andb_true_r.
    revert H1. unfold is_hex, is_digit, in_range, is_nonblank, is_ws.
    rewrite !orb_true_iff, !andb_true_iff, !N.leb_le, negb_true_iff, !orb_false_iff, !N.eqb_neq. lia.
Qed.
Lemma pchar_plain_nonblank b : is_pchar_plain b = true -> is_nonblank b = true.
Proof.
  unfold is_pchar_plain, is_unreserved, is_sub_delim, is_alpha, is_upper, is_lower, is_digit, in_range, is_nonblank, is_ws.
  rewrite !orb_true_iff, !andb_true_iff, !N.leb_le, !N.eqb_eq, negb_true_iff, !orb_false_iff, !N.eqb_neq. lia.
Qed.
Lemma path_byte_nonblank b : path_byte b = true -> is_nonblank b = true.
Proof.
  unfold path_byte. rewrite orb_true_iff. intros [H|H]; [now apply pchar_plain_nonblank|].
  apply N.eqb_eq in H. subst. reflexivity.
Qed.
Lemma query_byte_nonblank b : query_byte b = true -> is_nonblank b = true.
Proof.
  unfold query_byte. rewrite andb_true_iff, !orb_true_iff. intros [[[H|H]|H] _]; [now apply pchar_plain_nonblank| |];
    apply N.eqb_eq in H; subst; reflexivity.
Qed.
Lemma path_query_split t :
  t = path_of t ++ match query_of t with Some q => 63 :: q | None => [] end.
Proof.
  induction t as [|b t IH]; [reflexivity|]. cbn [path_of query_of]. destruct (b =? 63) eqn:E.
  - apply N.eqb_eq in E. now subst.
  - cbn [app]. now rewrite <- IH.
Qed.
Lemma canonical_nonblank t : canonical_target t = true -> nonblank_run t = true /\ starts_with [47] t = true.
Proof.
  unfold canonical_target. rewrite !andb_true_iff. intros [[[[S _] P] _] Q]. split; [|exact S].
  assert (F : forallb is_nonblank t = true).
  { rewrite (path_query_split t), forallb_app. unfold pct_run in *.
    rewrite (pct_scan_nonblank _ _ _ path_byte_nonblank P). cbn [andb].
    destruct (query_of t) as [q|]; [|reflexivity]. cbn [forallb].
    now rewrite (pct_scan_nonblank _ _ _ query_byte_nonblank Q). }
  destruct t; [discriminate|exact F].
Qed.
