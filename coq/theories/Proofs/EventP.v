(* Proofs/EventP.v -- proofs about Model/Event.v against Spec/Sse.v (C11). *)
From SV Require Import Base.Bytes Base.BytesP Spec.Sse Model.Event.
From Coq Require Import ZArith.
Ltac Zify.zify_post_hook ::= Z.div_mod_to_equations.

(* ============================================================================================
   Part 1: one event block against the event-stream parser
   ============================================================================================ *)

Lemma frev_rev {A} (l : list A) : frev l = rev l.
Proof. unfold frev. symmetry. apply rev_alt. Qed.

Lemma no_crlf_cons c l : no_crlf (c :: l) = true <-> (c <> 13 /\ c <> 10 /\ no_crlf l = true).
Proof.
  unfold no_crlf. cbn [forallb]. rewrite andb_true_iff, negb_true_iff, orb_false_iff, !N.eqb_neq. tauto.
Qed.

Lemma data_lines_nonempty s : data_lines s <> [].
Proof.
  induction s as [|c t IH]; cbn [data_lines]; [discriminate|].
  destruct (c =? 10); [discriminate|]. destruct (c =? 13).
  - destruct t as [|d t']; [discriminate|]. destruct d as [|p]; try discriminate.
    do 4 (destruct p as [p|p|]; try discriminate).
  - destruct (data_lines t); discriminate.
Qed.

Lemma data_lines_no_crlf s : Forall (fun l => no_crlf l = true) (data_lines s).
Proof.
  assert (H : forall n s, (length s <= n)%nat -> Forall (fun l => no_crlf l = true) (data_lines s)).
  { induction n as [|n IH]; intros s0 Hl.
    - destruct s0; [|cbn in Hl; lia]. cbn. constructor; [reflexivity|constructor].
    - destruct s0 as [|c t]; [cbn; constructor; [reflexivity|constructor]|].
      cbn in Hl. cbn [data_lines].
      destruct (c =? 10) eqn:E10; [constructor; [reflexivity|apply IH; lia]|].
      destruct (c =? 13) eqn:E13.
      + assert (forall t', (length t' <= n)%nat -> Forall (fun l => no_crlf l = true) ([] :: data_lines t')) as K
          by (intros; constructor; [reflexivity|apply IH; assumption]).
        destruct t as [|d t']; [apply K; cbn; lia|].
        destruct d as [|p]; [apply K; cbn in *; lia|].
        do 4 (destruct p as [p|p|]; try (apply K; cbn in *; lia)).
      + pose proof (IH t ltac:(lia)) as F. pose proof (data_lines_nonempty t) as NE.
        destruct (data_lines t) as [|h r]; [congruence|].
        inversion F; subst. constructor; [|assumption].
        apply no_crlf_cons. apply N.eqb_neq in E10, E13. auto. }
  apply (H (length s)). lia.
Qed.

(* CR-free data is recovered exactly; data with CR comes back newline-normalised *)
Lemma join_lf_cons_line c h r : join_lf ((c :: h) :: r) = c :: join_lf (h :: r).
Proof. destruct r; reflexivity. Qed.

Lemma normalize_no_cr d : no_cr d = true -> normalize_data d = d.
Proof.
  unfold normalize_data. induction d as [|c t IH]; [reflexivity|].
  unfold no_cr. cbn [forallb]. rewrite andb_true_iff, negb_true_iff. intros [Hc Ht].
  cbn [data_lines]. rewrite Hc. destruct (c =? 10) eqn:E10.
  - apply N.eqb_eq in E10. subst c. pose proof (data_lines_nonempty t) as NE.
    destruct (data_lines t) as [|h r] eqn:E; [congruence|].
    change (join_lf ([] :: h :: r)) with (10 :: join_lf (h :: r)). f_equal. apply IH, Ht.
  - pose proof (data_lines_nonempty t) as NE. destruct (data_lines t) as [|h r] eqn:E; [congruence|].
    rewrite join_lf_cons_line. f_equal. apply IH, Ht.
Qed.

Lemma sse_lines_aux_line l : forall cur rest,
  no_crlf l = true ->
  sse_lines_aux cur false (l ++ 10 :: rest) = (rev cur ++ l) :: sse_lines_aux [] false rest.
Proof.
  induction l as [|c l IH]; intros cur rest H.
  - cbn [app sse_lines_aux]. rewrite N.eqb_refl, app_nil_r, frev_rev. reflexivity.
  - apply no_crlf_cons in H as (H13 & H10 & Hl). cbn [app sse_lines_aux].
    apply N.eqb_neq in H13, H10. rewrite H10, H13. rewrite IH by assumption.
    cbn [rev]. rewrite <- app_assoc. reflexivity.
Qed.

Lemma t_data_line l rest :
  no_crlf l = true ->
  sse_lines_aux [] false ((t_data ++ l ++ [10]) ++ rest) = (t_data ++ l) :: sse_lines_aux [] false rest.
Proof.
  intros H. rewrite <- !app_assoc. cbn [app].
  rewrite (app_assoc t_data l (10 :: rest)). rewrite sse_lines_aux_line; [reflexivity|].
  unfold no_crlf in *. rewrite forallb_app, H. reflexivity.
Qed.

Lemma data_block_lines ls rest :
  Forall (fun l => no_crlf l = true) ls ->
  sse_lines_aux [] false (concat (map (fun l => t_data ++ l ++ [10]) ls) ++ rest) =
  map (fun l => t_data ++ l) ls ++ sse_lines_aux [] false rest.
Proof.
  induction 1 as [|l ls Hl Hls IH]; [reflexivity|].
  cbn [map concat]. rewrite <- app_assoc. rewrite t_data_line by assumption. cbn [app]. now rewrite IH.
Qed.

Definition block_lines (e : event) : list bytes :=
  (match e with Message _ => [] | Custom t _ => [t_event ++ t] end) ++
  map (fun l => t_data ++ l) (data_lines (ev_data e)) ++ [[]].

Lemma lines_block e rest :
  ev_wf e = true ->
  sse_lines_aux [] false (encode_event e ++ 10 :: rest) = block_lines e ++ sse_lines_aux [] false rest.
Proof.
  intros W. unfold encode_event, encode_gen, block_lines, lines_of.
  assert (D : forall d, sse_lines_aux [] false
             (concat (map (fun l => t_data ++ l ++ [10]) (data_lines d)) ++ 10 :: rest) =
             (map (fun l => t_data ++ l) (data_lines d) ++ [[]]) ++ sse_lines_aux [] false rest).
  { intros d. rewrite data_block_lines by apply data_lines_no_crlf.
    cbn [sse_lines_aux]. rewrite N.eqb_refl, frev_rev. cbn [rev]. rewrite <- app_assoc. reflexivity. }
  destruct e as [d|t d]; cbn [ev_data ev_type] in *.
  - cbn [app]. apply D.
  - unfold ev_wf in W. cbn [ev_type] in W. rewrite <- !app_assoc. cbn [app].
    rewrite (app_assoc t_event t). rewrite sse_lines_aux_line.
    + rewrite D. cbn [rev app]. rewrite <- !app_assoc. reflexivity.
    + unfold no_crlf in *. rewrite forallb_app, W. reflexivity.
Qed.

Lemma classify_data l : classify_line (t_data ++ l) = LField f_data l.
Proof. reflexivity. Qed.
Lemma classify_event t : classify_line (t_event ++ t) = LField f_event t.
Proof. reflexivity. Qed.

Definition fields_of (e : event) : list (bytes * bytes) :=
  (match e with Message _ => [] | Custom t _ => [(f_event, t)] end) ++
  map (fun l => (f_data, l)) (data_lines (ev_data e)).

Lemma run_data_lines ls : forall st,
  fold_left sse_step (map (fun l => t_data ++ l) ls) st =
  mk_sse (s_data st ++ concat (map (fun l => l ++ [10]) ls)) (s_type st) (s_out st)
         (s_fields st ++ map (fun l => (f_data, l)) ls).
Proof.
  induction ls as [|l ls IH]; intros st.
  - cbn. rewrite !app_nil_r. destruct st; reflexivity.
  - cbn [map fold_left]. unfold sse_step at 2. rewrite classify_data.
    change (beq f_data f_event) with false. change (beq f_data f_data) with true. cbn iota.
    rewrite IH. cbn [s_data s_type s_out s_fields concat map]. rewrite <- !app_assoc. reflexivity.
Qed.

Lemma strip_last_lf_join ls :
  ls <> [] -> strip_last_lf (concat (map (fun l => l ++ [10]) ls)) = join_lf ls.
Proof.
  intros NE. unfold strip_last_lf.
  assert (H : forall ls, ls <> [] -> concat (map (fun l => l ++ [10]) ls) = join_lf ls ++ [10]).
  { clear. induction ls as [|l r IH]; [congruence|]. intros _. destruct r as [|l2 r'].
    - cbn. now rewrite app_nil_r.
    - change (concat (map (fun l0 => l0 ++ [10]) (l :: l2 :: r'))) with
        ((l ++ [10]) ++ concat (map (fun l0 => l0 ++ [10]) (l2 :: r'))).
      rewrite IH by discriminate.
      change (join_lf (l :: l2 :: r')) with (l ++ 10 :: join_lf (l2 :: r')).
      rewrite <- !app_assoc. reflexivity. }
  rewrite (H ls NE). rewrite frev_rev, rev_app_distr. cbn [rev app]. now rewrite frev_rev, rev_involutive.
Qed.

Lemma data_buffer_nonempty ls : ls <> [] -> concat (map (fun l => l ++ [10]) ls) <> [].
Proof. destruct ls as [|l r]; [congruence|]. intros _. cbn. destruct l; discriminate. Qed.

Lemma run_block e st :
  s_data st = [] -> s_type st = [] ->
  fold_left sse_step (block_lines e) st =
  mk_sse [] [] (s_out st ++ [expected_of e]) (s_fields st ++ fields_of e).
Proof.
  intros D T. unfold block_lines, fields_of, expected_of, normalize_data.
  pose proof (data_lines_nonempty (ev_data e)) as NE.
  destruct e as [d|t d]; cbn [ev_data ev_type app] in *.
  - rewrite fold_left_app, run_data_lines. cbn [fold_left]. unfold sse_step.
    cbn [classify_line s_data s_type s_out s_fields]. rewrite D, T. cbn [app].
    pose proof (data_buffer_nonempty _ NE) as NB.
    destruct (concat (map (fun l => l ++ [10]) (data_lines d))) eqn:E; [congruence|].
    rewrite <- E, strip_last_lf_join by assumption. reflexivity.
  - cbn [fold_left]. unfold sse_step at 2. rewrite classify_event.
    change (beq f_event f_event) with true. cbn iota.
    rewrite fold_left_app, run_data_lines. cbn [fold_left]. unfold sse_step.
    cbn [classify_line s_data s_type s_out s_fields]. rewrite D. cbn [app].
    pose proof (data_buffer_nonempty _ NE) as NB.
    destruct (concat (map (fun l => l ++ [10]) (data_lines d))) eqn:E; [congruence|].
    rewrite <- E, strip_last_lf_join by assumption. rewrite <- app_assoc. reflexivity.
Qed.

(* a stream of blocks, each followed by the dispatch line *)
Lemma run_blocks es : forall st,
  Forall (fun e => ev_wf e = true) es -> s_data st = [] -> s_type st = [] ->
  fold_left sse_step (sse_lines_aux [] false (stream_supplied (map encode_event es))) st =
  mk_sse [] [] (s_out st ++ map expected_of es) (s_fields st ++ concat (map fields_of es)).
Proof.
  induction es as [|e es IH]; intros st W D T.
  - cbn. rewrite !app_nil_r. destruct st; cbn in *; subst; reflexivity.
  - inversion W; subst. unfold stream_supplied. cbn [map concat]. rewrite <- app_assoc. cbn [app].
    rewrite lines_block by assumption. rewrite fold_left_app, run_block by assumption.
    fold (stream_supplied (map encode_event es)). rewrite IH by (auto; reflexivity).
    cbn [s_out s_fields map concat]. rewrite <- !app_assoc. reflexivity.
Qed.

Lemma parse_blocks es :
  Forall (fun e => ev_wf e = true) es ->
  sse_parse (stream_supplied (map encode_event es)) = map expected_of es /\
  sse_fields (stream_supplied (map encode_event es)) = concat (map fields_of es).
Proof.
  intros W. unfold sse_parse, sse_fields, sse_run, sse_lines.
  rewrite run_blocks by (auto; reflexivity). cbn. auto.
Qed.

Lemma block_parses_back_l e :
  ev_wf e = true ->
  sse_parse (encode_event e ++ [10]) = [(ev_type e, normalize_data (ev_data e))] /\
  (no_cr (ev_data e) = true -> sse_parse (encode_event e ++ [10]) = [(ev_type e, ev_data e)]).
Proof.
  intros W. pose proof (parse_blocks [e] (Forall_cons _ W (Forall_nil _))) as [P _].
  unfold stream_supplied in P. cbn [map concat] in P. rewrite app_nil_r in P.
  split; [exact P|]. intros NC. rewrite P. unfold expected_of. now rewrite normalize_no_cr.
Qed.

Lemma no_injection_l e :
  ev_wf e = true ->
  sse_fields (encode_event e ++ [10]) = fields_of e /\
  Forall (fun f => (fst f = f_event /\ snd f = ev_type e) \/ (fst f = f_data /\ no_crlf (snd f) = true /\ In (snd f) (data_lines (ev_data e))))
         (fields_of e).
Proof.
  intros W. pose proof (parse_blocks [e] (Forall_cons _ W (Forall_nil _))) as [_ P].
  unfold stream_supplied in P. cbn [map concat] in P. rewrite !app_nil_r in P.
  split; [exact P|]. unfold fields_of. apply Forall_app. split.
  - destruct e; constructor; [left; auto|constructor].
  - apply Forall_forall. intros f Hf. apply in_map_iff in Hf as (l & <- & Hl). right. cbn.
    repeat split; auto. exact (proj1 (Forall_forall _ _) (data_lines_no_crlf _) l Hl).
Qed.

Lemma encode_never_empty_l e : encode_event e <> [].
Proof.
  unfold encode_event, encode_gen, lines_of. destruct e as [d|t d]; cbn [ev_data app].
  - pose proof (data_lines_nonempty d). destruct (data_lines d); [congruence|]. discriminate.
  - discriminate.
Qed.

(* the raw block (no blank line): nothing is dispatched, but the same fields are seen *)
Lemma raw_block_dispatches_nothing e :
  ev_wf e = true -> sse_parse (encode_event e) = [] /\ sse_fields (encode_event e) = fields_of e.
Proof.
  intros W. unfold sse_parse, sse_fields, sse_run, sse_lines, encode_event, encode_gen, lines_of, fields_of.
  assert (D : forall d st, fold_left sse_step (sse_lines_aux [] false (concat (map (fun l => t_data ++ l ++ [10]) (data_lines d)))) st =
            mk_sse (s_data st ++ concat (map (fun l => l ++ [10]) (data_lines d))) (s_type st) (s_out st)
                   (s_fields st ++ map (fun l => (f_data, l)) (data_lines d))).
  { intros d st. rewrite <- (app_nil_r (concat _)). rewrite data_block_lines by apply data_lines_no_crlf.
    cbn [sse_lines_aux]. rewrite app_nil_r. apply run_data_lines. }
  destruct e as [d|t d]; cbn [ev_data ev_type app] in *.
  - rewrite D. cbn. auto.
  - unfold ev_wf in W. cbn [ev_type] in W. rewrite <- !app_assoc. cbn [app].
    rewrite (app_assoc t_event t), sse_lines_aux_line by (unfold no_crlf in *; rewrite forallb_app, W; reflexivity).
    change (rev [] ++ t_event ++ t) with (t_event ++ t). cbn [fold_left]. rewrite D.
    unfold sse_step. rewrite classify_event. change (beq f_event f_event) with true. cbn iota.
    cbn [s_out s_fields sse_init app]. auto.
Qed.

(* ============================================================================================
   Part 2: the channel, its senders and the writer -- invariants over all action lists
   ============================================================================================ *)

Definition nolive (hs : list handle) : Prop := Forall (fun h => h_conn h = false) hs.

Lemma nolive_iff hs : length (filter h_conn hs) = O <-> nolive hs.
Proof.
  unfold nolive. induction hs as [|h r IH]; cbn [filter].
  - split; [constructor|reflexivity].
  - destruct (h_conn h) eqn:E; cbn [length].
    + split; [discriminate|]. intros F. inversion F; congruence.
    + rewrite IH. split; [intros; constructor; assumption|intros F; inversion F; assumption].
Qed.

Lemma find_h_in i hs h : find_h i hs = Some h -> In h hs /\ h_id h = i.
Proof.
  induction hs as [|x r IH]; cbn; [discriminate|]. destruct (Nat.eqb (h_id x) i) eqn:E.
  - intros [= ->]. apply Nat.eqb_eq in E. auto.
  - intros H. destruct (IH H). auto.
Qed.

Lemma nolive_set i hs : nolive hs -> nolive (set_h i false hs).
Proof.
  unfold nolive. induction hs as [|x r IH]; cbn; [auto|]. intros F. inversion F; subst.
  destruct (Nat.eqb (h_id x) i); constructor; auto.
Qed.
Lemma nolive_del i hs : nolive hs -> nolive (del_h i hs).
Proof.
  unfold nolive. induction hs as [|x r IH]; cbn; [auto|]. intros F. inversion F; subst.
  destruct (Nat.eqb (h_id x) i); [assumption|constructor; auto].
Qed.

Definition CInv (fixed : bool) (cap : nat) (s : cst) : Prop :=
  wire s = map (encode_gen fixed) (delivered s) /\
  (wst s = WActive -> recv_alive s = true /\ accepted s = delivered s ++ queue s) /\
  (wst s <> WActive -> recv_alive s = false) /\
  (exists rest, accepted s = delivered s ++ rest) /\
  (length (queue s) <= queue_cap)%nat /\
  (fixed = true -> wst s = WTerminated -> nolive (handles s) /\ accepted s = delivered s /\ queue s = []) /\
  Forall (fun p => p <> [] /\ (length p <= cap)%nat) (wire s).

Lemma cinv_init fixed cap : CInv fixed cap cinit.
Proof.
  unfold CInv, cinit; cbn.
  split; [reflexivity|]. split; [auto|]. split; [congruence|]. split; [exists []; reflexivity|].
  split; [unfold queue_cap; lia|]. split; [discriminate|constructor].
Qed.

Lemma cinv_handles fixed cap s hs :
  CInv fixed cap s -> (nolive (handles s) -> nolive hs) -> CInv fixed cap (set_handles s hs).
Proof.
  intros (I1&I2&I3&I4&I5&I6&I7) N. unfold CInv, set_handles; cbn.
  split; [exact I1|]. split; [exact I2|]. split; [exact I3|]. split; [exact I4|]. split; [exact I5|].
  split; [|exact I7]. intros Fx T. destruct (I6 Fx T) as (A&B&C). auto.
Qed.

Ltac cinv_split := unfold CInv; cbn;
  split; [|split; [|split; [|split; [|split; [|split]]]]].

Lemma cinv_step fixed cap s a s' : CInv fixed cap s -> cstep fixed cap s a = Some s' -> CInv fixed cap s'.
Proof.
  intros I Hs. destruct a; cbn [cstep] in Hs.
  - (* Send *)
    destruct (find_h i (handles s)) as [h|] eqn:F; [|discriminate].
    destruct (h_conn h) eqn:C; [|injection Hs as <-; exact I].
    destruct (recv_alive s && (length (queue s) <? queue_cap)%nat) eqn:G; injection Hs as <-.
    + apply andb_true_iff in G as [G1 G2]. apply Nat.ltb_lt in G2.
      destruct I as (I1&I2&I3&I4&I5&I6&I7).
      assert (A : wst s = WActive).
      { destruct (wst s) eqn:W; auto; rewrite I3 in G1 by discriminate; discriminate. }
      destruct (I2 A) as [RA Acc].
      cinv_split.
      * exact I1.
      * intros _. split; [exact RA|]. rewrite Acc, app_assoc. reflexivity.
      * exact I3.
      * exists (queue s ++ [e]). rewrite Acc, app_assoc. reflexivity.
      * rewrite app_length. cbn. unfold queue_cap in *. lia.
      * intros Fx T. rewrite A in T. discriminate.
      * exact I7.
    + apply cinv_handles; [exact I|]. apply nolive_set.
  - (* Clone *)
    destruct (find_h i (handles s)) as [h|] eqn:F; [|discriminate]. injection Hs as <-.
    destruct I as (I1&I2&I3&I4&I5&I6&I7). cinv_split; auto.
    intros Fx T. destruct (I6 Fx T) as (N&A&Q). split; [|auto].
    unfold nolive in *. apply Forall_app. split; [assumption|].
    constructor; [|constructor]. cbn. destruct (find_h_in _ _ _ F) as [Hin _].
    exact (proj1 (Forall_forall _ _) N h Hin).
  - (* Disconnect *)
    destruct (find_h i (handles s)); [|discriminate]. injection Hs as <-.
    apply cinv_handles; [exact I|]. apply nolive_set.
  - (* DropSender *)
    destruct (find_h i (handles s)); [|discriminate]. injection Hs as <-.
    apply cinv_handles; [exact I|]. apply nolive_del.
  - (* WriterPoll *)
    destruct (wst s) eqn:W; try (injection Hs as <-; exact I).
    pose proof I as I0. destruct I as (I1&I2&I3&I4&I5&I6&I7).
    destruct (I2 W) as [RA Acc].
    destruct (queue s) as [|e q] eqn:Q.
    + destruct (Nat.eqb (live_senders s) 0) eqn:L.
      * apply Nat.eqb_eq in L. apply nolive_iff in L.
        destruct (client_gone s); injection Hs as <-; unfold finish; cinv_split; auto;
          try discriminate; try (unfold queue_cap; lia); try (intros _; reflexivity).
        intros _ _. rewrite Acc, app_nil_r. auto.
      * injection Hs as <-. exact I0.
    + assert (Hq : (length q <= queue_cap)%nat) by (cbn in I5; lia).
      assert (Hrest : exists rest, accepted s = delivered s ++ rest) by (exists (e :: q); exact Acc).
      destruct (Nat.ltb cap (length (encode_gen fixed e))) eqn:Big.
      * injection Hs as <-. unfold finish. cinv_split; auto; try discriminate; try (intros _; reflexivity).
      * apply Nat.ltb_ge in Big.
        destruct (encode_gen fixed e) as [|b enc] eqn:Enc.
        -- destruct fixed; [exfalso; exact (encode_never_empty_l e Enc)|].
           destruct (client_gone s); injection Hs as <-; unfold finish; cinv_split; auto;
             try discriminate; try (intros _; reflexivity).
        -- destruct (client_gone s); injection Hs as <-.
           ++ unfold finish. cinv_split; auto; try discriminate; try (intros _; reflexivity).
           ++ cinv_split.
              ** rewrite map_app, I1. cbn. rewrite Enc. reflexivity.
              ** intros _. split; [exact RA|]. rewrite Acc, <- app_assoc. reflexivity.
              ** congruence.
              ** exists q. rewrite Acc, <- app_assoc. reflexivity.
              ** exact Hq.
              ** intros _ T; discriminate.
              ** apply Forall_app. split; [assumption|]. constructor; [|constructor].
                 split; [discriminate|exact Big].
  - (* ClientGone *)
    injection Hs as <-. destruct I as (I1&I2&I3&I4&I5&I6&I7). cinv_split; auto.
Qed.

Lemma cinv_run fixed cap tr : forall s s', CInv fixed cap s -> crun fixed cap s tr = Some s' -> CInv fixed cap s'.
Proof.
  induction tr as [|a t IH]; intros s s' I H; cbn in H.
  - injection H as <-. exact I.
  - destruct (cstep fixed cap s a) eqn:E; [|discriminate]. eapply IH; [eapply cinv_step; eauto|exact H].
Qed.

Lemma firstn_app_exact {A} (a b : list A) : firstn (length a) (a ++ b) = a.
Proof. rewrite firstn_app, Nat.sub_diag, firstn_all. cbn. apply app_nil_r. Qed.

(* exactly once, in order: the blocks on the wire are the encodings of a prefix of the accepted
   events, in sending order; while the writer runs nothing is lost (accepted = written ++ queued);
   when the stream has been terminated every accepted event has been written. *)
Lemma exactly_once_in_order_l fixed cap tr s :
  crun fixed cap cinit tr = Some s ->
  wire s = map (encode_gen fixed) (firstn (length (wire s)) (accepted s)) /\
  (wst s = WActive -> accepted s = firstn (length (wire s)) (accepted s) ++ queue s) /\
  (fixed = true -> wst s = WTerminated -> wire s = map (encode_gen fixed) (accepted s)).
Proof.
  intros H. pose proof (cinv_run _ _ _ _ _ (cinv_init fixed cap) H) as (I1&I2&I3&(rest&I4)&I5&I6&I7).
  assert (L : length (wire s) = length (delivered s)) by (rewrite I1; apply map_length).
  assert (P : firstn (length (wire s)) (accepted s) = delivered s) by (rewrite L, I4; apply firstn_app_exact).
  rewrite P. split; [exact I1|]. split.
  - intros A. apply I2, A.
  - intros Fx T. destruct (I6 Fx T) as (_&E&_). rewrite E. exact I1.
Qed.

(* the terminating chunk is on the wire only when every sender is disconnected or dropped *)
Lemma terminator_only_when_senders_gone_l cap tr s :
  crun true cap cinit tr = Some s -> wst s = WTerminated ->
  live_senders s = O /\ (forall i, is_connected s i = false) /\ queue s = [] /\
  wire s = map encode_event (accepted s).
Proof.
  intros H T. pose proof (cinv_run _ _ _ _ _ (cinv_init true cap) H) as (I1&I2&I3&I4&I5&I6&I7).
  destruct (I6 eq_refl T) as (N&E&Q). split; [apply nolive_iff; exact N|]. split.
  - intros i. unfold is_connected. destruct (find_h i (handles s)) as [h|] eqn:F; [|reflexivity].
    destruct (find_h_in _ _ _ F) as [Hin _]. exact (proj1 (Forall_forall _ _) N h Hin).
  - split; [exact Q|]. rewrite E. exact I1.
Qed.

(* ... and it does get there: once all senders are gone, the client is there and every queued
   event fits the read buffer, |queue|+1 polls of the writer deliver the queue and terminate *)
Lemma drain_terminates cap : forall q s,
  queue s = q -> wst s = WActive -> live_senders s = O -> client_gone s = false ->
  Forall (fun e => (length (encode_event e) <= cap)%nat) q ->
  exists s', crun true cap s (repeat WriterPoll (S (length q))) = Some s' /\ wst s' = WTerminated /\
             wire s' = wire s ++ map encode_event q /\ accepted s' = accepted s.
Proof.
  induction q as [|e q IH]; intros s Q W L G F.
  - cbn [length repeat crun cstep]. rewrite W, Q, L, G. cbn. eexists. split; [reflexivity|].
    cbn. rewrite app_nil_r. auto.
  - inversion F as [|? ? Fe Fq]; subst.
    change (repeat WriterPoll (S (length (e :: q)))) with (WriterPoll :: repeat WriterPoll (S (length q))).
    pose proof (encode_never_empty_l e) as NE.
    set (s1 := mk_cst q (handles s) (next_h s) (recv_alive s) (client_gone s) (wire s ++ [encode_event e]) (wst s)
                      (accepted s) (delivered s ++ [e])).
    assert (St : cstep true cap s WriterPoll = Some s1).
    { subst s1. cbn [cstep]. rewrite W, Q. fold encode_event. apply Nat.ltb_ge in Fe. rewrite Fe.
      destruct (encode_event e) as [|b enc]; [congruence|]. rewrite G. reflexivity. }
    cbn [crun]. rewrite St.
    destruct (IH s1) as (s'&R&T&Wi&Ac); try reflexivity; auto.
    exists s'. split; [exact R|]. split; [exact T|]. split; [|exact Ac].
    rewrite Wi. subst s1. cbn [wire map]. rewrite <- app_assoc. reflexivity.
Qed.

Lemma terminator_when_all_senders_gone_l cap tr s :
  crun true cap cinit tr = Some s -> wst s = WActive -> live_senders s = O -> client_gone s = false ->
  Forall (fun e => (length (encode_event e) <= cap)%nat) (queue s) ->
  exists s', crun true cap s (repeat WriterPoll (S (length (queue s)))) = Some s' /\ wst s' = WTerminated /\
             wire s' = map encode_event (accepted s') .
Proof.
  intros H W L G F. destruct (drain_terminates cap (queue s) s eq_refl W L G F) as (s'&R&T&Wi&Ac).
  exists s'. split; [exact R|]. split; [exact T|].
  pose proof (cinv_run _ _ _ _ _ (cinv_init true cap) H) as (I1&I2&_).
  destruct (I2 W) as [_ Acc]. rewrite Wi, Ac, Acc, map_app, I1. reflexivity.
Qed.

(* a 0-byte read (hence the terminating chunk) never comes from an event's content: while some
   sender is connected a poll of the writer never terminates the stream *)
Lemma content_never_terminates_l cap tr s s' :
  crun true cap cinit tr = Some s -> wst s = WActive -> live_senders s <> O ->
  cstep true cap s WriterPoll = Some s' -> wst s' <> WTerminated.
Proof.
  intros H W L Hs. cbn [cstep] in Hs. rewrite W in Hs.
  destruct (queue s) as [|e q].
  - destruct (Nat.eqb (live_senders s) 0) eqn:E; [apply Nat.eqb_eq in E; congruence|].
    injection Hs as <-. rewrite W. discriminate.
  - fold encode_event in Hs. destruct (Nat.ltb cap (length (encode_event e))); [injection Hs as <-; discriminate|].
    pose proof (encode_never_empty_l e) as NE. destruct (encode_event e); [congruence|].
    destruct (client_gone s); injection Hs as <-; cbn; discriminate.
Qed.

(* a send never blocks; on a full queue or a dead receiver it disconnects the sender, queues
   nothing and delivers nothing *)
Lemma overrun_disconnects_l fixed cap s i e h :
  find_h i (handles s) = Some h -> h_conn h = true ->
  (recv_alive s = false \/ (queue_cap <= length (queue s))%nat) ->
  exists s', cstep fixed cap s (Send i e) = Some s' /\ is_connected s' i = false /\
             queue s' = queue s /\ accepted s' = accepted s /\ wire s' = wire s /\ wst s' = wst s.
Proof.
  intros F C O. cbn [cstep]. rewrite F, C.
  assert (G : recv_alive s && (length (queue s) <? queue_cap)%nat = false).
  { destruct O as [->|O]; [reflexivity|]. apply andb_false_iff. right. apply Nat.ltb_ge. exact O. }
  rewrite G. eexists. split; [reflexivity|]. cbn. repeat split; auto.
  unfold is_connected. cbn. clear - F. induction (handles s) as [|x r IH]; cbn in *; [discriminate|].
  destruct (Nat.eqb (h_id x) i) eqn:E.
  - cbn. rewrite Nat.eqb_refl. reflexivity.
  - cbn. rewrite E. auto.
Qed.

Lemma send_never_blocks_l fixed cap s i e h :
  find_h i (handles s) = Some h -> exists s', cstep fixed cap s (Send i e) = Some s'.
Proof.
  intros F. cbn [cstep]. rewrite F. destruct (h_conn h); [|eauto].
  destruct (recv_alive s && (length (queue s) <? queue_cap)%nat); eauto.
Qed.

Lemma queue_bounded_l fixed cap tr s : crun fixed cap cinit tr = Some s -> (length (queue s) <= queue_cap)%nat.
Proof. intros H. apply (cinv_run _ _ _ _ _ (cinv_init fixed cap) H). Qed.

(* what the code does with an event whose encoding exceeds the read buffer: write_to fails with
   WriteZero, copy_chunked_async returns ReaderErr, the stream ends WITHOUT terminating chunk, the
   event and everything queued behind it are never delivered although they were accepted. *)
Lemma oversize_event_aborts_stream_l fixed cap s e q :
  wst s = WActive -> queue s = e :: q -> (cap < length (encode_gen fixed e))%nat ->
  exists s', cstep fixed cap s WriterPoll = Some s' /\ wst s' = WReaderErr /\ wire s' = wire s /\
             recv_alive s' = false /\ accepted s' = accepted s.
Proof.
  intros W Q B. cbn [cstep]. rewrite W, Q. apply Nat.ltb_lt in B. rewrite B.
  eexists. split; [reflexivity|]. cbn. auto.
Qed.

(* ============================================================================================
   Part 3: chunk framing (private copy of the C07 development, see notes/spikes/ChunkSpike.v):
   each chunk on the wire is exactly one block
   ============================================================================================ *)
Definition is_hex (c : N) : bool := match unhexd c with Some _ => true | None => false end.
Fixpoint hexval (acc : N) (l : bytes) : N :=
  match l with c :: t => match unhexd c with Some d => hexval (16 * acc + d) t | None => acc end | [] => acc end.

Definition size_ok (n : N) : bool :=
  let s := trim0 (hex4 n) in
  forallb is_hex s && (hexval 0 s =? n) && negb (match s with [] => true | c :: _ => c =? 48 end).

Fixpoint upto (k : nat) (n : N) : list N := match k with O => [] | S k' => n :: upto k' (N.succ n) end.
Lemma upto_In k : forall n m, n <= m -> m < n + N.of_nat k -> In m (upto k n).
Proof.
  induction k as [|k IH]; intros n m H1 H2; [lia|]. cbn [upto].
  destruct (N.eq_dec n m) as [->|Hne]; [left; reflexivity|right]. apply IH; lia.
Qed.
Lemma size_sweep : forallb size_ok (upto (N.to_nat 65535) 1) = true.
Proof. vm_compute. reflexivity. Qed.
Lemma size_line n : 1 <= n < 65536 -> size_ok n = true.
Proof.
  intros H. pose proof size_sweep as S. rewrite forallb_forall in S. apply S.
  apply upto_In; lia.
Qed.

Lemma read_hex_digits s : forall acc seen rest,
  forallb is_hex s = true -> (seen = true \/ s <> []) ->
  (match rest with c :: _ => is_hex c = false | [] => True end) ->
  read_hex acc seen (s ++ rest) = Some (hexval acc s, rest).
Proof.
  induction s as [|c s IH]; intros acc seen rest Hs Hne Hr.
  - cbn [app hexval]. destruct Hne as [->|Hne]; [|congruence].
    destruct rest as [|c t]; cbn [read_hex]; [reflexivity|].
    unfold is_hex in Hr. destruct (unhexd c); [discriminate|reflexivity].
  - cbn [forallb] in Hs. apply andb_true_iff in Hs as [Hc Hs].
    cbn [app read_hex hexval]. unfold is_hex in Hc. destruct (unhexd c) as [d|]; [|discriminate].
    apply IH; auto.
Qed.

Lemma trim0_app a b : (match trim0 a with [] => False | _ => True end) -> trim0 (a ++ b) = trim0 a ++ b.
Proof.
  induction a as [|x a IH]; cbn [trim0 app]; [tauto|].
  intros H. destruct (N.eq_dec x 48) as [->|Hne].
  - cbn [trim0] in *. apply IH. exact H.
  - assert (trim0 (x :: a) = x :: a) as E.
    { cbn [trim0]. destruct x as [|p]; [reflexivity|]. do 6 (destruct p as [p|p|]; try reflexivity). congruence. }
    assert (trim0 (x :: a ++ b) = x :: a ++ b) as E'.
    { cbn [trim0]. destruct x as [|p]; [reflexivity|]. do 6 (destruct p as [p|p|]; try reflexivity). congruence. }
    change (trim0 (x :: a ++ b) = trim0 (x :: a) ++ b). rewrite E, E'. reflexivity.
Qed.

Definition piece_ok (p : bytes) : Prop := (1 <= length p)%nat /\ (N.of_nat (length p) < 65536).

Lemma encode_piece_shape p : piece_ok p ->
  exists s, encode_piece p = s ++ crlf ++ p ++ crlf /\ forallb is_hex s = true /\ s <> [] /\ hexval 0 s = N.of_nat (length p).
Proof.
  intros [H1 H2]. set (n := N.of_nat (length p)).
  assert (size_ok n = true) as Hs by (apply size_line; subst n; lia).
  unfold size_ok in Hs. apply andb_true_iff in Hs as [Hs Hz]. apply andb_true_iff in Hs as [Hh Hv].
  exists (trim0 (hex4 n)). unfold encode_piece. fold n.
  destruct (trim0 (hex4 n)) as [|c s] eqn:E; [discriminate|].
  rewrite trim0_app by (rewrite E; exact I). rewrite E.
  repeat split; auto; [discriminate|]. apply N.eqb_eq in Hv. exact Hv.
Qed.

Lemma dechunk_step fuel p rest : piece_ok p ->
  dechunk (S fuel) (encode_piece p ++ rest) =
  match dechunk fuel rest with Dechunked ps t c => Dechunked (p :: ps) t c end.
Proof.
  intros Hp. destruct (encode_piece_shape p Hp) as (s & E & Hh & Hne & Hv). rewrite E.
  destruct Hp as [H1 H2]. cbn [dechunk].
  destruct ((s ++ crlf ++ p ++ crlf) ++ rest) eqn:Enil; [destruct s; [congruence|discriminate]|].
  rewrite <- Enil. clear Enil. rewrite <- !app_assoc.
  rewrite read_hex_digits; auto; [|cbn; reflexivity].
  rewrite Hv. cbn [crlf app].
  replace (N.of_nat (length p) =? 0) with false by (symmetry; apply N.eqb_neq; lia).
  replace (N.of_nat (length (p ++ 13 :: 10 :: rest)) <? N.of_nat (length p)) with false
    by (symmetry; apply N.ltb_ge; rewrite app_length; lia).
  rewrite Nat2N.id.
  rewrite skipn_app, skipn_all, Nat.sub_diag. cbn [skipn app].
  rewrite firstn_app, firstn_all, Nat.sub_diag. cbn [firstn]. rewrite app_nil_r. reflexivity.
Qed.

Lemma dechunk_wire ps : Forall piece_ok ps -> forall (t : bool) fuel, (length ps < fuel)%nat ->
  dechunk fuel (concat (map encode_piece ps) ++ (if t then terminator else [])) = Dechunked ps t true.
Proof.
  induction 1 as [|p ps Hp Hps IH]; intros t fuel Hf.
  - destruct fuel; [cbn in Hf; lia|]. destruct t; reflexivity.
  - destruct fuel; [lia|]. cbn [map concat]. rewrite <- app_assoc.
    rewrite dechunk_step by assumption. rewrite IH by (cbn in Hf; lia). reflexivity.
Qed.

Lemma encode_piece_nonempty p : piece_ok p -> (1 <= length (encode_piece p))%nat.
Proof.
  intros Hp. destruct (encode_piece_shape p Hp) as (s & E & _ & Hne & _). rewrite E.
  rewrite app_length. destruct s; [congruence|]. cbn. lia.
Qed.

Lemma wire_len ps : Forall piece_ok ps -> (length ps <= length (concat (map encode_piece ps)))%nat.
Proof.
  induction 1 as [|p ps Hp Hps IH]; [cbn; lia|]. cbn [map concat length]. rewrite app_length.
  pose proof (encode_piece_nonempty p Hp). lia.
Qed.

Definition is_term (s : cst) : bool := match wst s with WTerminated => true | _ => false end.

(* the bytes on the wire de-chunk to exactly the blocks written, one chunk per block *)
Lemma each_chunk_is_one_block_l fixed cap tr s :
  N.of_nat cap < 65536 -> crun fixed cap cinit tr = Some s ->
  dechunk (S (length (wire_bytes s))) (wire_bytes s) = Dechunked (wire s) (is_term s) true.
Proof.
  intros Hc H. pose proof (cinv_run _ _ _ _ _ (cinv_init fixed cap) H) as (_&_&_&_&_&_&I7).
  assert (P : Forall piece_ok (wire s)).
  { eapply Forall_impl; [|exact I7]. intros p [Hn Hl]. unfold piece_ok. split; [destruct p; [congruence|cbn; lia]|lia]. }
  unfold wire_bytes, is_term.
  replace (match wst s with WTerminated => terminator | _ => [] end)
    with (if match wst s with WTerminated => true | _ => false end then terminator else [])
    by (destruct (wst s); reflexivity).
  apply dechunk_wire; [exact P|]. rewrite app_length. pose proof (wire_len _ P). lia.
Qed.

(* ---- the oracle holds of the model ---- *)
Lemma pair_beq_refl a : pair_beq a a = true.
Proof. unfold pair_beq. now rewrite !beq_refl. Qed.
Lemma list_pair_beq_refl l : list_beq pair_beq l l = true.
Proof. induction l as [|a l IH]; cbn; [reflexivity|]. now rewrite pair_beq_refl, IH. Qed.

Lemma blocks_each_parse es :
  Forall (fun e => ev_wf e = true) es ->
  forall2b (fun p e => list_beq pair_beq (sse_parse (p ++ [10])) [expected_of e]) (map encode_event es) es = true.
Proof.
  induction 1 as [|e es We Wes IH]; [reflexivity|]. cbn [map forall2b].
  destruct (block_parses_back_l e We) as [P _]. rewrite P. unfold expected_of at 1.
  rewrite list_pair_beq_refl. exact IH.
Qed.

Definition lossless_of (s : cst) : bool := match wst s with WReaderErr | WWriterErr => false | _ => true end.
Definition drained_of (s : cst) : bool := match wst s with WActive => false | _ => true end.

Lemma oracle_c11_model_sound_l cap tr s :
  N.of_nat cap < 65536 -> crun true cap cinit tr = Some s ->
  Forall (fun e => ev_wf e = true) (accepted s) ->
  oracle_c11_modulo (accepted s) (wire_bytes s) (is_term s) (Nat.eqb (live_senders s) 0) (lossless_of s)
                    (drained_of s) [(is_term s, negb (Nat.eqb (live_senders s) 0))] = VOk.
Proof.
  intros Hc H W. unfold oracle_c11_modulo.
  pose proof (cinv_run _ _ _ _ _ (cinv_init true cap) H) as (I1&I2&I3&(rest&I4)&I5&I6&I7).
  assert (L : length (wire s) = length (delivered s)) by (rewrite I1; apply map_length).
  assert (P : firstn (length (wire s)) (accepted s) = delivered s) by (rewrite L, I4; apply firstn_app_exact).
  assert (Wd : Forall (fun e => ev_wf e = true) (delivered s)).
  { rewrite I4 in W. apply Forall_app in W. tauto. }
  assert (T : is_term s = true -> Nat.eqb (live_senders s) 0 = true /\ length (wire s) = length (accepted s)).
  { unfold is_term. destruct (wst s) eqn:E; try discriminate. intros _.
    destruct (I6 eq_refl eq_refl) as (N&A&_). split; [apply Nat.eqb_eq, nolive_iff, N|]. rewrite A. exact L. }
  cbn [forallb fst snd].
  assert (S1 : negb (negb (is_term s && negb (Nat.eqb (live_senders s) 0)) && true) = false).
  { destruct (is_term s) eqn:E; [|reflexivity]. destruct (T eq_refl) as [-> _]. reflexivity. }
  rewrite S1. rewrite (each_chunk_is_one_block_l true cap tr s Hc H). cbn [negb].
  rewrite P. rewrite I1. fold encode_event. rewrite (blocks_each_parse _ Wd). cbn [negb].
  destruct (parse_blocks _ Wd) as [PB _]. rewrite PB, list_pair_beq_refl. cbn [negb].
  rewrite eqb_reflx. cbn [negb].
  destruct (is_term s) eqn:E.
  - destruct (T eq_refl) as [Lv Ln]. rewrite map_length. rewrite <- L, Ln, Nat.eqb_refl.
    cbn. rewrite !andb_false_r. reflexivity.
  - cbn [andb]. unfold drained_of, lossless_of, is_term in *.
    destruct (wst s) eqn:Ws; try discriminate; cbn; rewrite ?andb_false_r; reflexivity.
Qed.

(* ---- the known finding D9 and the theorems modulo its class ---- *)
Lemma last_two_of_block e : exists pre c, encode_event e = pre ++ [c; 10] /\ c <> 10 /\ c <> 13.
Proof.
  unfold encode_event, encode_gen, lines_of.
  pose proof (data_lines_nonempty (ev_data e)) as NE. pose proof (data_lines_no_crlf (ev_data e)) as NC.
  set (hd := match e with Message _ => [] | Custom t _ => t_event ++ t ++ [10] end).
  destruct (exists_last NE) as (ls & l & E). rewrite E in *.
  rewrite map_app, concat_app. cbn [map concat]. rewrite app_nil_r.
  apply Forall_app in NC as [_ NC]. inversion NC as [|? ? Hl _]; subst.
  destruct (rev l) as [|c rl] eqn:R.
  - assert (l = []) by (apply (f_equal (@rev N)) in R; rewrite rev_involutive in R; exact R). subst l.
    exists (hd ++ concat (map (fun l => t_data ++ l ++ [10]) ls) ++ [100; 97; 116; 97; 58]), 32.
    split; [|split; discriminate]. rewrite <- !app_assoc. reflexivity.
  - assert (l = rev rl ++ [c]) by (apply (f_equal (@rev N)) in R; rewrite rev_involutive in R; exact R). subst l.
    exists (hd ++ concat (map (fun l => t_data ++ l ++ [10]) ls) ++ t_data ++ rev rl), c.
    split; [rewrite <- !app_assoc; reflexivity|].
    unfold no_crlf in Hl. rewrite forallb_app in Hl. apply andb_true_iff in Hl as [_ Hl]. cbn in Hl.
    rewrite andb_true_r, negb_true_iff, orb_false_iff, !N.eqb_neq in Hl. tauto.
Qed.

Lemma block_never_ends_with_blank_line e : ends_with_blank_line (encode_event e) = false.
Proof.
  destruct (last_two_of_block e) as (pre & c & -> & H10 & H13).
  unfold ends_with_blank_line. rewrite frev_rev, rev_app_distr. cbn [rev app].
  destruct c as [|p]; [reflexivity|].
  do 4 (destruct p as [p|p|]; try reflexivity); congruence.
Qed.

(* the class holds of every stream of the model that carries at least one block *)
Lemma model_wire_in_class cap tr s :
  crun true cap cinit tr = Some s -> wire s <> [] -> kf_c11_missing_blank_line (wire s) = true.
Proof.
  intros H NE. pose proof (cinv_run _ _ _ _ _ (cinv_init true cap) H) as (I1&_).
  unfold kf_c11_missing_blank_line. destruct (wire s) eqn:E; [congruence|]. cbn [negb andb].
  rewrite I1. apply forallb_forall. intros p Hp. apply in_map_iff in Hp as (e & <- & _).
  fold encode_event. now rewrite block_never_ends_with_blank_line.
Qed.

(* the full property (the stream AS SENT dispatches every accepted event) modulo the class *)
Lemma strict_modulo_known_class_l cap tr s :
  crun true cap cinit tr = Some s -> kf_c11_missing_blank_line (wire s) = false ->
  sse_parse (stream_raw (wire s)) = map expected_of (firstn (length (wire s)) (accepted s)).
Proof.
  intros H K. destruct (wire s) eqn:E.
  - reflexivity.
  - assert (NE : wire s <> []) by (rewrite E; discriminate).
    pose proof (model_wire_in_class cap tr s H NE) as C. rewrite E in C. congruence.
Qed.

(* ---- witnesses ---- *)
Definition b_x : bytes := [120].
Definition ev_x : event := Message b_x.
(* D9: one accepted event, written as the block "data: x\n"; the stream as sent dispatches nothing *)
Lemma wire_blocks_lack_blank_line_refuted_l :
  exists s, crun true 100 cinit [Send 0 ev_x; WriterPoll] = Some s /\
            wire s = [[100; 97; 116; 97; 58; 32; 120; 10]] /\
            kf_c11_missing_blank_line (wire s) = true /\
            sse_parse (stream_raw (wire s)) = [] /\
            map expected_of (firstn (length (wire s)) (accepted s)) = [([], b_x)] /\
            sse_parse (stream_supplied (wire s)) = [([], b_x)].
Proof. eexists. vm_compute. repeat split. Qed.

(* D8 (tree before the repair): Event::Message("") encodes to 0 bytes, the writer takes the
   0-byte read for the end of the stream and sends the terminating chunk while the sender is
   connected *)
Lemma empty_message_terminates_refuted_l :
  encode_gen false (Message []) = [] /\
  exists s, crun false 100 cinit [Send 0 (Message []); WriterPoll] = Some s /\
            wst s = WTerminated /\ is_connected s 0 = true /\ live_senders s = 1%nat.
Proof. split; [reflexivity|]. eexists. vm_compute. repeat split. Qed.

(* "x\revent: evil": str::lines keeps the lone CR inside the line; the parser ends the line there
   and reads a second field, which sets the event type *)
Definition d_evil : bytes := [120; 13; 101; 118; 101; 110; 116; 58; 32; 101; 118; 105; 108].
Lemma cr_injects_field_refuted_l :
  sse_parse (encode_gen false (Message d_evil) ++ [10]) = [([101; 118; 105; 108], [120])] /\
  sse_fields (encode_gen false (Message d_evil) ++ [10]) = [(f_data, [120]); (f_event, [101; 118; 105; 108])] /\
  sse_parse (encode_gen true (Message d_evil) ++ [10]) = [([], normalize_data d_evil)] /\
  sse_fields (encode_gen true (Message d_evil) ++ [10]) =
    [(f_data, [120]); (f_data, [101; 118; 101; 110; 116; 58; 32; 101; 118; 105; 108])].
Proof. vm_compute. repeat split. Qed.

(* data ending in LF loses it *)
Lemma trailing_newline_lost_refuted_l :
  sse_parse (encode_gen false (Message [97; 10]) ++ [10]) = [([], [97])] /\
  sse_parse (encode_gen true (Message [97; 10]) ++ [10]) = [([], [97; 10])].
Proof. vm_compute. repeat split. Qed.

(* open candidate: an event larger than the read buffer *)
Lemma oversize_example :
  exists s, crun true 8 cinit [Send 0 (Message [97; 97; 97; 97]); Send 0 ev_x; WriterPoll] = Some s /\
            wst s = WReaderErr /\ wire s = [] /\ length (accepted s) = 2%nat /\ is_connected s 0 = true.
Proof. eexists. vm_compute. repeat split. Qed.

(* non-vacuity of the interleaving theorems: two senders, an overrun-free history *)
Lemma c11_run_example :
  exists s, crun true 100 cinit [Send 0 ev_x; Clone 0; WriterPoll; Send 1 (Custom [116] [97; 13; 10; 98]);
                                 DropSender 0; Disconnect 1; WriterPoll; WriterPoll] = Some s /\
            wst s = WTerminated /\ length (wire s) = 2%nat /\
            sse_parse (stream_supplied (wire s)) = [([], [120]); ([116], [97; 10; 98])].
Proof. eexists. vm_compute. repeat split. Qed.

(* ============================================================================================
   Part 4: the known finding D17 (oversize event) and the lossless clauses modulo its class
   ============================================================================================ *)
Definition fits (cap : nat) (e : event) : Prop := (length (encode_event e) <= cap)%nat.

Lemma step_fits cap s a s' :
  Forall (fits cap) (queue s) -> wst s <> WReaderErr -> oversize_action cap a = false ->
  cstep true cap s a = Some s' -> Forall (fits cap) (queue s') /\ wst s' <> WReaderErr.
Proof.
  intros F W O Hs. destruct a; cbn [cstep oversize_action] in *.
  - destruct (find_h i (handles s)) as [h|]; [|discriminate].
    destruct (h_conn h); [|injection Hs as <-; auto].
    destruct (recv_alive s && (length (queue s) <? queue_cap)%nat); injection Hs as <-; cbn; [|auto].
    split; [|exact W]. apply Forall_app. split; [exact F|]. constructor; [|constructor].
    unfold fits. apply Nat.ltb_ge. exact O.
  - destruct (find_h i (handles s)); [|discriminate]. injection Hs as <-. cbn. auto.
  - destruct (find_h i (handles s)); [|discriminate]. injection Hs as <-. cbn. auto.
  - destruct (find_h i (handles s)); [|discriminate]. injection Hs as <-. cbn. auto.
  - destruct (wst s) eqn:Ws; try (injection Hs as <-; rewrite Ws; split; [exact F|congruence]).
    destruct (queue s) as [|e q] eqn:Q.
    + destruct (Nat.eqb (live_senders s) 0).
      * destruct (client_gone s); injection Hs as <-; cbn; split; try constructor; discriminate.
      * injection Hs as <-. rewrite Q, Ws. split; [constructor|discriminate].
    + inversion F as [|? ? Fe Fq]; subst. fold encode_event in Hs.
      assert (B : Nat.ltb cap (length (encode_event e)) = false) by (apply Nat.ltb_ge; exact Fe).
      rewrite B in Hs. destruct (encode_event e).
      * destruct (client_gone s); injection Hs as <-; cbn; split; try exact Fq; discriminate.
      * destruct (client_gone s); injection Hs as <-; cbn; split; try exact Fq; try discriminate;
          try (rewrite Ws; discriminate).
  - injection Hs as <-. cbn. auto.
Qed.

Lemma run_fits cap tr : forall s s',
  Forall (fits cap) (queue s) -> wst s <> WReaderErr -> kf_c11_oversize_event cap tr = false ->
  crun true cap s tr = Some s' -> Forall (fits cap) (queue s') /\ wst s' <> WReaderErr.
Proof.
  induction tr as [|a t IH]; intros s s' F W K H; cbn in H.
  - injection H as <-. auto.
  - unfold kf_c11_oversize_event in K. cbn [existsb] in K. apply orb_false_iff in K as [Ka Kt].
    destruct (cstep true cap s a) as [s1|] eqn:E; [|discriminate].
    destruct (step_fits _ _ _ _ F W Ka E) as [F1 W1]. exact (IH s1 s' F1 W1 Kt H).
Qed.

(* outside the class: write_to never fails, nothing accepted is ever dropped by the writer, and
   once all senders are gone (client present) the queue is delivered and the stream terminated *)
Lemma lossless_modulo_oversize_l cap tr s :
  crun true cap cinit tr = Some s -> kf_c11_oversize_event cap tr = false ->
  wst s <> WReaderErr /\
  Forall (fun e => (length (encode_event e) <= cap)%nat) (queue s) /\
  (wst s = WActive -> live_senders s = O -> client_gone s = false ->
   exists s', crun true cap s (repeat WriterPoll (S (length (queue s)))) = Some s' /\ wst s' = WTerminated /\
              wire s' = map encode_event (accepted s')).
Proof.
  intros H K. destruct (run_fits cap tr cinit s (Forall_nil _) ltac:(cbn; discriminate) K H) as [F W].
  split; [exact W|]. split; [exact F|]. intros A L G.
  exact (terminator_when_all_senders_gone_l cap tr s H A L G F).
Qed.

Definition lossless_no_oversize (s : cst) : bool := match wst s with WWriterErr => false | _ => true end.

Lemma oracle_c11_sound_modulo_oversize_l cap tr s :
  N.of_nat cap < 65536 -> crun true cap cinit tr = Some s -> kf_c11_oversize_event cap tr = false ->
  Forall (fun e => ev_wf e = true) (accepted s) ->
  oracle_c11_modulo (accepted s) (wire_bytes s) (is_term s) (Nat.eqb (live_senders s) 0) (lossless_no_oversize s)
                    (drained_of s) [(is_term s, negb (Nat.eqb (live_senders s) 0))] = VOk.
Proof.
  intros Hc H K W. destruct (lossless_modulo_oversize_l cap tr s H K) as (NR&_&_).
  replace (lossless_no_oversize s) with (lossless_of s).
  - apply (oracle_c11_model_sound_l cap tr s); assumption.
  - unfold lossless_no_oversize, lossless_of. destruct (wst s); try reflexivity. congruence.
Qed.

(* inside the class the lossless clauses fail: D17.  Buffer of 8 bytes; "data: aaaa\n" needs 11.
   Both events were accepted (the sender still reports connected), nothing reaches the wire, the
   copy ends with ReaderErr and no terminating chunk, and the oracle WITH its lossless clauses
   rejects the model's own observation. *)
Definition d17_trace : list caction := [Send 0 (Message [97; 97; 97; 97]); Send 0 ev_x; WriterPoll; DropSender 0; WriterPoll].
Lemma oversize_event_lost_refuted_l :
  kf_c11_oversize_event 8 d17_trace = true /\
  exists s, crun true 8 cinit d17_trace = Some s /\
            wst s = WReaderErr /\ wire s = [] /\ wire_bytes s = [] /\ length (accepted s) = 2%nat /\
            live_senders s = O /\
            oracle_c11_modulo (accepted s) (wire_bytes s) (is_term s) true true true [] = VTerminator /\
            oracle_c11_modulo (accepted s) (wire_bytes s) (is_term s) true false true [] = VOk.
Proof. split; [reflexivity|]. eexists. vm_compute. repeat split. Qed.
