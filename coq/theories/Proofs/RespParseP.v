(* Proofs/RespParseP.v -- facts about decimal rendering and about the independent response parser
   (Spec/RespParse.v) on inputs of the shape the serializer produces. *)
From Coq Require Import ZArith.
From SV Require Import Base.Bytes Base.BytesP Spec.ChunkDecode Spec.RespParse Proofs.ChunkedP.
Ltac Zify.zify_post_hook ::= Z.div_mod_to_equations.

(* ---------------------------------------------------------------- decimal numbers *)
Lemma is_digit_48 d : d < 10 -> is_digit (48 + d) = true.
Proof. intros H. unfold is_digit, in_range. apply andb_true_iff. split; apply N.leb_le; lia. Qed.

Lemma undec_acc_digit a d t : d < 10 -> undec_acc a ((48 + d) :: t) = undec_acc (10 * a + d) t.
Proof. intros H. cbn [undec_acc]. rewrite is_digit_48 by assumption. f_equal. lia. Qed.

Lemma dec_fuel_spec : forall f n s, n < 2 ^ N.of_nat (S f) ->
  exists ds, dec_digits_fuel (S f) n s = ds ++ s /\ ds <> [] /\ forallb is_digit ds = true /\
             forall a t, undec_acc a (ds ++ t) = undec_acc (a * 10 ^ N.of_nat (length ds) + n) t.
Proof.
  induction f as [|f IH]; intros n s Hn; cbn [dec_digits_fuel]; destruct (N.ltb_spec n 10) as [Hlt|Hge].
  - exists [48 + n mod 10]. assert (n mod 10 = n) as -> by (apply N.mod_small; lia).
    repeat split; [discriminate|cbn; now rewrite is_digit_48|].
    intros a t. cbn [app length]. rewrite undec_acc_digit by assumption. f_equal. cbn. lia.
  - cbn in Hn. lia.
  - exists [48 + n mod 10]. assert (n mod 10 = n) as -> by (apply N.mod_small; lia).
    repeat split; [discriminate|cbn; now rewrite is_digit_48|].
    intros a t. cbn [app length]. rewrite undec_acc_digit by assumption. f_equal. cbn. lia.
  - assert (Hq : n / 10 < 2 ^ N.of_nat (S f)).
    { rewrite Nat2N.inj_succ, N.pow_succ_r' in Hn. set (X := 2 ^ N.of_nat (S f)) in *. clearbody X. lia. }
    destruct (IH (n / 10) ((48 + n mod 10) :: s) Hq) as (ds & E & Hne & Hd & Hu).
    exists (ds ++ [48 + n mod 10]). rewrite <- app_assoc. cbn [app]. split; [exact E|].
    split; [destruct ds; discriminate|]. split.
    { rewrite forallb_app, Hd. cbn. rewrite is_digit_48; [reflexivity|]. apply N.mod_lt. lia. }
    intros a t. rewrite <- app_assoc. cbn [app]. rewrite Hu.
    rewrite undec_acc_digit by (apply N.mod_lt; lia). f_equal.
    rewrite app_length. cbn [length]. rewrite Nat2N.inj_add, N.pow_add_r. cbn [N.of_nat Pos.of_succ_nat].
    change (10 ^ 1) with 10. set (P := 10 ^ N.of_nat (length ds)).
    replace (a * (P * 10)) with (10 * (a * P)) by ring. generalize (a * P). intros y.
    pose proof (N.div_mod n 10 ltac:(lia)) as Hdm. set (q := n / 10) in *. set (r := n mod 10) in *. clearbody q r. lia.
Qed.

Lemma dec_spec n : dec n <> [] /\ forallb is_digit (dec n) = true /\ undec (dec n) = Some n.
Proof.
  unfold dec. destruct (dec_fuel_spec (N.to_nat (N.log2 n)) n []) as (ds & E & Hne & Hd & Hu).
  { rewrite Nat2N.inj_succ, N2Nat.id. destruct n as [|p]; [cbn; lia|].
    apply N.log2_spec. lia. }
  rewrite E, app_nil_r. split; [exact Hne|]. split; [exact Hd|].
  unfold undec. destruct ds as [|d ds]; [congruence|].
  specialize (Hu 0 []). rewrite app_nil_r in Hu. rewrite Hu. cbn [undec_acc]. f_equal; try lia.
Qed.

(* ---------------------------------------------------------------- lines *)
Definition no_cr (s : bytes) : bool := forallb (fun b => negb (b =? 13)) s.

Lemma split_line_app s X : no_cr s = true -> split_line (s ++ 13 :: 10 :: X) = Some (s, X).
Proof.
  induction s as [|a s IH]; intros H; [reflexivity|].
  cbn [no_cr forallb] in H. apply andb_true_iff in H as [Ha Hs]. cbn [app split_line].
  destruct (s ++ 13 :: 10 :: X) as [|b t] eqn:E; [destruct s; discriminate|].
  replace (a =? 13) with false by (symmetry; now apply negb_true_iff). cbn [andb].
  rewrite IH by exact Hs. reflexivity.
Qed.

Lemma fv_byte_range b : is_fv_byte b = true -> b = 9 \/ 32 <= b <= 126.
Proof.
  unfold is_fv_byte, in_range. intros H. apply orb_true_iff in H as [H|H].
  - left. now apply N.eqb_eq.
  - right. apply andb_true_iff in H as [H1 H2]. apply N.leb_le in H1, H2. lia.
Qed.

Lemma tchar_range b : is_tchar b = true -> 33 <= b <= 126 /\ b <> 58.
Proof.
  unfold is_tchar, is_alpha, is_upper, is_lower, is_digit, in_range. intros H.
  repeat (apply orb_true_iff in H as [H|H]);
    try (apply andb_true_iff in H as [H1 H2]; apply N.leb_le in H1, H2; lia);
    try (apply N.eqb_eq in H; lia).
Qed.

Lemma tchar_fv b : is_tchar b = true -> is_fv_byte b = true.
Proof.
  intros H. apply tchar_range in H. unfold is_fv_byte, in_range. apply orb_true_iff. right.
  apply andb_true_iff. split; apply N.leb_le; lia.
Qed.

Lemma digit_fv b : is_digit b = true -> is_fv_byte b = true.
Proof.
  unfold is_digit, is_fv_byte, in_range. intros H. apply andb_true_iff in H as [H1 H2].
  apply N.leb_le in H1, H2. apply orb_true_iff. right. apply andb_true_iff. split; apply N.leb_le; lia.
Qed.

Lemma forallb_impl {A} (p q : A -> bool) l : (forall x, p x = true -> q x = true) -> forallb p l = true -> forallb q l = true.
Proof. intros Hpq. induction l as [|x l IH]; cbn; [reflexivity|]. intros H. apply andb_true_iff in H as [H1 H2]. now rewrite Hpq, IH. Qed.

Lemma fv_no_cr s : forallb is_fv_byte s = true -> no_cr s = true.
Proof.
  apply forallb_impl. intros b H. apply fv_byte_range in H. apply negb_true_iff, N.eqb_neq. lia.
Qed.

Lemma split_colon_app name rest : forallb is_tchar name = true -> split_colon (name ++ 58 :: rest) = Some (name, rest).
Proof.
  induction name as [|a s IH]; intros H; [reflexivity|].
  cbn [forallb] in H. apply andb_true_iff in H as [Ha Hs]. cbn [app split_colon].
  apply tchar_range in Ha. replace (a =? 58) with false by (symmetry; apply N.eqb_neq; lia).
  now rewrite IH.
Qed.

Lemma trim_ows_left_id s : (match s with [] => true | a :: _ => negb (is_ows a) end) = true -> trim_ows_left s = s.
Proof. destruct s as [|a s]; [reflexivity|]. cbn. intros H. apply negb_true_iff in H. now rewrite H. Qed.

Lemma trim_ows_sp v :
  (match v with [] => true | a :: _ => negb (is_ows a) end) = true ->
  (match rev v with [] => true | a :: _ => negb (is_ows a) end) = true ->
  trim_ows (32 :: v) = v.
Proof.
  intros H1 H2. unfold trim_ows. cbn [trim_ows_left]. change (is_ows 32) with true. cbv iota.
  rewrite (trim_ows_left_id v H1), (trim_ows_left_id (rev v) H2). apply rev_involutive.
Qed.

(* three-digit status codes: finite sweep *)
Definition code3_ok (c : N) : bool :=
  match dec c with
  | [a; b; d] => is_digit a && is_digit b && is_digit d &&
                 match undec [a; b; d] with Some c' => c' =? c | None => false end
  | _ => false
  end.
Lemma code3_sweep : forallb code3_ok (upto 900 100) = true.
Proof. vm_compute. reflexivity. Qed.
Lemma code3_all c : 100 <= c <= 999 -> code3_ok c = true.
Proof.
  intros H. pose proof code3_sweep as S. rewrite forallb_forall in S. apply S. apply upto_In; lia.
Qed.

Lemma parse_status_line_ok c reason :
  100 <= c <= 999 -> forallb is_fv_byte reason = true ->
  parse_status_line (s_http11 ++ 32 :: dec c ++ 32 :: reason) = Some c.
Proof.
  intros Hc Hr. pose proof (code3_all c Hc) as H3. unfold code3_ok in H3.
  destruct (dec c) as [|a [|b [|d [|e l]]]]; try discriminate.
  apply andb_true_iff in H3 as [H3 Hu]. apply andb_true_iff in H3 as [H3 Hd].
  apply andb_true_iff in H3 as [Ha Hb].
  unfold parse_status_line. rewrite starts_with_app.
  change (skipn 8 (s_http11 ++ 32 :: [a; b; d] ++ 32 :: reason)) with (32 :: a :: b :: d :: 32 :: reason).
  cbv iota. rewrite Ha, Hb, Hd, Hr. change (32 =? 32) with true. cbn [andb].
  destruct (undec [a; b; d]) as [c'|]; [|discriminate]. apply N.eqb_eq in Hu. now subst.
Qed.
