(* Proofs/LogFileO.v -- the boolean oracles that the correspondence check evaluates on the
   implementation's observations hold of every run of the model (both variants of D18). *)
From Coq Require Import Permutation Sorting.Sorted.
From SV Require Import Base.Bytes Base.BytesP Model.LogFile Proofs.LogFileP Proofs.LogFileW.

(* ================================================================== the writer oracle *)
(* what the harness reads back: the contents of the live files the writer created, in order *)
Definition obs_of (created : list file) : list (list line) := map f_lines (listing created).

Lemma line_eqb_refl x : line_eqb x x = true.
Proof. unfold line_eqb. now rewrite !N.eqb_refl. Qed.

Lemma sumN_removelast (l : list N) : sumN (removelast l) <= sumN l.
Proof.
  induction l as [|a l IH]; [cbn; lia|].
  destruct l as [|b l]; [unfold sumN; cbn; lia|].
  change (removelast (a :: b :: l)) with (a :: removelast (b :: l)).
  rewrite (sumN_cons a), (sumN_cons a). lia.
Qed.

Lemma map_removelast' {A B} (f : A -> B) : forall l, map f (removelast l) = removelast (map f l).
Proof.
  induction l as [|a l IH]; [reflexivity|]. destruct l as [|b l]; [reflexivity|].
  change (removelast (a :: b :: l)) with (a :: removelast (b :: l)).
  change (map f (a :: b :: l)) with (f a :: f b :: map f l).
  change (removelast (f a :: f b :: map f l)) with (f a :: removelast (f b :: map f l)).
  cbn [map]. f_equal. exact IH.
Qed.

Lemma size_rule_file_size_ok MW ls : size_rule MW ls = true -> file_size_ok MW ls = true.
Proof.
  unfold size_rule, file_size_ok. intros H. apply N.leb_le. apply orb_true_iff in H as [H|H].
  - apply N.leb_le in H. pose proof (sumN_removelast (map l_size ls)) as R.
    rewrite <- map_removelast' in R. lia.
  - apply Nat.leb_le in H. destruct ls as [|a [|b ls]]; cbn in *; try lia.
Qed.

Lemma sum_concat_lines (fs : list file) :
  sumN (map l_size (concat (map f_lines fs))) = sumN (map f_size fs).
Proof.
  induction fs as [|f fs IH]; cbn [map concat]; [reflexivity|].
  rewrite map_app, sumN_app, IH, sumN_cons. reflexivity.
Qed.

Lemma last_default_irrelevant {A} : forall (l : list A) d d', l <> [] -> last l d = last l d'.
Proof.
  induction l as [|a l IH]; intros d d' H; [contradiction|].
  destruct l as [|b l]; [reflexivity|].
  change (last (a :: b :: l) d) with (last (b :: l) d). change (last (a :: b :: l) d') with (last (b :: l) d').
  apply IH. discriminate.
Qed.
Lemma last_cons_default {A} (e : A) evs s : last (e :: evs) s = last evs e.
Proof.
  destruct evs as [|b evs]; [reflexivity|].
  change (last (e :: b :: evs) s) with (last (b :: evs) s). apply last_default_irrelevant. discriminate.
Qed.
Lemma rev_last_snoc {A} : forall evs (a : list A) s, exists t, rev (a ++ s :: evs) = last evs s :: t.
Proof.
  induction evs as [|e evs IH]; intros a s.
  - rewrite rev_app_distr. cbn. eauto.
  - replace (a ++ s :: e :: evs) with ((a ++ [s]) ++ e :: evs) by (rewrite <- app_assoc; reflexivity).
    destruct (IH (a ++ [s]) e) as (t & E). exists t. rewrite E. now rewrite last_cons_default.
Qed.

Section WriterOracle.
Variable prefix : bytes.
Variable b18 : bool.
Notation pv := (post b18).
Notation islog := (is_log_file post_fix prefix).

Lemma history_lines_snoc rs r : history_lines (rs ++ [r]) = history_lines rs ++ run_lines r.
Proof. unfold history_lines. rewrite map_app, concat_app. cbn [map concat]. now rewrite app_nil_r. Qed.

Lemma logs_created MW WA (created : list file) : Forall (fprop MW WA) created -> logs prefix created = listing created.
Proof.
  intros H. unfold logs, listing. apply filter_ext_in. intros f Hf.
  rewrite Forall_forall in H. destruct (H f Hf) as (_ & _ & _ & Hr & Hg).
  unfold is_log_file. rewrite Hr. destruct (f_name f); [discriminate|]. cbn. now rewrite !andb_true_r.
Qed.

Lemma oracle_writer_sound m fs0 MW WA rs r :
  hist_ok prefix fs0 MW WA (rs ++ [r]) ->
  exists fsA w old created,
    run_history pv m prefix fs0 rs = ROk fsA /\ run_one pv m prefix fsA r = ROk w /\
    w_fs w = old ++ created /\ length old = length fs0 /\
    ow_current_last (history_lines (rs ++ [r])) (obs_of created) = true /\
    ow_file_sizes MW (obs_of created) = true /\
    ow_total (max_write_bytes (r_cfg r)) (max_keep_bytes (r_cfg r)) (history_lines (rs ++ [r]))
             (total_size post_fix prefix old) (obs_of created) = true /\
    (r_events r <> [] ->
     ow_age (max_keep_age (r_cfg r)) (l_time (last (r_events r) (r_start r))) (entries (w_set w)) = true).
Proof.
  intros H. destruct (run_after_history prefix b18 m fs0 MW WA rs r H) as (fsA & rest & cf & w & E & E1 & I & Hc & T0 & T1).
  destruct Hc as (old & c0 & Erest & K & Hlines & Hf).
  exists fsA, w, old, (c0 ++ [cf]).
  pose proof I as I'. destruct I' as [Hfs _ A R Nm Gn Sz Cr].
  assert (Hobs : obs_of (c0 ++ [cf]) = map f_lines (listing c0) ++ [f_lines cf]).
  { unfold obs_of, listing. rewrite filter_app, map_app. cbn [filter]. now rewrite A. }
  assert (Hcf : fprop MW WA cf) by (apply Forall_app in Hf as [_ Hf]; now inversion Hf).
  rewrite history_lines_snoc.
  splits; auto.
  - rewrite Hfs, Erest. now rewrite app_assoc.
  - symmetry. eapply Kills_length; eauto.
  - (* the current file ends with the last accepted line *)
    destruct Hcf as (_ & _ & Hne & _).
    destruct (exists_last Hne) as (q & x & Eq).
    rewrite map_app, concat_app in Hlines. cbn [map concat] in Hlines. rewrite app_nil_r in Hlines.
    unfold ow_current_last. rewrite Hobs, <- Hlines, Eq.
    rewrite rev_app_distr. cbn [rev app]. rewrite app_assoc, rev_app_distr. cbn [rev app].
    rewrite rev_app_distr. cbn [rev app]. apply line_eqb_refl.
  - (* per-file size rule *)
    unfold ow_file_sizes. apply andb_true_iff. split; apply forallb_forall; intros ls Hls;
      unfold obs_of in Hls; apply in_map_iff in Hls as (f & <- & Hfin);
      apply filter_In in Hfin as [Hfin _]; rewrite Forall_forall in Hf; destruct (Hf f Hfin) as (Hs & _ & Hne & _).
    + now apply size_rule_file_size_ok.
    + destruct (f_lines f); [contradiction|reflexivity].
  - (* total size *)
    unfold ow_total. apply N.leb_le.
    assert (Htot : total_size post_fix prefix old + sumN (map l_size (concat (obs_of (c0 ++ [cf]))))
                   = slen (w_set w) + w_len w).
    { rewrite <- (total_size_inv prefix _ _ _ I). rewrite Hfs, Erest, <- app_assoc.
      unfold total_size, log_files. rewrite filter_app, map_app, sumN_app. f_equal.
      fold (logs prefix (c0 ++ [cf])). rewrite (logs_created MW WA _ Hf).
      unfold obs_of. now rewrite sum_concat_lines. }
    rewrite Htot. unfold keep_bound, run_lines.
    destruct (rev_last_snoc (r_events r) (history_lines rs) (r_start r)) as (t & ->).
    destruct (r_events r) as [|e0 evs] eqn:Ev.
    + cbn [last]. specialize (T0 eq_refl). lia.
    + assert (Hne : e0 :: evs <> []) by discriminate.
      assert (Hl : last (e0 :: evs) (last (e0 :: evs) (r_start r)) = last (e0 :: evs) (r_start r))
        by (now apply last_default_irrelevant).
      destruct (T1 _ Hl Hne) as [Ht _]. lia.
  - (* age *)
    intros Hne. unfold ow_age. destruct (max_keep_age (r_cfg r)) as [d|] eqn:Ed; [|reflexivity].
    apply forallb_forall. intros e He. apply N.leb_le.
    assert (Hl : last (r_events r) (last (r_events r) (r_start r)) = last (r_events r) (r_start r))
      by (now apply last_default_irrelevant).
    destruct (T1 _ Hl Hne) as [_ Ha]. now apply (Ha d).
Qed.

End WriterOracle.

(* ================================================================== the set-step oracle *)
(* [PopsL leb es popped es']: popping minimal elements one after the other removes [popped] (in
   this order) from [es] and leaves [es'] *)
Inductive PopsL (leb : pfile -> pfile -> bool) : list pfile -> list pfile -> list pfile -> Prop :=
| PL_nil es : PopsL leb es [] es
| PL_step l1 e l2 popped es' :
    (forall x, In x (l1 ++ e :: l2) -> leb e x = true) ->
    PopsL leb (l1 ++ l2) popped es' -> PopsL leb (l1 ++ e :: l2) (e :: popped) es'.

Lemma Pops_PopsL leb P es es' : Pops leb P es es' -> exists popped, PopsL leb es popped es' /\ Forall P popped.
Proof.
  induction 1 as [es|l1 e l2 es' _ Hleb HP _ (popped & IH & HF)].
  - exists []. split; constructor.
  - exists (e :: popped). split; constructor; auto.
Qed.

Lemma PL_perm leb es popped es' : PopsL leb es popped es' -> Permutation es (popped ++ es').
Proof.
  induction 1 as [es|l1 e l2 popped es' _ _ IH]; [reflexivity|].
  cbn [app]. rewrite <- Permutation_middle. now constructor.
Qed.

Lemma PL_before leb es popped es' : PopsL leb es popped es' ->
  forall g k, In g popped -> In k es' -> leb g k = true.
Proof.
  induction 1 as [es|l1 e l2 popped es' Hmin HP IH]; intros g k Hg Hk; [contradiction|].
  destruct Hg as [<-|Hg]; [|now apply IH].
  apply Hmin. pose proof (PL_perm _ _ _ _ HP) as Pm.
  assert (In k (l1 ++ l2)) by (eapply Permutation_in; [symmetry; exact Pm|]; apply in_or_app; now right).
  apply in_app_or in H. apply in_or_app. cbn. tauto.
Qed.

(* every popped element comes before (or is) the one popped last *)
Lemma PL_last leb : (forall a, leb a a = true) -> forall es popped es', PopsL leb es popped es' ->
  forall p1 g, popped = p1 ++ [g] -> forall g', In g' popped -> leb g' g = true.
Proof.
  intros Hrefl. induction 1 as [es|l1 e l2 popped es' Hmin HP IH]; intros p1 g Ep g' Hg'.
  - destruct p1; discriminate.
  - assert (Hsub : forall x, In x popped -> In x (l1 ++ e :: l2)).
    { intros x Hx. pose proof (PL_perm _ _ _ _ HP) as Pm.
      assert (In x (l1 ++ l2)) by (eapply Permutation_in; [symmetry; exact Pm|]; apply in_or_app; now left).
      apply in_app_or in H. apply in_or_app. cbn. tauto. }
    destruct p1 as [|a p1]; cbn [app] in Ep.
    + injection Ep as Ee Ep. subst. destruct Hg' as [<-|[]]. apply Hrefl.
    + injection Ep as Ee Ep. subst a. destruct Hg' as [<-|Hg'].
      * apply Hmin. apply Hsub. rewrite Ep. apply in_or_app. right. now left.
      * eapply IH; eauto.
Qed.

(* with distinct names, filtering by the names of the popped entries recovers the partition *)
Lemma in_names_cons nm a l : in_names nm (a :: l) = fname_eqb nm a || in_names nm l.
Proof. reflexivity. Qed.
Lemma in_names_In nm l : in_names nm l = true <-> In nm l.
Proof.
  unfold in_names. rewrite existsb_exists. split.
  - intros (x & Hx & E). apply fname_eqb_eq in E. now subst.
  - intros H. exists nm. split; auto. apply fname_eqb_refl.
Qed.

Lemma PL_partition leb es popped es' : PopsL leb es popped es' -> NoDup (map p_name es) ->
  keep_entries (map p_name popped) es = es' /\ Permutation (gone_entries (map p_name popped) es) popped.
Proof.
  induction 1 as [es|l1 e l2 popped es' _ HP IH]; intros Hnd.
  - cbn [map]. unfold keep_entries, gone_entries. split.
    + rewrite <- (filter_ext (fun _ => true)); [|reflexivity]. clear. induction es; cbn; congruence.
    + rewrite <- (filter_ext (fun _ => false)); [|reflexivity]. clear. induction es; cbn; auto.
  - assert (Hnd' : NoDup (map p_name (l1 ++ l2))).
    { rewrite map_app in *. cbn [map] in Hnd. now apply NoDup_remove_1 in Hnd. }
    assert (Hne : ~ In (p_name e) (map p_name (l1 ++ l2))).
    { rewrite map_app in *. cbn [map] in Hnd. now apply NoDup_remove_2 in Hnd. }
    destruct (IH Hnd') as [IHk IHg]. cbn [map].
    assert (Hext : forall x, In x (l1 ++ l2) ->
              in_names (p_name x) (p_name e :: map p_name popped) = in_names (p_name x) (map p_name popped)).
    { intros x Hx. rewrite in_names_cons. destruct (fname_eqb (p_name x) (p_name e)) eqn:Ex; [|reflexivity].
      apply fname_eqb_eq in Ex. exfalso. apply Hne. rewrite <- Ex. now apply in_map. }
    split.
    + unfold keep_entries in *. rewrite filter_app. cbn [filter].
      rewrite in_names_cons, fname_eqb_refl. cbn [orb negb]. rewrite <- filter_app.
      rewrite <- IHk. apply filter_ext_in. intros x Hx. now rewrite Hext.
    + unfold gone_entries in *. rewrite filter_app. cbn [filter].
      rewrite in_names_cons, fname_eqb_refl. cbn [orb].
      rewrite <- Permutation_middle. constructor. rewrite <- filter_app.
      rewrite <- IHg. erewrite filter_ext_in; [reflexivity|]. intros x Hx. now rewrite Hext.
Qed.

Section SetOracle.
Variable prefix : bytes.
Variable b18 : bool.
Notation pv := (post b18).
Notation islog := (is_log_file post_fix prefix).

Lemma over_loop_last m mx tl : forall fuel rest st,
  Good prefix rest tl st -> (length (entries st) < fuel)%nat ->
  exists rest' st' popped,
    over_loop pv m fuel mx (rest ++ tl, st) = ROk (rest' ++ tl, st') /\
    Good prefix rest' tl st' /\ Kills prefix rest rest' /\ slen st' <= mx /\
    PopsL (heap_leb pv) (entries st) popped (entries st') /\
    (popped = [] -> st' = st /\ rest' = rest) /\
    (forall p1 g, popped = p1 ++ [g] -> mx < slen st' + p_len g).
Proof.
  induction fuel as [|fuel IH]; intros rest st G Hf; [lia|].
  cbn [over_loop snd]. destruct (mx <? slen st) eqn:E.
  - apply N.ltb_lt in E.
    assert (Hne : entries st <> []).
    { intros En. rewrite (g_sum _ _ _ _ G), En in E. cbn in E. lia. }
    destruct (delete_oldest_good prefix b18 m rest tl st G Hne) as (rest1 & l1 & e & l2 & Ed & Ees & (Hmin & Hleb) & G1 & K1 & _).
    rewrite Ed. cbn [bind].
    destruct (IH rest1 _ G1) as (rest' & st' & popped & El & G' & K' & Hle & P' & Hnil & Hlast).
    { cbn [entries]. rewrite Ees, app_length in Hf. cbn [length] in Hf. rewrite app_length. lia. }
    exists rest', st', (e :: popped). splits; auto.
    + eapply Kills_trans; eauto.
    + rewrite Ees. constructor; auto. now rewrite <- Ees.
    + discriminate.
    + intros p1 g Ep. destruct p1 as [|a p1]; cbn [app] in Ep.
      * injection Ep as Ee Ep. subst. destruct (Hnil eq_refl) as [-> _]. cbn [slen].
        assert (p_len g <= slen st) by (rewrite (g_sum _ _ _ _ G), Ees; apply sum_member). lia.
      * injection Ep as Ee Ep. eapply Hlast; eauto.
  - apply N.ltb_ge in E. exists rest, st, []. splits; auto using Kills_refl; try constructor.
    intros p1 g Ep. destruct p1; discriminate.
Qed.

Lemma NoDup_log_names (l : list file) : NoDup (live_names l) -> NoDup (map f_name (logs prefix l)).
Proof.
  unfold live_names, listing, logs. induction l as [|f l IH]; cbn [filter map]; [auto|].
  intros H. destruct (islog f) eqn:L.
  - rewrite (islog_alive prefix _ L) in H. cbn [map] in *. inversion H; subst. constructor; auto.
    intros Hin. apply H2. apply in_map_iff in Hin as (g & Eg & Hg). apply in_map_iff. exists g. split; auto.
    apply filter_In in Hg as [Hg Lg]. apply filter_In. split; auto. now apply (islog_alive prefix).
  - destruct (f_alive f); cbn [map] in H; [inversion H; subst|]; auto.
Qed.

Lemma NoDup_app_l {A} (a b : list A) : NoDup (a ++ b) -> NoDup a.
Proof.
  induction a as [|x a IH]; cbn [app]; intros H; [constructor|].
  inversion H; subst. constructor; auto. intros Hin. apply H2. apply in_or_app. now left.
Qed.

Lemma good_names_nodup rest tl st : Good prefix rest tl st -> NoDup (map p_name (entries st)).
Proof.
  intros [Hnd Hn _ _]. rewrite Hn. apply NoDup_log_names.
  rewrite live_names_app in Hnd. now apply NoDup_app_l in Hnd.
Qed.

(* The set-step oracle holds of every deleting call of the model on a state in which heap and
   directory agree ([Good]: the writer's states, and the states reached from PrefixFileSet::new by
   the three deleting calls).  [del] = the names that left the heap = the names of the log files
   that left the directory. *)
Lemma oracle_set_sound m rest tl st o fs' st' :
  Good prefix rest tl st ->
  (o = ODelOldest \/ (exists now dur, o = ODelOlder now dur) \/ (exists mx, o = OWhileOver mx)) ->
  set_step pv m prefix (rest ++ tl, st) o = ROk (fs', st') ->
  exists del rest',
    fs' = rest' ++ tl /\ Good prefix rest' tl st' /\ Kills prefix rest rest' /\
    entries st' = keep_entries del (entries st) /\
    oracle_set_step pv (entries st) o del = true.
Proof.
  intros G Ho Hstep. pose proof (good_names_nodup _ _ _ G) as Hnd.
  assert (Main : forall popped rest', fs' = rest' ++ tl -> Good prefix rest' tl st' -> Kills prefix rest rest' ->
     PopsL (heap_leb pv) (entries st) popped (entries st') ->
     (forall gone, Permutation gone popped ->
        oracle_set_core pv o gone (entries st') = true) ->
     exists del rest'0, fs' = rest'0 ++ tl /\ Good prefix rest'0 tl st' /\ Kills prefix rest rest'0 /\
       entries st' = keep_entries del (entries st) /\ oracle_set_step pv (entries st) o del = true).
  { intros popped rest' Efs G' K P Hcore. destruct (PL_partition _ _ _ _ P Hnd) as [Hk Hg].
    exists (map p_name popped), rest'. splits; auto.
    unfold oracle_set_step. rewrite Hk. apply andb_true_iff. split.
    - apply Nat.eqb_eq. rewrite (Permutation_length Hg). now rewrite map_length.
    - now apply Hcore. }
  destruct Ho as [->|[(now & dur & ->)|(mx & ->)]]; cbn [set_step] in Hstep.
  - (* delete_oldest *)
    assert (Hne : entries st <> []).
    { intros En. unfold delete_oldest in Hstep. rewrite En, pop_nil in Hstep. discriminate. }
    destruct (delete_oldest_good prefix b18 m rest tl st G Hne) as (rest1 & l1 & e & l2 & Ed & Ees & (Hmin & Hleb) & G1 & K1 & _).
    rewrite Ed in Hstep. injection Hstep as <- <-.
    apply (Main [e] rest1); auto.
    + cbn [entries]. rewrite Ees. constructor; [now rewrite <- Ees|constructor].
    + intros gone Pg. apply Permutation_sym, Permutation_length_1_inv in Pg. subst gone.
      cbn [oracle_set_core entries]. unfold oldest_first. cbn [forallb]. rewrite andb_true_r.
      apply forallb_forall. intros k Hk. apply Hleb. rewrite Ees.
      apply in_app_or in Hk. apply in_or_app. cbn. tauto.
  - (* delete_older_than *)
    destruct (delete_older_than_good prefix b18 m now dur rest tl st G) as (rest1 & st1 & Ed & G1 & K1 & P1 & Hthr & _).
    rewrite Ed in Hstep. injection Hstep as <- <-.
    destruct (Pops_PopsL _ _ _ _ P1) as (popped & PL & HF).
    apply (Main popped rest1); auto.
    intros gone Pg. cbn [oracle_set_core]. apply andb_true_iff. split; apply forallb_forall; intros x Hx.
    + apply N.ltb_lt. rewrite Forall_forall in HF. apply HF. eapply Permutation_in; eauto.
    + apply negb_true_iff. apply N.ltb_ge. now apply Hthr.
  - (* delete_oldest_while_over_max_len *)
    unfold while_over in Hstep. cbn [snd] in Hstep.
    destruct (over_loop_last m mx tl (S (length (entries st))) rest st G) as (rest1 & st1 & popped & Ed & G1 & K1 & Hle & PL & Hnil & Hlast); [lia|].
    rewrite Ed in Hstep. injection Hstep as <- <-.
    apply (Main popped rest1); auto.
    intros gone Pg. cbn [oracle_set_core].
    assert (Hsum : sumN (map p_len (entries st1)) = slen st1) by (symmetry; apply (g_sum _ _ _ _ G1)).
    rewrite Hsum. apply andb_true_iff. split; [apply andb_true_iff; split|].
    + now apply N.leb_le.
    + unfold oldest_first. apply forallb_forall. intros g Hg. apply forallb_forall. intros k Hk.
      eapply PL_before; eauto. eapply Permutation_in; eauto.
    + destruct gone as [|g0 gone']; [reflexivity|].
      assert (Hpne : popped <> []).
      { intros En. subst popped. apply Permutation_sym, Permutation_nil in Pg. discriminate. }
      destruct (exists_last Hpne) as (p1 & g & Ep).
      apply existsb_exists. exists g. split.
      * eapply Permutation_in; [symmetry; exact Pg|]. rewrite Ep. apply in_or_app. right. now left.
      * apply andb_true_iff. split.
        -- apply forallb_forall. intros g' Hg'. eapply (PL_last _ (heap_leb_refl pv)); eauto.
           eapply Permutation_in; eauto.
        -- apply N.ltb_lt. eapply Hlast; eauto.
Qed.

(* the hypothesis [Good] holds right after PrefixFileSet::new over any directory with distinct names *)
Lemma set_new_good m fs ts st :
  NoDup (live_names fs) -> total_size post_fix prefix fs < two64 ->
  set_new pv m prefix fs ts = ROk st -> Good prefix fs [] st.
Proof.
  intros Hnd Htot. unfold set_new.
  change (filter (is_log_file pv prefix) fs) with (logs prefix fs). rewrite logs_entry_lens.
  rewrite (sum64_fits m _ 0) by (unfold total_size, log_files in Htot; unfold logs; lia).
  intros [= <-]. constructor; cbn [entries slen].
  - now rewrite app_nil_r.
  - apply logs_entry_names.
  - apply logs_entry_lens.
  - rewrite logs_entry_lens. lia.
Qed.

End SetOracle.
