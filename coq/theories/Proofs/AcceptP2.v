(* Proofs/AcceptP2.v -- unbounded soundness of the scenario oracles of C12 / C13 (the settle loop of
   the scenario interpreter runs to quiescence with the fuel it is given). *)
From Coq Require Import List Arith Bool Lia.
Import ListNotations.
From SV Require Import Model.TokenSet Model.Accept Proofs.AcceptP.

(* ============================================================================================
   C12: with no revocation in the history, the recovery step ends with exactly n live connections
   ============================================================================================ *)

(* measure of the accept task while the permit is NOT revoked *)
Definition pcm (s : st) : nat :=
  match loop s with
  | WaitTokenOrPermit => 3
  | CheckRevoked => 2
  | Accepting => 1
  | SleepAfterError => 4
  | Done => if stopped s then 0 else 1
  end.
Definition lam (m : sim) : nat := 4 * (pending m + errs m) + pcm (sst m).
(* clients that have knocked and are not gone: waiting + live *)
Definition Qn (m : sim) : nat := pending m + length (conns (sst m)).

Lemma loop_action_effect n m a :
  revoked (sst m) = false -> next_loop_action true n m = Some a ->
  exists m', apply_action true n m a = Some m' /\ lam m' < lam m /\ Qn m' = Qn m /\ revoked (sst m') = false.
Proof.
  intros R H. unfold next_loop_action, apply_action, lam, Qn, pcm in *.
  destruct m as [s pe ur nc er trc]. cbn [sst pending errs unread nclients trace] in *.
  destruct s as [l av cs r li stp nid lo]. cbn in R. subst r.
  destruct l; cbn [loop revoked stopped] in *.
  - unfold step_loop in H; cbn in H. destruct av; [discriminate|]. injection H as <-.
    cbn. eexists. split; [reflexivity|]. cbn. repeat split; lia.
  - unfold step_loop in H; cbn in H. injection H as <-. cbn. eexists. split; [reflexivity|]. cbn. repeat split; lia.
  - destruct er.
    + destruct pe; [discriminate|]. injection H as <-. cbn. eexists. split; [reflexivity|]. cbn.
      rewrite app_length. cbn. repeat split; lia.
    + injection H as <-. cbn. eexists. split; [reflexivity|]. cbn. repeat split; lia.
  - unfold step_loop in H; cbn in H. destruct (put n av lo) eqn:P. injection H as <-. cbn. rewrite P.
    eexists. split; [reflexivity|]. cbn. repeat split; lia.
  - unfold step_loop in H; cbn in H. destruct stp; [discriminate|]. injection H as <-. cbn.
    eexists. split; [reflexivity|]. cbn. repeat split; lia.
Qed.

(* a step of a connection task while the permit is not revoked only rewrites one connection *)
Lemma conn_step_shape n s a s' :
  revoked s = false -> (exists k, a = ConnStep k \/ a = ConnReq k) -> step true n s a = Some s' ->
  exists cs', s' = set_conns s cs' /\ length cs' = length (conns s).
Proof.
  intros R [k [-> | ->]] H; cbn [step] in H.
  - destruct (find_conn k (conns s)) as [c|]; [|discriminate].
    destruct (c_phase c); try discriminate; rewrite ?R in H; injection H as <-;
      eexists; (split; [reflexivity|apply update_conn_length]).
  - destruct (find_conn k (conns s)) as [c|]; [|discriminate].
    destruct (c_phase c); try discriminate. injection H as <-.
    eexists; (split; [reflexivity|apply update_conn_length]).
Qed.

Lemma next_conn_action_shape ur cs a :
  next_conn_action ur cs = Some a -> exists k, a = ConnStep k \/ a = ConnReq k.
Proof.
  induction cs as [|c r IH]; cbn; [discriminate|].
  destruct (c_phase c); try (intros [= <-]; eauto; fail); auto.
  destruct (mem_nat (c_id c) ur); [intros [= <-]; eauto|auto].
Qed.

Lemma step_loop_set_conns n s cs :
  match step_loop true n (set_conns s cs) with Some _ => true | None => false end =
  match step_loop true n s with Some _ => true | None => false end.
Proof.
  destruct s as [l av c0 r li stp nid lo]. unfold step_loop, set_conns; cbn.
  destruct l; cbn.
  - destruct av; [destruct r|]; reflexivity.
  - destruct r; [destruct (put n av lo)|]; reflexivity.
  - destruct r; [destruct (put n av lo)|]; reflexivity.
  - destruct (put n av lo); reflexivity.
  - destruct stp; reflexivity.
Qed.

Lemma next_loop_action_set_conns n s cs pe ur nc er trc ur' trc' :
  next_loop_action true n (mk_sim (set_conns s cs) pe ur' nc er trc') = None <->
  next_loop_action true n (mk_sim s pe ur nc er trc) = None.
Proof.
  unfold next_loop_action. cbn [sst errs pending].
  pose proof (step_loop_set_conns n s cs) as E.
  destruct s as [l av c0 r li stp nid lo]. unfold set_conns in *.
  cbn [loop avail conns revoked listening stopped next_id lost] in *.
  destruct l;
    try (match goal with
         | |- (match ?X with Some _ => _ | None => _ end = None) <-> (match ?Y with Some _ => _ | None => _ end = None) =>
             destruct X; destruct Y
         end; try discriminate; split; auto; discriminate).
  destruct er; [destruct pe; [destruct r|]|]; split; auto.
Qed.

Lemma conn_action_effect n m a m' :
  revoked (sst m) = false -> (exists k, a = ConnStep k \/ a = ConnReq k) ->
  apply_action true n m a = Some m' ->
  revoked (sst m') = false /\ Qn m' = Qn m /\
  (next_loop_action true n m = None -> next_loop_action true n m' = None).
Proof.
  intros R K H. unfold apply_action in H. destruct (step true n (sst m) a) as [s'|] eqn:E; [|discriminate].
  destruct (conn_step_shape n _ _ _ R K E) as (cs' & -> & L).
  assert (pending m' = pending m /\ errs m' = errs m /\ sst m' = set_conns (sst m) cs') as (P1&P2&P3).
  { destruct K as [k [-> | ->]]; injection H as <-; cbn; auto. }
  split; [rewrite P3; exact R|]. split; [unfold Qn; rewrite P1, P3; cbn; lia|].
  intros B. clear H E. destruct m as [s pe ur nc er trc], m' as [s1 pe1 ur1 nc1 er1 trc1].
  cbn [sst pending errs] in *. subst.
  apply (proj2 (next_loop_action_set_conns n s cs' _ ur _ _ trc _ _)). exact B.
Qed.

Lemma settle_props full n fuel : forall m,
  revoked (sst m) = false ->
  let m' := settle true full n fuel m in
  revoked (sst m') = false /\ Qn m' = Qn m /\
  ((lam m <= fuel \/ next_loop_action true n m = None) -> next_loop_action true n m' = None).
Proof.
  induction fuel as [|f IH]; intros m R; cbn zeta; cbn [settle].
  - split; [exact R|]. split; [reflexivity|]. intros [L|B]; [|exact B].
    unfold lam, pcm in L. assert (pending m = 0 /\ errs m = 0) as [P E] by lia.
    unfold next_loop_action. destruct (loop (sst m)) eqn:Lp; try lia.
    destruct (stopped (sst m)) eqn:St; [|lia]. unfold step_loop. now rewrite Lp, St.
  - destruct (next_loop_action true n m) as [a|] eqn:NL.
    + destruct (loop_action_effect n m a R NL) as (m1&A&Lt&Q&R1). rewrite A.
      destruct (IH m1 R1) as (I1&I2&I3). split; [exact I1|]. split; [congruence|].
      intros [L|B]; [|discriminate]. apply I3. left. lia.
    + assert (Stay : revoked (sst m) = false /\ Qn m = Qn m /\
                     (lam m <= S f \/ @None action = None -> next_loop_action true n m = None)) by auto.
      destruct full; [|exact Stay].
      destruct (next_conn_action (unread m) (conns (sst m))) as [a|] eqn:NC; [|exact Stay].
      destruct (apply_action true n m a) as [m1|] eqn:A; [|exact Stay].
      destruct (conn_action_effect n m a m1 R (next_conn_action_shape _ _ _ NC) A) as (R1&Q1&B1).
      destruct (IH m1 R1) as (I1&I2&I3). split; [exact I1|]. split; [congruence|].
      intros _. apply I3. right. apply B1. exact NL.
Qed.

Lemma lam_le_fuel m : lam m <= settle_fuel m.
Proof.
  unfold lam, settle_fuel, pcm. destruct (loop (sst m)); try lia. destruct (stopped (sst m)); lia.
Qed.

Definition is_revoke_cmd (c : cmd) : bool := match c with KRevoke => true | _ => false end.

Lemma apply_keeps_unrevoked n m a m' :
  revoked (sst m) = false -> not_revoke a = true -> apply_action true n m a = Some m' -> revoked (sst m') = false.
Proof.
  intros R N H. destruct (apply_action_run _ _ _ _ _ H) as [S _].
  rewrite (step_revoked _ _ _ _ _ S), R, N. reflexivity.
Qed.

(* after every command other than KRevoke of a not-revoked history the accept task is blocked *)
Lemma do_cmd_blocked full n m c :
  revoked (sst m) = false -> is_revoke_cmd c = false ->
  revoked (sst (do_cmd true full n m c)) = false /\ next_loop_action true n (do_cmd true full n m c) = None /\
  (c = KConnect -> Qn (do_cmd true full n m c) = S (Qn m)).
Proof.
  intros R NC. unfold do_cmd.
  set (m1 := match c with KConnect => _ | KEnd _ => _ | KRevoke => _ | KRequest _ => _ | KRelease _ => _ | KErrors _ => _ end).
  assert (R1 : revoked (sst m1) = false).
  { subst m1. destruct c; try exact R; try discriminate.
    - destruct (apply_action true n m (ConnEnd k)) eqn:A; [eapply apply_keeps_unrevoked; eauto; reflexivity|exact R].
    - destruct (find_conn k (conns (sst m))) as [c0|]; [|exact R]. destruct (c_phase c0); try exact R.
      destruct (apply_action true n m (ConnStep k)) eqn:A; [eapply apply_keeps_unrevoked; eauto; reflexivity|exact R]. }
  destruct (settle_props full n (settle_fuel m1) m1 R1) as (S1&S2&S3).
  split; [exact S1|]. split; [apply S3; left; apply lam_le_fuel|].
  intros ->. rewrite S2. subst m1. unfold Qn. cbn. reflexivity.
Qed.

Lemma run_cmds_app_fst fixed full n l1 : forall l2 m,
  fst (run_cmds fixed full n m (l1 ++ l2)) = fst (run_cmds fixed full n (fst (run_cmds fixed full n m l1)) l2).
Proof.
  induction l1 as [|c r IH]; intros l2 m; cbn [app run_cmds]; [reflexivity|].
  specialize (IH l2 (do_cmd fixed full n m c)).
  destruct (run_cmds fixed full n (do_cmd fixed full n m c) (r ++ l2)) as [ma oa].
  destruct (run_cmds fixed full n (do_cmd fixed full n m c) r) as [mb ob]. cbn [fst] in *. exact IH.
Qed.

Lemma run_cmds_unrevoked full n cs : forall m,
  revoked (sst m) = false -> forallb (fun c => negb (is_revoke_cmd c)) cs = true ->
  revoked (sst (fst (run_cmds true full n m cs))) = false.
Proof.
  induction cs as [|c r IH]; intros m R F; cbn [run_cmds]; [exact R|].
  cbn in F. apply andb_true_iff in F as [Fc Fr]. apply negb_true_iff in Fc.
  destruct (do_cmd_blocked full n m c R Fc) as (R1&_).
  specialize (IH _ R1 Fr). destruct (run_cmds true full n (do_cmd true full n m c) r). exact IH.
Qed.

Lemma has_revoke_forallb cs : has_revoke cs = false -> forallb (fun c => negb (is_revoke_cmd c)) cs = true.
Proof.
  induction cs as [|c r IH]; [reflexivity|]. cbn. destruct c; cbn; auto; discriminate.
Qed.

Lemma run_connects full n k : forall m,
  revoked (sst m) = false ->
  let m' := fst (run_cmds true full n m (repeat KConnect (S k))) in
  revoked (sst m') = false /\ next_loop_action true n m' = None /\ Qn m' = Qn m + S k.
Proof.
  induction k as [|k IH]; intros m R; cbn zeta.
  - cbn [repeat run_cmds fst]. destruct (do_cmd_blocked full n m KConnect R eq_refl) as (A&B&C).
    split; [exact A|]. split; [exact B|]. rewrite (C eq_refl). lia.
  - change (repeat KConnect (S (S k))) with (KConnect :: repeat KConnect (S k)). cbn [run_cmds].
    destruct (do_cmd_blocked full n m KConnect R eq_refl) as (A&_&C).
    specialize (IH _ A). cbn zeta in IH.
    destruct (run_cmds true full n (do_cmd true full n m KConnect) (repeat KConnect (S k))) as [mm oo].
    cbn [fst] in *. destruct IH as (I1&I2&I3). split; [exact I1|]. split; [exact I2|]. rewrite I3, (C eq_refl). lia.
Qed.

Lemma blocked_full n m :
  sim_ok true n m -> revoked (sst m) = false -> next_loop_action true n m = None -> S n <= Qn m ->
  length (conns (sst m)) = n.
Proof.
  intros Ok R B Q. pose proof (inv_reachable true n (sst m) (ex_intro _ (trace m) Ok)) as (H1&_&H3&H4&_).
  unfold next_loop_action, Qn in *. unfold held in H1.
  destruct (loop (sst m)) eqn:L.
  - unfold step_loop in B. rewrite L, R in B. destruct (avail (sst m)); [lia|discriminate].
  - unfold step_loop in B. rewrite L, R in B. discriminate.
  - destruct (errs m); [|discriminate]. destruct (pending m); [lia|discriminate].
  - unfold step_loop in B. rewrite L in B. destruct (put n _ _); discriminate.
  - destruct (H4 eq_refl) as [X _]. congruence.
Qed.

Lemma oracle_c12_acc_sound_l full n cs : oracle_c12_acc n cs (scenario true full n cs) = true.
Proof.
  destruct (oracle_c12_acc_safety true full n cs) as [S1 S2].
  unfold oracle_c12_acc. unfold scenario in *.
  pose proof (run_cmds_ok true full n cs (sim_init n) (sim_init_ok true n)) as [Ok _].
  pose proof (run_cmds_unrevoked full n cs (sim_init n) eq_refl) as NR.
  destruct (run_cmds true full n (sim_init n) cs) as [m os]. cbn [fst snd] in *.
  pose proof (run_cmds_ok true full n (recover_cmds n m) m Ok) as [Ok' _].
  pose proof (run_cmds_app_fst true full n (map (fun c => KEnd (c_id c)) (conns (sst m))) (repeat KConnect (S n)) m) as Sp.
  fold (recover_cmds n m) in Sp.
  destruct (run_cmds true full n m (recover_cmds n m)) as [m' os']. cbn [fst snd] in *.
  rewrite S1. apply Nat.leb_le in S2 as S2'. rewrite S2'. cbn [andb].
  destruct (has_revoke cs) eqn:HR; [reflexivity|].
  specialize (NR (has_revoke_forallb cs HR)).
  set (ma := fst (run_cmds true full n m (map (fun c => KEnd (c_id c)) (conns (sst m))))) in *.
  assert (Ra : revoked (sst ma) = false).
  { apply run_cmds_unrevoked; [exact NR|]. clear. induction (conns (sst m)); cbn; auto. }
  destruct (run_connects full n n ma Ra) as (Rb&Bb&Qb). cbn zeta in *. rewrite <- Sp in *.
  apply Nat.eqb_eq. unfold observe; cbn. apply blocked_full; auto. lia.
Qed.

(* ============================================================================================
   C13, connection side: after the revocation every completed response is followed by the server
   closing that connection (on the observable totals), for ALL scenarios
   ============================================================================================ *)

(* ---- connection ids are unique ---- *)
Definition IdInv (s : st) : Prop :=
  NoDup (map c_id (conns s)) /\ Forall (fun c => c_id c < next_id s) (conns s).

Lemma map_update_same k c' cs c :
  find_conn k cs = Some c -> c_id c' = k -> map c_id (update_conn k c' cs) = map c_id cs.
Proof.
  intros F E. induction cs as [|x r IH]; cbn in *; [discriminate|].
  destruct (c_id x =? k) eqn:Ex.
  - cbn. apply Nat.eqb_eq in Ex. congruence.
  - cbn. f_equal. auto.
Qed.

Lemma nodup_remove k cs : NoDup (map c_id cs) -> NoDup (map c_id (remove_conn k cs)).
Proof.
  induction cs as [|x r IH]; cbn; [auto|]. intros N. inversion N; subst.
  destruct (c_id x =? k); [assumption|]. cbn. constructor; [|auto].
  intros Hin. apply H1. clear - Hin. induction r as [|y r IH]; cbn in *; [contradiction|].
  destruct (c_id y =? k); [right; assumption|]. cbn in Hin. destruct Hin; [left; assumption|right; auto].
Qed.

Lemma nodup_snoc {A} (l : list A) x : NoDup l -> ~ In x l -> NoDup (l ++ [x]).
Proof.
  induction l as [|a l IH]; intros N Hx; cbn.
  - constructor; [intros []|constructor].
  - inversion N; subst. constructor.
    + intros Hin. apply in_app_or in Hin as [Hin|[->|[]]]; [contradiction|]. apply Hx. left. reflexivity.
    + apply IH; [assumption|]. intros Hin. apply Hx. right. assumption.
Qed.

Lemma idinv_end n s k : IdInv s -> IdInv (end_conn n s k).
Proof.
  intros [N F]. unfold IdInv, end_conn. destruct (put n (avail s) (lost s)). cbn.
  split; [apply nodup_remove; assumption|apply remove_conn_forall; assumption].
Qed.

Lemma idinv_update s k c c' :
  IdInv s -> find_conn k (conns s) = Some c -> c_id c' = k -> IdInv (set_conns s (update_conn k c' (conns s))).
Proof.
  intros [N F] Fd E. unfold IdInv, set_conns; cbn. split.
  - rewrite (map_update_same k c' _ c Fd E). exact N.
  - apply update_conn_forall; [exact F|]. rewrite E. destruct (find_conn_in _ _ _ Fd) as [Hin Id].
    rewrite <- Id. exact (proj1 (Forall_forall _ _) F c Hin).
Qed.

Lemma idinv_step fixed n s a s' : IdInv s -> step fixed n s a = Some s' -> IdInv s'.
Proof.
  intros I Hs. destruct a; cbn [step] in Hs.
  - destruct I as [N F]. destruct s as [l av cs r li stp nid lo]. unfold IdInv in *. cbn in *.
    unfold step_loop in Hs; cbn in Hs.
    destruct l; [destruct av; [destruct (fixed && r)|]|destruct r; [destruct (put n av lo)|]|
                 destruct r; [destruct (put n av lo)|]|destruct (put n av lo)|destruct stp];
    try discriminate; injection Hs as <-; cbn; auto.
  - destruct I as [N F]. destruct s as [l av cs r li stp nid lo]. unfold IdInv in *. cbn in *.
    destruct l; try discriminate. injection Hs as <-. cbn. split.
    + rewrite map_app. cbn. apply nodup_snoc; [exact N|].
      intros Hin. apply in_map_iff in Hin as (c & E & Hc).
      pose proof (proj1 (Forall_forall _ _) F c Hc). cbn in *. lia.
    + apply Forall_app. split; [eapply Forall_impl; [|exact F]; cbn; intros; lia|constructor; [cbn; lia|constructor]].
  - destruct I as [N F]. destruct s as [l av cs r li stp nid lo]. unfold IdInv in *. cbn in *.
    destruct l; try discriminate. injection Hs as <-. cbn. auto.
  - destruct (find_conn k (conns s)); [|discriminate]. injection Hs as <-. now apply idinv_end.
  - injection Hs as <-. exact I.
  - destruct (find_conn k (conns s)) as [c|] eqn:F; [|discriminate]. destruct (c_phase c); try discriminate.
    injection Hs as <-. eapply idinv_update; eauto. cbn. exact (proj2 (find_conn_in _ _ _ F)).
  - destruct (find_conn k (conns s)) as [c|] eqn:F; [|discriminate].
    pose proof (proj2 (find_conn_in _ _ _ F)) as Id.
    destruct (c_phase c); try discriminate.
    + destruct (revoked s); injection Hs as <-; [now apply idinv_end|eapply idinv_update; eauto].
    + injection Hs as <-. eapply idinv_update; eauto.
    + injection Hs as <-. eapply idinv_update; eauto.
Qed.

Lemma idinv_run fixed n tr : forall s s', IdInv s -> run fixed n s tr = Some s' -> IdInv s'.
Proof.
  induction tr as [|a t IH]; intros s s' I H; cbn in H; [injection H as <-; exact I|].
  destruct (step fixed n s a) eqn:E; [|discriminate]. eapply IH; [eapply idinv_step; eauto|exact H].
Qed.
Lemma idinv_init n : IdInv (init n).
Proof. unfold IdInv, init; cbn. split; constructor. Qed.

Lemma find_first cs c : NoDup (map c_id cs) -> In c cs -> find_conn (c_id c) cs = Some c.
Proof.
  induction cs as [|x r IH]; intros N Hin; [destruct Hin|]. cbn in N. inversion N; subst.
  cbn. destruct Hin as [->|Hin]; [now rewrite Nat.eqb_refl|].
  destruct (c_id x =? c_id c) eqn:E; [|auto].
  apply Nat.eqb_eq in E. exfalso. apply H1. rewrite E. apply in_map. exact Hin.
Qed.

(* ---- a measure of the work the settle loop still has to do ---- *)
Definition uw (ur : list nat) (c : conn) : nat := if mem_nat (c_id c) ur then 1 else 0.
Definition cw (ur : list nat) (c : conn) : nat :=
  match c_phase c with
  | CWriting => 2 + uw ur c
  | CHead => 1 + uw ur c
  | CIdle => uw ur c
  | CHandler => 0
  end.
Fixpoint nu (ur : list nat) (cs : list conn) : nat :=
  match cs with [] => 0 | c :: r => cw ur c + nu ur r end.

Lemma nu_app ur a b : nu ur (a ++ b) = nu ur a + nu ur b.
Proof. induction a as [|x a IH]; cbn; [reflexivity|]. rewrite IH. lia. Qed.

Lemma nu_update k c' cs c ur :
  find_conn k cs = Some c -> nu ur (update_conn k c' cs) + cw ur c = nu ur cs + cw ur c'.
Proof.
  induction cs as [|x r IH]; cbn; [discriminate|]. destruct (c_id x =? k).
  - intros [= ->]. cbn. lia.
  - intros F. cbn. specialize (IH F). lia.
Qed.

Lemma nu_remove k cs c ur : find_conn k cs = Some c -> nu ur (remove_conn k cs) + cw ur c = nu ur cs.
Proof.
  induction cs as [|x r IH]; cbn; [discriminate|]. destruct (c_id x =? k).
  - intros [= ->]. lia.
  - intros F. cbn. specialize (IH F). lia.
Qed.

Lemma mem_del k i ur : mem_nat i (del_nat k ur) = true -> mem_nat i ur = true.
Proof.
  induction ur as [|x r IH]; cbn; [auto|]. destruct (x =? k) eqn:E.
  - intros H. rewrite H. apply orb_true_r.
  - cbn. intros H. apply orb_true_iff in H as [H|H]; [rewrite H; reflexivity|]. rewrite (IH H). apply orb_true_r.
Qed.

Lemma nu_del_le k ur cs : nu (del_nat k ur) cs <= nu ur cs.
Proof.
  induction cs as [|c r IH]; cbn; [lia|].
  assert (cw (del_nat k ur) c <= cw ur c).
  { unfold cw, uw. destruct (mem_nat (c_id c) (del_nat k ur)) eqn:E.
    - rewrite (mem_del _ _ _ E). lia.
    - destruct (mem_nat (c_id c) ur); destruct (c_phase c); lia. }
  lia.
Qed.

Lemma nu_le ur cs : nu ur cs <= 3 * length cs.
Proof.
  induction cs as [|c r IH]; cbn [nu length]; [lia|].
  assert (cw ur c <= 3) by (unfold cw, uw; destruct (c_phase c); destruct (mem_nat (c_id c) ur); lia). lia.
Qed.

Lemma nca_selected ur cs a :
  next_conn_action ur cs = Some a ->
  exists c, In c cs /\
    ((a = ConnStep (c_id c) /\ (c_phase c = CHead \/ c_phase c = CWriting)) \/
     (a = ConnReq (c_id c) /\ c_phase c = CIdle /\ mem_nat (c_id c) ur = true)).
Proof.
  induction cs as [|c r IH]; cbn; [discriminate|].
  destruct (c_phase c) eqn:P.
  - intros [= <-]. exists c. split; [left; reflexivity|]. left. auto.
  - destruct (mem_nat (c_id c) ur) eqn:M.
    + intros [= <-]. exists c. split; [left; reflexivity|]. right. auto.
    + intros H. destruct (IH H) as (c0&Hin&K). exists c0. split; [right; assumption|exact K].
  - intros H. destruct (IH H) as (c0&Hin&K). exists c0. split; [right; assumption|exact K].
  - intros [= <-]. exists c. split; [left; reflexivity|]. left. auto.
Qed.

Lemma nca_none ur cs :
  next_conn_action ur cs = None -> Forall (fun c => c_phase c <> CHead /\ c_phase c <> CWriting) cs.
Proof.
  induction cs as [|c r IH]; cbn; [constructor|].
  destruct (c_phase c) eqn:P; try discriminate.
  - destruct (mem_nat (c_id c) ur); [discriminate|]. intros H. constructor; [rewrite P; split; discriminate|auto].
  - intros H. constructor; [rewrite P; split; discriminate|auto].
Qed.

Definition pm (s : st) : nat := if revoked s then mu s else pcm s.
Definition Mm (m : sim) : nat := pm (sst m) + 6 * pending m + 4 * errs m + nu (unread m) (conns (sst m)).

Lemma loop_action_dec n m a :
  next_loop_action true n m = Some a -> exists m', apply_action true n m a = Some m' /\ Mm m' < Mm m.
Proof.
  intros H. unfold next_loop_action, apply_action, Mm, pm, mu, pcm in *.
  destruct m as [s pe ur nc er trc]. cbn [sst pending errs unread nclients trace] in *.
  destruct s as [l av cs r li stp nid lo].
  destruct l; cbn [loop revoked stopped] in *.
  - unfold step_loop in H; cbn in H. destruct av.
    + destruct r; [|discriminate]. injection H as <-. cbn. eexists. split; [reflexivity|]. cbn. destruct stp; lia.
    + injection H as <-. cbn. eexists. split; [reflexivity|]. cbn. destruct r; lia.
  - unfold step_loop in H; cbn in H. destruct r.
    + destruct (put n av lo) eqn:P. injection H as <-. cbn. rewrite P. eexists. split; [reflexivity|]. cbn. destruct stp; lia.
    + injection H as <-. cbn. eexists. split; [reflexivity|]. cbn. lia.
  - destruct er.
    + destruct pe.
      * destruct r; [|discriminate]. injection H as <-. cbn. destruct (put n av lo) eqn:P.
        eexists. split; [reflexivity|]. cbn. lia.
      * injection H as <-. cbn. eexists. split; [reflexivity|]. cbn. rewrite nu_app. cbn.
        unfold cw, uw; cbn. destruct (mem_nat nid ur); destruct r; lia.
    + injection H as <-. cbn. eexists. split; [reflexivity|]. cbn. destruct r; lia.
  - unfold step_loop in H; cbn in H. destruct (put n av lo) eqn:P. injection H as <-. cbn. rewrite P.
    eexists. split; [reflexivity|]. cbn. destruct r; lia.
  - unfold step_loop in H; cbn in H. destruct stp; [discriminate|]. injection H as <-. cbn.
    eexists. split; [reflexivity|]. cbn. destruct r; lia.
Qed.

Lemma pm_set_conns s cs : pm (set_conns s cs) = pm s.
Proof. destruct s. reflexivity. Qed.
Lemma pm_end_conn n s k : pm (end_conn n s k) = pm s.
Proof. unfold end_conn. destruct (put n (avail s) (lost s)). destruct s. reflexivity. Qed.

Lemma conn_action_dec n m a :
  IdInv (sst m) -> next_conn_action (unread m) (conns (sst m)) = Some a ->
  exists m', apply_action true n m a = Some m' /\ Mm m' < Mm m.
Proof.
  intros [N _] H. destruct (nca_selected _ _ _ H) as (c&Hin&K).
  pose proof (find_first _ _ N Hin) as F.
  unfold apply_action, Mm.
  destruct K as [[-> P]|(-> & P & M)]; cbn [step]; rewrite F.
  - destruct P as [P|P]; rewrite P.
    + destruct (revoked (sst m)) eqn:R.
      * eexists. split; [reflexivity|]. cbn [sst pending errs unread]. rewrite pm_end_conn.
        pose proof (nu_remove (c_id c) _ c (unread m) F) as E.
        assert (conns (end_conn n (sst m) (c_id c)) = remove_conn (c_id c) (conns (sst m))) as ->
          by (unfold end_conn; destruct (put n _ _); reflexivity).
        unfold cw in E. rewrite P in E. lia.
      * eexists. split; [reflexivity|]. cbn [sst pending errs unread set_conns conns]. rewrite pm_set_conns.
        pose proof (nu_update (c_id c) (mk_conn (c_id c) CIdle (c_reqs c) (c_after c) (c_done c) (c_born_revoked c)) _ c (unread m) F) as E.
        unfold cw, uw in E. cbn in E. rewrite P in E. lia.
    + eexists. split; [reflexivity|]. cbn [sst pending errs unread set_conns conns]. rewrite pm_set_conns.
      pose proof (nu_update (c_id c) (mk_conn (c_id c) CHead (c_reqs c) (c_after c) (S (c_done c)) (c_born_revoked c)) _ c (unread m) F) as E.
      unfold cw, uw in E. cbn in E. rewrite P in E. lia.
  - rewrite P. eexists. split; [reflexivity|]. cbn [sst pending errs unread set_conns conns]. rewrite pm_set_conns.
    set (c' := mk_conn (c_id c) CHandler (S (c_reqs c)) (if revoked (sst m) then S (c_after c) else c_after c) (c_done c) (c_born_revoked c)).
    pose proof (nu_update (c_id c) c' _ c (unread m) F) as E.
    pose proof (nu_del_le (c_id c) (unread m) (update_conn (c_id c) c' (conns (sst m)))) as L.
    unfold cw, uw in E. cbn in E. rewrite P, M in E. lia.
Qed.

Lemma apply_idinv n m a m' : IdInv (sst m) -> apply_action true n m a = Some m' -> IdInv (sst m').
Proof. intros I H. destruct (apply_action_run _ _ _ _ _ H) as [S _]. eapply idinv_step; eauto. Qed.

(* with fuel above the measure the settle loop stops only when nothing can move any more *)
Lemma settle_quiesces full n fuel : forall m,
  IdInv (sst m) -> Mm m < fuel ->
  let m' := settle true full n fuel m in
  next_loop_action true n m' = None /\
  (full = true -> next_conn_action (unread m') (conns (sst m')) = None).
Proof.
  induction fuel as [|f IH]; intros m I L; [lia|]. cbn zeta. cbn [settle].
  destruct (next_loop_action true n m) as [a|] eqn:NL.
  - destruct (loop_action_dec n m a NL) as (m1&A&D). rewrite A. apply IH; [eapply apply_idinv; eauto|lia].
  - destruct full.
    + destruct (next_conn_action (unread m) (conns (sst m))) as [a|] eqn:NC.
      * destruct (conn_action_dec n m a I NC) as (m1&A&D). rewrite A. apply IH; [eapply apply_idinv; eauto|lia].
      * split; [exact NL|intros _; exact NC].
    + split; [exact NL|discriminate].
Qed.

Lemma Mm_lt_fuel m : Mm m < settle_fuel m.
Proof.
  unfold Mm, settle_fuel, pm, mu, pcm. pose proof (nu_le (unread m) (conns (sst m))).
  destruct (revoked (sst m)); destruct (loop (sst m)); try lia; destruct (stopped (sst m)); lia.
Qed.

(* ---- the totals along a trace ---- *)
Definition dinc (s : st) (a : action) : nat :=
  match a with
  | ConnStep k => match find_conn k (conns s) with
                  | Some c => match c_phase c with CWriting => 1 | _ => 0 end
                  | None => 0 end
  | _ => 0
  end.
Definition xinc (s : st) (a : action) : nat :=
  match a with
  | ConnStep k => match find_conn k (conns s) with
                  | Some c => match c_phase c with CHead => if revoked s then 1 else 0 | _ => 0 end
                  | None => 0 end
  | _ => 0
  end.

Lemma totals_cons fixed n s a r t :
  exists t', t_done t' = t_done t + dinc s a /\ t_closed t' = t_closed t + xinc s a /\
    totals_run fixed n s (a :: r) t =
    match step fixed n s a with Some s' => totals_run fixed n s' r t' | None => t' end.
Proof.
  cbn [totals_run]. eexists. split; [|split; [|reflexivity]].
  - unfold dinc. destruct a; cbn; try lia.
    + destruct (find_conn k (conns s)) as [c|]; [|lia]. destruct (c_phase c); cbn; lia.
    + destruct (find_conn k (conns s)) as [c|]; [|lia]. destruct (c_phase c); cbn; try lia. destruct (revoked s); cbn; lia.
  - unfold xinc. destruct a; cbn; try lia.
    + destruct (find_conn k (conns s)) as [c|]; [|lia]. destruct (c_phase c); cbn; lia.
    + destruct (find_conn k (conns s)) as [c|]; [|lia]. destruct (c_phase c); cbn; try lia. destruct (revoked s); cbn; lia.
Qed.

Fixpoint dsum (fixed : bool) (n : nat) (s : st) (tr : list action) : nat * nat :=
  match tr with
  | [] => (0, 0)
  | a :: r =>
      match step fixed n s a with
      | Some s' => let '(d, x) := dsum fixed n s' r in (dinc s a + d, xinc s a + x)
      | None => (dinc s a, xinc s a)
      end
  end.

Lemma totals_run_dsum fixed n tr : forall s t,
  t_done (totals_run fixed n s tr t) = t_done t + fst (dsum fixed n s tr) /\
  t_closed (totals_run fixed n s tr t) = t_closed t + snd (dsum fixed n s tr).
Proof.
  induction tr as [|a r IH]; intros s t.
  - cbn. lia.
  - destruct (totals_cons fixed n s a r t) as (t'&E1&E2&->). cbn [dsum].
    destruct (step fixed n s a) as [s'|].
    + destruct (IH s' t') as [I1 I2]. destruct (dsum fixed n s' r) as [d x]. cbn [fst snd] in *. lia.
    + cbn [fst snd]. lia.
Qed.

Lemma dsum_app fixed n tr1 : forall tr2 s s1,
  run fixed n s tr1 = Some s1 ->
  fst (dsum fixed n s (tr1 ++ tr2)) = fst (dsum fixed n s tr1) + fst (dsum fixed n s1 tr2) /\
  snd (dsum fixed n s (tr1 ++ tr2)) = snd (dsum fixed n s tr1) + snd (dsum fixed n s1 tr2).
Proof.
  induction tr1 as [|a r IH]; intros tr2 s s1 H; cbn in H.
  - injection H as <-. cbn. lia.
  - cbn [app dsum]. destruct (step fixed n s a) as [s'|]; [|discriminate].
    destruct (IH tr2 s' s1 H) as [I1 I2].
    destruct (dsum fixed n s' (r ++ tr2)) as [d x]. destruct (dsum fixed n s' r) as [d1 x1]. cbn [fst snd] in *. lia.
Qed.

Definition Dm (n : nat) (m : sim) : nat := t_done (sim_totals true n m).
Definition Xm (n : nat) (m : sim) : nat := t_closed (sim_totals true n m).

Lemma totals_extend n m m' tr :
  sim_ok true n m -> run true n (sst m) tr = Some (sst m') -> trace m' = trace m ++ tr ->
  Dm n m' = Dm n m + fst (dsum true n (sst m) tr) /\ Xm n m' = Xm n m + snd (dsum true n (sst m) tr).
Proof.
  intros Ok R T. unfold Dm, Xm, sim_totals. rewrite T.
  destruct (totals_run_dsum true n (trace m ++ tr) (init n) (mk_totals 0 0 0)) as [A1 A2].
  destruct (totals_run_dsum true n (trace m) (init n) (mk_totals 0 0 0)) as [B1 B2].
  destruct (dsum_app true n (trace m) tr (init n) (sst m) Ok) as [C1 C2].
  cbn [t_done t_closed] in *. lia.
Qed.

Lemma apply_ok n m a m' : sim_ok true n m -> apply_action true n m a = Some m' -> sim_ok true n m'.
Proof.
  unfold sim_ok. intros Ok H. destruct (apply_action_run _ _ _ _ _ H) as [S T].
  rewrite T, (run_app _ _ _ _ _ _ Ok). cbn. now rewrite S.
Qed.

Lemma apply_totals n m a m' :
  sim_ok true n m -> apply_action true n m a = Some m' ->
  Dm n m' = Dm n m + dinc (sst m) a /\ Xm n m' = Xm n m + xinc (sst m) a.
Proof.
  intros Ok H. destruct (apply_action_run _ _ _ _ _ H) as [S T].
  assert (R : run true n (sst m) [a] = Some (sst m')) by (cbn; now rewrite S).
  destruct (totals_extend n m m' [a] Ok R T) as [A B]. cbn [dsum] in A, B. rewrite S in A, B. cbn in A, B. lia.
Qed.

(* connections at their loop head *)
Definition isH (c : conn) : nat := match c_phase c with CHead => 1 | _ => 0 end.
Fixpoint Hc (cs : list conn) : nat := match cs with [] => 0 | c :: r => isH c + Hc r end.

Lemma Hc_update k c' cs c : find_conn k cs = Some c -> Hc (update_conn k c' cs) + isH c = Hc cs + isH c'.
Proof.
  induction cs as [|x r IH]; cbn; [discriminate|]. destruct (c_id x =? k).
  - intros [= ->]. cbn. lia.
  - intros F. cbn. specialize (IH F). lia.
Qed.
Lemma Hc_remove k cs c : find_conn k cs = Some c -> Hc (remove_conn k cs) + isH c = Hc cs.
Proof.
  induction cs as [|x r IH]; cbn; [discriminate|]. destruct (c_id x =? k).
  - intros [= ->]. lia.
  - intros F. cbn. specialize (IH F). lia.
Qed.
Lemma Hc_zero cs : Forall (fun c => c_phase c <> CHead /\ c_phase c <> CWriting) cs -> Hc cs = 0.
Proof.
  induction 1 as [|c r [H1 _] _ IH]; [reflexivity|]. cbn. rewrite IH. unfold isH. destruct (c_phase c); try reflexivity. congruence.
Qed.

Definition Hm (m : sim) : nat := Hc (conns (sst m)).

Lemma conns_end_conn n s k : conns (end_conn n s k) = remove_conn k (conns s).
Proof. unfold end_conn. destruct (put n (avail s) (lost s)). reflexivity. Qed.

(* one step once the accept loop has returned (hence the permit is revoked): a response completed
   puts its connection at the loop head, a connection at the loop head closes *)
Lemma step_account n s a s' :
  revoked s = true -> loop s = Done -> step true n s a = Some s' ->
  revoked s' = true /\ loop s' = Done /\
  match a with
  | ConnEnd _ => dinc s a = 0 /\ xinc s a = 0 /\ Hc (conns s') <= Hc (conns s)
  | _ => dinc s a + Hc (conns s) = xinc s a + Hc (conns s')
  end.
Proof.
  intros R L Hs.
  destruct (done_is_final _ _ _ _ _ L Hs) as (L'&_).
  pose proof (step_revoked _ _ _ _ _ Hs) as R'. rewrite R in R'. cbn in R'.
  split; [exact R'|]. split; [exact L'|].
  destruct a; cbn [step dinc xinc] in *.
  - unfold step_loop in Hs. rewrite L in Hs. destruct (stopped s); [discriminate|]. injection Hs as <-. reflexivity.
  - rewrite L in Hs. discriminate.
  - rewrite L in Hs. discriminate.
  - destruct (find_conn k (conns s)) as [c|] eqn:F; [|discriminate]. injection Hs as <-.
    rewrite conns_end_conn. pose proof (Hc_remove _ _ _ F). repeat split; lia.
  - injection Hs as <-. reflexivity.
  - destruct (find_conn k (conns s)) as [c|] eqn:F; [|discriminate]. destruct (c_phase c) eqn:P; try discriminate.
    injection Hs as <-. cbn [set_conns conns].
    pose proof (Hc_update k (mk_conn (c_id c) CHandler (S (c_reqs c)) (if revoked s then S (c_after c) else c_after c) (c_done c) (c_born_revoked c)) _ c F) as E.
    unfold isH in E. cbn in E. rewrite P in E. lia.
  - destruct (find_conn k (conns s)) as [c|] eqn:F; [|discriminate]. destruct (c_phase c) eqn:P; try discriminate.
    + rewrite R in *. injection Hs as <-. rewrite conns_end_conn. pose proof (Hc_remove _ _ _ F) as E.
      unfold isH in E. rewrite P in E. lia.
    + injection Hs as <-. cbn [set_conns conns].
      pose proof (Hc_update k (mk_conn (c_id c) CWriting (c_reqs c) (c_after c) (c_done c) (c_born_revoked c)) _ c F) as E.
      unfold isH in E. cbn in E. rewrite P in E. lia.
    + injection Hs as <-. cbn [set_conns conns].
      pose proof (Hc_update k (mk_conn (c_id c) CHead (c_reqs c) (c_after c) (S (c_done c)) (c_born_revoked c)) _ c F) as E.
      unfold isH in E. cbn in E. rewrite P in E. lia.
Qed.

Definition not_end (a : action) : bool := match a with ConnEnd _ => false | _ => true end.

Lemma apply_account n m a m' :
  sim_ok true n m -> revoked (sst m) = true -> loop (sst m) = Done -> not_end a = true ->
  apply_action true n m a = Some m' ->
  sim_ok true n m' /\ revoked (sst m') = true /\ loop (sst m') = Done /\ pending m' = pending m /\
  Dm n m' + Xm n m + Hm m = Xm n m' + Dm n m + Hm m'.
Proof.
  intros Ok R L NE H. destruct (apply_action_run _ _ _ _ _ H) as [S _].
  destruct (step_account n _ _ _ R L S) as (R'&L'&Acc).
  destruct (apply_totals n m a m' Ok H) as [D X].
  split; [eapply apply_ok; eauto|]. split; [exact R'|]. split; [exact L'|]. split.
  - unfold apply_action in H. rewrite S in H. injection H as <-. cbn.
    destruct a; try reflexivity. cbn in S. rewrite L in S. discriminate.
  - unfold Hm. destruct a; try discriminate; lia.
Qed.

Lemma loop_action_not_end n m a : next_loop_action true n m = Some a -> not_end a = true.
Proof.
  unfold next_loop_action. destruct (loop (sst m)).
  1,2,4,5: destruct (step_loop true n (sst m)); [intros [= <-]; reflexivity|discriminate].
  destruct (errs m); [destruct (pending m); [destruct (revoked (sst m)); [|discriminate]|]|]; intros [= <-]; reflexivity.
Qed.
Lemma conn_action_not_end ur cs a : next_conn_action ur cs = Some a -> not_end a = true.
Proof. intros H. destruct (next_conn_action_shape _ _ _ H) as [k [-> | ->]]; reflexivity. Qed.

Lemma settle_account full n fuel : forall m,
  sim_ok true n m -> revoked (sst m) = true -> loop (sst m) = Done ->
  let m' := settle true full n fuel m in
  sim_ok true n m' /\ revoked (sst m') = true /\ loop (sst m') = Done /\ pending m' = pending m /\
  Dm n m' + Xm n m + Hm m = Xm n m' + Dm n m + Hm m'.
Proof.
  induction fuel as [|f IH]; intros m Ok R L; cbn zeta; cbn [settle].
  - repeat split; auto. lia.
  - assert (Stay : sim_ok true n m /\ revoked (sst m) = true /\ loop (sst m) = Done /\ pending m = pending m /\
                   Dm n m + Xm n m + Hm m = Xm n m + Dm n m + Hm m) by (repeat split; auto; lia).
    assert (Go : forall a, not_end a = true ->
              let m' := match apply_action true n m a with Some m1 => settle true full n f m1 | None => m end in
              sim_ok true n m' /\ revoked (sst m') = true /\ loop (sst m') = Done /\ pending m' = pending m /\
              Dm n m' + Xm n m + Hm m = Xm n m' + Dm n m + Hm m').
    { intros a NE. cbn zeta. destruct (apply_action true n m a) as [m1|] eqn:A; [|exact Stay].
      destruct (apply_account n m a m1 Ok R L NE A) as (Ok1&R1&L1&P1&E1).
      destruct (IH m1 Ok1 R1 L1) as (Ok2&R2&L2&P2&E2). repeat split; auto; lia. }
    destruct (next_loop_action true n m) as [a|] eqn:NL.
    + apply Go. eapply loop_action_not_end; eauto.
    + destruct full; [|exact Stay].
      destruct (next_conn_action (unread m) (conns (sst m))) as [a|] eqn:NC; [|exact Stay].
      apply Go. eapply conn_action_not_end; eauto.
Qed.

(* ---- one command ---- *)
Definition pre_cmd (full : bool) (n : nat) (m : sim) (c : cmd) : sim :=
  match c with
  | KConnect =>
      mk_sim (sst m) (S (pending m)) (if full then unread m ++ [nclients m] else unread m)
             (S (nclients m)) (errs m) (trace m)
  | KEnd k => match apply_action true n m (ConnEnd k) with Some m' => m' | None => m end
  | KRevoke => match apply_action true n m Revoke with Some m' => m' | None => m end
  | KRequest k => mk_sim (sst m) (pending m) (unread m ++ [k]) (nclients m) (errs m) (trace m)
  | KRelease k =>
      match find_conn k (conns (sst m)) with
      | Some c => match c_phase c with
                  | CHandler => match apply_action true n m (ConnStep k) with Some m' => m' | None => m end
                  | _ => m
                  end
      | None => m
      end
  | KErrors e => mk_sim (sst m) (pending m) (unread m) (nclients m) (errs m + e) (trace m)
  end.

Lemma do_cmd_eq full n m c :
  do_cmd true full n m c = settle true full n (settle_fuel (pre_cmd full n m c)) (pre_cmd full n m c).
Proof. destruct c; reflexivity. Qed.

Lemma same_trace_totals n m m1 : sst m1 = sst m -> trace m1 = trace m -> Dm n m1 = Dm n m /\ Xm n m1 = Xm n m.
Proof. intros _ T. unfold Dm, Xm, sim_totals. rewrite T. auto. Qed.

Lemma pre_cmd_ok full n m c : sim_ok true n m -> sim_ok true n (pre_cmd full n m c).
Proof.
  intros Ok. destruct c; cbn [pre_cmd]; try exact Ok.
  - destruct (apply_action true n m (ConnEnd k)) eqn:A; [eapply apply_ok; eauto|exact Ok].
  - destruct (apply_action true n m Revoke) eqn:A; [eapply apply_ok; eauto|exact Ok].
  - destruct (find_conn k (conns (sst m))) as [c0|]; [|exact Ok]. destruct (c_phase c0); try exact Ok.
    destruct (apply_action true n m (ConnStep k)) eqn:A; [eapply apply_ok; eauto|exact Ok].
Qed.

Lemma sim_ok_idinv n m : sim_ok true n m -> IdInv (sst m).
Proof. intros Ok. eapply idinv_run; [apply idinv_init|exact Ok]. Qed.

(* after every command of a full-server scenario no connection is left at its loop head *)
Lemma do_cmd_quiet n m c : sim_ok true n m -> Hm (do_cmd true true n m c) = 0.
Proof.
  intros Ok. rewrite do_cmd_eq. set (m1 := pre_cmd true n m c).
  pose proof (pre_cmd_ok true n m c Ok) as Ok1. fold m1 in Ok1.
  destruct (settle_quiesces true n (settle_fuel m1) m1 (sim_ok_idinv n m1 Ok1) (Mm_lt_fuel m1)) as [_ Q].
  unfold Hm. apply Hc_zero. eapply nca_none. apply Q. reflexivity.
Qed.

Lemma pre_cmd_rev full n m c :
  sim_ok true n m -> revoked (sst m) = true -> loop (sst m) = Done ->
  let m1 := pre_cmd full n m c in
  revoked (sst m1) = true /\ loop (sst m1) = Done /\ Dm n m1 = Dm n m /\ Xm n m1 = Xm n m /\
  Hm m1 <= Hm m /\ pending m <= pending m1.
Proof.
  intros Ok R L. cbn zeta.
  assert (Same : revoked (sst m) = true /\ loop (sst m) = Done /\ Dm n m = Dm n m /\ Xm n m = Xm n m /\
                 Hm m <= Hm m /\ pending m <= pending m) by (repeat split; auto).
  assert (Ap : forall a, (match a with ConnEnd _ => True | _ => dinc (sst m) a = 0 /\ xinc (sst m) a = 0 end) ->
             let m1 := match apply_action true n m a with Some m' => m' | None => m end in
             revoked (sst m1) = true /\ loop (sst m1) = Done /\ Dm n m1 = Dm n m /\ Xm n m1 = Xm n m /\
             Hm m1 <= Hm m /\ pending m <= pending m1).
  { intros a Ha. cbn zeta. destruct (apply_action true n m a) as [m1|] eqn:A; [|exact Same].
    destruct (apply_action_run _ _ _ _ _ A) as [S _].
    destruct (step_account n _ _ _ R L S) as (R1&L1&Acc).
    destruct (apply_totals n m a m1 Ok A) as [D X].
    assert (P : pending m <= pending m1).
    { pose proof S as S0. unfold apply_action in A. rewrite S in A. injection A as <-. cbn.
      destruct a; try lia. cbn in S0. rewrite L in S0. discriminate. }
    unfold Hm. destruct a; repeat split; auto; try lia. }
  destruct c; cbn [pre_cmd].
  - destruct (same_trace_totals n m (mk_sim (sst m) (S (pending m)) (if full then unread m ++ [nclients m] else unread m)
                (S (nclients m)) (errs m) (trace m)) eq_refl eq_refl) as [D X].
    repeat split; auto. cbn. lia.
  - apply Ap. exact I.
  - apply Ap. cbn. auto.
  - destruct (same_trace_totals n m (mk_sim (sst m) (pending m) (unread m ++ [k]) (nclients m) (errs m) (trace m)) eq_refl eq_refl) as [D X].
    repeat split; auto.
  - destruct (find_conn k (conns (sst m))) as [c0|] eqn:F; [|exact Same]. destruct (c_phase c0) eqn:P; try exact Same.
    apply Ap. cbn. rewrite F, P. auto.
  - destruct (same_trace_totals n m (mk_sim (sst m) (pending m) (unread m) (nclients m) (errs m + e) (trace m)) eq_refl eq_refl) as [D X].
    repeat split; auto.
Qed.

Lemma do_cmd_mono full n m c :
  sim_ok true n m -> Dm n m <= Dm n (do_cmd true full n m c) /\ Xm n m <= Xm n (do_cmd true full n m c).
Proof.
  intros Ok. destruct (do_cmd_run true full n m c) as (tr&R&T&_).
  destruct (totals_extend n m _ tr Ok R T). lia.
Qed.

(* direct-drive scenarios: connection tasks are frozen, no response is ever completed *)
Lemma loop_action_dinc n m a s : next_loop_action true n m = Some a -> dinc s a = 0.
Proof.
  unfold next_loop_action. destruct (loop (sst m)).
  1,2,4,5: destruct (step_loop true n (sst m)); [intros [= <-]; reflexivity|discriminate].
  destruct (errs m); [destruct (pending m); [destruct (revoked (sst m)); [|discriminate]|]|]; intros [= <-]; reflexivity.
Qed.

Lemma settle_nofull_D n fuel : forall m,
  sim_ok true n m -> Dm n (settle true false n fuel m) = Dm n m.
Proof.
  induction fuel as [|f IH]; intros m Ok; cbn [settle]; [reflexivity|].
  destruct (next_loop_action true n m) as [a|] eqn:NL; [|reflexivity].
  destruct (apply_action true n m a) as [m1|] eqn:A; [|reflexivity].
  destruct (apply_totals n m a m1 Ok A) as [D _]. rewrite (loop_action_dinc n m a (sst m) NL) in D.
  rewrite IH by (eapply apply_ok; eauto). lia.
Qed.

Lemma do_cmd_nofull_D n m c : sim_ok true n m -> Dm n (do_cmd true false n m c) = Dm n m.
Proof.
  intros Ok. rewrite do_cmd_eq. rewrite settle_nofull_D by (apply pre_cmd_ok; exact Ok).
  assert (Ap : forall a, dinc (sst m) a = 0 ->
             Dm n (match apply_action true n m a with Some m' => m' | None => m end) = Dm n m).
  { intros a Ha. destruct (apply_action true n m a) as [m1|] eqn:A; [|reflexivity].
    destruct (apply_totals n m a m1 Ok A) as [D _]. lia. }
  destruct c; cbn [pre_cmd]; try reflexivity.
  - apply Ap. reflexivity.
  - apply Ap. reflexivity.
  - destruct (find_conn k (conns (sst m))) as [c0|] eqn:F; [|reflexivity]. destruct (c_phase c0) eqn:P; try reflexivity.
    apply Ap. cbn. now rewrite F, P.
Qed.

(* ---- the walk ---- *)
Definition Jinv (full : bool) (n : nat) (m : sim) : Prop :=
  sim_ok true n m /\ (revoked (sst m) = true -> stopped (sst m) = true) /\ (full = true -> Hm m = 0).

Lemma jinv_init full n : Jinv full n (sim_init n).
Proof. unfold Jinv. split; [apply sim_init_ok|]. split; [discriminate|reflexivity]. Qed.

Lemma jinv_do_cmd full n m c : Jinv full n m -> Jinv full n (do_cmd true full n m c).
Proof.
  intros (Ok&_&_). split; [apply do_cmd_ok; exact Ok|]. split.
  - apply do_cmd_stopped_when_revoked.
  - intros ->. apply do_cmd_quiet. exact Ok.
Qed.

Lemma cmd_step_ok full n m c :
  Jinv full n m ->
  let m' := do_cmd true full n m c in
  Dm n m <= Dm n m' /\ sim_closed true n m <= sim_closed true n m' /\
  (revoked (sst m) = true -> Dm n m' - Dm n m <= sim_closed true n m' - sim_closed true n m).
Proof.
  intros (Ok&RS&HQ). cbn zeta.
  destruct (do_cmd_mono full n m c Ok) as [MD MX].
  pose proof (do_cmd_ok true full n m c Ok) as Ok'.
  assert (R0 : reachable true n (sst m)) by (exists (trace m); exact Ok).
  pose proof (inv_reachable _ _ _ R0) as (_&_&I3&I4&I5&_).
  unfold sim_closed. fold (Xm n m). fold (Xm n (do_cmd true full n m c)).
  destruct (revoked (sst m)) eqn:R.
  - (* revoked: the loop has returned *)
    pose proof (I3 (RS eq_refl)) as L. destruct (I4 L) as [_ Li]. rewrite Li.
    pose proof (pre_cmd_rev full n m c Ok R L) as P. cbn zeta in P.
    destruct P as (R1&L1&D1&X1&H1&P1).
    pose proof (pre_cmd_ok full n m c Ok) as Ok1.
    pose proof (settle_account full n (settle_fuel (pre_cmd full n m c)) (pre_cmd full n m c) Ok1 R1 L1) as S.
    cbn zeta in S. rewrite <- do_cmd_eq in S. destruct S as (_&R2&L2&P2&E2).
    assert (R2' : reachable true n (sst (do_cmd true full n m c))) by (eexists; exact Ok').
    pose proof (inv_reachable _ _ _ R2') as (_&_&_&I4'&_). destruct (I4' L2) as [_ Li']. rewrite Li'.
    split; [exact MD|]. split; [lia|]. intros _.
    destruct full.
    + pose proof (do_cmd_quiet n m c Ok) as Q. specialize (HQ eq_refl). lia.
    + rewrite (do_cmd_nofull_D n m c Ok). lia.
  - split; [exact MD|]. split; [|discriminate].
    assert (Li : listening (sst m) = true).
    { apply I5. intros D. destruct (I4 D). congruence. }
    rewrite Li. destruct (listening (sst (do_cmd true full n m c))); lia.
Qed.

Lemma oracle_c13_conn_walk_sound full n cs : forall m,
  Jinv full n m ->
  oracle_c13_conn_walk (revoked (sst m)) (Dm n m, sim_closed true n m) cs (totals_cmds true full n m cs) = true.
Proof.
  induction cs as [|c r IH]; intros m J; cbn [totals_cmds oracle_c13_conn_walk]; [reflexivity|].
  destruct (cmd_step_ok full n m c J) as (A&B&C). cbn zeta in *.
  fold (Dm n (do_cmd true full n m c)). cbn [fst snd].
  assert (E1 : (Dm n m <=? Dm n (do_cmd true full n m c)) = true) by (apply Nat.leb_le; exact A).
  assert (E2 : (sim_closed true n m <=? sim_closed true n (do_cmd true full n m c)) = true) by (apply Nat.leb_le; exact B).
  rewrite E1, E2. cbn [andb].
  assert (E3 : (if revoked (sst m)
                then Dm n (do_cmd true full n m c) - Dm n m <=? sim_closed true n (do_cmd true full n m c) - sim_closed true n m
                else true) = true).
  { destruct (revoked (sst m)); [apply Nat.leb_le; apply C; reflexivity|reflexivity]. }
  rewrite E3. cbn [andb].
  rewrite <- (do_cmd_revoked true full n m c). apply IH. apply jinv_do_cmd. exact J.
Qed.

Lemma oracle_c13_conn_sound_l full n cs : oracle_c13_conn cs (totals_cmds true full n (sim_init n) cs) = true.
Proof.
  unfold oracle_c13_conn.
  pose proof (oracle_c13_conn_walk_sound full n cs (sim_init n) (jinv_init full n)) as H.
  exact H.
Qed.
