(* Proofs/LogFileP.v -- PrefixFileSet: arithmetic, heap pop, the set/directory invariant [Good],
   specifications of delete_oldest and of the two deletion loops, len_is_sum. *)
From SV Require Import Base.Bytes Base.BytesP Model.LogFile.

(* ------------------------------------------------------------------ arithmetic *)
Lemma add64_ok m a b : a + b < two64 -> add64 m a b = Some (a + b).
Proof. intros H. unfold add64. apply N.ltb_lt in H. now rewrite H. Qed.
Lemma sub64_ok m a b : b <= a -> sub64 m a b = Some (a - b).
Proof. intros H. unfold sub64. apply N.leb_le in H. now rewrite H. Qed.
Lemma add64_debug a b r : add64 Debug a b = Some r -> r = a + b /\ a + b < two64.
Proof. unfold add64. destruct (a + b <? two64) eqn:E; [|discriminate]. intros [= <-]. apply N.ltb_lt in E. auto. Qed.
Lemma sub64_debug a b r : sub64 Debug a b = Some r -> r = a - b /\ b <= a.
Proof. unfold sub64. destruct (b <=? a) eqn:E; [|discriminate]. intros [= <-]. apply N.leb_le in E. auto. Qed.
Lemma two63_two64 : two63 + two63 = two64. Proof. reflexivity. Qed.

Lemma sumN_app a b : sumN (a ++ b) = sumN a + sumN b.
Proof. induction a; cbn [sumN app fold_right] in *; [reflexivity|]. unfold sumN in *. lia. Qed.
Lemma sumN_cons x a : sumN (x :: a) = x + sumN a. Proof. reflexivity. Qed.
Lemma sumN_nil : sumN [] = 0. Proof. reflexivity. Qed.

(* ------------------------------------------------------------------ names *)
Lemma fname_eqb_eq a b : fname_eqb a b = true <-> a = b.
Proof.
  destruct a, b; cbn [fname_eqb]; split; intros H; try discriminate.
  - apply beq_eq in H. now subst.
  - injection H as ->. apply beq_refl.
  - apply andb_true_iff in H as [H1 H2]. apply N.eqb_eq in H1, H2. now subst.
  - injection H as -> ->. now rewrite !N.eqb_refl.
Qed.
Lemma fname_eqb_refl a : fname_eqb a a = true. Proof. now apply fname_eqb_eq. Qed.
Lemma fname_eqb_neq a b : fname_eqb a b = false <-> a <> b.
Proof. split; intros H. - intros E. apply fname_eqb_eq in E. congruence.
  - destruct (fname_eqb a b) eqn:E; [|reflexivity]. apply fname_eqb_eq in E. contradiction. Qed.

(* ------------------------------------------------------------------ take_kth / pop *)
Lemma take_kth_spec {A} (p : A -> bool) : forall l k, (k < count_if p l)%nat ->
  exists l1 x l2, take_kth p k l = Some (x, l1 ++ l2) /\ l = l1 ++ x :: l2 /\ p x = true.
Proof.
  unfold count_if. induction l as [|a l IH]; intros k Hk; cbn [filter length] in Hk; [lia|].
  cbn [take_kth]. destruct (p a) eqn:Pa.
  - destruct k as [|k].
    + exists [], a, l. auto.
    + cbn [length] in Hk. destruct (IH k) as (l1 & x & l2 & E & -> & Px); [lia|].
      rewrite E. exists (a :: l1), x, l2. auto.
  - destruct (IH k Hk) as (l1 & x & l2 & E & -> & Px).
    rewrite E. exists (a :: l1), x, l2. auto.
Qed.

(* with choice 0 the first element satisfying p is taken *)
Lemma take_kth_0 {A} (p : A -> bool) : forall l l1 x l2, l = l1 ++ x :: l2 -> p x = true ->
  forallb (fun y => negb (p y)) l1 = true -> take_kth p 0 l = Some (x, l1 ++ l2).
Proof.
  intros l l1. revert l. induction l1 as [|a l1 IH]; intros l x l2 -> Px H; cbn [app take_kth].
  - now rewrite Px.
  - cbn [forallb] in H. apply andb_true_iff in H as [Ha H]. apply negb_true_iff in Ha. rewrite Ha.
    now rewrite (IH _ x l2 eq_refl Px H).
Qed.

Lemma fold_min_le (t : list pfile) : forall a,
  fold_right (fun x acc => N.min (p_mtime x) acc) a t <= a /\
  (forall e, In e t -> fold_right (fun x acc => N.min (p_mtime x) acc) a t <= p_mtime e).
Proof.
  induction t as [|x t IH]; intros a; cbn [fold_right]; split.
  - lia.
  - intros e [].
  - destruct (IH a). lia.
  - intros e [->|He]; [lia|]. destruct (IH a) as [_ H]. specialize (H e He). lia.
Qed.
Lemma fold_min_attained (t : list pfile) : forall a,
  fold_right (fun x acc => N.min (p_mtime x) acc) a t = a \/
  exists e, In e t /\ p_mtime e = fold_right (fun x acc => N.min (p_mtime x) acc) a t.
Proof.
  induction t as [|x t IH]; intros a; cbn [fold_right]; [now left|].
  destruct (IH a) as [E|(e & He & E)].
  - rewrite E. destruct (N.min_spec (p_mtime x) a) as [[_ ->]|[_ ->]]; [right; exists x; cbn; auto|now left].
  - set (f := fold_right _ a t) in *.
    destruct (N.min_spec (p_mtime x) f) as [[_ ->]|[_ ->]]; right; [exists x|exists e]; cbn; auto.
Qed.

Lemma min_mtime_spec es m : min_mtime es = Some m ->
  (forall e, In e es -> m <= p_mtime e) /\ exists e, In e es /\ p_mtime e = m.
Proof.
  destruct es as [|e t]; [discriminate|]. cbn [min_mtime]. intros [= <-]. split.
  - intros x [<-|Hx]; [apply (proj1 (fold_min_le t (p_mtime e)))|]. now apply (proj2 (fold_min_le t (p_mtime e))).
  - destruct (fold_min_attained t (p_mtime e)) as [E|(x & Hx & E)].
    + exists e. cbn; auto.
    + exists x. cbn; auto.
Qed.
Lemma min_mtime_none es : min_mtime es = None <-> es = [].
Proof. destruct es; cbn; split; congruence. Qed.

(* ---- the heap order is a total preorder, so a non-empty heap has a minimal element ---- *)
Lemma lex_leb_total : forall a b, lex_leb a b = true \/ lex_leb b a = true.
Proof.
  induction a as [|x a IH]; intros [|y b]; cbn [lex_leb]; auto.
  destruct (N.lt_trichotomy x y) as [H|[H|H]].
  - left. apply orb_true_iff. left. now apply N.ltb_lt.
  - subst. rewrite N.ltb_irrefl, N.eqb_refl. cbn [orb andb]. apply IH.
  - right. apply orb_true_iff. left. now apply N.ltb_lt.
Qed.
Lemma lex_leb_trans : forall a b c, lex_leb a b = true -> lex_leb b c = true -> lex_leb a c = true.
Proof.
  induction a as [|x a IH]; intros [|y b] [|z c]; cbn [lex_leb]; auto; try discriminate.
  rewrite !orb_true_iff, !andb_true_iff, !N.ltb_lt, !N.eqb_eq.
  intros [H1|[-> H1]] [H2|[-> H2]].
  - left. lia.
  - left. lia.
  - left. lia.
  - right. split; [reflexivity|]. eapply IH; eauto.
Qed.

Lemma mtime_leb_total a b : mtime_leb a b = true \/ mtime_leb b a = true.
Proof. unfold mtime_leb. rewrite !N.leb_le. lia. Qed.
Lemma mtime_leb_trans a b c : mtime_leb a b = true -> mtime_leb b c = true -> mtime_leb a c = true.
Proof. unfold mtime_leb. rewrite !N.leb_le. lia. Qed.
Lemma key_leb_total a b : key_leb a b = true \/ key_leb b a = true.
Proof.
  unfold key_leb. destruct (N.lt_trichotomy (p_mtime a) (p_mtime b)) as [H|[H|H]].
  - left. apply orb_true_iff. left. now apply N.ltb_lt.
  - rewrite H, N.ltb_irrefl, N.eqb_refl. cbn [orb andb]. apply lex_leb_total.
  - right. apply orb_true_iff. left. now apply N.ltb_lt.
Qed.
Lemma key_leb_trans a b c : key_leb a b = true -> key_leb b c = true -> key_leb a c = true.
Proof.
  unfold key_leb. rewrite !orb_true_iff, !andb_true_iff, !N.ltb_lt, !N.eqb_eq.
  intros [H1|[E1 H1]] [H2|[E2 H2]].
  - left. lia.
  - left. lia.
  - left. lia.
  - right. split; [lia|]. eapply lex_leb_trans; eauto.
Qed.
Lemma heap_leb_total v a b : heap_leb v a b = true \/ heap_leb v b a = true.
Proof. unfold heap_leb. destruct (v_fix18 v); [apply key_leb_total|apply mtime_leb_total]. Qed.
Lemma heap_leb_trans v a b c : heap_leb v a b = true -> heap_leb v b c = true -> heap_leb v a c = true.
Proof. unfold heap_leb. destruct (v_fix18 v); [apply key_leb_trans|apply mtime_leb_trans]. Qed.
Lemma heap_leb_refl v a : heap_leb v a a = true.
Proof. destruct (heap_leb_total v a a); assumption. Qed.
Lemma heap_leb_mtime v a b : heap_leb v a b = true -> p_mtime a <= p_mtime b.
Proof.
  unfold heap_leb, key_leb, mtime_leb. destruct (v_fix18 v).
  - rewrite orb_true_iff, andb_true_iff, N.ltb_lt, N.eqb_eq. lia.
  - rewrite N.leb_le. lia.
Qed.
(* an entry that is strictly younger than another one never comes before it *)
Lemma heap_leb_younger v a b : p_mtime b < p_mtime a -> heap_leb v a b = false.
Proof.
  intros H. destruct (heap_leb v a b) eqn:E; [|reflexivity]. apply heap_leb_mtime in E. lia.
Qed.

Lemma exists_min v : forall es, es <> [] -> exists e, In e es /\ is_min (heap_leb v) es e = true.
Proof.
  unfold is_min. induction es as [|a t IH]; intros Hne; [contradiction|].
  destruct t as [|b t'].
  - exists a. split; [now left|]. cbn [forallb]. now rewrite heap_leb_refl.
  - destruct IH as (m & Hm & Hmin); [discriminate|].
    destruct (heap_leb v a m) eqn:E.
    + exists a. split; [now left|].
      apply forallb_forall. intros x [<-|Hx]; [apply heap_leb_refl|].
      rewrite forallb_forall in Hmin. eapply heap_leb_trans; eauto.
    + exists m. split; [now right|]. change (forallb (heap_leb v m) (a :: b :: t')) with (heap_leb v m a && forallb (heap_leb v m) (b :: t')).
      rewrite Hmin, andb_true_r. destruct (heap_leb_total v a m); congruence.
Qed.

Lemma pop_nil v k : pop v k [] = None. Proof. reflexivity. Qed.

Lemma count_if_pos {A} (p : A -> bool) l x : In x l -> p x = true -> (0 < count_if p l)%nat.
Proof.
  intros Hx Px. unfold count_if. assert (In x (filter p l)) by (apply filter_In; auto).
  destruct (filter p l); [contradiction|cbn; lia].
Qed.

(* BinaryHeap::pop: some element that is minimal in the heap order leaves, whatever the choice *)
Lemma pop_spec v k es : es <> [] ->
  exists l1 e l2, pop v k es = Some (e, l1 ++ l2) /\ es = l1 ++ e :: l2 /\
                  (forall x, In x es -> heap_leb v e x = true) /\
                  (forall x, In x es -> p_mtime e <= p_mtime x).
Proof.
  intros Hne. unfold pop. destruct (exists_min v es Hne) as (e0 & He0 & Hm0).
  set (p := is_min (heap_leb v) es).
  assert (Hc : (0 < count_if p es)%nat) by (apply (count_if_pos p es e0 He0); exact Hm0).
  destruct (take_kth_spec p es (Nat.modulo k (count_if p es))) as (l1 & x & l2 & E & El & Px).
  { apply Nat.mod_upper_bound. lia. }
  exists l1, x, l2. unfold p, is_min in Px. rewrite forallb_forall in Px.
  repeat split; auto. intros y Hy. apply (heap_leb_mtime v). auto.
Qed.

Lemma pop_some_inv v k es e r : pop v k es = Some (e, r) ->
  exists l1 l2, r = l1 ++ l2 /\ es = l1 ++ e :: l2 /\ (forall x, In x es -> p_mtime e <= p_mtime x).
Proof.
  intros H. destruct es as [|a t]; [discriminate|].
  destruct (pop_spec v k (a :: t)) as (l1 & x & l2 & E & El & _ & Hm); [discriminate|].
  rewrite E in H. injection H as <- <-. eauto.
Qed.

(* ------------------------------------------------------------------ the directory *)
Section WithPrefix.
Variable prefix : bytes.
Variable b18 : bool.      (* with or without the repair of D18: every lemma holds for both *)
Notation islog := (is_log_file post_fix prefix).
Definition logs (fs : list file) : list file := filter islog fs.

Lemma islog_alive f : islog f = true -> f_alive f = true.
Proof. unfold is_log_file. intros H. apply andb_true_iff in H as [H _]. now apply andb_true_iff in H as [H _]. Qed.
Lemma islog_reg f : islog f = true -> f_reg f = true.
Proof. unfold is_log_file. intros H. apply andb_true_iff in H as [H _]. now apply andb_true_iff in H as [_ H]. Qed.
Lemma islog_kill f : islog (kill f) = false. Proof. reflexivity. Qed.

(* [Kills a b]: b is a with some log files deleted; nothing else differs *)
Definition kill_rel (f f' : file) : Prop := f' = f \/ (f' = kill f /\ islog f = true).
Definition Kills (a b : list file) : Prop := Forall2 kill_rel a b.
Lemma Kills_refl a : Kills a a.
Proof. induction a; constructor; auto. now left. Qed.
Lemma kill_rel_trans f g h : kill_rel f g -> kill_rel g h -> kill_rel f h.
Proof.
  intros [->|[-> L1]] [->|[-> L2]]; unfold kill_rel; auto.
Qed.
Lemma Kills_trans a b c : Kills a b -> Kills b c -> Kills a c.
Proof.
  intros H. revert c. induction H as [|f g a b Hfg Hab IH]; intros c Hc; inversion Hc; subst; constructor.
  - eapply kill_rel_trans; eauto.
  - apply IH. assumption.
Qed.
Lemma Kills_app a b a' b' : Kills a a' -> Kills b b' -> Kills (a ++ b) (a' ++ b').
Proof. apply Forall2_app. Qed.
Lemma Kills_lines a b : Kills a b -> map f_lines a = map f_lines b.
Proof. induction 1 as [|f f' a b [->|[-> _]] _ IH]; cbn [map]; [reflexivity| |]; now rewrite IH. Qed.
Lemma Kills_names a b : Kills a b -> map f_name a = map f_name b.
Proof. induction 1 as [|f f' a b [->|[-> _]] _ IH]; cbn [map]; [reflexivity| |]; now rewrite IH. Qed.
Lemma Kills_length a b : Kills a b -> length a = length b.
Proof. induction 1; cbn; auto. Qed.
Lemma Kills_nonlog a b : Kills a b ->
  Forall2 (fun f f' => islog f = false -> f' = f) a b.
Proof. induction 1 as [|f f' a b [->|[-> L]] _ IH]; constructor; auto. intros E. congruence. Qed.

Definition live_names (fs : list file) : list fname := map f_name (listing fs).
Lemma live_names_app a b : live_names (a ++ b) = live_names a ++ live_names b.
Proof. unfold live_names, listing. now rewrite filter_app, map_app. Qed.

Lemma live_names_cons_alive f l : f_alive f = true -> live_names (f :: l) = f_name f :: live_names l.
Proof. intros H. unfold live_names, listing. cbn [filter]. now rewrite H. Qed.
Lemma live_names_cons_dead f l : f_alive f = false -> live_names (f :: l) = live_names l.
Proof. intros H. unfold live_names, listing. cbn [filter]. now rewrite H. Qed.

(* ------------------------------------------------------------------ fs_remove *)
Lemma fs_remove_spec nm : forall r1 f r2,
  f_alive f = true -> f_reg f = true -> f_name f = nm -> ~ In nm (live_names r1) ->
  fs_remove nm (r1 ++ f :: r2) = Some (r1 ++ kill f :: r2).
Proof.
  induction r1 as [|g r1 IH]; intros f r2 Ha Hr Hn Hni; cbn [app fs_remove].
  - rewrite Ha, Hr, Hn, fname_eqb_refl. reflexivity.
  - destruct (f_alive g && fname_eqb (f_name g) nm) eqn:E.
    + exfalso. apply andb_true_iff in E as [Eg En]. apply fname_eqb_eq in En. apply Hni.
      unfold live_names, listing. cbn [filter]. rewrite Eg. cbn. auto.
    + rewrite IH; auto. intros Hin. apply Hni. unfold live_names, listing in *. cbn [filter].
      destruct (f_alive g); cbn; auto.
Qed.

(* ------------------------------------------------------------------ list splitting helpers *)
Lemma filter_split {A} (p : A -> bool) : forall l a x b, filter p l = a ++ x :: b ->
  exists l1 l2, l = l1 ++ x :: l2 /\ filter p l1 = a /\ filter p l2 = b /\ p x = true.
Proof.
  induction l as [|y l IH]; intros a x b H; cbn [filter] in H.
  - destruct a; discriminate.
  - destruct (p y) eqn:Py.
    + destruct a as [|a0 a]; cbn [app] in H.
      * injection H as -> <-. exists [], l. cbn. auto.
      * injection H as -> H. destruct (IH _ _ _ H) as (l1 & l2 & -> & <- & <- & Px).
        exists (a0 :: l1), l2. cbn [filter app]. rewrite Py. auto.
    + destruct (IH _ _ _ H) as (l1 & l2 & -> & <- & <- & Px).
      exists (y :: l1), l2. cbn [filter app]. rewrite Py. auto.
Qed.

Lemma map_split {A B} (g : A -> B) : forall l a y b, map g l = a ++ y :: b ->
  exists l1 x l2, l = l1 ++ x :: l2 /\ map g l1 = a /\ g x = y /\ map g l2 = b.
Proof.
  induction l as [|z l IH]; intros a y b H; cbn [map] in H.
  - destruct a; discriminate.
  - destruct a as [|a0 a]; cbn [app] in H.
    + injection H as <- <-. exists [], z, l. auto.
    + injection H as <- H. destruct (IH _ _ _ H) as (l1 & x & l2 & -> & <- & <- & <-).
      exists (z :: l1), x, l2. auto.
Qed.

(* ------------------------------------------------------------------ the invariant *)
(* [rest] is the part of the directory the set speaks about, [tl] what was created after the scan
   or the last push (the current file).  Entries and live log files of [rest] correspond
   position by position. *)
Record Good (rest tl : list file) (st : pset) : Prop := mkGood {
  g_nodup : NoDup (live_names (rest ++ tl));
  g_names : map p_name (entries st) = map f_name (logs rest);
  g_lens : map p_len (entries st) = map f_size (logs rest);
  g_sum : slen st = sumN (map p_len (entries st))
}.

Lemma logs_app a b : logs (a ++ b) = logs a ++ logs b.
Proof. unfold logs. apply filter_app. Qed.

Lemma sum_member (l1 l2 : list pfile) e : p_len e <= sumN (map p_len (l1 ++ e :: l2)).
Proof. rewrite map_app, sumN_app. cbn [map]. rewrite sumN_cons. lia. Qed.

(* delete_oldest on a good state: succeeds, keeps the state good, kills exactly the log file of
   the popped entry *)
Lemma delete_oldest_good m rest tl st : Good rest tl st -> entries st <> [] ->
  exists rest' l1 e l2,
    delete_oldest (post b18) m (rest ++ tl, st) = ROk (rest' ++ tl, mkPset (l1 ++ l2) (slen st - p_len e) (List.tl (ties st))) /\
    entries st = l1 ++ e :: l2 /\
    ((forall x, In x (entries st) -> p_mtime e <= p_mtime x) /\
     (forall x, In x (entries st) -> heap_leb (post b18) e x = true)) /\
    Good rest' tl (mkPset (l1 ++ l2) (slen st - p_len e) (List.tl (ties st))) /\
    Kills rest rest' /\
    (exists r1 f r2, rest = r1 ++ f :: r2 /\ rest' = r1 ++ kill f :: r2 /\ islog f = true /\
                     f_name f = p_name e /\ length (logs r1) = length l1).
Proof.
  intros [Hnd Hn Hl Hs] Hne.
  destruct (pop_spec (post b18) (hd O (ties st)) (entries st) Hne) as (l1 & e & l2 & Epop & Ees & Hleb & Hmin).
  rewrite Ees in Hn, Hl.
  rewrite map_app in Hn, Hl. cbn [map] in Hn, Hl.
  symmetry in Hn. destruct (map_split _ _ _ _ _ Hn) as (c1 & f & c2 & Elogs & En1 & Enf & En2).
  destruct (filter_split _ _ _ _ _ Elogs) as (r1 & r2 & Erest & Ec1 & Ec2 & Lf).
  assert (Hlen : p_len e = f_size f).
  { fold (logs rest) in Elogs. rewrite Elogs, map_app in Hl. cbn [map] in Hl.
    apply (f_equal (fun l => nth (length (map p_len l1)) l 0)) in Hl.
    rewrite !app_nth2 in Hl; try lia.
    - rewrite Nat.sub_diag in Hl. cbn in Hl. rewrite Hl.
      assert (E : length (map p_len l1) = length (map f_size c1)).
      { rewrite !map_length. apply (f_equal (@length _)) in En1. rewrite !map_length in En1. lia. }
      rewrite E, Nat.sub_diag. reflexivity.
    - rewrite !map_length. apply (f_equal (@length _)) in En1. rewrite !map_length in En1. lia. }
  assert (Hnd' : NoDup (live_names r1 ++ f_name f :: live_names (r2 ++ tl))).
  { rewrite Erest, <- app_assoc, live_names_app in Hnd. cbn [app] in Hnd.
    rewrite (live_names_cons_alive f _ (islog_alive _ Lf)) in Hnd. exact Hnd. }
  assert (Hrm : fs_remove (p_name e) (rest ++ tl) = Some ((r1 ++ kill f :: r2) ++ tl)).
  { rewrite Erest, <- !app_assoc. cbn [app].
    apply fs_remove_spec; auto using islog_alive, islog_reg.
    intros Hin. apply NoDup_remove_2 in Hnd'. apply Hnd'. apply in_or_app. left. now rewrite Enf. }
  exists (r1 ++ kill f :: r2), l1, e, l2.
  assert (Hle : p_len e <= slen st) by (rewrite Hs, Ees; apply sum_member).
  split.
  { unfold delete_oldest. rewrite Epop, Hrm, (sub64_ok m _ _ Hle). reflexivity. }
  split; [exact Ees|]. split; [split; [exact Hmin|exact Hleb]|]. split.
  { constructor; cbn [entries slen].
    - rewrite <- app_assoc, live_names_app. cbn [app].
      rewrite (live_names_cons_dead (kill f) _ eq_refl).
      apply NoDup_remove_1 in Hnd'. exact Hnd'.
    - rewrite logs_app. unfold logs at 2. cbn [filter]. rewrite islog_kill. fold (logs r2).
      unfold logs. rewrite Ec1, Ec2, !map_app. now rewrite En1, En2.
    - rewrite logs_app. unfold logs at 2. cbn [filter]. rewrite islog_kill. fold (logs r2).
      unfold logs. rewrite Ec1, Ec2.
      fold (logs rest) in Elogs. rewrite Elogs, map_app in Hl. cbn [map] in Hl.
      assert (E : length (map p_len l1) = length (map f_size c1)).
      { rewrite !map_length. apply (f_equal (@length _)) in En1. rewrite !map_length in En1. lia. }
      destruct (app_eq_app _ _ _ _ Hl) as [d [[E1 E2]|[E1 E2]]].
      + assert (d = []). { apply (f_equal (@length _)) in E1. rewrite app_length in E1. destruct d; [reflexivity|cbn in E1; lia]. }
        subst d. rewrite app_nil_r in E1. cbn [app] in E2. injection E2 as _ E2. rewrite !map_app. now rewrite E1, E2.
      + assert (d = []). { apply (f_equal (@length _)) in E1. rewrite app_length in E1. destruct d; [reflexivity|cbn in E1; lia]. }
        subst d. rewrite app_nil_r in E1. cbn [app] in E2. injection E2 as _ E2. rewrite !map_app. now rewrite E1, E2.
    - rewrite Hs, Ees, !map_app, !sumN_app. cbn [map]. rewrite sumN_cons. lia. }
  split.
  { rewrite Erest. apply Kills_app; [apply Kills_refl|]. constructor; [right; auto|apply Kills_refl]. }
  exists r1, f, r2. repeat split; auto.
  unfold logs. rewrite Ec1. apply (f_equal (@length _)) in En1. now rewrite !map_length in En1.
Qed.

End WithPrefix.

Ltac splits := repeat match goal with |- _ /\ _ => split end.

(* ------------------------------------------------------------------ the deletion loops *)
(* [Pops P a b]: b results from a by repeatedly removing an element of minimal mtime that
   satisfies P *)
Inductive Pops (leb : pfile -> pfile -> bool) (P : pfile -> Prop) : list pfile -> list pfile -> Prop :=
| Pops_refl es : Pops leb P es es
| Pops_step l1 e l2 es' :
    (forall x, In x (l1 ++ e :: l2) -> p_mtime e <= p_mtime x) ->
    (forall x, In x (l1 ++ e :: l2) -> leb e x = true) -> P e ->
    Pops leb P (l1 ++ l2) es' -> Pops leb P (l1 ++ e :: l2) es'.

Lemma Pops_weaken leb (P Q : pfile -> Prop) a b : (forall e, P e -> Q e) -> Pops leb P a b -> Pops leb Q a b.
Proof. intros H. induction 1; [constructor|]. apply Pops_step; auto. Qed.
Lemma Pops_incl leb P a b : Pops leb P a b -> forall x, In x b -> In x a.
Proof.
  induction 1; intros x Hx; auto. specialize (IHPops x Hx).
  apply in_app_or in IHPops. apply in_or_app. cbn. tauto.
Qed.
Lemma Pops_sum leb P a b : Pops leb P a b -> sumN (map p_len b) <= sumN (map p_len a).
Proof.
  induction 1; [lia|]. rewrite map_app, sumN_app in *. cbn [map]. rewrite sumN_cons. lia.
Qed.

Section Loops.
Variable prefix : bytes.
Variable b18 : bool.
Notation pv := (post b18).
Notation islog := (is_log_file post_fix prefix).

Lemma good_empty_sum rest tl st : Good prefix rest tl st -> entries st = [] -> slen st = 0.
Proof. intros G E. rewrite (g_sum _ _ _ _ G), E. reflexivity. Qed.

(* delete_oldest_while_over_max_len on a good state never panics and ends with len <= max_len;
   the last deletion was necessary *)
Lemma over_loop_good m mx tl : forall fuel rest st,
  Good prefix rest tl st -> (length (entries st) < fuel)%nat ->
  exists rest' st',
    over_loop pv m fuel mx (rest ++ tl, st) = ROk (rest' ++ tl, st') /\
    Good prefix rest' tl st' /\ Kills prefix rest rest' /\ slen st' <= mx /\
    Pops (heap_leb pv) (fun _ => True) (entries st) (entries st') /\
    (slen st <= mx -> rest' = rest /\ st' = st).
Proof.
  induction fuel as [|fuel IH]; intros rest st G Hf; [lia|].
  cbn [over_loop snd]. destruct (mx <? slen st) eqn:E.
  - apply N.ltb_lt in E.
    assert (Hne : entries st <> []).
    { intros En. rewrite (good_empty_sum _ _ _ G En) in E. lia. }
    destruct (delete_oldest_good prefix b18 m rest tl st G Hne) as (rest1 & l1 & e & l2 & Ed & Ees & (Hmin & Hleb) & G1 & K1 & _).
    rewrite Ed. cbn [bind].
    destruct (IH rest1 _ G1) as (rest' & st' & El & G' & K' & Hle & P' & _).
    { cbn [entries]. rewrite Ees, app_length in Hf. cbn [length] in Hf. rewrite app_length. lia. }
    exists rest', st'. splits; auto.
    + eapply Kills_trans; eauto.
    + rewrite Ees. apply Pops_step; auto; rewrite <- Ees; assumption.
    + intros; exfalso; lia.
  - apply N.ltb_ge in E. exists rest, st. splits; auto using Kills_refl. constructor.
Qed.

Lemma while_over_good m mx rest tl st : Good prefix rest tl st ->
  exists rest' st',
    while_over pv m mx (rest ++ tl, st) = ROk (rest' ++ tl, st') /\
    Good prefix rest' tl st' /\ Kills prefix rest rest' /\ slen st' <= mx /\
    Pops (heap_leb pv) (fun _ => True) (entries st) (entries st') /\
    (slen st <= mx -> rest' = rest /\ st' = st).
Proof. intros G. unfold while_over. cbn [snd]. apply over_loop_good; auto. Qed.

(* delete_older_than on a good state: exactly the entries older than the threshold go *)
Lemma older_loop_good m thr tl : forall fuel rest st,
  Good prefix rest tl st -> (length (entries st) <= fuel)%nat ->
  exists rest' st',
    older_loop pv m fuel thr (rest ++ tl, st) = ROk (rest' ++ tl, st') /\
    Good prefix rest' tl st' /\ Kills prefix rest rest' /\
    Pops (heap_leb pv) (fun e => p_mtime e < thr) (entries st) (entries st') /\
    (forall e, In e (entries st') -> thr <= p_mtime e) /\ slen st' <= slen st.
Proof.
  induction fuel as [|fuel IH]; intros rest st G Hf.
  - assert (En : entries st = []) by (destruct (entries st); [reflexivity|cbn in Hf; lia]).
    cbn [older_loop snd]. rewrite En. cbn [min_mtime].
    exists rest, st. rewrite En. splits; auto using Kills_refl; try constructor; try lia. intros e [].
  - cbn [older_loop snd]. destruct (min_mtime (entries st)) as [mm|] eqn:Em.
    + destruct (min_mtime_spec _ _ Em) as [Hmin (e0 & He0 & Ee0)].
      destruct (mm <? thr) eqn:E.
      * apply N.ltb_lt in E.
        assert (Hne : entries st <> []) by (intros En; rewrite En in He0; contradiction).
        destruct (delete_oldest_good prefix b18 m rest tl st G Hne) as (rest1 & l1 & e & l2 & Ed & Ees & (Hmin' & Hleb) & G1 & K1 & _).
        rewrite Ed. cbn [bind].
        destruct (IH rest1 _ G1) as (rest' & st' & El & G' & K' & P' & Hthr & Hsl).
        { cbn [entries]. rewrite Ees, app_length in Hf. cbn [length] in Hf. rewrite app_length. lia. }
        exists rest', st'. splits; auto.
        -- eapply Kills_trans; eauto.
        -- rewrite Ees. apply Pops_step; auto.
           ++ rewrite <- Ees. exact Hmin'.
           ++ rewrite <- Ees. exact Hleb.
           ++ specialize (Hmin' e0 He0). lia.
        -- cbn [slen] in Hsl. lia.
      * apply N.ltb_ge in E. exists rest, st. splits; auto using Kills_refl; try constructor; try lia.
        intros e He. specialize (Hmin e He). lia.
    + apply min_mtime_none in Em. exists rest, st. rewrite Em.
      splits; auto using Kills_refl; try constructor; try lia. intros e [].
Qed.

Lemma delete_older_than_good m now dur rest tl st : Good prefix rest tl st ->
  exists rest' st',
    delete_older_than pv m now dur (rest ++ tl, st) = ROk (rest' ++ tl, st') /\
    Good prefix rest' tl st' /\ Kills prefix rest rest' /\
    Pops (heap_leb pv) (fun e => p_mtime e < now - dur) (entries st) (entries st') /\
    (forall e, In e (entries st') -> now - dur <= p_mtime e) /\ slen st' <= slen st.
Proof. intros G. unfold delete_older_than. cbn [snd]. apply older_loop_good; auto. Qed.

(* fuel: more fuel than entries never changes the result of the loops *)
End Loops.

(* ------------------------------------------------------------------ len_is_sum at the API *)
Definition set_ok (st : pset) : Prop := slen st = sumN (map p_len (entries st)).

Definition res_ok {A} (P : A -> Prop) (r : res A) : Prop :=
  match r with ROk a => P a | RErr a => P a | RPanic => True end.

Lemma delete_oldest_ok v m fs st : set_ok st -> res_ok (fun s => set_ok (snd s)) (delete_oldest v m (fs, st)).
Proof.
  intros Hok. unfold delete_oldest. destruct (pop _ _) as [[e r]|] eqn:Ep; [|exact I].
  destruct (pop_some_inv _ _ _ _ _ Ep) as (l1 & l2 & -> & Ees & _).
  destruct (fs_remove _ _); cbn [res_ok snd]; [|exact Hok].
  assert (Hle : p_len e <= slen st) by (rewrite Hok, Ees; apply sum_member).
  rewrite (sub64_ok m _ _ Hle). cbn [res_ok snd]. unfold set_ok in *. cbn [slen entries].
  rewrite Hok, Ees, !map_app, !sumN_app. cbn [map]. rewrite sumN_cons. lia.
Qed.

Lemma bind_ok {A} (P : A -> Prop) (r : res A) (f : A -> res A) :
  res_ok P r -> (forall a, P a -> res_ok P (f a)) -> res_ok P (bind r f (fun x => x)).
Proof. destruct r; cbn; auto. Qed.

Lemma over_loop_ok v m mx : forall fuel s, set_ok (snd s) -> res_ok (fun s => set_ok (snd s)) (over_loop v m fuel mx s).
Proof.
  induction fuel as [|fuel IH]; intros [fs st] H; cbn [over_loop snd]; destruct (mx <? slen st); cbn; auto.
  apply bind_ok; [now apply delete_oldest_ok|]. intros a Ha. now apply IH.
Qed.
Lemma older_loop_ok v m thr : forall fuel s, set_ok (snd s) -> res_ok (fun s => set_ok (snd s)) (older_loop v m fuel thr s).
Proof.
  induction fuel as [|fuel IH]; intros [fs st] H; cbn [older_loop snd];
    destruct (min_mtime (entries st)); cbn; auto; destruct (_ <? thr); cbn; auto.
  apply bind_ok; [now apply delete_oldest_ok|]. intros a Ha. now apply IH.
Qed.

Lemma sum64_debug : forall l acc r, sum64 Debug acc l = Some r -> r = acc + sumN l.
Proof.
  induction l as [|x l IH]; intros acc r; cbn [sum64].
  - intros [= <-]. rewrite sumN_nil. lia.
  - destruct (add64 Debug acc x) as [a|] eqn:E; [|discriminate]. intros H.
    apply add64_debug in E as [-> _]. rewrite (IH _ _ H), sumN_cons. lia.
Qed.
Lemma sum64_fits m : forall l acc, acc + sumN l < two64 -> sum64 m acc l = Some (acc + sumN l).
Proof.
  induction l as [|x l IH]; intros acc H; cbn [sum64].
  - rewrite sumN_nil. f_equal. lia.
  - rewrite sumN_cons in H. rewrite add64_ok by lia. rewrite IH by lia. f_equal. rewrite sumN_cons. lia.
Qed.

(* One API call in a debug build keeps len = sum of the lengths in the heap (when it returns at
   all); the same holds in a release build as long as the true sum fits 64 bits. *)
Lemma set_step_ok_debug prefix b18 s o : set_ok (snd s) ->
  res_ok (fun s' => set_ok (snd s')) (set_step (post b18) Debug prefix s o).
Proof.
  destruct s as [fs st]. intros H. destruct o; cbn [set_step]; cbn [snd] in H.
  - exact H.
  - unfold set_new. destruct (sum64 _ _ _) as [l|] eqn:E; cbn; auto.
    apply sum64_debug in E. unfold set_ok. cbn [slen entries]. lia.
  - unfold push. cbn [v_push_counts post]. destruct (add64 _ _ _) as [l|] eqn:E; cbn; auto.
    apply add64_debug in E as [-> _]. unfold set_ok in *. cbn [slen entries p_len].
    rewrite map_app, sumN_app. cbn [map p_len]. rewrite sumN_cons, sumN_nil. lia.
  - now apply delete_oldest_ok.
  - unfold delete_older_than. now apply older_loop_ok.
  - unfold while_over. now apply over_loop_ok.
  - exact H.
Qed.

Fixpoint run_set (v : variant) (m : mode) (prefix : bytes) (s : sys) (ops : list sop) : res sys :=
  match ops with
  | [] => ROk s
  | o :: t => match set_step v m prefix s o with
              | ROk s' => run_set v m prefix s' t
              | RErr s' => run_set v m prefix s' t      (* the caller may go on after an Err *)
              | RPanic => RPanic
              end
  end.

Lemma len_is_sum_debug prefix b18 : forall ops s, set_ok (snd s) ->
  res_ok (fun s' => set_ok (snd s')) (run_set (post b18) Debug prefix s ops).
Proof.
  induction ops as [|o t IH]; intros s H; cbn [run_set]; [exact H|].
  pose proof (set_step_ok_debug prefix b18 s o H) as Hs.
  destruct (set_step _ _ _ _ _); cbn in Hs; auto; exact I.
Qed.
