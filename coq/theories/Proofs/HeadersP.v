(* Proofs/HeadersP.v -- the HeaderList model refines the ordered case-insensitive multimap. *)
From SV Require Import Base.Bytes Base.BytesP Model.Headers.

Lemma get_all_spec hs name : get_all hs name = spec_values hs name.
Proof.
  unfold spec_values. induction hs as [|h t IH]; cbn [get_all filter map]; [reflexivity|].
  destruct (matches name h); cbn [map]; now rewrite IH.
Qed.

Lemma get_only_loop_some hs name x :
  get_only_loop hs name (Some x) = match spec_values hs name with [] => Some x | _ => None end.
Proof.
  unfold spec_values. induction hs as [|h t IH]; cbn [get_only_loop filter map]; [reflexivity|].
  destruct (matches name h); cbn [map]; [reflexivity|exact IH].
Qed.

Lemma get_only_spec hs name :
  get_only hs name = match spec_values hs name with [v] => Some v | _ => None end.
Proof.
  unfold get_only, spec_values. induction hs as [|h t IH]; cbn [get_only_loop filter map]; [reflexivity|].
  destruct (matches name h); cbn [map]; [|exact IH].
  rewrite get_only_loop_some. unfold spec_values. destruct (map snd (filter (matches name) t)); reflexivity.
Qed.

Lemma nth_error_app_len {A} (pre rest : list A) : nth_error (pre ++ rest) (length pre) = nth_error rest 0.
Proof. rewrite nth_error_app2 by lia. now rewrite Nat.sub_diag. Qed.

Lemma vec_remove_app {A} (pre : list A) h t : vec_remove (pre ++ h :: t) (length pre) = pre ++ t.
Proof.
  unfold vec_remove. rewrite firstn_app, Nat.sub_diag, firstn_all. cbn [firstn]. rewrite app_nil_r.
  replace (S (length pre)) with (length (pre ++ [h])) by (rewrite app_length; cbn; lia).
  replace (pre ++ h :: t) with ((pre ++ [h]) ++ t) by (now rewrite <- app_assoc).
  rewrite skipn_app, skipn_all, Nat.sub_diag. reflexivity.
Qed.

Lemma remove_all_loop_spec name : forall rest fuel pre values,
  (2 * length rest < fuel)%nat ->
  remove_all_loop false name fuel (pre ++ rest) (length pre) values =
  (pre ++ spec_rest rest name, values ++ spec_values rest name).
Proof.
  unfold spec_rest, spec_values.
  induction rest as [|h t IH]; intros fuel pre values Hf; (destruct fuel as [|f]; [cbn in Hf; lia|]);
    cbn [remove_all_loop]; rewrite nth_error_app_len; cbn [nth_error filter map].
  - now rewrite !app_nil_r.
  - destruct (matches name h) eqn:Hm; cbn [negb map].
    + rewrite vec_remove_app. rewrite IH by (cbn in Hf; lia).
      now rewrite <- app_assoc.
    + replace (pre ++ h :: t) with ((pre ++ [h]) ++ t) by (now rewrite <- app_assoc).
      replace (S (length pre)) with (length (pre ++ [h])) by (rewrite app_length; cbn; lia).
      rewrite IH by (cbn in Hf; lia). now rewrite <- app_assoc.
Qed.

Lemma remove_all_spec hs name : remove_all hs name = (spec_rest hs name, spec_values hs name).
Proof.
  unfold remove_all, remove_all_gen.
  exact (remove_all_loop_spec name hs (S (2 * length hs)) [] [] (Nat.lt_succ_diag_r _)).
Qed.

Lemma remove_only_spec hs name :
  remove_only hs name = (spec_rest hs name, match spec_values hs name with [v] => Some v | _ => None end).
Proof. unfold remove_only. now rewrite remove_all_spec. Qed.

(* one step of the model = one step of the multimap specification *)
Lemma hstep_refines hs o : hstep hs o = spec_step hs o.
Proof.
  destruct o as [n v|n|n|n|n]; cbn [hstep spec_step].
  - reflexivity.
  - now rewrite get_only_spec.
  - now rewrite get_all_spec.
  - now rewrite remove_only_spec.
  - now rewrite remove_all_spec.
Qed.

(* runs: the list of results and the final state *)
Fixpoint run (step : hlist -> hop -> hlist * hres) (hs : hlist) (ops : list hop) : hlist * list hres :=
  match ops with
  | [] => (hs, [])
  | o :: t => let '(hs', r) := step hs o in let '(hs'', rs) := run step hs' t in (hs'', r :: rs)
  end.

Lemma run_refines hs ops : run hstep hs ops = run spec_step hs ops.
Proof.
  revert hs; induction ops as [|o t IH]; intros hs; cbn [run]; [reflexivity|].
  rewrite hstep_refines. destruct (spec_step hs o) as [hs' r]. now rewrite IH.
Qed.

(* ---- what the filter specification means, in the words of the property ---- *)

(* lookups return the values of all and only the matching fields, in order: spec_values is by
   definition [map snd (filter matches hs)]; membership form: *)
Lemma spec_values_in hs name v :
  In v (spec_values hs name) <-> exists n, In (n, v) hs /\ eq_ic n name = true.
Proof.
  unfold spec_values. rewrite in_map_iff. split.
  - intros [[n v'] [Hv Hin]]. cbn in Hv. subst v'. apply filter_In in Hin. destruct Hin as [Hin Hm].
    exists n. split; assumption.
  - intros [n [Hin Hm]]. exists (n, v). split; [reflexivity|]. apply filter_In. split; assumption.
Qed.

(* removal deletes all and only the matching fields *)
Lemma spec_rest_in hs name h :
  In h (spec_rest hs name) <-> In h hs /\ eq_ic (fst h) name = false.
Proof. unfold spec_rest. rewrite filter_In. unfold matches. now rewrite negb_true_iff. Qed.

(* the matching and the non-matching fields partition the list, both keeping their order:
   interleaving them back by position gives the original. *)
Lemma partition_lengths hs name :
  (length (spec_values hs name) + length (spec_rest hs name) = length hs)%nat.
Proof.
  unfold spec_values, spec_rest. rewrite map_length.
  induction hs as [|h t IH]; cbn [filter length]; [reflexivity|].
  destruct (matches name h); cbn [negb length]; lia.
Qed.

(* relative order is kept: filter of a list whose elements are pairwise ordered by position.
   Stated via sublist-of-original: *)
Inductive sublist {A} : list A -> list A -> Prop :=
| sub_nil : sublist [] []
| sub_skip x l1 l2 : sublist l1 l2 -> sublist l1 (x :: l2)
| sub_keep x l1 l2 : sublist l1 l2 -> sublist (x :: l1) (x :: l2).

Lemma filter_sublist {A} (f : A -> bool) l : sublist (filter f l) l.
Proof.
  induction l as [|x l IH]; cbn [filter]; [constructor|].
  destruct (f x); now constructor.
Qed.

Lemma spec_rest_sublist hs name : sublist (spec_rest hs name) hs.
Proof. apply filter_sublist. Qed.

(* names differing only in ASCII letter case select the same fields *)
Lemma matches_ic name name' h : eq_ic name name' = true -> matches name h = matches name' h.
Proof.
  unfold matches. intros H. destruct (eq_ic (fst h) name) eqn:E1, (eq_ic (fst h) name') eqn:E2; try reflexivity.
  - rewrite (eq_ic_trans _ _ _ E1 H) in E2. discriminate.
  - rewrite eq_ic_sym in H. rewrite (eq_ic_trans _ _ _ E2 H) in E1. discriminate.
Qed.

Lemma spec_values_ic hs name name' : eq_ic name name' = true -> spec_values hs name = spec_values hs name'.
Proof.
  intros H. unfold spec_values. f_equal. apply filter_ext. intros h. now apply matches_ic.
Qed.

(* ---- ASCII invariant ---- *)
Definition op_ascii (o : hop) : bool :=
  match o with OpAdd n v => forallb is_ascii n && forallb is_ascii v | _ => true end.

Lemma all_ascii_app a b : all_ascii (a ++ b) = all_ascii a && all_ascii b.
Proof. unfold all_ascii. apply forallb_app. Qed.

Lemma all_ascii_filter f hs : all_ascii hs = true -> all_ascii (filter f hs) = true.
Proof.
  unfold all_ascii. rewrite !forallb_forall. intros H h Hin. apply filter_In in Hin. now apply H.
Qed.

Lemma hstep_ascii hs o : all_ascii hs = true -> op_ascii o = true -> all_ascii (fst (hstep hs o)) = true.
Proof.
  intros Hs Ho. rewrite hstep_refines. destruct o as [n v|n|n|n|n]; cbn [spec_step fst]; try assumption.
  - rewrite all_ascii_app, Hs. cbn. cbn in Ho. now rewrite Ho.
  - now apply all_ascii_filter.
  - now apply all_ascii_filter.
Qed.

Lemma run_ascii ops : forall hs, all_ascii hs = true -> forallb op_ascii ops = true ->
  all_ascii (fst (run hstep hs ops)) = true.
Proof.
  induction ops as [|o t IH]; intros hs Hs Ho; cbn [run]; [assumption|].
  cbn [forallb] in Ho. apply andb_true_iff in Ho. destruct Ho as [Ho Ht].
  pose proof (hstep_ascii hs o Hs Ho) as H1. destruct (hstep hs o) as [hs' r]. cbn [fst] in H1.
  specialize (IH hs' H1 Ht). destruct (run hstep hs' t) as [hs'' rs]. exact IH.
Qed.

(* results of lookups on an all-ASCII list are ASCII *)
Lemma spec_values_ascii hs name : all_ascii hs = true -> forallb (forallb is_ascii) (spec_values hs name) = true.
Proof.
  unfold all_ascii, spec_values. rewrite !forallb_forall. intros H v Hin.
  apply in_map_iff in Hin. destruct Hin as [h [<- Hin]]. apply filter_In in Hin. destruct Hin as [Hin _].
  specialize (H h Hin). now apply andb_true_iff in H.
Qed.

Lemma ascii_try_from_spec chars :
  (forall s, ascii_try_from chars = Some s -> s = chars /\ forallb is_ascii s = true) /\
  (ascii_try_from chars = None <-> exists c, In c chars /\ 128 <= c).
Proof.
  unfold ascii_try_from. destruct (forallb is_ascii chars) eqn:E; split.
  - intros s [= <-]. split; [reflexivity|assumption].
  - split; [discriminate|]. intros [c [Hin Hc]]. rewrite forallb_forall in E. specialize (E c Hin).
    unfold is_ascii in E. apply N.ltb_lt in E. lia.
  - intros s; discriminate.
  - split; [|reflexivity]. intros _.
    assert (~ (forall c, In c chars -> is_ascii c = true)) as Hn
      by (intros Hall; apply forallb_forall in Hall; congruence).
    clear E. induction chars as [|c t IH].
    + exfalso. apply Hn. intros c [].
    + destruct (is_ascii c) eqn:Ec.
      * destruct IH as [c' [Hin Hc']].
        { intros Hall. apply Hn. intros c'' [<-|Hin]; [assumption|now apply Hall]. }
        exists c'. split; [now right|assumption].
      * exists c. split; [now left|]. unfold is_ascii in Ec. apply N.ltb_ge in Ec. assumption.
Qed.

(* the oracle is the boolean form of the refinement theorem *)
Lemma header_beq_eq a b : header_beq a b = true <-> a = b.
Proof.
  destruct a as [a1 a2], b as [b1 b2]. unfold header_beq. cbn [fst snd].
  rewrite andb_true_iff, !beq_eq. split; [intros [-> ->]; reflexivity|intros [= -> ->]; split; reflexivity].
Qed.
Lemma hlist_beq_eq a b : hlist_beq a b = true <-> a = b.
Proof. apply list_beq_eq. apply header_beq_eq. Qed.
Lemma hres_beq_eq a b : hres_beq a b = true <-> a = b.
Proof.
  destruct a as [|x|x], b as [|y|y]; cbn [hres_beq]; split; try discriminate; try reflexivity.
  - destruct x, y; cbn [option_beq]; try discriminate; try reflexivity. rewrite beq_eq. now intros ->.
  - intros [= ->]. destruct y; cbn [option_beq]; [apply beq_refl|reflexivity].
  - intros H. f_equal. now apply (list_beq_eq beq beq_eq).
  - intros [= ->]. now apply (list_beq_eq beq beq_eq).
Qed.

Lemma oracle_c14_model hs o : oracle_c14_step hs o (fst (hstep hs o)) (snd (hstep hs o)) = true.
Proof.
  unfold oracle_c14_step. rewrite hstep_refines. destruct (spec_step hs o) as [a r]. cbn [fst snd].
  rewrite andb_true_iff. split; [now apply hlist_beq_eq|now apply hres_beq_eq].
Qed.

(* the code before the repair of D11 (swap_remove) does NOT meet the specification *)
Definition d11_witness : hlist :=
  [([97],[49]); ([98],[50]); ([65],[51]); ([99],[52]); ([97],[53])].   (* a:1 b:2 A:3 c:4 a:5 *)
Lemma remove_all_swap_refuted :
  remove_all_swap d11_witness [97] = ([([99],[52]); ([98],[50])], [[49]; [53]; [51]]) /\
  remove_all_swap d11_witness [97] <> (spec_rest d11_witness [97], spec_values d11_witness [97]).
Proof. split; [vm_compute; reflexivity|vm_compute; discriminate]. Qed.
