(* Proofs/HeadReadP.v -- the read_http_head loop under an arbitrary read schedule equals the
   schedule-free function [head_spec] of the bytes; totality, split independence, exact
   consumption, the effect of buf.shift(), the oracle, and the pre-repair witness of D1. *)
From SV Require Import Base.Bytes Base.BytesP Base.IO Model.Headers Model.Head Proofs.HeadP.

Section Loop.
Variable url_parse : bytes -> option (bytes * option bytes).
Variables fix1 fix2 : bool.
Variable cap : nat.
Notation tr := (try_read_gen url_parse fix1 fix2).
Notation ph := (parse_head_gen url_parse fix1 fix2).
Notation rh := (read_head_gen url_parse fix1 fix2 cap).
Notation spec := (head_spec_gen url_parse fix1 fix2 cap).

Lemma firstn_app_le {A} (l x : list A) n : (n <= length l)%nat -> firstn n (l ++ x) = firstn n l.
Proof. intros H. rewrite firstn_app. replace (n - length l)%nat with 0%nat by lia. cbn [firstn]. apply app_nil_r. Qed.
Lemma skipn_app_le {A} (l x : list A) n : (n <= length l)%nat -> skipn n (l ++ x) = skipn n l ++ x.
Proof. intros H. rewrite skipn_app. replace (n - length l)%nat with 0%nat by lia. reflexivity. Qed.

(* one read: what it returns and what it leaves *)
Lemma next_read_facts want s got s' :
  next_read want s = (got, s') ->
  got ++ in_bytes s' = in_bytes s /\ (length got <= want)%nat /\
  ((1 <= want)%nat -> in_bytes s <> [] -> (1 <= length got)%nat) /\
  (in_bytes s = [] -> got = []).
Proof.
  unfold next_read. intros [= <- <-]. cbn [in_bytes]. rewrite firstn_skipn. split; [reflexivity|].
  rewrite firstn_length. unfold read_len.
  assert (1 <= sched_next (in_sched s))%nat by (unfold sched_next; destruct (in_sched s); lia).
  repeat split.
  - lia.
  - intros Hw Hne. destruct (in_bytes s); [congruence|]. cbn [length]. lia.
  - intros ->. now rewrite firstn_nil.
Qed.

Theorem read_head_spec fuel : forall b s,
  fb_wf cap b -> (fb_writable cap b < fuel)%nat ->
  abstract (rh fuel b s) = Some (spec b (in_bytes s)).
Proof.
  induction fuel as [|f IH]; intros b s Hwf Hfuel; [lia|].
  unfold fb_wf in Hwf. unfold fb_writable in Hfuel.
  cbn [read_head_gen]. unfold head_spec_gen.
  destruct (find_slice crlf2 (fb_data b)) as [n|] eqn:F.
  - (* the buffer already holds a complete head *)
    destruct (try_read_some url_parse fix1 fix2 b n F) as (b' & -> & Hd & _).
    pose proof (find_slice_len _ _ _ F) as Hn. change (length crlf2) with 4%nat in Hn.
    rewrite (find_slice_firstn crlf2 (fb_data b ++ in_bytes s) n (cap - fb_rd b))
      by (auto using find_slice_app; change (length crlf2) with 4%nat; lia).
    rewrite firstn_app_le by lia.
    destruct (ph (firstn n (fb_data b))) as [h|e|] eqn:P.
    + cbn [abstract]. rewrite Hd, skipn_app_le by lia. reflexivity.
    + destruct e; try (cbn [abstract]; rewrite Hd, skipn_app_le by lia; reflexivity).
      now apply ph_not_truncated in P.
    + reflexivity.
  - rewrite (try_read_none url_parse fix1 fix2 b F).
    destruct (fb_writable cap b =? 0)%nat eqn:E; unfold fb_writable in E.
    + (* buffer full without terminator *)
      apply Nat.eqb_eq in E.
      rewrite firstn_app_le by lia. replace (cap - fb_rd b)%nat with (length (fb_data b)) by lia.
      rewrite firstn_all, F, app_length.
      replace (length (fb_data b) <=? length (fb_data b) + length (in_bytes s))%nat with true
        by (symmetry; apply Nat.leb_le; lia).
      reflexivity.
    + apply Nat.eqb_neq in E.
      destruct (next_read (fb_writable cap b) s) as [got s'] eqn:R.
      apply next_read_facts in R as (Hcat & Hlen & Hpos & Hnil). unfold fb_writable in Hlen, Hpos.
      destruct got as [|g got].
      * (* EOF / error *)
        cbn [app] in Hcat. destruct (in_bytes s) as [|x xs] eqn:S.
        2:{ specialize (Hpos ltac:(lia) ltac:(discriminate)). cbn in Hpos. lia. }
        rewrite app_nil_r. rewrite firstn_all2 by lia. rewrite F.
        replace (cap - fb_rd b <=? length (fb_data b))%nat with false by (symmetry; apply Nat.leb_gt; lia).
        destruct (fb_data b) eqn:D; cbn [abstract]; rewrite D, Hcat, ?app_nil_r; reflexivity.
      * (* some bytes arrived *)
        unfold fb_wrote, fb_writable.
        replace (length (g :: got) <=? cap - (fb_rd b + length (fb_data b)))%nat with true
          by (symmetry; apply Nat.leb_le; lia).
        rewrite IH.
        -- unfold head_spec_gen. cbn [fb_data fb_rd]. rewrite <- app_assoc, Hcat. reflexivity.
        -- unfold fb_wf. cbn [fb_data fb_rd]. rewrite app_length. lia.
        -- unfold fb_writable. cbn [fb_data fb_rd]. rewrite app_length. cbn [length] in *. lia.
Qed.

(* the outcome, once abstracted from where the left-over bytes sit, does not depend on the
   schedule, on how the stream ends, or on the fuel *)
Corollary read_head_split_independent fuel fuel' b bytes sched sched' err err' :
  fb_wf cap b -> (cap + 2 <= fuel)%nat -> (cap + 2 <= fuel')%nat ->
  abstract (rh fuel b (mk_in bytes sched err)) = abstract (rh fuel' b (mk_in bytes sched' err')).
Proof. intros. rewrite !read_head_spec by (assumption || unfold fb_writable; lia). reflexivity. Qed.

Lemma abstract_not_out_of_fuel fuel b s :
  fb_wf cap b -> (cap + 2 <= fuel)%nat -> rh fuel b s <> ROutOfFuel.
Proof.
  intros Hwf Hf H. pose proof (read_head_spec fuel b s Hwf ltac:(unfold fb_writable; lia)) as A.
  rewrite H in A. discriminate.
Qed.

(* ---- the specification itself: what it says when the terminator is / is not in the window *)
Lemma spec_found b stream n :
  find_slice crlf2 (fb_data b ++ stream) = Some n -> (n + 4 <= cap - fb_rd b)%nat ->
  spec b stream =
  match ph (firstn n (fb_data b ++ stream)) with
  | Ok h => VOk h (skipn (n + 4) (fb_data b ++ stream))
  | Err e => VErr (of_head_error e) (skipn (n + 4) (fb_data b ++ stream))
  | Panic => VPanic
  end.
Proof.
  intros F Hn. unfold head_spec_gen. rewrite (find_slice_window _ _ _ _ F). change (length crlf2) with 4%nat.
  replace (n + 4 <=? cap - fb_rd b)%nat with true by (symmetry; apply Nat.leb_le; lia). reflexivity.
Qed.

Lemma spec_too_long b stream n :
  find_slice crlf2 (fb_data b ++ stream) = Some n -> (cap - fb_rd b < n + 4)%nat ->
  spec b stream = VErr E_HeadTooLong (fb_data b ++ stream).
Proof.
  intros F Hn. unfold head_spec_gen. rewrite (find_slice_window _ _ _ _ F). change (length crlf2) with 4%nat.
  replace (n + 4 <=? cap - fb_rd b)%nat with false by (symmetry; apply Nat.leb_gt; lia).
  pose proof (find_slice_len _ _ _ F) as L. change (length crlf2) with 4%nat in L.
  replace (cap - fb_rd b <=? length (fb_data b ++ stream))%nat with true by (symmetry; apply Nat.leb_le; lia).
  reflexivity.
Qed.

Lemma spec_no_terminator b stream :
  find_slice crlf2 (fb_data b ++ stream) = None ->
  spec b stream =
  if (cap - fb_rd b <=? length (fb_data b ++ stream))%nat then VErr E_HeadTooLong (fb_data b ++ stream)
  else match fb_data b ++ stream with [] => VErr E_Disconnected [] | _ => VErr E_Truncated (fb_data b ++ stream) end.
Proof.
  intros F. unfold head_spec_gen.
  rewrite (find_slice_none_prefix crlf2 (firstn (cap - fb_rd b) (fb_data b ++ stream)) (skipn (cap - fb_rd b) (fb_data b ++ stream)))
    by (now rewrite firstn_skipn).
  reflexivity.
Qed.

(* buf.shift(): the whole buffer is the window, whatever read_index was *)
Lemma shift_wf b : fb_wf cap b -> fb_wf cap (fb_shift b).
Proof. unfold fb_wf, fb_shift. cbn [fb_rd fb_data]. lia. Qed.

Theorem read_request_head_spec fuel b s :
  fb_wf cap b -> (cap + 2 <= fuel)%nat ->
  abstract (read_request_head_gen url_parse fix1 fix2 cap fuel b s)
  = Some (spec (mk_fbuf 0 (fb_data b)) (in_bytes s)).
Proof.
  intros Hwf Hf. unfold read_request_head_gen.
  rewrite read_head_spec; [reflexivity| now apply shift_wf | unfold fb_writable; lia].
Qed.

(* every outcome keeps the buffer well formed (needed to chain requests) *)
Lemma read_head_wf fuel : forall b s,
  fb_wf cap b ->
  match rh fuel b s with ROk _ b' _ | RErr _ b' _ => fb_wf cap b' | _ => True end.
Proof.
  induction fuel as [|f IH]; intros b s Hwf; cbn [read_head_gen].
  - destruct (find_slice crlf2 (fb_data b)) as [n|] eqn:F.
    + destruct (try_read_some url_parse fix1 fix2 b n F) as (b' & -> & _ & Hle).
      assert (fb_wf cap b') by (unfold fb_wf in *; lia).
      destruct (ph _) as [h|[]|]; auto. now destruct (fb_writable cap b' =? 0)%nat.
    + rewrite (try_read_none url_parse fix1 fix2 b F). now destruct (fb_writable cap b =? 0)%nat.
  - destruct (find_slice crlf2 (fb_data b)) as [n|] eqn:F.
    + destruct (try_read_some url_parse fix1 fix2 b n F) as (b' & -> & _ & Hle).
      assert (fb_wf cap b') by (unfold fb_wf in *; lia).
      destruct (ph _) as [h|[]|]; auto. destruct (fb_writable cap b' =? 0)%nat; auto.
      destruct (next_read _ s) as [got s']. destruct got; [destruct (fb_data b'); auto|].
      unfold fb_wrote. destruct (length (n0 :: got) <=? fb_writable cap b')%nat eqn:E; [|exact I].
      apply IH. apply Nat.leb_le in E. unfold fb_wf, fb_writable in *. cbn [fb_rd fb_data]. rewrite app_length. lia.
    + rewrite (try_read_none url_parse fix1 fix2 b F). destruct (fb_writable cap b =? 0)%nat; auto.
      destruct (next_read _ s) as [got s']. destruct got; [destruct (fb_data b); auto|].
      unfold fb_wrote. destruct (length (n :: got) <=? fb_writable cap b)%nat eqn:E; [|exact I].
      apply IH. apply Nat.leb_le in E. unfold fb_wf, fb_writable in *. cbn [fb_rd fb_data]. rewrite app_length. lia.
Qed.
End Loop.

(* ------------------------------------------------------------------ the current code (both repairs) *)
Section Current.
Variable url_parse : bytes -> option (bytes * option bytes).
Variable cap : nat.

Lemma head_spec_documented b stream : verdict_documented (head_spec url_parse cap b stream) = true.
Proof.
  unfold head_spec, head_spec_gen.
  destruct (find_slice crlf2 _) as [n|].
  - destruct (parse_head_gen url_parse true true _) as [h|e|] eqn:P; cbn [verdict_documented].
    + reflexivity.
    + exact (ph_error_documented _ _ _ _ _ P).
    + now apply ph_no_panic in P.
  - destruct (_ <=? _)%nat; [reflexivity|]. now destruct (fb_data b ++ stream).
Qed.

(* C01: totality.  With fuel >= cap + 2 the loop ends in a request or a documented error. *)
Theorem read_head_total fuel b s :
  fb_wf cap b -> (cap + 2 <= fuel)%nat ->
  exists v, abstract (read_head url_parse cap fuel b s) = Some v /\ v <> VPanic /\ verdict_documented v = true.
Proof.
  intros Hwf Hf. exists (head_spec url_parse cap b (in_bytes s)). split; [|split].
  - apply read_head_spec; [assumption|unfold fb_writable; lia].
  - pose proof (head_spec_documented b (in_bytes s)) as D. intros E. rewrite E in D. discriminate.
  - apply head_spec_documented.
Qed.

Theorem read_head_total_outcome fuel b s :
  fb_wf cap b -> (cap + 2 <= fuel)%nat ->
  (exists h b' s', read_head url_parse cap fuel b s = ROk h b' s') \/
  (exists e b' s', read_head url_parse cap fuel b s = RErr e b' s' /\ documented_head_error e = true).
Proof.
  intros Hwf Hf. destruct (read_head_total fuel b s Hwf Hf) as (v & A & NP & D).
  destruct (read_head url_parse cap fuel b s) as [h b' s'|e b' s'| |]; cbn [abstract] in A.
  - left; eauto.
  - right. injection A as <-. cbn [verdict_documented] in D. eauto.
  - injection A as <-. congruence.
  - discriminate.
Qed.

Theorem read_head_total_listed fuel b s :
  fb_wf cap b -> (cap + 2 <= fuel)%nat ->
  (exists h b' s', read_head url_parse cap fuel b s = ROk h b' s') \/
  (exists e b' s', read_head url_parse cap fuel b s = RErr e b' s' /\
     (e = E_MalformedRequestLine \/ e = E_MalformedPath \/ e = E_UnsupportedProtocol \/
      e = E_MalformedHeaderLine \/ e = E_HeadTooLong \/ e = E_Truncated \/ e = E_Disconnected)).
Proof.
  intros Hwf Hf.
  destruct (read_head_total_outcome fuel b s Hwf Hf) as [H|(e & b' & s' & H & D)]; [left; exact H|].
  right. exists e, b', s'. split; [exact H|]. destruct e; try discriminate; tauto.
Qed.

(* C01: exact consumption.  If the first CRLFCRLF of the bytes at hand is at offset n and fits the
   window, the outcome is the parser's answer on the n bytes before it and exactly the bytes after
   offset n + 4 remain (in the buffer or unread in the stream). *)
Theorem read_head_consumes_exactly fuel b s n :
  fb_wf cap b -> (cap + 2 <= fuel)%nat ->
  find_slice crlf2 (fb_data b ++ in_bytes s) = Some n -> (n + 4 <= cap - fb_rd b)%nat ->
  let all := fb_data b ++ in_bytes s in
  (exists h b' s', read_head url_parse cap fuel b s = ROk h b' s' /\
                   parse_head url_parse (firstn n all) = Ok h /\
                   fb_data b' ++ in_bytes s' = skipn (n + 4) all) \/
  (exists e b' s', read_head url_parse cap fuel b s = RErr (of_head_error e) b' s' /\
                   parse_head url_parse (firstn n all) = Err e /\
                   fb_data b' ++ in_bytes s' = skipn (n + 4) all).
Proof.
  intros Hwf Hf F Hn all.
  pose proof (read_head_spec url_parse true true cap fuel b s Hwf ltac:(unfold fb_writable; lia)) as A.
  rewrite (spec_found _ _ _ _ _ _ _ F Hn) in A. fold all in A. unfold read_head, parse_head.
  destruct (parse_head_gen url_parse true true (firstn n all)) as [h|e|] eqn:P.
  - left. destruct (read_head_gen _ _ _ _ fuel b s) as [h' b' s'|e' b' s'| |]; cbn [abstract] in A; try discriminate.
    injection A as -> E. eauto 7.
  - right. destruct (read_head_gen _ _ _ _ fuel b s) as [h' b' s'|e' b' s'| |]; cbn [abstract] in A; try discriminate.
    injection A as -> E. eauto 7.
  - now apply ph_no_panic in P.
Qed.

(* C01: through read_http_request (buf.shift() first) a head of up to cap bytes always fits,
   whatever read_index the previous message left behind. *)
Theorem read_request_head_fits fuel b s n :
  fb_wf cap b -> (cap + 2 <= fuel)%nat ->
  find_slice crlf2 (fb_data b ++ in_bytes s) = Some n -> (n + 4 <= cap)%nat ->
  forall b' s', read_request_head url_parse cap fuel b s <> RErr E_HeadTooLong b' s'.
Proof.
  intros Hwf Hf F Hn b' s' H.
  pose proof (read_request_head_spec url_parse true true cap fuel b s Hwf Hf) as A.
  unfold read_request_head in H. rewrite H in A. cbn [abstract] in A.
  rewrite (spec_found url_parse true true cap (mk_fbuf 0 (fb_data b)) (in_bytes s) n) in A
    by (cbn [fb_data fb_rd]; (assumption || lia)).
  destruct (parse_head_gen _ _ _ _) as [h|e|]; try discriminate.
  injection A as E _. destruct e; discriminate.
Qed.

(* C01: the oracle is true of the model, for every buffer, stream, schedule and ending *)
Theorem oracle_c01_model fuel b s :
  fb_wf cap b -> (cap + 2 <= fuel)%nat ->
  forall cmp, oracle_c01 url_parse cmp cap b (in_bytes s) (abstract (read_head url_parse cap fuel b s)) = true.
Proof.
  intros Hwf Hf cmp. unfold read_head.
  rewrite (read_head_spec url_parse true true cap fuel b s Hwf ltac:(unfold fb_writable; lia)).
  unfold oracle_c01. fold (head_spec url_parse cap b (in_bytes s)).
  rewrite head_spec_documented. cbn [andb]. apply verdict_obs_beq_refl.
Qed.
End Current.

(* ---- the head phase of read_http_request, and whole pipelined sequences *)
Section Requests.
Variable url_parse : bytes -> option (bytes * option bytes).
Variable cap : nat.

Theorem read_request_head_total_outcome fuel b s :
  fb_wf cap b -> (cap + 2 <= fuel)%nat ->
  (exists h b' s', read_request_head url_parse cap fuel b s = ROk h b' s') \/
  (exists e b' s', read_request_head url_parse cap fuel b s = RErr e b' s' /\ documented_head_error e = true).
Proof. intros Hwf Hf. apply read_head_total_outcome; [now apply shift_wf|assumption]. Qed.

Theorem read_request_head_split_independent fuel fuel' b bytes sched sched' err err' :
  fb_wf cap b -> (cap + 2 <= fuel)%nat -> (cap + 2 <= fuel')%nat ->
  abstract (read_request_head url_parse cap fuel b (mk_in bytes sched err))
  = abstract (read_request_head url_parse cap fuel' b (mk_in bytes sched' err')).
Proof. intros. unfold read_request_head. rewrite !read_request_head_spec by assumption. reflexivity. Qed.

Lemma spec_shifted_app f1 f2 d stream :
  head_spec_gen url_parse f1 f2 cap (mk_fbuf 0 d) stream = head_spec_gen url_parse f1 f2 cap (mk_fbuf 0 []) (d ++ stream).
Proof. reflexivity. Qed.

Theorem read_seq_spec n : forall fuel b s,
  fb_wf cap b -> (cap + 2 <= fuel)%nat ->
  map abstract (read_seq url_parse cap n fuel b s) = map Some (seq_spec url_parse cap n (fb_data b ++ in_bytes s)).
Proof.
  induction n as [|n IH]; intros fuel b s Hwf Hf; [reflexivity|].
  unfold read_seq, seq_spec in *. cbn [read_seq_gen seq_spec_gen map].
  pose proof (read_request_head_spec url_parse true true cap fuel b s Hwf Hf) as A.
  unfold read_request_head_gen in A. rewrite spec_shifted_app in A.
  pose proof (read_head_wf url_parse true true cap fuel (fb_shift b) s (shift_wf cap b Hwf)) as W.
  destruct (read_head_gen url_parse true true cap fuel (fb_shift b) s) as [h b' s'|e b' s'| |];
    cbn [abstract] in A; try discriminate; injection A as A; rewrite <- A; try reflexivity.
  cbn [map abstract]. f_equal. now apply IH.
Qed.

Theorem oracle_c01_seq_model n fuel b s :
  fb_wf cap b -> (cap + 2 <= fuel)%nat ->
  forall cmp, oracle_c01_seq url_parse cmp cap n (fb_data b ++ in_bytes s) (map abstract (read_seq url_parse cap n fuel b s)) = true.
Proof.
  intros Hwf Hf cmp. unfold oracle_c01_seq. rewrite read_seq_spec by assumption. apply andb_true_iff. split.
  - apply list_beq_refl. intros [x|]; cbn [option_beq]; [apply verdict_obs_beq_refl|reflexivity].
  - generalize (fb_data b ++ in_bytes s). clear. induction n as [|n IH]; intros all; [reflexivity|].
    unfold seq_spec in *. cbn [seq_spec_gen map forallb].
    fold (head_spec url_parse cap (mk_fbuf 0 []) all). rewrite head_spec_documented. cbn [andb].
    destruct (head_spec url_parse cap (mk_fbuf 0 []) all); [apply IH|reflexivity|reflexivity].
Qed.
End Requests.

Theorem oracle_c01_try_model url_parse cap b :
  fb_wf cap b ->
  oracle_c01_try url_parse cap b (fst (try_read url_parse b)) (fb_data (snd (try_read url_parse b))) = true.
Proof.
  intros Hwf. unfold oracle_c01_try, try_read.
  destruct (find_slice crlf2 (fb_data b)) as [n|] eqn:F.
  - destruct (try_read_some url_parse true true b n F) as (b' & -> & Hd & _). cbn [fst snd].
    pose proof (find_slice_len _ _ _ F) as L. change (length crlf2) with 4%nat in L.
    assert (F' : find_slice crlf2 (fb_data b ++ []) = Some n) by now rewrite app_nil_r.
    unfold head_spec. rewrite (spec_found url_parse true true cap b [] n F') by (unfold fb_wf in Hwf; lia).
    rewrite app_nil_r, Hd.
    destruct (parse_head_gen url_parse true true (firstn n (fb_data b))) as [h|e|] eqn:P.
    + apply verdict_obs_beq_refl.
    + destruct e; try apply verdict_obs_beq_refl. now apply ph_not_truncated in P.
    + now apply ph_no_panic in P.
  - rewrite (try_read_none url_parse true true b F). cbn [fst snd]. apply beq_refl.
Qed.

(* ------------------------------------------------------------------ error -> status table *)
Lemma error_status_table e :
  status_of e = match e with
                | E_Disconnected => Drop
                | E_HeadTooLong => Status 431
                | E_UnsupportedProtocol => Status 505
                | _ => Status 400
                end.
Proof. destruct e; reflexivity. Qed.

Lemma head_error_status e :
  documented_head_error (of_head_error e) = true \/ e = HE_MissingRequestLine.
Proof. destruct e; auto. Qed.

(* ------------------------------------------------------------------ D1: the code before the repair *)
Definition d1_witness : bytes :=
  [71;69;84;32;47;32;72;84;84;80;47;49;46;49;13;10;65;58;32;128;13;10;13;10].

(* the model uses url_parse only through its values *)
Lemma parse_head_gen_ext u1 u2 f1 f2 hb :
  (forall t, u1 t = u2 t) -> parse_head_gen u1 f1 f2 hb = parse_head_gen u2 f1 f2 hb.
Proof.
  intros H. unfold parse_head_gen. destruct (map trim_trailing_cr (split_on 10 hb)) as [|rl lines]; [reflexivity|].
  unfold parse_request_line. destruct (match_request_line rl) as [[[m t] v]|]; [|reflexivity]. now rewrite H.
Qed.
Lemma head_spec_gen_ext u1 u2 f1 f2 cap b stream :
  (forall t, u1 t = u2 t) -> head_spec_gen u1 f1 f2 cap b stream = head_spec_gen u2 f1 f2 cap b stream.
Proof. intros H. unfold head_spec_gen. destruct (find_slice crlf2 _); [|reflexivity]. now rewrite (parse_head_gen_ext u1 u2). Qed.

(* a url_parse that is known at "/" can be replaced by one that computes there *)
Definition url_at_slash (u : bytes -> option (bytes * option bytes)) (r : bytes * option bytes) :=
  fun t => if beq t [47] then Some r else u t.
Lemma url_at_slash_eq u r : u [47] = Some r -> forall t, u t = url_at_slash u r t.
Proof. intros E t. unfold url_at_slash. destruct (beq t [47]) eqn:B; [|reflexivity]. apply beq_eq in B. now subst. Qed.

Lemma d1_prefix_panics url_parse :
  url_parse [47] <> None ->
  forall sched err, read_head_prefix url_parse 64 66 (mk_fbuf 0 []) (mk_in d1_witness sched err) = RPanic.
Proof.
  intros H sched err. destruct (url_parse [47]) as [[p q]|] eqn:E; [|congruence]. set (r := (p, q)) in *.
  pose proof (read_head_spec url_parse false false 64 66 (mk_fbuf 0 []) (mk_in d1_witness sched err)
                ltac:(unfold fb_wf; cbn; lia) ltac:(unfold fb_writable; cbn; lia)) as A.
  rewrite (head_spec_gen_ext _ _ _ _ _ _ _ (url_at_slash_eq url_parse r E)) in A.
  cbn [in_bytes] in A.
  replace (head_spec_gen (url_at_slash url_parse r) false false 64 (mk_fbuf 0 []) d1_witness) with VPanic in A
    by (vm_compute; reflexivity).
  unfold read_head_prefix. destruct (read_head_gen _ _ _ _ _ _ _); cbn [abstract] in A; try discriminate. reflexivity.
Qed.

Lemma d1_fixed_rejects url_parse :
  url_parse [47] <> None ->
  forall sched err,
  abstract (read_head url_parse 64 66 (mk_fbuf 0 []) (mk_in d1_witness sched err))
  = Some (VErr E_MalformedHeaderLine []).
Proof.
  intros H sched err. destruct (url_parse [47]) as [[p q]|] eqn:E; [|congruence]. set (r := (p, q)) in *.
  unfold read_head. rewrite read_head_spec; [|unfold fb_wf; cbn; lia|unfold fb_writable; cbn; lia].
  rewrite (head_spec_gen_ext _ _ _ _ _ _ _ (url_at_slash_eq url_parse r E)). cbn [in_bytes].
  vm_compute. reflexivity.
Qed.
