(* Proofs/IOSchedP.v -- facts about scripted readers and writers (Model/IOSched.v). *)
From SV Require Import Base.Bytes Base.BytesP Model.IOSched.

Lemma firstn_skipn_nil {A} n (l : list A) : skipn n l = [] -> firstn n l = l.
Proof. intros H. rewrite <- (firstn_skipn n l) at 2. rewrite H. now rewrite app_nil_r. Qed.

(* ---- write_all ---- *)
(* Whatever the writer does, the accepted bytes are a prefix of the buffer: all of it iff Ok. *)
Lemma write_all_sched_prefix : forall sched buf budget fl a w' ok,
  write_all_sched buf sched budget fl = (a, w', ok) ->
  exists rest, buf = a ++ rest /\ (ok = true <-> rest = []) /\ w_flush_ok w' = fl
               /\ w_budget w' = budget_sub budget (length a)
               /\ (forall b, budget = Some b -> (length a <= b)%nat).
Proof.
  induction sched as [|o s IH]; intros buf budget fl a w' ok H.
  - destruct buf as [|x buf]; cbn [write_all_sched] in H.
    + inversion H; subst. exists []. cbn. repeat split; auto; try lia.
      destruct budget; cbn; [f_equal; lia|reflexivity].
    + destruct (budget_exhausted budget) eqn:Hb.
      * inversion H; subst. exists (x :: buf). cbn. repeat split; try congruence; try lia.
        destruct budget as [[|b]|]; cbn in *; try discriminate. reflexivity.
      * destruct budget as [b|].
        -- destruct (Nat.leb_spec (length (x :: buf)) b) as [Hle|Hgt].
           ++ inversion H; subst. exists []. rewrite app_nil_r. cbn [w_flush_ok w_budget budget_sub].
              repeat split; auto. intros b' E; inversion E; subst; exact Hle.
           ++ inversion H; subst. exists (skipn b (x :: buf)). rewrite firstn_skipn.
              cbn [w_flush_ok w_budget budget_sub].
              assert (length (firstn b (x :: buf)) = b) as L by (apply firstn_length_le; lia).
              repeat split; auto.
              ** discriminate.
              ** intros E. exfalso. apply (f_equal (@length N)) in E. rewrite skipn_length in E.
                 cbn [length] in E, Hgt. lia.
              ** rewrite L. f_equal. lia.
              ** intros b' E; inversion E; subst. lia.
        -- inversion H; subst. exists []. rewrite app_nil_r. cbn. repeat split; auto. discriminate.
  - destruct buf as [|x buf]; cbn [write_all_sched] in H.
    + inversion H; subst. exists []. cbn. repeat split; auto; try lia.
      destruct budget; cbn; [f_equal; lia|reflexivity].
    + destruct (budget_exhausted budget) eqn:Hb.
      * inversion H; subst. exists (x :: buf). cbn. repeat split; try congruence; try lia.
        destruct budget as [[|b]|]; cbn in *; try discriminate. reflexivity.
      * destruct o as [k|].
        2:{ inversion H; subst. exists (x :: buf). cbn. repeat split; try congruence; try lia.
            destruct budget; cbn; [f_equal; lia|reflexivity]. }
        destruct k as [|k].
        { inversion H; subst. exists (x :: buf). cbn. repeat split; try congruence; try lia.
          destruct budget; cbn; [f_equal; lia|reflexivity]. }
        set (m := budget_min (S k) budget) in *.
        destruct (write_all_sched (skipn m (x :: buf)) s (budget_sub budget (length (firstn m (x :: buf)))) fl)
          as [[a' w''] ok'] eqn:E.
        inversion H; subst a w' ok. clear H.
        apply IH in E. destruct E as (rest & E1 & E2 & E3 & E4 & E5).
        exists rest. rewrite <- app_assoc, <- E1, firstn_skipn.
        repeat split; auto; try apply E2.
        -- rewrite E4. rewrite app_length. destruct budget; cbn; [f_equal; lia|reflexivity].
        -- intros b Eb. subst budget. rewrite app_length.
           specialize (E5 _ eq_refl). cbn [budget_sub] in E5.
           assert (length (firstn m (x :: buf)) <= b)%nat.
           { rewrite firstn_length. unfold m. cbn [budget_min]. lia. }
           lia.
Qed.

Lemma write_all_prefix buf w a w' ok :
  write_all buf w = (a, w', ok) ->
  exists rest, buf = a ++ rest /\ (ok = true <-> rest = []) /\ w_flush_ok w' = w_flush_ok w
               /\ w_budget w' = budget_sub (w_budget w) (length a)
               /\ (forall b, w_budget w = Some b -> (length a <= b)%nat).
Proof. unfold write_all. apply write_all_sched_prefix. Qed.

(* Short writes are invisible: a writer that never fails accepts exactly the buffer, whatever
   its acceptance counts are, and stays a never-failing writer. *)
Lemma write_all_sched_errfree : forall sched buf fl,
  forallb wop_ok sched = true ->
  exists s', write_all_sched buf sched None fl = (buf, mkWriter s' None fl, true)
             /\ forallb wop_ok s' = true.
Proof.
  induction sched as [|o s IH]; intros buf fl Hs.
  - destruct buf; cbn; eexists; split; reflexivity.
  - cbn [forallb] in Hs. apply andb_true_iff in Hs as [Ho Hs].
    destruct buf as [|x buf]; [cbn; eexists; split; [reflexivity|]; cbn; now rewrite Ho, Hs|].
    destruct o as [[|k]|]; try discriminate.
    cbn [write_all_sched budget_exhausted budget_min budget_sub].
    destruct (IH (skipn (S k) (x :: buf)) fl Hs) as (s' & E & Hs'). rewrite E.
    exists s'. rewrite firstn_skipn. split; auto.
Qed.

Lemma write_all_errfree buf w :
  writer_errfree w = true ->
  exists w', write_all buf w = (buf, w', true) /\ writer_errfree w' = true.
Proof.
  unfold writer_errfree, write_all. destruct w as [s [b|] fl]; cbn [w_sched w_budget w_flush_ok];
    intros H; apply andb_true_iff in H as [H Hf]; apply andb_true_iff in H as [Hs Hb]; try discriminate.
  destruct (write_all_sched_errfree s buf fl Hs) as (s' & E & Hs').
  eexists; split; [exact E|]. cbn. now rewrite Hs', Hf.
Qed.

(* ---- readers ---- *)
Lemma rd_read_bytes cap r p r' :
  rd_read cap r = RdBytes p r' ->
  r_data r = p ++ r_data r' /\ (length p <= cap)%nat /\
  (length (r_data r') + length (r_sched r') <= length (r_data r) + length (r_sched r))%nat /\
  (p <> [] -> (length (r_data r') + length (r_sched r') < length (r_data r) + length (r_sched r))%nat).
Proof.
  unfold rd_read. destruct r as [d s]; cbn [r_data r_sched].
  destruct s as [|[k|] s]; intros H; inversion H; subst; cbn [r_data r_sched].
  - rewrite firstn_skipn. split; [reflexivity|]. split; [rewrite firstn_length; lia|].
    rewrite skipn_length. split; [lia|]. intros Hp.
    assert (length (firstn cap d) <> 0)%nat by (destruct (firstn cap d); [congruence|cbn; lia]).
    rewrite firstn_length in *. cbn. lia.
  - rewrite firstn_skipn. split; [reflexivity|]. split; [rewrite firstn_length; lia|].
    rewrite skipn_length. cbn [length]. split; lia.
Qed.

Lemma rd_read_err cap r r' :
  rd_read cap r = RdErr r' ->
  (length (r_data r') + length (r_sched r') < length (r_data r) + length (r_sched r))%nat.
Proof.
  unfold rd_read. destruct r as [d s]; cbn [r_data r_sched].
  destruct s as [|[k|] s]; intros H; inversion H; subst; cbn. lia.
Qed.

(* an error-free reader never fails, and answers Ok(0) only at the end of its data *)
Lemma rd_read_errfree cap r :
  reader_errfree r = true -> (1 <= cap)%nat ->
  exists p r', rd_read cap r = RdBytes p r' /\ reader_errfree r' = true /\ (p = [] -> r_data r = []).
Proof.
  unfold reader_errfree, rd_read. destruct r as [d s]; cbn [r_data r_sched]. intros Hs Hc.
  destruct s as [|[[|k]|] s]; cbn [forallb rop_ok] in Hs; try discriminate.
  - do 2 eexists. split; [reflexivity|]. split; [reflexivity|].
    destruct cap; [lia|]. destruct d; [reflexivity|discriminate].
  - do 2 eexists. split; [reflexivity|]. split; [exact Hs|].
    destruct cap; [lia|]. destruct d; [reflexivity|]. cbn. discriminate.
Qed.
