(* Proofs/JsonP.v -- lemmas about Model/Json.v against Spec/Json8259.v (property C17). *)
From SV Require Import Base.Bytes Base.BytesP Spec.Json8259 Model.Json.
From Coq Require Import ZArith.

Local Ltac Zify.zify_post_hook ::= Z.to_euclidean_division_equations.

(* ------------------------------------------------------------------ small arithmetic helpers *)
Lemma N_lt_in_range (k : nat) (c : N) : c < N.of_nat k -> In c (map N.of_nat (seq 0 k)).
Proof.
  intros H. rewrite <- (N2Nat.id c). apply in_map. apply in_seq. lia.
Qed.

Ltac nb :=   (* decide boolean comparisons on N by lia *)
  repeat match goal with
  | |- context [N.eqb ?a ?b] => destruct (N.eqb_spec a b); try lia
  | |- context [N.ltb ?a ?b] => destruct (N.ltb_spec a b); try lia
  | |- context [N.leb ?a ?b] => destruct (N.leb_spec a b); try lia
  end.

Lemma is_digit_range c : is_digit c = true <-> 48 <= c <= 57.
Proof. unfold is_digit, in_range. rewrite andb_true_iff, !N.leb_le. tauto. Qed.

(* ------------------------------------------------------------------ decimal numerals *)
Lemma digits_value_snoc ds d : digits_value (ds ++ [d]) = 10 * digits_value ds + (d - 48).
Proof. unfold digits_value. rewrite fold_left_app. reflexivity. Qed.

Lemma log2_div10_lt n : 10 <= n -> N.log2 (n / 10) < N.log2 n.
Proof.
  intros H.
  assert (Hle : N.log2 (n / 10) <= N.log2 (n / 2)).
  { apply N.log2_le_mono. lia. }
  assert (Hlt : N.log2 (n / 2) < N.log2 n).
  { assert (Hn : n = 2 * (n / 2) + n mod 2) by (apply N.div_mod'; lia).
    assert (Hpos : 0 < n / 2) by lia.
    assert (Hm : n mod 2 = 0 \/ n mod 2 = 1) by lia.
    destruct Hm as [Hm|Hm]; rewrite Hm in Hn.
    - rewrite N.add_0_r in Hn. rewrite Hn at 2. rewrite N.log2_double by exact Hpos. lia.
    - rewrite Hn at 2. rewrite N.log2_succ_double by exact Hpos. lia. }
  lia.
Qed.

Lemma dec_fuel_spec : forall fuel n acc, (N.to_nat (N.log2 n) < fuel)%nat ->
  exists ds, dec_digits_fuel fuel n acc = ds ++ acc /\ forallb is_digit ds = true /\
             digits_value ds = n /\ (n = 0 -> ds = [48]) /\ (0 < n -> exists d r, ds = d :: r /\ d <> 48).
Proof.
  induction fuel as [|f IH]; intros n acc Hf; [lia|].
  cbn [dec_digits_fuel]. destruct (N.ltb_spec n 10) as [Hlt|Hge].
  - exists [48 + n mod 10]. rewrite N.mod_small by lia. repeat split.
    + cbn [forallb]. rewrite andb_true_r. apply is_digit_range. lia.
    + unfold digits_value. cbn [fold_left]. lia.
    + intros ->. reflexivity.
    + intros Hp. exists (48 + n), []. split; [reflexivity|lia].
  - destruct (IH (n / 10) ((48 + n mod 10) :: acc)) as (ds & Heq & Hd & Hv & _ & Hh).
    { pose proof (log2_div10_lt n Hge). lia. }
    exists (ds ++ [48 + n mod 10]). repeat split.
    + rewrite Heq, <- app_assoc. reflexivity.
    + rewrite forallb_app, Hd. cbn [forallb]. rewrite andb_true_r. apply is_digit_range.
      assert (n mod 10 < 10) by (apply N.mod_lt; lia). split; lia.
    + rewrite digits_value_snoc, Hv. lia.
    + lia.
    + intros _. destruct Hh as (d & r & -> & Hne); [lia|]. exists d, (r ++ [48 + n mod 10]). split; [reflexivity|exact Hne].
Qed.

Lemma dec_spec n :
  forallb is_digit (dec n) = true /\ digits_value (dec n) = n /\ int_part_ok (dec n) = true /\ dec n <> [].
Proof.
  destruct (dec_fuel_spec (S (N.to_nat (N.log2 n))) n []) as (ds & Heq & Hd & Hv & H0 & Hp); [lia|].
  rewrite app_nil_r in Heq. unfold dec. rewrite Heq. repeat split; try assumption.
  - destruct (N.eq_dec n 0) as [->|Hn].
    + rewrite H0 by reflexivity. reflexivity.
    + destruct Hp as (d & r & -> & Hne); [lia|]. cbn [int_part_ok]. destruct (N.eqb_spec d 48); [contradiction|reflexivity].
  - destruct (N.eq_dec n 0) as [->|Hn].
    + rewrite H0 by reflexivity. discriminate.
    + destruct Hp as (d & r & -> & Hne); [lia|]. discriminate.
Qed.

(* ------------------------------------------------------------------ strings *)
Lemma escape_text_cons c s : escape_text (c :: s) = escape_char c ++ escape_text s.
Proof. reflexivity. Qed.

Lemma hex4_low : forall c, c < 32 -> hex4 48 48 (hex_digit (c / 16)) (hex_digit (c mod 16)) = Some c.
Proof.
  intros c Hc.
  assert (Hall : forallb (fun c => option_beq N.eqb (hex4 48 48 (hex_digit (c / 16)) (hex_digit (c mod 16))) (Some c))
                         (map N.of_nat (seq 0 32)) = true) by (vm_compute; reflexivity).
  rewrite forallb_forall in Hall. specialize (Hall c (N_lt_in_range 32 c Hc)).
  destruct (hex4 48 48 (hex_digit (c / 16)) (hex_digit (c mod 16))) as [u|]; cbn [option_beq] in Hall; [|discriminate].
  apply N.eqb_eq in Hall. now subst.
Qed.

Lemma is_scalar_spec c : is_scalar c = true <-> c < 55296 \/ 57344 <= c <= 1114111.
Proof.
  unfold is_scalar. rewrite orb_true_iff, andb_true_iff, N.ltb_lt, !N.leb_le. tauto.
Qed.

(* the reader undoes write_json_string character by character, whatever follows *)
Lemma parse_escape_char c rest :
  is_scalar c = true ->
  parse_string_body (escape_char c ++ rest) = cons_result c (parse_string_body rest).
Proof.
  intros Hs. apply is_scalar_spec in Hs. unfold escape_char.
  destruct (N.eqb_spec c 34) as [->|H34]; [reflexivity|].
  destruct (N.eqb_spec c 92) as [->|H92]; [reflexivity|].
  destruct (N.eqb_spec c 10) as [->|H10]; [reflexivity|].
  destruct (N.eqb_spec c 13) as [->|H13]; [reflexivity|].
  destruct (N.eqb_spec c 9) as [->|H9]; [reflexivity|].
  destruct (N.ltb_spec c 32) as [Hlt|Hge].
  - cbn [app parse_string_body].
    change (92 =? 34) with false. change (92 =? 92) with true. change (117 =? 117) with true. cbv iota.
    rewrite (hex4_low c Hlt). unfold in_range.
    destruct (N.leb_spec 55296 c); [lia|]. destruct (N.leb_spec 56320 c); [lia|]. reflexivity.
  - cbn [app parse_string_body].
    destruct (N.eqb_spec c 34); [contradiction|]. destruct (N.eqb_spec c 92); [contradiction|].
    destruct (N.leb_spec 32 c); [|lia]. cbn [andb].
    replace (is_scalar c) with true; [reflexivity|]. symmetry. apply is_scalar_spec. exact Hs.
Qed.

Lemma parse_escape_text s rest :
  is_text s = true -> parse_string_body (escape_text s ++ 34 :: rest) = Some (s, rest).
Proof.
  unfold is_text. induction s as [|c s IH]; intros Hs.
  - reflexivity.
  - cbn [forallb] in Hs. apply andb_true_iff in Hs as [Hc Hs].
    rewrite escape_text_cons, <- app_assoc, parse_escape_char by exact Hc.
    rewrite IH by exact Hs. reflexivity.
Qed.

(* plain text is written unchanged *)
Lemma escape_plain s : forallb plain_char s = true -> escape_text s = s.
Proof.
  induction s as [|c s IH]; intros H; [reflexivity|].
  cbn [forallb] in H. apply andb_true_iff in H as [Hc Hs]. rewrite escape_text_cons, IH by exact Hs.
  unfold plain_char in Hc. rewrite !andb_true_iff, !negb_true_iff, N.leb_le in Hc.
  destruct Hc as [[[H32 H34] H92] _]. apply N.eqb_neq in H34, H92. unfold escape_char.
  destruct (N.eqb_spec c 34); [contradiction|]. destruct (N.eqb_spec c 92); [contradiction|].
  destruct (N.eqb_spec c 10); [lia|]. destruct (N.eqb_spec c 13); [lia|]. destruct (N.eqb_spec c 9); [lia|].
  destruct (N.ltb_spec c 32); [lia|]. reflexivity.
Qed.
Lemma plain_is_text s : forallb plain_char s = true -> is_text s = true.
Proof.
  unfold is_text. induction s as [|c s IH]; intros H; [reflexivity|].
  cbn [forallb] in *. apply andb_true_iff in H as [Hc Hs]. rewrite IH by exact Hs.
  unfold plain_char in Hc. rewrite !andb_true_iff in Hc. destruct Hc as [_ ->]. reflexivity.
Qed.

(* ------------------------------------------------------------------ no line feed *)
Definition no_lf (s : text) : bool := forallb (fun c => negb (c =? 10)) s.
Lemma no_lf_app a b : no_lf (a ++ b) = no_lf a && no_lf b.
Proof. apply forallb_app. Qed.
Lemma no_lf_In s : no_lf s = true <-> ~ In 10 s.
Proof.
  unfold no_lf. rewrite forallb_forall. split.
  - intros H Hin. specialize (H 10 Hin). discriminate.
  - intros H c Hin. destruct (N.eqb_spec c 10) as [->|]; [contradiction|reflexivity].
Qed.
Lemma hex_digit_ge n : 48 <= hex_digit n.
Proof. unfold hex_digit. destruct (N.ltb_spec n 10); lia. Qed.
Lemma no_lf_escape_char c : no_lf (escape_char c) = true.
Proof.
  unfold escape_char.
  destruct (N.eqb_spec c 34); [reflexivity|]. destruct (N.eqb_spec c 92); [reflexivity|].
  destruct (N.eqb_spec c 10); [reflexivity|]. destruct (N.eqb_spec c 13); [reflexivity|].
  destruct (N.eqb_spec c 9); [reflexivity|].
  destruct (N.ltb_spec c 32).
  - unfold no_lf. cbn [forallb]. pose proof (hex_digit_ge (c / 16)). pose proof (hex_digit_ge (c mod 16)).
    destruct (N.eqb_spec (hex_digit (c / 16)) 10); [lia|]. destruct (N.eqb_spec (hex_digit (c mod 16)) 10); [lia|].
    reflexivity.
  - unfold no_lf. cbn [forallb]. destruct (N.eqb_spec c 10); [contradiction|reflexivity].
Qed.
Lemma no_lf_escape_text s : no_lf (escape_text s) = true.
Proof.
  induction s as [|c s IH]; [reflexivity|]. rewrite escape_text_cons, no_lf_app, no_lf_escape_char, IH. reflexivity.
Qed.
Lemma no_lf_digits ds : forallb is_digit ds = true -> no_lf ds = true.
Proof.
  unfold no_lf. rewrite !forallb_forall. intros H c Hin. specialize (H c Hin). apply is_digit_range in H.
  destruct (N.eqb_spec c 10); [lia|reflexivity].
Qed.
Lemma no_lf_json_string s : no_lf (write_json_string s) = true.
Proof.
  unfold write_json_string. change (34 :: escape_text s ++ [34]) with ([34] ++ escape_text s ++ [34]).
  rewrite !no_lf_app, no_lf_escape_text. reflexivity.
Qed.

Lemma split_line_ok body : no_lf body = true -> split_line (body ++ [10]) = Some body.
Proof.
  induction body as [|c b IH]; intros H; [reflexivity|].
  cbn [no_lf forallb] in H. apply andb_true_iff in H as [Hc Hb]. apply negb_true_iff in Hc.
  cbn [app split_line]. rewrite Hc, (IH Hb). reflexivity.
Qed.
Lemma split_line_spec s body : split_line s = Some body -> s = body ++ [10] /\ ~ In 10 body.
Proof.
  revert body. induction s as [|c t IH]; intros body H; [discriminate|].
  cbn [split_line] in H. destruct (N.eqb_spec c 10) as [->|Hc].
  - destruct t; [|discriminate]. injection H as <-. split; [reflexivity|intros []].
  - destruct (split_line t) as [b|]; [|discriminate]. injection H as <-.
    destruct (IH b eq_refl) as [-> Hn]. split; [reflexivity|]. intros [Heq|Hin]; [congruence|contradiction].
Qed.

(* ------------------------------------------------------------------ numbers *)
Lemma span_digits_stop ds c rest :
  forallb is_digit ds = true -> is_digit c = false -> span_digits (ds ++ c :: rest) = (ds, c :: rest).
Proof.
  intros Hd Hc. induction ds as [|d ds IH].
  - cbn [app span_digits]. rewrite Hc. reflexivity.
  - cbn [forallb] in Hd. apply andb_true_iff in Hd as [H1 H2].
    cbn [app span_digits]. rewrite H1, (IH H2). reflexivity.
Qed.
Lemma span_digits_end ds : forallb is_digit ds = true -> span_digits ds = (ds, []).
Proof.
  intros Hd. induction ds as [|d ds IH]; [reflexivity|].
  cbn [forallb] in Hd. apply andb_true_iff in Hd as [H1 H2]. cbn [span_digits]. rewrite H1, (IH H2). reflexivity.
Qed.

(* a character that ends a number: not a digit, not a point, not an exponent mark *)
Definition num_stop (c : N) : bool := negb (is_digit c) && negb (c =? 46) && negb (c =? 101) && negb (c =? 69).

Definition sign_text (neg : bool) : text := if neg then [45] else [].
Definition frac_text (fp : text) : text := if is_nil fp then [] else 46 :: fp.

Lemma int_part_ok_head ip : int_part_ok ip = true -> forallb is_digit ip = true ->
  exists d r, ip = d :: r /\ is_digit d = true.
Proof.
  destruct ip as [|d r]; [discriminate|]. intros _ H. cbn [forallb] in H. apply andb_true_iff in H as [H _].
  exists d, r. split; [reflexivity|exact H].
Qed.

Lemma parse_number_decimal neg ip fp c rest :
  forallb is_digit ip = true -> int_part_ok ip = true -> forallb is_digit fp = true -> num_stop c = true ->
  parse_number (sign_text neg ++ ip ++ frac_text fp ++ c :: rest)
  = Some (JNumber neg (digits_value (ip ++ fp)) (- Z.of_nat (length fp)), c :: rest).
Proof.
  intros Hip Hok Hfp Hc.
  unfold num_stop in Hc. rewrite !andb_true_iff, !negb_true_iff in Hc. destruct Hc as [[[Hcd Hc46] Hc101] Hc69].
  destruct (int_part_ok_head ip Hok Hip) as (d & r & -> & Hd).
  assert (Hd45 : (d =? 45) = false).
  { apply is_digit_range in Hd. destruct (N.eqb_spec d 45); [lia|reflexivity]. }
  unfold parse_number.
  assert (Hsign : forall X, (let (neg0, s1) := (match sign_text neg ++ (d :: r) ++ X with
                   | c0 :: t => if c0 =? 45 then (true, t) else (false, sign_text neg ++ (d :: r) ++ X)
                   | [] => (false, sign_text neg ++ (d :: r) ++ X)
                   end) in (neg0, s1)) = (neg, (d :: r) ++ X)).
  { intros X. destruct neg; cbn [sign_text app].
    - reflexivity.
    - rewrite Hd45. reflexivity. }
  destruct neg; cbn [sign_text app]; [change (45 =? 45) with true|rewrite Hd45]; cbv iota; clear Hsign;
  change (d :: r ++ frac_text fp ++ c :: rest) with ((d :: r) ++ frac_text fp ++ c :: rest).
  all: unfold frac_text; destruct fp as [|f0 fp'].
  1,3: (* no fraction *)
    cbn [is_nil app]; change (d :: r ++ c :: rest) with ((d :: r) ++ c :: rest);
    rewrite (span_digits_stop (d :: r) c rest Hip Hcd); rewrite Hok; cbn [negb];
    rewrite Hc46; rewrite Hc101, Hc69; cbn [orb negb length]; rewrite !app_nil_r; reflexivity.
  all: cbn [is_nil];
    change ((46 :: f0 :: fp') ++ c :: rest) with (46 :: (f0 :: fp') ++ c :: rest);
    assert (H46 : is_digit 46 = false) by reflexivity;
    rewrite (span_digits_stop (d :: r) 46 ((f0 :: fp') ++ c :: rest) Hip H46); rewrite Hok; cbn [negb];
    change (46 =? 46) with true; cbv iota;
    rewrite (span_digits_stop (f0 :: fp') c rest Hfp Hcd); cbn [is_nil negb];
    rewrite Hc101, Hc69; cbn [orb negb]; reflexivity.
Qed.

Lemma display_int_shape z :
  exists ds, display_int z = sign_text (z <? 0)%Z ++ ds /\ forallb is_digit ds = true /\ int_part_ok ds = true /\
             digits_value ds = Z.abs_N z.
Proof.
  unfold display_int. destruct (Z.ltb_spec z 0) as [Hneg|Hpos].
  - exists (dec (Z.abs_N z)). destruct (dec_spec (Z.abs_N z)) as (H1 & H2 & H3 & _). repeat split; assumption.
  - exists (dec (Z.to_N z)). destruct (dec_spec (Z.to_N z)) as (H1 & H2 & H3 & _). repeat split; try assumption.
    rewrite H2. destruct z; try reflexivity. lia.
Qed.

(* ------------------------------------------------------------------ float texts *)
Lemma split_dot_spec u :
  match split_dot u with
  | (a, None) => u = a
  | (a, Some f) => u = a ++ 46 :: f
  end.
Proof.
  induction u as [|c r IH]; [reflexivity|].
  cbn [split_dot]. destruct (N.eqb_spec c 46) as [->|Hc]; [reflexivity|].
  destruct (split_dot r) as [a [f|]]; cbn [app]; now rewrite IH.
Qed.

Lemma float_parts_spec t neg ip fp :
  float_parts t = Some (neg, ip, fp) ->
  t = sign_text neg ++ ip ++ frac_text fp /\ forallb is_digit ip = true /\ int_part_ok ip = true /\
  forallb is_digit fp = true.
Proof.
  unfold float_parts.
  set (pr := match t with
             | c :: r => if c =? 45 then (true, r) else (false, t)
             | [] => (false, t)
             end).
  assert (Hpr : t = sign_text (fst pr) ++ snd pr).
  { subst pr. destruct t as [|c r]; [reflexivity|]. destruct (N.eqb_spec c 45) as [->|]; reflexivity. }
  destruct pr as [neg0 u]. cbn [fst snd] in Hpr.
  pose proof (split_dot_spec u) as Hsd. destruct (split_dot u) as [a fo]. cbv beta iota zeta.
  match goal with |- context [if ?cnd then _ else _] => destruct cnd eqn:Hcond end; [|discriminate].
  intros H. injection H as <- <- <-.
  rewrite !andb_true_iff in Hcond. destruct Hcond as [[[H1 H2] H3] H4].
  repeat split; try assumption.
  rewrite Hpr. f_equal. destruct fo as [f|].
  - rewrite Hsd. f_equal. unfold frac_text. destruct f; [discriminate|reflexivity].
  - rewrite Hsd. cbn [frac_text is_nil]. now rewrite app_nil_r.
Qed.

Lemma float_finite_last t : float_finite_ok t = true -> exists p d, t = p ++ [d] /\ is_digit d = true.
Proof.
  unfold float_finite_ok. destruct (float_parts t) as [[[neg ip] fp]|] eqn:Hp; [|discriminate]. intros _.
  destruct (float_parts_spec t neg ip fp Hp) as (-> & Hip & Hok & Hfp).
  destruct fp as [|f0 fp'].
  - cbn [frac_text is_nil]. rewrite app_nil_r.
    destruct (exists_last (l := ip)) as (p & d & ->); [destruct ip; [discriminate|discriminate]|].
    exists (sign_text neg ++ p), d. split; [now rewrite app_assoc|].
    rewrite forallb_app in Hip. apply andb_true_iff in Hip as [_ Hd]. cbn [forallb] in Hd. now rewrite andb_true_r in Hd.
  - destruct (exists_last (l := f0 :: fp')) as (p & d & Heq); [discriminate|].
    exists (sign_text neg ++ ip ++ 46 :: p), d. split.
    + cbn [frac_text is_nil]. rewrite Heq. rewrite <- !app_assoc. reflexivity.
    + rewrite Heq, forallb_app in Hfp. apply andb_true_iff in Hfp as [_ Hd]. cbn [forallb] in Hd. now rewrite andb_true_r in Hd.
Qed.

Lemma float_finite_not_special t :
  float_finite_ok t = true -> ends_with t t_NaN = false /\ ends_with t t_inf = false /\ float_nonfinite t = false.
Proof.
  intros H. destruct (float_finite_last t H) as (p & d & -> & Hd). apply is_digit_range in Hd.
  unfold ends_with. rewrite rev_app_distr. cbn [rev app t_NaN t_inf ends_with_rev].
  destruct (N.eqb_spec 78 d); [lia|]. destruct (N.eqb_spec 102 d); [lia|]. cbn [andb]. repeat split.
  unfold float_nonfinite.
  assert (Hne : forall s q, (exists e, rev s = e :: q /\ e <> d) -> beq (p ++ [d]) s = false).
  { intros s q (e & Hr & Hne). destruct (beq (p ++ [d]) s) eqn:Hb; [|reflexivity].
    apply beq_eq in Hb. subst s. rewrite rev_app_distr in Hr. cbn in Hr. congruence. }
  rewrite (Hne t_NaN [97; 78]) by (exists 78; split; [reflexivity|lia]).
  rewrite (Hne t_inf [110; 105]) by (exists 102; split; [reflexivity|lia]).
  rewrite (Hne t_neg_inf [110; 105; 45]) by (exists 102; split; [reflexivity|lia]).
  reflexivity.
Qed.

Lemma float_nonfinite_cases t : float_nonfinite t = true -> t = t_NaN \/ t = t_inf \/ t = t_neg_inf.
Proof.
  unfold float_nonfinite. rewrite !orb_true_iff, !beq_eq. tauto.
Qed.

(* ------------------------------------------------------------------ one tag value *)
Lemma number_head_facts x : x = 45 \/ is_digit x = true ->
  (x =? 34) = false /\ (x =? 116) = false /\ (x =? 102) = false /\ (x =? 110) = false /\
  ((x =? 45) || is_digit x) = true /\ is_ws x = false.
Proof.
  intros [->|H]; [repeat split; reflexivity|].
  rewrite H, orb_true_r. apply is_digit_range in H. unfold is_ws.
  destruct (N.eqb_spec x 34); [lia|]. destruct (N.eqb_spec x 116); [lia|]. destruct (N.eqb_spec x 102); [lia|].
  destruct (N.eqb_spec x 110); [lia|]. destruct (N.eqb_spec x 32); [lia|]. destruct (N.eqb_spec x 9); [lia|].
  destruct (N.eqb_spec x 10); [lia|]. destruct (N.eqb_spec x 13); [lia|]. repeat split; reflexivity.
Qed.

Lemma decimal_head neg ip fp tail : forallb is_digit ip = true -> int_part_ok ip = true ->
  exists x r, sign_text neg ++ ip ++ frac_text fp ++ tail = x :: r /\ (x = 45 \/ is_digit x = true).
Proof.
  intros Hip Hok. destruct (int_part_ok_head ip Hok Hip) as (d & r & -> & Hd).
  destruct neg; cbn [sign_text app].
  - eexists _, _. split; [reflexivity|left; reflexivity].
  - eexists _, _. split; [reflexivity|right; exact Hd].
Qed.

Lemma parse_value_decimal neg ip fp c rest :
  forallb is_digit ip = true -> int_part_ok ip = true -> forallb is_digit fp = true -> num_stop c = true ->
  parse_value (sign_text neg ++ ip ++ frac_text fp ++ c :: rest)
  = Some (JNumber neg (digits_value (ip ++ fp)) (- Z.of_nat (length fp)), c :: rest)
  /\ skip_ws (sign_text neg ++ ip ++ frac_text fp ++ c :: rest) = sign_text neg ++ ip ++ frac_text fp ++ c :: rest.
Proof.
  intros Hip Hok Hfp Hc.
  pose proof (parse_number_decimal neg ip fp c rest Hip Hok Hfp Hc) as Hn.
  destruct (decimal_head neg ip fp (c :: rest) Hip Hok) as (x & r & Heq & Hx).
  rewrite Heq in *. destruct (number_head_facts x Hx) as (H1 & H2 & H3 & H4 & H5 & H6).
  split.
  - unfold parse_value. rewrite H1, H2, H3, H4, H5. exact Hn.
  - cbn [skip_ws]. rewrite H6. reflexivity.
Qed.

Lemma sep_facts c : c = 44 \/ c = 125 -> num_stop c = true /\ is_ws c = false.
Proof. intros [->| ->]; split; reflexivity. Qed.

Lemma no_lf_decimal neg ip fp : forallb is_digit ip = true -> forallb is_digit fp = true ->
  no_lf (sign_text neg ++ ip ++ frac_text fp) = true.
Proof.
  intros Hip Hfp. rewrite !no_lf_app, (no_lf_digits ip Hip).
  replace (no_lf (sign_text neg)) with true by (destruct neg; reflexivity).
  unfold frac_text. destruct fp as [|f0 fp']; [reflexivity|]. cbn [is_nil].
  change (46 :: f0 :: fp') with ([46] ++ f0 :: fp'). rewrite no_lf_app, (no_lf_digits _ Hfp). reflexivity.
Qed.

Lemma parse_value_display v c rest :
  value_wf v = true -> c = 44 \/ c = 125 ->
  parse_value (display_value v ++ c :: rest) = Some (expected_value v, c :: rest) /\
  skip_ws (display_value v ++ c :: rest) = display_value v ++ c :: rest /\
  no_lf (display_value v) = true.
Proof.
  intros Hwf Hc. destruct (sep_facts c Hc) as [Hstop Hws].
  assert (Hstr : forall s, is_text s = true ->
            parse_value (write_json_string s ++ c :: rest) = Some (JString s, c :: rest) /\
            skip_ws (write_json_string s ++ c :: rest) = write_json_string s ++ c :: rest /\
            no_lf (write_json_string s) = true).
  { intros s Hs. unfold write_json_string. cbn [app parse_value skip_ws]. change (34 =? 34) with true. cbv iota.
    rewrite <- app_assoc. cbn [app]. rewrite (parse_escape_text s (c :: rest) Hs).
    repeat split. apply (no_lf_json_string s). }
  destruct v as [s|b|z|t|]; cbn [display_value expected_value value_wf] in *.
  - apply Hstr. exact Hwf.
  - destruct b; cbn; rewrite ?Hws; repeat split; reflexivity.
  - destruct (display_int_shape z) as (ds & Heq & Hd & Hok & Hv). rewrite Heq.
    pose proof (parse_value_decimal (z <? 0)%Z ds [] c rest Hd Hok eq_refl Hstop) as [Hp Hs].
    cbn [frac_text is_nil app length] in Hp, Hs. rewrite app_nil_r, Hv in Hp. rewrite <- app_assoc.
    repeat split; try assumption.
    pose proof (no_lf_decimal (z <? 0)%Z ds [] Hd eq_refl) as Hn. cbn [frac_text is_nil] in Hn. now rewrite app_nil_r in Hn.
  - unfold float_text_ok in Hwf. destruct (float_nonfinite t) eqn:Hnf.
    + assert (Hends : ends_with t t_NaN || ends_with t t_inf = true).
      { destruct (float_nonfinite_cases t Hnf) as [->|[->| ->]]; reflexivity. }
      rewrite Hends. apply Hstr. destruct (float_nonfinite_cases t Hnf) as [->|[->| ->]]; reflexivity.
    + cbn [orb] in Hwf. destruct (float_finite_not_special t Hwf) as (-> & -> & _). cbn [orb].
      unfold decimal_of_float_text. unfold float_finite_ok in Hwf.
      destruct (float_parts t) as [[[neg ip] fp]|] eqn:Hp; [|discriminate].
      destruct (float_parts_spec t neg ip fp Hp) as (Heq & Hip & Hok & Hfp).
      pose proof (parse_value_decimal neg ip fp c rest Hip Hok Hfp Hstop) as [Hpv Hs].
      rewrite Heq. rewrite <- !app_assoc. repeat split; try assumption.
      rewrite !app_assoc. rewrite <- (app_assoc (sign_text neg)). apply no_lf_decimal; assumption.
  - cbn. rewrite ?Hws. repeat split; reflexivity.
Qed.

(* ------------------------------------------------------------------ member lists *)
Definition tag_member (tg : tag) : member := (fst tg, expected_value (snd tg)).

Lemma display_taglist_cons a b l :
  display_taglist (a :: b :: l) = display_tag a ++ 44 :: display_taglist (b :: l).
Proof. reflexivity. Qed.

Lemma display_taglist_app l1 l2 : l1 <> [] -> l2 <> [] ->
  display_taglist (l1 ++ l2) = display_taglist l1 ++ 44 :: display_taglist l2.
Proof.
  intros H1 H2. induction l1 as [|a l1 IH]; [contradiction|].
  destruct l1 as [|b l1].
  - destruct l2 as [|c l2]; [contradiction|]. reflexivity.
  - change ((a :: b :: l1) ++ l2) with (a :: b :: (l1 ++ l2)).
    rewrite !display_taglist_cons. change (b :: l1 ++ l2) with ((b :: l1) ++ l2).
    rewrite IH by discriminate. rewrite <- app_assoc. reflexivity.
Qed.

Lemma display_tag_head a : exists r, display_tag a = 34 :: r.
Proof. unfold display_tag, write_json_string. eexists. reflexivity. Qed.
Lemma display_taglist_head l : l <> [] -> exists r, display_taglist l = 34 :: r.
Proof.
  destruct l as [|a [|b l]]; [contradiction| |]; intros _.
  - apply display_tag_head.
  - rewrite display_taglist_cons. destruct (display_tag_head a) as [r ->]. eexists. reflexivity.
Qed.
Lemma display_taglist_len l : (length l <= length (display_taglist l))%nat.
Proof.
  induction l as [|a l IH]; [apply Nat.le_0_l|].
  destruct l as [|b l].
  - cbn [display_taglist]. destruct (display_tag_head a) as [r ->]. cbn [length]. lia.
  - rewrite display_taglist_cons, app_length. cbn [length] in *. lia.
Qed.

Lemma tag_wf_parts a : tag_wf a = true -> is_text (fst a) = true /\ value_wf (snd a) = true.
Proof. unfold tag_wf. now rewrite andb_true_iff. Qed.

(* one member followed by a separator *)
Lemma parse_member_step a c R f :
  tag_wf a = true -> c = 44 \/ c = 125 ->
  parse_members (S f) (display_tag a ++ c :: R) =
  if c =? 44 then match parse_members f (skip_ws R) with
                  | Some (ms, r) => Some (tag_member a :: ms, r)
                  | None => None
                  end
  else Some ([tag_member a], R).
Proof.
  intros Hwf Hc. destruct (tag_wf_parts a Hwf) as [Hname Hval]. destruct a as [name v]. cbn [fst snd] in *.
  destruct (parse_value_display v c R Hval Hc) as (Hpv & Hsk & _).
  destruct (sep_facts c Hc) as [_ Hws].
  unfold display_tag, write_json_string. cbn [fst snd].
  rewrite <- !app_assoc. cbn [app parse_members]. change (34 =? 34) with true. cbn [negb].
  rewrite <- app_assoc. cbn [app]. rewrite (parse_escape_text name _ Hname).
  cbn [skip_ws]. change (is_ws 58) with false. cbv iota. change (58 =? 58) with true. cbn [negb].
  rewrite Hsk, Hpv. cbn [skip_ws]. rewrite Hws.
  destruct Hc as [-> | ->]; reflexivity.
Qed.

Lemma parse_members_ok : forall L, L <> [] -> tags_wf L = true -> forall fuel rest, (length L <= fuel)%nat ->
  parse_members fuel (display_taglist L ++ 125 :: rest) = Some (map tag_member L, rest).
Proof.
  induction L as [|a L IH]; [contradiction|]. intros _ Hwf fuel rest Hfuel.
  cbn [tags_wf forallb] in Hwf. apply andb_true_iff in Hwf as [Ha HL].
  destruct fuel as [|f]; [cbn [length] in Hfuel; lia|].
  destruct L as [|b L].
  - cbn [display_taglist]. rewrite (parse_member_step a 125 rest f Ha (or_intror eq_refl)). reflexivity.
  - rewrite display_taglist_cons, <- app_assoc. cbn [app].
    rewrite (parse_member_step a 44 _ f Ha (or_introl eq_refl)). change (44 =? 44) with true. cbv iota.
    destruct (display_taglist_head (b :: L)) as [r Hr]; [discriminate|].
    assert (Hskip : skip_ws (display_taglist (b :: L) ++ 125 :: rest) = display_taglist (b :: L) ++ 125 :: rest).
    { rewrite Hr. reflexivity. }
    rewrite Hskip, IH; [reflexivity|discriminate|exact HL|cbn [length] in *; lia].
Qed.

Lemma no_lf_taglist L : tags_wf L = true -> no_lf (display_taglist L) = true.
Proof.
  induction L as [|a L IH]; intros Hwf; [reflexivity|].
  cbn [tags_wf forallb] in Hwf. apply andb_true_iff in Hwf as [Ha HL].
  assert (Htag : no_lf (display_tag a) = true).
  { destruct (tag_wf_parts a Ha) as [_ Hval]. unfold display_tag.
    change (write_json_string (fst a) ++ 58 :: display_value (snd a))
      with (write_json_string (fst a) ++ [58] ++ display_value (snd a)).
    rewrite !no_lf_app, no_lf_json_string.
    destruct (parse_value_display (snd a) 44 [] Hval (or_introl eq_refl)) as (_ & _ & ->). reflexivity. }
  destruct L as [|b L]; [exact Htag|].
  rewrite display_taglist_cons. change (44 :: display_taglist (b :: L)) with ([44] ++ display_taglist (b :: L)).
  rewrite !no_lf_app, Htag, (IH HL). reflexivity.
Qed.

(* ------------------------------------------------------------------ the whole line *)
Definition line_members (time : text) (time_ns : N) (lvl : level) (tags : list tag) : list tag :=
  (k_time, VStr time) :: (k_level, VStr (level_text lvl)) :: tags ++ [(k_time_ns, VInt (Z.of_N time_ns))].

Lemma display_int_of_N n : display_int (Z.of_N n) = dec n.
Proof.
  unfold display_int. destruct (Z.ltb_spec (Z.of_N n) 0); [lia|]. now rewrite N2Z.id.
Qed.

Lemma write_jsonl_uniform time ns lvl tags :
  time_text_ok time = true ->
  write_jsonl time ns lvl tags = 123 :: display_taglist (line_members time ns lvl tags) ++ [125; 10].
Proof.
  intros Ht. unfold write_jsonl, line_members.
  assert (Hlast : display_tag (k_time_ns, VInt (Z.of_N ns)) = lit_time_ns ++ dec ns).
  { unfold display_tag. cbn [fst snd display_value]. rewrite display_int_of_N. reflexivity. }
  assert (Htime : 123 :: display_tag (k_time, VStr time) ++ [44] = lit_open ++ time ++ [34; 44]).
  { unfold display_tag. cbn [fst snd display_value].
    change (write_json_string k_time) with [34; 116; 105; 109; 101; 34].
    unfold write_json_string. rewrite (escape_plain time Ht). unfold lit_open. cbn [app]. rewrite <- !app_assoc. reflexivity. }
  assert (Hlevel : display_tag (k_level, VStr (level_text lvl)) =
                   [34; 108; 101; 118; 101; 108; 34; 58; 34] ++ level_text lvl ++ [34]).
  { destruct lvl; reflexivity. }
  assert (Htl : display_taglist (tags ++ [(k_time_ns, VInt (Z.of_N ns))]) =
                (if is_nil tags then lit_time_ns ++ dec ns
                 else display_taglist tags ++ 44 :: lit_time_ns ++ dec ns)).
  { destruct tags as [|a tags]; [exact Hlast|]. cbn [is_nil].
    rewrite display_taglist_app by discriminate. cbn [display_taglist]. rewrite Hlast. reflexivity. }
  assert (Hshape : exists x l, tags ++ [(k_time_ns, VInt (Z.of_N ns))] = x :: l).
  { destruct tags; eexists _, _; reflexivity. }
  destruct Hshape as (x & l & Hx). rewrite Hx, !display_taglist_cons, <- Hx, Htl, Hlevel.
  match goal with |- _ = 123 :: (?A ++ 44 :: ?X) ++ ?Y => change (123 :: (A ++ 44 :: X) ++ Y) with ((123 :: A ++ [44] ++ X) ++ Y) end.
  rewrite (app_assoc (display_tag (k_time, VStr time)) [44]).
  change (123 :: (?A ++ [44]) ++ ?X) with ((123 :: A ++ [44]) ++ X).
  rewrite Htime. unfold lit_level, lit_after_level, lit_open.
  rewrite <- !app_assoc. cbn [app]. rewrite <- ?app_assoc. reflexivity.
Qed.

Lemma line_members_wf time ns lvl tags :
  time_text_ok time = true -> tags_wf tags = true -> tags_wf (line_members time ns lvl tags) = true.
Proof.
  intros Ht Hw. unfold line_members, tags_wf. cbn [forallb]. rewrite forallb_app. fold (tags_wf tags). rewrite Hw.
  cbn [forallb]. unfold tag_wf at 1. cbn [fst snd value_wf]. rewrite (plain_is_text time Ht).
  destruct lvl; reflexivity.
Qed.

Lemma line_members_expected time ns lvl tags :
  map tag_member (line_members time ns lvl tags) = expected_members time ns lvl tags.
Proof.
  unfold line_members, expected_members. cbn [map]. rewrite map_app. cbn [map].
  unfold tag_member at 1 2 4. cbn [fst snd expected_value].
  replace (Z.of_N ns <? 0)%Z with false by (symmetry; apply Z.ltb_ge; lia). rewrite Zabs2N.id. reflexivity.
Qed.

Lemma parse_json_text_object L : L <> [] -> tags_wf L = true ->
  parse_json_text (123 :: display_taglist L ++ [125]) = Some (map tag_member L).
Proof.
  intros Hne Hwf. unfold parse_json_text, parse_object.
  destruct (display_taglist_head L Hne) as [r Hr].
  cbn [skip_ws]. change (is_ws 123) with false. cbv iota. change (123 =? 123) with true. cbn [negb].
  assert (Hskip : skip_ws (display_taglist L ++ [125]) = display_taglist L ++ [125]) by (rewrite Hr; reflexivity).
  rewrite Hskip. rewrite Hr at 1. cbn [app]. change (34 =? 125) with false. cbv iota.
  rewrite parse_members_ok; [reflexivity|exact Hne|exact Hwf|].
  rewrite app_length. pose proof (display_taglist_len L). lia.
Qed.

Theorem jsonl_roundtrip_lemma time ns lvl tags :
  time_text_ok time = true -> tags_wf tags = true ->
  (exists body, write_jsonl time ns lvl tags = (123 :: body ++ [125]) ++ [10] /\ ~ In 10 (123 :: body ++ [125])) /\
  parse_line (write_jsonl time ns lvl tags) = Some (expected_members time ns lvl tags).
Proof.
  intros Ht Hw.
  pose proof (line_members_wf time ns lvl tags Ht Hw) as HwL.
  assert (HneL : line_members time ns lvl tags <> []) by discriminate.
  assert (Hnolf : no_lf (123 :: display_taglist (line_members time ns lvl tags) ++ [125]) = true).
  { change (123 :: ?X ++ [125]) with ([123] ++ X ++ [125]). rewrite !no_lf_app, (no_lf_taglist _ HwL). reflexivity. }
  assert (Heq : write_jsonl time ns lvl tags = (123 :: display_taglist (line_members time ns lvl tags) ++ [125]) ++ [10]).
  { rewrite (write_jsonl_uniform time ns lvl tags Ht). cbn [app]. rewrite <- app_assoc. reflexivity. }
  split.
  - exists (display_taglist (line_members time ns lvl tags)). split; [exact Heq|]. apply no_lf_In. exact Hnolf.
  - unfold parse_line. rewrite Heq, (split_line_ok _ Hnolf).
    rewrite (parse_json_text_object _ HneL HwL). f_equal. apply line_members_expected.
Qed.

(* ------------------------------------------------------------------ UTF-8 *)
Ltac cmp :=
  repeat match goal with
  | |- context [N.ltb ?a ?b] => destruct (N.ltb_spec a b); try lia
  | |- context [N.leb ?a ?b] => destruct (N.leb_spec a b); try lia
  end.

Lemma utf8_decode_char c r : is_scalar c = true ->
  utf8_decode (utf8_encode_char c ++ r) = option_map (cons c) (utf8_decode r).
Proof.
  intros Hs. pose proof Hs as Hs'. apply is_scalar_spec in Hs'. unfold utf8_encode_char.
  destruct (N.ltb_spec c 128) as [H1|H1].
  - cbn [app utf8_decode]. destruct (N.ltb_spec c 128); [reflexivity|lia].
  - destruct (N.ltb_spec c 2048) as [H2|H2].
    + cbn [app utf8_decode]. unfold is_cont.
      assert (Hc : (192 + c / 64 - 192) * 64 + (128 + c mod 64 - 128) = c) by lia. rewrite Hc.
      cmp. reflexivity.
    + destruct (N.ltb_spec c 65536) as [H3|H3].
      * cbn [app utf8_decode]. unfold is_cont.
        assert (Hc : (224 + c / 4096 - 224) * 4096 + (128 + (c / 64) mod 64 - 128) * 64 + (128 + c mod 64 - 128) = c) by lia.
        rewrite Hc, Hs. cmp. reflexivity.
      * cbn [app utf8_decode]. unfold is_cont.
        assert (Hc : (240 + c / 262144 - 240) * 262144 + (128 + (c / 4096) mod 64 - 128) * 4096 + (128 + (c / 64) mod 64 - 128) * 64 + (128 + c mod 64 - 128) = c) by lia.
        rewrite Hc. cmp. reflexivity.
Qed.

Lemma utf8_roundtrip s : is_text s = true -> utf8_decode (utf8_encode s) = Some s.
Proof.
  unfold is_text, utf8_encode. induction s as [|c s IH]; intros H; [reflexivity|].
  cbn [forallb] in H. apply andb_true_iff in H as [Hc Hs]. cbn [flat_map].
  rewrite (utf8_decode_char c _ Hc), (IH Hs). reflexivity.
Qed.

(* the line is a scalar-value text *)
Lemma is_text_app a b : is_text (a ++ b) = is_text a && is_text b.
Proof. apply forallb_app. Qed.
Lemma is_scalar_small c : c < 55296 -> is_scalar c = true.
Proof. intros H. apply is_scalar_spec. left. exact H. Qed.
Lemma is_text_digits ds : forallb is_digit ds = true -> is_text ds = true.
Proof.
  unfold is_text. rewrite !forallb_forall. intros H c Hin. specialize (H c Hin). apply is_digit_range in H.
  apply is_scalar_small. lia.
Qed.
Lemma hex_digit_le n : n < 16 -> hex_digit n <= 102.
Proof. unfold hex_digit. destruct (N.ltb_spec n 10); lia. Qed.
Lemma is_text_escape_char c : is_scalar c = true -> is_text (escape_char c) = true.
Proof.
  intros Hs. unfold escape_char.
  destruct (N.eqb_spec c 34); [reflexivity|]. destruct (N.eqb_spec c 92); [reflexivity|].
  destruct (N.eqb_spec c 10); [reflexivity|]. destruct (N.eqb_spec c 13); [reflexivity|].
  destruct (N.eqb_spec c 9); [reflexivity|].
  destruct (N.ltb_spec c 32).
  - unfold is_text. cbn [forallb].
    rewrite (is_scalar_small (hex_digit (c / 16))) by (pose proof (hex_digit_le (c / 16)); lia).
    rewrite (is_scalar_small (hex_digit (c mod 16))) by (pose proof (hex_digit_le (c mod 16)); lia).
    reflexivity.
  - unfold is_text. cbn [forallb]. rewrite Hs. reflexivity.
Qed.
Lemma is_text_escape_text s : is_text s = true -> is_text (escape_text s) = true.
Proof.
  induction s as [|c s IH]; intros H; [reflexivity|].
  unfold is_text in H. cbn [forallb] in H. apply andb_true_iff in H as [Hc Hs].
  rewrite escape_text_cons, is_text_app, (is_text_escape_char c Hc), (IH Hs). reflexivity.
Qed.
Lemma is_text_json_string s : is_text s = true -> is_text (write_json_string s) = true.
Proof.
  intros H. unfold write_json_string. change (34 :: escape_text s ++ [34]) with ([34] ++ escape_text s ++ [34]).
  rewrite !is_text_app, (is_text_escape_text s H). reflexivity.
Qed.
Lemma is_text_decimal neg ip fp : forallb is_digit ip = true -> forallb is_digit fp = true ->
  is_text (sign_text neg ++ ip ++ frac_text fp) = true.
Proof.
  intros Hip Hfp. rewrite !is_text_app, (is_text_digits ip Hip).
  replace (is_text (sign_text neg)) with true by (destruct neg; reflexivity).
  unfold frac_text. destruct fp as [|f0 fp']; [reflexivity|]. cbn [is_nil].
  change (46 :: f0 :: fp') with ([46] ++ f0 :: fp'). rewrite is_text_app, (is_text_digits _ Hfp). reflexivity.
Qed.
Lemma is_text_display_value v : value_wf v = true -> is_text (display_value v) = true.
Proof.
  intros Hwf. destruct v as [s|b|z|t|]; cbn [display_value value_wf] in *.
  - apply is_text_json_string. exact Hwf.
  - destruct b; reflexivity.
  - destruct (display_int_shape z) as (ds & Heq & Hd & Hok & Hv). rewrite Heq.
    pose proof (is_text_decimal (z <? 0)%Z ds [] Hd eq_refl) as Hn. cbn [frac_text is_nil] in Hn. now rewrite app_nil_r in Hn.
  - unfold float_text_ok in Hwf. destruct (float_nonfinite t) eqn:Hnf.
    + destruct (float_nonfinite_cases t Hnf) as [->|[->| ->]]; reflexivity.
    + cbn [orb] in Hwf. destruct (float_finite_not_special t Hwf) as (-> & -> & _). cbn [orb].
      unfold float_finite_ok in Hwf. destruct (float_parts t) as [[[neg ip] fp]|] eqn:Hp; [|discriminate].
      destruct (float_parts_spec t neg ip fp Hp) as (Heq & Hip & Hok & Hfp).
      rewrite Heq. apply is_text_decimal; assumption.
  - reflexivity.
Qed.
Lemma is_text_taglist L : tags_wf L = true -> is_text (display_taglist L) = true.
Proof.
  induction L as [|a L IH]; intros Hwf; [reflexivity|].
  cbn [tags_wf forallb] in Hwf. apply andb_true_iff in Hwf as [Ha HL].
  assert (Htag : is_text (display_tag a) = true).
  { destruct (tag_wf_parts a Ha) as [Hname Hval]. unfold display_tag.
    change (write_json_string (fst a) ++ 58 :: display_value (snd a))
      with (write_json_string (fst a) ++ [58] ++ display_value (snd a)).
    rewrite !is_text_app, (is_text_json_string _ Hname), (is_text_display_value _ Hval). reflexivity. }
  destruct L as [|b L]; [exact Htag|].
  rewrite display_taglist_cons. change (44 :: display_taglist (b :: L)) with ([44] ++ display_taglist (b :: L)).
  rewrite !is_text_app, Htag, (IH HL). reflexivity.
Qed.
Lemma is_text_line time ns lvl tags :
  time_text_ok time = true -> tags_wf tags = true -> is_text (write_jsonl time ns lvl tags) = true.
Proof.
  intros Ht Hw. rewrite (write_jsonl_uniform time ns lvl tags Ht).
  change (123 :: ?X ++ [125; 10]) with ([123] ++ X ++ [125; 10]).
  rewrite !is_text_app, (is_text_taglist _ (line_members_wf time ns lvl tags Ht Hw)). reflexivity.
Qed.

Theorem jsonl_roundtrip_utf8_lemma time ns lvl tags :
  time_text_ok time = true -> tags_wf tags = true ->
  parse_line_utf8 (utf8_encode (write_jsonl time ns lvl tags)) = Some (expected_members time ns lvl tags).
Proof.
  intros Ht Hw. unfold parse_line_utf8. rewrite (utf8_roundtrip _ (is_text_line time ns lvl tags Ht Hw)).
  apply jsonl_roundtrip_lemma; assumption.
Qed.

(* ------------------------------------------------------------------ no break-out *)
Theorem no_breakout_members_lemma time ns lvl tags :
  time_text_ok time = true -> tags_wf tags = true ->
  exists ms, parse_line (write_jsonl time ns lvl tags) = Some ms /\ length ms = (3 + length tags)%nat.
Proof.
  intros Ht Hw. exists (expected_members time ns lvl tags). split.
  - apply jsonl_roundtrip_lemma; assumption.
  - unfold expected_members. cbn [length]. rewrite app_length, map_length. cbn [length].
    rewrite Nat.add_1_r. reflexivity.
Qed.

(* A string value never ends its own string early, never extends past its closing quotation mark, and
   never contains a line feed: started right after the opening quotation mark, the RFC 8259 string
   reader consumes exactly the escaped text and stops at the writer's closing quotation mark,
   whatever text follows. *)
Theorem no_breakout_string_lemma s rest :
  is_text s = true ->
  parse_string_body (escape_text s ++ 34 :: rest) = Some (s, rest) /\ ~ In 10 (escape_text s).
Proof.
  intros Hs. split; [apply parse_escape_text; exact Hs|]. apply no_lf_In. apply no_lf_escape_text.
Qed.

(* ------------------------------------------------------------------ the oracle holds of the model *)
Lemma jvalue_eqb_refl v : jvalue_eqb v v = true.
Proof.
  destruct v as [s|n m e| | |]; cbn [jvalue_eqb]; try reflexivity.
  - apply beq_refl.
  - unfold jnum_eqb. rewrite Bool.eqb_reflx, N.eqb_refl. reflexivity.
Qed.
Lemma member_list_beq_refl l : list_beq member_eqb l l = true.
Proof.
  induction l as [|m l IH]; [reflexivity|]. cbn [list_beq]. unfold member_eqb at 1.
  rewrite beq_refl, jvalue_eqb_refl, IH. reflexivity.
Qed.

Lemma members_match_expected time ns lvl tags :
  time_text_ok time = true -> length time = 20%nat ->
  members_match lvl tags (expected_members time ns lvl tags) = true.
Proof.
  intros Ht Hlen. unfold expected_members, members_match.
  rewrite beq_refl, Ht, Hlen. cbn [andb Nat.eqb].
  set (X := (k_level, JString (level_text lvl)) :: map (fun tg => (fst tg, expected_value (snd tg))) tags).
  change ((k_level, JString (level_text lvl)) :: map (fun tg => (fst tg, expected_value (snd tg))) tags ++ [(k_time_ns, JNumber false ns 0)])
    with (X ++ [(k_time_ns, JNumber false ns 0)]).
  rewrite rev_app_distr. cbn [rev app]. rewrite beq_refl. cbn [andb].
  rewrite rev_involutive. apply member_list_beq_refl.
Qed.

Theorem oracle_c17_sound_lemma time ns lvl tags :
  time_text_ok time = true -> length time = 20%nat -> tags_wf tags = true ->
  oracle_c17_utf8 lvl tags (utf8_encode (write_jsonl time ns lvl tags)) = true.
Proof.
  intros Ht Hlen Hw. unfold oracle_c17_utf8.
  rewrite (utf8_roundtrip _ (is_text_line time ns lvl tags Ht Hw)). unfold oracle_c17.
  destruct (jsonl_roundtrip_lemma time ns lvl tags Ht Hw) as [_ ->].
  rewrite (members_match_expected time ns lvl tags Ht Hlen). cbn [andb].
  unfold expected_members. cbn [length]. rewrite app_length, map_length. cbn [length].
  rewrite Nat.add_1_r. apply Nat.eqb_eq. reflexivity.
Qed.

(* and conversely: whatever line the oracle accepts for an event is a one-line JSON object with
   exactly the members the property demands *)
Theorem oracle_c17_meaning lvl tags line :
  oracle_c17 lvl tags line = true ->
  exists body ms, line = body ++ [10] /\ ~ In 10 body /\ parse_json_text body = Some ms /\
                  length ms = (3 + length tags)%nat.
Proof.
  unfold oracle_c17, parse_line. destruct (split_line line) as [body|] eqn:Hsp; [|discriminate].
  destruct (parse_json_text body) as [ms|] eqn:Hp; [|discriminate].
  rewrite andb_true_iff. intros [_ Hlen]. apply Nat.eqb_eq in Hlen.
  destruct (split_line_spec line body Hsp) as [-> Hn]. exists body, ms. repeat split; assumption.
Qed.

(* ------------------------------------------------------------------ float_text_grammar as a Section hypothesis *)
Section FloatDisplay.
  Variable F : Type.                         (* f32 / f64 values *)
  Variable float_display : F -> text.        (* Rust's Display for them *)
  Hypothesis float_text_grammar : forall x, float_text_ok (float_display x) = true.

  (* values as applications pass them: From<f32>/From<f64> store the Display text *)
  Inductive source_value :=
  | SStr (s : text) | SBool (b : bool) | SInt (z : Z) | SFloat (x : F) | SNull.
  Definition tag_value_of (v : source_value) : tag_value :=
    match v with
    | SStr s => VStr s
    | SBool b => VBool b
    | SInt z => VInt z
    | SFloat x => VFloat (float_display x)
    | SNull => VNull
    end.
  Definition source_wf (tg : text * source_value) : bool :=
    is_text (fst tg) && match snd tg with SStr s => is_text s | _ => true end.
  Definition tags_of (src : list (text * source_value)) : list tag :=
    map (fun tg => (fst tg, tag_value_of (snd tg))) src.

  Lemma tags_of_wf src : forallb source_wf src = true -> tags_wf (tags_of src) = true.
  Proof.
    induction src as [|[n v] src IH]; intros H; [reflexivity|].
    cbn [forallb] in H. apply andb_true_iff in H as [Ha Hs].
    cbn [tags_of map tags_wf forallb]. fold (tags_of src). fold (tags_wf (tags_of src)). rewrite (IH Hs), andb_true_r.
    unfold source_wf in Ha. cbn [fst snd] in Ha. apply andb_true_iff in Ha as [Hn Hv].
    unfold tag_wf. cbn [fst snd]. rewrite Hn. destruct v; cbn [tag_value_of value_wf]; try reflexivity; try exact Hv.
    apply float_text_grammar.
  Qed.

  Theorem jsonl_roundtrip_sources time ns lvl src :
    time_text_ok time = true -> forallb source_wf src = true ->
    parse_line_utf8 (utf8_encode (write_jsonl time ns lvl (tags_of src)))
    = Some (expected_members time ns lvl (tags_of src)).
  Proof.
    intros Ht Hs. apply jsonl_roundtrip_utf8_lemma; [exact Ht|apply tags_of_wf; exact Hs].
  Qed.
End FloatDisplay.

(* ------------------------------------------------------------------ the code before the repair of D13 *)
Definition sample_time : text := [50; 48; 50; 51; 45; 48; 52; 45; 49; 52; 84; 48; 48; 58; 51; 50; 58; 49; 54; 90].

Lemma debug_escape_refuted_lemma :
  time_text_ok sample_time = true /\
  tags_wf [([107], VStr [1])] = true /\ tags_wf [([107], VStr [0])] = true /\ tags_wf [([107], VStr [127])] = true /\
  parse_line (write_jsonl_prefix sample_time 0 LInfo [([107], VStr [1])]) = None /\
  parse_line (write_jsonl_prefix sample_time 0 LInfo [([107], VStr [0])]) = None /\
  parse_line (write_jsonl_prefix sample_time 0 LInfo [([107], VStr [127])]) = None /\
  parse_line (write_jsonl_prefix sample_time 0 LInfo [([107; 1], VBool true)]) = None.
Proof. vm_compute. repeat split; reflexivity. Qed.

Lemma bare_nonfinite_refuted_lemma :
  tags_wf [([107], VFloat t_NaN)] = true /\
  parse_line (write_jsonl_prefix sample_time 0 LInfo [([107], VFloat t_NaN)]) = None /\
  parse_line (write_jsonl_prefix sample_time 0 LInfo [([107], VFloat t_inf)]) = None /\
  parse_line (write_jsonl_prefix sample_time 0 LInfo [([107], VFloat t_neg_inf)]) = None.
Proof. vm_compute. repeat split; reflexivity. Qed.

(* ------------------------------------------------------------------ the driver's reading of time / time_ns *)
(* The correspondence driver instantiates the model with the time text and time_ns it reads off
   the implementation's line ([line_time], [line_time_ns]); on a model line these return exactly
   the parameters, so the instantiated model line equals the implementation line iff the
   implementation line is the model line for SOME time and time_ns. *)
Lemma take_digits_rev_spec ds c r acc :
  forallb is_digit ds = true -> is_digit c = false -> take_digits_rev (rev ds ++ c :: r) acc = ds ++ acc.
Proof.
  intros Hd Hc. revert acc. induction ds as [|d ds IH] using rev_ind; intros acc.
  - cbn [rev app take_digits_rev]. rewrite Hc. reflexivity.
  - rewrite forallb_app in Hd. apply andb_true_iff in Hd as [Hds Hd]. cbn [forallb] in Hd. rewrite andb_true_r in Hd.
    rewrite rev_app_distr. cbn [rev app take_digits_rev]. rewrite Hd, (IH Hds), <- app_assoc. reflexivity.
Qed.

Lemma line_params_of_model time ns lvl tags :
  length time = 20%nat ->
  line_time (write_jsonl time ns lvl tags) = time /\ line_time_ns (write_jsonl time ns lvl tags) = ns.
Proof.
  intros Hlen. split.
  - unfold line_time, write_jsonl, lit_open. cbn [app skipn].
    rewrite <- Hlen, firstn_app, firstn_all, Nat.sub_diag, firstn_O, app_nil_r. reflexivity.
  - assert (Hshape : exists P, write_jsonl time ns lvl tags = (P ++ [58]) ++ dec ns ++ [125; 10]).
    { unfold write_jsonl. destruct (is_nil tags).
      - exists (lit_open ++ time ++ lit_level ++ level_text lvl ++ lit_after_level ++ [34; 116; 105; 109; 101; 95; 110; 115; 34]).
        unfold lit_time_ns. rewrite <- !app_assoc. cbn [app]. reflexivity.
      - exists (lit_open ++ time ++ lit_level ++ level_text lvl ++ lit_after_level ++ display_taglist tags ++
                44 :: [34; 116; 105; 109; 101; 95; 110; 115; 34]).
        unfold lit_time_ns. rewrite <- !app_assoc. cbn [app]. rewrite <- ?app_assoc. cbn [app]. reflexivity. }
    destruct Hshape as [P ->]. unfold line_time_ns. rewrite rev_append_rev, app_nil_r.
    rewrite !rev_app_distr. cbn [rev app].
    destruct (dec_spec ns) as (Hd & Hv & _).
    rewrite (take_digits_rev_spec (dec ns) 58 (rev P) [] Hd eq_refl), app_nil_r. exact Hv.
Qed.

(* ------------------------------------------------------------------ sanity: the numeric literals are the intended ASCII *)
From Coq Require Import String Ascii.
Definition ascii_text (s : string) : text := map N_of_ascii (list_ascii_of_string s).
Example lit_open_ok : lit_open = ascii_text "{""time"":""". Proof. reflexivity. Qed.
Example lit_level_ok : lit_level = ascii_text """,""level"":""". Proof. reflexivity. Qed.
Example lit_after_level_ok : lit_after_level = ascii_text """,". Proof. reflexivity. Qed.
Example lit_time_ns_ok : lit_time_ns = ascii_text """time_ns"":". Proof. reflexivity. Qed.
Example level_text_ok : map level_text [LError; LInfo; LDebug] = map ascii_text ["error"; "info"; "debug"]%string.
Proof. reflexivity. Qed.
Example float_names_ok : [t_NaN; t_inf; t_neg_inf; t_true; t_false; t_null]
                         = map ascii_text ["NaN"; "inf"; "-inf"; "true"; "false"; "null"]%string.
Proof. reflexivity. Qed.
Example keys_ok : [k_time; k_level; k_time_ns] = map ascii_text ["time"; "level"; "time_ns"]%string.
Proof. reflexivity. Qed.
Example sample_time_ok : sample_time = ascii_text "2023-04-14T00:32:16Z". Proof. reflexivity. Qed.
Example sample_line_ok :
  write_jsonl sample_time 5 LInfo [(ascii_text "k", VStr [34; 1; 10]); (ascii_text "n", VInt (-7)); (ascii_text "f", VFloat t_NaN)]
  = ascii_text "{""time"":""2023-04-14T00:32:16Z"",""level"":""info"",""k"":""\""\u0001\n"",""n"":-7,""f"":""NaN"",""time_ns"":5}" ++ [10].
Proof. reflexivity. Qed.

