(* Proofs/WriteFailP.v -- a failed response write never corrupts the connection (Model/WriteFail.v). *)
From SV Require Import Base.Bytes Base.BytesP Model.Headers Model.IOSched Spec.ChunkDecode Model.Chunked
                       Spec.RespParse Model.Response Model.WriteFail
                       Proofs.IOSchedP Proofs.ChunkedP Proofs.RespParseP Proofs.ResponseP.

Section WithTables.
  Variable reason : N -> bytes.
  Variable ct_text : nat -> bytes.
  Notation W := (write_http_response reason ct_text).
  Notation full_wire := (full_wire reason ct_text).
  Notation cwr := (conn_write_response reason ct_text).

  (* serializer level: whatever the writer and the body source do *)
  Lemma ser_spec r close w res wire w' : W r close w = (res, wire, w') ->
    (if r_normal r && negb (collides r)
     then (exists suf, full_wire r close = wire ++ suf) /\
          match res with
          | None => wire = full_wire r close /\ body_deliverable (r_body r) = true
          | Some e => is_dup e = false
          end
     else wire = [] /\ w' = w /\ exists e, res = Some e) .
  Proof.
    intros HW. destruct (r_normal r) eqn:Hn; cbn [andb].
    2:{ unfold write_http_response in HW. rewrite W_unwritable in HW by assumption. inversion HW; subst. eauto. }
    destruct (collides r) eqn:Hc; cbn [negb].
    { destruct (W_refused reason ct_text r close w Hn Hc) as (e & E & _). rewrite E in HW. inversion HW; subst. eauto. }
    destruct (W_general reason ct_text r close w res wire w' Hn Hc HW) as (S & R). split; [exact S|].
    destruct res as [e|]; [now destruct R|].
    destruct R as (X & -> & HX). unfold Response.full_wire.
    destruct (r_body r) as [n open_ok src|src] eqn:Eb.
    - destruct HX as (HX & Hlen). cbn [body_wire body_deliverable]. destruct (N.eqb_spec n 0) as [->|Hn0].
      { cbn [orb]. split; [|reflexivity]. f_equal. destruct X; [reflexivity|]. cbn in Hlen. lia. }
      cbn [orb]. destruct open_ok; cbn [negb andb].
      { split; [now rewrite HX|]. apply N.leb_le. rewrite <- Hlen, HX. cbn [body_payload].
        pose proof (firstn_le_length (N.to_nat (N.min n (N.of_nat (length (r_data src))))) (r_data src)). lia. }
      (* the open failed and n <> 0: the write cannot have returned Ok *)
      exfalso. pose proof (build_head_spec reason ct_text r close Hn) as H. rewrite Hc in H.
      unfold write_http_response, write_http_response_gen in HW. rewrite H, Eb in HW.
      destruct (write_all _ w) as [[a w1] ok]. destruct ok; cbn [negb] in HW; [|discriminate].
      replace (n =? 0) with false in HW by (symmetry; now apply N.eqb_neq). cbn [negb] in HW. discriminate.
    - destruct HX as (ps & HD & -> & _). cbn [body_wire body_deliverable]. rewrite HD. split; reflexivity.
  Qed.

  Lemma oracle_c08_ser_model r close w :
    let '(res, wire, _) := W r close w in oracle_c08_ser reason ct_text r close res wire = true.
  Proof.
    destruct (W r close w) as [[res wire] w'] eqn:HW. pose proof (ser_spec r close w res wire w' HW) as H.
    unfold oracle_c08_ser. destruct (r_normal r) eqn:Hn; cbn [negb andb] in *.
    2:{ unfold write_http_response in HW. rewrite W_unwritable in HW by assumption. inversion HW; subst. reflexivity. }
    destruct (collides r) eqn:Hc; cbn [negb] in *.
    { destruct (W_refused reason ct_text r close w Hn Hc) as (e & E & Hd). rewrite E in HW. inversion HW; subst. now rewrite Hd. }
    destruct H as ((suf & Hs) & R). rewrite Hs, starts_with_app. cbn [andb].
    destruct res as [e|]; [now rewrite R|]. destruct R as (R & Hdel). rewrite <- Hs, R, Hdel. now rewrite beq_refl.
  Qed.

  (* ---- connection level ---- *)
  Lemma cwr_shutdown c r : c_ws c = WsShutdown -> cwr c r = (Some CeDisconnected, c).
  Proof. intros H. unfold conn_write_response. now rewrite H. Qed.

  Lemma write_many_shutdown rs : forall c, c_ws c = WsShutdown -> conn_write_many reason ct_text c rs = c.
  Proof. induction rs as [|r t IH]; intros c H; [reflexivity|]. cbn [conn_write_many]. rewrite cwr_shutdown by assumption. now apply IH. Qed.

  Definition final_state (code : N) : wstate :=
    if closes code then WsShutdown else if is_1xx code then WsResponse else WsNone.

  Lemma cwr_spec c r res c' : c_ws c = WsResponse -> cwr c r = (res, c') ->
    exists acc, c_wire c' = c_wire c ++ acc /\
      (if r_normal r && negb (collides r)
       then exists suf, full_wire r (closes (r_code r)) = acc ++ suf
       else acc = []) /\
      match res with
      | None => acc = full_wire r (closes (r_code r)) /\ r_normal r && negb (collides r) = true /\
                c_ws c' = final_state (r_code r) /\ body_deliverable (r_body r) = true
      | Some e => (acc <> [] -> c_ws c' = WsShutdown /\ c_shutdowns c' = S (c_shutdowns c)) /\
                  (acc = [] -> c_ws c' = WsResponse /\ c_shutdowns c' = c_shutdowns c) /\
                  (e <> CeAlreadySent /\ e <> CeDisconnected)
      end.
  Proof.
    intros Hs HC. unfold conn_write_response in HC. rewrite Hs in HC.
    destruct (W r (closes (r_code r)) (c_writer c)) as [[wres acc] w'] eqn:HW.
    pose proof (ser_spec r _ _ _ _ _ HW) as H. exists acc.
    destruct wres as [e|].
    - inversion HC; subst. clear HC. split.
      { destruct (0 <? N.of_nat (length acc)); reflexivity. }
      split.
      { destruct (r_normal r && negb (collides r)); [now destruct H|now destruct H]. }
      split; [|split; [|split; discriminate]].
      + intros Hne. destruct acc; [congruence|]. cbn. auto.
      + intros ->. cbn. auto.
    - inversion HC; subst. clear HC.
      destruct (r_normal r && negb (collides r)) eqn:Hd.
      2:{ destruct H as (_ & _ & e & He). discriminate. }
      destruct H as (S & -> & Hdel). split.
      { unfold shutdown_write. destruct (closes (r_code r)), (is_1xx (r_code r)); reflexivity. }
      split; [exists []; now rewrite app_nil_r|]. split; [reflexivity|]. split; [reflexivity|].
      split; [|exact Hdel].
      unfold final_state, shutdown_write. destruct (closes (r_code r)), (is_1xx (r_code r)); reflexivity.
  Qed.

  (* C08: Err and some byte sent => write side shut down, and nothing is ever written again *)
  Lemma partial_then_shutdown c r e c' rs : c_ws c = WsResponse -> cwr c r = (Some e, c') ->
    c_wire c' <> c_wire c ->
    c_ws c' = WsShutdown /\ (exists acc suf, c_wire c' = c_wire c ++ acc /\ full_wire r (closes (r_code r)) = acc ++ suf) /\
    conn_write_many reason ct_text c' rs = c'.
  Proof.
    intros Hs HC Hne. destruct (cwr_spec c r _ _ Hs HC) as (acc & Hw & Hp & Hsh & _ & _).
    assert (acc <> []) by (intros ->; rewrite app_nil_r in Hw; congruence).
    destruct (Hsh H) as (Hst & _). split; [exact Hst|]. split.
    - destruct (r_normal r && negb (collides r)); [|congruence]. destruct Hp as (suf & Hp). eauto.
    - now apply write_many_shutdown.
  Qed.

  (* C08: Err and no byte sent => the response is still owed, and the one 500 answer that follows is
     emitted as a prefix of its serialisation -- whole when its write succeeds -- after which the
     write side is shut down *)
  Lemma zero_bytes_keeps_owed c r e c' : c_ws c = WsResponse -> cwr c r = (Some e, c') ->
    c_wire c' = c_wire c ->
    c_ws c' = WsResponse /\ c_shutdowns c' = c_shutdowns c /\
    forall r500 res2 c'', r_normal r500 = true -> collides r500 = false -> closes (r_code r500) = true ->
      cwr c' r500 = (res2, c'') ->
      exists acc, c_wire c'' = c_wire c ++ acc /\ (exists suf, full_wire r500 true = acc ++ suf) /\
                  (res2 = None -> acc = full_wire r500 true /\ c_ws c'' = WsShutdown) /\
                  (acc <> [] -> c_ws c'' = WsShutdown).
  Proof.
    intros Hs HC Hw. destruct (cwr_spec c r _ _ Hs HC) as (acc & Hw' & _ & _ & Hz & _).
    assert (acc = []). { rewrite Hw in Hw'. rewrite <- (app_nil_r (c_wire c)) in Hw' at 1. now apply app_inv_head in Hw'. }
    destruct (Hz H) as (Hst & Hsd). split; [exact Hst|]. split; [exact Hsd|].
    intros r500 res2 c'' Hn Hc Hcl HC2. destruct (cwr_spec c' r500 _ _ Hst HC2) as (acc2 & Hw2 & Hp2 & R2).
    rewrite Hn, Hc, Hcl in *. cbn [andb negb] in Hp2. exists acc2. rewrite Hw in Hw2. split; [exact Hw2|]. split; [exact Hp2|].
    destruct res2 as [e2|].
    - destruct R2 as (Hsh & _). split; [discriminate|]. intros Hne. now destruct (Hsh Hne).
    - destruct R2 as (-> & _ & Hf & _). unfold final_state in Hf. rewrite Hcl in Hf. split; [auto|]. auto.
  Qed.

  (* the error path of handle_http_conn after a partial failure emits nothing *)
  Lemma error_path_after_partial c r r500 : c_ws c = WsResponse ->
    let '(res, res2, c2) := conn_exchange reason ct_text c r r500 in
    let c1 := snd (cwr c r) in
    (c_wire c1 <> c_wire c -> res <> None -> c_wire c2 = c_wire c1) /\
    (res <> None -> c_ws c2 = WsShutdown \/ (c_wire c2 = c_wire c /\ res2 = None)).
  Proof.
    intros Hs. unfold conn_exchange. destruct (cwr c r) as [res c1] eqn:HC. cbn [snd].
    destruct res as [e|]; cbn [conn_after_result].
    2:{ split; congruence. }
    destruct (cwr_spec c r _ _ Hs HC) as (acc & Hw & _ & Hsh & Hz & _).
    destruct (is_disconnected e) eqn:Hd.
    - split; [reflexivity|]. intros _. destruct acc as [|x acc].
      + right. rewrite app_nil_r in Hw. auto.
      + left. now destruct (Hsh ltac:(discriminate)).
    - destruct (cwr c1 r500) as [res2 c2] eqn:HC2. split.
      + intros Hne _. assert (acc <> []) by (intros ->; rewrite app_nil_r in Hw; congruence).
        destruct (Hsh H) as (Hst & _). rewrite cwr_shutdown in HC2 by assumption. inversion HC2; subst. reflexivity.
      + intros _. left. reflexivity.
  Qed.

  Lemma oracle_c08_conn_model c r r500 :
    c_ws c = WsResponse -> c_wire c = [] -> r_normal r500 = true -> collides r500 = false ->
    let '(res, res2, c2) := conn_exchange reason ct_text c r r500 in
    oracle_c08_conn reason ct_text r r500 res (c_ws (snd (cwr c r))) res2 (c_wire c2) = true.
  Proof.
    intros Hs Hw0 Hn5 Hc5. unfold conn_exchange. destruct (cwr c r) as [res c1] eqn:HC. cbn [snd].
    destruct (cwr_spec c r _ _ Hs HC) as (acc & Hw & Hp & R). rewrite Hw0 in Hw. cbn [app] in Hw.
    unfold oracle_c08_conn. destruct res as [e|]; cbn [conn_after_result].
    2:{ destruct R as (-> & _ & Hst & Hdel). rewrite Hw, Hst, Hdel, beq_refl. unfold final_state.
        destruct (closes (r_code r)), (is_1xx (r_code r)); reflexivity. }
    destruct R as (Hsh & Hz & _).
    destruct acc as [|x acc].
    - destruct (Hz eq_refl) as (Hst & _). rewrite Hst.
      destruct (is_disconnected e).
      + now rewrite Hw.
      + destruct (cwr c1 r500) as [res2 c2] eqn:HC2.
        destruct (cwr_spec c1 r500 _ _ Hst HC2) as (acc2 & Hw2 & Hp2 & R2). rewrite Hw in Hw2. cbn [app] in Hw2.
        rewrite Hn5, Hc5 in Hp2. cbn [andb negb] in Hp2. destruct Hp2 as (suf & Hp2).
        cbn [shutdown_write c_wire]. rewrite Hw2. destruct res2 as [e2|].
        * rewrite Hp2. apply starts_with_app.
        * destruct R2 as (-> & _). apply beq_refl.
    - destruct (Hsh ltac:(discriminate)) as (Hst & _). rewrite Hst.
      assert (Hpre : exists suf, full_wire r (closes (r_code r)) = (x :: acc) ++ suf).
      { destruct (r_normal r && negb (collides r)); [exact Hp|discriminate]. }
      destruct Hpre as (suf & Hpre).
      destruct (is_disconnected e).
      + rewrite Hw, Hpre. cbn [is_empty negb andb]. apply starts_with_app.
      + destruct (cwr c1 r500) as [res2 c2] eqn:HC2. rewrite cwr_shutdown in HC2 by assumption.
        inversion HC2; subst. cbn [shutdown_write c_wire]. rewrite Hw, Hpre. cbn [is_empty negb andb]. apply starts_with_app.
  Qed.
End WithTables.

Lemma following_500_whole reason ct_text c r500 :
  c_ws c = WsResponse -> r_normal r500 = true -> collides r500 = false -> body_sound (r_body r500) = true ->
  writer_errfree (c_writer c) = true ->
  exists c', conn_write_response reason ct_text c r500 = (None, c') /\
             c_wire c' = c_wire c ++ full_wire reason ct_text r500 (closes (r_code r500)).
Proof.
  intros Hs Hn Hc Hb Hw. unfold conn_write_response. rewrite Hs.
  destruct (W_sound reason ct_text r500 (closes (r_code r500)) (c_writer c) Hn Hc Hb Hw) as (w' & -> & _).
  eexists. split; [reflexivity|].
  destruct (closes (r_code r500)), (is_1xx (r_code r500)); reflexivity.
Qed.

(* ---------------------------------------------------------------- connections that already carried traffic *)
Lemma skipn_app_len {A} (p x : list A) : skipn (length p) (p ++ x) = x.
Proof. rewrite skipn_app, skipn_all, Nat.sub_diag. reflexivity. Qed.

Section Prior.
  Variable reason : N -> bytes.
  Variable ct_text : nat -> bytes.
  Notation full_wire := (full_wire reason ct_text).
  Notation cwr := (conn_write_response reason ct_text).

  (* the connection-level oracle holds whatever the connection has carried before: the prior wire is arbitrary *)
  Lemma oracle_c08_conn_any_prior c r r500 :
    c_ws c = WsResponse -> r_normal r500 = true -> collides r500 = false ->
    let '(res, res2, c2) := conn_exchange reason ct_text c r r500 in
    exists x, c_wire c2 = c_wire c ++ x /\
              oracle_c08_conn reason ct_text r r500 res (c_ws (snd (cwr c r))) res2 x = true.
  Proof.
    intros Hs Hn5 Hc5. unfold conn_exchange. destruct (cwr c r) as [res c1] eqn:HC. cbn [snd].
    destruct (cwr_spec reason ct_text c r _ _ Hs HC) as (acc & Hw & Hp & R).
    unfold oracle_c08_conn. destruct res as [e|]; cbn [conn_after_result].
    2:{ exists acc. split; [exact Hw|]. destruct R as (-> & _ & Hst & Hdel). rewrite Hst, Hdel, beq_refl. unfold final_state.
        destruct (closes (r_code r)), (is_1xx (r_code r)); reflexivity. }
    destruct R as (Hsh & Hz & _).
    destruct acc as [|x acc].
    - destruct (Hz eq_refl) as (Hst & _). rewrite Hst. rewrite app_nil_r in Hw.
      destruct (is_disconnected e).
      + exists []. rewrite app_nil_r. auto.
      + destruct (cwr c1 r500) as [res2 c2] eqn:HC2.
        destruct (cwr_spec reason ct_text c1 r500 _ _ Hst HC2) as (acc2 & Hw2 & Hp2 & R2). rewrite Hw in Hw2.
        rewrite Hn5, Hc5 in Hp2. cbn [andb negb] in Hp2. destruct Hp2 as (suf & Hp2).
        cbn [shutdown_write c_wire]. exists acc2. split; [exact Hw2|]. destruct res2 as [e2|].
        * rewrite Hp2. apply starts_with_app.
        * destruct R2 as (-> & _). apply beq_refl.
    - destruct (Hsh ltac:(discriminate)) as (Hst & _). rewrite Hst.
      assert (Hpre : exists suf, full_wire r (closes (r_code r)) = (x :: acc) ++ suf).
      { destruct (r_normal r && negb (collides r)); [exact Hp|discriminate]. }
      destruct Hpre as (suf & Hpre).
      destruct (is_disconnected e).
      + exists (x :: acc). split; [exact Hw|]. rewrite Hpre. cbn [is_empty negb andb]. apply starts_with_app.
      + destruct (cwr c1 r500) as [res2 c2] eqn:HC2. rewrite cwr_shutdown in HC2 by assumption.
        inversion HC2; subst. cbn [shutdown_write c_wire]. exists (x :: acc). split; [exact Hw|].
        rewrite Hpre. cbn [is_empty negb andb]. apply starts_with_app.
  Qed.

  Lemma conn_prefix_spec : forall pre c,
    c_ws c <> WsShutdown -> writer_errfree (c_writer c) = true ->
    forallb prefix_resp_ok pre = true ->
    c_ws (conn_prefix reason ct_text c pre) = WsResponse /\
    c_wire (conn_prefix reason ct_text c pre) = c_wire c ++ prior_wire reason ct_text pre /\
    writer_errfree (c_writer (conn_prefix reason ct_text c pre)) = true.
  Proof.
    induction pre as [|p t IH]; intros c Hs Hw Hp.
    - cbn [conn_prefix prior_wire map concat]. rewrite app_nil_r. unfold conn_next_request.
      destruct (c_ws c) eqn:E; cbn; auto. congruence.
    - cbn [forallb] in Hp. apply andb_true_iff in Hp as [Hp Ht]. unfold prefix_resp_ok in Hp.
      apply andb_true_iff in Hp as [Hp Hcl]. apply andb_true_iff in Hp as [Hp Hb]. apply andb_true_iff in Hp as [Hn Hc].
      apply negb_true_iff in Hc, Hcl.
      cbn [conn_prefix]. set (c0 := conn_next_request c).
      assert (H0 : c_ws c0 = WsResponse /\ c_wire c0 = c_wire c /\ c_writer c0 = c_writer c).
      { unfold c0, conn_next_request. destruct (c_ws c) eqn:E; cbn; auto. congruence. }
      destruct H0 as (H0s & H0w & H0r).
      unfold conn_write_response at 1 2 3. rewrite H0s.
      destruct (W_sound reason ct_text p (closes (r_code p)) (c_writer c0) Hn Hc Hb ltac:(now rewrite H0r)) as (w' & -> & Hw').
      rewrite Hcl. cbn [snd].
      match goal with |- context [conn_prefix reason ct_text ?X t] => set (c1 := X) end.
      assert (H1 : c_ws c1 <> WsShutdown /\ c_wire c1 = c_wire c ++ full_wire p false /\ c_writer c1 = w').
      { unfold c1. destruct (is_1xx (r_code p)); cbn; rewrite ?H0s, ?H0w; repeat split; congruence. }
      destruct H1 as (H1s & H1w & H1r).
      destruct (IH c1 H1s ltac:(now rewrite H1r) Ht) as (A & B & C).
      split; [exact A|]. split; [|exact C].
      rewrite B, H1w. cbn [prior_wire map concat]. rewrite Hcl. now rewrite <- app_assoc.
  Qed.

  Lemma oracle_c08_session_model c pre r r500 :
    c_ws c <> WsShutdown -> c_wire c = [] -> writer_errfree (c_writer c) = true ->
    forallb prefix_resp_ok pre = true -> r_normal r500 = true -> collides r500 = false ->
    let '(res, st1, res2, c2) := conn_session reason ct_text c pre r r500 in
    oracle_c08_session reason ct_text pre r r500 res st1 res2 (c_wire c2) = true.
  Proof.
    intros Hs Hw0 Hw Hp Hn5 Hc5. unfold conn_session.
    destruct (conn_prefix_spec pre c Hs Hw Hp) as (A & B & _). rewrite Hw0 in B. cbn [app] in B.
    pose proof (oracle_c08_conn_any_prior (conn_prefix reason ct_text c pre) r r500 A Hn5 Hc5) as H.
    destruct (conn_exchange reason ct_text (conn_prefix reason ct_text c pre) r r500) as [[res res2] c2].
    destruct H as (x & Hx & Ho). unfold oracle_c08_session. rewrite Hx, B.
    rewrite starts_with_app, skipn_app_len. exact Ho.
  Qed.
End Prior.
