(* Proofs/HeadClassifyP.v -- C02, second half: inversion of acceptance ("never repaired"),
   classification of rejections, no partial acceptance, the oracles, the D2 witnesses. *)
From SV Require Import Base.Bytes Base.BytesP Base.IO Model.Headers Model.Head Spec.Rfc7230
  Proofs.HeadP Proofs.HeadReadP Proofs.HeadGrammarP.

(* ------------------------------------------------------------------ lines *)
Lemma join_split hb : join_lf (split_on 10 hb) = hb.
Proof.
  induction hb as [|b t IH]; [reflexivity|]. cbn [split_on]. destruct (b =? 10) eqn:E.
  - apply N.eqb_eq in E. subst b. destruct (split_on 10 t) as [|x r] eqn:S; [now apply split_on_nonempty in S|].
    cbn [join_lf app]. cbn [join_lf] in IH. now rewrite IH.
  - destruct (split_on 10 t) as [|x r] eqn:S; [now apply split_on_nonempty in S|].
    destruct r as [|y r]; cbn [join_lf app] in *; now rewrite IH.
Qed.
Lemma split_no_lf hb : forallb no_lf (split_on 10 hb) = true.
Proof.
  induction hb as [|b t IH]; [reflexivity|]. cbn [split_on]. destruct (b =? 10) eqn:E.
  - cbn [forallb]. now rewrite IH.
  - destruct (split_on 10 t) as [|x r]; [cbn; now rewrite E|]. cbn [forallb] in *. unfold no_lf at 1. cbn [forallb].
    rewrite E. exact IH.
Qed.
Lemma trim_cr_snoc_ne l x : x <> 13 -> trim_trailing_cr (l ++ [x]) = l ++ [x].
Proof.
  intros H. induction l as [|y l IH].
  - cbn. now replace (x =? 13) with false by (symmetry; now apply N.eqb_neq).
  - cbn [app]. destruct (l ++ [x]) as [|z t] eqn:E; [now destruct l|]. rewrite trim_cr_cons2. now rewrite IH.
Qed.
Lemma strip_cr_eq l : strip_cr l = trim_trailing_cr l.
Proof.
  unfold strip_cr. destruct l as [|a l0] using rev_ind; [reflexivity|].
  rewrite rev_app_distr. cbn [rev app]. destruct (a =? 13) eqn:E.
  - apply N.eqb_eq in E. subst. now rewrite rev_involutive, trim_cr_snoc.
  - apply N.eqb_neq in E. now rewrite trim_cr_snoc_ne.
Qed.
Lemma head_lines_spec hb : lines_spec hb (head_lines hb).
Proof.
  exists (split_on 10 hb). split; [apply split_on_nonempty|]. split; [symmetry; apply join_split|].
  split; [apply split_no_lf|]. unfold head_lines. apply map_ext. intros l. symmetry. apply strip_cr_eq.
Qed.
Lemma head_lines_nonempty hb : head_lines hb <> [].
Proof. unfold head_lines. destruct (split_on 10 hb) eqn:S; [now apply split_on_nonempty in S|discriminate]. Qed.

(* ------------------------------------------------------------------ field lines *)
Lemma field_line_matches_good l h : field_line_matches l h = true -> good_field_line l h.
Proof.
  unfold field_line_matches, good_field_line. destruct (cut_at 58 l) as [[name rest]|] eqn:C; [|discriminate].
  rewrite !andb_true_iff, !beq_eq. intros [[[<- T] V] F]. apply cut_at_spec in C as [-> _].
  destruct (trim_ws_split rest) as (a & b & E & A & B & _). rewrite V in E.
  exists a, b. rewrite <- E. auto.
Qed.
Lemma good_field_line_good l h : good_field_line l h -> field_line_good l = true.
Proof.
  intros (a & b & -> & T & V & A & B). unfold field_line_good.
  rewrite (cut_at_app 58 (fst h)) by (apply token_ne; auto). rewrite T, trim_ws_pad by assumption.
  unfold is_field_value in V. now apply andb_true_iff in V as [V _].
Qed.
Lemma field_line_matches_props l h :
  field_line_matches l h = true -> is_token (fst h) = true /\ is_field_value (snd h) = true.
Proof. intros H. apply field_line_matches_good in H as (a & b & _ & T & V & _). auto. Qed.

Lemma all2_forall2 {A B} (p : A -> B -> bool) (P : A -> B -> Prop) :
  (forall x y, p x y = true -> P x y) -> forall a b, all2 p a b = true -> Forall2 P a b.
Proof.
  intros H a. induction a as [|x a IH]; intros [|y b]; cbn [all2]; try discriminate; [constructor|].
  rewrite andb_true_iff. intros [H1 H2]. constructor; auto.
Qed.

Lemma strict_roundtrip hs : map field_pair (map strict_field hs) = hs.
Proof. induction hs as [|[a c] hs IH]; [reflexivity|]. cbn [map]. now rewrite IH. Qed.

Section Classify.
Variable url_parse : bytes -> option (bytes * option bytes).
Notation prl := (parse_request_line url_parse).
Notation ph := (parse_head_gen url_parse true true).

(* ---- what acceptance implies *)
Lemma prl_ok_inv line m t p q :
  prl line = Ok (m, t, p, q) ->
  match_request_line line = Some (m, t, http11) /\ starts_with [47] t = true /\ url_parse t = Some (p, q).
Proof.
  unfold parse_request_line. destruct (match_request_line line) as [[[m' t'] v]|]; [|discriminate].
  destruct (negb (forallb is_ascii m')); [discriminate|].
  destruct (starts_with [47] t') eqn:S; cbn [negb]; [|discriminate].
  destruct (url_parse t') as [[p' q']|] eqn:U; [|discriminate].
  destruct (beq v http11) eqn:B; [|discriminate]. apply beq_eq in B. subst v.
  intros [= <- <- <- <-]. auto.
Qed.

Lemma phl_ok_inv f1 line h : parse_header_line f1 true line = Ok h -> field_line_matches line h = true.
Proof.
  unfold parse_header_line. destruct (match_header_line line) as [[name g]|] eqn:M; [|discriminate].
  apply match_header_line_spec in M as (rest & C & T & -> & _).
  destruct (negb (forallb is_ascii name)); [discriminate|]. rewrite trim_ws_drop_ows. cbn [andb].
  destruct (forallb is_fv_byte (trim_ws rest)) eqn:F; cbn [negb]; [|discriminate].
  rewrite (fv_ascii _ F). intros [= <-]. unfold field_line_matches. cbn [fst snd].
  now rewrite C, !beq_refl, T, trim_ws_field_value.
Qed.

Lemma phls_ok_inv f1 lines hs :
  parse_header_lines f1 true lines = Ok hs -> all2 field_line_matches lines hs = true.
Proof.
  revert hs; induction lines as [|l t IH]; intros hs; cbn [parse_header_lines].
  - now intros [= <-].
  - destruct (parse_header_line f1 true l) as [h|e|] eqn:E; [|discriminate|discriminate].
    destruct (parse_header_lines f1 true t) as [hs'|e|]; [|discriminate|discriminate].
    intros [= <-]. cbn [all2]. now rewrite (phl_ok_inv _ _ _ E), IH.
Qed.

Lemma ph_ok_inv f1 hb h :
  parse_head_gen url_parse f1 true hb = Ok h ->
  exists l0 ls, head_lines hb = l0 :: ls /\
    match_request_line l0 = Some (h_method h, h_target h, http11) /\
    starts_with [47] (h_target h) = true /\ url_parse (h_target h) = Some (h_path h, h_query h) /\
    all2 field_line_matches ls (h_headers h) = true.
Proof.
  unfold parse_head_gen. fold (head_lines hb). destruct (head_lines hb) as [|l0 ls]; [discriminate|].
  destruct (prl l0) as [[[[m t] p] q]|e|] eqn:E; [|discriminate|discriminate].
  destruct (parse_header_lines f1 true ls) as [hs|e|] eqn:F; [|discriminate|discriminate].
  intros [= <-]. cbn [h_method h_target h_path h_query h_headers].
  apply prl_ok_inv in E as (M & S & U). apply phls_ok_inv in F. exists l0, ls. auto.
Qed.

(* ---- what each error implies *)
Lemma prl_err_inv line e :
  prl line = Err e ->
  (e = HE_MalformedRequestLine /\ match_request_line line = None) \/
  (exists m t v, match_request_line line = Some (m, t, v) /\
     ((e = HE_MalformedPath /\ (starts_with [47] t = false \/ url_parse t = None)) \/
      (e = HE_UnsupportedProtocol /\ beq v http11 = false))).
Proof.
  unfold parse_request_line. destruct (match_request_line line) as [[[m t] v]|]; [|intros [= <-]; auto].
  destruct (negb (forallb is_ascii m)); [discriminate|]. intros H. right. exists m, t, v. split; [reflexivity|].
  destruct (starts_with [47] t) eqn:S; cbn [negb] in H; [|injection H as <-; auto].
  destruct (url_parse t) as [[p q]|]; [|injection H as <-; auto].
  destruct (beq v http11) eqn:B; [discriminate|injection H as <-; auto].
Qed.

Lemma phl_err_inv line e : parse_header_line true true line = Err e -> field_line_good line = false.
Proof.
  unfold parse_header_line, match_header_line, field_line_good.
  destruct (cut_at 58 line) as [[name rest]|]; [|reflexivity]. destruct (is_token name) eqn:T; [|reflexivity].
  rewrite (token_ascii _ T), trim_ws_drop_ows. cbn [negb andb].
  destruct (forallb is_fv_byte (trim_ws rest)) eqn:F; [|reflexivity]. cbn [negb]. now rewrite (fv_ascii _ F).
Qed.

Lemma phls_err_inv lines e :
  parse_header_lines true true lines = Err e -> existsb (fun l => negb (field_line_good l)) lines = true.
Proof.
  induction lines as [|l t IH]; cbn [parse_header_lines existsb]; [discriminate|].
  destruct (parse_header_line true true l) as [h|e'|] eqn:E; [| |discriminate].
  - destruct (parse_header_lines true true t) as [hs|e'|]; [discriminate| |discriminate].
    intros H. rewrite IH by exact H. apply orb_true_r.
  - intros _. now rewrite (phl_err_inv _ _ E).
Qed.

(* ---- the boolean oracle is true of the model *)
Theorem oracle_c02_model b :
  oracle_c02 url_parse (fb_data b) (fst (try_read url_parse b)) (fb_data (snd (try_read url_parse b))) = true.
Proof.
  unfold try_read, oracle_c02. destruct (find_slice crlf2 (fb_data b)) as [n|] eqn:F.
  2:{ rewrite (try_read_none url_parse true true b F). cbn [fst snd]. unfold justified_b. rewrite F. apply beq_refl. }
  destruct (try_read_some url_parse true true b n F) as (b' & -> & D & _). cbn [fst snd]. rewrite D.
  destruct (ph (firstn n (fb_data b))) as [h|e|] eqn:P.
  - unfold accept_ok_b. rewrite F, beq_refl. cbn [andb].
    apply ph_ok_inv in P as (l0 & ls & -> & -> & -> & -> & A). rewrite !beq_refl, A. cbn [andb].
    replace (option_beq beq (h_query h) (h_query h)) with true by (symmetry; now apply option_beq_eq). reflexivity.
  - unfold justified_b. rewrite F, beq_refl. cbn [andb].
    unfold parse_head_gen in P. fold (head_lines (firstn n (fb_data b))) in P.
    destruct (head_lines (firstn n (fb_data b))) as [|l0 ls] eqn:L; [now apply head_lines_nonempty in L|].
    destruct (prl l0) as [[[[m t] p] q]|e'|] eqn:E; [| |discriminate].
    + destruct (parse_header_lines true true ls) as [hs|e'|] eqn:G; [discriminate| |discriminate].
      injection P as <-. pose proof (phls_errs _ _ _ _ G) as ->. now apply phls_err_inv in G.
    + injection P as <-. apply prl_err_inv in E as [[-> M]|(m & t & v & M & [[-> H]|[-> H]])]; rewrite M.
      * reflexivity.
      * destruct H as [H|H]; rewrite H; [reflexivity|apply orb_true_r].
      * now rewrite H.
  - now apply ph_no_panic in P.
Qed.

(* ---- C02: accepted heads are in the grammar, nothing is repaired beyond the pinned line-end
   leniencies, and re-parsing the strict rendering gives the same head *)
Theorem accept_implies_grammar b h :
  fst (try_read url_parse b) = Ok h ->
  is_token (h_method h) = true /\
  nonblank_run (h_target h) = true /\ starts_with [47] (h_target h) = true /\
  url_parse (h_target h) = Some (h_path h, h_query h) /\
  Forall (fun hd => is_token (fst hd) = true /\ is_field_value (snd hd) = true) (h_headers h) /\
  (exists n ls, find_slice crlf2 (fb_data b) = Some n /\ lines_spec (firstn n (fb_data b)) ls /\
                reqline_spec (hd [] ls) (h_method h) (h_target h) http11 /\
                Forall2 good_field_line (tl ls) (h_headers h)) /\
  (forall rd rest, exists b',
      try_read url_parse (mk_fbuf rd (render_head (h_method h) (h_target h) (map strict_field (h_headers h)) ++ crlf2 ++ rest))
      = (Ok h, b') /\ fb_data b' = rest).
Proof.
  unfold try_read. intros H. destruct (find_slice crlf2 (fb_data b)) as [n|] eqn:F.
  2:{ rewrite (try_read_none url_parse true true b F) in H. discriminate. }
  destruct (try_read_some url_parse true true b n F) as (b' & E & _). rewrite E in H. cbn [fst] in H.
  apply ph_ok_inv in H as (l0 & ls & L & M & S & U & A).
  pose proof M as M'. apply match_request_line_iff in M'. destruct M' as (_ & Tm & Tt & _).
  pose proof (all2_forall2 _ _ field_line_matches_good _ _ A) as G.
  assert (Fa : Forall (fun hd => is_token (fst hd) = true /\ is_field_value (snd hd) = true) (h_headers h)).
  { clear -A. revert A. generalize (h_headers h). induction ls as [|l ls IH]; intros [|x hs]; cbn [all2]; try discriminate; [constructor|].
    rewrite andb_true_iff. intros [H1 H2]. constructor; [now apply field_line_matches_props in H1|auto]. }
  repeat split; try assumption.
  - exists n, (l0 :: ls). split; [reflexivity|]. split; [rewrite <- L; apply head_lines_spec|].
    split; [now apply match_request_line_iff|exact G].
  - intros rd rest.
    assert (Fo : forallb field_ok (map strict_field (h_headers h)) = true).
    { clear -Fa. induction Fa as [|x hs [T V] _ IH]; [reflexivity|]. cbn [map forallb]. rewrite IH, andb_true_r.
      unfold field_ok, strict_field. cbn [f_name f_ows1 f_value f_ows2 is_ows_run forallb]. now rewrite T, V. }
    destruct (try_read_render url_parse true true rd _ _ _ _ _ rest Tm Tt S U Fo) as (b2 & E2 & D2).
    exists b2. split; [|exact D2]. rewrite E2, strict_roundtrip. destruct h; reflexivity.
Qed.

(* ---- C02: every rejection is justified by a violated rule *)
Theorem reject_classified b e :
  fst (try_read url_parse b) = Err e -> justified url_parse (fb_data b) e.
Proof.
  intros H. pose proof (oracle_c02_model b) as O. rewrite H in O. unfold oracle_c02, justified_b in O.
  destruct (find_slice crlf2 (fb_data b)) as [n|] eqn:F.
  2:{ destruct e; try discriminate. exact F. }
  apply andb_true_iff in O as [_ O]. pose proof (head_lines_spec (firstn n (fb_data b))) as LS.
  destruct (head_lines (firstn n (fb_data b))) as [|l0 ls] eqn:L; [discriminate|].
  destruct e; try discriminate; cbn [justified]; exists n, (l0 :: ls); (split; [exact F|]); (split; [exact LS|]); cbn [hd tl].
  - destruct (match_request_line l0) eqn:M; [discriminate|]. now apply match_request_line_none.
  - destruct (match_request_line l0) as [[[m t] v]|] eqn:M; [|discriminate]. exists m, t, v.
    split; [now apply match_request_line_iff|]. unfold bad_target.
    apply orb_true_iff in O as [O|O]; [left; now apply negb_true_iff in O|right; now destruct (url_parse t)].
  - destruct (match_request_line l0) as [[[m t] v]|] eqn:M; [|discriminate]. exists m, t, v.
    split; [now apply match_request_line_iff|]. apply negb_true_iff in O. intros ->. now rewrite beq_refl in O.
  - apply existsb_exists in O as (l & I & G). exists l. split; [exact I|]. intros (h & Hg).
    apply good_field_line_good in Hg. now rewrite Hg in G.
Qed.

(* every head is either accepted or rejected with an error: there is no third outcome *)
Theorem accept_or_reject b :
  (exists h, fst (try_read url_parse b) = Ok h) \/ (exists e, fst (try_read url_parse b) = Err e).
Proof.
  pose proof (try_read_total url_parse b) as T. destruct (fst (try_read url_parse b)) as [h|e|]; eauto. congruence.
Qed.

(* must-reject: bytes that are not a terminated head of the (lenient) grammar are answered with an error *)
Definition lenient_ok (data : bytes) : Prop :=
  exists m t hs n ls, find_slice crlf2 data = Some n /\ lines_spec (firstn n data) ls /\
                      reqline_spec (hd [] ls) m t http11 /\ Forall2 good_field_line (tl ls) hs.
Theorem must_reject b : ~ lenient_ok (fb_data b) -> exists e, fst (try_read url_parse b) = Err e.
Proof.
  intros N. destruct (accept_or_reject b) as [[h H]|H]; [|exact H]. exfalso. apply N.
  apply accept_implies_grammar in H as (_ & _ & _ & _ & _ & (n & ls & F & L & R & G) & _).
  exists (h_method h), (h_target h), (h_headers h), n, ls. auto.
Qed.

(* ---- C02: no partial acceptance -- whatever the verdict on a terminated head, the buffer then
   holds exactly the bytes after the head *)
Theorem no_partial_accept b n :
  find_slice crlf2 (fb_data b) = Some n ->
  fb_data (snd (try_read url_parse b)) = skipn (n + 4) (fb_data b) /\
  (forall e, fst (try_read url_parse b) = Err e -> e <> HE_Truncated).
Proof.
  intros F. unfold try_read. destruct (try_read_some url_parse true true b n F) as (b' & -> & D & _).
  cbn [fst snd]. split; [exact D|]. intros e H ->. now apply ph_not_truncated in H.
Qed.

(* ---- C02: must-accept -- render, then parse *)
Hypothesis url_canonical : forall t, canonical_target t = true -> url_parse t = Some (path_of t, query_of t).

Theorem parse_render_roundtrip rd m t fs rest :
  is_token m = true -> canonical_target t = true -> forallb field_ok fs = true ->
  exists b', try_read url_parse (mk_fbuf rd (render_head m t fs ++ crlf2 ++ rest))
             = (Ok (mk_head m t (path_of t) (query_of t) (map field_pair fs)), b') /\ fb_data b' = rest.
Proof.
  intros Hm Ht Hfs. destruct (canonical_nonblank t Ht) as [N S].
  exact (try_read_render url_parse true true rd m t _ _ fs rest Hm N S (url_canonical t Ht) Hfs).
Qed.

Theorem oracle_c02_roundtrip_model rd m t fs rest :
  let b := mk_fbuf rd (render_head m t fs ++ crlf2 ++ rest) in
  oracle_c02_roundtrip m t fs rest (fst (try_read url_parse b)) (fb_data (snd (try_read url_parse b))) = true.
Proof.
  intros b. unfold oracle_c02_roundtrip. destruct (must_accept m t fs) eqn:MA; [|reflexivity]. cbn [negb orb].
  unfold must_accept in MA. apply andb_true_iff in MA as [MA Hfs]. apply andb_true_iff in MA as [Hm Ht].
  destruct (parse_render_roundtrip rd m t fs rest Hm Ht Hfs) as (b' & E & D). subst b. rewrite E. cbn [fst snd].
  cbn [h_method h_path h_query h_headers]. rewrite D, !beq_refl. cbn [andb].
  replace (option_beq beq (query_of t) (query_of t)) with true by (symmetry; now apply option_beq_eq).
  cbn [andb]. rewrite andb_true_r. now apply hlist_beq_eq.
Qed.
End Classify.

(* ------------------------------------------------------------------ D2: the code before the repair *)
Lemma try_read_gen_ext u1 u2 f1 f2 b :
  (forall t, u1 t = u2 t) -> try_read_gen u1 f1 f2 b = try_read_gen u2 f1 f2 b.
Proof.
  intros H. unfold try_read_gen. destruct (find_slice crlf2 (fb_data b)); [|reflexivity].
  destruct (fb_try_read_exact b _) as [[hb b']|]; [|reflexivity]. now rewrite (parse_head_gen_ext u1 u2).
Qed.

(* "G / HTTP/1.1\r\nA: b\rc\r\n\r\n" and "... A: b\0c ..." *)
Definition d2_witness_cr : bytes := [71;32;47;32;72;84;84;80;47;49;46;49;13;10;65;58;32;98;13;99;13;10;13;10].
Definition d2_witness_nul : bytes := [71;32;47;32;72;84;84;80;47;49;46;49;13;10;65;58;32;98;0;99;13;10;13;10].

Lemma d2_prefix_accepts url_parse w x :
  (w = d2_witness_cr /\ x = 13) \/ (w = d2_witness_nul /\ x = 0) ->
  forall p q, url_parse [47] = Some (p, q) ->
  fst (try_read_gen url_parse true false (mk_fbuf 0 w)) = Ok (mk_head [71] [47] p q [([65], [98; x; 99])]) /\
  is_field_value [98; x; 99] = false /\
  fst (try_read url_parse (mk_fbuf 0 w)) = Err HE_MalformedHeader.
Proof.
  intros Hw p q E. unfold try_read.
  rewrite !(try_read_gen_ext url_parse _ _ _ _ (url_at_slash_eq url_parse (p, q) E)).
  destruct Hw as [[-> ->]|[-> ->]]; vm_compute; auto.
Qed.
