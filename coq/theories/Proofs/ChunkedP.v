(* Proofs/ChunkedP.v -- the chunked encoder model (Model/Chunked.v) against the independent
   decoder (Spec/ChunkDecode.v). *)
From SV Require Import Base.Bytes Base.BytesP Model.IOSched Spec.ChunkDecode Model.Chunked Proofs.IOSchedP.

(* ------------------------------------------------------------------ decoder facts *)
Lemma read_hex_digits s : forall acc seen rest,
  forallb is_hex s = true -> (seen = true \/ s <> []) ->
  (match rest with c :: _ => is_hex c = false | [] => True end) ->
  read_hex acc seen (s ++ rest) = Some (hexval acc s, rest).
Proof.
  induction s as [|c s IH]; intros acc seen rest Hs Hne Hr.
  - cbn [app hexval]. destruct Hne as [->|Hne]; [|congruence].
    destruct rest as [|c t]; cbn [read_hex]; [reflexivity|].
    unfold is_hex in Hr. destruct (unhexd c); [discriminate|reflexivity].
  - cbn [forallb] in Hs. apply andb_true_iff in Hs as [Hc Hs].
    cbn [app read_hex hexval]. unfold is_hex in Hc. destruct (unhexd c) as [d|]; [|discriminate].
    apply IH; auto.
Qed.

Lemma read_hex_len : forall l acc seen n l1,
  read_hex acc seen l = Some (n, l1) ->
  (length l1 <= length l)%nat /\ (seen = false -> (length l1 < length l)%nat).
Proof.
  induction l as [|c t IH]; intros acc seen n l1 H; cbn [read_hex] in H.
  - destruct seen; inversion H; subst. split; [lia|discriminate].
  - destruct (unhexd c).
    + apply IH in H as [H _]. cbn [length]. split; lia.
    + destruct seen; inversion H; subst. split; [lia|discriminate].
Qed.

Lemma take_n_app p : forall rest, take_n (N.of_nat (length p)) (p ++ rest) = Some (p, rest).
Proof.
  induction p as [|x p IH]; intros rest.
  - cbn [length app]. destruct rest; reflexivity.
  - cbn [length app take_n]. replace (N.of_nat (S (length p)) =? 0) with false by (symmetry; apply N.eqb_neq; lia).
    replace (N.of_nat (S (length p)) - 1) with (N.of_nat (length p)) by lia.
    now rewrite IH.
Qed.

Lemma take_n_short : forall l n, N.of_nat (length l) < n -> take_n n l = None.
Proof.
  induction l as [|x l IH]; intros n H.
  - cbn [take_n]. replace (n =? 0) with false by (symmetry; apply N.eqb_neq; cbn in H; lia). reflexivity.
  - cbn [take_n]. replace (n =? 0) with false by (symmetry; apply N.eqb_neq; lia).
    rewrite IH; [reflexivity|]. cbn [length] in H. lia.
Qed.

Lemma take_n_len : forall l n a b, take_n n l = Some (a, b) -> (length b <= length l)%nat.
Proof.
  induction l as [|x l IH]; intros n a b H; cbn [take_n] in H.
  - destruct (n =? 0); inversion H; subst; cbn; lia.
  - destruct (n =? 0); [inversion H; subst; cbn; lia|].
    destruct (take_n (n - 1) l) as [[a' b']|] eqn:E; inversion H; subst.
    apply IH in E. cbn [length]. lia.
Qed.

Lemma expect_crlf_len l t : expect_crlf l = Some t -> (length t < length l)%nat.
Proof.
  destruct l as [|a [|b l]]; cbn [expect_crlf]; try discriminate.
  destruct ((a =? 13) && (b =? 10)); [|discriminate]. intros H; inversion H; subst. cbn. lia.
Qed.

(* the decoder's answer does not depend on the fuel once it exceeds the input length *)
Lemma decode_fuel_indep : forall f1 f2 l,
  (length l < f1)%nat -> (length l < f2)%nat -> decode_fuel f1 l = decode_fuel f2 l.
Proof.
  induction f1 as [|f1 IH]; intros f2 l H1 H2; [lia|]. destruct f2 as [|f2]; [lia|].
  cbn [decode_fuel]. destruct l as [|x l]; [reflexivity|].
  destruct (read_hex 0 false (x :: l)) as [[n l1]|] eqn:E; [|reflexivity].
  apply read_hex_len in E as [_ E]. specialize (E eq_refl).
  destruct (expect_crlf l1) as [l2|] eqn:E2; [|reflexivity]. apply expect_crlf_len in E2.
  destruct (n =? 0); [reflexivity|].
  destruct (take_n n l2) as [[data l3]|] eqn:E3; [|reflexivity]. apply take_n_len in E3.
  destruct (expect_crlf l3) as [l4|] eqn:E4; [|reflexivity]. apply expect_crlf_len in E4.
  rewrite (IH f2 l4) by lia. reflexivity.
Qed.

(* ------------------------------------------------------------------ the size line *)
Fixpoint upto (k : nat) (n : N) : list N := match k with O => [] | S k' => n :: upto k' (N.succ n) end.
Lemma upto_In k : forall n m, n <= m -> m < n + N.of_nat k -> In m (upto k n).
Proof.
  induction k as [|k IH]; intros n m H1 H2; [lia|]. cbn [upto].
  destruct (N.eq_dec n m) as [->|Hne]; [left; reflexivity|right]. apply IH; lia.
Qed.
(* exhaustive: every length a 4-digit size line can express *)
Lemma size_sweep : forallb size_ok (upto (N.to_nat 65535) 1) = true.
Proof. vm_compute. reflexivity. Qed.
Lemma size_ok_all n : 1 <= n < 65536 -> size_ok n = true.
Proof.
  intros H. pose proof size_sweep as S. rewrite forallb_forall in S. apply S. apply upto_In; lia.
Qed.

Lemma size_line_correct n : 1 <= n < 65536 ->
  forallb is_hex (size_line n) = true /\ hexval 0 (size_line n) = n /\
  exists c t, size_line n = c :: t /\ c <> 48.
Proof.
  intros H. pose proof (size_ok_all n H) as S. unfold size_ok in S.
  apply andb_true_iff in S as [S S3]. apply andb_true_iff in S as [S1 S2].
  split; [exact S1|]. split; [now apply N.eqb_eq|].
  destruct (size_line n) as [|c t]; [discriminate|]. exists c, t. split; [reflexivity|].
  apply negb_true_iff in S3. now apply N.eqb_neq.
Qed.

Lemma trim_prefix0_app a b : trim_prefix0 a <> [] -> trim_prefix0 (a ++ b) = trim_prefix0 a ++ b.
Proof.
  induction a as [|x a IH]; cbn [trim_prefix0 app]; [congruence|].
  destruct (x =? 48); [exact IH|reflexivity].
Qed.

Definition cap_ok (cap : nat) : Prop := (1 <= cap)%nat /\ N.of_nat cap < 65536.
Definition piece_ok (cap : nat) (p : bytes) : Prop := (1 <= length p <= cap)%nat.

Lemma piece_max_ok : cap_ok piece_max.
Proof.
  unfold cap_ok, piece_max. rewrite N2Nat.id.
  assert (H : (1 <=? piece_max_N) && (piece_max_N <? 65536) = true) by (vm_compute; reflexivity).
  apply andb_true_iff in H as [H1 H2]. apply N.leb_le in H1. apply N.ltb_lt in H2. split; lia.
Qed.

Lemma chunk_shape cap p : cap_ok cap -> piece_ok cap p ->
  chunk_of p = size_line (N.of_nat (length p)) ++ 13 :: 10 :: p ++ [13; 10] /\
  forallb is_hex (size_line (N.of_nat (length p))) = true /\ size_line (N.of_nat (length p)) <> [] /\
  hexval 0 (size_line (N.of_nat (length p))) = N.of_nat (length p).
Proof.
  intros [C1 C2] [P1 P2].
  assert (1 <= N.of_nat (length p) < 65536) as Hn by lia.
  destruct (size_line_correct _ Hn) as (S1 & S2 & c & t & S3 & S4).
  unfold chunk_of. rewrite trim_prefix0_app by (unfold size_line in S3; rewrite S3; discriminate).
  fold (size_line (N.of_nat (length p))). rewrite S3 in *.
  repeat split; auto. discriminate.
Qed.

Lemma chunk_nonempty cap p : cap_ok cap -> piece_ok cap p -> chunk_of p <> [].
Proof.
  intros C P. destruct (chunk_shape cap p C P) as (E & _ & Hne & _). rewrite E.
  destruct (size_line _); [congruence|discriminate].
Qed.

Definition decode_body (f : nat) (l : bytes) : dres :=
  match read_hex 0 false l with
  | None => DMalformed
  | Some (n, l1) =>
    match expect_crlf l1 with
    | None => if crlf_prefix l1 then DIncomplete else DMalformed
    | Some l2 =>
      if n =? 0 then
        match expect_crlf l2 with
        | Some rest => DComplete [] rest
        | None => if crlf_prefix l2 then DIncomplete else DMalformed
        end
      else
        match take_n n l2 with
        | None => DIncomplete
        | Some (data, l3) =>
          match expect_crlf l3 with
          | None => if crlf_prefix l3 then DIncomplete else DMalformed
          | Some l4 =>
            match decode_fuel f l4 with
            | DComplete cs rest => DComplete (data :: cs) rest
            | other => other
            end
          end
        end
    end
  end.
Lemma decode_fuel_unfold f l : l <> [] -> decode_fuel (S f) l = decode_body f l.
Proof. destruct l; [congruence|reflexivity]. Qed.

Lemma expect_crlf_crlf t : expect_crlf (13 :: 10 :: t) = Some t.
Proof. reflexivity. Qed.
Lemma expect_crlf_nil : expect_crlf [] = None. Proof. reflexivity. Qed.
Lemma expect_crlf_13 : expect_crlf [13] = None. Proof. reflexivity. Qed.
Lemma crlf_prefix_nil : crlf_prefix [] = true. Proof. reflexivity. Qed.
Lemma crlf_prefix_13 : crlf_prefix [13] = true. Proof. reflexivity. Qed.

(* one chunk is decoded to its piece *)
Lemma decode_step cap f p rest : cap_ok cap -> piece_ok cap p ->
  decode_fuel (S f) (chunk_of p ++ rest) =
  match decode_fuel f rest with DComplete cs r => DComplete (p :: cs) r | o => o end.
Proof.
  intros C P. destruct (chunk_shape cap p C P) as (E & Hh & Hne & Hv). rewrite E.
  set (s := size_line (N.of_nat (length p))) in *.
  destruct P as [P1 P2].
  rewrite decode_fuel_unfold by (destruct s; [congruence|discriminate]).
  unfold decode_body. rewrite <- app_assoc.
  rewrite read_hex_digits; auto; [|cbn; reflexivity]. rewrite Hv.
  cbn [app]. rewrite expect_crlf_crlf.
  replace (N.of_nat (length p) =? 0) with false by (symmetry; apply N.eqb_neq; lia).
  rewrite <- app_assoc. rewrite take_n_app. cbn [app]. rewrite expect_crlf_crlf. reflexivity.
Qed.

Lemma decode_encode_fuel cap ps : cap_ok cap -> Forall (piece_ok cap) ps ->
  forall fuel rest, (length ps < fuel)%nat -> decode_fuel fuel (encode ps ++ rest) = DComplete ps rest.
Proof.
  intros C. unfold encode. induction 1 as [|p ps Hp Hps IH]; intros fuel rest Hf.
  - destruct fuel; [cbn in Hf; lia|]. cbn. reflexivity.
  - destruct fuel; [lia|]. cbn [map concat]. rewrite <- !app_assoc.
    rewrite (decode_step cap) by assumption.
    rewrite app_assoc. rewrite IH by (cbn in Hf; lia). reflexivity.
Qed.

Lemma encode_length_ge cap ps : cap_ok cap -> Forall (piece_ok cap) ps -> (length ps <= length (concat (map chunk_of ps)))%nat.
Proof.
  intros C. induction 1 as [|p ps Hp Hps IH]; [cbn; lia|]. cbn [map concat length]. rewrite app_length.
  pose proof (chunk_nonempty cap p C Hp). destruct (chunk_of p); [congruence|]. cbn [length]. lia.
Qed.

Lemma decode_chunks_encode cap ps rest : cap_ok cap -> Forall (piece_ok cap) ps ->
  decode_chunks (encode ps ++ rest) = DComplete ps rest.
Proof.
  intros C H. unfold decode_chunks. apply (decode_encode_fuel cap); auto.
  unfold encode. rewrite !app_length. pose proof (encode_length_ge cap ps C H). lia.
Qed.

Lemma decode_chunked_encode cap ps : cap_ok cap -> Forall (piece_ok cap) ps ->
  decode_chunked (encode ps) = DComplete ps [].
Proof.
  intros C H. unfold decode_chunked. rewrite <- (app_nil_r (encode ps)).
  now rewrite (decode_chunks_encode cap).
Qed.

(* ------------------------------------------------------------------ proper prefixes are Incomplete *)
Lemma prefix_of_hex s pre l : forallb is_hex s = true -> s = pre ++ l -> forallb is_hex pre = true.
Proof. intros H E. subst s. rewrite forallb_app in H. now apply andb_true_iff in H as [H _]. Qed.

Lemma chunk_prefix_incomplete cap p pre mid f : cap_ok cap -> piece_ok cap p ->
  chunk_of p = pre ++ mid -> mid <> [] -> decode_fuel f pre = DIncomplete.
Proof.
  intros C P E Hmid. destruct (chunk_shape cap p C P) as (E' & Hh & Hne & Hv).
  set (s := size_line (N.of_nat (length p))) in *. rewrite E' in E. clear E'.
  destruct P as [P1 P2].
  destruct f as [|f]; [reflexivity|].
  destruct pre as [|x0 pre0]; [reflexivity|].
  remember (x0 :: pre0) as pre eqn:Epre.
  assert (Hpre : pre <> []) by (subst; discriminate). clear Epre x0 pre0.
  rewrite decode_fuel_unfold by assumption. unfold decode_body.
  assert (Hn0 : (N.of_nat (length p) =? 0) = false) by (apply N.eqb_neq; lia).
  apply app_eq_app in E as [l [[E1 E2]|[E1 E2]]].
  - (* pre is a prefix of the size line *)
    pose proof (prefix_of_hex _ _ _ Hh E1) as Hp.
    rewrite <- (app_nil_r pre). rewrite read_hex_digits; auto.
  - destruct l as [|a l].
    { rewrite app_nil_r in E1. subst pre. rewrite <- (app_nil_r s). rewrite read_hex_digits; auto. }
    cbn [app] in E2. injection E2 as Ea E2. subst a.
    destruct l as [|b l].
    { subst pre. rewrite read_hex_digits; auto. }
    cbn [app] in E2. injection E2 as Eb E2. subst b.
    subst pre. rewrite read_hex_digits; auto.
    rewrite Hv. rewrite expect_crlf_crlf. rewrite Hn0.
    apply app_eq_app in E2 as [l3 [[E3 E4]|[E3 E4]]].
    + destruct l3 as [|y l3].
      * rewrite app_nil_r in E3. subst l. rewrite <- (app_nil_r p) at 2. rewrite take_n_app. reflexivity.
      * rewrite take_n_short; [reflexivity|]. subst p. rewrite app_length. cbn [length]. lia.
    + subst l. rewrite take_n_app.
      destruct l3 as [|y [|z l3]].
      * reflexivity.
      * cbn [app] in E4. injection E4 as Ey E4. subst y. reflexivity.
      * cbn [app] in E4. injection E4 as Ey Ez E4. destruct l3; [|discriminate]. cbn in E4. congruence.
Qed.

Lemma terminator_prefix_incomplete pre suf f :
  terminator = pre ++ suf -> suf <> [] -> decode_fuel f pre = DIncomplete.
Proof.
  intros E H. destruct f; [reflexivity|]. unfold terminator in E.
  destruct pre as [|a [|b [|c [|d [|e pre]]]]]; cbn [app] in E.
  - reflexivity.
  - injection E as <- _. reflexivity.
  - injection E as <- <- _. reflexivity.
  - injection E as <- <- <- _. reflexivity.
  - injection E as <- <- <- <- _. reflexivity.
  - injection E as _ _ _ _ _ E. destruct pre; [|discriminate]. cbn in E. congruence.
Qed.

(* No proper prefix of an encoder output is a complete chunked message: every one is Incomplete. *)
Lemma encode_prefix_incomplete cap ps : cap_ok cap -> Forall (piece_ok cap) ps ->
  forall pre suf f, encode ps = pre ++ suf -> suf <> [] -> decode_fuel f pre = DIncomplete.
Proof.
  intros C. induction 1 as [|p ps Hp Hps IH]; intros pre suf f E Hs.
  - apply (terminator_prefix_incomplete pre suf); auto.
  - unfold encode in E. cbn [map concat] in E. rewrite <- app_assoc in E.
    fold (encode ps) in E.
    apply app_eq_app in E as [l [[E1 E2]|[E1 E2]]].
    + destruct l as [|y l].
      * rewrite app_nil_r in E1. subst pre. cbn [app] in E2. subst suf.
        destruct f; [reflexivity|]. rewrite <- (app_nil_r (chunk_of p)).
        rewrite (decode_step cap) by assumption.
        rewrite (IH [] (encode ps) f eq_refl Hs). reflexivity.
      * apply (chunk_prefix_incomplete cap p pre (y :: l)); auto. discriminate.
    + subst pre. destruct f; [reflexivity|]. rewrite (decode_step cap) by assumption.
      rewrite (IH l suf f E2 Hs). reflexivity.
Qed.

Lemma decode_chunked_incomplete l : decode_fuel (S (length l)) l = DIncomplete -> decode_chunked l = DIncomplete.
Proof. unfold decode_chunked, decode_chunks. now intros ->. Qed.

(* ------------------------------------------------------------------ the encoder loop *)
Definition full_output (ps : list bytes) (errored : bool) : bytes :=
  concat (map chunk_of ps) ++ (if errored then [] else terminator).

Lemma loop_spec cap : cap_ok cap -> forall fuel r w num res out r' w' ps errored,
  (length (r_data r) + length (r_sched r) < fuel)%nat ->
  copy_chunked_loop cap fuel r w num = (res, out, r', w') ->
  delivered_fuel cap fuel r = (ps, errored) ->
  Forall (piece_ok cap) ps /\ (exists suf, full_output ps errored = out ++ suf) /\
  match res with
  | COk n => errored = false /\ out = encode ps /\ n = num + N.of_nat (length (concat ps)) + 3
  | CReaderErr => errored = true /\ out = concat (map chunk_of ps)
  | CWriterErr => exists k suf, suf <> [] /\ encode (firstn k ps) = out ++ suf
  | COutOfFuel => False
  end.
Proof.
  intros C. induction fuel as [|f IH]; intros r w num res out r' w' ps errored Hf HL HD; [lia|].
  cbn [copy_chunked_loop delivered_fuel] in HL, HD.
  destruct (rd_read cap r) as [p r1|r1] eqn:Er.
  2:{ inversion HL; inversion HD; subst. split; [constructor|]. split; [exists []; reflexivity|]. auto. }
  destruct p as [|x p].
  - inversion HD; subst. clear HD.
    destruct (write_all terminator w) as [[a w1] ok] eqn:Ew. inversion HL; subst. clear HL.
    apply write_all_prefix in Ew as (rest & E1 & E2 & _).
    split; [constructor|]. split; [exists rest; exact E1|].
    destruct ok.
    + assert (rest = []) by (now apply E2). subst rest. rewrite app_nil_r in E1.
      repeat split; [now rewrite <- E1|cbn; lia].
    + exists O, rest. split; [|exact E1]. intros ->. destruct E2 as [_ E2]. discriminate (E2 eq_refl).
  - pose proof (rd_read_bytes cap r _ _ Er) as (Ed & Hlen & _ & Hdec).
    assert (Hp : piece_ok cap (x :: p)) by (split; [cbn; lia|exact Hlen]).
    specialize (Hdec ltac:(discriminate)).
    assert (Hf1 : (length (r_data r1) + length (r_sched r1) < f)%nat) by lia.
    destruct (delivered_fuel cap f r1) as [ps1 e1] eqn:ED. inversion HD; subst ps errored. clear HD.
    destruct (write_all (chunk_of (x :: p)) w) as [[a w1] ok] eqn:Ew.
    apply write_all_prefix in Ew as (rest & E1 & E2 & _).
    destruct ok.
    + assert (rest = []) by (now apply E2). subst rest. rewrite app_nil_r in E1. subst a.
      destruct (copy_chunked_loop cap f r1 w1 (num + N.of_nat (length (x :: p)))) as [[[res1 out1] r2] w2] eqn:EL.
      inversion HL; subst. clear HL.
      destruct (IH _ _ _ _ _ _ _ _ _ Hf1 EL ED) as (F & (suf & Hfull) & Hres).
      split; [constructor; assumption|]. split.
      { exists suf. unfold full_output in *. cbn [map concat]. rewrite <- !app_assoc. f_equal.
        exact Hfull. }
      destruct res.
      * destruct Hres as (-> & -> & ->). repeat split.
        -- unfold encode. cbn [map concat]. now rewrite app_assoc.
        -- cbn [concat]. rewrite app_length. lia.
      * destruct Hres as (-> & ->). split; reflexivity.
      * destruct Hres as (k & suf' & Hs & Hk). exists (S k), suf'. split; [exact Hs|].
        cbn [firstn]. unfold encode in *. cbn [map concat]. rewrite <- !app_assoc. f_equal.
        exact Hk.
      * exact Hres.
    + assert (F1 : Forall (piece_ok cap) ps1).
      { destruct (copy_chunked_loop cap f r1 writer_all (num + N.of_nat (length (x :: p)))) as [[[res1 out1] r2] w2] eqn:EL.
        now destruct (IH _ _ _ _ _ _ _ _ _ Hf1 EL ED) as (F & _). }
      inversion HL; subst. clear HL.
      assert (rest <> []) by (intros ->; destruct E2 as [_ E2]; discriminate (E2 eq_refl)).
      split; [constructor; assumption|].
      split.
      { exists (rest ++ concat (map chunk_of ps1) ++ (if e1 then [] else terminator)).
        unfold full_output. cbn [map concat]. rewrite E1. now rewrite <- !app_assoc. }
      exists 1%nat, (rest ++ terminator). split; [destruct rest; [congruence|discriminate]|].
      cbn [firstn]. unfold encode. cbn [map concat]. rewrite app_nil_r, E1. now rewrite <- app_assoc.
Qed.

Lemma copy_chunked_spec cap r w res out r' w' ps errored : cap_ok cap ->
  copy_chunked cap r w = (res, out, r', w') -> delivered cap r = (ps, errored) ->
  Forall (piece_ok cap) ps /\ (exists suf, full_output ps errored = out ++ suf) /\
  match res with
  | COk n => errored = false /\ out = encode ps /\ n = N.of_nat (length (concat ps)) + 3
  | CReaderErr => errored = true /\ out = concat (map chunk_of ps)
  | CWriterErr => exists k suf, suf <> [] /\ encode (firstn k ps) = out ++ suf
  | COutOfFuel => False
  end.
Proof.
  intros C HL HD. unfold copy_chunked, delivered, rd_fuel in *.
  assert (Hf : (length (r_data r) + length (r_sched r) < S (length (r_data r) + length (r_sched r)))%nat) by lia.
  pose proof (loop_spec cap C _ r w 0 res out r' w' ps errored Hf HL HD) as (F & S & R).
  split; [exact F|]. split; [exact S|]. destruct res; auto.
Qed.

Lemma Forall_firstn {A} (P : A -> Prop) k l : Forall P l -> Forall P (firstn k l).
Proof. revert l; induction k; intros l H; cbn; [constructor|]. destruct H; constructor; auto. Qed.

(* what the decoder says about the encoder's output, by result *)
Lemma copy_chunked_decode cap r w res out r' w' ps errored : cap_ok cap ->
  copy_chunked cap r w = (res, out, r', w') -> delivered cap r = (ps, errored) ->
  match res with
  | COk n => errored = false /\ decode_chunked out = DComplete ps [] /\ n = N.of_nat (length (concat ps)) + 3
  | CReaderErr => errored = true /\ decode_chunked out = DIncomplete
  | CWriterErr => decode_chunked out = DIncomplete
  | COutOfFuel => False
  end.
Proof.
  intros C HL HD. destruct (copy_chunked_spec cap _ _ _ _ _ _ _ _ C HL HD) as (F & _ & R).
  destruct res.
  - destruct R as (-> & -> & ->). repeat split. now apply (decode_chunked_encode cap).
  - destruct R as (-> & ->). split; [reflexivity|]. apply decode_chunked_incomplete.
    apply (encode_prefix_incomplete cap ps C F _ terminator); [reflexivity|discriminate].
  - destruct R as (k & suf & Hs & E). apply decode_chunked_incomplete.
    apply (encode_prefix_incomplete cap (firstn k ps) C (Forall_firstn _ _ _ F) _ suf); auto.
  - exact R.
Qed.

Lemma forallb_nonempty cap ps : Forall (piece_ok cap) ps -> forallb nonempty ps = true.
Proof.
  induction 1 as [|p ps [Hp _] _ IH]; [reflexivity|]. cbn [forallb]. rewrite IH.
  destruct p; [cbn in Hp; lia|reflexivity].
Qed.

Lemma oracle_c07_model cap r w : cap_ok cap ->
  let '(res, out, _, _) := copy_chunked cap r w in oracle_c07 cap r res out = true.
Proof.
  intros C. destruct (copy_chunked cap r w) as [[[res out] r'] w'] eqn:HL.
  unfold oracle_c07. destruct (delivered cap r) as [ps errored] eqn:HD.
  pose proof (copy_chunked_decode cap _ _ _ _ _ _ _ _ C HL HD) as R.
  destruct (copy_chunked_spec cap _ _ _ _ _ _ _ _ C HL HD) as (F & _ & _).
  destruct res.
  - destruct R as (-> & -> & ->). cbn [negb andb]. rewrite beq_refl, N.eqb_refl, (forallb_nonempty cap); auto.
  - destruct R as (-> & ->). reflexivity.
  - rewrite R. reflexivity.
  - destruct R.
Qed.

(* short writes are invisible: any never-failing writer gives the output of the accept-everything writer *)
Lemma loop_errfree cap : forall fuel r w1 w2 num,
  writer_errfree w1 = true -> writer_errfree w2 = true ->
  exists res out r' w1' w2',
    copy_chunked_loop cap fuel r w1 num = (res, out, r', w1') /\
    copy_chunked_loop cap fuel r w2 num = (res, out, r', w2') /\
    res <> CWriterErr /\ writer_errfree w1' = true /\ writer_errfree w2' = true.
Proof.
  induction fuel as [|f IH]; intros r w1 w2 num H1 H2.
  - cbn. do 5 eexists. repeat split; auto. discriminate.
  - cbn [copy_chunked_loop]. destruct (rd_read cap r) as [p r1|r1].
    2:{ do 5 eexists. repeat split; auto. discriminate. }
    destruct p as [|x p].
    + destruct (write_all_errfree terminator w1 H1) as (w1' & -> & H1').
      destruct (write_all_errfree terminator w2 H2) as (w2' & -> & H2').
      do 5 eexists. repeat split; auto. discriminate.
    + destruct (write_all_errfree (chunk_of (x :: p)) w1 H1) as (w1' & -> & H1').
      destruct (write_all_errfree (chunk_of (x :: p)) w2 H2) as (w2' & -> & H2').
      destruct (IH r1 w1' w2' (num + N.of_nat (length (x :: p))) H1' H2')
        as (res & out & r' & wa & wb & -> & -> & Hne & Ha & Hb).
      do 5 eexists. repeat split; eauto.
Qed.

Lemma short_writes_invisible cap r w : writer_errfree w = true ->
  fst (fst (copy_chunked cap r w)) = fst (fst (copy_chunked cap r writer_all)) /\
  fst (fst (fst (copy_chunked cap r w))) <> CWriterErr.
Proof.
  intros Hw. unfold copy_chunked.
  destruct (loop_errfree cap (rd_fuel r) r w writer_all 0 Hw eq_refl)
    as (res & out & r' & wa & wb & -> & -> & Hne & _). cbn [fst snd]. split; [reflexivity|exact Hne].
Qed.

(* an error-free source of [data], however it cuts the data into reads, delivers exactly [data] *)
Lemma delivered_errfree cap : (1 <= cap)%nat -> forall fuel r,
  reader_errfree r = true -> (length (r_data r) + length (r_sched r) < fuel)%nat ->
  exists ps, delivered_fuel cap fuel r = (ps, false) /\ concat ps = r_data r.
Proof.
  intros C. induction fuel as [|f IH]; intros r Hr Hf; [lia|].
  cbn [delivered_fuel]. destruct (rd_read_errfree cap r Hr C) as (p & r1 & E & Hr1 & Hp). rewrite E.
  destruct p as [|x p].
  - exists []. split; [reflexivity|]. now rewrite Hp.
  - pose proof (rd_read_bytes cap r _ _ E) as (Ed & _ & _ & Hdec). specialize (Hdec ltac:(discriminate)).
    destruct (IH r1 Hr1 ltac:(lia)) as (ps & -> & Hc). exists ((x :: p) :: ps). split; [reflexivity|].
    cbn [concat]. now rewrite Hc, Ed.
Qed.

Lemma no_empty_chunk cap r w res out r' w' ps errored : cap_ok cap ->
  copy_chunked cap r w = (res, out, r', w') -> delivered cap r = (ps, errored) ->
  Forall (piece_ok cap) ps /\
  (forall n, res = COk n -> decode_chunked out = DComplete ps [] /\ forallb nonempty ps = true).
Proof.
  intros C HL HD. destruct (copy_chunked_spec cap _ _ _ _ _ _ _ _ C HL HD) as (F & _ & _).
  split; [exact F|]. intros n ->.
  pose proof (copy_chunked_decode cap _ _ _ _ _ _ _ _ C HL HD) as (_ & R & _).
  split; [exact R|]. now apply (forallb_nonempty cap).
Qed.

Lemma one_terminator cap pieces : cap_ok cap -> Forall (piece_ok cap) pieces ->
  encode pieces = concat (map chunk_of pieces) ++ terminator /\
  forall pre suf, encode pieces = pre ++ suf -> suf <> [] -> decode_chunked pre = DIncomplete.
Proof.
  intros C F. split; [reflexivity|]. intros pre suf E Hs. apply decode_chunked_incomplete.
  now apply (encode_prefix_incomplete cap pieces C F pre suf).
Qed.

Lemma failed_write_prefix cap r w res out r' w' ps errored : cap_ok cap ->
  copy_chunked cap r w = (res, out, r', w') -> delivered cap r = (ps, errored) ->
  exists suf, full_output ps errored = out ++ suf.
Proof. intros C HL HD. now destruct (copy_chunked_spec cap _ _ _ _ _ _ _ _ C HL HD) as (_ & S & _). Qed.

Lemma source_error_iff cap r w ps errored : cap_ok cap -> writer_errfree w = true ->
  delivered cap r = (ps, errored) ->
  fst (fst (fst (copy_chunked cap r w))) = (if errored then CReaderErr else COk (N.of_nat (length (concat ps)) + 3)).
Proof.
  intros C Hw HD. destruct (short_writes_invisible cap r w Hw) as (_ & Hne).
  destruct (copy_chunked cap r w) as [[[res out] r'] w'] eqn:HL. cbn [fst] in *.
  pose proof (copy_chunked_decode cap _ _ _ _ _ _ _ _ C HL HD) as R.
  destruct res.
  - destruct R as (-> & _ & ->). reflexivity.
  - destruct R as (-> & _). reflexivity.
  - congruence.
  - destruct R.
Qed.

Lemma stream_any_delivery cap data rsched w : cap_ok cap ->
  reader_errfree (mkReader data rsched) = true -> writer_errfree w = true ->
  exists chunks out r' w',
    copy_chunked cap (mkReader data rsched) w = (COk (N.of_nat (length data) + 3), out, r', w') /\
    decode_chunked out = DComplete chunks [] /\ concat chunks = data /\
    forallb nonempty chunks = true.
Proof.
  intros C Hr Hw. set (r := mkReader data rsched) in *.
  destruct (delivered_errfree cap (proj1 C) (rd_fuel r) r Hr) as (ps & HD & Hc).
  { unfold rd_fuel. lia. }
  fold (delivered cap r) in HD.
  pose proof (source_error_iff cap r w ps false C Hw HD) as Hres.
  destruct (copy_chunked cap r w) as [[[res out] r'] w'] eqn:HL. cbn [fst] in Hres. subst res.
  destruct (no_empty_chunk cap _ _ _ _ _ _ _ _ C HL HD) as (_ & Hn).
  destruct (Hn _ eq_refl) as (Hd & Hne).
  exists ps, out, r', w'. cbn [r_data r] in Hc. rewrite Hc. repeat split; auto.
Qed.
