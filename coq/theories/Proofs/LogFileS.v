(* Proofs/LogFileS.v -- deletion is oldest-first: with strictly increasing mtimes / clock the
   closed files a run keeps are a contiguous most-recent suffix of (the log files found at
   start-up, in mtime order) ++ (the files the run closed, in order). *)
From Coq Require Import Sorting.Sorted.
From SV Require Import Base.Bytes Base.BytesP Model.LogFile Proofs.LogFileP Proofs.LogFileW.

(* [before leb a c]: a comes strictly before c in the heap order *)
Definition before (leb : pfile -> pfile -> bool) (a c : pfile) : Prop := leb c a = false.

Lemma Pops_sorted_suffix leb P es es' : Pops leb P es es' -> StronglySorted (before leb) es -> exists pre, es = pre ++ es'.
Proof.
  induction 1 as [es|l1 e l2 es' Hmin Hleb _ HP IH]; intros Hs.
  - exists []. reflexivity.
  - destruct l1 as [|a l1].
    + cbn [app] in *. apply StronglySorted_inv in Hs as [Hs _]. destruct (IH Hs) as (pre & ->).
      exists (e :: pre). reflexivity.
    + exfalso. cbn [app] in Hs. apply StronglySorted_inv in Hs as [_ Hs].
      rewrite Forall_forall in Hs. specialize (Hs e). unfold before in Hs.
      assert (In e (l1 ++ e :: l2)) by (apply in_or_app; right; cbn; auto).
      specialize (Hs H). specialize (Hleb a (or_introl eq_refl)). congruence.
Qed.

Lemma sorted_suffix leb (pre es : list pfile) : StronglySorted (before leb) (pre ++ es) -> StronglySorted (before leb) es.
Proof. induction pre; cbn [app]; auto. intros H. apply StronglySorted_inv in H as [H _]. auto. Qed.

Lemma sorted_snoc v (es : list pfile) e : StronglySorted (before (heap_leb v)) es ->
  Forall (fun x => p_mtime x < p_mtime e) es -> StronglySorted (before (heap_leb v)) (es ++ [e]).
Proof.
  induction 1 as [|a es Hs IH Ha]; intros Hf; cbn [app].
  - constructor; constructor.
  - inversion Hf; subst. constructor; auto. apply Forall_app. split; auto.
    constructor; [|constructor]. unfold before. now apply heap_leb_younger.
Qed.

Section Suffix.
Variable prefix : bytes.
Variable b18 : bool.
Notation pv := (post b18).
Notation ltm := (before (heap_leb pv)).

Lemma step_entries m cfg rest cf w ev w' :
  cfg_ok cfg -> WInv prefix rest cf w -> w_len w < two63 -> slen (w_set w) <= max_keep_bytes cfg ->
  l_size ev < two63 -> step pv m cfg w ev = ROk w' ->
  exists pushed, (pushed = [] \/ pushed = [mkPfile (w_cur w) (l_time ev) (w_len w)]) /\
                 Pops (heap_leb pv) (fun _ => True) (entries (w_set w) ++ pushed) (entries (w_set w')).
Proof.
  intros [Cw Ck] I Hl Hs Hn. unfold step.
  destruct (phase_rotate_ok prefix b18 m cfg rest cf w ev I Hl Hn) as [(E & Hsz & Hag)|(nm & E & I1)]; [lia| |].
  - rewrite E. cbn [bind].
    destruct (phase_delete_ok prefix b18 m cfg rest cf w ev I) as (rest' & st' & E2 & I2 & K & Hb & Hage & P).
    cbn zeta in E2, I2. rewrite E2. cbn [bind].
    destruct (phase_append_ok prefix m rest' cf _ ev I2) as [E3 I3].
    { cbn [w_len]. rewrite <- two63_two64. lia. }
    cbn zeta in E3. cbn [w_set w_cur w_len w_created] in E3. rewrite E3. intros [= <-].
    exists []. split; auto. rewrite app_nil_r. exact P.
  - rewrite E. cbn [bind].
    destruct (phase_delete_ok prefix b18 m cfg (rest ++ [cf]) (new_file nm (l_time ev)) _ ev I1) as (rest' & st' & E2 & I2 & K & Hb & Hage & P).
    cbn zeta in E2, I2. cbn [w_set w_cur w_len w_created] in E2, I2, Hb, P.
    rewrite E2. cbn [bind].
    destruct (phase_append_ok prefix m rest' (new_file nm (l_time ev)) _ ev I2) as [E3 I3].
    { cbn [w_len]. rewrite <- two63_two64. lia. }
    cbn zeta in E3. cbn [w_set w_cur w_len w_created] in E3. rewrite E3. intros [= <-].
    eexists. split; [right; reflexivity|]. exact P.
Qed.

Fixpoint inc (t : N) (evs : list line) : Prop :=
  match evs with [] => True | e :: r => t < l_time e /\ inc (l_time e) r end.

Lemma run_events_suffix m cfg : cfg_ok cfg -> forall evs rest cf w t,
  WInv prefix rest cf w -> w_len w < two63 -> slen (w_set w) <= max_keep_bytes cfg ->
  Forall (fun l => l_size l < two63) evs ->
  StronglySorted ltm (entries (w_set w)) -> Forall (fun e => p_mtime e <= t) (entries (w_set w)) -> inc t evs ->
  exists w' pushed pre,
    run_events pv m cfg w evs = ROk w' /\ entries (w_set w) ++ pushed = pre ++ entries (w_set w') /\
    StronglySorted ltm (entries (w_set w')).
Proof.
  intros Cok. induction evs as [|ev evs IH]; intros rest cf w t I Hl Hs Hsz Hso Hle Hinc.
  - exists w, [], []. cbn [run_events app]. rewrite app_nil_r. auto.
  - inversion Hsz as [|? ? Hev Hsz']; subst. destruct Hinc as [Ht Hinc]. cbn [run_events].
    destruct (step_ok prefix b18 m cfg rest cf w ev Cok I Hl Hs Hev) as (rest1 & cf1 & w1 & E & I1 & _ & Hl1 & Hs1 & _).
    rewrite E. cbn [bind].
    destruct (step_entries m cfg rest cf w ev w1 Cok I Hl Hs Hev E) as (pushed & Hp & P).
    assert (Hso0 : StronglySorted ltm (entries (w_set w) ++ pushed)).
    { destruct Hp as [->| ->]; [now rewrite app_nil_r|]. apply sorted_snoc; auto. cbn [p_mtime].
      eapply Forall_impl; [|exact Hle]. cbn beta. intros; lia. }
    assert (Hle0 : Forall (fun e => p_mtime e <= l_time ev) (entries (w_set w) ++ pushed)).
    { apply Forall_app. split.
      - eapply Forall_impl; [|exact Hle]. cbn beta. intros; lia.
      - destruct Hp as [->| ->]; constructor; [cbn; lia|constructor]. }
    destruct (Pops_sorted_suffix _ _ _ _ P Hso0) as (pre1 & E1).
    assert (Hso1 : StronglySorted ltm (entries (w_set w1))) by (rewrite E1 in Hso0; eapply sorted_suffix; eauto).
    assert (Hle1 : Forall (fun e => p_mtime e <= l_time ev) (entries (w_set w1))).
    { rewrite E1 in Hle0. apply Forall_app in Hle0. tauto. }
    destruct (IH rest1 cf1 w1 (l_time ev) I1 Hl1 Hs1 Hsz' Hso1 Hle1 Hinc) as (w' & pushed2 & pre2 & E' & E2 & Hso').
    exists w', (pushed ++ pushed2), (pre1 ++ pre2). splits; auto.
    rewrite app_assoc, E1, <- !app_assoc. f_equal. exact E2.
Qed.

(* what start leaves in the set *)
Lemma start_entries m cfg fs0 ts sl w :
  NoDup (live_names fs0) -> total_size post_fix prefix fs0 < two64 -> l_size sl < two63 ->
  start pv m cfg prefix fs0 ts sl = ROk w ->
  Pops (heap_leb pv) (fun _ => True) (map entry_of (logs prefix fs0)) (entries (w_set w)).
Proof.
  intros Hnd Htot Hs. unfold start, set_new.
  change (filter (is_log_file pv prefix) fs0) with (logs prefix fs0). rewrite logs_entry_lens.
  rewrite (sum64_fits m _ 0) by (unfold total_size, log_files in Htot; unfold logs; lia).
  set (st0 := mkPset (map entry_of (logs prefix fs0)) (0 + sumN (map f_size (logs prefix fs0))) ts).
  assert (G0 : Good prefix fs0 [] st0).
  { constructor; cbn [st0 entries slen].
    - now rewrite app_nil_r.
    - apply logs_entry_names.
    - apply logs_entry_lens.
    - rewrite logs_entry_lens. lia. }
  destruct (while_over_good prefix b18 m (max_keep_bytes cfg) fs0 [] st0 G0) as (rest & st1 & E & G1 & K & Hle & P & _).
  rewrite !app_nil_r in E. rewrite E.
  destruct (create_some (ticks_per_sec cfg) (l_time sl) rest) as (nm & Ec & Gn & Hfresh). rewrite Ec.
  rewrite add64_ok by (pose proof two63_two64; lia).
  intros [= <-]. cbn [w_set]. exact P.
Qed.

(* survivors_are_suffix for one run over any directory whose log files are strictly sorted in the
   heap order (before D18: strictly increasing mtimes; after D18: increasing (mtime, path), EQUAL
   MTIMES ALLOWED) and not younger than the start, under a strictly increasing clock, for EVERY tie
   schedule of the heap *)
Lemma survivors_are_suffix_run m MW WA fsA r :
  dir_ok prefix fsA -> wf_run MW WA r ->
  StronglySorted (fun f g => heap_leb pv (entry_of g) (entry_of f) = false) (logs prefix fsA) ->
  Forall (fun f => f_mtime f <= l_time (r_start r)) (logs prefix fsA) ->
  inc (l_time (r_start r)) (r_events r) ->
  exists w rest cf pushed pre,
    run_one pv m prefix fsA r = ROk w /\ w_fs w = rest ++ [cf] /\
    map p_name (entries (w_set w)) = map f_name (logs prefix rest) /\
    map entry_of (logs prefix fsA) ++ pushed = pre ++ entries (w_set w).
Proof.
  intros [Hnd Htot] (Cok & Hmw & Hwa & Hsz) Hsort Hbefore Hinc.
  unfold run_lines in Hsz. inversion Hsz as [|? ? Hs0 Hevs]; subst.
  unfold run_one.
  destruct (start_ok prefix b18 m (r_cfg r) fsA (r_ties r) (r_start r) Hnd Htot Hs0) as (rest & nm & w & E & I & K & Gn & Hl & Hs).
  pose proof (start_entries m (r_cfg r) fsA (r_ties r) (r_start r) w Hnd Htot Hs0 E) as P0.
  rewrite E. cbn [bind].
  assert (Hso0 : StronglySorted ltm (map entry_of (logs prefix fsA))).
  { clear - Hsort. induction (logs prefix fsA) as [|f l IH]; cbn [map] in *; [constructor|].
    apply StronglySorted_inv in Hsort as [Hs Hf]. constructor; auto.
    rewrite Forall_forall in *. intros e He. apply in_map_iff in He as (g & <- & Hg).
    unfold before. now apply Hf. }
  destruct (Pops_sorted_suffix _ _ _ _ P0 Hso0) as (pre0 & E0).
  assert (Hso1 : StronglySorted ltm (entries (w_set w))) by (rewrite E0 in Hso0; eapply sorted_suffix; eauto).
  assert (Hle1 : Forall (fun e => p_mtime e <= l_time (r_start r)) (entries (w_set w))).
  { assert (Hall : Forall (fun e => p_mtime e <= l_time (r_start r)) (map entry_of (logs prefix fsA))).
    { rewrite Forall_forall in *. intros e He. apply in_map_iff in He as (g & <- & Hg). cbn. now apply Hbefore. }
    rewrite E0 in Hall. apply Forall_app in Hall. tauto. }
  assert (Hl2 : w_len w < two63) by (rewrite Hl; exact Hs0).
  destruct (run_events_suffix m (r_cfg r) Cok (r_events r) _ _ w _ I Hl2 Hs Hevs Hso1 Hle1 Hinc)
    as (w' & pushed & pre & E' & E2 & _).
  destruct (run_events_ok prefix b18 m (r_cfg r) fsA MW WA Cok Hmw Hwa (r_events r) _ _ w [r_start r] I Hl2 Hs Hevs)
    as (rest' & cf' & w'' & E'' & I' & _).
  { pose proof (HI_kills prefix _ _ MW WA _ _ (HI_init prefix fsA MW WA) K) as H'.
    apply (HIc_of_snoc prefix _ _ _ _ _ (add_line (r_start r) (new_file nm (l_time (r_start r))))) in H'; [exact H'|now apply fprop_first_line]. }
  rewrite E' in E''. injection E'' as <-.
  exists w', rest', cf', pushed, (pre0 ++ pre).
  destruct I' as [Hfs [_ Hn _ _] _ _ _ _ _ _]. splits; auto.
  rewrite E0, <- !app_assoc. f_equal. exact E2.
Qed.

End Suffix.
