(* Proofs/ResponseP.v -- the response serializer model (Model/Response.v) against the independent
   response parser (Spec/RespParse.v). *)
From SV Require Import Base.Bytes Base.BytesP Model.Headers Model.IOSched Spec.ChunkDecode Model.Chunked
                       Spec.RespParse Model.Response Proofs.IOSchedP Proofs.ChunkedP Proofs.RespParseP.

(* ---------------------------------------------------------------- field lines *)
Lemma value_ok_parts v : value_ok v = true ->
  forallb is_fv_byte v = true /\ first_not_ows v = true /\ first_not_ows (rev v) = true.
Proof. unfold value_ok. intros H. apply andb_true_iff in H as [H H3]. apply andb_true_iff in H as [H1 H2]. auto. Qed.

Lemma header_ok_parts f : header_ok f = true ->
  fst f <> [] /\ forallb is_tchar (fst f) = true /\ value_ok (snd f) = true.
Proof.
  unfold header_ok, is_token. intros H. apply andb_true_iff in H as [H H3]. apply andb_true_iff in H as [H1 H2].
  split; [destruct (fst f); [discriminate|discriminate]|]. auto.
Qed.

Lemma field_line_split f : field_line f = (fst f ++ 58 :: 32 :: snd f) ++ 13 :: 10 :: [].
Proof. unfold field_line, s_colon_sp, crlf. now rewrite <- !app_assoc. Qed.

Lemma field_line_app f Y : field_line f ++ Y = (fst f ++ 58 :: 32 :: snd f) ++ 13 :: 10 :: Y.
Proof. rewrite field_line_split, <- !app_assoc. reflexivity. Qed.

Lemma field_content_no_cr f : header_ok f = true -> no_cr (fst f ++ 58 :: 32 :: snd f) = true.
Proof.
  intros H. apply header_ok_parts in H as (_ & Hn & Hv). apply value_ok_parts in Hv as (Hv & _).
  apply fv_no_cr. rewrite forallb_app. apply andb_true_iff. split.
  - revert Hn. apply forallb_impl. exact tchar_fv.
  - cbn [forallb]. now rewrite Hv.
Qed.

Lemma parse_field_line_ok f : header_ok f = true -> parse_field_line (fst f ++ 58 :: 32 :: snd f) = Some f.
Proof.
  intros H. pose proof (header_ok_parts f H) as (Hne & Hn & Hv).
  apply value_ok_parts in Hv as (Hv & H1 & H2).
  unfold parse_field_line. rewrite split_colon_app by assumption.
  assert (is_token (fst f) = true) as -> by (unfold is_token; rewrite Hn; destruct (fst f); [congruence|reflexivity]).
  cbn [forallb andb]. change (is_fv_byte 32) with true. rewrite Hv. cbn [andb].
  rewrite trim_ows_sp by assumption. now destruct f.
Qed.

Lemma parse_fields_ok : forall fs X fuel, forallb header_ok fs = true -> (length fs < fuel)%nat ->
  parse_fields fuel (concat (map field_line fs) ++ 13 :: 10 :: X) = Some (fs, X).
Proof.
  induction fs as [|f fs IH]; intros X fuel H Hf; (destruct fuel as [|fuel]; [cbn in Hf; lia|]).
  - reflexivity.
  - cbn [forallb] in H. apply andb_true_iff in H as [Hh Hs].
    cbn [map concat parse_fields]. rewrite <- app_assoc, field_line_app.
    rewrite split_line_app by now apply field_content_no_cr.
    destruct (fst f ++ 58 :: 32 :: snd f) as [|x l] eqn:E.
    { apply header_ok_parts in Hh as (Hne & _). destruct (fst f); [congruence|discriminate]. }
    rewrite <- E. rewrite parse_field_line_ok by assumption.
    rewrite IH by (auto; cbn in Hf; lia). reflexivity.
Qed.

Lemma concat_field_lines_length fs : (length fs <= length (concat (map field_line fs)))%nat.
Proof.
  induction fs as [|f fs IH]; [cbn; lia|]. cbn [map concat length]. rewrite app_length.
  rewrite field_line_split, app_length. cbn [length]. lia.
Qed.

(* ---------------------------------------------------------------- the guards and the head *)
Lemma get_all_is_empty hs name : is_empty (get_all hs name) = negb (existsb (matches name) hs).
Proof.
  induction hs as [|h t IH]; [reflexivity|]. cbn [get_all existsb]. destruct (matches name h); [reflexivity|exact IH].
Qed.

Section WithTables.
  Variable reason : N -> bytes.
  Variable ct_text : nat -> bytes.

  Lemma head_of_eq r close :
    head_of reason ct_text r close =
    status_line reason (r_code r) ++
    (if ctype_set (r_ctype r) then field_line (s_content_type, ctype_str ct_text (r_ctype r)) else []) ++
    (if close then field_line (s_connection, s_close) else []) ++
    field_line (match body_len (r_body r) with Some n => (s_content_length, dec n) | None => (s_transfer_encoding, s_chunked) end) ++
    concat (map field_line (r_headers r)) ++ crlf.
  Proof.
    unfold head_of, all_fields, auto_fields. rewrite !map_app, !concat_app.
    destruct (ctype_set (r_ctype r)), close; cbn [map concat app]; rewrite ?app_nil_r, <- ?app_assoc; reflexivity.
  Qed.

  Lemma build_head_spec r close : r_normal r = true ->
    if collides r
    then exists e, build_head reason ct_text false r close = inl e /\ is_dup e = true
    else build_head reason ct_text false r close = inr (head_of reason ct_text r close).
  Proof.
    intros Hn. unfold build_head, collides. rewrite Hn. cbn [negb]. rewrite !get_all_is_empty, !negb_involutive.
    destruct (ctype_set (r_ctype r) && existsb (matches s_content_type) (r_headers r)) eqn:E1.
    { cbn [orb]. eexists; split; reflexivity. }
    cbn [orb negb andb].
    destruct (existsb (matches s_content_length) (r_headers r)) eqn:E2.
    { cbn [orb]. eexists; split; reflexivity. }
    destruct (existsb (matches s_transfer_encoding) (r_headers r)) eqn:E3.
    { cbn [orb]. eexists; split; reflexivity. }
    cbn [orb]. rewrite head_of_eq. destruct (body_len (r_body r)); cbn [andb]; rewrite <- !app_assoc; reflexivity.
  Qed.

  Lemma build_head_unwritable prefix r close : r_normal r = false -> build_head reason ct_text prefix r close = inl EUnwritable.
  Proof. intros H. unfold build_head. now rewrite H. Qed.
End WithTables.

(* ---------------------------------------------------------------- parsing the head back *)
Lemma digits_value_ok s : forallb is_digit s = true -> value_ok s = true.
Proof.
  intros H. unfold value_ok. rewrite (forallb_impl _ _ _ digit_fv H). cbn [andb].
  assert (Hd : forall t, forallb is_digit t = true -> first_not_ows t = true).
  { intros [|a t] Ht; [reflexivity|]. cbn in *. apply andb_true_iff in Ht as [Ha _].
    unfold is_digit, in_range in Ha. apply andb_true_iff in Ha as [H1 H2]. apply N.leb_le in H1, H2.
    unfold is_ows. apply negb_true_iff, orb_false_iff. split; apply N.eqb_neq; lia. }
  rewrite (Hd s H). cbn [andb]. apply Hd. rewrite forallb_forall in *. intros x Hx. apply H. now apply in_rev.
Qed.

Lemma filter_none {A} (p : A -> bool) l : existsb p l = false -> filter p l = [].
Proof.
  induction l as [|x l IH]; [reflexivity|]. cbn. intros H. apply orb_false_iff in H as [H1 H2]. now rewrite H1, IH.
Qed.

Section WithTables2.
  Variable reason : N -> bytes.
  Variable ct_text : nat -> bytes.
  Notation head_of := (head_of reason ct_text).
  Notation all_fields := (all_fields ct_text).
  Notation auto_fields := (auto_fields ct_text).
  Notation head_ok := (head_ok reason ct_text).

  Lemma head_ok_parts r : head_ok r = true ->
    r_normal r = true /\ 100 <= r_code r <= 999 /\ forallb is_fv_byte (reason (r_code r)) = true /\
    value_ok (ctype_str ct_text (r_ctype r)) = true /\ forallb header_ok (r_headers r) = true.
  Proof.
    unfold head_ok, code_ok, reason_text_ok, ctype_ok. intros H.
    apply andb_true_iff in H as [H H5]. apply andb_true_iff in H as [H H4]. apply andb_true_iff in H as [H H3].
    apply andb_true_iff in H as [H1 H2]. apply andb_true_iff in H2 as [H2 H2'].
    repeat split; auto; now apply N.leb_le.
  Qed.

  Lemma auto_fields_ok r close : value_ok (ctype_str ct_text (r_ctype r)) = true ->
    forallb header_ok (auto_fields r close) = true.
  Proof.
    intros Hc. unfold auto_fields.
    assert (Hd : forall n, value_ok (dec n) = true) by (intros n; apply digits_value_ok, dec_spec).
    destruct (ctype_set (r_ctype r)), close, (body_len (r_body r)); cbn [app forallb]; unfold header_ok; cbn [fst snd];
      rewrite ?Hc, ?Hd; reflexivity.
  Qed.

  Lemma filter_auto_cl r close :
    filter (field_named s_content_length) (auto_fields r close) =
    match body_len (r_body r) with Some n => [(s_content_length, dec n)] | None => [] end.
  Proof. unfold auto_fields. destruct (ctype_set (r_ctype r)), close, (body_len (r_body r)); reflexivity. Qed.
  Lemma filter_auto_te r close :
    filter (field_named s_transfer_encoding) (auto_fields r close) =
    match body_len (r_body r) with Some n => [] | None => [(s_transfer_encoding, s_chunked)] end.
  Proof. unfold auto_fields. destruct (ctype_set (r_ctype r)), close, (body_len (r_body r)); reflexivity. Qed.

  Lemma collides_false r : collides r = false ->
    existsb (matches s_content_length) (r_headers r) = false /\
    existsb (matches s_transfer_encoding) (r_headers r) = false.
  Proof. unfold collides. intros H. apply orb_false_iff in H as [H H2]. apply orb_false_iff in H as [_ H1]. auto. Qed.

  Lemma framing_of_all r close : collides r = false ->
    framing_of (all_fields r close) =
    Some (match body_len (r_body r) with Some n => FLength n | None => FChunked end).
  Proof.
    intros H. apply collides_false in H as [H1 H2]. unfold framing_of, all_fields.
    rewrite !filter_app, filter_auto_cl, filter_auto_te.
    change (field_named s_content_length) with (matches s_content_length).
    change (field_named s_transfer_encoding) with (matches s_transfer_encoding).
    rewrite (filter_none _ _ H1), (filter_none _ _ H2).
    destruct (body_len (r_body r)) as [n|]; cbn [app snd].
    - destruct (dec_spec n) as (_ & _ & ->). reflexivity.
    - reflexivity.
  Qed.

  Lemma framing_count_all r close : collides r = false -> framing_count (all_fields r close) = 1%nat.
  Proof.
    intros H. apply collides_false in H as [H1 H2]. unfold framing_count, all_fields.
    rewrite !filter_app.
    change (matches s_content_length) with (field_named s_content_length).
    change (matches s_transfer_encoding) with (field_named s_transfer_encoding).
    rewrite filter_auto_cl, filter_auto_te.
    change (field_named s_content_length) with (matches s_content_length).
    change (field_named s_transfer_encoding) with (matches s_transfer_encoding).
    rewrite (filter_none _ _ H1), (filter_none _ _ H2).
    destruct (body_len (r_body r)); reflexivity.
  Qed.

  Lemma status_line_shape c Y :
    status_line reason c ++ Y = (s_http11 ++ 32 :: dec c ++ 32 :: reason c) ++ 13 :: 10 :: Y.
  Proof.
    unfold status_line, s_http11_sp, s_http11, crlf. cbn [app]. do 9 f_equal.
    rewrite <- !app_assoc. cbn [app]. rewrite <- !app_assoc. reflexivity.
  Qed.

  Lemma parse_response_wire r close BODY : head_ok r = true -> collides r = false ->
    parse_response (head_of r close ++ BODY) =
    match body_len (r_body r) with
    | Some n => match take_n n BODY with
                | Some (bd, rest) => Some (r_code r, all_fields r close, bd, rest)
                | None => None
                end
    | None => match decode_chunks BODY with
              | DComplete chunks rest => Some (r_code r, all_fields r close, concat chunks, rest)
              | _ => None
              end
    end.
  Proof.
    intros Hh Hc. destruct (head_ok_parts r Hh) as (Hn & Hcode & Hr & Hct & Hhs).
    unfold parse_response, head_of. rewrite <- app_assoc, status_line_shape.
    unfold crlf. rewrite <- (app_assoc _ [13; 10] BODY). cbn [app].
    rewrite split_line_app.
    2:{ apply fv_no_cr. rewrite forallb_app. apply andb_true_iff. split; [reflexivity|].
        cbn [forallb]. change (is_fv_byte 32) with true. cbn [andb]. rewrite forallb_app.
        destruct (dec_spec (r_code r)) as (_ & Hd & _). rewrite (forallb_impl _ _ _ digit_fv Hd).
        cbn [forallb andb]. change (is_fv_byte 32) with true. now rewrite Hr. }
    rewrite parse_status_line_ok by assumption.
    rewrite parse_fields_ok.
    2:{ unfold all_fields. rewrite forallb_app, (auto_fields_ok r close Hct), Hhs. reflexivity. }
    2:{ rewrite app_length. pose proof (concat_field_lines_length (all_fields r close)). lia. }
    rewrite framing_of_all by assumption.
    destruct (body_len (r_body r)); reflexivity.
  Qed.
End WithTables2.

(* ---------------------------------------------------------------- copy_async over take(limit) *)
Lemma take_max_le cap limit : limit <> 0 -> (1 <= cap)%nat ->
  let max := if limit <? N.of_nat cap then N.to_nat limit else cap in
  (1 <= max)%nat /\ N.of_nat max <= limit.
Proof.
  intros Hl Hc. cbv zeta. destruct (N.ltb_spec limit (N.of_nat cap)); split; try lia.
Qed.

Lemma copy_async_loop_spec cap : (1 <= cap)%nat -> forall fuel limit r w num res out r' w',
  (length (r_data r) + length (r_sched r) < fuel)%nat ->
  copy_async_loop cap fuel limit r w num = (res, out, r', w') ->
  (exists suf, r_data r = out ++ suf) /\ N.of_nat (length out) <= limit /\
  match res with COk n' => n' = num + N.of_nat (length out) | COutOfFuel => False | _ => True end.
Proof.
  intros Hc. induction fuel as [|f IH]; intros limit r w num res out r' w' Hf HL; [lia|].
  cbn [copy_async_loop] in HL. destruct (N.eqb_spec limit 0) as [->|Hl].
  { inversion HL; subst. split; [exists (r_data r'); reflexivity|]. cbn. split; lia. }
  pose proof (take_max_le cap limit Hl Hc) as [Hm1 Hm2]. cbv zeta in Hm1, Hm2.
  set (max := if limit <? N.of_nat cap then N.to_nat limit else cap) in *.
  destruct (rd_read max r) as [p r1|r1] eqn:Er.
  2:{ inversion HL; subst. split; [exists (r_data r); reflexivity|]. cbn. split; [lia|exact I]. }
  pose proof (rd_read_bytes max r _ _ Er) as (Ed & Hlen & _ & Hdec).
  destruct p as [|x p].
  { inversion HL; subst. split; [exists (r_data r); reflexivity|]. cbn. split; lia. }
  specialize (Hdec ltac:(discriminate)).
  destruct (write_all (x :: p) w) as [[a w1] ok] eqn:Ew.
  apply write_all_prefix in Ew as (rest & E1 & E2 & _).
  destruct ok.
  - assert (rest = []) by (now apply E2). subst rest. rewrite app_nil_r in E1. subst a.
    destruct (copy_async_loop cap f (limit - N.of_nat (length (x :: p))) r1 w1 (num + N.of_nat (length (x :: p))))
      as [[[res1 out1] r2] w2] eqn:EL.
    inversion HL; subst. clear HL.
    assert (Hf1 : (length (r_data r1) + length (r_sched r1) < f)%nat) by lia.
    destruct (IH _ _ _ _ _ _ _ _ Hf1 EL) as ((suf & Hs) & Hle & Hres).
    split; [exists suf; rewrite Ed, Hs; cbn [app]; rewrite ?app_assoc; reflexivity|].
    cbn [length] in *. rewrite app_length. split; [lia|]. destruct res; auto. lia.
  - inversion HL; subst. clear HL. split; [exists (rest ++ r_data r'); rewrite Ed, E1; cbn [app]; rewrite ?app_assoc; reflexivity|].
    assert (length out <= length (x :: p))%nat by (rewrite E1, app_length; lia).
    split; [lia|exact I].
Qed.

Lemma firstn_app_exact {A} (p l : list A) k : firstn (length p + k) (p ++ l) = p ++ firstn k l.
Proof. rewrite firstn_app. rewrite firstn_all2 by lia. f_equal. f_equal. lia. Qed.

(* never-failing source and sink: everything up to the limit is copied *)
Lemma copy_async_errfree cap : (1 <= cap)%nat -> forall fuel limit r w num,
  reader_errfree r = true -> writer_errfree w = true ->
  (length (r_data r) + length (r_sched r) < fuel)%nat ->
  exists r' w',
    copy_async_loop cap fuel limit r w num =
      (COk (num + N.min limit (N.of_nat (length (r_data r)))),
       firstn (N.to_nat (N.min limit (N.of_nat (length (r_data r))))) (r_data r), r', w')
    /\ writer_errfree w' = true.
Proof.
  intros Hc. induction fuel as [|f IH]; intros limit r w num Hr Hw Hf; [lia|].
  cbn [copy_async_loop]. destruct (N.eqb_spec limit 0) as [->|Hl].
  { do 2 eexists. split; [|exact Hw]. rewrite N.min_0_l. cbn [N.to_nat firstn]. repeat f_equal. lia. }
  pose proof (take_max_le cap limit Hl Hc) as [Hm1 Hm2]. cbv zeta in Hm1, Hm2.
  set (max := if limit <? N.of_nat cap then N.to_nat limit else cap) in *.
  destruct (rd_read_errfree max r Hr Hm1) as (p & r1 & Er & Hr1 & Hp). rewrite Er.
  pose proof (rd_read_bytes max r _ _ Er) as (Ed & Hlen & _ & Hdec).
  destruct p as [|x p].
  { rewrite (Hp eq_refl). do 2 eexists. split; [|exact Hw]. cbn [length N.of_nat]. rewrite N.min_0_r.
    cbn [N.to_nat firstn]. repeat f_equal. lia. }
  specialize (Hdec ltac:(discriminate)).
  destruct (write_all_errfree (x :: p) w Hw) as (w1 & -> & Hw1).
  assert (Hf1 : (length (r_data r1) + length (r_sched r1) < f)%nat) by lia.
  destruct (IH (limit - N.of_nat (length (x :: p))) r1 w1 (num + N.of_nat (length (x :: p))) Hr1 Hw1 Hf1)
    as (r2 & w2 & -> & Hw2).
  do 2 eexists. split; [|exact Hw2].
  set (lp := length (x :: p)) in *. rewrite Ed, app_length. fold lp.
  assert (Hmin : N.min limit (N.of_nat (lp + length (r_data r1))) =
                 N.of_nat lp + N.min (limit - N.of_nat lp) (N.of_nat (length (r_data r1)))) by lia.
  rewrite Hmin. rewrite N2Nat.inj_add, Nat2N.id. unfold lp. rewrite firstn_app_exact.
  rewrite N.add_assoc. reflexivity.
Qed.

Lemma copy_async_short_writes cap : forall fuel limit r w1 w2 num,
  writer_errfree w1 = true -> writer_errfree w2 = true ->
  exists res out r' w1' w2',
    copy_async_loop cap fuel limit r w1 num = (res, out, r', w1') /\
    copy_async_loop cap fuel limit r w2 num = (res, out, r', w2') /\
    res <> CWriterErr /\ writer_errfree w1' = true /\ writer_errfree w2' = true.
Proof.
  induction fuel as [|f IH]; intros limit r w1 w2 num H1 H2.
  - cbn. do 5 eexists. repeat split; auto. discriminate.
  - cbn [copy_async_loop]. destruct (limit =? 0).
    { do 5 eexists. repeat split; auto. discriminate. }
    destruct (rd_read _ r) as [p r1|r1].
    2:{ do 5 eexists. repeat split; auto. discriminate. }
    destruct p as [|x p].
    { do 5 eexists. repeat split; auto. discriminate. }
    destruct (write_all_errfree (x :: p) w1 H1) as (w1' & -> & H1').
    destruct (write_all_errfree (x :: p) w2 H2) as (w2' & -> & H2').
    destruct (IH (limit - N.of_nat (length (x :: p))) r1 w1' w2' (num + N.of_nat (length (x :: p))) H1' H2')
      as (res & out & r' & wa & wb & -> & -> & Hne & Ha & Hb).
    do 5 eexists. repeat split; eauto.
Qed.

(* ---------------------------------------------------------------- write_http_response *)
Lemma prefix_firstn {A} (l out suf : list A) k : l = out ++ suf -> (length out <= k)%nat ->
  exists s, firstn k l = out ++ s.
Proof.
  intros -> H. exists (firstn (k - length out) suf). rewrite firstn_app. now rewrite firstn_all2 by lia.
Qed.

Lemma copy_cap_pos : (1 <= copy_cap)%nat.
Proof. unfold copy_cap. lia. Qed.

Lemma header_beq_refl h : header_beq h h = true.
Proof. unfold header_beq. now rewrite !beq_refl. Qed.
Lemma hlist_beq_refl hs : hlist_beq hs hs = true.
Proof. induction hs as [|h t IH]; [reflexivity|]. cbn. now rewrite header_beq_refl, IH. Qed.

Section WithTables3.
  Variable reason : N -> bytes.
  Variable ct_text : nat -> bytes.
  Notation head_of := (head_of reason ct_text).
  Notation all_fields := (all_fields ct_text).
  Notation head_ok := (head_ok reason ct_text).
  Notation full_wire := (full_wire reason ct_text).
  Notation W := (write_http_response reason ct_text).

  Lemma W_unwritable prefix r close w : r_normal r = false ->
    write_http_response_gen reason ct_text prefix r close w = (Some EUnwritable, [], w).
  Proof. intros H. unfold write_http_response_gen. now rewrite build_head_unwritable. Qed.

  Lemma W_refused r close w : r_normal r = true -> collides r = true ->
    exists e, W r close w = (Some e, [], w) /\ is_dup e = true.
  Proof.
    intros Hn Hc. pose proof (build_head_spec reason ct_text r close Hn) as H. rewrite Hc in H.
    destruct H as (e & E & Hd). exists e. unfold write_http_response, write_http_response_gen. now rewrite E.
  Qed.

  (* whatever reader and writer do: what was accepted is a prefix of the one correct serialisation,
     an error is never one of the Duplicate* refusals, and Ok means everything was written *)
  Lemma W_general r close w res wire w' : r_normal r = true -> collides r = false ->
    W r close w = (res, wire, w') ->
    (exists suf, full_wire r close = wire ++ suf) /\
    match res with
    | Some e => is_dup e = false /\ e <> EOutOfFuel
    | None =>
        exists X, wire = head_of r close ++ X /\
        match r_body r with
        | BKnown n _ src => X = body_payload (r_body r) /\ N.of_nat (length X) = n
        | BStream src => exists ps, delivered piece_max src = (ps, false) /\ X = encode ps /\ Forall (piece_ok piece_max) ps
        end
    end.
  Proof.
    intros Hn Hc HW. pose proof (build_head_spec reason ct_text r close Hn) as H. rewrite Hc in H.
    unfold write_http_response, write_http_response_gen in HW. rewrite H in HW. clear H.
    unfold Response.full_wire. set (head := head_of r close) in *.
    destruct (write_all head w) as [[a w1] ok] eqn:Ew.
    apply write_all_prefix in Ew as (rest & E1 & E2 & _).
    destruct ok; cbn [negb] in HW.
    2:{ inversion HW; subst. split; [exists (rest ++ body_wire (r_body r)); rewrite E1; now rewrite <- app_assoc|].
        split; [reflexivity|discriminate]. }
    assert (rest = []) by (now apply E2). subst rest. rewrite app_nil_r in E1. subst a.
    destruct (r_body r) as [n open_ok src|src] eqn:Eb.
    - cbn [body_wire]. destruct (N.eqb_spec n 0) as [->|Hn0].
      { cbn [orb]. split; [inversion HW; subst; exists []; reflexivity|].
        unfold flush_res in HW. destruct (w_flush_ok w1); inversion HW; subst.
        - exists []. split; [now rewrite app_nil_r|]. cbn [body_payload]. rewrite N.min_0_l. split; reflexivity.
        - split; [reflexivity|discriminate]. }
      cbn [orb]. destruct open_ok; cbn [negb] in *.
      2:{ inversion HW; subst. split; [exists []; reflexivity|]. split; [reflexivity|discriminate]. }
      destruct (copy_async_take n src w1) as [[[cr out] r2] w2] eqn:Ec.
      unfold copy_async_take, rd_fuel in Ec.
      assert (Hf : (length (r_data src) + length (r_sched src) < S (length (r_data src) + length (r_sched src)))%nat) by lia.
      destruct (copy_async_loop_spec copy_cap copy_cap_pos _ _ _ _ _ _ _ _ _ Hf Ec) as ((suf & Hs) & Hle & Hres).
      assert (Hlen : (length (r_data src) = length out + length suf)%nat) by (rewrite Hs, app_length; lia).
      assert (Hpre : exists s, body_payload (BKnown n true src) = out ++ s).
      { cbn [body_payload]. apply (prefix_firstn _ _ suf); [exact Hs|]. lia. }
      destruct Hpre as (s & Hpre).
      assert (Hsuf : exists suf0, head ++ body_payload (BKnown n true src) = (head ++ out) ++ suf0)
        by (exists s; rewrite Hpre; now rewrite <- app_assoc).
      destruct cr as [num| | |].
      + destruct (N.eqb_spec num n) as [->|Hne].
        * split; [unfold flush_res in HW; destruct (w_flush_ok w2); inversion HW; subst; exact Hsuf|].
          unfold flush_res in HW. destruct (w_flush_ok w2); inversion HW; subst.
          -- exists out. split; [reflexivity|]. split; [|lia].
             cbn [body_payload]. replace (N.min (0 + N.of_nat (length out)) (N.of_nat (length (r_data src)))) with (N.of_nat (length out)) by lia.
             rewrite Nat2N.id, Hs. rewrite <- (Nat.add_0_r (length out)), firstn_app_exact. cbn. now rewrite app_nil_r.
          -- split; [reflexivity|discriminate].
        * inversion HW; subst. split; [exact Hsuf|]. split; [reflexivity|discriminate].
      + inversion HW; subst. split; [exact Hsuf|]. split; [reflexivity|discriminate].
      + inversion HW; subst. split; [exact Hsuf|]. split; [reflexivity|discriminate].
      + destruct Hres.
    - cbn [body_wire].
      destruct (copy_chunked piece_max src w1) as [[[cr out] r2] w2] eqn:Ec.
      destruct (delivered piece_max src) as [ps errored] eqn:Ed.
      destruct (copy_chunked_spec piece_max _ _ _ _ _ _ _ _ piece_max_ok Ec Ed) as (F & (suf & Hs) & Hres).
      unfold full_output in Hs.
      assert (Hsuf : exists suf0, head ++ concat (map chunk_of ps) ++ (if errored then [] else terminator) = (head ++ out) ++ suf0)
        by (exists suf; rewrite Hs; now rewrite <- app_assoc).
      destruct cr as [num| | |].
      + destruct Hres as (-> & -> & _).
        split; [unfold flush_res in HW; destruct (w_flush_ok w2); inversion HW; subst; exact Hsuf|].
        unfold flush_res in HW. destruct (w_flush_ok w2); inversion HW; subst.
        * exists (encode ps). split; [reflexivity|]. exists ps. auto.
        * split; [reflexivity|discriminate].
      + inversion HW; subst. split; [exact Hsuf|]. split; [reflexivity|discriminate].
      + inversion HW; subst. split; [exact Hsuf|]. split; [reflexivity|discriminate].
      + destruct Hres.
  Qed.

  (* a sound body source and a never-failing writer: Ok, and the wire is the one serialisation *)
  Lemma W_sound r close w : r_normal r = true -> collides r = false ->
    body_sound (r_body r) = true -> writer_errfree w = true ->
    exists w', W r close w = (None, full_wire r close, w') /\ writer_errfree w' = true.
  Proof.
    intros Hn Hc Hb Hw. pose proof (build_head_spec reason ct_text r close Hn) as H. rewrite Hc in H.
    unfold write_http_response, write_http_response_gen. rewrite H. clear H.
    unfold Response.full_wire. set (head := head_of r close) in *.
    destruct (write_all_errfree head w Hw) as (w1 & -> & Hw1). cbn [negb].
    assert (Hfl : forall w0, writer_errfree w0 = true -> flush_res w0 = None).
    { intros w0 H0. unfold writer_errfree in H0. apply andb_true_iff in H0 as [_ H0]. unfold flush_res. now rewrite H0. }
    destruct (r_body r) as [n open_ok src|src] eqn:Eb; cbn [body_sound] in Hb.
    - apply andb_true_iff in Hb as [Hb Hle]. apply andb_true_iff in Hb as [Ho Hr]. apply N.leb_le in Hle.
      cbn [body_wire]. destruct (N.eqb_spec n 0) as [->|Hn0].
      { cbn [orb]. exists w1. rewrite (Hfl w1 Hw1), app_nil_r. auto. }
      cbn [orb] in *. subst open_ok. cbn [negb].
      unfold copy_async_take, rd_fuel.
      assert (Hf : (length (r_data src) + length (r_sched src) < S (length (r_data src) + length (r_sched src)))%nat) by lia.
      destruct (copy_async_errfree copy_cap copy_cap_pos _ n src w1 0 Hr Hw1 Hf) as (r2 & w2 & -> & Hw2).
      replace (0 + N.min n (N.of_nat (length (r_data src)))) with n by lia. rewrite N.eqb_refl.
      exists w2. rewrite (Hfl w2 Hw2). cbn [body_payload]. auto.
    - cbn [body_wire].
      destruct (delivered_errfree piece_max (proj1 piece_max_ok) (rd_fuel src) src Hb) as (ps & HD & _).
      { unfold rd_fuel. lia. }
      fold (delivered piece_max src) in HD. rewrite HD.
      pose proof (source_error_iff piece_max src w1 ps false piece_max_ok Hw1 HD) as Hres.
      destruct (loop_errfree piece_max (rd_fuel src) src w1 writer_all 0 Hw1 eq_refl)
        as (res & out & r' & wa & wb & E1 & _ & _ & Hwa & _).
      fold (copy_chunked piece_max src w1) in E1. rewrite E1 in *. cbn [fst] in Hres. subst res.
      destruct (copy_chunked_spec piece_max _ _ _ _ _ _ _ _ piece_max_ok E1 HD) as (_ & _ & (_ & -> & _)).
      exists wa. rewrite (Hfl wa Hwa). unfold encode. auto.
  Qed.

  (* partial writes are invisible *)
  Lemma W_short_writes r close w : writer_errfree w = true ->
    fst (W r close w) = fst (W r close writer_all).
  Proof.
    intros Hw. unfold write_http_response, write_http_response_gen.
    destruct (build_head reason ct_text false r close) as [e|head]; [reflexivity|].
    destruct (write_all_errfree head w Hw) as (w1 & -> & Hw1).
    destruct (write_all_errfree head writer_all eq_refl) as (w2 & -> & Hw2). cbn [negb].
    assert (Hfl : forall w0, writer_errfree w0 = true -> flush_res w0 = None).
    { intros w0 H0. unfold writer_errfree in H0. apply andb_true_iff in H0 as [_ H0]. unfold flush_res. now rewrite H0. }
    destruct (r_body r) as [n open_ok src|src].
    - destruct (n =? 0); [now rewrite !Hfl|]. destruct open_ok; cbn [negb]; [|reflexivity].
      unfold copy_async_take.
      destruct (copy_async_short_writes copy_cap (rd_fuel src) n src w1 w2 0 Hw1 Hw2)
        as (res & out & r' & wa & wb & -> & -> & _ & Ha & Hb).
      destruct res; try reflexivity. destruct (n0 =? n); [now rewrite !Hfl|reflexivity].
    - unfold copy_chunked.
      destruct (loop_errfree piece_max (rd_fuel src) src w1 w2 0 Hw1 Hw2)
        as (res & out & r' & wa & wb & -> & -> & _ & Ha & Hb).
      destruct res; try reflexivity. now rewrite !Hfl.
  Qed.

  (* the round trip *)
  Lemma W_roundtrip r close w res wire w' : head_ok r = true -> collides r = false ->
    W r close w = (res, wire, w') -> res = None ->
    parse_response wire = Some (r_code r, all_fields r close, body_payload (r_body r), []) /\
    match body_len (r_body r) with Some n => N.of_nat (length (body_payload (r_body r))) = n | None => True end.
  Proof.
    intros Hh Hc HW ->. pose proof (head_ok_parts reason ct_text r Hh) as (Hn & _).
    destruct (W_general r close w None wire w' Hn Hc HW) as (_ & X & -> & HX).
    rewrite (parse_response_wire reason ct_text r close X Hh Hc).
    destruct (r_body r) as [n open_ok src|src] eqn:Eb; cbn [body_len].
    - destruct HX as (HX & Hlen).
      assert (E : take_n n X = Some (X, [])).
      { rewrite <- Hlen. pose proof (take_n_app X []) as T. now rewrite app_nil_r in T. }
      rewrite <- HX, E. auto.
    - destruct HX as (ps & HD & -> & F). rewrite <- (app_nil_r (encode ps)).
      rewrite (decode_chunks_encode piece_max) by (auto using piece_max_ok).
      cbn [body_payload]. rewrite HD. auto.
  Qed.

  Lemma oracle_c06_model r close w : writer_errfree w = true ->
    let '(res, wire, _) := W r close w in oracle_c06 reason ct_text r close res wire = true.
  Proof.
    intros Hw. destruct (W r close w) as [[res wire] w'] eqn:HW. unfold oracle_c06.
    destruct (r_normal r) eqn:Hn; cbn [negb].
    2:{ unfold write_http_response in HW. rewrite W_unwritable in HW by assumption. inversion HW; subst. reflexivity. }
    destruct (collides r) eqn:Hc.
    { destruct (W_refused r close w Hn Hc) as (e & E & Hd). rewrite E in HW. inversion HW; subst. now rewrite Hd. }
    destruct (W_general r close w res wire w' Hn Hc HW) as ((suf & Hs) & Hres).
    destruct res as [e|].
    - destruct Hres as (Hd & _). rewrite Hd. cbn [negb andb].
      destruct (body_sound (r_body r)) eqn:Hb.
      { destruct (W_sound r close w Hn Hc Hb Hw) as (w2 & E & _). rewrite E in HW. discriminate. }
      cbn [negb andb]. rewrite Hs. apply starts_with_app.
    - destruct (Response.head_ok reason ct_text r) eqn:Hh; [|reflexivity]. cbn [negb orb].
      destruct (W_roundtrip r close w None wire w' Hh Hc HW eq_refl) as (-> & Hlen).
      rewrite N.eqb_refl, hlist_beq_refl, beq_refl, (framing_count_all ct_text r close Hc). cbn [andb is_empty Nat.eqb].
      destruct (body_len (r_body r)); [|reflexivity]. now apply N.eqb_eq.
  Qed.
End WithTables3.

Section WithTables4.
  Variable reason : N -> bytes.
  Variable ct_text : nat -> bytes.
  Notation W := (write_http_response reason ct_text).

  (* a body source shorter than its declared length: everything it has is sent, then the error *)
  Lemma W_short_file r close w n src : r_normal r = true -> collides r = false ->
    r_body r = BKnown n true src -> reader_errfree src = true -> writer_errfree w = true ->
    N.of_nat (length (r_data src)) < n ->
    exists w', W r close w = (Some EShortBody, head_of reason ct_text r close ++ r_data src, w').
  Proof.
    intros Hn Hc Eb Hr Hw Hlt. pose proof (build_head_spec reason ct_text r close Hn) as H. rewrite Hc in H.
    unfold write_http_response, write_http_response_gen. rewrite H. clear H.
    destruct (write_all_errfree (head_of reason ct_text r close) w Hw) as (w1 & -> & Hw1). cbn [negb].
    rewrite Eb. replace (n =? 0) with false by (symmetry; apply N.eqb_neq; lia). cbn [negb].
    unfold copy_async_take, rd_fuel.
    assert (Hf : (length (r_data src) + length (r_sched src) < S (length (r_data src) + length (r_sched src)))%nat) by lia.
    destruct (copy_async_errfree copy_cap copy_cap_pos _ n src w1 0 Hr Hw1 Hf) as (r2 & w2 & -> & Hw2).
    replace (N.min n (N.of_nat (length (r_data src)))) with (N.of_nat (length (r_data src))) by lia.
    replace (0 + N.of_nat (length (r_data src)) =? n) with false by (symmetry; apply N.eqb_neq; lia).
    rewrite Nat2N.id, firstn_all. eauto.
  Qed.

  (* injectivity on the well-formed domain: equal wires come from equal code, fields and body *)
  Lemma W_injective r1 c1 w1 r2 c2 w2 wire w1' w2' :
    head_ok reason ct_text r1 = true -> collides r1 = false -> head_ok reason ct_text r2 = true -> collides r2 = false ->
    W r1 c1 w1 = (None, wire, w1') -> W r2 c2 w2 = (None, wire, w2') ->
    r_code r1 = r_code r2 /\ all_fields ct_text r1 c1 = all_fields ct_text r2 c2 /\
    body_payload (r_body r1) = body_payload (r_body r2).
  Proof.
    intros H1 C1 H2 C2 E1 E2.
    destruct (W_roundtrip reason ct_text r1 c1 w1 None wire w1' H1 C1 E1 eq_refl) as (P1 & _).
    destruct (W_roundtrip reason ct_text r2 c2 w2 None wire w2' H2 C2 E2 eq_refl) as (P2 & _).
    rewrite P1 in P2. inversion P2. auto.
  Qed.
End WithTables4.

(* ---------------------------------------------------------------- D6: the code before the repair *)
Definition d6_reason (_ : N) : bytes := [79; 75].      (* "OK" *)
Definition d6_ct (_ : nat) : bytes := [].
Definition d6_body : body := BKnown 2 true (mkReader [97; 98] []).
(* content-length added twice to a response with a known-length body *)
Definition d6_witness1 : response :=
  mkResponse true 200 CtNone [(s_content_length, [53]); (s_content_length, [53])] d6_body.
(* a user transfer-encoding on a known-length body *)
Definition d6_witness2 : response :=
  mkResponse true 200 CtNone [(s_transfer_encoding, s_chunked)] d6_body.

Definition emitted_framing_count (wire : bytes) : option nat :=
  match split_line wire with
  | Some (_, r1) => match parse_fields (S (length r1)) r1 with
                    | Some (fs, _) => Some (framing_count fs)
                    | None => None
                    end
  | None => None
  end.

Lemma d6_refuted :
  (* the repaired code refuses both, with nothing written *)
  write_http_response d6_reason d6_ct d6_witness1 false writer_all = (Some EDupContentLength, [], writer_all) /\
  write_http_response d6_reason d6_ct d6_witness2 false writer_all = (Some EDupTransferEncoding, [], writer_all) /\
  collides d6_witness1 = true /\ collides d6_witness2 = true /\
  (* the code before the repair writes them: three, resp. two framing fields on the wire *)
  fst (fst (write_http_response_prefix d6_reason d6_ct d6_witness1 false writer_all)) = None /\
  emitted_framing_count (snd (fst (write_http_response_prefix d6_reason d6_ct d6_witness1 false writer_all))) = Some 3%nat /\
  fst (fst (write_http_response_prefix d6_reason d6_ct d6_witness2 false writer_all)) = None /\
  emitted_framing_count (snd (fst (write_http_response_prefix d6_reason d6_ct d6_witness2 false writer_all))) = Some 2%nat.
Proof. vm_compute. repeat split; reflexivity. Qed.
