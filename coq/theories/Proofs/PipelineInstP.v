(* Proofs/PipelineInstP.v -- request-smuggling freedom for the CONCRETE head reader: the abstract
   hypothesis of c03_pipeline_roundtrip ("read_head inverts a renderer and returns exactly the rest")
   is discharged for Model/Head.v from the theorems of C01 (the fuelled loop equals head_spec) and
   C02 (parse o render = id), under the single hypothesis url_canonical about the url crate. *)
From SV Require Import Base.Bytes Base.BytesP Base.IO Model.Headers Proofs.HeadersP Model.RustStr
     Proofs.RustStrP Model.Request Spec.Framing Proofs.RequestP Proofs.StreamP Proofs.FramingP.
From SV Require Model.Head Spec.Rfc7230 Proofs.HeadP Proofs.HeadReadP Proofs.HeadClassifyP.
From SV Require Import Model.PipelineInst.

(* ------------------------------------------------------------------ generic: per-message renderings *)
Section GenRender.
  Variable head : Type.
  Variable h_method : head -> bytes.
  Variable h_headers : head -> hlist.
  Variable read_head : bytes -> option (head * bytes).
  Variable small : N.

  (* a parsed head, the bytes it was rendered to (terminator included), the body *)
  Definition rmsg := (head * bytes * bytes)%type.
  Definition rrender (m : rmsg) : bytes := snd (fst m) ++ snd m.
  Definition rframed (m : rmsg) : Prop :=
    (forall rest, read_head (snd (fst m) ++ rest) = Some (fst (fst m), rest)) /\
    values_fv (h_headers (fst (fst m))) = true /\
    spec_cookies (h_headers (fst (fst m))) <> None /\
    single_valid_length (h_headers (fst (fst m))) (nlen (snd m)) /\ nlen (snd m) <= small.
  Definition rexpected (m : rmsg) : msg_result head :=
    expected head h_method h_headers (fst (fst m), snd m).

  Lemma msg_spec_rframed m tail :
    rframed m ->
    msg_spec head h_method h_headers read_head small true true (rrender m ++ tail) = (rexpected m, tail, true).
  Proof.
    intros (Hrd & Hfv & Hck & Hsv & Hsm). destruct m as [[h hb] body]. cbn [fst snd] in *.
    unfold msg_spec, rrender. cbn [fst snd]. rewrite <- app_assoc, Hrd.
    change (request_of_head_gen true true) with request_of_head.
    rewrite (request_of_head_spec _ _ Hfv), (spec_request_length head h_method h_headers h _ Hsv Hck).
    unfold rexpected, expected. cbn [fst snd]. unfold expected_request at 1 2 3. cbn [rq_chunked rq_gzip rq_body].
    unfold spec_body. destruct body as [|x t].
    - reflexivity.
    - assert (nlen (x :: t) =? 0 = false) as -> by (apply N.eqb_neq; unfold nlen; cbn [length]; lia).
      assert (small <? nlen (x :: t) = false) as -> by (apply N.ltb_ge; lia).
      assert (nlen ((x :: t) ++ tail) <? nlen (x :: t) = false) as ->
        by (apply N.ltb_ge; unfold nlen; rewrite app_length; lia).
      cbn [orb]. now rewrite ntake_app_len, nskip_app_len.
  Qed.

  Lemma pipeline_spec_rroundtrip msgs : forall tail,
    Forall rframed msgs ->
    pipeline_spec head h_method h_headers read_head small true true (length msgs) (flat_map rrender msgs ++ tail)
    = (map rexpected msgs, tail).
  Proof.
    induction msgs as [|m t IH]; intros tail Hall; [reflexivity|].
    inversion Hall as [|? ? Hm Ht]; subst. cbn [length flat_map map pipeline_spec].
    rewrite <- app_assoc, (msg_spec_rframed m _ Hm). now rewrite (IH tail Ht).
  Qed.
End GenRender.

(* ------------------------------------------------------------------ the concrete reader *)
Section Conc.
  Variable url_parse : bytes -> option (bytes * option bytes).
  (* the one external hypothesis, exactly as C02 states it *)
  Hypothesis url_canonical :
    forall t, Rfc7230.canonical_target t = true -> url_parse t = Some (Rfc7230.path_of t, Rfc7230.query_of t).
  Variable cap : nat.
  Variable small : N.

  Notation rhc := (read_head_conc url_parse cap).

  (* C02 (parse o render = id) + C01 (exact consumption, window): the schedule-free concrete reader
     inverts the reference renderer on every rendering that fits the buffer *)
  Lemma read_head_conc_render m t fs rest :
    is_token m = true -> Rfc7230.canonical_target t = true -> forallb Rfc7230.field_ok fs = true ->
    (length (Rfc7230.render_head m t fs) + 4 <= cap)%nat ->
    rhc (Rfc7230.render_head m t fs ++ Head.crlf2 ++ rest)
    = Some (Head.mk_head m t (Rfc7230.path_of t) (Rfc7230.query_of t) (map Rfc7230.field_pair fs), rest).
  Proof.
    intros Hm Ht Hfs Hcap.
    set (data := Rfc7230.render_head m t fs ++ Head.crlf2 ++ rest).
    destruct (HeadClassifyP.parse_render_roundtrip url_parse url_canonical 0 m t fs rest Hm Ht Hfs)
      as (b' & Htr & Hrest).
    fold data in Htr. unfold Head.try_read in Htr.
    destruct (find_slice Head.crlf2 data) as [n|] eqn:F.
    - destruct (HeadP.try_read_some url_parse true true (Head.mk_fbuf 0 data) n F) as (b'' & Htr' & Hd & _).
      cbn [Head.fb_data] in Htr', Hd. rewrite Htr in Htr'. injection Htr' as Hph Hb. subst b''.
      pose proof (HeadP.find_slice_len _ _ _ F) as L. change (length Head.crlf2) with 4%nat in L.
      assert (n = length (Rfc7230.render_head m t fs)) as Hn.
      { assert (length (skipn (n + 4) data) = length rest) as E by (now rewrite <- Hd, Hrest).
        rewrite skipn_length in E. unfold data in E, L. rewrite !app_length in E, L.
        change (length Head.crlf2) with 4%nat in E, L. lia. }
      unfold read_head_conc, Head.head_spec.
      rewrite (HeadReadP.spec_found url_parse true true cap (Head.mk_fbuf 0 []) data n F)
        by (cbn [Head.fb_rd]; lia).
      cbn [Head.fb_data app]. rewrite <- Hph. rewrite <- Hd, Hrest. reflexivity.
    - rewrite (HeadP.try_read_none url_parse true true (Head.mk_fbuf 0 data) F) in Htr. discriminate.
  Qed.

  Lemma field_ok_values_fv fs :
    forallb Rfc7230.field_ok fs = true -> values_fv (map Rfc7230.field_pair fs) = true.
  Proof.
    unfold values_fv. rewrite !forallb_forall. intros H h Hh. apply in_map_iff in Hh.
    destruct Hh as [f [<- Hf]]. specialize (H f Hf). unfold Rfc7230.field_ok, Rfc7230.is_field_value in H.
    cbn [Rfc7230.field_pair snd]. repeat (apply andb_true_iff in H; destruct H as [H ?]).
    match goal with X : forallb is_fv_byte _ && _ = true |- _ => apply andb_true_iff in X; tauto end.
  Qed.

  Definition rmsg_of (c : cmsg) : rmsg Head.head := (chead c, c_head_bytes c ++ Head.crlf2, c_body c).

  Lemma cframed_rframed c :
    cframed cap small c -> rframed Head.head Head.h_headers rhc small (rmsg_of c).
  Proof.
    intros (Hm & Ht & Hfs & Hcap & Hck & Hte & Hcl & Hsm). unfold rframed, rmsg_of. cbn [fst snd].
    unfold chead. cbn [Head.h_headers].
    split; [intros rest; rewrite <- app_assoc; apply read_head_conc_render; assumption|].
    split; [now apply field_ok_values_fv|].
    split; [assumption|]. split; [split; assumption|assumption].
  Qed.

  Lemma rrender_of c : rrender Head.head (rmsg_of c) = crender c.
  Proof. unfold rrender, rmsg_of, crender. cbn [fst snd]. now rewrite <- app_assoc. Qed.

  Lemma rexpected_of c : rexpected Head.head Head.h_method Head.h_headers (rmsg_of c) = cexpected c.
  Proof. reflexivity. Qed.

  Lemma conc_spec_roundtrip msgs tail :
    Forall (cframed cap small) msgs ->
    pipeline_spec Head.head Head.h_method Head.h_headers rhc small true true (length msgs)
                  (flat_map crender msgs ++ tail)
    = (map cexpected msgs, tail).
  Proof.
    intros Hall.
    pose proof (pipeline_spec_rroundtrip Head.head Head.h_method Head.h_headers rhc small
                                         (map rmsg_of msgs) tail) as H.
    rewrite map_length, map_map in H.
    assert (flat_map (rrender Head.head) (map rmsg_of msgs) = flat_map crender msgs) as E.
    { clear. induction msgs as [|c t IH]; [reflexivity|]. cbn [map flat_map]. now rewrite IH, rrender_of. }
    rewrite E in H. rewrite H.
    - reflexivity.
    - apply Forall_forall. intros r Hr. apply in_map_iff in Hr. destruct Hr as [c [<- Hc]].
      apply cframed_rframed. rewrite Forall_forall in Hall. now apply Hall.
  Qed.

  (* (1) the abstract loop of Model/Request.v instantiated with the schedule-free concrete reader *)
  Theorem pipeline_roundtrip_head_spec msgs tail buf stream splits scheds :
    Forall (cframed cap small) msgs -> buf ++ stream = flat_map crender msgs ++ tail ->
    fst (pipeline Head.head Head.h_method Head.h_headers rhc small true true (length msgs) buf stream splits scheds)
    = map cexpected msgs /\
    fst (snd (pipeline Head.head Head.h_method Head.h_headers rhc small true true (length msgs) buf stream splits scheds)) ++
    snd (snd (pipeline Head.head Head.h_method Head.h_headers rhc small true true (length msgs) buf stream splits scheds))
    = tail.
  Proof.
    intros Hall Hd.
    pose proof (pipeline_abs Head.head Head.h_method Head.h_headers rhc small true true (length msgs)
                             buf stream splits scheds) as H.
    rewrite Hd, (conc_spec_roundtrip msgs tail Hall) in H. injection H as H1 H2. split; assumption.
  Qed.

  (* ---- (2) the fuelled loop itself ---- *)
  Lemma body_step_is_msg_step h b s sched :
    body_step small h b s sched =
    msg_step Head.head Head.h_method Head.h_headers (fun _ => Some (h, b ++ s)) small true true
             [] [] (length b) sched.
  Proof.
    unfold body_step, msg_step.
    rewrite HeadReadP.firstn_app_le by lia. rewrite firstn_all.
    rewrite skipn_app, skipn_all, Nat.sub_diag. cbn [skipn app]. reflexivity.
  Qed.

  Lemma body_step_abs h b s sched :
    abs3 Head.head (body_step small h b s sched) =
    match request_of_head (Head.h_method h) (Head.h_headers h) with
    | QErr e => (MErr h e, b ++ s, false)
    | QOk r =>
        let '(br, lft, cont) := spec_body small (rq_chunked r) (rq_gzip r) (rq_body r) (b ++ s) in
        (MReq h r br, lft, cont)
    end.
  Proof. rewrite body_step_is_msg_step, msg_step_spec. reflexivity. Qed.

  Lemma body_step_left_suffix h b s sched :
    exists k, fst (snd (fst (body_step small h b s sched))) = skipn k b.
  Proof.
    unfold body_step. destruct (request_of_head (Head.h_method h) (Head.h_headers h)) as [r|e];
      [|exists 0%nat; reflexivity].
    destruct (rq_body r) as [|n|]; [exists 0%nat; reflexivity| |].
    - destruct (small <? n); [exists 0%nat; reflexivity|].
      unfold read_body_to_vec. destruct (rq_chunked r || rq_gzip r); [exists 0%nat; reflexivity|].
      rewrite read_limited_some by lia.
      destruct (nlen _ <? n); cbn [fst snd]; eexists; reflexivity.
    - unfold read_body_to_vec. destruct (rq_chunked r || rq_gzip r); [exists 0%nat; reflexivity|].
      rewrite read_limited_none by lia. cbn [fst snd]. exists (length b). now rewrite skipn_all.
  Qed.

  Lemma fbuf_after_body_wf b' k :
    Head.fb_wf cap b' -> Head.fb_wf cap (fbuf_after_body b' (skipn k (Head.fb_data b'))).
  Proof.
    unfold Head.fb_wf, fbuf_after_body. intros H.
    destruct (skipn k (Head.fb_data b')) as [|x l] eqn:E; cbn [Head.fb_rd Head.fb_data length]; [lia|].
    assert (length (skipn k (Head.fb_data b')) = S (length l)) as L by (now rewrite E).
    rewrite skipn_length in L. lia.
  Qed.

  Lemma fbuf_after_body_data b' l : Head.fb_data (fbuf_after_body b' l) = l.
  Proof. unfold fbuf_after_body. destruct l; reflexivity. Qed.

  (* every head read by the fuelled loop, under any schedule, from any well-formed buffer state:
     the whole concrete loop abstracts to the schedule-free specification *)
  Lemma conc_pipeline_abs n : forall fuel b s scheds,
    Head.fb_wf cap b -> (cap + 2 <= fuel)%nat ->
    (fst (conc_pipeline url_parse cap small n fuel b s scheds),
     fst (snd (conc_pipeline url_parse cap small n fuel b s scheds)) ++
     snd (snd (conc_pipeline url_parse cap small n fuel b s scheds)))
    = pipeline_spec Head.head Head.h_method Head.h_headers rhc small true true n
                    (Head.fb_data b ++ in_bytes s).
  Proof.
    induction n as [|n IH]; intros fuel b s scheds Hwf Hf; cbn [conc_pipeline pipeline_spec]; [reflexivity|].
    pose proof (HeadReadP.read_request_head_spec url_parse true true cap fuel b s Hwf Hf) as A.
    pose proof (HeadReadP.read_head_wf url_parse true true cap fuel (Head.fb_shift b) s
                                       (HeadReadP.shift_wf cap b Hwf)) as W.
    unfold Head.read_request_head. unfold Head.read_request_head_gen in A |- *.
    unfold msg_spec at 1. unfold read_head_conc at 1. unfold Head.head_spec.
    change (Head.head_spec_gen url_parse true true cap (Head.mk_fbuf 0 []) (Head.fb_data b ++ in_bytes s))
      with (Head.head_spec_gen url_parse true true cap (Head.mk_fbuf 0 (Head.fb_data b)) (in_bytes s)).
    destruct (Head.read_head_gen url_parse true true cap fuel (Head.fb_shift b) s) as [h b' s'|e b' s'| |];
      cbn [Head.abstract] in A; try discriminate; injection A as A; rewrite <- A; try reflexivity.
    change (request_of_head_gen true true) with request_of_head.
    pose proof (body_step_abs h (Head.fb_data b') (in_bytes s') (hd [] scheds)) as B.
    destruct (body_step_left_suffix h (Head.fb_data b') (in_bytes s') (hd [] scheds)) as [k Hk].
    destruct (body_step small h (Head.fb_data b') (in_bytes s') (hd [] scheds)) as [[m [bb ss]] cont].
    unfold abs3 in B. cbn [fst snd] in B, Hk.
    destruct (request_of_head (Head.h_method h) (Head.h_headers h)) as [r|e].
    - destruct (spec_body small (rq_chunked r) (rq_gzip r) (rq_body r) (Head.fb_data b' ++ in_bytes s'))
        as [[br lft] cont'].
      injection B as -> Hbs ->. destruct cont'; [|cbn [fst snd]; now rewrite Hbs].
      cbn [fst snd]. subst bb.
      specialize (IH fuel (fbuf_after_body b' (skipn k (Head.fb_data b')))
                     (mk_in ss (in_sched s') (in_err s')) (tl scheds)
                     (fbuf_after_body_wf b' k W) Hf).
      rewrite fbuf_after_body_data in IH. cbn [in_bytes] in IH. rewrite Hbs in IH.
      destruct (conc_pipeline url_parse cap small n fuel _ _ (tl scheds)) as [ms [fb fs']].
      cbn [fst snd] in IH |- *. rewrite <- IH. reflexivity.
    - injection B as -> Hbs ->. cbn [fst snd]. now rewrite Hbs.
  Qed.

  (* Request-smuggling freedom for the concrete reader: every list of well-formed Content-Length-
     framed messages whose heads are renderings that fit the buffer, any tail, any well-formed initial
     buffer state, any split of the bytes between buffer and socket, any read schedule of the socket,
     any body-read schedules, sufficient fuel: reading |msgs| messages yields exactly the messages
     and leaves exactly the tail. *)
  Theorem conc_pipeline_roundtrip msgs tail fuel b s scheds :
    Forall (cframed cap small) msgs ->
    Head.fb_wf cap b -> (cap + 2 <= fuel)%nat ->
    Head.fb_data b ++ in_bytes s = flat_map crender msgs ++ tail ->
    fst (conc_pipeline url_parse cap small (length msgs) fuel b s scheds) = map cexpected msgs /\
    fst (snd (conc_pipeline url_parse cap small (length msgs) fuel b s scheds)) ++
    snd (snd (conc_pipeline url_parse cap small (length msgs) fuel b s scheds)) = tail.
  Proof.
    intros Hall Hwf Hf Hd.
    pose proof (conc_pipeline_abs (length msgs) fuel b s scheds Hwf Hf) as H.
    rewrite Hd, (conc_spec_roundtrip msgs tail Hall) in H. injection H as H1 H2. split; assumption.
  Qed.
End Conc.
