(* Proofs/EventChunkP.v -- the chunk framing used by the event-stream model (Model/Event.v, written with
   / and mod) is the chunk framing of the chunked-encoder model (Model/Chunked.v, written with shifts and
   masks as in src/util.rs), so everything C07 proves about chunk_of holds of C11's encode_piece. *)
From Coq Require Import List NArith Bool Lia.
From SV Require Import Base.Bytes Model.IOSched Model.Chunked.
From SV Require Model.Event.
Import ListNotations.
Open Scope N_scope.

Lemma land15 n : N.land n 15 = n mod 16.
Proof. change 15 with (N.ones 4). rewrite N.land_ones. reflexivity. Qed.

Lemma hex4_eq n : Event.hex4 n = hex4 n.
Proof.
  unfold Event.hex4, hex4, Event.hexd, hex_digit.
  rewrite !land15, !N.shiftr_div_pow2.
  change (2 ^ 12) with 4096. change (2 ^ 8) with 256. change (2 ^ 4) with 16. reflexivity.
Qed.

Lemma trim0_eq l : Event.trim0 l = trim_prefix0 l.
Proof.
  induction l as [|c t IH]; [reflexivity|].
  cbn [Event.trim0 trim_prefix0]. destruct (N.eqb_spec c 48) as [->|Hc].
  - exact IH.
  - destruct c as [|p]; [reflexivity|].
    do 6 (destruct p as [p|p|]; try reflexivity); exfalso; apply Hc; reflexivity.
Qed.

Lemma encode_piece_is_chunk_of p : Event.encode_piece p = chunk_of p.
Proof. unfold Event.encode_piece, chunk_of. now rewrite hex4_eq, trim0_eq. Qed.

Lemma terminator_eq : Event.terminator = terminator.
Proof. reflexivity. Qed.
