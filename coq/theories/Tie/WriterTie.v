(* Tie/WriterTie.v -- the body of the log file writer's loop (src/log/log_file_writer.rs, the `for event in receiver`
   block of start_writer_thread) as TRANSLATED statement by statement on this run (Generated/SourceParams.v:
   src_writer_loop), interpreted over the model's writer state, is Model/LogFile.v's [step] for every state, event,
   configuration, build profile and tie schedule.  What the tie fixes: the ORDER of the duties (rotate, delete by age,
   delete by size, append), the rotation condition (strict >, file length PLUS the event), the clock used (one
   SystemTime::now() per event, also for the pushed entry's mtime), the fields of the pushed entry, and the deletion
   budget expression.  Also: the name format of LogFile::create is Model/Time.v's fmt_compact, and the builder
   defaults. *)
From Coq Require Import List NArith ZArith Bool Lia.
From SV Require Import Base.Bytes Base.SrcAst Spec.Civil Model.Time Model.LogFile Tie.FmtEval Generated.SourceParams.
Import ListNotations.
Open Scope N_scope.

Lemma writer_translated : src_problems_writer = 0%nat.
Proof. reflexivity. Qed.

(* what the statements executed so far have established *)
Record wenv := mkWenv { has_buf : bool; has_now : bool }.

Section Interp.
  Variables (v : variant) (m : mode) (cfg : config) (ev : line).
  (* the event's serialisation has l_size ev bytes; the clock reading of this iteration is l_time ev *)

  Fixpoint eval_wexpr (w : wstate) (e : wexpr) : option N :=
    match e with
    | WFileLen => Some (w_len w)
    | WBufLen => Some (l_size ev)
    | WMaxWriteBytes => Some (max_write_bytes cfg)
    | WMaxKeepBytes => Some (max_keep_bytes cfg)
    | WMaxWriteAge => Some (max_write_age cfg)
    | WFileAgeNow => Some (l_time ev - w_created w)
    | WAdd a b => match eval_wexpr w a, eval_wexpr w b with Some x, Some y => add64 m x y | _, _ => None end
    | WSatSub a b => match eval_wexpr w a, eval_wexpr w b with Some x, Some y => Some (sat_sub x y) | _, _ => None end
    end.
  (* None = an operand panicked (u64 overflow in a debug build); `||` evaluates its right side only if needed *)
  Fixpoint eval_wcond (w : wstate) (c : wcond) : option bool :=
    match c with
    | WGt a b => match eval_wexpr w a, eval_wexpr w b with Some x, Some y => Some (y <? x) | _, _ => None end
    | WOr a b => match eval_wcond w a with
                 | Some true => Some true
                 | Some false => eval_wcond w b
                 | None => None
                 end
    end.
  Definition pf_eqb (a b : push_field) : bool :=
    match a, b with
    | PFPathFilePath, PFPathFilePath | PFMtimeNow, PFMtimeNow | PFLenFileLen, PFLenFileLen => true
    | _, _ => false
    end.
  (* PrefixFile { path: file.path.clone(), mtime: now, len: file.len } in any order of the three fields *)
  Definition fields_ok (fl : list push_field) : bool :=
    (length fl =? 3)%nat && existsb (pf_eqb PFPathFilePath) fl && existsb (pf_eqb PFMtimeNow) fl &&
    existsb (pf_eqb PFLenFileLen) fl.

  (* a statement that uses the buffer before it was rendered, or `now` before it was read, does not compile: RPanic
     stands for that too (the tie theorem shows it does not occur for the translated body) *)
  Definition eval_wstmt (st : wstmt) (s : wenv * wstate) : res (wenv * wstate) :=
    let '(e, w) := s in
    let now := l_time ev in
    match st with
    | WSRender => ROk (mkWenv true (has_now e), w)
    | WSNow => ROk (mkWenv (has_buf e) true, w)
    | WSRotateIf c fl =>
        if has_buf e && has_now e && fields_ok fl then
          match eval_wcond w c with
          | None => RPanic
          | Some false => ROk (e, w)
          | Some true =>
              match push v m (mkPfile (w_cur w) now (w_len w)) (w_set w) with
              | ROk st' =>
                  match create (ticks_per_sec cfg) now (w_fs w) with
                  | Some (nm, fs') => ROk (e, mkW fs' st' nm 0 now)
                  | None => RPanic
                  end
              | _ => RPanic
              end
          end
        else RPanic
    | WSDeleteOlderIfKeepAge =>
        if has_now e then
          match max_keep_age cfg with
          | Some d => bind (lift_set w (delete_older_than v m now d (w_fs w, w_set w))) (fun w' => ROk (e, w')) (fun w' => (e, w'))
          | None => ROk (e, w)
          end
        else RPanic
    | WSDeleteWhileOver x =>
        if has_buf e then
          match eval_wexpr w x with
          | None => RPanic
          | Some b => bind (lift_set w (while_over v m b (w_fs w, w_set w))) (fun w' => ROk (e, w')) (fun w' => (e, w'))
          end
        else RPanic
    | WSWriteBuffer =>
        if has_buf e then bind (phase_append m ev w) (fun w' => ROk (e, w')) (fun w' => (e, w')) else RPanic
    | WSClearBuffer => ROk (mkWenv false (has_now e), w)
    end.

  Fixpoint eval_wbody (body : list wstmt) (s : wenv * wstate) : res (wenv * wstate) :=
    match body with
    | [] => ROk s
    | st :: rest => bind (eval_wstmt st s) (eval_wbody rest) (fun x => x)
    end.
  (* one iteration: the buffer is empty when it starts and must be empty again when it ends *)
  Definition eval_iteration (body : list wstmt) (w : wstate) : res wstate :=
    match eval_wbody body (mkWenv false false, w) with
    | ROk (e, w') => if has_buf e then RPanic else ROk w'
    | RErr (e, w') => RErr w'
    | RPanic => RPanic
    end.
End Interp.

Lemma lift_set_never_err w r : forall x, lift_set w r <> RErr x.
Proof. intros x. destruct r as [[fs st]| |]; discriminate. Qed.

Ltac red_w := cbn [bind eval_wbody eval_wstmt has_buf has_now eval_wexpr eval_wcond andb orb fields_ok length Nat.eqb
                     existsb pf_eqb].

Theorem writer_loop_tie : forall b18 m cfg w ev,
  eval_iteration (post b18) m cfg ev src_writer_loop w = step (post b18) m cfg w ev.
Proof.
  intros b18 m cfg w ev. unfold eval_iteration, src_writer_loop, step, phase_rotate.
  cbn [eval_wbody eval_wstmt bind has_buf has_now andb fields_ok length Nat.eqb existsb pf_eqb orb
       eval_wcond eval_wexpr].
  destruct (add64 m (w_len w) (l_size ev)) as [s|]; cbn [bind]; [|reflexivity].
  assert (Hdel : forall w1 : wstate,
    bind (match max_keep_age cfg with
          | Some d => bind (lift_set w1 (delete_older_than (post b18) m (l_time ev) d (w_fs w1, w_set w1)))
                           (fun w' => ROk (mkWenv true true, w')) (fun w' => (mkWenv true true, w'))
          | None => ROk (mkWenv true true, w1)
          end)
         (eval_wbody (post b18) m cfg ev
            [WSDeleteWhileOver (WSatSub (WSatSub WMaxKeepBytes WFileLen) WBufLen); WSWriteBuffer; WSClearBuffer])
         (fun x => x)
    = match bind (phase_delete (post b18) m cfg ev w1) (fun w2 => phase_append m ev w2) (fun x => x) with
      | ROk w' => ROk (mkWenv false true, w')
      | RErr w' => RErr (mkWenv true true, w')
      | RPanic => RPanic
      end).
  { intros w1. unfold phase_delete, budget. cbn [post v_sat_budget].
    destruct (max_keep_age cfg) as [d|]; cbn [bind].
    - destruct (lift_set w1 (delete_older_than (post b18) m (l_time ev) d (w_fs w1, w_set w1))) as [w2|w2|] eqn:E1;
        cbn [bind]; [| exfalso; exact (lift_set_never_err _ _ _ E1) | reflexivity].
      cbn [eval_wbody eval_wstmt has_buf has_now eval_wexpr bind].
      destruct (lift_set w2 (while_over (post b18) m (sat_sub (sat_sub (max_keep_bytes cfg) (w_len w2)) (l_size ev)) (w_fs w2, w_set w2)))
        as [w3|w3|] eqn:E2; red_w; [| exfalso; exact (lift_set_never_err _ _ _ E2) | reflexivity].
      destruct (phase_append m ev w3) as [w4|w4|]; red_w; reflexivity.
    - cbn [eval_wbody eval_wstmt has_buf has_now eval_wexpr bind].
      destruct (lift_set w1 (while_over (post b18) m (sat_sub (sat_sub (max_keep_bytes cfg) (w_len w1)) (l_size ev)) (w_fs w1, w_set w1)))
        as [w3|w3|] eqn:E2; red_w; [| exfalso; exact (lift_set_never_err _ _ _ E2) | reflexivity].
      destruct (phase_append m ev w3) as [w4|w4|]; red_w; reflexivity. }
  destruct (max_write_bytes cfg <? s) eqn:E1; cbn [orb].
  - destruct (push (post b18) m (mkPfile (w_cur w) (l_time ev) (w_len w)) (w_set w)) as [st'|st'|]; cbn [bind]; try reflexivity.
    destruct (create (ticks_per_sec cfg) (l_time ev) (w_fs w)) as [[nm fs']|]; cbn [bind]; [|reflexivity].
    cbn [eval_wbody eval_wstmt has_buf has_now]. rewrite Hdel.
    destruct (bind (phase_delete (post b18) m cfg ev (mkW fs' st' nm 0 (l_time ev))) (fun w2 => phase_append m ev w2) (fun x => x)); reflexivity.
  - destruct (max_write_age cfg <? l_time ev - w_created w) eqn:E2.
    + destruct (push (post b18) m (mkPfile (w_cur w) (l_time ev) (w_len w)) (w_set w)) as [st'|st'|]; cbn [bind]; try reflexivity.
      destruct (create (ticks_per_sec cfg) (l_time ev) (w_fs w)) as [[nm fs']|]; cbn [bind]; [|reflexivity].
      cbn [eval_wbody eval_wstmt has_buf has_now]. rewrite Hdel.
      destruct (bind (phase_delete (post b18) m cfg ev (mkW fs' st' nm 0 (l_time ev))) (fun w2 => phase_append m ev w2) (fun x => x)); reflexivity.
    + cbn [bind eval_wbody eval_wstmt has_buf has_now]. rewrite Hdel.
      destruct (bind (phase_delete (post b18) m cfg ev w) (fun w2 => phase_append m ev w2) (fun x => x)); reflexivity.
Qed.

(* the whole thread body: `for event in receiver { <translated body> }` is the model's run_events, so every theorem of
   Properties/C19.v about run_events / run_one / run_history is a theorem about the loop as it is written in the
   source today *)
Fixpoint run_events_src (v : variant) (m : mode) (cfg : config) (w : wstate) (evs : list line) : res wstate :=
  match evs with
  | [] => ROk w
  | ev :: t => bind (eval_iteration v m cfg ev src_writer_loop w) (fun w' => run_events_src v m cfg w' t) (fun x => x)
  end.
Theorem writer_thread_tie : forall b18 m cfg evs w,
  run_events_src (post b18) m cfg w evs = run_events (post b18) m cfg w evs.
Proof.
  intros b18 m cfg evs. induction evs as [|ev t IH]; intros w; [reflexivity|].
  cbn [run_events_src run_events]. rewrite writer_loop_tie.
  destruct (step (post b18) m cfg w ev) as [w'|w'|]; cbn [bind]; [apply IH|reflexivity|reflexivity].
Qed.

(* ---------------------------------------------------------------- LogFile::create: the name *)
(* format!(".{:04}{:02}{:02}T{:02}{:02}{:02}Z-{n}", dt.year, dt.month, dt.day, dt.hour, dt.min, dt.sec):
   positional arguments named f1..f6 by the translator *)
Definition name_env (t : dt) (n : N) (name : list N) (w : N) : option (list N) :=
  if beq name [102;49] then Some (fmt_int (N.to_nat w) (year t)) else
  if beq name [102;50] then Some (fmt_int (N.to_nat w) (month t)) else
  if beq name [102;51] then Some (fmt_int (N.to_nat w) (day t)) else
  if beq name [102;52] then Some (fmt_int (N.to_nat w) (hour t)) else
  if beq name [102;53] then Some (fmt_int (N.to_nat w) (minute t)) else
  if beq name [102;54] then Some (fmt_int (N.to_nat w) (sec t)) else
  if beq name [110] then (if w =? 0 then Some (dec n) else None) else None.
Theorem logfile_name_tie : forall t n,
  eval_fmt (name_env t n) src_logfile_name_fmt = Some (46 :: fmt_compact t ++ 45 :: dec n).
Proof.
  intros t n. unfold fmt_compact.
  lazy -[app fmt_int dec]. repeat (rewrite <- app_assoc || rewrite <- app_comm_cons). cbn [app]. rewrite ?app_nil_r. reflexivity.
Qed.

(* ---------------------------------------------------------------- builder defaults *)
Theorem writer_defaults_tie :
  src_default_max_write_age_secs = 86400 /\ src_default_max_write_bytes = 10485760 /\ src_min_max_write_bytes = 65536.
Proof. repeat split. Qed.
