(* Tie/HeadTie.v -- Head::try_read (src/head.rs) after read_head_bytes, as TRANSLATED statement by statement on this
   run (Generated/SourceParams.v: src_try_read), interpreted with its local variables (head, lines, request_line,
   (method, url), headers), is Model/Head.v's parse_head for every head; and the literals of the two line parsers
   (the field-value byte test, the first character demanded of the target, the protocol text) are the model's. *)
From Coq Require Import List NArith Bool.
From SV Require Import Base.Bytes Base.SrcAst Model.Headers Model.Head Generated.SourceParams.
Import ListNotations.
Open Scope N_scope.

Lemma try_read_translated : src_problems_try_read = 0%nat.
Proof. reflexivity. Qed.

Lemma fv_byte_tie : forall b, is_fv_byte b = ((b =? src_fv_tab) || in_range src_fv_lo src_fv_hi b).
Proof. reflexivity. Qed.
Lemma target_first_tie : src_target_first = [47].
Proof. reflexivity. Qed.
Lemma protocol_tie : src_protocol = http11.
Proof. reflexivity. Qed.

Section Interp.
Variable url_parse : bytes -> option (bytes * option bytes).
Notation prl := (parse_request_line url_parse).
Notation phl := (parse_header_line true true).

Record tst := mk_tst {
  t_head : option bytes;
  t_lines : option (list bytes);                  (* the iterator: what it has not yielded yet *)
  t_first : option bytes;
  t_rl : option (bytes * bytes * bytes * option bytes);
  t_headers : option hlist
}.
Inductive tflow := TRet (r : res head) | TGo (s : tst).

(* for line in lines { let header = parse_header_line(line)?; headers.push(header); } *)
Fixpoint for_lines (lines : list bytes) (acc : hlist) : res hlist :=
  match lines with
  | [] => Ok acc
  | l :: t => match phl l with Ok h => for_lines t (acc ++ [h]) | Err e => Err e | Panic => Panic end
  end.

Definition eval_tr_stmt (hb : bytes) (st : tr_stmt) (s : tst) : tflow :=
  match st with
  | TRReadHeadBytes => TGo (mk_tst (Some hb) (t_lines s) (t_first s) (t_rl s) (t_headers s))
  | TRSplitLinesTrimCr sep =>
      match t_head s with
      | Some h => TGo (mk_tst (t_head s) (Some (map trim_trailing_cr (split_on sep h))) (t_first s) (t_rl s) (t_headers s))
      | None => TRet Panic
      end
  | TRFirstLineOr ok_name =>
      match t_lines s with
      | Some [] => TRet (if ok_name then Err HE_MissingRequestLine else Panic)
      | Some (l :: rest) => TGo (mk_tst (t_head s) (Some rest) (Some l) (t_rl s) (t_headers s))
      | None => TRet Panic
      end
  | TRParseRequestLine =>
      match t_first s with
      | Some l =>
          match prl l with
          | Ok x => TGo (mk_tst (t_head s) (t_lines s) (t_first s) (Some x) (t_headers s))
          | Err e => TRet (Err e)
          | Panic => TRet Panic
          end
      | None => TRet Panic
      end
  | TRNewHeaders => TGo (mk_tst (t_head s) (t_lines s) (t_first s) (t_rl s) (Some []))
  | TRForLinesParsePush =>
      match t_lines s, t_headers s with
      | Some lines, Some acc =>
          match for_lines lines acc with
          | Ok hs => TGo (mk_tst (t_head s) (Some []) (t_first s) (t_rl s) (Some hs))
          | Err e => TRet (Err e)
          | Panic => TRet Panic
          end
      | _, _ => TRet Panic
      end
  | TROkSelf =>
      match t_rl s, t_headers s with
      | Some (m, t, p, q), Some hs => TRet (Ok (mk_head m t p q hs))
      | _, _ => TRet Panic
      end
  end.
Fixpoint eval_tr_stmts (hb : bytes) (l : list tr_stmt) (s : tst) : res head :=
  match l with
  | [] => Panic
  | st :: rest => match eval_tr_stmt hb st s with TRet r => r | TGo s' => eval_tr_stmts hb rest s' end
  end.
Definition eval_try_read (hb : bytes) : res head := eval_tr_stmts hb src_try_read (mk_tst None None None None None).

Lemma for_lines_spec lines : forall acc,
  for_lines lines acc = match parse_header_lines true true lines with
                        | Ok hs => Ok (acc ++ hs) | Err e => Err e | Panic => Panic end.
Proof.
  induction lines as [|l t IH]; intros acc; cbn [for_lines parse_header_lines]; [now rewrite app_nil_r|].
  destruct (phl l) as [h|e|]; try reflexivity.
  rewrite IH. destruct (parse_header_lines true true t) as [hs|e|]; try reflexivity.
  now rewrite <- app_assoc.
Qed.

Theorem try_read_tie : forall hb, eval_try_read hb = parse_head url_parse hb.
Proof.
  intros hb. unfold eval_try_read, src_try_read, parse_head, parse_head_gen.
  cbn [eval_tr_stmts eval_tr_stmt t_head t_lines t_first t_rl t_headers].
  destruct (map trim_trailing_cr (split_on 10 hb)) as [|rl lines]; [reflexivity|].
  cbn [eval_tr_stmts eval_tr_stmt t_head t_lines t_first t_rl t_headers].
  destruct (prl rl) as [[[[m t] p] q]|e|]; try reflexivity.
  cbn [eval_tr_stmts eval_tr_stmt t_head t_lines t_first t_rl t_headers].
  rewrite for_lines_spec. destruct (parse_header_lines true true lines) as [hs|e|]; reflexivity.
Qed.
End Interp.
