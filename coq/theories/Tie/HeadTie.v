(* Tie/HeadTie.v -- Head::try_read (src/head.rs) after read_head_bytes, as TRANSLATED statement by statement on this
   run (Generated/SourceParams.v: src_try_read), interpreted with its local variables (head, lines, request_line,
   (method, url), headers), is Model/Head.v's parse_head for every head; and the literals of the two line parsers
   (the field-value byte test, the first character demanded of the target, the protocol text) are the model's. *)
From Coq Require Import List NArith Bool.
From SV Require Import Base.Bytes Base.IO Base.SrcAst Model.Headers Model.Head Generated.SourceParams.
Import ListNotations.
Open Scope N_scope.

Lemma try_read_translated : src_problems_try_read = 0%nat.
Proof. reflexivity. Qed.

Lemma fv_byte_tie : forall b, is_fv_byte b = ((b =? src_fv_tab) || in_range src_fv_lo src_fv_hi b).
Proof. reflexivity. Qed.
Lemma target_first_tie : src_target_first = [47].
Proof. reflexivity. Qed.
Lemma protocol_tie : src_protocol = http11.
Proof. reflexivity. Qed.

Section Interp.
Variable url_parse : bytes -> option (bytes * option bytes).
Notation prl := (parse_request_line url_parse).
Notation phl := (parse_header_line true true).

Record tst := mk_tst {
  t_head : option bytes;
  t_lines : option (list bytes);                  (* the iterator: what it has not yielded yet *)
  t_first : option bytes;
  t_rl : option (bytes * bytes * bytes * option bytes);
  t_headers : option hlist
}.
Inductive tflow := TRet (r : res head) | TGo (s : tst).

(* for line in lines { let header = parse_header_line(line)?; headers.push(header); } *)
Fixpoint for_lines (lines : list bytes) (acc : hlist) : res hlist :=
  match lines with
  | [] => Ok acc
  | l :: t => match phl l with Ok h => for_lines t (acc ++ [h]) | Err e => Err e | Panic => Panic end
  end.

Definition eval_tr_stmt (hb : bytes) (st : tr_stmt) (s : tst) : tflow :=
  match st with
  | TRReadHeadBytes => TGo (mk_tst (Some hb) (t_lines s) (t_first s) (t_rl s) (t_headers s))
  | TRSplitLinesTrimCr sep =>
      match t_head s with
      | Some h => TGo (mk_tst (t_head s) (Some (map trim_trailing_cr (split_on sep h))) (t_first s) (t_rl s) (t_headers s))
      | None => TRet Panic
      end
  | TRFirstLineOr ok_name =>
      match t_lines s with
      | Some [] => TRet (if ok_name then Err HE_MissingRequestLine else Panic)
      | Some (l :: rest) => TGo (mk_tst (t_head s) (Some rest) (Some l) (t_rl s) (t_headers s))
      | None => TRet Panic
      end
  | TRParseRequestLine =>
      match t_first s with
      | Some l =>
          match prl l with
          | Ok x => TGo (mk_tst (t_head s) (t_lines s) (t_first s) (Some x) (t_headers s))
          | Err e => TRet (Err e)
          | Panic => TRet Panic
          end
      | None => TRet Panic
      end
  | TRNewHeaders => TGo (mk_tst (t_head s) (t_lines s) (t_first s) (t_rl s) (Some []))
  | TRForLinesParsePush =>
      match t_lines s, t_headers s with
      | Some lines, Some acc =>
          match for_lines lines acc with
          | Ok hs => TGo (mk_tst (t_head s) (Some []) (t_first s) (t_rl s) (Some hs))
          | Err e => TRet (Err e)
          | Panic => TRet Panic
          end
      | _, _ => TRet Panic
      end
  | TROkSelf =>
      match t_rl s, t_headers s with
      | Some (m, t, p, q), Some hs => TRet (Ok (mk_head m t p q hs))
      | _, _ => TRet Panic
      end
  end.
Fixpoint eval_tr_stmts (hb : bytes) (l : list tr_stmt) (s : tst) : res head :=
  match l with
  | [] => Panic
  | st :: rest => match eval_tr_stmt hb st s with TRet r => r | TGo s' => eval_tr_stmts hb rest s' end
  end.
Definition eval_try_read (hb : bytes) : res head := eval_tr_stmts hb src_try_read (mk_tst None None None None None).

Lemma for_lines_spec lines : forall acc,
  for_lines lines acc = match parse_header_lines true true lines with
                        | Ok hs => Ok (acc ++ hs) | Err e => Err e | Panic => Panic end.
Proof.
  induction lines as [|l t IH]; intros acc; cbn [for_lines parse_header_lines]; [now rewrite app_nil_r|].
  destruct (phl l) as [h|e|]; try reflexivity.
  rewrite IH. destruct (parse_header_lines true true t) as [hs|e|]; try reflexivity.
  now rewrite <- app_assoc.
Qed.

Theorem try_read_tie : forall hb, eval_try_read hb = parse_head url_parse hb.
Proof.
  intros hb. unfold eval_try_read, src_try_read, parse_head, parse_head_gen.
  cbn [eval_tr_stmts eval_tr_stmt t_head t_lines t_first t_rl t_headers].
  destruct (map trim_trailing_cr (split_on 10 hb)) as [|rl lines]; [reflexivity|].
  cbn [eval_tr_stmts eval_tr_stmt t_head t_lines t_first t_rl t_headers].
  destruct (prl rl) as [[[[m t] p] q]|e|]; try reflexivity.
  cbn [eval_tr_stmts eval_tr_stmt t_head t_lines t_first t_rl t_headers].
  rewrite for_lines_spec. destruct (parse_header_lines true true lines) as [hs|e|]; reflexivity.
Qed.
End Interp.

(* ---- read_http_head: the read loop; read_head_bytes: the delimiter ---- *)
Lemma read_head_translated : src_problems_read_head = 0%nat.
Proof. reflexivity. Qed.

(* try_read_gen searches for crlf2 and consumes n + 4 bytes: the source's literals *)
Lemma head_delim_tie : src_head_delim = crlf2 /\ src_head_delim_consumed = N.of_nat (length crlf2).
Proof. split; reflexivity. Qed.

Definition http_error_of (e : rh_err) : http_error :=
  match e with
  | RHEHeadTooLong => E_HeadTooLong
  | RHEDisconnected => E_Disconnected
  | RHETruncated => E_Truncated
  | RHEOther => E_MalformedCookieHeader          (* no such statement in the model: the tie fails *)
  end.

Section ReadLoopInterp.
Variable url_parse : bytes -> option (bytes * option bytes).
Variable cap : nat.

Inductive rflow := RRet (o : outcome) | RGo (b : fbuf) (s : instream).

Definition eval_rh_stmt (fuel : nat) (st : rh_stmt) (b : fbuf) (s : instream) : rflow :=
  match st with
  | RHTryRead =>
      match try_read url_parse b with
      | (Ok h, b') => RRet (ROk h b' s)
      | (Panic, _) => RRet RPanic
      | (Err HE_Truncated, b') => RGo b' s
      | (Err e, b') => RRet (RErr (of_head_error e) b' s)
      end
  | RHReturnIfFull e => if (fb_writable cap b =? 0)%nat then RRet (RErr (http_error_of e) b s) else RGo b s
  | RHRead e_empty e_some =>
      match fuel with
      | O => RRet ROutOfFuel                      (* the model's bound on the number of reads *)
      | S _ =>
          let '(got, s') := next_read (fb_writable cap b) s in
          match got with
          | [] => match fb_data b with
                  | [] => RRet (RErr (http_error_of e_empty) b s')
                  | _ => RRet (RErr (http_error_of e_some) b s')
                  end
          | _ => match fb_wrote cap b got with
                 | Some b'' => RGo b'' s'
                 | None => RRet RPanic
                 end
          end
      end
  end.
Fixpoint eval_rh_body (fuel : nat) (l : list rh_stmt) (b : fbuf) (s : instream) : rflow :=
  match l with
  | [] => RGo b s
  | st :: rest => match eval_rh_stmt fuel st b s with RRet o => RRet o | RGo b' s' => eval_rh_body fuel rest b' s' end
  end.
(* loop { body }: one unit of fuel per completed iteration *)
Fixpoint eval_read_http_head (body : list rh_stmt) (fuel : nat) (b : fbuf) (s : instream) : outcome :=
  match eval_rh_body fuel body b s with
  | RRet o => o
  | RGo b' s' => match fuel with O => ROutOfFuel | S f => eval_read_http_head body f b' s' end
  end.

Theorem read_http_head_tie : forall fuel b s,
  eval_read_http_head src_read_http_head fuel b s = read_head url_parse cap fuel b s.
Proof.
  unfold read_head, try_read.
  induction fuel as [|f IH]; intros b s; cbn [eval_read_http_head read_head_gen]; unfold src_read_http_head;
    cbn [eval_rh_body eval_rh_stmt]; unfold try_read;
    destruct (try_read_gen url_parse true true b) as [[h|e|] b']; try reflexivity;
    destruct e; try reflexivity; cbn [eval_rh_body eval_rh_stmt http_error_of];
    destruct (fb_writable cap b' =? 0)%nat; try reflexivity; cbn [eval_rh_body eval_rh_stmt http_error_of].
  destruct (next_read (fb_writable cap b') s) as [got s'].
  destruct got as [|g got]; [destruct (fb_data b'); reflexivity|].
  destruct (fb_wrote cap b' (g :: got)) as [b''|]; [|reflexivity].
  cbn [eval_rh_body]. apply IH.
Qed.
End ReadLoopInterp.
