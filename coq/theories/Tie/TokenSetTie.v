(* Tie/TokenSetTie.v -- src/token_set.rs as TRANSLATED on this run (Generated/SourceParams.v: src_ts_new, src_ts_drop,
   src_ts_takes), interpreted over the model's token-set state, is Model/TokenSet.v: `new(size)` leaves `size` units in
   a channel of capacity `size`; dropping a Token is a try_send whose failure is ignored; each of the three take
   functions receives one unit and hands out a clone of the sender. *)
From Coq Require Import List Arith Bool Lia.
From SV Require Import Base.SrcAst Model.TokenSet Generated.SourceParams.
Import ListNotations.

Lemma token_set_translated : src_problems_token_set = 0%nat.
Proof. reflexivity. Qed.

(* try_send on the bounded channel: Some = accepted, None = Full *)
Definition try_send (t : tset) : option tset :=
  if ts_avail t <? ts_size t then Some (mk_tset (ts_size t) (S (ts_avail t)) (ts_live t) (ts_lost t)) else None.

(* `for _ in 0..k { sender.try_send(()).unwrap(); }` -- None = an unwrap on Full panics *)
Fixpoint fill (k : nat) (t : tset) : option tset :=
  match k with
  | O => Some t
  | S k' => match try_send t with Some t' => fill k' t' | None => None end
  end.

(* the statements of `new(size)`: a channel is there only after sync_channel; the struct only after Self(..) *)
Fixpoint eval_ts_new (sts : list ts_new_stmt) (size : nat) (chan : option tset) : option tset :=
  match sts with
  | [] => None                                   (* no `Self(..)`: nothing is returned *)
  | TNChannelOfSize :: rest => eval_ts_new rest size (Some (mk_tset size 0 0 0))
  | TNFillTrySendUnwrap :: rest =>
      match chan with
      | Some t => match fill size t with Some t' => eval_ts_new rest size (Some t') | None => None end
      | None => None
      end
  | TNSelf :: _ => chan
  end.

Lemma fill_ok : forall k n a, a + k <= n -> fill k (mk_tset n a 0 0) = Some (mk_tset n (a + k) 0 0).
Proof.
  induction k as [|k IH]; intros n a H; cbn [fill].
  - now rewrite Nat.add_0_r.
  - unfold try_send. cbn [ts_avail ts_size ts_live ts_lost].
    destruct (Nat.ltb_spec a n) as [_|Hge]; [|lia].
    rewrite IH by lia. f_equal. f_equal. lia.
Qed.

Theorem token_set_new_tie : forall n, eval_ts_new src_ts_new n None = Some (ts_new n).
Proof.
  intros n. unfold src_ts_new. cbn [eval_ts_new]. rewrite (fill_ok n n 0) by lia. reflexivity.
Qed.

(* Token::drop: the unit goes back if there is room, is lost otherwise; either way the token is gone *)
Definition eval_ts_drop (sts : list ts_drop_stmt) (t : tset) : option tset :=
  match sts with
  | [TDTrySendIgnore] =>
      Some (match try_send t with
            | Some t' => mk_tset (ts_size t') (ts_avail t') (pred (ts_live t')) (ts_lost t')
            | None => mk_tset (ts_size t) (ts_avail t) (pred (ts_live t)) (S (ts_lost t))
            end)
  | _ => None
  end.
Theorem token_drop_tie : forall t, eval_ts_drop src_ts_drop t = Some (ts_drop t).
Proof.
  intros t. unfold src_ts_drop, eval_ts_drop, ts_drop, try_send. destruct (ts_avail t <? ts_size t); reflexivity.
Qed.

(* the three take functions: a unit is received (None = the call waits or times out), a Token is handed out *)
Definition eval_ts_take (st : ts_take_stmt) (t : tset) : option tset :=
  match st with TTRecvThenCloneSender => ts_recv t end.
Theorem token_take_tie : length src_ts_takes = 3 /\ Forall (fun st => forall t, eval_ts_take st t = ts_recv t) src_ts_takes.
Proof. split; [reflexivity|]. unfold src_ts_takes. repeat constructor. Qed.
