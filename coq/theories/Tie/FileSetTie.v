(* Tie/FileSetTie.v -- PrefixFileSet (src/log/prefix_file_set.rs) as TRANSLATED from the source on this run
   (Generated/SourceParams.v: src_pfs_ definitions), interpreted here, is the model of Model/LogFile.v:
   - Ord for PrefixFile: a chain of comparisons with reversed operands (BinaryHeap is a max-heap, so the entry that
     compares GREATEST pops first: reversed operands make that the smallest mtime, then the smallest path) is the
     model's heap order after D18 (key_leb);
   - delete_oldest statement by statement (peek, remove the file or return Err, subtract its length, pop) is the
     model's delete_oldest for every state, build profile and tie schedule;
   - the loops delete_older_than (strictly older than now - duration) and delete_oldest_while_over_max_len (strictly
     over) test what the model's older_loop / over_loop test;
   - push adds the length and then the entry. *)
From Coq Require Import List NArith Bool Lia.
From SV Require Import Base.Bytes Base.SrcAst Model.LogFile Proofs.LogFileP Generated.SourceParams.
Import ListNotations.
Open Scope N_scope.

Lemma fileset_translated : src_problems_pfs = 0%nat /\ src_pfs_new_shape_ok = true.
Proof. split; reflexivity. Qed.

(* ---------------------------------------------------------------- Ord for PrefixFile *)
(* [a] pops no later than [b]: lexicographic over the chain.  A link with reversed operands orders ascending by its
   field (the smallest is the heap's maximum), a link with straight operands descending.  Paths of one directory
   compare like the model's name keys. *)
Definition field_lt (f : pf_field) (a b : pfile) : bool :=
  match f with
  | PFmtime => p_mtime a <? p_mtime b
  | PFlen => p_len a <? p_len b
  | PFpath => negb (lex_leb (name_key (p_name b)) (name_key (p_name a)))
  end.
Definition field_eq (f : pf_field) (a b : pfile) : bool :=
  match f with
  | PFmtime => p_mtime a =? p_mtime b
  | PFlen => p_len a =? p_len b
  | PFpath => lex_leb (name_key (p_name a)) (name_key (p_name b)) && lex_leb (name_key (p_name b)) (name_key (p_name a))
  end.
Fixpoint chain_leb (ch : list (pf_field * bool)) (a b : pfile) : bool :=
  match ch with
  | [] => true
  | (f, rev) :: rest =>
      let lt := if rev then field_lt f a b else field_lt f b a in
      lt || (field_eq f a b && chain_leb rest a b)
  end.

Theorem ord_tie : forall a b, chain_leb src_pfs_cmp a b = heap_leb fix18 a b.
Proof.
  intros a b. unfold src_pfs_cmp, heap_leb, fix18, post. cbn [v_fix18 chain_leb field_lt field_eq]. unfold key_leb.
  destruct (p_mtime a <? p_mtime b); [reflexivity|]. cbn [orb].
  destruct (p_mtime a =? p_mtime b); [|reflexivity]. cbn [andb].
  destruct (lex_leb (name_key (p_name b)) (name_key (p_name a))) eqn:E; cbn [negb orb andb].
  - now rewrite !andb_true_r.
  - destruct (lex_leb_total (name_key (p_name a)) (name_key (p_name b))) as [H|H]; [now rewrite H | congruence].
Qed.
(* PartialEq compares the same fields the order does: two entries are equal iff neither precedes the other *)
Theorem eq_fields_tie : src_pfs_eq = map fst src_pfs_cmp.
Proof. reflexivity. Qed.

(* ---------------------------------------------------------------- delete_oldest *)
(* what the statements executed so far have in hand: the peeked entry and the heap without it *)
Record denv := mkDenv { d_file : option (pfile * list pfile); d_done : bool }.
Definition eval_dstmt (v : variant) (m : mode) (st : dstmt) (s : denv * sys) : res (denv * sys) :=
  let '(e, (fs, ps)) := s in
  match st with
  | DPeekUnwrap =>
      (* BinaryHeap::peek: one of the entries that are first in the heap order (which one is the tie schedule's
         choice); None.unwrap() panics *)
      match pop v (hd O (ties ps)) (entries ps) with
      | None => RPanic
      | Some (f, rest) => ROk (mkDenv (Some (f, rest)) false, (fs, mkPset (entries ps) (slen ps) (tl (ties ps))))
      end
  | DRemoveFileOrErr =>
      match d_file e with
      | None => RPanic
      | Some (f, _) => match fs_remove (p_name f) fs with
                       | None => RErr (e, (fs, ps))
                       | Some fs' => ROk (e, (fs', ps))
                       end
      end
  | DLenSubFileLen =>
      match d_file e with
      | None => RPanic
      | Some (f, _) => match sub64 m (slen ps) (p_len f) with
                       | None => RPanic
                       | Some l => ROk (e, (fs, mkPset (entries ps) l (ties ps)))
                       end
      end
  | DPop =>
      match d_file e with
      | None => RPanic
      | Some (_, rest) => ROk (e, (fs, mkPset rest (slen ps) (ties ps)))
      end
  | DOk => ROk (mkDenv (d_file e) true, (fs, ps))
  end.
Fixpoint eval_dstmts (v : variant) (m : mode) (sts : list dstmt) (s : denv * sys) : res (denv * sys) :=
  match sts with
  | [] => ROk s
  | st :: rest => bind (eval_dstmt v m st s) (eval_dstmts v m rest) (fun x => x)
  end.
Definition eval_delete_oldest (v : variant) (m : mode) (s : sys) : res sys :=
  match eval_dstmts v m src_pfs_delete_oldest (mkDenv None false, s) with
  | ROk (e, s') => if d_done e then ROk s' else RPanic
  | RErr (_, s') => RErr s'
  | RPanic => RPanic
  end.

Theorem delete_oldest_tie : forall v m s, eval_delete_oldest v m s = delete_oldest v m s.
Proof.
  intros v m [fs ps]. unfold eval_delete_oldest, delete_oldest, src_pfs_delete_oldest.
  cbn [eval_dstmts eval_dstmt bind].
  destruct (pop v (hd O (ties ps)) (entries ps)) as [[f rest]|]; cbn [bind eval_dstmts eval_dstmt d_file]; [|reflexivity].
  destruct (fs_remove (p_name f) fs) as [fs'|]; cbn [bind eval_dstmts eval_dstmt d_file entries slen ties]; [|reflexivity].
  destruct (sub64 m (slen ps) (p_len f)) as [l|]; cbn [bind eval_dstmts eval_dstmt d_file d_done entries slen ties]; reflexivity.
Qed.

(* ---------------------------------------------------------------- the two loops and push *)
Definition loop_test (c : loop_cmp) (x y : N) : bool :=
  match c with LcLt => x <? y | LcLe => x <=? y | LcGt => y <? x | LcGe => y <=? x end.
(* delete_older_than: `file.mtime <cmp> min_mtime` is the model's test `mm <? thr` *)
Theorem older_loop_tie : forall mm thr, loop_test src_pfs_older_cmp mm thr = (mm <? thr).
Proof. reflexivity. Qed.
(* delete_oldest_while_over_max_len: `self.len <cmp> max_len` is the model's test `max_len <? slen` *)
Theorem over_loop_tie : forall len mx, loop_test src_pfs_over_cmp len mx = (mx <? len).
Proof. reflexivity. Qed.

Definition eval_pstmt (m : mode) (e : pfile) (st : pstmt) (ps : pset) : res pset :=
  match st with
  | PLenAddFileLen => match add64 m (slen ps) (p_len e) with
                      | Some l => ROk (mkPset (entries ps) l (ties ps))
                      | None => RPanic
                      end
  | PHeapPush => ROk (mkPset (entries ps ++ [e]) (slen ps) (ties ps))
  end.
Fixpoint eval_pstmts (m : mode) (e : pfile) (sts : list pstmt) (ps : pset) : res pset :=
  match sts with
  | [] => ROk ps
  | st :: rest => bind (eval_pstmt m e st ps) (eval_pstmts m e rest) (fun x => x)
  end.
Theorem push_tie : forall b18 m e ps, eval_pstmts m e src_pfs_push ps = push (post b18) m e ps.
Proof.
  intros b18 m e ps. unfold src_pfs_push, push. cbn [post v_push_counts eval_pstmts eval_pstmt].
  destruct (add64 m (slen ps) (p_len e)); reflexivity.
Qed.
